import Revm.Proofs.EvmInstTgt3
/-! Frame condition, part 4: `TDone` / `TOutcome` (what one resolved instruction does to `target` / `caller` / `spec`,
and: a call action that transfers no value — DELEGATECALL, EXTDELEGATECALL — runs on the frame's own `target`), the
instructions that ask the host. -/
set_option linter.unusedSimpArgs false
set_option linter.unusedVariables false
namespace Revm.Proofs.EvmInstTgt
open Revm Revm.Model Revm.Model.Interp

attribute [local irreducible] gasCharge getS check requireNonStatic requireEof requireInitEof requireSome assumeNotEof
  gasOrFail refund advancePc setEof popN popTop setTop push stackCall stackCallAdv asUsizeOrFail resizeMem memSlice
  memSliceRange memGetU256 memSetU256 memSetByte memSetData memCopy codeSlice codeByte jumpRel getEof loadEofCode
  haltWith haltOut faultWith modifyS liftMemWrite pop1 pop2 pop3 pop4 popAddress popTop1 popTop2 popTop3 readU16 readI16

/-- a call action without value transfer (DELEGATECALL / EXTDELEGATECALL) keeps the frame's target -/
abbrev DelegTgt (s0 : IState) (a : Action) : Prop :=
  ∀ i, a = .call i → i.valueTransfer = false → i.targetAddress = s0.target

/-- what one resolved instruction does to its frame: `target`, `caller` and `spec` stay; a call action without value
transfer has the frame's own target as its target address -/
inductive TDone (s : IState) : Done → Prop
  | next {s'} (h : KeptT s s') : TDone s (.next s')
  | halt {r o s'} (h : KeptT s s') : TDone s (.halt r o s')
  | fault {f} : TDone s (.fault f)
  | action {a s'} (h : KeptT s s')
      (hq : ∀ i, a = .call i → i.valueTransfer = false → i.targetAddress = s.target) : TDone s (.action a s')

inductive TOutcome (s : IState) : Outcome → Prop
  | pure {d} (h : TDone s d) : TOutcome s (.pure d)
  | host {op k} (h : ∀ r, TDone s (k r)) : TOutcome s (.host op k)

section
variable {s0 s : IState}

theorem toDone_target {e : Exec Unit} (h : KeepT s0 T e) : TDone s0 e.toDone := by
  cases h with
  | ok h _ => exact .next h
  | halt h => exact .halt h
  | fault => exact .fault

/-- the postcondition of a handler that hands out an action -/
abbrev ActT (s0 : IState) : Action → IState → Prop := fun a _ => DelegTgt s0 a
abbrev ActTOpt (s0 : IState) : Option Action → IState → Prop :=
  fun a _ => ∀ x, a = some x → DelegTgt s0 x

theorem toDoneAction_target {e : Exec Action} (h : KeepT s0 (ActT s0) e) : TDone s0 e.toDoneAction := by
  cases h with
  | ok h hq => exact .action h hq
  | halt h => exact .halt h
  | fault => exact .fault

theorem toDoneOptAction_target {e : Exec (Option Action)} (h : KeepT s0 (ActTOpt s0) e) : TDone s0 e.toDoneOptAction := by
  cases h with
  | @ok a s' h hq =>
    cases a with
    | none => exact .next h
    | some x => exact .action h (hq x rfl)
  | halt h => exact .halt h
  | fault => exact .fault

theorem hostCall_target {β} {pre : M (HostOp × β)} {post : β → HostResp → M Unit}
    (hpre : KeepT s0 T (pre s0)) (hpost : ∀ b r s', KeptT s0 s' → KeepT s0 T (post b r s')) :
    TOutcome s0 (hostCall pre post s0) := by
  unfold hostCall
  cases hp : pre s0 with
  | ok p s' =>
    obtain ⟨op, b⟩ := p
    rw [hp] at hpre
    cases hpre with
    | ok hk _ => exact .host (fun r => toDone_target (hpost b r s' hk))
  | halt r o s' => rw [hp] at hpre; cases hpre with | halt hk => exact .pure (.halt hk)
  | fault f => exact .pure .fault

theorem hostCallAction_target {β} {pre : M (HostOp × β)} {post : β → HostResp → M Action}
    (hpre : KeepT s0 T (pre s0)) (hpost : ∀ b r s', KeptT s0 s' → KeepT s0 (ActT s0) (post b r s')) :
    TOutcome s0 (hostCallAction pre post s0) := by
  unfold hostCallAction
  cases hp : pre s0 with
  | ok p s' =>
    obtain ⟨op, b⟩ := p
    rw [hp] at hpre
    cases hpre with
    | ok hk _ => exact .host (fun r => toDoneAction_target (hpost b r s' hk))
  | halt r o s' => rw [hp] at hpre; cases hpre with | halt hk => exact .pure (.halt hk)
  | fault f => exact .pure .fault

theorem hostCallOptAction_target {β} {pre : M (HostOp × β)} {post : β → HostResp → M (Option Action)}
    (hpre : KeepT s0 T (pre s0)) (hpost : ∀ b r s', KeptT s0 s' → KeepT s0 (ActTOpt s0) (post b r s')) :
    TOutcome s0 (hostCallOptAction pre post s0) := by
  unfold hostCallOptAction
  cases hp : pre s0 with
  | ok p s' =>
    obtain ⟨op, b⟩ := p
    rw [hp] at hpre
    cases hpre with
    | ok hk _ => exact .host (fun r => toDoneOptAction_target (hpost b r s' hk))
  | halt r o s' => rw [hp] at hpre; cases hpre with | halt hk => exact .pure (.halt hk)
  | fault f => exact .pure .fault

/-! ## the reading / writing host instructions -/

theorem keepT_keccakPre (h : KeptT s0 s) : KeepT s0 T (keccakPre s) := by unfold keccakPre; tgt_auto

theorem keccak256I_target (s : IState) : TOutcome s (keccak256I s) := by
  unfold keccak256I
  have hk := keepT_keccakPre (KeptT.refl s)
  generalize keccakPre s = e at hk
  cases hk with
  | @ok d s' hk' _ =>
    cases d with
    | none => exact .pure (toDone_target (keepT_setTop hk' _))
    | some data => exact .host (fun r => toDone_target (keepT_setTop hk' _))
  | halt hk' => exact .pure (.halt hk')
  | fault => exact .pure .fault

theorem balanceI_target (s : IState) : TOutcome s (balanceI s) := by
  unfold balanceI
  have h := KeptT.refl s
  refine hostCall_target ?_ (fun b r s' h => ?_) <;> tgt_auto
theorem selfbalanceI_target (s : IState) : TOutcome s (selfbalanceI s) := by
  unfold selfbalanceI
  have h := KeptT.refl s
  refine hostCall_target ?_ (fun b r s' h => ?_) <;> tgt_auto
theorem extcodesizeI_target (s : IState) : TOutcome s (extcodesizeI s) := by
  unfold extcodesizeI
  have h := KeptT.refl s
  refine hostCall_target ?_ (fun b r s' h => ?_) <;> tgt_auto
theorem extcodehashI_target (s : IState) : TOutcome s (extcodehashI s) := by
  unfold extcodehashI
  have h := KeptT.refl s
  refine hostCall_target ?_ (fun b r s' h => ?_) <;> tgt_auto
theorem extcodecopyI_target (s : IState) : TOutcome s (extcodecopyI s) := by
  unfold extcodecopyI
  have h := KeptT.refl s
  refine hostCall_target ?_ (fun b r s' h => ?_) <;> tgt_auto
theorem blockhashI_target (s : IState) : TOutcome s (blockhashI s) := by
  unfold blockhashI
  have h := KeptT.refl s
  refine hostCall_target ?_ (fun b r s' h => ?_) <;> tgt_auto
theorem sloadI_target (s : IState) : TOutcome s (sloadI s) := by
  unfold sloadI
  have h := KeptT.refl s
  refine hostCall_target ?_ (fun b r s' h => ?_) <;> tgt_auto
theorem sstoreI_target (s : IState) : TOutcome s (sstoreI s) := by
  unfold sstoreI
  have h := KeptT.refl s
  refine hostCall_target ?_ (fun b r s' h => ?_) <;> tgt_auto
theorem tstoreI_target (s : IState) : TOutcome s (tstoreI s) := by
  unfold tstoreI
  have h := KeptT.refl s
  refine hostCall_target ?_ (fun b r s' h => ?_) <;> tgt_auto
theorem tloadI_target (s : IState) : TOutcome s (tloadI s) := by
  unfold tloadI
  have h := KeptT.refl s
  refine hostCall_target ?_ (fun b r s' h => ?_) <;> tgt_auto
theorem logI_target (n : Nat) (s : IState) : TOutcome s (logI n s) := by
  unfold logI
  have h := KeptT.refl s
  refine hostCall_target ?_ (fun b r s' h => ?_) <;> tgt_auto
theorem selfdestructI_target (s : IState) : TOutcome s (selfdestructI s) := by
  unfold selfdestructI
  have h := KeptT.refl s
  refine hostCall_target ?_ (fun b r s' h => ?_) <;> tgt_auto

end
end Revm.Proofs.EvmInstTgt
