import Revm.Spec.Db
/-! Proofs for C20 (database wrappers). Core Lean only. -/
set_option linter.unusedSimpArgs false
set_option linter.unusedVariables false
namespace Revm.Proofs.Db
open Revm.Model.Db Revm.Spec.Db

theorem Data.ext' {v w : Data} (h1 : v.basic = w.basic) (h2 : v.storage = w.storage)
    (h3 : v.code = w.code) (h4 : v.blockHash = w.blockHash) : v = w := by
  cases v; cases w; simp_all

/-! ## queries of `CacheDB`: the answer is the view's answer, and the view does not change -/

theorem basic_answer (b : Data) (c : CacheDB) (a : Addr) :
    (c.basic b a).2 = (c.view b).basic a := by
  unfold CacheDB.basic
  simp only [CacheDB.view_def]
  cases h : c.accounts a with
  | some acc => simp [h]
  | none =>
    cases hb : b.basic a <;> simp [h, hb, DbAccount.ofOpt, DbAccount.infoOpt, DbAccount.newNotExisting, DbAccount.ofInfo]

theorem basic_view (b : Data) (hb : Consistent b) (c : CacheDB) (a : Addr) :
    (c.basic b a).1.view b = c.view b := by
  unfold CacheDB.basic
  cases h : c.accounts a with
  | some acc => simp [h]
  | none =>
    simp only [h]
    apply Data.ext'
    · funext x
      simp only [CacheDB.view_def, upd]
      by_cases hx : x = a
      · subst hx
        cases hbx : b.basic x <;> simp [h, hbx, DbAccount.ofOpt, DbAccount.infoOpt, DbAccount.newNotExisting, DbAccount.ofInfo]
      · simp [hx]
    · funext x k
      simp only [CacheDB.view_def, upd]
      by_cases hx : x = a
      · subst hx
        cases hbx : b.basic x with
        | none => simp [h, hbx, DbAccount.ofOpt, DbAccount.newNotExisting, AccState.zeroUnknown, hb.absent_zero x hbx k]
        | some i => simp [h, hbx, DbAccount.ofOpt, DbAccount.ofInfo, AccState.zeroUnknown]
      · simp [hx]
    · rfl
    · rfl


theorem storage_answer (b : Data) (hb : Consistent b) (c : CacheDB) (a : Addr) (k : Slot) :
    (c.storage b a k).2 = (c.view b).storage a k := by
  unfold CacheDB.storage
  simp only [CacheDB.view_def]
  cases h : c.accounts a with
  | some acc =>
    simp only [h]
    cases hs : acc.storage k with
    | some v => simp [hs]
    | none =>
      simp only [hs]
      by_cases hz : acc.state.zeroUnknown = true <;> simp [hz]
  | none =>
    simp only [h]
    cases hbx : b.basic a with
    | none => simp [hb.absent_zero a hbx k]
    | some i => simp

theorem storage_view (b : Data) (hb : Consistent b) (c : CacheDB) (a : Addr) (k : Slot) :
    (c.storage b a k).1.view b = c.view b := by
  unfold CacheDB.storage
  cases h : c.accounts a with
  | some acc =>
    simp only [h]
    cases hs : acc.storage k with
    | some v => simp [hs]
    | none =>
      simp only [hs]
      by_cases hz : acc.state.zeroUnknown = true
      · simp [hz]
      · simp only [hz]
        apply Data.ext'
        · funext x
          simp only [CacheDB.view_def, upd]
          by_cases hx : x = a
          · subst hx; simp [upd, h, DbAccount.infoOpt]
          · simp [upd, hx]
        · funext x k'
          simp only [CacheDB.view_def, upd]
          by_cases hx : x = a
          · subst hx
            by_cases hk : k' = k
            · subst hk; simp [upd, h, hs, hz]
            · simp [upd, h, hk, hz]
          · simp [upd, hx]
        · rfl
        · rfl
  | none =>
    simp only [h]
    cases hbx : b.basic a with
    | none =>
      simp only []
      apply Data.ext'
      · funext x
        simp only [CacheDB.view_def, upd]
        by_cases hx : x = a
        · subst hx; simp [upd, h, hbx, DbAccount.infoOpt, DbAccount.newNotExisting]
        · simp [upd, hx]
      · funext x k'
        simp only [CacheDB.view_def, upd]
        by_cases hx : x = a
        · subst hx; simp [upd, h, DbAccount.newNotExisting, AccState.zeroUnknown, hb.absent_zero x hbx k']
        · simp [upd, hx]
      · rfl
      · rfl
    | some i =>
      simp only []
      apply Data.ext'
      · funext x
        simp only [CacheDB.view_def, upd]
        by_cases hx : x = a
        · subst hx; simp [upd, h, hbx, DbAccount.infoOpt, DbAccount.ofInfo]
        · simp [upd, hx]
      · funext x k'
        simp only [CacheDB.view_def, upd]
        by_cases hx : x = a
        · subst hx
          by_cases hk : k' = k
          · subst hk; simp [upd, h, DbAccount.ofInfo]
          · simp [upd, h, hk, DbAccount.ofInfo, AccState.zeroUnknown]
        · simp [upd, hx]
      · rfl
      · rfl

theorem code_answer (b : Data) (c : CacheDB) (h : Hash) :
    (c.codeByHash b h).2 = (c.view b).code h := by
  unfold CacheDB.codeByHash
  simp only [CacheDB.view_def]
  cases hc : c.contracts h <;> simp [hc]

theorem code_view (b : Data) (c : CacheDB) (h : Hash) :
    (c.codeByHash b h).1.view b = c.view b := by
  unfold CacheDB.codeByHash
  cases hc : c.contracts h with
  | some x => simp [hc]
  | none =>
    simp only [hc]
    apply Data.ext'
    · rfl
    · rfl
    · funext x
      simp only [CacheDB.view_def, upd]
      by_cases hx : x = h
      · subst hx; simp [hc]
      · simp [hx]
    · rfl

theorem blockHash_answer (b : Data) (c : CacheDB) (n : Nat) :
    (c.blockHash b n).2 = (c.view b).blockHash n := by
  unfold CacheDB.blockHash
  simp only [CacheDB.view_def]
  cases hc : c.blockHashes n <;> simp [hc]

theorem blockHash_view (b : Data) (c : CacheDB) (n : Nat) :
    (c.blockHash b n).1.view b = c.view b := by
  unfold CacheDB.blockHash
  cases hc : c.blockHashes n with
  | some x => simp [hc]
  | none =>
    simp only [hc]
    apply Data.ext'
    · rfl
    · rfl
    · rfl
    · funext x
      simp only [CacheDB.view_def, upd]
      by_cases hx : x = n
      · subst hx; simp [hc]
      · simp [hx]

/-- every data query of a `CacheDB` answers like its `&self` reading -/
theorem query_answer (b : Data) (hb : Consistent b) (c : CacheDB) (q : DQuery) :
    (c.query b q.toQuery).2 = answer (c.view b) q := by
  cases q with
  | basic a => simp [DQuery.toQuery, CacheDB.query, answer, basic_answer]
  | storage a k => simp [DQuery.toQuery, CacheDB.query, answer, storage_answer b hb]
  | code h => simp [DQuery.toQuery, CacheDB.query, answer, code_answer]
  | blockHash n => simp [DQuery.toQuery, CacheDB.query, answer, blockHash_answer]

/-- ... and leaves that reading unchanged: caching never changes an answer -/
theorem query_view (b : Data) (hb : Consistent b) (c : CacheDB) (q : Query) :
    (c.query b q).1.view b = c.view b := by
  cases q with
  | basic a => simp [CacheDB.query, basic_view b hb]
  | storage a k => simp [CacheDB.query, storage_view b hb]
  | code h => simp [CacheDB.query, code_view]
  | blockHash n => simp [CacheDB.query, blockHash_view]
  | hasStorage a => simp [CacheDB.query]

/-! ## the immutable path (`impl DatabaseRef for CacheDB`) against the mutable one -/

theorem refQuery_answer (b : Data) (c : CacheDB) (q : DQuery) :
    c.refQuery b q.toQuery = answer (c.view b) q := by
  cases q <;> rfl

/-- all five queries: the `_ref` method answers what the `&mut self` method answers -/
theorem ref_eq_mut (b : Data) (hb : Consistent b) (c : CacheDB) (q : Query) :
    c.refQuery b q = (c.query b q).2 := by
  cases q with
  | basic a => exact (refQuery_answer b c (.basic a)).trans (query_answer b hb c (.basic a)).symm
  | storage a k => exact (refQuery_answer b c (.storage a k)).trans (query_answer b hb c (.storage a k)).symm
  | code h => exact (refQuery_answer b c (.code h)).trans (query_answer b hb c (.code h)).symm
  | blockHash n => exact (refQuery_answer b c (.blockHash n)).trans (query_answer b hb c (.blockHash n)).symm
  | hasStorage a => rfl

/-- what the mutable path caches never changes an answer of the immutable path -/
theorem refQuery_after_query (b : Data) (hb : Consistent b) (c : CacheDB) (q q' : Query) :
    (c.query b q).1.refQuery b q' = c.refQuery b q' := by
  have hv := query_view b hb c q
  cases q' with
  | basic a => exact congrArg (fun v : Data => Reply.info (v.basic a)) hv
  | storage a k => exact congrArg (fun v : Data => Reply.word (v.storage a k)) hv
  | code h => exact congrArg (fun v : Data => Reply.code (v.code h)) hv
  | blockHash n => exact congrArg (fun v : Data => Reply.word (v.blockHash n)) hv
  | hasStorage a => rfl

theorem loadAccount_view (b : Data) (hb : Consistent b) (c : CacheDB) (a : Addr) :
    (c.loadAccount b a).1.view b = c.view b := by
  have := basic_view b hb c a
  unfold CacheDB.basic at this
  unfold CacheDB.loadAccount
  cases h : c.accounts a with
  | some acc => simp [h]
  | none => simpa [h] using this


/-! ## updates of `CacheDB` -/

theorem insertContract_accounts (c : CacheDB) (i : Info) : (c.insertContract i).1.accounts = c.accounts := by
  unfold CacheDB.insertContract
  cases hc : i.code with
  | none => simp [hc]
  | some code =>
    by_cases he : code.isEmpty = true
    · simp [hc, he]
    · cases hk : c.contracts (codeKey i code) <;> simp [hc, he, hk]

theorem insertContract_blockHashes (c : CacheDB) (i : Info) : (c.insertContract i).1.blockHashes = c.blockHashes := by
  unfold CacheDB.insertContract
  cases hc : i.code with
  | none => simp [hc]
  | some code =>
    by_cases he : code.isEmpty = true
    · simp [hc, he]
    · cases hk : c.contracts (codeKey i code) <;> simp [hc, he, hk]

theorem insertContract_code (b : Data) (c : CacheDB) (i : Info) (hok : CodeOk c i) :
    ((c.insertContract i).1.view b).code = (addCode (c.view b) i).code := by
  unfold CacheDB.insertContract addCode
  cases hc : i.code with
  | none => simp [hc]
  | some code =>
    by_cases he : code.isEmpty = true
    · simp [hc, he]
    · have he' : code.isEmpty = false := by simpa using he
      cases hk : c.contracts (codeKey i code) with
      | none =>
        simp only [hc, he, hk]
        funext x
        simp only [CacheDB.view_def, upd]
        by_cases hx : x = codeKey i code <;> simp [upd, hx, he']
      | some old =>
        have := hok code hc he'
        rw [hk] at this
        have hold : old = code := by simpa using this
        subst hold
        simp only [hc, he, hk]
        funext x
        simp only [CacheDB.view_def]
        by_cases hx : x = codeKey i old
        · subst hx; simp [hk, he']
        · simp [hx, he']

theorem addCode_basic (v : Data) (i : Info) : (addCode v i).basic = v.basic := by
  unfold addCode; cases i.code with
  | none => rfl
  | some code => by_cases he : code.isEmpty = true <;> simp [he]
theorem addCode_storage (v : Data) (i : Info) : (addCode v i).storage = v.storage := by
  unfold addCode; cases i.code with
  | none => rfl
  | some code => by_cases he : code.isEmpty = true <;> simp [he]
theorem addCode_blockHash (v : Data) (i : Info) : (addCode v i).blockHash = v.blockHash := by
  unfold addCode; cases i.code with
  | none => rfl
  | some code => by_cases he : code.isEmpty = true <;> simp [he]

theorem insertAccountInfo_view (b : Data) (c : CacheDB) (a : Addr) (i : Info)
    (hok : CodeOk c i) (hna : NotCachedAbsent c a) :
    (c.insertAccountInfo a i).view b = setInfo (c.view b) a i := by
  have hacc := insertContract_accounts c i
  have hbh := insertContract_blockHashes c i
  have hcode := insertContract_code b c i hok
  have hinfo : (c.insertContract i).2 = normInfo i := rfl
  unfold CacheDB.insertAccountInfo setInfo
  apply Data.ext'
  · funext x
    simp only [CacheDB.view_def, upd, CacheDB.orDefault, hacc]
    by_cases hx : x = a
    · subst hx
      cases h : c.accounts x with
      | none => simp [h, DbAccount.infoOpt, DbAccount.default, hinfo]
      | some acc => simp [h, DbAccount.infoOpt, hna acc h, hinfo]
    · simp [hx]
  · funext x k
    simp only [CacheDB.view_def, upd, CacheDB.orDefault, hacc, addCode_storage]
    by_cases hx : x = a
    · subst hx
      cases h : c.accounts x with
      | none => simp [h, DbAccount.default, AccState.zeroUnknown]
      | some acc => simp [h]
    · simp [hx]
  · exact hcode
  · simp only [addCode_blockHash]
    funext n
    simp only [CacheDB.view_def, hbh]

theorem insertAccountStorage_view (b : Data) (hb : Consistent b) (c : CacheDB) (a : Addr) (k : Slot) (x : Nat) :
    (c.insertAccountStorage b a k x).view b = setSlot (c.view b) a k x := by
  unfold CacheDB.insertAccountStorage CacheDB.loadAccount setSlot
  cases h : c.accounts a with
  | some acc =>
    apply Data.ext'
    · funext y
      simp only [h, CacheDB.view_def, upd]
      by_cases hy : y = a
      · subst hy; simp [upd, h, DbAccount.infoOpt]
      · simp [hy]
    · funext y k'
      simp only [h, CacheDB.view_def, upd]
      by_cases hy : y = a
      · subst hy
        by_cases hk : k' = k
        · subst hk; simp [upd, h]
        · simp [upd, h, hk]
      · simp [hy]
    · rfl
    · rfl
  | none =>
    apply Data.ext'
    · funext y
      simp only [h, CacheDB.view_def, upd]
      by_cases hy : y = a
      · subst hy
        cases hbx : b.basic y <;> simp [upd, h, hbx, DbAccount.ofOpt, DbAccount.infoOpt, DbAccount.newNotExisting, DbAccount.ofInfo]
      · simp [hy]
    · funext y k'
      simp only [h, CacheDB.view_def, upd]
      by_cases hy : y = a
      · subst hy
        by_cases hk : k' = k
        · subst hk; simp [upd, h]
        · cases hbx : b.basic y with
          | none => simp [upd, h, hk, hbx, DbAccount.ofOpt, DbAccount.newNotExisting, AccState.zeroUnknown, hb.absent_zero y hbx k']
          | some i => simp [upd, h, hk, hbx, DbAccount.ofOpt, DbAccount.ofInfo, AccState.zeroUnknown]
      · simp [hy]
    · rfl
    · rfl

theorem replaceAccountStorage_view (b : Data) (c : CacheDB) (a : Addr) (m : List (Slot × Nat))
    (hex : (c.view b).basic a ≠ none) :
    (c.replaceAccountStorage b a m).view b = replaceStorage (c.view b) a m := by
  unfold CacheDB.replaceAccountStorage CacheDB.loadAccount replaceStorage
  cases h : c.accounts a with
  | some acc =>
    have hst : acc.state ≠ .notExisting := by
      intro hs; apply hex; simp [CacheDB.view_def, h, DbAccount.infoOpt, hs]
    apply Data.ext'
    · funext y
      simp only [h, CacheDB.view_def, upd]
      by_cases hy : y = a
      · subst hy; simp [h, DbAccount.infoOpt, hst]
      · simp [hy]
    · funext y k'
      simp only [h, CacheDB.view_def, upd]
      by_cases hy : y = a
      · subst hy; cases hl : lookupSlot m k' <;> simp [hl, AccState.zeroUnknown]
      · simp [hy]
    · rfl
    · rfl
  | none =>
    have hbx : b.basic a ≠ none := by
      intro hs; apply hex; simp [CacheDB.view_def, h, hs]
    cases hbi : b.basic a with
    | none => exact absurd hbi hbx
    | some i =>
      apply Data.ext'
      · funext y
        simp only [h, CacheDB.view_def, upd]
        by_cases hy : y = a
        · subst hy; simp [h, hbi, DbAccount.ofOpt, DbAccount.infoOpt, DbAccount.ofInfo]
        · simp [hy]
      · funext y k'
        simp only [h, CacheDB.view_def, upd]
        by_cases hy : y = a
        · subst hy; cases hl : lookupSlot m k' <;> simp [hl, AccState.zeroUnknown]
        · simp [hy]
      · rfl
      · rfl


theorem commitOne_view (b : Data) (c : CacheDB) (ch : Change) (hg : GoodChange b c ch) :
    (c.commitOne ch).view b = commitOne (c.view b) ch := by
  unfold CacheDB.commitOne Spec.Db.commitOne
  by_cases ht : ch.touched = true
  case neg => simp [ht]
  by_cases hsd : ch.selfdestructed = true
  · simp only [ht, hsd, Bool.not_true, Bool.false_eq_true, if_false, if_true]
    apply Data.ext'
    · funext x
      simp only [CacheDB.view_def, upd]
      by_cases hx : x = ch.addr <;> simp [hx, DbAccount.infoOpt]
    · funext x k
      simp only [CacheDB.view_def, upd]
      by_cases hx : x = ch.addr <;> simp [hx, AccState.zeroUnknown]
    · rfl
    · rfl
  · have hsd' : ch.selfdestructed = false := by simpa using hsd
    obtain ⟨hok, hst⟩ := hg ht hsd'
    have hacc := insertContract_accounts c ch.info
    have hbh := insertContract_blockHashes c ch.info
    have hcode := insertContract_code b c ch.info hok
    have hinfo : (c.insertContract ch.info).2 = normInfo ch.info := rfl
    simp only [ht, hsd, Bool.not_true, Bool.false_eq_true, if_false]
    apply Data.ext'
    · funext x
      simp only [CacheDB.view_def, upd, hacc]
      by_cases hx : x = ch.addr
      · simp only [hx, if_true]
        by_cases hcr : ch.created = true
        · simp [hcr, DbAccount.infoOpt, hinfo]
        · by_cases hcl : (CacheDB.orDefault (c.insertContract ch.info).1 ch.addr).state = .storageCleared
          · simp [hcr, hcl, DbAccount.infoOpt, hinfo]
          · simp [hcr, hcl, DbAccount.infoOpt, hinfo]
      · simp [hx]
    · funext x k
      simp only [CacheDB.view_def, upd, hacc, addCode_storage]
      by_cases hx : x = ch.addr
      · simp only [hx, if_true, extendStorage]
        cases hl : lookupSlot ch.storage k with
        | some v => simp [hl]
        | none =>
          by_cases hcr : ch.created = true
          · simp [hl, hcr, AccState.zeroUnknown]
          · have hcr' : ch.created = false := by simpa using hcr
            simp only [hl, hcr, if_false, CacheDB.orDefault, hacc]
            cases h : c.accounts ch.addr with
            | none => simp [DbAccount.default, AccState.zeroUnknown]
            | some acc =>
              simp only []
              cases hs : acc.storage k with
              | some v => by_cases hcl : acc.state = .storageCleared <;> simp [hcl, hs]
              | none =>
                cases hstate : acc.state with
                | storageCleared => simp [hs, hstate, AccState.zeroUnknown]
                | touched => simp [hs, hstate, AccState.zeroUnknown]
                | none => simp [hs, hstate, AccState.zeroUnknown]
                | notExisting =>
                  simp [hs, hstate, AccState.zeroUnknown, hst hcr' acc h hstate k hs]
      · simp [hx]
    · simp only [CacheDB.view_def] at hcode ⊢
      exact hcode
    · simp only [addCode_blockHash]
      funext n
      simp only [CacheDB.view_def, hbh]

theorem commit_view (b : Data) (chs : List Change) : ∀ (c : CacheDB), GoodCommit b c chs →
    (c.commit chs).view b = commit (c.view b) chs := by
  induction chs with
  | nil => intro c _; rfl
  | cons ch r ih =>
    intro c hg
    obtain ⟨h1, h2⟩ := hg
    simp only [CacheDB.commit, Spec.Db.commit, List.foldl_cons]
    have := ih (c.commitOne ch) h2
    simp only [CacheDB.commit, Spec.Db.commit] at this
    rw [this, commitOne_view b c ch h1]

/-! ## histories -/

theorem cstep_sim (b : Data) (hb : Consistent b) (c : CacheDB) (op : Op) (hg : GoodOp b c op) :
    (cstep b c op).2 = (step (c.view b) op).2 ∧ (cstep b c op).1.view b = (step (c.view b) op).1 := by
  cases op with
  | query q => exact ⟨by simp [cstep, step, query_answer b hb], by simp [cstep, step, query_view b hb]⟩
  | refQuery q => exact ⟨rfl, rfl⟩
  | load a => exact ⟨rfl, by simp [cstep, step, loadAccount_view b hb]⟩
  | insertInfo a i => exact ⟨rfl, by simp [cstep, step, insertAccountInfo_view b c a i hg.1 hg.2]⟩
  | insertSlot a k x => exact ⟨rfl, by simp [cstep, step, insertAccountStorage_view b hb]⟩
  | replaceStorage a m => exact ⟨rfl, by simp [cstep, step, replaceAccountStorage_view b c a m hg]⟩
  | commit chs => exact ⟨rfl, by simp [cstep, step, commit_view b chs c hg]⟩

theorem crun_eq (b : Data) (hb : Consistent b) (ops : List Op) : ∀ (c : CacheDB), GoodRun b c ops →
    crun b c ops = run (c.view b) ops := by
  induction ops with
  | nil => intro c _; rfl
  | cons op r ih =>
    intro c hg
    obtain ⟨h1, h2⟩ := hg
    have hs := cstep_sim b hb c op h1
    simp only [crun, run]
    rw [ih _ h2, hs.1, hs.2]

theorem view_new (b : Data) (hb : Consistent b) : CacheDB.new.view b = b := by
  apply Data.ext'
  · rfl
  · rfl
  · funext h
    simp only [CacheDB.view_def, CacheDB.new]
    by_cases h1 : h = KECCAK_EMPTY
    · subst h1; simp [hb.code_empty]
    · by_cases h2 : h = 0
      · subst h2; simp [hb.code_zero]
      · simp [h1, h2]
  · rfl


/-! ## asking twice: same answer, and the second time nothing is written -/

theorem query_idem (b : Data) (c : CacheDB) (q : Query) :
    (c.query b q).1.query b q = ((c.query b q).1, (c.query b q).2) := by
  cases q with
  | basic a =>
    simp only [CacheDB.query, CacheDB.basic]
    cases h : c.accounts a with
    | some acc => simp [h]
    | none => simp [h, upd]
  | storage a k =>
    simp only [CacheDB.query, CacheDB.storage]
    cases h : c.accounts a with
    | some acc =>
      simp only [h]
      cases hs : acc.storage k with
      | some v => simp [h, hs]
      | none =>
        by_cases hz : acc.state.zeroUnknown = true
        · simp [h, hs, hz]
        · simp [h, hs, hz, upd]
    | none =>
      simp only [h]
      cases hb : b.basic a with
      | none => simp [upd, DbAccount.newNotExisting, AccState.zeroUnknown]
      | some i => simp [upd, DbAccount.ofInfo]
  | code h =>
    simp only [CacheDB.query, CacheDB.codeByHash]
    cases hc : c.contracts h with
    | some x => simp [hc]
    | none => simp [hc, upd]
  | blockHash n =>
    simp only [CacheDB.query, CacheDB.blockHash]
    cases hc : c.blockHashes n with
    | some x => simp [hc]
    | none => simp [hc, upd]
  | hasStorage a => simp [CacheDB.query]

/-! ## `State`: the block-hash cache and its pruning -/

/-- every cached pair is what the inner database answers -/
def BhOk (f : Nat → Hash) (m : List (Nat × Hash)) : Prop := ∀ p ∈ m, p.2 = f p.1

theorem btLookup_ok (f : Nat → Hash) (m : List (Nat × Hash)) (hm : BhOk f m) (n : Nat) (h : Hash)
    (hl : btLookup m n = some h) : h = f n := by
  induction m with
  | nil => simp [btLookup] at hl
  | cons p r ih =>
    obtain ⟨k, v⟩ := p
    simp only [btLookup] at hl
    by_cases hk : n = k
    · subst hk
      simp at hl
      have := hm (n, v) (by simp)
      simp at this
      rw [← hl, this]
    · simp [hk] at hl
      exact ih (fun p hp => hm p (by simp [hp])) hl

theorem btInsert_ok (f : Nat → Hash) (m : List (Nat × Hash)) (hm : BhOk f m) (n : Nat) :
    BhOk f (btInsert m n (f n)) := by
  induction m with
  | nil => intro p hp; simp [btInsert] at hp; subst hp; rfl
  | cons q r ih =>
    obtain ⟨k, v⟩ := q
    simp only [btInsert]
    by_cases hk : n < k
    · simp only [hk, if_true]
      intro p hp
      simp at hp
      rcases hp with hp | hp | hp
      · subst hp; rfl
      · subst hp; exact hm (k, v) (by simp)
      · exact hm p (by simp [hp])
    · simp only [hk, if_false]
      intro p hp
      simp at hp
      rcases hp with hp | hp
      · subst hp; exact hm (k, v) (by simp)
      · exact ih (fun p hp => hm p (by simp [hp])) p hp

theorem btPrune_ok (f : Nat → Hash) (m : List (Nat × Hash)) (hm : BhOk f m) (last : Nat) :
    BhOk f (btPrune m last) := by
  induction m with
  | nil => intro p hp; simp [btPrune] at hp
  | cons q r ih =>
    obtain ⟨k, v⟩ := q
    simp only [btPrune]
    by_cases hk : k < last
    · simp only [hk, if_true]; exact ih (fun p hp => hm p (by simp [hp]))
    · simp only [hk, if_false]; exact hm

/-- one `block_hash` query of `State` whose inner database answers `f n`: the answer is `f n`
whatever has been cached or pruned before, and the cache stays correct -/
theorem state_blockHash_step (f : Nat → Hash) (s : StateDb) (hs : BhOk f s.blockHashes) (n : Nat) :
    (s.step (.blockHash n) (.word (f n))).2.2 = .word (f n) ∧
    BhOk f (s.step (.blockHash n) (.word (f n))).2.1.blockHashes := by
  simp only [StateDb.step]
  cases hl : btLookup s.blockHashes n with
  | some h =>
    have := btLookup_ok f _ hs n h hl
    subst this
    exact ⟨rfl, hs⟩
  | none =>
    exact ⟨rfl, btPrune_ok f _ (btInsert_ok f _ hs n) _⟩

/-- the block-hash answers of `State` along a whole sequence of queries -/
def stateBhRun (f : Nat → Hash) (s : StateDb) : List Nat → List Reply
  | [] => []
  | n :: r => (s.step (.blockHash n) (.word (f n))).2.2 :: stateBhRun f (s.step (.blockHash n) (.word (f n))).2.1 r

theorem stateBhRun_eq (f : Nat → Hash) (ns : List Nat) : ∀ (s : StateDb), BhOk f s.blockHashes →
    stateBhRun f s ns = ns.map (fun n => Reply.word (f n)) := by
  induction ns with
  | nil => intro s _; rfl
  | cons n r ih =>
    intro s hs
    have := state_blockHash_step f s hs n
    simp only [stateBhRun, List.map_cons]
    rw [this.1, ih _ this.2]

/-- after a miss for block `n`, nothing older than `n - 256` is kept -/
theorem btPrune_bound (m : List (Nat × Hash)) (last : Nat)
    (hsorted : List.Pairwise (fun p q : Nat × Hash => p.1 < q.1) m) :
    ∀ p ∈ btPrune m last, last ≤ p.1 := by
  induction m with
  | nil => intro p hp; simp [btPrune] at hp
  | cons q r ih =>
    obtain ⟨k, v⟩ := q
    simp only [btPrune]
    have hr := (List.pairwise_cons.mp hsorted)
    by_cases hk : k < last
    · simp only [hk, if_true]; exact ih hr.2
    · simp only [hk, if_false]
      intro p hp
      simp at hp
      rcases hp with hp | hp
      · subst hp; simp; omega
      · have := hr.1 p hp; simp at this; omega

end Revm.Proofs.Db

namespace Revm.Proofs.Db
open Revm.Model.Db Revm.Spec.Db

/-! ## `State`: account / storage / code read caches, and whole stacks of wrappers -/

/-- what is cached in a `State` is what the inner database (reading `v`) answers -/
def StOk (v : Data) (s : StateDb) : Prop :=
  (∀ a acc, s.accounts a = some acc →
     acc.status = (CacheAccount.ofOpt (v.basic a)).status ∧
     acc.accountInfo = stateBasic (v.basic a) ∧
     (∀ i st, acc.account = some (i, st) → ∀ k x, st k = some x → x = v.storage a k)) ∧
  (∀ h c, s.contracts h = some c → c = v.code h) ∧
  BhOk v.blockHash s.blockHashes

def stateView (v : Data) : Data := { v with basic := fun a => stateBasic (v.basic a) }

theorem stOk_new (v : Data) : StOk v StateDb.new :=
  ⟨by intro a acc h; simp [StateDb.new] at h, by intro h c hc; simp [StateDb.new] at hc,
   by intro p hp; simp [StateDb.new] at hp⟩

theorem ofOpt_account_some (oi : Option Info) (i : Info) (st : Slot → Option Nat)
    (acc : CacheAccount) (hst : acc.status = (CacheAccount.ofOpt oi).status)
    (hinfo : acc.accountInfo = stateBasic oi) (h : acc.account = some (i, st)) :
    acc.status.isStorageKnown = false ∧ oi ≠ none := by
  cases oi with
  | none =>
    simp [stateBasic, CacheAccount.ofOpt, CacheAccount.accountInfo, h] at hinfo
  | some j =>
    refine ⟨?_, by simp⟩
    rw [hst]
    unfold CacheAccount.ofOpt
    by_cases he : j.isEmpty = true <;> simp [he, StStatus.isStorageKnown]

theorem state_step (v : Data) (hv : Consistent v) (s : StateDb) (hs : StOk v s) (q : DQuery)
    (hl : ∀ a k, q = .storage a k → s.accounts a ≠ none) :
    (s.step q.toQuery (answer v q)).2.2 = answer (stateView v) q ∧
    StOk v (s.step q.toQuery (answer v q)).2.1 := by
  obtain ⟨hacc, hcode, hbh⟩ := hs
  cases q with
  | basic a =>
    simp only [DQuery.toQuery, StateDb.step, answer, stateView]
    cases h : s.accounts a with
    | some acc => simp only [h]; exact ⟨by rw [(hacc a acc h).2.1], hacc, hcode, hbh⟩
    | none =>
      simp only [h]
      refine ⟨rfl, ?_, hcode, hbh⟩
      intro x acc hx
      simp only [upd] at hx
      by_cases hxa : x = a
      · subst hxa
        simp at hx
        subst hx
        refine ⟨rfl, rfl, ?_⟩
        intro i st hi k y hy
        unfold CacheAccount.ofOpt at hi
        cases hb : v.basic x with
        | none => simp [hb] at hi
        | some j =>
          by_cases he : j.isEmpty = true
          · simp [hb, he] at hi; obtain ⟨_, h2⟩ := hi; subst h2; simp at hy
          · simp [hb, he] at hi; obtain ⟨_, h2⟩ := hi; subst h2; simp at hy
      · simp [hxa] at hx; exact hacc x acc hx
  | storage a k =>
    simp only [DQuery.toQuery, StateDb.step, answer, stateView]
    cases h : s.accounts a with
    | none => exact absurd h (hl a k rfl)
    | some acc =>
      obtain ⟨hst, hinfo, hslots⟩ := hacc a acc h
      simp only [h]
      cases hacct : acc.account with
      | none =>
        simp only []
        have : v.basic a = none := by
          cases hb : v.basic a with
          | none => rfl
          | some j =>
            simp [stateBasic, CacheAccount.accountInfo, hacct, hb, CacheAccount.ofOpt] at hinfo
            by_cases he : j.isEmpty = true <;> simp [he] at hinfo
        exact ⟨by rw [hv.absent_zero a this k], hacc, hcode, hbh⟩
      | some p =>
        obtain ⟨i, st⟩ := p
        simp only []
        cases hk : st k with
        | some x => simp only []; exact ⟨by rw [hslots i st hacct k x hk], hacc, hcode, hbh⟩
        | none =>
          have hnk := (ofOpt_account_some (v.basic a) i st acc hst hinfo hacct).1
          simp only [hnk, Bool.false_eq_true, if_false]
          refine ⟨by first | rfl | trivial, ?_, hcode, hbh⟩
          intro x acc' hx
          simp only [upd] at hx
          by_cases hxa : x = a
          · subst hxa
            simp at hx
            subst hx
            refine ⟨hst, ?_, ?_⟩
            · simpa [CacheAccount.accountInfo, hacct] using hinfo
            · intro i' st' hi' k' y hy
              simp at hi'
              obtain ⟨_, h2⟩ := hi'
              subst h2
              simp only [upd] at hy
              by_cases hkk : k' = k
              · subst hkk; simp at hy; exact hy.symm
              · simp [hkk] at hy; exact hslots i st hacct k' y hy
          · simp [hxa] at hx; exact hacc x acc' hx
  | code h =>
    simp only [DQuery.toQuery, StateDb.step, answer, stateView]
    cases hc : s.contracts h with
    | some c => simp only []; exact ⟨by rw [hcode h c hc], hacc, hcode, hbh⟩
    | none =>
      simp only []
      refine ⟨by first | rfl | trivial, hacc, ?_, hbh⟩
      intro x c hx
      simp only [upd] at hx
      by_cases hxh : x = h
      · subst hxh; simp at hx; exact hx.symm
      · simp [hxh] at hx; exact hcode x c hx
  | blockHash n =>
    have := state_blockHash_step v.blockHash s hbh n
    simp only [DQuery.toQuery, answer, stateView]
    refine ⟨this.1, ?_, ?_, this.2⟩
    · simp only [StateDb.step]
      cases hl : btLookup s.blockHashes n <;> exact hacc
    · simp only [StateDb.step]
      cases hl : btLookup s.blockHashes n <;> exact hcode

/-- every layer's caches agree with what is below it, and what is below is a state -/
def WF : Db → Prop
  | .base b => Consistent b.toData
  | .empty _ => True
  | .cache i _ => WF i ∧ Consistent i.view.toData
  | .state i s => WF i ∧ Consistent i.view.toData ∧ StOk i.view.toData s
  | .wrapRef i => WF i
  | .fwd i => WF i
  | .components i => WF i

/-- `State::storage` may only be asked for a loaded account (`unreachable!` otherwise): every
`State` layer the query passes through has the account in its cache -/
def Ready : Db → DQuery → Prop
  | .state i s, q => (∀ a k, q = .storage a k → s.accounts a ≠ none) ∧ Ready i q
  | .fwd i, q => Ready i q
  | .components i, q => Ready i q
  | _, _ => True

theorem base_answer (b : Base) (q : DQuery) : b.answer q.toQuery = answer b.toData q := by
  cases q <;> rfl

theorem stack_query (d : Db) : ∀ (q : DQuery), WF d → Ready d q →
    (d.query q.toQuery).2 = answer d.view.toData q ∧ (d.query q.toQuery).1.view = d.view ∧
    WF (d.query q.toQuery).1 := by
  induction d with
  | base b => intro q hw _; exact ⟨base_answer b q, rfl, hw⟩
  | empty k => intro q hw _; exact ⟨base_answer _ q, rfl, hw⟩
  | cache i c ih =>
    intro q hw _
    obtain ⟨hwi, hc⟩ := hw
    refine ⟨query_answer i.view.toData hc c q, ?_, hwi, hc⟩
    simp only [Db.query, Db.view, query_view i.view.toData hc c q.toQuery]
    rfl
  | wrapRef i ih => intro q hw _; exact ⟨base_answer i.view q, rfl, hw⟩
  | fwd i ih =>
    intro q hw hr
    obtain ⟨h1, h2, h3⟩ := ih q hw hr
    exact ⟨h1, by simp only [Db.query, Db.view, h2], h3⟩
  | components i ih =>
    intro q hw hr
    obtain ⟨h1, h2, h3⟩ := ih q hw hr
    have hq : (Db.components i).query q.toQuery =
        (Db.components (i.query q.toQuery).1, (i.query q.toQuery).2) := by cases q <;> rfl
    rw [hq]
    refine ⟨?_, by simp only [Db.view, h2], h3⟩
    rw [h1]; cases q <;> rfl
  | state i s ih =>
    intro q hw hr
    obtain ⟨hwi, hc, hs⟩ := hw
    obtain ⟨hl, hri⟩ := hr
    obtain ⟨h1, h2, h3⟩ := ih q hwi hri
    have hst := state_step i.view.toData hc s hs q hl
    simp only [Db.query, h1]
    refine ⟨?_, ?_, ?_⟩
    · rw [hst.1]; cases q <;> rfl
    · by_cases ht : (s.step q.toQuery (answer i.view.toData q)).1 = true
      · simp only [ht, if_true, Db.view, h2]
      · simp only [ht, Bool.false_eq_true, if_false, Db.view]
    · by_cases ht : (s.step q.toQuery (answer i.view.toData q)).1 = true
      · simp only [ht, if_true, WF, h2]; exact ⟨h3, hc, hst.2⟩
      · simp only [ht, Bool.false_eq_true, if_false, WF]; exact ⟨hwi, hc, hst.2⟩

end Revm.Proofs.Db
