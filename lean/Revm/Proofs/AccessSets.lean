import Revm.Proofs.JournalInv
import Revm.Spec.AccessHistory
/-! C34: the cold/warm flags of the journal model refine the access sets of `Spec/AccessSets.lean` along
every admissible, well-nested history. -/
namespace Revm.Proofs.Access
open Revm Revm.Model.Journal Revm.Spec.JournalAbs Revm.Proofs.Journal Revm.Spec.AccessHistory
open Revm.Spec.AccessSets (Access Sets State)
set_option linter.unusedSimpArgs false
set_option linter.unusedVariables false

/-! ## the set machine -/

def SetsEq (x y : Sets) : Prop := (∀ a, x.addrs a = y.addrs a) ∧ (∀ a k, x.slots a k = y.slots a k)
def SetsLe (x y : Sets) : Prop :=
  (∀ a, x.addrs a = true → y.addrs a = true) ∧ (∀ a k, x.slots a k = true → y.slots a k = true)

theorem SetsEq.refl (x : Sets) : SetsEq x x := ⟨fun _ => rfl, fun _ _ => rfl⟩
theorem SetsEq.symm {x y : Sets} (h : SetsEq x y) : SetsEq y x := ⟨fun a => (h.1 a).symm, fun a k => (h.2 a k).symm⟩
theorem SetsEq.trans {x y z : Sets} (h1 : SetsEq x y) (h2 : SetsEq y z) : SetsEq x z :=
  ⟨fun a => (h1.1 a).trans (h2.1 a), fun a k => (h1.2 a k).trans (h2.2 a k)⟩
theorem SetsLe.refl (x : Sets) : SetsLe x x := ⟨fun _ h => h, fun _ _ h => h⟩
theorem SetsLe.trans {x y z : Sets} (h1 : SetsLe x y) (h2 : SetsLe y z) : SetsLe x z :=
  ⟨fun a h => h2.1 a (h1.1 a h), fun a k h => h2.2 a k (h1.2 a k h)⟩

theorem add_addrs (s : Sets) (x : Access) (b : Addr) :
    (s.add x).addrs b = (s.addrs b || x == Access.addr b) := by
  cases x with
  | addr a => by_cases h : b = a
              · subst h; simp [Sets.add]
              · have : ¬ a = b := fun e => h e.symm
                simp [Sets.add, h, this]
  | slot a k => simp [Sets.add]

theorem add_slots (s : Sets) (x : Access) (b : Addr) (j : Nat) :
    (s.add x).slots b j = (s.slots b j || x == Access.slot b j) := by
  cases x with
  | addr a => simp [Sets.add]
  | slot a k => by_cases h : b = a ∧ j = k
                · obtain ⟨rfl, rfl⟩ := h; simp [Sets.add]
                · have : ¬ (a = b ∧ k = j) := fun e => h ⟨e.1.symm, e.2.symm⟩
                  simp only [Sets.add]
                  by_cases h1 : b = a <;> by_cases h2 : j = k <;> simp_all

theorem addAll_addrs (xs : List Access) (s : Sets) (b : Addr) :
    (s.addAll xs).addrs b = (s.addrs b || xs.contains (Access.addr b)) := by
  induction xs generalizing s with
  | nil => simp [Sets.addAll]
  | cons x xs ih =>
    simp only [Sets.addAll, List.foldl_cons] at *
    rw [ih, add_addrs, List.contains_cons, Bool.or_assoc]
    congr 1
    by_cases h : x = Access.addr b
    · subst h; simp
    · have h2 : ¬ Access.addr b = x := fun e => h e.symm
      have e1 : (x == Access.addr b) = false := by simp [h]
      have e2 : (Access.addr b == x) = false := by simp [h2]
      rw [e1, e2]

theorem addAll_slots (xs : List Access) (s : Sets) (b : Addr) (j : Nat) :
    (s.addAll xs).slots b j = (s.slots b j || xs.contains (Access.slot b j)) := by
  induction xs generalizing s with
  | nil => simp [Sets.addAll]
  | cons x xs ih =>
    simp only [Sets.addAll, List.foldl_cons] at *
    rw [ih, add_slots, List.contains_cons, Bool.or_assoc]
    congr 1
    by_cases h : x = Access.slot b j
    · subst h; simp
    · have h2 : ¬ Access.slot b j = x := fun e => h e.symm
      have e1 : (x == Access.slot b j) = false := by simp [h]
      have e2 : (Access.slot b j == x) = false := by simp [h2]
      rw [e1, e2]

theorem accessAll_cur (xs : List Access) (st : State) :
    (Spec.AccessSets.accessAll st xs).1.cur = st.cur.addAll xs ∧ (Spec.AccessSets.accessAll st xs).1.snaps = st.snaps ∧
    (Spec.AccessSets.accessAll st xs).1.pre = st.pre := by
  induction xs generalizing st with
  | nil => simp [Spec.AccessSets.accessAll, Sets.addAll]
  | cons x xs ih =>
    simp only [Spec.AccessSets.accessAll, Spec.AccessSets.access]
    obtain ⟨h1, h2, h3⟩ := ih { st with cur := st.cur.add x }
    exact ⟨by rw [h1]; simp [Sets.addAll], h2, h3⟩

theorem accessAll_bits1 (st : State) (x : Access) : (Spec.AccessSets.accessAll st [x]).2 = [!st.cur.has x] := by
  simp [Spec.AccessSets.accessAll, Spec.AccessSets.access, Spec.AccessSets.isCold]

theorem accessAll_bits2 (st : State) (x y : Access) :
    (Spec.AccessSets.accessAll st [x, y]).2 = [!st.cur.has x, !(st.cur.add x).has y] := by
  simp [Spec.AccessSets.accessAll, Spec.AccessSets.access, Spec.AccessSets.isCold]

/-! ## the model's warm component as sets -/

def warmSets (db : Db) (s : JState) : Sets :=
  { addrs := (absT db s).warm, slots := fun a k => ((absT db s).slot a k).warm }

def aAddrs (xs : List Access) : List Addr := xs.filterMap fun | .addr a => some a | _ => none
def aSlots (xs : List Access) : List (Addr × Nat) := xs.filterMap fun | .slot a k => some (a, k) | _ => none

theorem aAddrs_contains (xs : List Access) (b : Addr) : (aAddrs xs).contains b = xs.contains (Access.addr b) := by
  induction xs with
  | nil => rfl
  | cons x xs ih =>
    cases x with
    | addr a =>
      show (a :: aAddrs xs).contains b = (Access.addr a :: xs).contains (Access.addr b)
      rw [List.contains_cons, List.contains_cons, ih]
      congr 1
      by_cases h : b = a
      · subst h; simp
      · have : ¬ Access.addr b = Access.addr a := fun e => h (by cases e; rfl)
        have e1 : (b == a) = false := Bool.eq_false_iff.2 (fun e => h (eq_of_beq e))
        have e2 : (Access.addr b == Access.addr a) = false := Bool.eq_false_iff.2 (fun e => this (eq_of_beq e))
        rw [e1, e2]
    | slot a k =>
      show (aAddrs xs).contains b = (Access.slot a k :: xs).contains (Access.addr b)
      rw [List.contains_cons, ih]
      have : (Access.addr b == Access.slot a k) = false := by simp
      rw [this]; simp

theorem aSlots_contains (xs : List Access) (b : Addr) (j : Nat) :
    (aSlots xs).contains (b, j) = xs.contains (Access.slot b j) := by
  induction xs with
  | nil => rfl
  | cons x xs ih =>
    cases x with
    | addr a =>
      show (aSlots xs).contains (b, j) = (Access.addr a :: xs).contains (Access.slot b j)
      rw [List.contains_cons, ih]
      have : (Access.slot b j == Access.addr a) = false := by simp
      rw [this]; simp
    | slot a k =>
      show ((a, k) :: aSlots xs).contains (b, j) = (Access.slot a k :: xs).contains (Access.slot b j)
      rw [List.contains_cons, List.contains_cons, ih]
      congr 1
      by_cases h : b = a ∧ j = k
      · obtain ⟨rfl, rfl⟩ := h; simp
      · have h1 : ¬ Access.slot b j = Access.slot a k := fun e => h (by cases e; exact ⟨rfl, rfl⟩)
        have h2 : ¬ (b, j) = (a, k) := fun e => h (by cases e; exact ⟨rfl, rfl⟩)
        have e1 : ((b, j) == (a, k)) = false := Bool.eq_false_iff.2 (fun e => h2 (eq_of_beq e))
        have e2 : (Access.slot b j == Access.slot a k) = false := Bool.eq_false_iff.2 (fun e => h1 (eq_of_beq e))
        rw [e1, e2]

/-- the forward warm effect, read as "the accesses `xs` were added to the sets" -/
theorem Warms.sets {db : Db} {s s' : JState} {xs : List Access} (w : Warms db s s' (aAddrs xs) (aSlots xs)) :
    SetsEq (warmSets db s') ((warmSets db s).addAll xs) :=
  ⟨fun a => by rw [addAll_addrs, ← aAddrs_contains]; exact w.addr a,
   fun a k => by rw [addAll_slots, ← aSlots_contains]; exact w.slot a k⟩



/-- one iteration of the slot-preloading loop of `initial_account_load` -/
def preloadSlot (db : Db) (a : Addr) (acc : Acct) (k : Nat) : Acct :=
  match acc.storage k with
  | some _ => acc
  | none => let v := db.storage a k; setSlot acc k { orig := v, present := v, cold := false }

def preloadSlots (db : Db) (a : Addr) (acc : Acct) (ks : List Nat) : Acct := ks.foldl (preloadSlot db a) acc

/-- what the loop leaves alone, and the slots it makes warm (their values are what the database says, which
is what an absent slot of a not-created account reads anyway) -/
structure Preloaded (db : Db) (a : Addr) (acc acc' : Acct) (ks : List Nat) : Prop where
  info : acc'.info = acc.info
  created : acc'.created = acc.created
  selfdestructed : acc'.selfdestructed = acc.selfdestructed
  touched : acc'.touched = acc.touched
  notExisting : acc'.notExisting = acc.notExisting
  cold : acc'.cold = acc.cold
  slots : ∀ j, slotsOf db a false acc'.storage j =
      { slotsOf db a false acc.storage j with warm := (slotsOf db a false acc.storage j).warm || ks.contains j }

theorem preloadSlots_spec (db : Db) (a : Addr) (ks : List Nat) (acc : Acct)
    (hw : ∀ k, k ∈ ks → ∀ sl, acc.storage k = some sl → sl.cold = false) :
    Preloaded db a acc (preloadSlots db a acc ks) ks := by
  induction ks generalizing acc with
  | nil => exact ⟨rfl, rfl, rfl, rfl, rfl, rfl, fun j => by simp [preloadSlots]⟩
  | cons k ks ih =>
    show Preloaded db a acc (preloadSlots db a (preloadSlot db a acc k) ks) (k :: ks)
    cases hk : acc.storage k with
    | some sl =>
      have e : preloadSlot db a acc k = acc := by simp [preloadSlot, hk]
      rw [e]
      have r := ih acc (fun k' hk' => hw k' (by simp [hk']))
      refine ⟨r.info, r.created, r.selfdestructed, r.touched, r.notExisting, r.cold, fun j => ?_⟩
      rw [r.slots j, List.contains_cons]
      by_cases hj : j = k
      · subst hj
        have hc := hw j (by simp) sl hk
        simp [slotsOf_some db a false hk, hc]
      · have : (j == k) = false := Bool.eq_false_iff.2 (fun e => hj (eq_of_beq e))
        rw [this]; simp
    | none =>
      have e : preloadSlot db a acc k =
          setSlot acc k { orig := db.storage a k, present := db.storage a k, cold := false } := by
        simp [preloadSlot, hk]
      rw [e]
      have r := ih (setSlot acc k { orig := db.storage a k, present := db.storage a k, cold := false })
        (fun k' hk' sl hsl => by
          by_cases hkk : k' = k
          · subst hkk; simp [setSlot] at hsl; rw [← hsl]
          · simp [setSlot, hkk] at hsl; exact hw k' (by simp [hk']) sl hsl)
      refine ⟨r.info, r.created, r.selfdestructed, r.touched, r.notExisting, r.cold, fun j => ?_⟩
      rw [r.slots j, List.contains_cons, slotsOf_setSlot]
      by_cases hj : j = k
      · subst hj; simp [slotsOf_none db a false hk]
      · have : (j == k) = false := Bool.eq_false_iff.2 (fun e => hj (eq_of_beq e))
        rw [this]; simp [updK, hj]

theorem initialAccountLoad_eq (db : Db) (s : JState) (a : Addr) (ks : List Nat) :
    initialAccountLoad db s a ks = setAcct s a (preloadSlots db a
      (match s.state a with
       | some acc => acc
       | none => match db.basic a with
         | some i => Acct.ofInfo i
         | none => Acct.newNotExisting) ks) := rfl


theorem map_pair_contains (a b : Addr) (ks : List Nat) (j : Nat) :
    (ks.map (fun k => (a, k))).contains (b, j) = (decide (b = a) && ks.contains j) := by
  induction ks with
  | nil => simp
  | cons k ks ih =>
    rw [List.map_cons, List.contains_cons, List.contains_cons, ih]
    by_cases hb : b = a
    · subst hb
      by_cases hj : j = k
      · subst hj; simp
      · have e1 : ((b, j) == (b, k)) = false := Bool.eq_false_iff.2 (fun e => hj (by have := eq_of_beq e; cases this; rfl))
        have e2 : (j == k) = false := Bool.eq_false_iff.2 (fun e => hj (eq_of_beq e))
        rw [e1, e2]; simp
    · have e1 : ((b, j) == (a, k)) = false := Bool.eq_false_iff.2 (fun e => hb (by have := eq_of_beq e; cases this; rfl))
      rw [e1]; simp [hb]

/-- `initial_account_load` on an account that is absent, or present, warm and not created in this
transaction, with the named slots absent or warm: exactly the account and these slots become warm, no value
changes -/
theorem initLoad_warms {db : Db} {s : JState} {a : Addr} {ks : List Nat}
    (hacc : ∀ acc, s.state a = some acc → acc.cold = false ∧ acc.created = false ∧
      ∀ k, k ∈ ks → ∀ sl, acc.storage k = some sl → sl.cold = false) :
    Warms db s (initialAccountLoad db s a ks) [a] (ks.map (fun k => (a, k))) ∧
    (absT db (initialAccountLoad db s a ks)).balance = (absT db s).balance := by
  rw [initialAccountLoad_eq]
  have hr : ∀ acc0 : Acct, acc0.storage = (fun _ => none) → acc0.created = false → acc0.cold = false →
      Preloaded db a acc0 (preloadSlots db a acc0 ks) ks :=
    fun acc0 h0 _ _ => preloadSlots_spec db a ks acc0 (fun k _ sl hsl => by rw [h0] at hsl; cases hsl)
  -- the account that is preloaded, what it is observably, and that it is warm and not created
  obtain ⟨acc0, hacc0, hc0, hcr0, r⟩ : ∃ acc0 : Acct,
      (match s.state a with
       | some acc => acc
       | none => match db.basic a with
         | some i => Acct.ofInfo i
         | none => Acct.newNotExisting) = acc0 ∧
      acc0.cold = false ∧ acc0.created = false ∧ Preloaded db a acc0 (preloadSlots db a acc0 ks) ks := by
    cases hs : s.state a with
    | some acc =>
      obtain ⟨hc, hcr, hsl⟩ := hacc acc hs
      exact ⟨acc, rfl, hc, hcr, preloadSlots_spec db a ks acc hsl⟩
    | none =>
      cases hd : db.basic a with
      | some i => exact ⟨Acct.ofInfo i, rfl, rfl, rfl, hr _ rfl rfl rfl⟩
      | none => exact ⟨Acct.newNotExisting, rfl, rfl, rfl, hr _ rfl rfl rfl⟩
  rw [hacc0]
  -- observably the account was already `acc0` up to warmth (absent entries read as the database says)
  have hbalance : (absAcct db s a).balance = acc0.info.balance := by
    cases hs : s.state a with
    | some acc => rw [hs] at hacc0; subst hacc0; simp [absAcct_some db s hs, absOf]
    | none =>
      rw [hs] at hacc0
      cases hd : db.basic a with
      | some i => rw [hd] at hacc0; subst hacc0; simp [absAcct_none db s hs, absOf, hd, Acct.ofInfo]
      | none => rw [hd] at hacc0; subst hacc0; simp [absAcct_none db s hs, absOf, hd, Acct.newNotExisting, Info.default]
  have hslots : ∀ j, ((absAcct db s a).slot j).warm = (slotsOf db a false acc0.storage j).warm := by
    intro j
    cases hs : s.state a with
    | some acc => rw [hs] at hacc0; subst hacc0; simp [absAcct_some db s hs, absOf, absSlot_some, hcr0]
    | none =>
      rw [hs] at hacc0
      cases hd : db.basic a with
      | some i => rw [hd] at hacc0; subst hacc0; simp [absAcct_none db s hs, absOf, absSlot_none, Acct.ofInfo]
      | none => rw [hd] at hacc0; subst hacc0; simp [absAcct_none db s hs, absOf, absSlot_none, Acct.newNotExisting]
  refine ⟨⟨fun b => ?_, fun b j => ?_⟩, ?_⟩
  · by_cases hb : b = a
    · subst hb; simp [absAcct_setAcct_same, absOf, r.cold, hc0]
    · have : ¬ a = b := fun e => hb e.symm
      simp [absAcct_setAcct_ne db s _ hb, hb, this]
  · rw [map_pair_contains]
    by_cases hb : b = a
    · subst hb
      simp only [absT_slot, absAcct_setAcct_same, absOf, absSlot_some, r.created, hcr0, decide_true, Bool.true_and]
      rw [r.slots j, hslots j]
    · simp [absAcct_setAcct_ne db s _ hb, hb]
  · funext b
    by_cases hb : b = a
    · subst hb; simp [absAcct_setAcct_same, absOf, r.info, hbalance]
    · simp [absAcct_setAcct_ne db s _ hb]


end Revm.Proofs.Access
