import Revm.Spec.Eof
import Revm.Model.InterpWf
/-! C25 ↔ C26, the opcode tables: the table of C25's interpreter model (`decode`) against the table of C26's validator
model (`opInfo`), entry by entry. -/
set_option linter.unusedSimpArgs false
set_option linter.unusedVariables false
namespace Revm.Proofs.Interp
open Revm Revm.Model Revm.Model.Interp

/-- tags of the instructions whose immediates refer to the container -/
def eofTag : Instr → Nat
  | .callf => 1 | .jumpf => 2 | .eofcreate => 3 | .returnContract => 4 | .rjump => 5 | .rjumpi => 6 | .rjumpv => 7
  | .codesize => 8 | .codecopy => 9 | .retf => 10 | _ => 0

def byteTag (op : Nat) : Nat :=
  if op = 0xe3 then 1 else if op = 0xe5 then 2 else if op = 0xec then 3 else if op = 0xee then 4
  else if op = 0xe0 then 5 else if op = 0xe1 then 6 else if op = 0xe2 then 7
  else if op = 0x38 then 8 else if op = 0x39 then 9 else if op = 0xe4 then 10 else 0

/-- `instrLenOf` without the RJUMPV table -/
def staticLen : Instr → Nat
  | .push n => n.val + 2
  | .rjump | .rjumpi | .callf | .jumpf | .dataloadn => 3
  | .rjumpv => 2
  | .dupn | .swapn | .exchange | .eofcreate | .returnContract => 2
  | _ => 1

def immOf (op : Nat) : Nat :=
  match EofValidate.opInfo op with
  | some inf => inf.imm
  | none => 0

def termOf (op : Nat) : Bool :=
  match EofValidate.opInfo op with
  | some inf => inf.terminating
  | none => false

def notEofOf (op : Nat) : Bool :=
  match EofValidate.opInfo op with
  | some inf => inf.notEof
  | none => true

/-- the opcode table of C25's model (`decode`) against the opcode table of C26's model (`opInfo`, itself checked
against `OPCODE_INFO_JUMPTABLE` of the compiled code by `Props.C26.opTable_matches_code`): same immediate sizes, the
container-related opcodes are the same bytes, CODESIZE / CODECOPY are disabled in EOF, what the validator calls
terminating (and allows in EOF) the interpreter model calls terminating -/
theorem opcode_tables_agree : (List.range 256).all (fun op =>
    eofTag (decode op) == byteTag op && staticLen (decode op) == 1 + immOf op &&
    ((byteTag op != 8 && byteTag op != 9) || notEofOf op) &&
    (byteTag op != 7 || (EofValidate.opInfo op).isSome) &&
    (!(termOf op) || notEofOf op || terminating (decode op))) = true := by
  decide +kernel

end Revm.Proofs.Interp
