import Revm.Proofs.StaticOps
namespace Revm.Proofs.Static
open Revm Revm.Model.Journal Revm.Spec.JournalAbs Revm.Model.Static

theorem balOk_acc {db : Db} {s : JState} {a : Addr} {acc : Acct} (hb : BalOk db s) (h : s.state a = some acc) :
    acc.info.balance < W := by
  have := hb a
  simpa [worldAcct, absAcct, h] using this

theorem balOk_of_world {db : Db} {s t : JState} (hb : BalOk db s) (hw : WorldEq db t s) : BalOk db t :=
  fun a => by rw [hw.1 a]; exact hb a

/-- the tail of `transfer` after the debit: overflow check, credit, journal entry -/
def transferCredit (s5 : JState) (src dst : Addr) (v : Nat) (toAcc : Acct) : Option (JState × Option TransferErr) :=
  if toAcc.info.balance + v ≥ W then do
    let f ← s5.state src
    some (setAcct s5 src { f with info := { f.info with balance := U256.wadd f.info.balance v } }, some .overflowPayment)
  else do
    let s ← pushEntry (setAcct s5 dst { toAcc with info := { toAcc.info with balance := toAcc.info.balance + v } })
      (.balanceTransfer src dst v)
    some (s, none)

/-- the part of `transfer` after both accounts are loaded and the sender is touched -/
def transferDebit (s3 : JState) (src dst : Addr) (v : Nat) (fa : Acct) : Option (JState × Option TransferErr) :=
  if fa.info.balance < v then some (s3, some .outOfFunds) else do
  let toAcc ← (setAcct s3 src { fa with info := { fa.info with balance := fa.info.balance - v } }).state dst
  let (s5, toAcc) ← touchAccount (setAcct s3 src { fa with info := { fa.info with balance := fa.info.balance - v } }) dst toAcc
  transferCredit s5 src dst v toAcc

theorem transfer_eq (db : Db) (s : JState) (src dst : Addr) (v : Nat) :
    transfer db s src dst v = (do
      let (s1, _) ← loadAccount db s src
      let (s2, _) ← loadAccount db s1 dst
      let fromAcc ← s2.state src
      let (s3, fa) ← touchAccount s2 src fromAcc
      transferDebit s3 src dst v fa) := rfl

theorem credit_push {s5 : JState} {src dst : Addr} {v : Nat} {toAcc : Acct} {s' : JState} {r : Option TransferErr}
    (hnov : ¬ (toAcc.info.balance + v ≥ W)) (h : transferCredit s5 src dst v toAcc = some (s', r)) :
    pushEntry (setAcct s5 dst { toAcc with info := { toAcc.info with balance := toAcc.info.balance + v } })
      (.balanceTransfer src dst v) = some s' := by
  unfold transferCredit at h
  rw [if_neg hnov] at h
  cases hp : pushEntry (setAcct s5 dst { toAcc with info := { toAcc.info with balance := toAcc.info.balance + v } })
      (.balanceTransfer src dst v) with
  | none => simp [hp] at h
  | some s6 => simp [hp] at h; rw [h.1]

theorem touchAccount_touched {s : JState} {a : Addr} {acc : Acct} (h : acc.touched = true) :
    touchAccount s a acc = some (s, acc) := by
  simp [touchAccount, h]

theorem debit_benign {db : Db} {s3 : JState} {src dst : Addr} {v : Nat} {fa : Acct} {s' : JState} {r : Option TransferErr}
    (hb3 : BalOk db s3) (hs3 : s3.state src = some fa) (htch : fa.touched = true)
    (hv : v < W) (hcase : src = dst ∨ v = 0)
    (h : transferDebit s3 src dst v fa = some (s', r)) : Benign db s3 s' := by
  have hbe : benignEntry (.balanceTransfer src dst v) = true := by
    rcases hcase with hc | hc
    · simp [benignEntry, hv, hc]
    · have h0 : 0 < W := by omega
      simp [benignEntry, hc, h0]
  have hfa : fa.info.balance < W := balOk_acc hb3 hs3
  unfold transferDebit at h
  by_cases hlt : fa.info.balance < v
  · rw [if_pos hlt] at h
    simp at h
    rw [← h.1]; exact Benign.refl _ _
  · rw [if_neg hlt] at h
    rcases hcase with hsd | hv0
    · subst hsd
      have hto : (setAcct s3 src { fa with info := { fa.info with balance := fa.info.balance - v } }).state src =
          some { fa with info := { fa.info with balance := fa.info.balance - v } } := by simp [setAcct]
      have htt : touchAccount (setAcct s3 src { fa with info := { fa.info with balance := fa.info.balance - v } }) src
          { fa with info := { fa.info with balance := fa.info.balance - v } } = some (_, _) := touchAccount_touched htch
      simp only [hto, htt, Option.bind_eq_bind, Option.bind_some] at h
      have hnov : ¬ (({ fa with info := { fa.info with balance := fa.info.balance - v } } : Acct).info.balance + v ≥ W) := by
        show ¬ (fa.info.balance - v + v ≥ W)
        omega
      have hp := credit_push hnov h
      refine (benign_setAcct2 hs3 ?_).trans (benign_push hbe hp)
      exact ⟨by show fa.info.balance = fa.info.balance - v + v; omega, rfl, rfl, rfl, rfl, rfl, fun _ => rfl⟩
    · have hsim4 : AcctSim db src fa { fa with info := { fa.info with balance := fa.info.balance - v } } :=
        ⟨by show fa.info.balance = fa.info.balance - v; omega, rfl, rfl, rfl, rfl, rfl, fun _ => rfl⟩
      have B34 := benign_setAcct_upd (db := db) hs3 hsim4
      cases hto : (setAcct s3 src { fa with info := { fa.info with balance := fa.info.balance - v } }).state dst with
      | none => simp [hto] at h
      | some toAcc =>
        cases htt : touchAccount (setAcct s3 src { fa with info := { fa.info with balance := fa.info.balance - v } }) dst toAcc with
        | none => simp [hto, htt] at h
        | some p =>
          obtain ⟨s5, toAcc'⟩ := p
          simp only [hto, htt, Option.bind_eq_bind, Option.bind_some] at h
          obtain ⟨B45, hs5, _, _⟩ := touchAccount_spec (db := db) hto htt
          have B35 := B34.trans B45
          have hb5 : BalOk db s5 := balOk_of_world hb3 B35.world
          have hto' : toAcc'.info.balance < W := balOk_acc hb5 hs5
          have hnov : ¬ (toAcc'.info.balance + v ≥ W) := by omega
          have hp := credit_push hnov h
          refine (B35.trans (benign_setAcct_upd hs5 ?_)).trans (benign_push hbe hp)
          exact ⟨by show toAcc'.info.balance = toAcc'.info.balance + v; omega, rfl, rfl, rfl, rfl, rfl, fun _ => rfl⟩

theorem transfer_benign {db : Db} {s : JState} {src dst : Addr} {v : Nat} {s' : JState} {r : Option TransferErr}
    (hbal : BalOk db s) (hv : v < W) (hcase : src = dst ∨ v = 0)
    (h : transfer db s src dst v = some (s', r)) : Benign db s s' := by
  rw [transfer_eq] at h
  cases h1 : loadAccount db s src with
  | none => simp [h1] at h
  | some p1 =>
  obtain ⟨s1, c1⟩ := p1
  cases h2 : loadAccount db s1 dst with
  | none => simp [h1, h2] at h
  | some p2 =>
  obtain ⟨s2, c2⟩ := p2
  cases hf : s2.state src with
  | none => simp [h1, h2, hf] at h
  | some fromAcc =>
  cases ht : touchAccount s2 src fromAcc with
  | none => simp [h1, h2, hf, ht] at h
  | some p3 =>
  obtain ⟨s3, fa⟩ := p3
  obtain ⟨B23, hs3, _, htch⟩ := touchAccount_spec (db := db) hf ht
  have B03 : Benign db s s3 := ((loadAccount_benign h1).trans (loadAccount_benign h2)).trans B23
  have hb3 : BalOk db s3 := balOk_of_world hbal B03.world
  simp only [h1, h2, hf, ht, Option.bind_eq_bind, Option.bind_some] at h
  exact B03.trans (debit_benign hb3 hs3 htch hv hcase h)

end Revm.Proofs.Static
