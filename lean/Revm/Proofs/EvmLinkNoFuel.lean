import Revm.Model.Evm
import Revm.Proofs.EvmLinkDepth2
import Revm.Proofs.EvmLinkValidate2
/-! LINK, termination: nothing but the fuel-indexed loop itself ever answers "out of fuel" — every other function of the
whole-EVM model fails, if at all, with a panic, a fatal database error or a missing oracle answer. -/
set_option linter.unusedSimpArgs false
set_option linter.unusedVariables false
namespace Revm.Proofs.EvmLink
open Revm Revm.Model Revm.Model.Evm

/-- not the answer "out of fuel" -/
def NF {α} (x : R α) : Prop := x ≠ .error .outOfFuel

theorem nf_ok {α} (a : α) : NF (.ok a : R α) := fun h => nomatch h
theorem nf_pure {α} (a : α) : NF (pure a : R α) := fun h => nomatch h
theorem nf_err {α} (e : Err) (he : e ≠ .outOfFuel) : NF (.error e : R α) := fun h => he (by cases h; rfl)
theorem nf_throw {α} (e : Err) (he : e ≠ .outOfFuel) : NF (throw e : R α) := nf_err e he
theorem nf_ofOpt {α} (msg : String) (o : Option α) : NF (ofOpt msg o) := by
  cases o with
  | some a => exact nf_ok a
  | none => exact nf_err _ (fun h => nomatch h)
theorem nf_bind {α β} {x : R α} {f : α → R β} (h1 : NF x) (h2 : ∀ a, NF (f a)) : NF (x >>= f) := by
  cases x with
  | error e => intro h; exact h1 (by simpa [bind, Except.bind] using h)
  | ok a => exact h2 a

syntax "nf_prim" : tactic
macro_rules | `(tactic| nf_prim) => `(tactic| first
  | exact nf_pure _ | exact nf_ok _ | exact nf_ofOpt _ _
  | exact nf_err _ (fun h => nomatch h) | exact nf_throw _ (fun h => nomatch h))

syntax "nf_auto" : tactic
macro_rules | `(tactic| nf_auto) => `(tactic| repeat (first
  | nf_prim
  | refine nf_bind ?_ (fun _ => ?_)
  | split
  | dsimp only))

theorem nf_loadAccount (w : World) (a : Nat) : NF (w.loadAccount a) := by unfold World.loadAccount; nf_auto
theorem nf_loadCode (w : World) (a : Nat) : NF (w.loadCode a) := by unfold World.loadCode; nf_auto
theorem nf_loadAccountDelegated (w : World) (a : Nat) : NF (w.loadAccountDelegated a) := by
  unfold World.loadAccountDelegated; nf_auto
theorem nf_touch (w : World) (a : Nat) : NF (w.touch a) := by unfold World.touch; nf_auto
theorem nf_transfer (w : World) (a b v : Nat) : NF (w.transfer a b v) := by unfold World.transfer; nf_auto
theorem nf_revert (w : World) (cp : Journal.Checkpoint) : NF (w.revert cp) := by unfold World.revert; nf_auto
theorem nf_acct (w : World) (a : Nat) : NF (w.acct a) := by unfold World.acct; nf_auto
macro_rules | `(tactic| nf_prim) => `(tactic| first
  | exact nf_loadAccount _ _ | exact nf_loadCode _ _ | exact nf_loadAccountDelegated _ _ | exact nf_touch _ _
  | exact nf_transfer _ _ _ _ | exact nf_revert _ _ | exact nf_acct _ _)

theorem nf_answer (he : HostEnv) (w : World) (op : Interp.HostOp) : NF (answer he w op) := by
  cases op <;> (simp only [answer]; nf_auto)

theorem nf_runPrecompile (w : World) (spec a : Nat) (input : List Nat) (gl : Nat) :
    NF (runPrecompile w spec a input gl) := by unfold runPrecompile; nf_auto

theorem nf_jrevert (w : World) (cp : Journal.Checkpoint) : NF (journalOps.revert w cp) := nf_revert w cp
theorem nf_jcreateCheckpoint (w : World) (c a : Nat) (hs : Bool) (v sp : Nat) :
    NF (journalOps.createCheckpoint w c a hs v sp) := by simp only [journalOps]; nf_auto
theorem nf_jsetCode (w : World) (a h : Nat) : NF (journalOps.setCode w a h) := by simp only [journalOps]; nf_auto
macro_rules | `(tactic| nf_prim) => `(tactic| first
  | exact nf_answer _ _ _ | exact nf_runPrecompile _ _ _ _ _ | exact nf_jrevert _ _
  | exact nf_jcreateCheckpoint _ _ _ _ _ _ | exact nf_jsetCode _ _ _)

theorem nf_makeCallFrame (cfg : Cfg) (w : World) (i : Interp.CallInputs) (mem : Memory.SharedMemory) :
    NF (makeCallFrame journalOps cfg w i mem) := by unfold makeCallFrame; nf_auto
theorem nf_createTail (cfg : Cfg) (w : World) (i : Interp.CreateInputs) (mem : Memory.SharedMemory) (created : Nat) :
    NF (createTail journalOps cfg w i mem created) := by unfold createTail; nf_auto
macro_rules | `(tactic| nf_prim) => `(tactic| exact nf_createTail _ _ _ _ _)
theorem nf_makeCreateFrame (cfg : Cfg) (w : World) (i : Interp.CreateInputs) (mem : Memory.SharedMemory) :
    NF (makeCreateFrame journalOps cfg w i mem) := by
  rw [makeCreateFrame_staged]; unfold makeCreateFrameS; nf_auto
theorem nf_callReturn (w : World) (cp : Journal.Checkpoint) (r : Interp.ChildResult) :
    NF (callReturn journalOps w cp r) := by unfold callReturn; nf_auto
theorem nf_createReturn (cfg : Cfg) (w : World) (cp : Journal.Checkpoint) (a : Nat) (r : Interp.ChildResult) :
    NF (createReturn journalOps cfg w cp a r) := by unfold createReturn; nf_auto
macro_rules | `(tactic| nf_prim) => `(tactic| first
  | exact nf_makeCallFrame _ _ _ _ | exact nf_makeCreateFrame _ _ _ _ | exact nf_callReturn _ _ _
  | exact nf_createReturn _ _ _ _ _)

theorem nf_deliver (kind : FrameKind) (o : Interp.ChildResult) (p : Frame Journal.Checkpoint)
    (rest : List (Frame Journal.Checkpoint)) (mem : Memory.SharedMemory) (w : World) :
    NF (deliver kind o p rest mem w) := by unfold deliver; nf_auto
theorem nf_freeCtx (m : Memory.SharedMemory) : NF (freeCtx m) := by unfold freeCtx; nf_auto
theorem nf_frameReturn (cfg : Cfg) (top : Frame Journal.Checkpoint) (w : World) (res : Interp.ChildResult) :
    NF (frameReturn journalOps cfg top w res) := by unfold frameReturn; nf_auto
macro_rules | `(tactic| nf_prim) => `(tactic| first
  | exact nf_deliver _ _ _ _ _ _ | exact nf_freeCtx _ | exact nf_frameReturn _ _ _ _)
theorem nf_frameEnd (cfg : Cfg) (top : Frame Journal.Checkpoint) (rest : List (Frame Journal.Checkpoint))
    (r : Interp.IResult) (out : List Nat) (s : Interp.IState) (w : World) :
    NF (frameEnd journalOps cfg top rest r out s w) := by unfold frameEnd; nf_auto
theorem nf_makeFrame (cfg : Cfg) (w : World) (a : Interp.Action) (mem : Memory.SharedMemory) :
    NF (makeFrame journalOps cfg w a mem) := by unfold makeFrame; nf_auto
macro_rules | `(tactic| nf_prim) => `(tactic| first | exact nf_frameEnd _ _ _ _ _ _ _ | exact nf_makeFrame _ _ _ _)
theorem nf_frameAction (cfg : Cfg) (top : Frame Journal.Checkpoint) (rest : List (Frame Journal.Checkpoint))
    (a : Interp.Action) (s : Interp.IState) (w : World) :
    NF (frameAction journalOps cfg top rest a s w) := by unfold frameAction; nf_auto
macro_rules | `(tactic| nf_prim) => `(tactic| exact nf_frameAction _ _ _ _ _ _)
theorem nf_afterStep (cfg : Cfg) (top : Frame Journal.Checkpoint) (rest : List (Frame Journal.Checkpoint))
    (d : Interp.Done) (w : World) : NF (afterStep journalOps cfg top rest d w) := by unfold afterStep; nf_auto
macro_rules | `(tactic| nf_prim) => `(tactic| exact nf_afterStep _ _ _ _ _)
/-- **one iteration of `run_the_loop` never answers "out of fuel"** -/
theorem nf_iterate (cfg : Cfg) (stack : List (Frame Journal.Checkpoint)) (w : World) :
    NF (iterate journalOps cfg stack w) := by unfold iterate; nf_auto

/-! ## the transaction handler -/

theorem nf_forIn {α σ : Type} (f : α → σ → R (ForInStep σ)) (hf : ∀ a s, NF (f a s)) :
    ∀ (l : List α) (s : σ), NF (forIn (m := R) l s f) := by
  intro l
  induction l with
  | nil => intro s; exact nf_pure _
  | cons a l ih =>
    intro s
    rw [List.forIn_cons]
    refine nf_bind (hf a s) (fun st => ?_)
    cases st with
    | done x => exact nf_pure _
    | yield x => exact ih x

theorem nf_validateEnv (e : Evm.Env) (spec : Nat) : NF (validateEnv e spec) := by
  rw [validateEnv_link]
  generalize TxValidate.validateEnv spec (tvCfg e) (tvBlock e) (tvTx e) = r
  cases r <;> (unfold resToR; nf_prim)
theorem nf_deductCaller (e : Evm.Env) (spec : Nat) (w : World) : NF (deductCaller e spec w) := by
  unfold deductCaller; nf_auto
theorem nf_applyAuth (e : Evm.Env) (w : World) (a : Auth) : NF (applyAuth e w a) := by unfold applyAuth; nf_auto
macro_rules | `(tactic| nf_prim) => `(tactic| first
  | exact nf_validateEnv _ _ | exact nf_deductCaller _ _ _ | exact nf_applyAuth _ _ _)
theorem nf_applyAuthList (e : Evm.Env) (spec : Nat) (w : World) : NF (applyAuthList e spec w) := by
  unfold applyAuthList
  repeat (first
    | nf_prim
    | exact nf_forIn _ (fun _ _ => by nf_auto) _ _
    | refine nf_bind ?_ (fun _ => ?_)
    | split
    | dsimp only)
theorem nf_preverify (w : World) (e : Evm.Env) (spec : Nat) : NF (preverify w e spec) := by
  unfold preverify; nf_auto
theorem nf_finish (e : Evm.Env) (spec fg r7 : Nat) (ic : Bool) (res : Interp.ChildResult) (w : World) :
    NF (finish e spec fg r7 ic res w) := by unfold finish; nf_auto

end Revm.Proofs.EvmLink
