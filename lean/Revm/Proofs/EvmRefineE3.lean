import Revm.Proofs.EvmRefineE2
/-! `call_return` / `create_return` on the two machines, errors included. -/
set_option linter.unusedSimpArgs false
set_option linter.unusedVariables false
namespace Revm.Proofs.EvmRefine
open Revm Revm.Model Revm.Model.Journal Revm.Spec.JournalAbs Revm.Proofs.Journal Revm.Proofs.Frame
open Revm.Model.Evm
open Revm.Spec.Evm (Snap snapshotOps journalOpsStrict)
open Revm.Proofs.EvmRR Revm.Proofs.EvmSim

variable {ks1 : List Checkpoint} {ks2 : List Snap} {w1 w2 : World}

/-- a failing subroutine: neither machine stops -/
theorem revert_rr {k1 : Checkpoint} {k2 : Snap} (hR : CfgRel (k1 :: ks1) w1 (k2 :: ks2) w2) :
    RR (fun a b => CfgRel ks1 a ks2 b) (journalOpsStrict.revert w1 k1) (snapshotOps.revert w2 k2) := by
  obtain ⟨wr1, wr2, hr1, hr2, hrr⟩ := revert_cfg hR
  have hr1' : journalOpsStrict.revert w1 k1 = .ok wr1 := hr1
  rw [hr1', hr2]
  exact RR.okok hrr

theorem callRet_rr (k1 : Checkpoint) (k2 : Snap) (r : Interp.ChildResult) (hR : CfgRel (k1 :: ks1) w1 (k2 :: ks2) w2) :
    RR (ValRel CfgRel ks1 ks2) (callReturn journalOpsStrict w1 k1 r) (callReturn snapshotOps w2 k2 r) := by
  unfold callReturn
  by_cases hok : r.result.isOk = true
  · rw [if_pos hok, if_pos hok]; exact RR.pure ⟨rfl, commit_rel hR⟩
  · rw [if_neg hok, if_neg hok]
    refine RR.bind (revert_rr hR) ?_
    intro a b hab
    exact RR.pure ⟨rfl, hab⟩

/-- `set_code_with_hash` of `create_return`: the strict machine may stop at its admissibility check -/
theorem setCode_rr (h : CfgRel ks1 w1 ks2 w2) (a hash : Nat) :
    RR (fun x y => CfgRel ks1 x ks2 y) (journalOpsStrict.setCode w1 a hash) (snapshotOps.setCode w2 a hash) := by
  refine RR.of (fun p hp => ?_) (fun e hE => ?_)
  · obtain ⟨w2', h2, hr⟩ := wSetCode_rel h hp
    exact ⟨w2', h2, hr⟩
  · have plain : ∀ e, journalOps.setCode w1 a hash = .error e →
        Esc e ∨ ∃ e', snapshotOps.setCode w2 a hash = .error e' ∧ Kind e e' := by
      intro e he
      change (ofOpt "set_code" (Journal.setCode w1.js a hash) >>= fun js => pure { w1 with js := js }) = .error e at he
      show Esc e ∨ ∃ e', (ofOpt "set_code" (Journal.setCode w2.js a hash) >>= fun js => pure { w2 with js := js }) = .error e' ∧ _
      refine world_err (fun p => ⟨_, rfl⟩) (fun hn => ?_) he
      refine none_of_symm (fun b hb => ?_) hn
      obtain ⟨j', hj, _⟩ := setCode_rel (db := dbPre w1.pre) h.w.rel.symm hb
      exact ⟨_, hj⟩
    change (match w1.js.state a with
      | some acc => if acc.info.codeHash = Journal.KECCAK_EMPTY then journalOps.setCode w1 a hash
          else Except.error (Err.panic "inadmissible: set_code on an account with code")
      | none => journalOps.setCode w1 a hash) = .error e at hE
    cases hs : w1.js.state a with
    | none => rw [hs] at hE; exact plain e hE
    | some acc =>
      rw [hs] at hE
      simp only at hE
      by_cases hc : acc.info.codeHash = Journal.KECCAK_EMPTY
      · rw [if_pos hc] at hE; exact plain e hE
      · rw [if_neg hc] at hE
        simp only [Except.error.injEq] at hE
        subst hE
        exact .inl (.inr rfl)

theorem createRet_rr (cfg : Cfg) (k1 : Checkpoint) (k2 : Snap) (a : Nat) (r : Interp.ChildResult)
    (hR : CfgRel (k1 :: ks1) w1 (k2 :: ks2) w2) :
    RR (ValRel CfgRel ks1 ks2) (createReturn journalOpsStrict cfg w1 k1 a r) (createReturn snapshotOps cfg w2 k2 a r) := by
  have rev : ∀ (x : Interp.ChildResult), RR (ValRel CfgRel ks1 ks2)
      (journalOpsStrict.revert w1 k1 >>= fun w => pure (x, w)) (snapshotOps.revert w2 k2 >>= fun w => pure (x, w)) :=
    fun x => RR.bind (revert_rr hR) (fun a b hab => RR.pure ⟨rfl, hab⟩)
  have hcm : CfgRel ks1 (journalOpsStrict.commit w1) ks2 (snapshotOps.commit w2) := commit_rel hR
  have fin : ∀ (x : Interp.ChildResult) (hash : Nat) (out : List Nat), RR (ValRel CfgRel ks1 ks2)
      (journalOpsStrict.setCode (journalOpsStrict.commit w1) a hash >>= fun w => pure (x, w.addCode hash out))
      (snapshotOps.setCode (snapshotOps.commit w2) a hash >>= fun w => pure (x, w.addCode hash out)) :=
    fun x hash out => RR.bind (setCode_rr hcm a hash) (fun wa wb hab => RR.pure ⟨rfl, addCode_rel hab _ _⟩)
  unfold createReturn
  simp only [pure_bind]
  by_cases c1 : (!r.result.isOk) = true
  · simp only [c1, if_true]; exact rev _
  · simp only [c1, Bool.false_eq_true, if_false]
    by_cases c2 : GasCalc.enabled cfg.spec GasCalc.SpecId.LONDON = true ∧ r.output.head? = some 0xEF
    · rw [if_pos c2, if_pos c2]; exact rev _
    · rw [if_neg c2, if_neg c2]
      by_cases c3 : GasCalc.enabled cfg.spec GasCalc.SpecId.SPURIOUS_DRAGON = true ∧ r.output.length > cfg.maxCodeSize
      · rw [if_pos c3, if_pos c3]; exact rev _
      · rw [if_neg c3, if_neg c3]
        by_cases c4 : U64ops.wmul r.output.length CODEDEPOSIT ≤ r.gasRemaining
        · simp only [c4, if_true, Bool.false_eq_true, false_and, if_false]
          exact fin _ _ _
        · simp only [c4, if_false, true_and]
          by_cases c5 : GasCalc.enabled cfg.spec GasCalc.SpecId.HOMESTEAD = true
          · simp only [c5, if_true]; exact rev _
          · simp only [c5, Bool.false_eq_true, if_false]
            exact fin _ _ _

end Revm.Proofs.EvmRefine
