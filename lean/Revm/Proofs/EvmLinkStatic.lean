import Revm.Model.Interp
/-! LINK, static mode (C10) on the interpreter of the whole-EVM model (`Model.Interp`, the interpreter of C25): in a
static frame `Interp.step` never asks the host for a mutation (SSTORE, TSTORE, LOG, SELFDESTRUCT), never hands out a
CREATE, and every call it hands out is static again and moves no value between two accounts. C10 proves this on its
own opcode-level model `stepStatic` (tied to the code by the generated table); here it is proved of the interpreter
model that `Evm.runLoop` runs, for every machine state. -/
set_option linter.unusedSimpArgs false
namespace Revm.Proofs.EvmLink
open Revm Revm.Model Revm.Model.Interp

/-- the `Host` questions that change the journaled world state -/
def mutating : HostOp → Bool
  | .sstore _ _ _ | .tstore _ _ _ | .log _ _ _ | .selfdestruct _ _ => true
  | _ => false

/-- a call a static frame may hand out: static again, and no value moves between two different accounts (`Transfer(0)`,
CALLCODE's transfer from the frame to itself, or DELEGATECALL's apparent value) -/
def StaticCall (i : CallInputs) : Prop :=
  i.isStatic = true ∧ (i.valueTransfer = true → i.value = 0 ∨ i.targetAddress = i.caller)

inductive StaticDone : Done → Prop
  | next {s} : StaticDone (.next s)
  | halt {r o s} : StaticDone (.halt r o s)
  | fault {f} : StaticDone (.fault f)
  | call {i s} (h : StaticCall i) : StaticDone (.action (.call i) s)

inductive StaticOutcome : Outcome → Prop
  | pure {d} (h : StaticDone d) : StaticOutcome (.pure d)
  | host {op k} (hop : mutating op = false) (hk : ∀ r, StaticDone (k r)) : StaticOutcome (.host op k)

/-- a handler result in a frame whose `is_static` is `b`: the flag is kept, the value satisfies `Q` -/
inductive KS (b : Bool) {α} (Q : α → Prop) : Exec α → Prop
  | ok {a s} (hs : s.isStatic = b) (hq : Q a) : KS b Q (.ok a s)
  | halt {r o s} : KS b Q (.halt r o s)
  | fault {f} : KS b Q (.fault f)

theorem ks_bind {b : Bool} {α β} {m : M α} {f : α → M β} {s : IState} {Q : α → Prop} {Q' : β → Prop}
    (h1 : KS b Q (m s)) (h2 : ∀ a s', s'.isStatic = b → Q a → KS b Q' (f a s')) : KS b Q' ((m >>= f) s) := by
  show KS b Q' (M.bind m f s)
  unfold M.bind
  cases hm : m s with
  | ok a s' => rw [hm] at h1; cases h1 with | ok hs hq => exact h2 a s' hs hq
  | halt r o s' => exact .halt
  | fault f => exact .fault

theorem ks_pure {b : Bool} {α} {a : α} {s : IState} {Q : α → Prop} (hs : s.isStatic = b) (hq : Q a) :
    KS b Q ((pure a : M α) s) := .ok hs hq

theorem ks_mono {b : Bool} {α} {e : Exec α} {Q Q' : α → Prop} (h : KS b Q e) (hq : ∀ a, Q a → Q' a) : KS b Q' e := by
  cases h with
  | ok hs h => exact .ok hs (hq _ h)
  | halt => exact .halt
  | fault => exact .fault

/-! ## primitives -/

section prims
variable {b : Bool} {s : IState}

theorem ks_haltWith {α} (r : IResult) {Q : α → Prop} : KS b Q ((haltWith r : M α) s) := .halt

theorem ks_getS (hs : s.isStatic = b) : KS b (fun x => x.isStatic = b) (getS s) := .ok hs hs

theorem ks_check (hs : s.isStatic = b) (fork : Nat) : KS b (fun _ => True) (check fork s) := by
  unfold check; split
  · exact .ok hs trivial
  · exact .halt

theorem ks_requireSome (hs : s.isStatic = b) (r : HostResp) : KS b (fun _ => True) (requireSome r s) := by
  unfold requireSome; split
  · exact .ok hs trivial
  · exact .halt

theorem ks_gasCharge (hs : s.isStatic = b) (c : Nat) : KS b (fun _ => True) (gasCharge c s) := by
  unfold gasCharge
  simp only
  split
  · exact .ok hs trivial
  · exact .halt

theorem ks_popN (hs : s.isStatic = b) (k : Nat) : KS b (fun _ => True) (popN k s) := by
  unfold popN
  generalize Stack.popMacro s.stack k = p
  obtain ⟨d, r⟩ := p
  cases r with
  | ok vs => exact .ok hs trivial
  | err e => exact .halt
  | _ => exact .fault

theorem ks_pop1 (hs : s.isStatic = b) : KS b (fun _ => True) (pop1 s) := by
  unfold pop1
  refine ks_bind (ks_popN hs 1) fun vs s' hs' _ => ?_
  split
  · exact ks_pure hs' trivial
  · exact .fault

theorem ks_pop4 (hs : s.isStatic = b) : KS b (fun _ => True) (pop4 s) := by
  unfold pop4
  refine ks_bind (ks_popN hs 4) fun vs s' hs' _ => ?_
  split
  · exact ks_pure hs' trivial
  · exact .fault

theorem ks_popAddress (hs : s.isStatic = b) : KS b (fun _ => True) (popAddress s) := by
  unfold popAddress
  exact ks_bind (ks_pop1 hs) fun v s' hs' _ => ks_pure hs' trivial

theorem ks_asUsizeOrFail (hs : s.isStatic = b) (v : Nat) (r : IResult) : KS b (fun _ => True) (asUsizeOrFail v r s) := by
  unfold asUsizeOrFail
  cases Jump.asUsizeOrFail v with
  | some x => exact ks_pure hs trivial
  | none => exact .halt

theorem ks_memRes {α β} (r : Memory.Res α) (k : α → Exec β) {Q : β → Prop} (hk : ∀ a, KS b Q (k a)) :
    KS b Q (memRes r k) := by
  cases r with
  | ok a => exact hk a
  | panic => exact .fault
  | ub => exact .fault

theorem ks_resizeMem (hs : s.isStatic = b) (o l : Nat) : KS b (fun _ => True) (resizeMem o l s) := by
  unfold resizeMem
  refine ks_memRes _ _ fun r => ?_
  split
  · exact .ok hs trivial
  · exact .halt

theorem ks_memSliceRange (hs : s.isStatic = b) (a c : Nat) : KS b (fun _ => True) (memSliceRange a c s) := by
  unfold memSliceRange
  exact ks_memRes _ _ fun x => .ok hs trivial

theorem ks_resizeMemRange (hs : s.isStatic = b) (o l : Nat) : KS b (fun _ => True) (resizeMemRange o l s) := by
  unfold resizeMemRange
  refine ks_bind (ks_asUsizeOrFail hs l _) fun len s1 h1 _ => ?_
  split
  · refine ks_bind (ks_asUsizeOrFail h1 o _) fun off s2 h2 _ => ?_
    exact ks_bind (ks_resizeMem h2 off len) fun _ s3 h3 _ => ks_pure h3 trivial
  · exact ks_pure h1 trivial

theorem ks_getMemoryInputAndOutRanges (hs : s.isStatic = b) :
    KS b (fun _ => True) (getMemoryInputAndOutRanges s) := by
  unfold getMemoryInputAndOutRanges
  refine ks_bind (ks_pop4 hs) fun p s1 h1 _ => ?_
  obtain ⟨inOff, inLen, outOff, outLen⟩ := p
  refine ks_bind (ks_resizeMemRange h1 inOff inLen) fun q s2 h2 _ => ?_
  obtain ⟨a, c⟩ := q
  have h3 : KS b (fun _ => True) ((if a < c then memSliceRange a c else pure []) s2) := by
    split
    · exact ks_memSliceRange h2 a c
    · exact ks_pure h2 trivial
  refine ks_bind h3 fun input s3 h3 _ => ?_
  refine ks_bind (ks_resizeMemRange h3 outOff outLen) fun q2 s4 h4 _ => ?_
  obtain ⟨c1, d1⟩ := q2
  exact ks_pure h4 trivial

theorem ks_calcCallGas (hs : s.isStatic = b) (r : HostResp) (ie ht : Bool) (l : Nat) :
    KS b (fun _ => True) (calcCallGas r ie ht l s) := by
  unfold calcCallGas
  refine ks_bind (ks_getS hs) fun x s1 h1 _ => ?_
  refine ks_bind (ks_gasCharge h1 _) fun _ s2 h2 _ => ?_
  exact ks_bind (ks_getS h2) fun y s3 h3 _ => ks_pure h3 trivial

end prims

end Revm.Proofs.EvmLink
