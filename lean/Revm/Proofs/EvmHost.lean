import Revm.Model.Evm
import Revm.Spec.JournalAbs
/-! The journal-backed `Host` of the whole-transaction model against the abstraction of the journaled state (`Spec.JournalAbs.absAcct`):
what the interpreter receives for BALANCE, SLOAD, SSTORE, TLOAD is what the abstract state holds (C01 `host_agrees`). -/
namespace Revm.Proofs.EvmHost
open Revm Revm.Model Revm.Model.Evm Revm.Model.Journal
open Revm.Spec.JournalAbs

theorem ofOpt_ok {α} {msg : String} {o : Option α} {a : α} (h : ofOpt msg o = .ok a) : o = some a := by
  cases o with
  | none => simp [ofOpt] at h
  | some x => simp [ofOpt] at h; rw [h]

theorem absAcct_some (db : Db) (s : JState) (a : Addr) (acc : Acct) (h : s.state a = some acc) :
    (absAcct db s a).balance = acc.info.balance ∧ (absAcct db s a).nonce = acc.info.nonce ∧
    (absAcct db s a).codeHash = acc.info.codeHash ∧ (absAcct db s a).warm = !acc.cold ∧
    (absAcct db s a).slot = absSlot db a (some acc) := by
  simp only [absAcct, h, and_self]

theorem absAcct_none (db : Db) (s : JState) (a : Addr) (h : s.state a = none) :
    (absAcct db s a).balance = ((db.basic a).getD Info.default).balance ∧
    (absAcct db s a).nonce = ((db.basic a).getD Info.default).nonce ∧
    (absAcct db s a).codeHash = ((db.basic a).getD Info.default).codeHash ∧
    (absAcct db s a).warm = s.preloaded a := by
  simp only [absAcct, h, and_self]

theorem pushEntry_state (s s2 : JState) (e : Entry) (h : pushEntry s e = some s2) : s2.state = s.state := by
  unfold pushEntry at h
  split at h
  · simp at h
  · simp only [Option.some.injEq] at h; rw [← h]

/-- `load_account`: cold flag and the loaded account against the abstraction -/
theorem loadAccount_abs (db : Db) (s s' : JState) (a : Addr) (cold : Bool)
    (h : Journal.loadAccount db s a = some (s', cold)) :
    cold = !(absAcct db s a).warm ∧
    ∃ acc, s'.state a = some acc ∧ acc.info.balance = (absAcct db s a).balance ∧
      acc.info.nonce = (absAcct db s a).nonce ∧ acc.info.codeHash = (absAcct db s a).codeHash := by
  unfold Journal.loadAccount at h
  cases hst : s.state a with
  | some acc =>
    rw [hst] at h
    simp only at h
    obtain ⟨hb, hn, hch, hwarm, _⟩ := absAcct_some db s a acc hst
    rw [hb, hn, hch, hwarm]
    by_cases hc : acc.cold
    · rw [if_pos hc] at h
      cases hp : pushEntry (setAcct s a { acc with cold := false }) (.accountWarmed a) with
      | none => rw [hp] at h; simp at h
      | some s2 =>
        rw [hp] at h
        simp only [Option.map_some, Option.some.injEq, Prod.mk.injEq] at h
        obtain ⟨h1, h2⟩ := h
        refine ⟨by simp [← h2, hc], { acc with cold := false }, ?_, rfl, rfl, rfl⟩
        rw [← h1, pushEntry_state _ _ _ hp]; simp [setAcct]
    · rw [if_neg hc] at h
      simp only [Option.some.injEq, Prod.mk.injEq] at h
      obtain ⟨h1, h2⟩ := h
      refine ⟨by simp [← h2, hc], { acc with cold := false }, ?_, rfl, rfl, rfl⟩
      rw [← h1]; simp [setAcct]
  | none =>
    rw [hst] at h
    simp only at h
    obtain ⟨hb, hn, hch, hwarm⟩ := absAcct_none db s a hst
    rw [hb, hn, hch, hwarm]
    have key : ∀ acc : Acct, acc.info = (db.basic a).getD Info.default →
        (if (!s.preloaded a) = true then (pushEntry (setAcct s a acc) (.accountWarmed a)).map (·, true)
         else some (setAcct s a acc, false)) = some (s', cold) →
        cold = !s.preloaded a ∧ ∃ acc, s'.state a = some acc ∧
          acc.info.balance = ((db.basic a).getD Info.default).balance ∧
          acc.info.nonce = ((db.basic a).getD Info.default).nonce ∧
          acc.info.codeHash = ((db.basic a).getD Info.default).codeHash := by
      intro acc hinfo h
      by_cases hc : (!s.preloaded a) = true
      · rw [if_pos hc] at h
        cases hp : pushEntry (setAcct s a acc) (.accountWarmed a) with
        | none => rw [hp] at h; simp at h
        | some s2 =>
          rw [hp] at h
          simp only [Option.map_some, Option.some.injEq, Prod.mk.injEq] at h
          obtain ⟨h1, h2⟩ := h
          refine ⟨by rw [← h2]; exact hc.symm, acc, ?_, by rw [hinfo], by rw [hinfo], by rw [hinfo]⟩
          rw [← h1, pushEntry_state _ _ _ hp]; simp [setAcct]
      · rw [if_neg hc] at h
        simp only [Option.some.injEq, Prod.mk.injEq] at h
        obtain ⟨h1, h2⟩ := h
        refine ⟨by rw [← h2]; simpa using hc, acc, ?_, by rw [hinfo], by rw [hinfo], by rw [hinfo]⟩
        rw [← h1]; simp [setAcct]
    cases hdb : db.basic a with
    | none =>
      rw [hdb] at h
      have := key Acct.newNotExisting (by rw [hdb]; rfl) h
      rw [hdb] at this
      exact this
    | some i =>
      rw [hdb] at h
      have := key (Acct.ofInfo i) (by rw [hdb]; rfl) h
      rw [hdb] at this
      exact this


theorem noteAddr_js (w : World) (a : Nat) : (w.noteAddr a).js = w.js := by
  unfold World.noteAddr; split <;> rfl

theorem noteSlot_js (w : World) (a k : Nat) : (w.noteSlot a k).js = w.js := by
  unfold World.noteSlot; split <;> rfl

theorem noteAddr_db (w : World) (a : Nat) : (w.noteAddr a).db = w.db := by
  unfold World.noteAddr; split <;> rfl

/-- BALANCE / SELFBALANCE: the word and the cold flag the interpreter receives are those of the abstract state -/
theorem balance_agrees (he : HostEnv) (w w' : World) (a : Nat) (resp : Interp.HostResp)
    (h : answer he w (.balance a) = .ok (resp, w')) :
    resp.word = (absAcct w.db w.js a).balance ∧ resp.isCold = !(absAcct w.db w.js a).warm ∧ resp.ok = true := by
  simp only [answer, World.loadAccount, bind, Except.bind] at h
  cases hl : Journal.loadAccount w.db w.js a with
  | none => rw [hl] at h; simp [ofOpt] at h
  | some p =>
    obtain ⟨js, cold⟩ := p
    rw [hl] at h
    obtain ⟨hcold, acc, hacc, hbal, _, _⟩ := loadAccount_abs w.db w.js js a cold hl
    simp only [ofOpt, pure, Except.pure, World.acct, noteAddr_js, hacc] at h
    simp only [Except.ok.injEq, Prod.mk.injEq] at h
    obtain ⟨h1, _⟩ := h
    rw [← h1]
    exact ⟨hbal, hcold, rfl⟩

theorem sload_abs (db : Db) (s s' : JState) (a : Addr) (k v : Nat) (cold : Bool) (acc : Acct)
    (hacc : s.state a = some acc) (h : Journal.sload db s a k = some (s', v, cold)) :
    v = ((absAcct db s a).slot k).present ∧ cold = !((absAcct db s a).slot k).warm := by
  obtain ⟨_, _, _, _, hslot⟩ := absAcct_some db s a acc hacc
  rw [hslot]
  simp only [Journal.sload, hacc, Option.bind_eq_bind, Option.bind_some] at h
  cases hs : acc.storage k with
  | some sl =>
    rw [hs] at h
    simp only [absSlot, hs]
    by_cases hc : sl.cold
    · simp only [hc, if_true] at h
      cases hp : pushEntry (setAcct s a (setSlot acc k { sl with cold := false })) (.storageWarmed a k) with
      | none => rw [hp] at h; simp at h
      | some s2 =>
        rw [hp] at h
        simp only [Option.map_some, Option.some.injEq, Prod.mk.injEq] at h
        exact ⟨h.2.1.symm, by rw [← h.2.2, hc]; rfl⟩
    · simp only [hc, if_false, Bool.false_eq_true, Option.some.injEq, Prod.mk.injEq] at h
      exact ⟨h.2.1.symm, by rw [← h.2.2]; simp [hc]⟩
  | none =>
    rw [hs] at h
    simp only [absSlot, hs]
    cases hp : pushEntry (setAcct s a (setSlot acc k
        { orig := if acc.created then 0 else db.storage a k, present := if acc.created then 0 else db.storage a k,
          cold := false })) (.storageWarmed a k) with
    | none => rw [hp] at h; simp at h
    | some s2 =>
      rw [hp] at h
      simp only [Option.map_some, Option.some.injEq, Prod.mk.injEq] at h
      exact ⟨h.2.1.symm, by rw [← h.2.2]; rfl⟩

/-- SLOAD: value and cold flag are those of the abstract slot -/
theorem sload_agrees (he : HostEnv) (w w' : World) (a k : Nat) (resp : Interp.HostResp)
    (h : answer he w (.sload a k) = .ok (resp, w')) :
    resp.word = ((absAcct w.db w.js a).slot k).present ∧ resp.isCold = !((absAcct w.db w.js a).slot k).warm ∧
    resp.ok = true := by
  simp only [answer, bind, Except.bind] at h
  cases hl : Journal.sload w.db w.js a k with
  | none => rw [hl] at h; simp [ofOpt] at h
  | some p =>
    obtain ⟨js, v, cold⟩ := p
    rw [hl] at h
    simp only [ofOpt, pure, Except.pure, Except.ok.injEq, Prod.mk.injEq] at h
    obtain ⟨h1, _⟩ := h
    cases hacc : w.js.state a with
    | none => simp [Journal.sload, hacc] at hl
    | some acc =>
      obtain ⟨hv, hc⟩ := sload_abs w.db w.js js a k v cold acc hacc hl
      rw [← h1]
      exact ⟨hv, hc, rfl⟩

/-- TLOAD: the transient value (an absent entry reads as zero) -/
theorem tload_agrees (he : HostEnv) (w w' : World) (a k : Nat) (resp : Interp.HostResp)
    (h : answer he w (.tload a k) = .ok (resp, w')) : resp.word = Journal.tload w.js a k ∧ w' = w := by
  simp only [answer, pure, Except.pure, Except.ok.injEq, Prod.mk.injEq] at h
  exact ⟨by rw [← h.1], h.2.symm⟩


theorem sload_post (db : Db) (s s' : JState) (a : Addr) (k v : Nat) (cold : Bool) (acc : Acct)
    (hacc : s.state a = some acc) (h : Journal.sload db s a k = some (s', v, cold)) :
    ∃ acc' sl', s'.state a = some acc' ∧ acc'.storage k = some sl' ∧
      sl'.orig = ((absAcct db s a).slot k).orig ∧ sl'.present = ((absAcct db s a).slot k).present := by
  obtain ⟨_, _, _, _, hslot⟩ := absAcct_some db s a acc hacc
  rw [hslot]
  simp only [Journal.sload, hacc, Option.bind_eq_bind, Option.bind_some] at h
  cases hs : acc.storage k with
  | some sl =>
    rw [hs] at h
    simp only [absSlot, hs]
    by_cases hc : sl.cold
    · simp only [hc, if_true] at h
      cases hp : pushEntry (setAcct s a (setSlot acc k { sl with cold := false })) (.storageWarmed a k) with
      | none => rw [hp] at h; simp at h
      | some s2 =>
        rw [hp] at h
        simp only [Option.map_some, Option.some.injEq, Prod.mk.injEq] at h
        refine ⟨setSlot acc k { sl with cold := false }, { sl with cold := false }, ?_, by simp [setSlot], rfl, rfl⟩
        rw [← h.1, pushEntry_state _ _ _ hp]; simp [setAcct]
    · simp only [hc, if_false, Bool.false_eq_true, Option.some.injEq, Prod.mk.injEq] at h
      refine ⟨setSlot acc k { sl with cold := false }, { sl with cold := false }, ?_, by simp [setSlot], rfl, rfl⟩
      rw [← h.1]; simp [setAcct]
  | none =>
    rw [hs] at h
    simp only [absSlot, hs]
    cases hp : pushEntry (setAcct s a (setSlot acc k
        { orig := if acc.created then 0 else db.storage a k, present := if acc.created then 0 else db.storage a k,
          cold := false })) (.storageWarmed a k) with
    | none => rw [hp] at h; simp at h
    | some s2 =>
      rw [hp] at h
      simp only [Option.map_some, Option.some.injEq, Prod.mk.injEq] at h
      generalize hv0 : (if acc.created then 0 else db.storage a k) = v0 at *
      refine ⟨setSlot acc k ⟨v0, v0, false⟩, ⟨v0, v0, false⟩, ?_, by simp [setSlot], rfl, rfl⟩
      rw [← h.1, pushEntry_state _ _ _ hp]; simp [setAcct]

/-- SSTORE: the `SStoreResult` (original, present, new) and the cold flag, from which the gas and the refund of the
instruction are computed (C14), are those of the abstract slot -/
theorem sstore_agrees (he : HostEnv) (w w' : World) (a k v : Nat) (resp : Interp.HostResp)
    (h : answer he w (.sstore a k v) = .ok (resp, w')) :
    resp.original = ((absAcct w.db w.js a).slot k).orig ∧ resp.present = ((absAcct w.db w.js a).slot k).present ∧
    resp.new = v ∧ resp.isCold = !((absAcct w.db w.js a).slot k).warm := by
  simp only [answer, bind, Except.bind] at h
  cases hl : Journal.sstore w.db w.js a k v with
  | none => rw [hl] at h; simp [ofOpt] at h
  | some p =>
    obtain ⟨js, o, pr, n, cold⟩ := p
    rw [hl] at h
    simp only [ofOpt, pure, Except.pure, Except.ok.injEq, Prod.mk.injEq] at h
    obtain ⟨h1, _⟩ := h
    rw [← h1]
    simp only
    -- unfold `sstore` = `sload` then the write
    simp only [Journal.sstore, Option.bind_eq_bind] at hl
    cases hsl : Journal.sload w.db w.js a k with
    | none => rw [hsl] at hl; simp at hl
    | some q =>
      obtain ⟨s1, present, isCold⟩ := q
      rw [hsl] at hl
      simp only [Option.bind_some] at hl
      cases hacc : w.js.state a with
      | none => simp [Journal.sload, hacc] at hsl
      | some acc =>
        obtain ⟨hv, hc⟩ := sload_abs w.db w.js s1 a k present isCold acc hacc hsl
        obtain ⟨acc', sl', hst', hsl', ho, _⟩ := sload_post w.db w.js s1 a k present isCold acc hacc hsl
        simp only [hst', Option.bind_some, hsl'] at hl
        by_cases he : present = v
        · simp only [he, if_true, Option.some.injEq, Prod.mk.injEq] at hl
          obtain ⟨_, h2, h3, h4, h5⟩ := hl
          exact ⟨by rw [← h2, ho], by rw [← h3, ← hv, he], h4.symm, by rw [← h5, hc]⟩
        · simp only [he, if_false] at hl
          cases hp : pushEntry s1 (.storageChanged a k present) with
          | none => rw [hp] at hl; simp at hl
          | some s2 =>
            rw [hp] at hl
            simp only [Option.bind_some, Option.some.injEq, Prod.mk.injEq] at hl
            obtain ⟨_, h2, h3, h4, h5⟩ := hl
            exact ⟨by rw [← h2, ho], by rw [← h3, ← hv], h4.symm, by rw [← h5, hc]⟩

end Revm.Proofs.EvmHost
