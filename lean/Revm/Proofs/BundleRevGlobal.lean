import Revm.Proofs.BundleRevTriple
import Revm.Proofs.BundleInvChangeset
/-! C17, second sentence, whole bundle: `revert_latest` per address, the block of reverts appended by
`merge_transitions` leads back from the bundle state after the group to the one before it (`BlockRev`), and the
chain of these facts along a history (`RevChain`, time-indexed: the forward bundle state and the reference plain
state after every group). Core Lean only. -/
namespace Revm.Proofs.Bundle
open Revm.Model.Bundle Revm.Spec.Bundle

set_option linter.unusedSimpArgs false
set_option linter.unusedVariables false

/-! ## `revert_latest` per address -/

/-- one iteration of the loop of `revert_latest` -/
def rlStep (st : BMap BAcct) (e : Nat × ARevert) : BMap BAcct :=
  match st.get e.1 with
  | some acc => if (acc.revert e.2).2 then st.del e.1 else st.set e.1 (acc.revert e.2).1
  | none => if (freshAcct.revert e.2).2 then st else st.set e.1 (freshAcct.revert e.2).1

theorem rlStep_get (st : BMap BAcct) (e : Nat × ARevert) (k : Nat) :
    (rlStep st e).get k = if e.1 = k then revApply (st.get k) e.2 else st.get k := by
  by_cases hk : e.1 = k
  · subst hk
    simp only [if_true, rlStep, revApply]
    cases hg : st.get e.1 with
    | none =>
      simp only [Option.getD]
      by_cases hf : (freshAcct.revert e.2).2 = true
      · simp only [hf, if_true]; exact hg
      · simp only [hf, Bool.false_eq_true, if_false, get_set, if_true]
    | some acc =>
      simp only [Option.getD]
      by_cases hf : (acc.revert e.2).2 = true
      · simp only [hf, if_true, get_del]
      · simp only [hf, Bool.false_eq_true, if_false, get_set, if_true]
  · simp only [hk, if_false, rlStep]
    cases hg : st.get e.1 with
    | none =>
      simp only
      by_cases hf : (freshAcct.revert e.2).2 = true
      · simp only [hf, if_true]
      · simp only [hf, Bool.false_eq_true, if_false, get_set, hk]
    | some acc =>
      simp only
      by_cases hf : (acc.revert e.2).2 = true
      · simp only [hf, if_true, get_del, hk, if_false]
      · simp only [hf, Bool.false_eq_true, if_false, get_set, hk]

theorem rlStep_WF (st : BMap BAcct) (e : Nat × ARevert) (hw : WF st) : WF (rlStep st e) := by
  unfold rlStep
  cases st.get e.1 with
  | none =>
    simp only
    by_cases hf : (freshAcct.revert e.2).2 = true
    · simp only [hf, if_true]; exact hw
    · simp only [hf, Bool.false_eq_true, if_false]; exact WF_set _ _ _ hw
  | some acc =>
    simp only
    by_cases hf : (acc.revert e.2).2 = true
    · simp only [hf, if_true]; exact WF_del _ _ hw
    · simp only [hf, Bool.false_eq_true, if_false]; exact WF_set _ _ _ hw

theorem revertLatest_eq (b : BState) (blk : BMap ARevert) (h : b.reverts.getLast? = some blk) :
    revertLatest b = ({ b with state := blk.foldl rlStep b.state, reverts := b.reverts.dropLast }, true) := by
  unfold revertLatest
  rw [h]
  rfl

theorem rl_get (blk : BMap ARevert) (hw : WF blk) (st : BMap BAcct) (a : Nat) :
    (blk.foldl rlStep st).get a = revApplyO (st.get a) (blk.get a) := by
  rw [foldl_get (F := fun r o => revApply o r) rlStep_get blk hw st a]
  cases blk.get a <;> rfl

/-! ## reverted bundle states -/

/-- the reverted bundle `b'` matches the forward bundle state `B` and describes the reference state `R` -/
structure RState (b' : BState) (B : BMap BAcct) (p0 R : Plain) : Prop where
  wf : WF b'.state
  acct : ∀ a, RInv (b'.state.get a) (B.get a) (p0.acct a) (fun k => p0.slot a k) (R.acct a) (fun k => R.slot a k)

theorem RState.bundleOK {b' : BState} {B : BMap BAcct} {p0 R : Plain} (h : RState b' B p0 R) :
    BundleOK b'.state p0 R := by
  refine ⟨h.wf, fun a => ?_⟩
  have := h.acct a
  cases hb' : b'.state.get a with
  | none =>
    cases hB : B.get a with
    | none => rw [hb', hB] at this; exact ⟨this.1, this.2⟩
    | some b =>
      rw [hb', hB] at this
      obtain ⟨_, w2, w3, w4, w5⟩ := this
      exact ⟨by rw [w2, w3], fun k => (w4 k).trans (w5 k).symm⟩
  | some x =>
    cases hB : B.get a with
    | none => rw [hb', hB] at this; exact ⟨this.info, this.orig, this.stor⟩
    | some b => rw [hb', hB] at this; exact ⟨this.1.info, this.1.orig, this.1.stor⟩

/-- a forward-built bundle matches itself -/
theorem RState.refl (b : BState) (p0 R : Plain) (h : BundleOK b.state p0 R) : RState b b.state p0 R := by
  refine ⟨h.1, fun a => ?_⟩
  have := h.2 a
  cases hg : b.state.get a with
  | none => rw [hg] at this; exact ⟨this.1, this.2⟩
  | some x => rw [hg] at this; exact ⟨⟨this.1, this.2.1, this.2.2⟩, rfl, fun _ k hk => hk⟩

/-- the block leads back from forward bundle state `B1` / reference `R` to `B0` / reference `Mp`; entries are never
removed by the merge and every address with a revert is in the bundle afterwards; `selfc`: the pre-state `p0` of the
recording bundle is compatible with itself (`RevCompat`) -/
structure BlockRev (blk : BMap ARevert) (B0 B1 : BMap BAcct) (p0 Mp R : Plain) : Prop where
  wf : WF blk
  triple : ∀ a, RevTriple (blk.get a) (B0.get a) (B1.get a) (fun k => p0.slot a k)
    (Mp.acct a) (fun k => Mp.slot a k) (R.acct a) (fun k => R.slot a k)
  selfc : ∀ a r, blk.get a = some r → (B0.get a = none → Mp.acct a = none → p0.acct a = none) ∧
    (p0.acct a = none → ∀ k, p0.slot a k = 0)
  mono : ∀ a, (B0.get a).isSome = true → (B1.get a).isSome = true
  pres : ∀ a r, blk.get a = some r → (B1.get a).isSome = true

/-- **one `revert_latest` step** on a reverted bundle that matches the forward bundle after group k, inside the
region `revertStepOk`: the result matches the forward bundle after group k-1. The reverted bundle may describe its
states relative to another pre-state `p'` (after `extend`), compatible with `p0` where the block has reverts -/
theorem revertLatest_rstate_gen (b' : BState) (B0 B1 : BMap BAcct) (p0 p' R0 R1 : Plain) (pre : List (BMap ARevert))
    (blk : BMap ARevert) (hrev : b'.reverts = pre ++ [blk]) (hR : RState b' B1 p' R1)
    (hblk : BlockRev blk B0 B1 p0 R0 R1) (hok : revertStepOk b' = true)
    (hcmp : ∀ a r, blk.get a = some r → (B0.get a = none → R0.acct a = none → p'.acct a = none) ∧
      (p'.acct a = none → ∀ k, p'.slot a k = 0) ∧ (r.wipe = true → ∀ k, p'.slot a k = p0.slot a k)) :
    RState (revertLatest b').1 B0 p' R0 ∧ (revertLatest b').1.reverts = pre ∧ (revertLatest b').2 = true := by
  have hl : b'.reverts.getLast? = some blk := by rw [hrev]; simp
  rw [revertLatest_eq b' blk hl]
  refine ⟨⟨foldl_WF rlStep_WF blk b'.state hR.wf, fun a => ?_⟩, by simp [hrev], rfl⟩
  show RInv ((blk.foldl rlStep b'.state).get a) _ _ _ _ _
  rw [rl_get blk hblk.wf]
  refine hblk.triple a _ _ _ ?_ (hR.acct a) ?_
  · intro r hr
    exact hcmp a r hr
  · cases hg : blk.get a with
    | none => rfl
    | some r =>
      simp only [wipeOkO]
      simp only [revertStepOk, hl, List.all_eq_true] at hok
      exact hok (a, r) (mem_of_get _ _ _ hg)

theorem revertLatest_rstate (b' : BState) (B0 B1 : BMap BAcct) (p0 R0 R1 : Plain) (pre : List (BMap ARevert))
    (blk : BMap ARevert) (hrev : b'.reverts = pre ++ [blk]) (hR : RState b' B1 p0 R1)
    (hblk : BlockRev blk B0 B1 p0 R0 R1) (hok : revertStepOk b' = true) :
    RState (revertLatest b').1 B0 p0 R0 ∧ (revertLatest b').1.reverts = pre ∧ (revertLatest b').2 = true :=
  revertLatest_rstate_gen b' B0 B1 p0 p0 R0 R1 pre blk hrev hR hblk hok
    (fun a r hr => ⟨(hblk.selfc a r hr).1, (hblk.selfc a r hr).2, fun _ _ => rfl⟩)

/-! ## `merge_transitions` appends a block that leads back -/

theorem merge_rev (s : SState) (p0 Mp R : Plain) (h : SInv s p0 Mp R) (s' : SState) (blk : BMap ARevert)
    (hm : s.merge true = some s') (hr : s'.bundle.reverts = s.bundle.reverts ++ [blk]) :
    BlockRev blk s.bundle.state s'.bundle.state p0 Mp R := by
  let Pre : Nat → Transition → Option BAcct → Prop := fun a t b? =>
    ∃ c, s.cache.get a = some c ∧ CInv c (R.acct a) (fun k => R.slot a k) ∧
      TInv t c (Mp.acct a) (fun k => Mp.slot a k) (fun k => R.slot a k) ∧
      Facts t.prevStatus (Mp.acct a) (fun k => Mp.slot a k) ∧
      BInv b? t.prevStatus (p0.acct a) (fun k => p0.slot a k) (Mp.acct a) (fun k => Mp.slot a k) ∧
      b? = s.bundle.state.get a
  let Post : Nat → Transition → Option BAcct → Option ARevert → Prop := fun a t b?' rev =>
    RevTriple rev (s.bundle.state.get a) b?' (fun k => p0.slot a k) (Mp.acct a) (fun k => Mp.slot a k)
      (R.acct a) (fun k => R.slot a k) ∧
    ((s.bundle.state.get a).isSome = true → b?'.isSome = true) ∧ (rev.isSome = true → b?'.isSome = true)
  have hstep : ∀ a t b?, Pre a t b? → ∃ b?' rev, oneAcct b? t = some (b?', rev) ∧ Post a t b?' rev := by
    intro a t b? ⟨c, hc, hC, hT, hF, hB, hbe⟩
    obtain ⟨b?', rev, h1, _, _⟩ := merge_acct b? t c _ _ _ _ _ _ hB hF hT hC
    refine ⟨b?', rev, h1, ?_⟩
    show RevTriple rev (s.bundle.state.get a) b?' _ _ _ _ _ ∧ _
    rw [← hbe]
    exact ⟨rev_acct b? t c _ _ _ _ _ _ hB hF hT hC b?' rev h1, oneAcct_pres b? t b?' rev h1⟩
  have hpre : ∀ a t, BMap.get s.ts a = some t → Pre a t (s.bundle.state.get a) := by
    intro a t ht
    obtain ⟨_, _, hrest⟩ := h.acct a
    cases hc : s.cache.get a with
    | none => rw [hc] at hrest; rw [ht] at hrest; cases hrest.1
    | some c =>
      rw [hc, ht] at hrest
      obtain ⟨hC, ms, ⟨hT, hms⟩, hF, hB⟩ := hrest
      rw [hms] at hF hB
      exact ⟨c, hc, hC, hT, hF, hB, rfl⟩
  obtain ⟨b', revs', g1, g2, g3, g4, g5, g6⟩ := go_fold Pre Post hstep s.ts s.bundle [] h.wfts h.wfb WF_nil
    (fun _ _ _ => rfl) hpre
  have hm' : s.merge true = some ⟨s.db, s.sc, s.cache, [], ⟨b'.state, b'.contracts, b'.reverts ++ [revs']⟩⟩ := by
    simp only [SState.merge, applyTransitions, g1, Option.map]
  rw [hm'] at hm
  injection hm with hm
  subst hm
  simp only [g3] at hr
  have hblk : revs' = blk := by
    have := List.append_cancel_left hr
    simpa using this
  subst hblk
  have hnil : ∀ a, BMap.get ([] : BMap ARevert) a = none := fun _ => rfl
  have hts : ∀ a r, BMap.get revs' a = some r → ∃ t, s.ts.get a = some t := by
    intro a r hg
    cases ht : s.ts.get a with
    | none => rw [(g5 a ht).2, hnil] at hg; cases hg
    | some t => exact ⟨t, rfl⟩
  refine ⟨g4, fun a => ?_, fun a r hg => ?_, fun a => ?_, fun a r hg => ?_⟩
  · show RevTriple (BMap.get revs' a) (s.bundle.state.get a) (b'.state.get a) _ _ _ _ _
    cases ht : s.ts.get a with
    | none =>
      obtain ⟨q1, q2⟩ := g5 a ht
      rw [q1, q2, hnil]
      obtain ⟨_, _, hrest⟩ := h.acct a
      cases hc : s.cache.get a with
      | none =>
        rw [hc] at hrest
        obtain ⟨_, _, w3, w4, w5, w6⟩ := hrest
        exact revTriple_same _ _ _ _ _ _ (by rw [w5, w3]) (fun k => (congrFun w6 k).trans (congrFun w4 k).symm)
      | some c =>
        rw [hc, ht] at hrest
        obtain ⟨_, ms, ⟨w1, w2, _⟩, _, _⟩ := hrest
        exact revTriple_same _ _ _ _ _ _ w1 (fun k => congrFun w2 k)
    | some t => exact (g6 a t ht).1
  · show (s.bundle.state.get a = none → Mp.acct a = none → p0.acct a = none) ∧ (p0.acct a = none → ∀ k, p0.slot a k = 0)
    obtain ⟨t, ht⟩ := hts a r hg
    obtain ⟨c, _, _, _, _, hB, _⟩ := hpre a t ht
    obtain ⟨_, hP2, _⟩ := h.acct a
    refine ⟨fun hn hM => ?_, hP2⟩
    rw [hn] at hB
    rw [← hB.1]; exact hM
  · show (s.bundle.state.get a).isSome = true → (b'.state.get a).isSome = true
    cases ht : s.ts.get a with
    | none => rw [(g5 a ht).1]; exact fun hh => hh
    | some t => exact (g6 a t ht).2.1
  · show (b'.state.get a).isSome = true
    obtain ⟨t, ht⟩ := hts a r hg
    exact (g6 a t ht).2.2 (by rw [hg]; rfl)

theorem runGroup_rev (sc : Bool) (p0 Mp : Plain) (g : Group) (s : SState) (R : Plain) (h : SInv s p0 Mp R)
    (hsc : s.sc = sc) (hr : reachGroup sc R g = true) (s' : SState) (R' : Plain) (blk : BMap ARevert)
    (hrun : runGroup s R g = some (s', R')) (hrv : s'.bundle.reverts = s.bundle.reverts ++ [blk]) :
    BlockRev blk s.bundle.state s'.bundle.state p0 Mp R' := by
  induction g generalizing s R with
  | nil =>
    simp only [runGroup] at hrun
    cases hm : s.merge true with
    | none => rw [hm] at hrun; cases hrun
    | some s1 =>
      rw [hm] at hrun
      simp only [Option.map, Option.some.injEq, Prod.mk.injEq] at hrun
      obtain ⟨q1, q2⟩ := hrun
      subst q1; subst q2
      exact merge_rev s p0 Mp R h s1 blk hm hrv
  | cons c cs ih =>
    simp only [reachGroup, Bool.and_eq_true] at hr
    obtain ⟨⟨hd, hall⟩, hrest⟩ := hr
    obtain ⟨s1, h1, h2, h3, h4⟩ := commit_inv sc p0 Mp R s c h hsc hd hall
    simp only [runGroup, h1, Option.bind, hsc] at hrun
    have := ih s1 _ h2 h3 hrest hrun (by rw [h4]; exact hrv)
    rw [h4] at this
    exact this

/-! ## the chain along a history -/

/-- `fr` = (forward bundle state, reference state) after each group, latest first, down to the start of the
bundle; `revs` = the blocks of the latest bundle: each block leads from its frame back to the next one -/
def RevChain (p0 : Plain) : List (BMap BAcct × Plain) → List (BMap ARevert) → Prop
  | [], _ => False
  | [_], revs => revs = []
  | f1 :: f0 :: tl, revs => ∃ pre blk, revs = pre ++ [blk] ∧ BlockRev blk f0.1 f1.1 p0 f0.2 f1.2 ∧
      RevChain p0 (f0 :: tl) pre

def frameOf (x : SState × Plain) : BMap BAcct × Plain := (x.1.bundle.state, x.2)

def lastReverts (s : SState) (l : List (SState × Plain)) : List (BMap ARevert) :=
  match l.getLast? with
  | some x => x.1.bundle.reverts
  | none => s.bundle.reverts

theorem runHistory_chain (sc : Bool) (p0 : Plain) (h : List Group) (s : SState) (R : Plain)
    (fr : List (BMap BAcct × Plain)) (hi : SInv s p0 R R) (hsc : s.sc = sc) (hr : reachHistory sc R h = true)
    (hch : RevChain p0 ((s.bundle.state, R) :: fr) s.bundle.reverts) (l : List (SState × Plain))
    (hrun : runHistory s R h = some l) :
    RevChain p0 ((l.map frameOf).reverse ++ (s.bundle.state, R) :: fr) (lastReverts s l) := by
  induction h generalizing s R fr l with
  | nil =>
    simp only [runHistory, Option.some.injEq] at hrun
    subst hrun
    exact hch
  | cons g gs ih =>
    simp only [reachHistory, Bool.and_eq_true] at hr
    obtain ⟨s1, blk, g1, g2, g3, g4, g5, _⟩ := runGroup_inv sc p0 R g s R hi hsc hr.1
    have hbr := runGroup_rev sc p0 R g s R hi hsc hr.1 s1 _ blk g1 g5
    simp only [runHistory, g1, Option.bind] at hrun
    cases hl' : runHistory s1 (groupEnd sc R g) gs with
    | none => rw [hl'] at hrun; cases hrun
    | some l' =>
      rw [hl'] at hrun
      simp only [Option.map, Option.some.injEq] at hrun
      subst hrun
      have hch1 : RevChain p0 ((s1.bundle.state, groupEnd sc R g) :: (s.bundle.state, R) :: fr) s1.bundle.reverts :=
        ⟨s.bundle.reverts, blk, g5, hbr, hch⟩
      have := ih s1 _ _ g2 g4 hr.2 hch1 l' hl'
      have e1 : (((s1, groupEnd sc R g) :: l').map frameOf).reverse ++ (s.bundle.state, R) :: fr =
          (l'.map frameOf).reverse ++ (s1.bundle.state, groupEnd sc R g) :: (s.bundle.state, R) :: fr := by
        simp [frameOf, List.reverse_cons, List.append_assoc]
      have e2 : lastReverts s ((s1, groupEnd sc R g) :: l') = lastReverts s1 l' := by
        unfold lastReverts
        cases l' with
        | nil => rfl
        | cons x xs =>
          rw [List.getLast?_cons_cons]
          cases hgl : (x :: xs).getLast? with
          | none => simp at hgl
          | some y => rfl
      rw [e1, e2]
      exact this

end Revm.Proofs.Bundle
