import Revm.Proofs.EvmLinkStatic4
import Revm.Proofs.EvmLinkDepth2
/-! LINK, static mode (C10), part 5: `make_call_frame` for a static call and `call_return`, on the invariant of C10
(`Proofs.Static.Inv`): the world state stays that of the start of the static frame, the journal above the level of the
start holds only benign entries, every checkpoint handed out since then points into that region. -/
set_option linter.unusedSimpArgs false
set_option linter.unusedVariables false
namespace Revm.Proofs.EvmLink
open Revm Revm.Model Revm.Model.Evm
open Revm.Spec.JournalAbs (Op Run step run)
open Revm.Model.Static (allowed allowedAll BalOk WorldEq)
open Revm.Proofs.Static (Inv inv_step inv_run inv_benign inv_init Benign)

/-- the world inside a static frame that started on `(db, s0)` with `L` journal levels; `cps` are the checkpoints
handed out since -/
structure SW (db : Journal.Db) (L : Nat) (s0 : Journal.JState) (cps : List Journal.Checkpoint) (w : World) : Prop where
  inv : Inv db 0 L s0 { js := w.js, cps := cps }
  db : w.db = db

/-- `transfer` from an account to itself, or of nothing, for any amount (an amount of 2^256 or more cannot be covered) -/
theorem transfer_benign' {db : Journal.Db} {s : Journal.JState} {src dst : Nat} {v : Nat} {s' : Journal.JState}
    {r : Option Journal.TransferErr} (hbal : BalOk db s) (hcase : src = dst ∨ v = 0)
    (h : Journal.transfer db s src dst v = some (s', r)) : Benign db s s' := by
  by_cases hv : v < W
  · exact Proofs.Static.transfer_benign hbal hv hcase h
  · rw [Proofs.Static.transfer_eq] at h
    cases h1 : Journal.loadAccount db s src with
    | none => simp [h1] at h
    | some p1 =>
    obtain ⟨s1, c1⟩ := p1
    cases h2 : Journal.loadAccount db s1 dst with
    | none => simp [h1, h2] at h
    | some p2 =>
    obtain ⟨s2, c2⟩ := p2
    cases hf : s2.state src with
    | none => simp [h1, h2, hf] at h
    | some fromAcc =>
    cases ht : Journal.touchAccount s2 src fromAcc with
    | none => simp [h1, h2, hf, ht] at h
    | some p3 =>
    obtain ⟨s3, fa⟩ := p3
    obtain ⟨B23, hs3, _, htch⟩ := Proofs.Static.touchAccount_spec (db := db) hf ht
    have B03 : Benign db s s3 :=
      ((Proofs.Static.loadAccount_benign h1).trans (Proofs.Static.loadAccount_benign h2)).trans B23
    have hb3 : BalOk db s3 := Proofs.Static.balOk_of_world hbal B03.world
    simp only [h1, h2, hf, ht, Option.bind_eq_bind, Option.bind_some] at h
    have hlt := Proofs.Static.balOk_acc hb3 hs3
    unfold Proofs.Static.transferDebit at h
    rw [if_pos (by omega)] at h
    simp only [Option.some.injEq, Prod.mk.injEq] at h
    rw [← h.1]; exact B03

section sw
variable {db : Journal.Db} {L : Nat} {s0 : Journal.JState} (hb0 : BalOk db s0)
include hb0

omit hb0 in
theorem SW.benign {cps : List Journal.Checkpoint} {w w' : World} (h : SW db L s0 cps w)
    (hB : Benign db w.js w'.js) (hdb : w'.db = db) : SW db L s0 cps w' :=
  ⟨inv_benign h.inv hB, hdb⟩

omit hb0 in
theorem SW.balOk {cps : List Journal.Checkpoint} {w : World} (h : SW db L s0 cps w) (hb0 : BalOk db s0) :
    BalOk db w.js := Proofs.Static.balOk_of_world hb0 h.inv.world

/-- a `Host` answer to a non-mutating request -/
theorem sw_answer {cps : List Journal.Checkpoint} {he : HostEnv} {w w1 : World} {op : Interp.HostOp}
    {resp : Interp.HostResp} (h : SW db L s0 cps w) (ha : answer he w op = .ok (resp, w1))
    (hm : mutating op = false) : SW db L s0 cps w1 := by
  obtain ⟨hrun, hdb, _⟩ := answer_trace ha cps
  rw [h.db] at hrun
  exact ⟨inv_run hb0 _ _ _ h.inv (hostOps_allowed w op 0 hm) hrun, hdb.trans h.db⟩

omit hb0 in
theorem sw_loadAccount {cps : List Journal.Checkpoint} {w w1 : World} {a : Nat} {c : Bool} (h : SW db L s0 cps w)
    (hl : w.loadAccount a = .ok (w1, c)) : SW db L s0 cps w1 := by
  obtain ⟨t1, t2⟩ := w_loadAccount_tr hl
  rw [h.db] at t1
  exact h.benign (Proofs.Static.loadAccount_benign t1) (t2.trans h.db)

omit hb0 in
theorem sw_loadCode {cps : List Journal.Checkpoint} {w w1 : World} {a : Nat} {c : Bool} (h : SW db L s0 cps w)
    (hl : w.loadCode a = .ok (w1, c)) : SW db L s0 cps w1 := by
  obtain ⟨t1, t2⟩ := w_loadCode_tr hl
  rw [h.db] at t1
  exact h.benign (Proofs.Static.loadCode_benign t1) (t2.trans h.db)

omit hb0 in
theorem sw_loadAccountDelegated {cps : List Journal.Checkpoint} {w w1 : World} {a : Nat} {r} (h : SW db L s0 cps w)
    (hl : w.loadAccountDelegated a = .ok (w1, r)) : SW db L s0 cps w1 := by
  obtain ⟨ie, c, dc⟩ := r
  obtain ⟨t1, t2⟩ := w_loadAccountDelegated_tr hl
  rw [h.db] at t1
  exact h.benign (Proofs.Static.loadAccountDelegated_benign t1) (t2.trans h.db)

omit hb0 in
theorem sw_touch {cps : List Journal.Checkpoint} {w w1 : World} {a : Nat} (h : SW db L s0 cps w)
    (hl : w.touch a = .ok w1) : SW db L s0 cps w1 := by
  unfold World.touch at hl
  obtain ⟨js, h1, h2⟩ := bind_ok hl
  simp only [pure, Except.pure, Except.ok.injEq] at h2
  subst h2
  exact h.benign (Proofs.Static.touch_benign (Proofs.EvmHost.ofOpt_ok h1)) h.db

theorem sw_transfer {cps : List Journal.Checkpoint} {w w1 : World} {src dst v : Nat} {r} (h : SW db L s0 cps w)
    (hcase : src = dst ∨ v = 0) (hl : w.transfer src dst v = .ok (w1, r)) : SW db L s0 cps w1 := by
  unfold World.transfer at hl
  obtain ⟨⟨js, e⟩, h1, h2⟩ := bind_ok hl
  simp only [pure, Except.pure, Except.ok.injEq, Prod.mk.injEq] at h2
  obtain ⟨rfl, _⟩ := h2
  have t1 := Proofs.EvmHost.ofOpt_ok h1
  rw [h.db] at t1
  refine h.benign ?_ ?_
  · rw [Proofs.EvmHost.noteAddr_js, Proofs.EvmHost.noteAddr_js]
    exact transfer_benign' (h.balOk hb0) hcase t1
  · rw [Proofs.EvmHost.noteAddr_db, Proofs.EvmHost.noteAddr_db]; exact h.db

/-- `checkpoint`: one more checkpoint handed out -/
theorem sw_checkpoint {cps : List Journal.Checkpoint} {w : World} (h : SW db L s0 cps w) :
    SW db L s0 (cps ++ [w.checkpoint.2]) w.checkpoint.1 :=
  ⟨inv_step hb0 h.inv (op := .checkpoint) rfl (by simp only [step]; rfl), h.db⟩

theorem sw_commit {cps : List Journal.Checkpoint} {w : World} (h : SW db L s0 cps w) : SW db L s0 cps w.commit :=
  ⟨inv_step hb0 h.inv (op := .commit) rfl (by simp only [step]; rfl), h.db⟩

/-- `checkpoint_revert` to a checkpoint handed out inside the static frame -/
theorem sw_revert {cps : List Journal.Checkpoint} {w w1 : World} {cp : Journal.Checkpoint} (h : SW db L s0 cps w)
    (hcp : cp ∈ cps) (hr : w.revert cp = .ok w1) : SW db L s0 cps w1 := by
  unfold World.revert at hr
  obtain ⟨js, h1, h2⟩ := bind_ok hr
  simp only [pure, Except.pure, Except.ok.injEq] at h2
  subst h2
  have t1 := Proofs.EvmHost.ofOpt_ok h1
  obtain ⟨i, hi⟩ := List.getElem?_of_mem hcp
  exact ⟨inv_step hb0 h.inv (op := .revert i) (by simp [allowed]) (by simp only [step, hi, t1, Option.map_some]),
    h.db⟩

/-! ## `make_call_frame` for a static call, `call_return` -/

theorem sw_callValueStep {cps : List Journal.Checkpoint} {w w1 : World} {i : Interp.CallInputs} {f}
    (h : SW db L s0 cps w) (hsc : StaticCall i) (hv : callValueStep w i = .ok (w1, f)) : SW db L s0 cps w1 := by
  unfold callValueStep at hv
  split at hv
  · rename_i hvt
    split at hv
    · obtain ⟨⟨w2, c⟩, h1, hv⟩ := bind_ok hv
      obtain ⟨w3, h2, hv⟩ := bind_ok hv
      simp only [pure, Except.pure, Except.ok.injEq, Prod.mk.injEq] at hv
      rw [← hv.1]
      exact sw_touch (sw_loadAccount h h1) h2
    · rename_i hne
      obtain ⟨⟨w2, e⟩, h1, hv⟩ := bind_ok hv
      have p : SW db L s0 cps w2 := by
        refine sw_transfer hb0 h ?_ h1
        rcases hsc.2 hvt with h0 | h0
        · exact absurd h0 hne
        · exact Or.inl h0.symm
      simp only at hv
      split at hv <;> simp only [pure, Except.pure, Except.ok.injEq, Prod.mk.injEq] at hv <;> (rw [← hv.1]; exact p)
  · simp only [pure, Except.pure, Except.ok.injEq, Prod.mk.injEq] at hv
    rw [← hv.1]; exact h

theorem sw_callTail {cps : List Journal.Checkpoint} {cfg : Cfg} {w w' : World} {cp : Journal.Checkpoint}
    {i : Interp.CallInputs} {mem fr} (h : SW db L s0 cps w)
    (ht : callTail journalOps cfg w cp i mem = .ok (fr, w')) :
    SW db L s0 cps w' ∧ ∀ f, fr = .frame f →
      f.checkpoint = cp ∧ f.interp.isStatic = i.isStatic ∧ f.kind = .call i.retStart i.retEnd := by
  unfold callTail at ht
  obtain ⟨⟨w1, c⟩, h1, ht⟩ := bind_ok ht
  have p1 := sw_loadCode h h1
  obtain ⟨acc, _, ht⟩ := bind_ok ht
  obtain ⟨hh, _, ht⟩ := bind_ok ht
  obtain ⟨bytecode, _, ht⟩ := bind_ok ht
  split at ht
  · simp only [pure, Except.pure, Except.ok.injEq, Prod.mk.injEq] at ht
    rw [← ht.2, ← ht.1]
    exact ⟨sw_commit hb0 p1, fun f hf => nomatch hf⟩
  · obtain ⟨⟨w2, code2⟩, h2, ht⟩ := bind_ok ht
    simp only [pure, Except.pure, Except.ok.injEq, Prod.mk.injEq] at ht
    rw [← ht.2, ← ht.1]
    refine ⟨?_, fun f hf => ?_⟩
    · split at h2
      · obtain ⟨⟨w3, c3⟩, h3, h2⟩ := bind_ok h2
        obtain ⟨dacc, _, h2⟩ := bind_ok h2
        obtain ⟨dh, _, h2⟩ := bind_ok h2
        obtain ⟨dcode, _, h2⟩ := bind_ok h2
        simp only [pure, Except.pure, Except.ok.injEq, Prod.mk.injEq] at h2
        rw [← h2.1]; exact sw_loadCode p1 h3
      · simp only [pure, Except.pure, Except.ok.injEq, Prod.mk.injEq] at h2
        rw [← h2.1]; exact p1
    · simp only [FrameOrResult.frame.injEq] at hf
      rw [← hf]
      exact ⟨rfl, rfl, rfl⟩

theorem sw_callPrecompile {cps : List Journal.Checkpoint} {cfg : Cfg} {w w' : World} {cp : Journal.Checkpoint}
    {i : Interp.CallInputs} {mem fr} (h : SW db L s0 cps w) (hcp : cp ∈ cps)
    (ht : callPrecompile journalOps cfg w cp i mem = .ok (fr, w')) :
    SW db L s0 cps w' ∧ ∀ f, fr = .frame f →
      f.checkpoint = cp ∧ f.interp.isStatic = i.isStatic ∧ f.kind = .call i.retStart i.retEnd := by
  unfold callPrecompile at ht
  obtain ⟨pc, _, ht⟩ := bind_ok ht
  cases pc with
  | none => exact sw_callTail hb0 h ht
  | some res =>
    simp only at ht
    cases res with
    | ok gasUsed out =>
      simp only at ht
      split at ht
      · simp only [pure, Except.pure, Except.ok.injEq, Prod.mk.injEq] at ht
        rw [← ht.2, ← ht.1]; exact ⟨sw_commit hb0 h, fun f hf => nomatch hf⟩
      · obtain ⟨w1, h1, ht⟩ := bind_ok ht
        simp only [pure, Except.pure, Except.ok.injEq, Prod.mk.injEq] at ht
        rw [← ht.2, ← ht.1]; exact ⟨sw_revert hb0 h hcp h1, fun f hf => nomatch hf⟩
    | err e =>
      simp only at ht
      obtain ⟨w1, h1, ht⟩ := bind_ok ht
      simp only [pure, Except.pure, Except.ok.injEq, Prod.mk.injEq] at ht
      rw [← ht.2, ← ht.1]; exact ⟨sw_revert hb0 h hcp h1, fun f hf => nomatch hf⟩
    | panic =>
      simp only at ht
      obtain ⟨x, hx, _⟩ := bind_ok ht
      cases hx

/-- **`make_call_frame` for a call a static frame hands out** keeps the invariant of C10; a frame it opens is static,
a call frame, and holds a checkpoint handed out inside the static region -/
theorem sw_makeCallFrame {cps : List Journal.Checkpoint} {cfg : Cfg} {w w' : World} {i : Interp.CallInputs} {mem fr}
    (h : SW db L s0 cps w) (hsc : StaticCall i) (hmk : makeCallFrame journalOps cfg w i mem = .ok (fr, w')) :
    ∃ cps', SW db L s0 cps' w' ∧ (∀ c ∈ cps, c ∈ cps') ∧ ∀ f, fr = .frame f →
      f.checkpoint ∈ cps' ∧ f.interp.isStatic = true ∧ ∃ rs re, f.kind = .call rs re := by
  rw [makeCallFrame_staged] at hmk
  unfold makeCallFrameS at hmk
  split at hmk
  · simp only [pure, Except.pure, Except.ok.injEq, Prod.mk.injEq] at hmk
    rw [← hmk.2, ← hmk.1]; exact ⟨cps, h, fun c hc => hc, fun f hf => nomatch hf⟩
  · obtain ⟨⟨w1, x⟩, h1, hmk⟩ := bind_ok hmk
    have p1 := sw_loadAccountDelegated h h1
    simp only at hmk
    obtain ⟨⟨w2, failed⟩, h2, hmk⟩ := bind_ok hmk
    have pc := sw_checkpoint hb0 p1
    have p2 := sw_callValueStep hb0 pc hsc h2
    have hin : w1.checkpoint.2 ∈ cps ++ [w1.checkpoint.2] := List.mem_append_right _ (List.mem_singleton.mpr rfl)
    refine ⟨cps ++ [w1.checkpoint.2], ?_, fun c hc => List.mem_append_left _ hc, ?_⟩
    · cases failed with
      | some r0 =>
        simp only at hmk
        obtain ⟨w3, h3, hmk⟩ := bind_ok hmk
        simp only [pure, Except.pure, Except.ok.injEq, Prod.mk.injEq] at hmk
        rw [← hmk.2]; exact sw_revert hb0 p2 hin h3
      | none =>
        simp only at hmk
        exact (sw_callPrecompile hb0 p2 hin hmk).1
    · intro f hf
      cases failed with
      | some r0 =>
        simp only at hmk
        obtain ⟨w3, h3, hmk⟩ := bind_ok hmk
        simp only [pure, Except.pure, Except.ok.injEq, Prod.mk.injEq] at hmk
        rw [← hmk.1] at hf; cases hf
      | none =>
        simp only at hmk
        obtain ⟨e1, e2, e3⟩ := (sw_callPrecompile hb0 p2 hin hmk).2 f hf
        exact ⟨by rw [e1]; exact hin, by rw [e2]; exact hsc.1, _, _, e3⟩

theorem sw_callReturn {cps : List Journal.Checkpoint} {w w' : World} {cp : Journal.Checkpoint}
    {r r' : Interp.ChildResult} (h : SW db L s0 cps w) (hcp : cp ∈ cps)
    (hr : callReturn journalOps w cp r = .ok (r', w')) : SW db L s0 cps w' := by
  unfold callReturn at hr
  split at hr
  · simp only [pure, Except.pure, Except.ok.injEq, Prod.mk.injEq] at hr
    rw [← hr.2]; exact sw_commit hb0 h
  · obtain ⟨w1, h1, hr⟩ := bind_ok hr
    simp only [pure, Except.pure, Except.ok.injEq, Prod.mk.injEq] at hr
    rw [← hr.2]; exact sw_revert hb0 h hcp h1

end sw
end Revm.Proofs.EvmLink
