import Revm.Model.Interp
import Revm.Gen.Tables
/-! C25 ⇄ kind-A table: the activation gate of the interpreter model (`decode` + the `check!` of each handler,
+ `require_eof!`) equals, for every opcode byte and every SpecId, what the compiled interpreter did when the table
was dumped (`Gen.opStatus`, regenerated on every run). -/
namespace Revm.Proofs.Interp
open Revm Revm.Model Revm.Model.Interp

/-- the state the dumper prepares: one opcode, 17 stack items, ample gas (`harness/src/act.rs::op_status`) -/
def gateState (spec op : Nat) : IState :=
  { code := op :: List.replicate 33 0, origLen := 1, jumpTable := List.replicate 34 false, pc := 0,
    stack := List.replicate 17 1, mem := Memory.new, gas := Gas.new 10000000, returnData := [], input := [],
    isStatic := false, isEof := false, isEofInit := false, spec := spec, target := 0, caller := 0, callValue := 0,
    env := {} }

/-- `gate_code` of the result of the first instruction -/
def gateOf (spec op : Nat) : Nat :=
  match step (gateState spec op) with
  | .pure (.halt .NotActivated _ _) => 1
  | .pure (.halt .OpcodeNotFound _ _) => 2
  | .pure (.halt .EOFOpcodeDisabledInLegacy _ _) => 3
  | .pure (.halt .InvalidFEOpcode _ _) => 4
  | .pure (.halt .ReturnContractInNotInitEOF _ _) => 5
  | _ => 0

def gateRowOk (spec : Nat) (codes : List Nat) : Bool :=
  (List.range 256).all fun op => codes[op]? == some (gateOf (GasCalc.canon spec) op)

theorem gate_table : Gen.opStatus.all (fun r => gateRowOk r.1 r.2) = true := by
  decide +kernel

end Revm.Proofs.Interp
