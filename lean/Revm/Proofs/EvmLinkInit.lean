import Revm.Proofs.InterpTop
import Revm.Proofs.EvmLinkDepth2
import Revm.Proofs.EvmLinkHost
/-! LINK, panic-freedom, ingredient for C25's per-frame invariant: **the initial state of a frame satisfies C25's `Inv`
for ANY code** — `init_inv` of C25 asks for a byte string (`Spec.Jump.Bytes`); the only use is "no jump destination in
the padding", which holds for every list of naturals: the analysis marks `t` only where `code[t] = JUMPDEST`. -/
set_option linter.unusedSimpArgs false
set_option linter.unusedVariables false
namespace Revm.Proofs.EvmLink
open Revm Revm.Model Revm.Model.Interp
open Revm.Proofs.Interp

/-- the scan marks a position only where the opcode is `JUMPDEST` (no assumption on the code) -/
theorem analyzeLoop_true (code : List Nat) : ∀ (n i : Nat) (jumps : List Bool), code.length - i = n →
    ∀ t : Nat, (Jump.analyzeLoop code i jumps)[t]? = some true →
      jumps[t]? = some true ∨ code[t]? = some Jump.JUMPDEST := by
  intro n
  induction n using Nat.strongRecOn with
  | _ n ih =>
    intro i jumps hn t ht
    rw [Jump.analyzeLoop] at ht
    split at ht
    · rename_i hi
      dsimp only at ht
      split at ht
      · rename_i hop
        rcases ih (code.length - (i + 1)) (by omega) (i + 1) _ rfl t ht with h | h
        · by_cases hti : t = i
          · subst hti
            right
            rw [List.getElem?_eq_getElem hi, hop]
          · left
            rw [List.getElem?_set] at h
            rw [if_neg (fun e => hti e.symm)] at h
            exact h
        · exact Or.inr h
      · split at ht
        · exact ih (code.length - (i + (_ + 2))) (by omega) _ _ rfl t ht
        · exact ih (code.length - (i + 1)) (by omega) _ _ rfl t ht
    · exact Or.inl ht

/-- no jump destination in the padding, for any code -/
theorem isValid_beyond' (code : List Nat) (t : Nat) (ht : code.length ≤ t) :
    Jump.isValid (Jump.analyze (Jump.pad code)) t = false := by
  cases h : Jump.isValid (Jump.analyze (Jump.pad code)) t with
  | false => rfl
  | true =>
    exfalso
    unfold Jump.isValid at h
    split at h
    · rename_i hlt
      have hget : (Jump.analyze (Jump.pad code))[t]? = some true := by
        rw [List.getElem?_eq_getElem hlt, h]
      unfold Jump.analyze at hget
      rcases analyzeLoop_true (Jump.pad code) _ 0 _ rfl t hget with h1 | h1
      · rw [List.getElem?_replicate] at h1
        split at h1 <;> cases h1
      · by_cases hp : t < (Jump.pad code).length
        · rw [pad_getElem code t ht hp] at h1
          cases h1
        · rw [List.getElem?_eq_none (by omega)] at h1
          cases h1
    · cases h

/-- **C25 `init_inv` for ANY code** (no `Bytes` hypothesis) -/
theorem init_inv' (code input : List Nat) (gasLimit : Nat) (isStatic : Bool) (spec target caller callValue : Nat)
    (env : Env) (mem : Memory.SharedMemory)
    (hcl : code.length ≤ Memory.ISIZE_MAX) (hil : input.length ≤ Memory.ISIZE_MAX)
    (hgas : gasLimit < U64) (henv : EnvOk spec env) (hmem : FreshMem mem) :
    Inv (IState.init code input gasLimit isStatic spec target caller callValue env mem)
      ∧ measure (IState.init code input gasLimit isStatic spec target caller callValue env mem) = gasLimit := by
  have hmeas : measure (IState.init code input gasLimit isStatic spec target caller callValue env mem)
      = gasLimit := by
    show gasLimit + Memory.currentExpansionCost mem = gasLimit
    rw [mcost_fresh hmem]; rfl
  refine ⟨?_, hmeas⟩
  exact
    { codeLen := Proofs.Jump.pad_length code
      pad := fun i h1 h2 => pad_getElem code i h1 h2
      jt := by
        intro t ht
        show t < code.length
        by_cases h : t < code.length
        · exact h
        · have := isValid_beyond' code t (by omega)
          have ht' : Jump.isValid (Jump.analyze (Jump.pad code)) t = true := ht
          rw [this] at ht'; cases ht'
      legacy := rfl
      notInit := rfl
      envOk := henv
      origLe := hcl
      pc := by show 0 < (Jump.pad code).length; rw [Proofs.Jump.pad_length]; omega
      stack := by show ([] : List Nat).length ≤ 1024; simp
      memWF := hmem.wf
      memCk := hmem.ck
      rdLen := by show ([] : List Nat).length ≤ _; simp
      inLen := hil
      meas := by rw [hmeas]; omega
      safe := Or.inr rfl }

/-- a fresh context on top of a well-formed memory of at most 2^62 bytes -/
theorem freshMem_newContext {m : Memory.SharedMemory} (h : Proofs.Memory.WF m) (hl : m.buffer.length ≤ 2^62) :
    FreshMem (Memory.newContext m) :=
  ⟨Proofs.Memory.newContext_wf h, hl, by show m.buffer.length - m.buffer.length = 0; omega⟩

end Revm.Proofs.EvmLink

namespace Revm.Proofs.EvmLink
open Revm Revm.Model Revm.Model.Evm
open Revm.Proofs.Interp

/-- C25 `RespOk` for the `Host` of EvmHost: only `code` answers carry bytes, and they come from the code store -/
theorem answer_respOk {he : HostEnv} {w w1 : World} {op : Interp.HostOp} {resp : Interp.HostResp}
    (h : answer he w op = .ok (resp, w1))
    (hc : ∀ (wx : World) (hh : Nat) (bytes : List Nat), wx.codes = w.codes → wx.codeOf hh = some bytes →
      bytes.length ≤ Memory.ISIZE_MAX) (hcodes : ∀ a wx c, w.loadCode a = .ok (wx, c) → wx.codes = w.codes) :
    RespOk resp := by
  have z : ([] : List Nat).length ≤ Memory.ISIZE_MAX := by show 0 ≤ _; exact Nat.zero_le _
  cases op <;> simp only [answer] at h
  case keccak d => cases h; exact z
  case blockHash n => cases h; exact z
  case tload a k => cases h; exact z
  case create2Address d sl c => cases h; exact z
  case log a t d => cases h; exact z
  case balance a =>
    obtain ⟨⟨w2, c⟩, _, h⟩ := bind_ok h
    obtain ⟨acc, _, h⟩ := bind_ok h
    cases h; exact z
  case code a =>
    obtain ⟨⟨w2, c⟩, hl, h⟩ := bind_ok h
    obtain ⟨acc, _, h⟩ := bind_ok h
    obtain ⟨hh, _, h⟩ := bind_ok h
    obtain ⟨bytes, hb, h⟩ := bind_ok h
    cases h
    exact hc w2 hh bytes (hcodes a w2 c hl) (Proofs.EvmHost.ofOpt_ok hb)
  case codeHash a =>
    obtain ⟨⟨w2, c⟩, _, h⟩ := bind_ok h
    obtain ⟨acc, _, h⟩ := bind_ok h
    split at h <;> (cases h; exact z)
  case sload a k =>
    obtain ⟨⟨js, v, c⟩, _, h⟩ := bind_ok h
    cases h; exact z
  case sstore a k v =>
    obtain ⟨⟨js, o, p, n, c⟩, _, h⟩ := bind_ok h
    cases h; exact z
  case tstore a k v =>
    obtain ⟨js, _, h⟩ := bind_ok h
    cases h; exact z
  case selfdestruct a t =>
    obtain ⟨⟨js, hv, te, pd, c⟩, _, h⟩ := bind_ok h
    cases h; exact z
  case loadAccountDelegated a =>
    obtain ⟨⟨w2, x⟩, _, h⟩ := bind_ok h
    cases h; exact z

theorem noteAddr_codes (w : World) (a : Nat) : (w.noteAddr a).codes = w.codes := by
  unfold World.noteAddr; split <;> rfl

theorem w_loadCode_codes {w w1 : World} {a : Nat} {c : Bool} (h : w.loadCode a = .ok (w1, c)) : w1.codes = w.codes := by
  unfold World.loadCode at h
  obtain ⟨⟨js, c'⟩, _, h2⟩ := bind_ok h
  simp only [pure, Except.pure, Except.ok.injEq, Prod.mk.injEq] at h2
  rw [← h2.1, noteAddr_codes]

theorem createTail_init_inv {cfg : Cfg} {w w' : World} {i : Interp.CreateInputs} {mem : Memory.SharedMemory}
    {created : Nat} {f : Frame Journal.Checkpoint}
    (key : ∀ created, Inv (Interp.IState.init i.initCode [] i.gasLimit false cfg.spec created i.caller i.value
      cfg.env (Memory.newContext mem)) ∧ measure (Interp.IState.init i.initCode [] i.gasLimit false cfg.spec created
      i.caller i.value cfg.env (Memory.newContext mem)) = i.gasLimit)
    (h : createTail journalOps cfg w i mem created = .ok (.frame f, w')) :
    Inv f.interp ∧ measure f.interp = i.gasLimit := by
  unfold createTail at h
  simp only [pure, Except.pure] at h
  split at h
  · simp only [Except.ok.injEq, Prod.mk.injEq] at h; cases h.1
  · obtain ⟨⟨w3, c3⟩, _, h⟩ := bind_ok h
    obtain ⟨⟨w4, r4⟩, _, h⟩ := bind_ok h
    simp only at h
    split at h
    · simp only [Except.ok.injEq, Prod.mk.injEq] at h; cases h.1
    · simp only [Except.ok.injEq, Prod.mk.injEq] at h; cases h.1
    · simp only [Except.ok.injEq, Prod.mk.injEq, FrameOrResult.frame.injEq] at h
      rw [← h.1]
      exact key _

/-- **the frame `make_create_frame` opens satisfies C25's invariant** (`init_inv`): for an initcode and a gas limit
within bounds, a validated environment and a well-formed shared memory of at most 2^62 bytes -/
theorem makeCreateFrame_init_inv {cfg : Cfg} {w w' : World} {i : Interp.CreateInputs} {mem : Memory.SharedMemory}
    {f : Frame Journal.Checkpoint} (h : makeCreateFrame journalOps cfg w i mem = .ok (.frame f, w'))
    (hcl : i.initCode.length ≤ Memory.ISIZE_MAX) (hg : i.gasLimit < U64) (henv : EnvOk cfg.spec cfg.env)
    (hm : Proofs.Memory.WF mem) (hl : mem.buffer.length ≤ 2^62) :
    Inv f.interp ∧ measure f.interp = i.gasLimit := by
  have key : ∀ created, Inv (Interp.IState.init i.initCode [] i.gasLimit false cfg.spec created i.caller i.value
      cfg.env (Memory.newContext mem)) ∧ measure (Interp.IState.init i.initCode [] i.gasLimit false cfg.spec created
      i.caller i.value cfg.env (Memory.newContext mem)) = i.gasLimit :=
    fun created => init_inv' _ _ _ _ _ _ _ _ _ _ hcl (by show 0 ≤ _; exact Nat.zero_le _) hg henv
      (freshMem_newContext hm hl)
  rw [makeCreateFrame_staged] at h
  unfold makeCreateFrameS at h
  simp only [pure, Except.pure] at h
  split at h
  · simp only [Except.ok.injEq, Prod.mk.injEq] at h; cases h.1
  · obtain ⟨⟨w1, c⟩, _, h⟩ := bind_ok h
    obtain ⟨cacc, _, h⟩ := bind_ok h
    simp only at h
    split at h
    · simp only [Except.ok.injEq, Prod.mk.injEq] at h; cases h.1
    · obtain ⟨⟨js, nn⟩, _, h⟩ := bind_ok h
      simp only at h
      cases nn with
      | none => simp only [Except.ok.injEq, Prod.mk.injEq] at h; cases h.1
      | some newNonce =>
        simp only at h
        exact createTail_init_inv key h

/-- **the frame `make_call_frame`'s tail opens satisfies C25's invariant**: the code comes from the code store -/
theorem callTail_init_inv {cfg : Cfg} {w w' : World} {cp : Journal.Checkpoint} {i : Interp.CallInputs}
    {mem : Memory.SharedMemory} {f : Frame Journal.Checkpoint}
    (h : callTail journalOps cfg w cp i mem = .ok (.frame f, w'))
    (hc : ∀ (wx : World) (hh : Nat) (bytes : List Nat), wx.codes = w.codes → wx.codeOf hh = some bytes →
      bytes.length ≤ Memory.ISIZE_MAX)
    (hil : i.input.length ≤ Memory.ISIZE_MAX) (hg : i.gasLimit < U64) (henv : EnvOk cfg.spec cfg.env)
    (hm : Proofs.Memory.WF mem) (hl : mem.buffer.length ≤ 2^62) :
    Inv f.interp ∧ measure f.interp = i.gasLimit := by
  have key : ∀ code : List Nat, code.length ≤ Memory.ISIZE_MAX →
      Inv (Interp.IState.init code i.input i.gasLimit i.isStatic cfg.spec i.targetAddress i.caller i.value
        cfg.env (Memory.newContext mem)) ∧ measure (Interp.IState.init code i.input i.gasLimit i.isStatic cfg.spec
        i.targetAddress i.caller i.value cfg.env (Memory.newContext mem)) = i.gasLimit :=
    fun code hcl => init_inv' _ _ _ _ _ _ _ _ _ _ hcl hil hg henv (freshMem_newContext hm hl)
  unfold callTail at h
  obtain ⟨⟨w1, c⟩, hl1, h⟩ := bind_ok h
  have e1 := w_loadCode_codes hl1
  obtain ⟨acc, _, h⟩ := bind_ok h
  obtain ⟨hh, _, h⟩ := bind_ok h
  obtain ⟨bytecode, hb, h⟩ := bind_ok h
  have hbl := hc w1 hh bytecode e1 (Proofs.EvmHost.ofOpt_ok hb)
  split at h
  · simp only [pure, Except.pure, Except.ok.injEq, Prod.mk.injEq] at h
    exact nomatch h.1
  · obtain ⟨⟨w2, code2⟩, h2, h⟩ := bind_ok h
    simp only [pure, Except.pure, Except.ok.injEq, Prod.mk.injEq, FrameOrResult.frame.injEq] at h
    rw [← h.1]
    refine key code2 ?_
    split at h2
    · obtain ⟨⟨w3, c3⟩, hl3, h2⟩ := bind_ok h2
      obtain ⟨dacc, _, h2⟩ := bind_ok h2
      obtain ⟨dh, _, h2⟩ := bind_ok h2
      obtain ⟨dcode, hd, h2⟩ := bind_ok h2
      simp only [pure, Except.pure, Except.ok.injEq, Prod.mk.injEq] at h2
      rw [← h2.2]
      exact hc w3 dh dcode ((w_loadCode_codes hl3).trans e1) (Proofs.EvmHost.ofOpt_ok hd)
    · simp only [pure, Except.pure, Except.ok.injEq, Prod.mk.injEq] at h2
      rw [← h2.2]; exact hbl

end Revm.Proofs.EvmLink
