import Revm.Proofs.InterpTop
/-! LINK, panic-freedom, ingredient for C25's per-frame invariant: **the initial state of a frame satisfies C25's `Inv`
for ANY code** — `init_inv` of C25 asks for a byte string (`Spec.Jump.Bytes`); the only use is "no jump destination in
the padding", which holds for every list of naturals: the analysis marks `t` only where `code[t] = JUMPDEST`. -/
set_option linter.unusedSimpArgs false
set_option linter.unusedVariables false
namespace Revm.Proofs.EvmLink
open Revm Revm.Model Revm.Model.Interp
open Revm.Proofs.Interp

/-- the scan marks a position only where the opcode is `JUMPDEST` (no assumption on the code) -/
theorem analyzeLoop_true (code : List Nat) : ∀ (n i : Nat) (jumps : List Bool), code.length - i = n →
    ∀ t : Nat, (Jump.analyzeLoop code i jumps)[t]? = some true →
      jumps[t]? = some true ∨ code[t]? = some Jump.JUMPDEST := by
  intro n
  induction n using Nat.strongRecOn with
  | _ n ih =>
    intro i jumps hn t ht
    rw [Jump.analyzeLoop] at ht
    split at ht
    · rename_i hi
      dsimp only at ht
      split at ht
      · rename_i hop
        rcases ih (code.length - (i + 1)) (by omega) (i + 1) _ rfl t ht with h | h
        · by_cases hti : t = i
          · subst hti
            right
            rw [List.getElem?_eq_getElem hi, hop]
          · left
            rw [List.getElem?_set] at h
            rw [if_neg (fun e => hti e.symm)] at h
            exact h
        · exact Or.inr h
      · split at ht
        · exact ih (code.length - (i + (_ + 2))) (by omega) _ _ rfl t ht
        · exact ih (code.length - (i + 1)) (by omega) _ _ rfl t ht
    · exact Or.inl ht

/-- no jump destination in the padding, for any code -/
theorem isValid_beyond' (code : List Nat) (t : Nat) (ht : code.length ≤ t) :
    Jump.isValid (Jump.analyze (Jump.pad code)) t = false := by
  cases h : Jump.isValid (Jump.analyze (Jump.pad code)) t with
  | false => rfl
  | true =>
    exfalso
    unfold Jump.isValid at h
    split at h
    · rename_i hlt
      have hget : (Jump.analyze (Jump.pad code))[t]? = some true := by
        rw [List.getElem?_eq_getElem hlt, h]
      unfold Jump.analyze at hget
      rcases analyzeLoop_true (Jump.pad code) _ 0 _ rfl t hget with h1 | h1
      · rw [List.getElem?_replicate] at h1
        split at h1 <;> cases h1
      · by_cases hp : t < (Jump.pad code).length
        · rw [pad_getElem code t ht hp] at h1
          cases h1
        · rw [List.getElem?_eq_none (by omega)] at h1
          cases h1
    · cases h

/-- **C25 `init_inv` for ANY code** (no `Bytes` hypothesis) -/
theorem init_inv' (code input : List Nat) (gasLimit : Nat) (isStatic : Bool) (spec target caller callValue : Nat)
    (env : Env) (mem : Memory.SharedMemory)
    (hcl : code.length ≤ Memory.ISIZE_MAX) (hil : input.length ≤ Memory.ISIZE_MAX)
    (hgas : gasLimit < U64) (henv : EnvOk spec env) (hmem : FreshMem mem) :
    Inv (IState.init code input gasLimit isStatic spec target caller callValue env mem)
      ∧ measure (IState.init code input gasLimit isStatic spec target caller callValue env mem) = gasLimit := by
  have hmeas : measure (IState.init code input gasLimit isStatic spec target caller callValue env mem)
      = gasLimit := by
    show gasLimit + Memory.currentExpansionCost mem = gasLimit
    rw [mcost_fresh hmem]; rfl
  refine ⟨?_, hmeas⟩
  exact
    { codeLen := Proofs.Jump.pad_length code
      pad := fun i h1 h2 => pad_getElem code i h1 h2
      jt := by
        intro t ht
        show t < code.length
        by_cases h : t < code.length
        · exact h
        · have := isValid_beyond' code t (by omega)
          have ht' : Jump.isValid (Jump.analyze (Jump.pad code)) t = true := ht
          rw [this] at ht'; cases ht'
      legacy := rfl
      notInit := rfl
      envOk := henv
      origLe := hcl
      pc := by show 0 < (Jump.pad code).length; rw [Proofs.Jump.pad_length]; omega
      stack := by show ([] : List Nat).length ≤ 1024; simp
      memWF := hmem.wf
      memCk := hmem.ck
      rdLen := by show ([] : List Nat).length ≤ _; simp
      inLen := hil
      meas := by rw [hmeas]; omega
      safe := Or.inr rfl }

/-- a fresh context on top of a well-formed memory of at most 2^62 bytes -/
theorem freshMem_newContext {m : Memory.SharedMemory} (h : Proofs.Memory.WF m) (hl : m.buffer.length ≤ 2^62) :
    FreshMem (Memory.newContext m) :=
  ⟨Proofs.Memory.newContext_wf h, hl, by show m.buffer.length - m.buffer.length = 0; omega⟩

end Revm.Proofs.EvmLink
