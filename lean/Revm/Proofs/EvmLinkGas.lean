import Revm.Model.Evm
import Revm.Model.TxGas
/-! LINK between the whole-transaction model `Revm.Model.Evm` (C01) and the fee-pipeline model `Revm.Model.TxGas` (C09):
the two were written independently; here the gas and fee computations of `EvmTx` are shown to BE the functions of
`TxGas`, on every input, so that the C09 theorems transport to `Evm.transact`.

Translations: `gasEnv` (the fee-relevant fields of `Evm.Env`), `toIR` (`Interp.IResult` to `TxGas.IR`, constructor by
constructor), `frameRes` (the first frame's `ChildResult` as a `TxGas.FrameRes`). -/
namespace Revm.Proofs.EvmLink
open Revm Revm.Model Revm.Model.Evm

/-- `Interp.IResult` and `TxGas.IR` are two transcriptions of `InstructionResult`: the same 40 variants -/
def toIR : Interp.IResult → TxGas.IR
  | .Continue => .Continue | .Stop => .Stop | .Return => .Return | .SelfDestruct => .SelfDestruct
  | .ReturnContract => .ReturnContract | .Revert => .Revert | .CallTooDeep => .CallTooDeep
  | .OutOfFunds => .OutOfFunds | .CreateInitCodeStartingEF00 => .CreateInitCodeStartingEF00
  | .InvalidEOFInitCode => .InvalidEOFInitCode | .InvalidExtDelegateCallTarget => .InvalidExtDelegateCallTarget
  | .CallOrCreate => .CallOrCreate | .OutOfGas => .OutOfGas | .MemoryOOG => .MemoryOOG
  | .MemoryLimitOOG => .MemoryLimitOOG | .PrecompileOOG => .PrecompileOOG | .InvalidOperandOOG => .InvalidOperandOOG
  | .OpcodeNotFound => .OpcodeNotFound | .CallNotAllowedInsideStatic => .CallNotAllowedInsideStatic
  | .StateChangeDuringStaticCall => .StateChangeDuringStaticCall | .InvalidFEOpcode => .InvalidFEOpcode
  | .InvalidJump => .InvalidJump | .NotActivated => .NotActivated | .StackUnderflow => .StackUnderflow
  | .StackOverflow => .StackOverflow | .OutOfOffset => .OutOfOffset | .CreateCollision => .CreateCollision
  | .OverflowPayment => .OverflowPayment | .PrecompileError => .PrecompileError | .NonceOverflow => .NonceOverflow
  | .CreateContractSizeLimit => .CreateContractSizeLimit | .CreateContractStartingWithEF => .CreateContractStartingWithEF
  | .CreateInitCodeSizeLimit => .CreateInitCodeSizeLimit | .FatalExternalError => .FatalExternalError
  | .ReturnContractInNotInitEOF => .ReturnContractInNotInitEOF | .EOFOpcodeDisabledInLegacy => .EOFOpcodeDisabledInLegacy
  | .EOFFunctionStackOverflow => .EOFFunctionStackOverflow | .EofAuxDataOverflow => .EofAuxDataOverflow
  | .EofAuxDataTooSmall => .EofAuxDataTooSmall | .InvalidEXTCALLTarget => .InvalidEXTCALLTarget

/-- the translation keeps the variant's name (the two enumerations really are the same list) -/
theorem toIR_name (r : Interp.IResult) : TxGas.IR.ofName r.name = some (toIR r) := by
  cases r <;> decide

/-- `return_ok!` / `return_revert!` as the interpreter model has them = the gas class of `TxGas` -/
theorem toIR_gasClass (r : Interp.IResult) :
    (toIR r).gasClass = if r.isOk then .ok else if r.isRevert then .revert else .other := by
  cases r <;> rfl

/-- `SuccessOrHalt::from`: `Evm.classOf` = `TxGas.IR.report` (`none` = `fatal`: `output` panics) -/
def classOfReport : TxGas.Report → Option ResultClass
  | .success => some .success
  | .revert => some .revert
  | .halt => some .halt
  | .fatal => none

theorem classOf_eq_report (r : Interp.IResult) : classOf r = classOfReport (toIR r).report := by
  cases r <;> rfl

/-- the fee-relevant fields of the environment -/
def gasEnv (e : Evm.Env) (spec : Nat) : TxGas.Env :=
  { spec := spec, gasLimit := e.tx.gasLimit, gasPrice := e.tx.gasPrice, priorityFee := e.tx.priorityFee,
    basefee := e.block.basefee, blobPrice := e.block.blobGasPrice, nBlobs := e.tx.blobHashes.length,
    maxFeePerBlobGas := e.tx.maxFeePerBlobGas, value := e.tx.value }

/-- the first frame's result as the fee pipeline sees it; `limit` is the limit of the frame's own meter, which
`last_frame_return` does not read -/
def frameRes (res : Interp.ChildResult) (limit : Nat) : TxGas.FrameRes :=
  { ir := toIR res.result, gas := { limit := limit, remaining := res.gasRemaining, refunded := res.gasRefunded } }

/-! ## `env.rs` -/

theorem effectiveGasPrice_eq (e : Evm.Env) (spec : Nat) :
    e.effectiveGasPrice = TxGas.effectiveGasPrice (gasEnv e spec) := rfl

theorem totalBlobGas_eq (e : Evm.Env) (spec : Nat) : e.totalBlobGas = TxGas.totalBlobGas (gasEnv e spec) := rfl

theorem calcDataFee_eq (e : Evm.Env) (spec : Nat) : e.calcDataFee = TxGas.calcDataFee (gasEnv e spec) := by
  unfold Evm.Env.calcDataFee TxGas.calcDataFee
  cases h : e.block.blobGasPrice <;> simp only [gasEnv, h, Option.map] <;> rfl

theorem calcMaxDataFee_eq (e : Evm.Env) (spec : Nat) : e.calcMaxDataFee = TxGas.calcMaxDataFee (gasEnv e spec) := by
  unfold Evm.Env.calcMaxDataFee TxGas.calcMaxDataFee
  cases h : e.tx.maxFeePerBlobGas <;> simp only [gasEnv, h, Option.map] <;> rfl

/-! ## `last_frame_return`, `refund`, the EIP-7623 floor -/

/-- the transaction meter of `Evm.finalGas` is `TxGas`'s `floorAdjust ∘ refund ∘ lastFrameReturn`, for EVERY
first-frame result and every refund value handed over by the EIP-7702 stage -/
theorem finalGas_eq_stages (e : Evm.Env) (spec floorGas r7 : Nat) (res : Interp.ChildResult) (limit : Nat) :
    Evm.finalGas e spec floorGas r7 res =
      TxGas.floorAdjust
        (TxGas.refund (gasEnv e spec) (TxGas.lastFrameReturn (gasEnv e spec) (frameRes res limit)) (Gas.u64AsI64 r7))
        floorGas := by
  unfold Evm.finalGas TxGas.floorAdjust TxGas.refund TxGas.lastFrameReturn
  simp only [frameRes, toIR_gasClass]
  cases h1 : res.result.isOk
  · cases h2 : res.result.isRevert <;> simp [gasEnv]
  · simp [gasEnv]

/-- the refund `apply_eip7702_auth_list` hands over for `k` refunded authorities is `TxGas.eip7702Refund k` -/
theorem authRefund_eq (k : Nat) :
    Gas.u64AsI64 (U64ops.wmul k (Evm.PER_EMPTY_ACCOUNT_COST - Evm.PER_AUTH_BASE_COST)) = TxGas.eip7702Refund k := rfl

/-- **the gas pipeline of `EvmTx` is `TxGas.finalGas`** -/
theorem finalGas_eq_txgas (e : Evm.Env) (spec floorGas k : Nat) (res : Interp.ChildResult) (limit : Nat) :
    Evm.finalGas e spec floorGas (U64ops.wmul k (Evm.PER_EMPTY_ACCOUNT_COST - Evm.PER_AUTH_BASE_COST)) res =
      TxGas.finalGas (gasEnv e spec) floorGas k (frameRes res limit) := by
  rw [finalGas_eq_stages e spec floorGas _ res limit]
  rfl

/-- `output`: the two reported gas numbers -/
theorem txResultOf_gas (cls : ResultClass) (res : Interp.ChildResult) (isCreate : Bool) (g : Gas.Gas)
    (logs : List LogRec) :
    (txResultOf cls res isCreate g logs).gasUsed = TxGas.gasUsed g ∧
    (cls = .success → (txResultOf cls res isCreate g logs).gasRefunded = TxGas.gasRefunded g) ∧
    (cls ≠ .success → (txResultOf cls res isCreate g logs).gasRefunded = 0) := by
  cases cls <;> refine ⟨rfl, ?_, ?_⟩ <;> intro h <;> first | rfl | exact absurd rfl h | exact nomatch h

/-- the gas limit of the first frame -/
theorem frameGasLimit_eq (e : Evm.Env) (spec initialGas : Nat) :
    U64ops.wsub e.tx.gasLimit initialGas = TxGas.frameGasLimit (gasEnv e spec) initialGas := rfl

end Revm.Proofs.EvmLink
