import Revm.Proofs.EvmStep2Prim
/-! (c) STOP, RETURN, REVERT, INVALID, unknown opcodes: `Interp.step` is the rule of `Spec/EvmRules2.lean`. -/
set_option linter.unusedSimpArgs false
set_option linter.unusedVariables false
namespace Revm.Proofs.EvmStep2
open Revm Revm.Model Revm.Model.Interp
open Revm.Model.GasCalc (enabled)
open Revm.Spec.EvmRules Revm.Spec.EvmRules2
open Revm.Spec.GasCalc (ceil32 memCost)
open Revm.Proofs.EvmStep

theorem step_stop (s : IState) (hcode : s.code[s.pc]? = some 0x00) : step s = .pure (stopRule s) := by
  unfold step
  rw [hcode]
  rfl

theorem step_invalid (s : IState) (hcode : s.code[s.pc]? = some 0xfe) : step s = .pure (invalidRule s) := by
  unfold step
  rw [hcode]
  rfl

theorem step_unknown (s : IState) (op : Nat) (hcode : s.code[s.pc]? = some op) (hdec : decode op = .unknown) :
    step s = .pure (unknownRule s) := by
  unfold step
  rw [hcode]
  simp only [hdec, execInstr, execPure]
  rfl

theorem returnInner_eq (r : IResult) (s : IState) (h : MemOK s) (hw : ∀ w ∈ s.stack, w < W) :
    (returnInner r s).toDone =
      match s.stack.reverse with
      | off :: len :: rest =>
        let s1 := { s with stack := rest.reverse }
        if U64 ≤ len then .halt .InvalidOperandOOG [] s1
        else if len = 0 then .halt r [] s1
        else if U64 ≤ off then .halt .InvalidOperandOOG [] s1
        else memAccess s1 off len fun s2 => .halt r (load (memOf s2) off len) s2
      | _ => .halt .StackUnderflow [] s := by
  unfold returnInner
  rcases hrev : s.stack.reverse with _ | ⟨off, _ | ⟨len, rest⟩⟩
  · have : s.stack.length < 2 := by rw [← List.length_reverse, hrev]; decide
    rw [bind_halt _ _ _ _ _ _ (pop2_underflow s this)]; rfl
  · have : s.stack.length < 2 := by rw [← List.length_reverse, hrev]; simp
    rw [bind_halt _ _ _ _ _ _ (pop2_underflow s this)]; rfl
  · have hs : s.stack = rest.reverse ++ [len, off] := stack_of_reverse (pre := [off, len]) hrev
    have hoff : off < W := lt_W_of_mem hw (pre := [off, len]) hrev (by simp)
    have hlen : len < W := lt_W_of_mem hw (pre := [off, len]) hrev (by simp)
    rw [bind_ok _ _ _ _ _ (pop2_ok s _ off len hs)]
    simp only []
    have h1 : MemOK { s with stack := rest.reverse } := h.stack _
    generalize ({ s with stack := rest.reverse } : IState) = s1 at h1 ⊢
    by_cases hl : U64 ≤ len
    · rw [bind_halt _ _ _ _ _ _ (asUsizeOrFail_fail len _ s1 hl hlen), if_pos hl]; rfl
    · rw [bind_ok _ _ _ _ _ (asUsizeOrFail_ok len _ s1 (by omega)), if_neg hl]
      by_cases hz : len = 0
      · simp only [hz, ne_eq, not_true_eq_false, if_false, if_true]; rfl
      · simp only [hz, ne_eq, not_false_eq_true, if_true, if_false]
        by_cases ho : U64 ≤ off
        · rw [bind_halt _ _ _ _ _ _ (asUsizeOrFail_fail off _ s1 ho hoff), if_pos ho]; rfl
        · rw [bind_ok _ _ _ _ _ (asUsizeOrFail_ok off _ s1 (by omega)), if_neg ho]
          unfold memAccess
          by_cases hc : s1.gas.remaining < touchCost (memOf s1) off len
          · rw [bind_halt _ _ _ _ _ _ (resizeMem_fail s1 _ len h1 (by omega) (by omega) hc), if_pos hc]; rfl
          · rw [bind_ok _ _ _ _ _ (resizeMem_ok s1 _ len h1 (by omega) (by omega) hc), if_neg hc]
            have h2 := h1.touch off len hc
            have hcov := touch_covers (memOf s1) off len
            have hm2 : memOf (setMem (charge s1 (touchCost (memOf s1) off len))
                (touch (memOf s1) off len)) = touch (memOf s1) off len := memOf_setMem h1.mem _
            generalize setMem (charge s1 (touchCost (memOf s1) off len)) (touch (memOf s1) off len) = s2 at h2 hm2 ⊢
            rw [bind_ok _ _ _ _ _ (memSlice_eq s2 off len h2.mem (by rw [hm2]; exact hcov))]
            rfl

theorem step_return (s : IState) (hcode : s.code[s.pc]? = some 0xf3) (hwf : WFM s) :
    step s = .pure (retRule s) := by
  unfold step
  rw [hcode]
  have hdec : decode 0xf3 = .ret := rfl
  simp only [hdec, execInstr, execPure]
  show Outcome.pure (returnInner .Return (adv s)).toDone = _
  rw [returnInner_eq .Return (adv s) hwf.memOK.adv hwf.words]
  rfl

theorem step_revert (s : IState) (hcode : s.code[s.pc]? = some 0xfd) (hwf : WFM s) :
    step s = .pure (revertRule s) := by
  unfold step
  rw [hcode]
  have hdec : decode 0xfd = .revert := rfl
  simp only [hdec, execInstr, execPure]
  show Outcome.pure (revertI (adv s)).toDone = _
  unfold revertI revertRule
  by_cases hen : enabled s.spec GasCalc.SpecId.BYZANTIUM
  · have hc : check GasCalc.SpecId.BYZANTIUM (adv s) = .ok () (adv s) := by
      have : enabled (adv s).spec GasCalc.SpecId.BYZANTIUM = true := hen
      simp [check, this]
    rw [bind_ok _ _ _ _ _ hc]
    simp only [hen, Bool.not_true, Bool.false_eq_true, if_false]
    rw [returnInner_eq .Revert (adv s) hwf.memOK.adv hwf.words]
    rfl
  · have hc : check GasCalc.SpecId.BYZANTIUM (adv s) = .halt .NotActivated [] (adv s) := by
      have : ¬ enabled (adv s).spec GasCalc.SpecId.BYZANTIUM = true := hen
      simp [check, this]
    rw [bind_halt _ _ _ _ _ _ hc]
    simp [hen, Exec.toDone]

end Revm.Proofs.EvmStep2
