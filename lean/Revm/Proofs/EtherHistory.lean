import Revm.Proofs.EtherJournal
/-! Proofs for C08, part 3: the operations that do not move ether, and arbitrary histories. -/
namespace Revm.Proofs.Ether
open Revm Revm.Model.Journal Revm.Spec.JournalAbs Revm.Spec.Ether

/-! ## operations that do not move ether -/

theorem same_setAcct' {db : Db} {s : JState} {a : Addr} {acc acc' : Acct} (hs : s.state a = some acc)
    (hb : acc'.info.balance = acc.info.balance) : Same db s (setAcct s a acc') :=
  same_setAcct (hb.trans (bal_some hs).symm)

theorem loadCode_same {db : Db} {s s' : JState} {a : Addr} {c : Bool}
    (h : loadCode db s a = some (s', c)) : Same db s s' := by
  unfold loadCode at h
  simp only [bind, Option.bind_eq_some_iff] at h
  obtain ⟨⟨s1, c1⟩, h1, acc, h2, h⟩ := h
  simp only [] at h2 h
  obtain ⟨e1, _⟩ := loadAccount_same (db := db) h1
  split at h
  · cases h; exact e1.trans (same_setAcct' h2 rfl)
  · cases h; exact e1

theorem loadAccountDelegated_same {db : Db} {s s' : JState} {a : Addr} {r : Bool × Bool × Option Bool}
    (h : loadAccountDelegated db s a = some (s', r)) : Same db s s' := by
  unfold loadAccountDelegated at h
  simp only [bind, Option.bind_eq_some_iff] at h
  obtain ⟨⟨s1, c1⟩, h1, acc, h2, h⟩ := h
  simp only [] at h2 h
  have e1 := loadCode_same (db := db) h1
  split at h
  · simp only [Option.bind_eq_some_iff] at h
    obtain ⟨⟨s2, c2⟩, h3, h⟩ := h
    cases h
    exact e1.trans (loadAccount_same h3).1
  · cases h; exact e1

theorem foldl_info {g : Acct → Nat → Acct} (hg : ∀ acc k, (g acc k).info = acc.info) (keys : List Nat) (acc : Acct) :
    (keys.foldl g acc).info = acc.info := by
  induction keys generalizing acc with
  | nil => rfl
  | cons k ks ih => simp only [List.foldl_cons]; rw [ih, hg]

theorem initialAccountLoad_same {db : Db} {s : JState} {a : Addr} {keys : List Nat} :
    Same db s (initialAccountLoad db s a keys) := by
  unfold initialAccountLoad
  simp only []
  apply same_setAcct
  rw [foldl_info (by intro acc k; split <;> rfl)]
  cases hs : s.state a with
  | some acc => simp only []; exact (bal_some hs).symm
  | none =>
    simp only []
    rw [bal_none hs]
    cases db.basic a <;> rfl

theorem touch_same {db : Db} {s s' : JState} {a : Addr} (h : touch s a = some s') : Same db s s' := by
  unfold touch at h
  split at h
  · rename_i acc hs
    cases ht : touchAccount s a acc with
    | none => simp [ht] at h
    | some p =>
      obtain ⟨s1, acc1⟩ := p
      simp [ht] at h
      subst h
      exact (touchAccount_same (db := db) hs ht).1
  · cases h; exact Same.refl _ _

theorem incNonce_same {db : Db} {s s' : JState} {a : Addr} {r : Option Nat}
    (h : incNonce s a = some (s', r)) : Same db s s' := by
  unfold incNonce at h
  simp only [bind, Option.bind_eq_some_iff] at h
  obtain ⟨acc, h1, h⟩ := h
  split at h
  · cases h; exact Same.refl _ _
  · simp only [Option.bind_eq_some_iff] at h
    obtain ⟨⟨s1, acc1⟩, h2, s2, h3, h⟩ := h
    simp only [] at h3 h
    cases h
    obtain ⟨e1, hs1, hi1, _, _⟩ := touchAccount_same (db := db) h1 h2
    have e2 := same_pushEntry (db := db) h3 rfl
    refine (e1.trans e2).trans (same_setAcct ?_)
    show acc1.info.balance = _
    rw [e2.1, bal_some hs1]

theorem setCode_same {db : Db} {s s' : JState} {a : Addr} {hash : Nat}
    (h : setCode s a hash = some s') : Same db s s' := by
  unfold setCode at h
  simp only [bind, Option.bind_eq_some_iff] at h
  obtain ⟨acc, h1, ⟨s1, acc1⟩, h2, s2, h3, h⟩ := h
  simp only [] at h3 h
  cases h
  obtain ⟨e1, hs1, hi1, _, _⟩ := touchAccount_same (db := db) h1 h2
  have e2 := same_pushEntry (db := db) h3 rfl
  refine (e1.trans e2).trans (same_setAcct ?_)
  show acc1.info.balance = _
  rw [e2.1, bal_some hs1]

theorem sload_same {db : Db} {s s' : JState} {a : Addr} {k : Nat} {r : Nat × Bool}
    (h : sload db s a k = some (s', r)) : Same db s s' ∧ ∃ acc, s'.state a = some acc := by
  unfold sload at h
  simp only [bind, Option.bind_eq_some_iff] at h
  obtain ⟨acc, h1, h⟩ := h
  have key : ∀ (acc' : Acct) (e : Entry) (x : Nat × Bool), acc'.info.balance = acc.info.balance → isBal e = false →
      (pushEntry (setAcct s a acc') e).map (fun y => (y, x)) = some (s', r) →
      Same db s s' ∧ ∃ acc, s'.state a = some acc := by
    intro acc' e x hb he h
    cases hp : pushEntry (setAcct s a acc') e with
    | none => simp [hp] at h
    | some s1 =>
      simp [hp] at h
      obtain ⟨rfl, _⟩ := h
      exact ⟨(same_setAcct' h1 hb).trans (same_pushEntry hp he), _, by rw [(pushEntry_state hp).1]; exact setAcct_at _ _ _⟩
  split at h
  · split at h
    · exact key (setSlot acc k _) (.storageWarmed a k) _ rfl rfl h
    · cases h; exact ⟨same_setAcct' h1 rfl, _, setAcct_at _ _ _⟩
  · exact key (setSlot acc k _) (.storageWarmed a k) _ rfl rfl h

theorem sstore_same {db : Db} {s s' : JState} {a : Addr} {k v : Nat} {r : Nat × Nat × Nat × Bool}
    (h : sstore db s a k v = some (s', r)) : Same db s s' := by
  unfold sstore at h
  simp only [bind, Option.bind_eq_some_iff] at h
  obtain ⟨⟨s1, p, c⟩, h1, acc, h2, sl, h3, h⟩ := h
  simp only [] at h2 h3 h
  obtain ⟨e1, _⟩ := sload_same (db := db) h1
  split at h
  · cases h; exact e1
  · simp only [Option.bind_eq_some_iff] at h
    obtain ⟨s2, h4, h⟩ := h
    cases h
    have e2 := same_pushEntry (db := db) h4 rfl
    refine (e1.trans e2).trans (same_setAcct ?_)
    show acc.info.balance = _
    rw [e2.1, bal_some h2]

theorem tstore_same {db : Db} {s s' : JState} {a : Addr} {k v : Nat}
    (h : tstore s a k v = some s') : Same db s s' := by
  have e0 : ∀ x, Same db s (setTransient s a k x) := fun x => ⟨bal_congr_state rfl, rfl⟩
  unfold tstore at h
  split at h
  · split at h
    · exact (e0 _).trans (same_pushEntry h rfl)
    · cases h; exact Same.refl _ _
  · simp only [] at h
    split at h
    · exact (e0 _).trans (same_pushEntry h rfl)
    · cases h; exact e0 _

theorem log_same {db : Db} {s : JState} {l : Nat} : Same db s (log s l) := ⟨bal_congr_state rfl, rfl⟩

theorem checkpoint_same {db : Db} {s : JState} : Same db s (checkpoint s).1 :=
  ⟨bal_congr_state rfl, by simp [checkpoint, JB]⟩

theorem commit_same {db : Db} {s : JState} : Same db s (commit s) := ⟨bal_congr_state rfl, rfl⟩


/-! ## sums of the single operations -/

theorem bTransfer_sum {L : List Addr} (hn : L.Nodup) (b : BState) {src dst : Addr} (v : Nat)
    (hs : src ∈ L) (hd : dst ∈ L) : sumOver L (bTransfer b src dst v).1.f = sumOver L b.f := by
  unfold bTransfer
  split
  · rfl
  · rename_i h1
    simp only []
    split
    · rfl
    · simp only []
      have e1 := sumOver_upd b.f (b.f src - v) hn hs
      have e2 := sumOver_upd (upd b.f src (b.f src - v)) (upd b.f src (b.f src - v) dst + v) hn hd
      omega

theorem bCreateOk_sum {L : List Addr} (hn : L.Nodup) (b : BState) {caller a : Addr} {v : Nat}
    (hc : caller ∈ L) (ha : a ∈ L) (hfund : caller = a ∨ v ≤ b.f caller) :
    sumOver L (bCreateOk b caller a v).f = sumOver L b.f := by
  unfold bCreateOk
  simp only []
  have e1 := sumOver_upd b.f (b.f a + v) hn ha
  have e2 := sumOver_upd (upd b.f a (b.f a + v)) (bsub (upd b.f a (b.f a + v) caller) v) hn hc
  by_cases hca : caller = a
  · subst hca
    rw [upd_same] at e2 ⊢
    rw [bsub_eq (by omega)] at e2 ⊢
    omega
  · have hle : v ≤ b.f caller := by rcases hfund with h1 | h1; exact absurd h1 hca; exact h1
    rw [upd_other _ _ hca] at e2 ⊢
    rw [bsub_eq hle] at e2 ⊢
    omega

/-! ## histories -/

theorem binv_of_same {db : Db} {L B} {s s' : JState} (h : BInv L B (absB db s)) (hs : Same db s s') :
    BInv L B (absB db s') := by rw [hs.absB]; exact h

/-- one step of any history keeps the invariant (local form of the hypotheses) -/
theorem step_inv_local {db : Db} {L : List Addr} {B : Addr → Nat} {r r' : Run} {op : Op}
    (hinv : BInv L B (absB db r.js)) (hL : ∀ a ∈ opAddrs op, a ∈ L)
    (hloc : StepOk db r op) (h : step db r op = some r') : BInv L B (absB db r'.js) := by
  cases op
  case load a =>
    simp only [step, Option.map_eq_some_iff] at h
    obtain ⟨⟨s1, c⟩, h1, rfl⟩ := h
    exact binv_of_same hinv (loadAccount_same h1).1
  case loadCode a =>
    simp only [step, Option.map_eq_some_iff] at h
    obtain ⟨⟨s1, c⟩, h1, rfl⟩ := h
    exact binv_of_same hinv (loadCode_same h1)
  case loadDelegated a =>
    simp only [step, Option.map_eq_some_iff] at h
    obtain ⟨⟨s1, c⟩, h1, rfl⟩ := h
    exact binv_of_same hinv (loadAccountDelegated_same h1)
  case initLoad a ks =>
    simp only [step] at h; cases h
    exact binv_of_same hinv initialAccountLoad_same
  case touch a =>
    simp only [step, Option.map_eq_some_iff] at h
    obtain ⟨s1, h1, rfl⟩ := h
    exact binv_of_same hinv (touch_same h1)
  case transfer src dst v =>
    simp only [step, Option.map_eq_some_iff] at h
    obtain ⟨⟨s1, res⟩, h1, rfl⟩ := h
    rw [(transfer_refines hinv.ok h1).1]
    exact bTransfer_inv hinv v (hL src (by simp [opAddrs])) (hL dst (by simp [opAddrs]))
  case incNonce a =>
    simp only [step, Option.map_eq_some_iff] at h
    obtain ⟨⟨s1, c⟩, h1, rfl⟩ := h
    exact binv_of_same hinv (incNonce_same h1)
  case setCode a hh =>
    simp only [step, Option.map_eq_some_iff] at h
    obtain ⟨s1, h1, rfl⟩ := h
    exact binv_of_same hinv (setCode_same h1)
  case sload a k =>
    simp only [step, Option.map_eq_some_iff] at h
    obtain ⟨⟨s1, c⟩, h1, rfl⟩ := h
    exact binv_of_same hinv (sload_same h1).1
  case sstore a k v =>
    simp only [step, Option.map_eq_some_iff] at h
    obtain ⟨⟨s1, c⟩, h1, rfl⟩ := h
    exact binv_of_same hinv (sstore_same h1)
  case tload a k =>
    simp only [step] at h; cases h; exact hinv
  case tstore a k v =>
    simp only [step, Option.map_eq_some_iff] at h
    obtain ⟨s1, h1, rfl⟩ := h
    exact binv_of_same hinv (tstore_same h1)
  case log l =>
    simp only [step] at h; cases h
    exact binv_of_same hinv log_same
  case selfdestruct a t =>
    simp only [step, Option.map_eq_some_iff] at h
    obtain ⟨⟨s1, res⟩, h1, rfl⟩ := h
    obtain ⟨prev, e⟩ := selfdestruct_refines (db := db) h1
    rw [e]
    have ha : a ∈ L := hL a (by simp [opAddrs])
    have ht : t ∈ L := hL t (by simp [opAddrs])
    exact bSelfdestruct_inv hinv _ _ _ ha ht hloc
  case create caller a hs v spec =>
    simp only [step] at h
    split at h
    · rename_i js cp h1
      cases h
      obtain ⟨c1, _, _⟩ := create_refines (db := db) h1
      obtain ⟨hlt, e⟩ := c1 rfl
      rw [e]
      exact bCreateOk_inv hinv (hL caller (by simp [opAddrs])) (hL a (by simp [opAddrs])) hlt (Or.inr hloc)
    · rename_i js er h1
      cases h
      obtain ⟨_, c2, _⟩ := create_refines (db := db) h1
      rw [c2 (by cases er <;> simp [createOutcome])]
      exact hinv
    · cases h
  case checkpoint =>
    simp only [step] at h; cases h
    exact binv_of_same hinv checkpoint_same
  case commit =>
    simp only [step] at h; cases h
    exact binv_of_same hinv commit_same
  case revert i =>
    simp only [step] at h
    split at h
    · rename_i cp hcp
      simp only [Option.map_eq_some_iff] at h
      obtain ⟨s1, h1, rfl⟩ := h
      rw [revert_refines h1]
      exact hinv.revert _
    · cases h

/-- a total that fits in 256 bits implies the local no-overflow condition -/
theorem stepOk_of_total {db : Db} {L : List Addr} {B : Addr → Nat} {r : Run} {op : Op} (hn : L.Nodup)
    (hB : sumOver L B < W) (hinv : BInv L B (absB db r.js)) (hL : ∀ a ∈ opAddrs op, a ∈ L)
    (hf : Funded db r op) : StepOk db r op := by
  cases op <;> try trivial
  case selfdestruct a t =>
    intro hat
    have ha : a ∈ L := hL a (by simp [opAddrs])
    have ht : t ∈ L := hL t (by simp [opAddrs])
    have h2 := two_le_sumOver (bal db r.js) hn ht ha (fun e => hat e.symm)
    have h3 := hinv.ledger hn
    simp only [absB] at h3
    omega

theorem step_inv {db : Db} {L : List Addr} {B : Addr → Nat} {r r' : Run} {op : Op} (hn : L.Nodup)
    (hB : sumOver L B < W) (hinv : BInv L B (absB db r.js)) (hL : ∀ a ∈ opAddrs op, a ∈ L)
    (hf : Funded db r op) (h : step db r op = some r') : BInv L B (absB db r'.js) :=
  step_inv_local hinv hL (stepOk_of_total hn hB hinv hL hf) h

theorem run_inv_local {db : Db} {L : List Addr} {B : Addr → Nat} {ops : List Op} {r r' : Run}
    (hinv : BInv L B (absB db r.js))
    (hL : ∀ op ∈ ops, ∀ a ∈ opAddrs op, a ∈ L) (hf : StepOkRun db r ops) (h : run db r ops = some r') :
    BInv L B (absB db r'.js) := by
  induction ops generalizing r with
  | nil => simp only [run] at h; cases h; exact hinv
  | cons op ops ih =>
    simp only [run] at h
    split at h
    · rename_i r1 h1
      exact ih (step_inv_local hinv (hL op List.mem_cons_self) hf.1 h1)
        (fun o ho => hL o (List.mem_cons_of_mem _ ho)) (hf.2 r1 h1) h
    · cases h

theorem run_inv {db : Db} {L : List Addr} {B : Addr → Nat} {ops : List Op} {r r' : Run} (hn : L.Nodup)
    (hB : sumOver L B < W) (hinv : BInv L B (absB db r.js))
    (hL : ∀ op ∈ ops, ∀ a ∈ opAddrs op, a ∈ L) (hf : FundedRun db r ops) (h : run db r ops = some r') :
    BInv L B (absB db r'.js) := by
  induction ops generalizing r with
  | nil => simp only [run] at h; cases h; exact hinv
  | cons op ops ih =>
    simp only [run] at h
    split at h
    · rename_i r1 h1
      exact ih (step_inv hn hB hinv (hL op List.mem_cons_self) hf.1 h1)
        (fun o ho => hL o (List.mem_cons_of_mem _ ho)) (hf.2 r1 h1) h
    · cases h

/-- a state whose journal holds no balance entry (a transaction start) satisfies the invariant with
its own balances as base -/
theorem binv_fresh {db : Db} {L : List Addr} {s : JState} (hok : BalOk db s) (hj : JB s = []) :
    BInv L (bal db s) (absB db s) where
  ok := hok
  ein := by simp only [absB, hj]; intro e he; cases he
  vok := by simp only [absB, hj]; intro e he; cases he
  good := by simp only [absB, hj]; trivial
  base := by simp only [absB, hj]; rfl

end Revm.Proofs.Ether
