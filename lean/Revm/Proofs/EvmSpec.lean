import Revm.Spec.Evm
import Revm.Proofs.Evm
/-! The model `Evm.transact` (journal) against the specification `Spec.Evm.transact` (snapshots): the part of C01's closed
statement that is proved. -/
namespace Revm.Proofs.Evm
open Revm Revm.Model Revm.Model.Evm Revm.Spec.Evm

theorem ObsEq_error_refl (err : Err) (x : R (Outcome × World)) (h : x = .error err) : ObsEq x x := by
  subst h
  cases err <;> exact trivial

/-- as long as validation does not accept the transaction, the subroutine discipline is never consulted: the model and
the specification give the same answer (rejected, or the same failure) -/
theorem transactWith_of_preverify_none {κ : Type} (C : CpOps κ) (fuel : Nat) (w : World) (e : Env) (spec : Nat)
    (h : preverify w e (GasCalc.canon spec) = .ok none) : transactWith C fuel w e spec = .ok (.rejected, w) := by
  unfold transactWith
  simp only [bind, Except.bind, h]
  rfl

theorem transactWith_of_preverify_error {κ : Type} (C : CpOps κ) (fuel : Nat) (w : World) (e : Env) (spec : Nat)
    (err : Err) (h : preverify w e (GasCalc.canon spec) = .error err) : transactWith C fuel w e spec = .error err := by
  unfold transactWith
  simp only [bind, Except.bind, h]

theorem refines_spec_of_not_accepted (fuel : Nat) (w : World) (e : Env) (spec : Nat)
    (h : ∀ x, preverify w e (GasCalc.canon spec) ≠ .ok (some x)) :
    ObsEq (Evm.transact fuel w e spec) (Spec.Evm.transact fuel w e spec) := by
  unfold Evm.transact Spec.Evm.transact
  cases hp : preverify w e (GasCalc.canon spec) with
  | error err =>
    rw [transactWith_of_preverify_error _ _ _ _ _ _ hp, transactWith_of_preverify_error _ _ _ _ _ _ hp]
    exact ObsEq_error_refl err _ rfl
  | ok o =>
    cases o with
    | none =>
      rw [transactWith_of_preverify_none _ _ _ _ _ hp, transactWith_of_preverify_none _ _ _ _ _ hp]
      exact trivial
    | some x => exact absurd hp (h x)

/-- for non-vacuity examples: validation did not accept -/
def notAccepted {α} : R (Option α) → Bool
  | .ok (some _) => false
  | _ => true

theorem ne_some_of_notAccepted {α} {x : R (Option α)} (h : notAccepted x = true) : ∀ y, x ≠ .ok (some y) := by
  intro y hy
  rw [hy] at h
  exact Bool.noConfusion h
end Revm.Proofs.Evm
