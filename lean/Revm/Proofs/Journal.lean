import Revm.Spec.JournalAbs
/-! Proofs for C06 (and the warm component for C34): the journal of `Model/Journal.lean` refines a
snapshot host. The observable state is decomposed into independent field maps (`AState`); every
`JournalEntry` undo acts on its own fields (`undoT`), the concrete undo refines it (`undoEntry_abs`),
and every operation's own entries undo its own effect (`Pushes`). -/
namespace Revm.Proofs.Journal
open Revm Revm.Model.Journal Revm.Spec.JournalAbs

set_option linter.unusedSimpArgs false
set_option linter.unusedVariables false

/-! ## the observable state as independent field maps -/

def upd {α : Type} (g : Addr → α) (a : Addr) (v : α) : Addr → α := fun b => if b = a then v else g b

@[simp] theorem upd_same {α : Type} (g : Addr → α) (a : Addr) (v : α) : upd g a v a = v := by simp [upd]
theorem upd_ne {α : Type} (g : Addr → α) {a b : Addr} (v : α) (h : b ≠ a) : upd g a v b = g b := by simp [upd, h]
theorem upd_self {α : Type} (g : Addr → α) (a : Addr) (v : α) (h : g a = v) : upd g a v = g := by
  funext b; unfold upd; by_cases hb : b = a
  · subst hb; simp [h]
  · simp [hb]

structure AState where
  balance : Addr → Nat
  nonce : Addr → Nat
  codeHash : Addr → Nat
  created : Addr → Bool
  selfdestructed : Addr → Bool
  touched : Addr → Bool
  notExisting : Addr → Bool
  warm : Addr → Bool
  slot : Addr → Nat → AbsSlot
  tr : Addr → Nat → Nat

theorem AState.ext' {x y : AState} (h1 : x.balance = y.balance) (h2 : x.nonce = y.nonce)
    (h3 : x.codeHash = y.codeHash) (h4 : x.created = y.created) (h5 : x.selfdestructed = y.selfdestructed)
    (h6 : x.touched = y.touched) (h7 : x.notExisting = y.notExisting) (h8 : x.warm = y.warm)
    (h9 : x.slot = y.slot) (h10 : x.tr = y.tr) : x = y := by
  cases x; cases y; simp_all

def slotsOf (db : Db) (a : Addr) (created : Bool) (st : Nat → Option Slot) : Nat → AbsSlot := fun k =>
  match st k with
  | some sl => { orig := sl.orig, present := sl.present, warm := !sl.cold }
  | none => let v := if created then 0 else db.storage a k; { orig := v, present := v, warm := false }

theorem absSlot_some (db : Db) (a : Addr) (acc : Acct) :
    absSlot db a (some acc) = slotsOf db a acc.created acc.storage := by
  funext k; unfold absSlot slotsOf; rfl

theorem absSlot_none (db : Db) (a : Addr) :
    absSlot db a none = slotsOf db a false (fun _ => none) := by
  funext k; unfold absSlot slotsOf; rfl

theorem tload_def (s : JState) : tload s = fun a k => (s.transient a k).getD 0 := rfl

/-- the Spurious-Dragon switch of a state, as the Bool the code computes in `checkpoint_revert` -/
def sdOf (s : JState) : Bool := decide (s.spec ≥ SPURIOUS_DRAGON)

/-- the touched mark of 0x03 is not observable from Spurious Dragon on (DESIGN section 8) -/
def maskT (sd : Bool) (a : Addr) (t : Bool) : Bool := if sd ∧ a = PRECOMPILE3 then false else t

/-- `absAcct` as a function of the map entry only -/
def absOf (db : Db) (sd : Bool) (pre : Bool) (a : Addr) : Option Acct → AbsAcct
  | some acc =>
    { balance := acc.info.balance, nonce := acc.info.nonce, codeHash := acc.info.codeHash,
      created := acc.created, selfdestructed := acc.selfdestructed,
      touched := maskT sd a acc.touched,
      notExisting := acc.notExisting, warm := !acc.cold,
      slot := absSlot db a (some acc) }
  | none =>
    let i := (db.basic a).getD Info.default
    { balance := i.balance, nonce := i.nonce, codeHash := i.codeHash,
      created := false, selfdestructed := false, touched := false,
      notExisting := (db.basic a).isNone, warm := pre,
      slot := absSlot db a none }

theorem absAcct_eq (db : Db) (s : JState) (a : Addr) :
    absAcct db s a = absOf db (sdOf s) (s.preloaded a) a (s.state a) := by
  unfold absAcct absOf maskT sdOf; cases s.state a <;> rfl

def absT (db : Db) (s : JState) : AState :=
  { balance := fun a => (absAcct db s a).balance
    nonce := fun a => (absAcct db s a).nonce
    codeHash := fun a => (absAcct db s a).codeHash
    created := fun a => (absAcct db s a).created
    selfdestructed := fun a => (absAcct db s a).selfdestructed
    touched := fun a => (absAcct db s a).touched
    notExisting := fun a => (absAcct db s a).notExisting
    warm := fun a => (absAcct db s a).warm
    slot := fun a => (absAcct db s a).slot
    tr := tload s }

/-- equal field maps give the `AbsEq` of the property statement -/
theorem absEq_of_absT {db : Db} {s t : JState} (h : absT db s = absT db t) (hl : s.logs = t.logs) :
    AbsEq db s t := by
  refine ⟨fun a => ?_, fun a k => ?_, hl⟩
  · have e := fun (f : AState → Addr → Nat) => congrFun (congrArg f h) a
    have eb := fun (f : AState → Addr → Bool) => congrFun (congrArg f h) a
    exact ⟨e AState.balance, e AState.nonce, e AState.codeHash, eb AState.created, eb AState.selfdestructed,
      eb AState.touched, eb AState.notExisting, eb AState.warm,
      fun k => congrFun (congrFun (congrArg AState.slot h) a) k⟩
  · exact congrFun (congrFun (congrArg AState.tr h) a) k

theorem upd_self' {α : Type} {g : Addr → α} {a : Addr} {v : α} (h : g a = v) : upd g a v = g := upd_self g a v h
theorem upd_upd_same {α : Type} (g : Addr → α) (a : Addr) (v w : α) : upd (upd g a v) a w = upd g a w := by
  funext b; unfold upd; by_cases hb : b = a <;> simp [hb]
theorem upd_ne' {α : Type} {g : Addr → α} {a b : Addr} {v : α} (h : ¬ b = a) : upd g a v b = g b := by simp [upd, h]

def putA (x : AState) (a : Addr) (c : AbsAcct) : AState :=
  { balance := upd x.balance a c.balance, nonce := upd x.nonce a c.nonce, codeHash := upd x.codeHash a c.codeHash,
    created := upd x.created a c.created, selfdestructed := upd x.selfdestructed a c.selfdestructed,
    touched := upd x.touched a c.touched, notExisting := upd x.notExisting a c.notExisting,
    warm := upd x.warm a c.warm, slot := upd x.slot a c.slot, tr := x.tr }

theorem absAcct_setAcct_same (db : Db) (s : JState) (a : Addr) (acc : Acct) :
    absAcct db (setAcct s a acc) a = absOf db (sdOf s) (s.preloaded a) a (some acc) := by
  rw [absAcct_eq]; simp [setAcct, sdOf]
theorem absAcct_setAcct_ne (db : Db) (s : JState) {a b : Addr} (acc : Acct) (h : ¬ b = a) :
    absAcct db (setAcct s a acc) b = absAcct db s b := by
  rw [absAcct_eq, absAcct_eq]; simp [setAcct, sdOf, h]
theorem absAcct_some (db : Db) (s : JState) {a : Addr} {acc : Acct} (h : s.state a = some acc) :
    absAcct db s a = absOf db (sdOf s) (s.preloaded a) a (some acc) := by
  rw [absAcct_eq, h]
theorem absAcct_none (db : Db) (s : JState) {a : Addr} (h : s.state a = none) :
    absAcct db s a = absOf db (sdOf s) (s.preloaded a) a none := by
  rw [absAcct_eq, h]

theorem absT_setAcct (db : Db) (s : JState) (a : Addr) (acc : Acct) :
    absT db (setAcct s a acc) = putA (absT db s) a (absOf db (sdOf s) (s.preloaded a) a (some acc)) := by
  apply AState.ext' <;> (try funext b) <;> (try by_cases hb : b = a) <;>
    simp [absT, putA, hb, upd, absAcct_setAcct_same, absAcct_setAcct_ne] <;> rfl

/-- `absT` reads only `state`, `spec`, `preloaded` and `transient` -/
theorem absT_congr (db : Db) {s t : JState} (h1 : t.state = s.state) (h2 : t.spec = s.spec)
    (h3 : t.preloaded = s.preloaded) (h4 : t.transient = s.transient) : absT db t = absT db s := by
  cases s; cases t; simp_all [absT, absAcct, tload_def]

section proj
variable (db : Db) (s : JState) (a : Addr)
@[simp] theorem absT_balance : (absT db s).balance a = (absAcct db s a).balance := rfl
@[simp] theorem absT_nonce : (absT db s).nonce a = (absAcct db s a).nonce := rfl
@[simp] theorem absT_codeHash : (absT db s).codeHash a = (absAcct db s a).codeHash := rfl
@[simp] theorem absT_created : (absT db s).created a = (absAcct db s a).created := rfl
@[simp] theorem absT_selfdestructed : (absT db s).selfdestructed a = (absAcct db s a).selfdestructed := rfl
@[simp] theorem absT_touched : (absT db s).touched a = (absAcct db s a).touched := rfl
@[simp] theorem absT_notExisting : (absT db s).notExisting a = (absAcct db s a).notExisting := rfl
@[simp] theorem absT_warm : (absT db s).warm a = (absAcct db s a).warm := rfl
@[simp] theorem absT_slot : (absT db s).slot a = (absAcct db s a).slot := rfl
theorem absT_tr : (absT db s).tr = tload s := rfl
end proj

@[simp] theorem sdOf_setAcct (s : JState) (a : Addr) (acc : Acct) : sdOf (setAcct s a acc) = sdOf s := rfl
@[simp] theorem preloaded_setAcct (s : JState) (a : Addr) (acc : Acct) : (setAcct s a acc).preloaded = s.preloaded := rfl
@[simp] theorem spec_setAcct (s : JState) (a : Addr) (acc : Acct) : (setAcct s a acc).spec = s.spec := rfl
@[simp] theorem journal_setAcct (s : JState) (a : Addr) (acc : Acct) : (setAcct s a acc).journal = s.journal := rfl
@[simp] theorem logs_setAcct (s : JState) (a : Addr) (acc : Acct) : (setAcct s a acc).logs = s.logs := rfl
@[simp] theorem tload_setAcct (s : JState) (a : Addr) (acc : Acct) : tload (setAcct s a acc) = tload s := rfl
theorem setAcct_state_same (s : JState) (a : Addr) (acc : Acct) : (setAcct s a acc).state a = some acc := by simp [setAcct]
theorem setAcct_state_ne (s : JState) {a b : Addr} (acc : Acct) (h : ¬ b = a) : (setAcct s a acc).state b = s.state b := by simp [setAcct, h]

/-! ## abstract undo -/

def updK (g : Nat → AbsSlot) (k : Nat) (v : AbsSlot) : Nat → AbsSlot := fun j => if j = k then v else g j

@[simp] theorem updK_same (g : Nat → AbsSlot) (k : Nat) (v : AbsSlot) : updK g k v k = v := by simp [updK]
theorem updK_self {g : Nat → AbsSlot} {k : Nat} {v : AbsSlot} (h : g k = v) : updK g k v = g := by
  funext j; unfold updK; by_cases hj : j = k
  · subst hj; simp [h]
  · simp [hj]
theorem updK_updK_same (g : Nat → AbsSlot) (k : Nat) (v w : AbsSlot) : updK (updK g k v) k w = updK g k w := by
  funext j; unfold updK; by_cases hj : j = k <;> simp [hj]

theorem slotsOf_setSlot (db : Db) (a : Addr) (c : Bool) (acc : Acct) (k : Nat) (sl : Slot) :
    slotsOf db a c (setSlot acc k sl).storage =
      updK (slotsOf db a c acc.storage) k { orig := sl.orig, present := sl.present, warm := !sl.cold } := by
  funext j; unfold slotsOf updK setSlot; by_cases hj : j = k <;> simp [hj]

theorem slotsOf_some (db : Db) (a : Addr) (c : Bool) {st : Nat → Option Slot} {k : Nat} {sl : Slot}
    (h : st k = some sl) : slotsOf db a c st k = { orig := sl.orig, present := sl.present, warm := !sl.cold } := by
  simp [slotsOf, h]

theorem slotsOf_none (db : Db) (a : Addr) (c : Bool) {st : Nat → Option Slot} {k : Nat}
    (h : st k = none) : slotsOf db a c st k =
      { orig := if c then 0 else db.storage a k, present := if c then 0 else db.storage a k, warm := false } := by
  simp [slotsOf, h]

@[simp] theorem setSlot_created (acc : Acct) (k : Nat) (sl : Slot) : (setSlot acc k sl).created = acc.created := rfl
@[simp] theorem setSlot_info (acc : Acct) (k : Nat) (sl : Slot) : (setSlot acc k sl).info = acc.info := rfl
@[simp] theorem setSlot_selfdestructed (acc : Acct) (k : Nat) (sl : Slot) : (setSlot acc k sl).selfdestructed = acc.selfdestructed := rfl
@[simp] theorem setSlot_touched (acc : Acct) (k : Nat) (sl : Slot) : (setSlot acc k sl).touched = acc.touched := rfl
@[simp] theorem setSlot_notExisting (acc : Acct) (k : Nat) (sl : Slot) : (setSlot acc k sl).notExisting = acc.notExisting := rfl
@[simp] theorem setSlot_cold (acc : Acct) (k : Nat) (sl : Slot) : (setSlot acc k sl).cold = acc.cold := rfl

theorem tload_setTransient (s : JState) (a : Addr) (k : Nat) (v : Option Nat) :
    tload (setTransient s a k v) = fun b j => if b = a ∧ j = k then v.getD 0 else tload s b j := by
  funext b j; simp only [tload, setTransient]; by_cases h : b = a ∧ j = k <;> simp [h]

/-- undo of a touch on the observable mark: cleared, except that 0x03 keeps it from Spurious Dragon on -/
def unT (sd : Bool) (a : Addr) (t : Bool) : Bool := if sd ∧ a = PRECOMPILE3 then t else false

theorem unT_maskT (sd : Bool) (a : Addr) (t : Bool) : unT sd a (maskT sd a t) = maskT sd a false := by
  unfold unT maskT; by_cases h : sd = true ∧ a = PRECOMPILE3 <;> simp [h]

def undoT (sd : Bool) (x : AState) : Entry → AState
  | .accountWarmed a => { x with warm := upd x.warm a false }
  | .accountTouched a => { x with touched := upd x.touched a (unT sd a (x.touched a)) }
  | .accountDestroyed a t was had =>
    let b1 := upd x.balance a (U256.wadd (x.balance a) had)
    { x with selfdestructed := upd x.selfdestructed a was
             balance := if a ≠ t then upd b1 t (bsub (b1 t) had) else b1 }
  | .balanceTransfer src dst bal =>
    let b1 := upd x.balance src (U256.wadd (x.balance src) bal)
    { x with balance := upd b1 dst (bsub (b1 dst) bal) }
  | .nonceChange a => { x with nonce := upd x.nonce a (decU64 (x.nonce a)) }
  | .accountCreated a => { x with created := upd x.created a false, nonce := upd x.nonce a 0 }
  | .storageWarmed a k => { x with slot := upd x.slot a (updK (x.slot a) k { (x.slot a k) with warm := false }) }
  | .storageChanged a k had => { x with slot := upd x.slot a (updK (x.slot a) k { (x.slot a k) with present := had }) }
  | .transientChange a k had => { x with tr := fun b j => if b = a ∧ j = k then had else x.tr b j }
  | .codeChange a => { x with codeHash := upd x.codeHash a KECCAK_EMPTY }

def undoTs (sd : Bool) (x : AState) : List Entry → AState
  | [] => x
  | e :: es => undoTs sd (undoT sd x e) es

theorem undoTs_append (sd : Bool) (x : AState) (es fs : List Entry) :
    undoTs sd x (es ++ fs) = undoTs sd (undoTs sd x es) fs := by
  induction es generalizing x with
  | nil => rfl
  | cons e es ih => simp [undoTs, ih]


theorem undoT_warm (sd : Bool) (x : AState) (e : Entry) (b : Addr) :
    (undoT sd x e).warm b = (x.warm b && !(e == Entry.accountWarmed b)) := by
  cases e <;> simp [undoT]
  case accountWarmed a =>
    by_cases h : b = a
    · subst h; simp
    · have : ¬ a = b := fun e => h e.symm
      simp [upd_ne' h, this]

theorem undoTs_warm (sd : Bool) (es : List Entry) (x : AState) (b : Addr) :
    (undoTs sd x es).warm b = (x.warm b && !(es.contains (Entry.accountWarmed b))) := by
  induction es generalizing x with
  | nil => simp [undoTs]
  | cons e es ih =>
    simp only [undoTs, ih, undoT_warm, List.contains_cons]
    by_cases he : e = Entry.accountWarmed b
    · subst he; simp
    · have h1 : (e == Entry.accountWarmed b) = false := by simp [he]
      have h2 : (Entry.accountWarmed b == e) = false := by simp; exact fun h => he h.symm
      simp [h1, h2]

theorem undoT_slotwarm (sd : Bool) (x : AState) (e : Entry) (b : Addr) (k : Nat) :
    ((undoT sd x e).slot b k).warm = ((x.slot b k).warm && !(e == Entry.storageWarmed b k)) := by
  cases e <;> simp [undoT]
  case storageWarmed a j =>
    by_cases h : b = a
    · subst h
      by_cases hk : k = j
      · subst hk; simp
      · have : ¬ j = k := fun e => hk e.symm
        simp [updK, hk, this]
    · have : ¬ a = b := fun e => h e.symm
      simp [upd_ne' h, this]
  case storageChanged a j had =>
    by_cases h : b = a
    · subst h
      by_cases hk : k = j
      · subst hk; simp
      · simp [updK, hk]
    · simp [upd_ne' h]

theorem undoTs_slotwarm (sd : Bool) (es : List Entry) (x : AState) (b : Addr) (k : Nat) :
    ((undoTs sd x es).slot b k).warm = ((x.slot b k).warm && !(es.contains (Entry.storageWarmed b k))) := by
  induction es generalizing x with
  | nil => simp [undoTs]
  | cons e es ih =>
    simp only [undoTs, ih, undoT_slotwarm, List.contains_cons]
    by_cases he : e = Entry.storageWarmed b k
    · subst he; simp
    · have h1 : (e == Entry.storageWarmed b k) = false := by simp [he]
      have h2 : (Entry.storageWarmed b k == e) = false := by simp; exact fun h => he h.symm
      simp [h1, h2]


end Revm.Proofs.Journal
