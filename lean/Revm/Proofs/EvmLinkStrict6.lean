import Revm.Proofs.EvmLinkStrict5
import Revm.Proofs.EvmLinkKeep6
/-! LINK, frame accounting and static mode, part 6: EXTCALL / EXTDELEGATECALL / EXTSTATICCALL and `Interp.step`:
**one step of any frame keeps `is_static` and the gas limit, only spends gas, and an action has paid for the gas it
hands to the child.** -/
set_option linter.unusedSimpArgs false
set_option linter.unusedVariables false
namespace Revm.Proofs.EvmLink
open Revm Revm.Model Revm.Model.Interp

/-- the stack push of the light failure keeps the gas meter -/
theorem sk_modifyS_gas {fl : Bool} {s0 s : IState} (h : KeptB fl s0 s) (f : IState → IState) (hst : (f s).isStatic = s.isStatic)
    (hg : (f s).gas = s.gas) : SKeep fl s0 (fun _ s' => s'.gas = s.gas) (modifyS f s) :=
  .ok (h.trans (kept_of_eq hst hg)) hg

attribute [local irreducible] gasCharge getS check requireNonStatic requireEof requireInitEof requireSome assumeNotEof
  gasOrFail refund advancePc setEof popN popTop setTop push stackCall stackCallAdv asUsizeOrFail resizeMem memSlice
  memSliceRange memGetU256 memSetU256 memSetByte memSetData memCopy codeSlice codeByte jumpRel getEof loadEofCode
  haltWith haltOut faultWith modifyS liftMemWrite pop1 pop2 pop3 pop4 popAddress popTop1 popTop2 popTop3 readU16 readI16
  resizeMemRange getMemoryInputAndOutRanges popExtcallTarget extcallInput

section
variable {fl : Bool} {s0 s : IState}

macro_rules | `(tactic| sk_prim) => `(tactic| first
  | exact sk_resizeMemRange ‹_› _ _
  | exact sk_getMemoryInputAndOutRanges ‹_› | exact sk_popExtcallTarget ‹_› | exact sk_extcallInput ‹_›)

theorem sk_rebase {fl : Bool} {s0 s : IState} {α} {Q : α → IState → Prop} {e : Exec α} (h : Kept s0 s)
    (hk : SKeep fl s Q e) : SKeep fl s0 Q e := by
  cases hk with
  | ok h' hq => exact .ok (KeptB.rebase h h') hq
  | halt h' hr => exact .halt (KeptB.rebase h h') hr
  | fault => exact .fault

/-- `extcall_gas_calc`: the access cost (at least 1) has been paid, and a granted gas limit too -/
theorem sk_extcallGasCalc (h : KeptB fl s0 s) (r : HostResp) (hrok : r.ok = true) (tv : Bool) :
    SKeep true s0 (fun g s' => s'.gas.remaining + 1 ≤ s.gas.remaining ∧
      ∀ gl, g = some gl → s'.gas.remaining + gl + 1 ≤ s.gas.remaining) (extcallGasCalc r tv s) := by
  refine sk_rebase h.toKept ?_
  have h := KeptB.refl s
  unfold extcallGasCalc
  refine sk_bind (sk_requireSome h r hrok) (fun _ s1 h1 _ => ?_)
  refine sk_bind (sk_gasCharge1 h1 _ (callCost_pos _ _ _ _ _)) (fun _ s2 h2 hq2 => ?_)
  refine sk_bind (sk_getS h2) (fun x s3 h3 hx => ?_)
  obtain ⟨rfl, rfl⟩ := hx
  (try dsimp only)
  have hle : s3.gas.remaining + 1 ≤ s.gas.remaining := h3.strict rfl
  by_cases hc : U64ops.saturatingSub s3.gas.remaining (max (s3.gas.remaining / 64) 5000) < GasCalc.MIN_CALLEE_GAS
  · rw [if_pos hc]
    refine sk_bind (Q := fun _ s' => s'.gas = s3.gas) (sk_modifyS_gas h3 _ rfl rfl) (fun _ s4 h4 hg4 => ?_)
    exact sk_pure h4 ⟨by rw [hg4]; exact hle, fun gl hg => nomatch hg⟩
  · rw [if_neg hc]
    refine sk_bind (sk_gasCharge h3 _) (fun _ s4 h4 hq4 => ?_)
    refine sk_pure h4 ⟨by have := h4.strict rfl; exact this, fun gl hg => ?_⟩
    cases hg
    omega

theorem s_ext_post (h : KeptB fl s0 s) (r : HostResp) (hrok : r.ok = true) (tv : Bool) (mk : Nat → IState → CallInputs)
    (hmk : ∀ g x, (mk g x).gasLimit = g) :
    SKeep true s0 (SPaidOpt s0) ((do
      let g ← extcallGasCalc r tv
      match g with
      | none => pure none
      | some gasLimit => do
        let s ← getS
        pure (some (Action.call (mk gasLimit s))) : M (Option Action)) s) := by
  refine sk_bind (sk_extcallGasCalc h r hrok tv) (fun g s1 h1 hq => ?_)
  cases g with
  | none => exact sk_pure h1 (fun x hx => nomatch hx)
  | some gl =>
    (try dsimp only)
    refine sk_bind (sk_getS h1) (fun y s2 h2 hy => ?_)
    obtain ⟨rfl, rfl⟩ := hy
    refine sk_pure h2 (fun x hx => ?_)
    cases hx
    show s2.gas.remaining + (mk gl s2).gasLimit + 1 ≤ s0.gas.remaining
    rw [hmk]
    have := hq.2 gl rfl
    have := h.rem
    omega

theorem extcallI_strict (s : IState) : SOutcome s (extcallI s) := by
  unfold extcallI
  have h := KeptB.refl s
  refine hostCallOptAction_strict (fl := false) ?_ (fun b r s' hrok h => ?_)
  · sk_auto
  · obtain ⟨target, input, value⟩ := b
    exact s_ext_post h r hrok _ (fun gl x =>
      { input := input, retStart := 0, retEnd := 0, gasLimit := gl, bytecodeAddress := target,
        targetAddress := target, caller := x.target, valueTransfer := true, value := value,
        scheme := .extCall, isStatic := x.isStatic, isEof := true }) (fun _ _ => rfl)

theorem extdelegatecallI_strict (s : IState) : SOutcome s (extdelegatecallI s) := by
  unfold extdelegatecallI
  have h := KeptB.refl s
  refine hostCallOptAction_strict (fl := false) ?_ (fun b r s' hrok h => ?_)
  · sk_auto
  · obtain ⟨target, input⟩ := b
    exact s_ext_post h r hrok _ (fun gl x =>
      { input := input, retStart := 0, retEnd := 0, gasLimit := gl, bytecodeAddress := target,
        targetAddress := x.target, caller := x.caller, valueTransfer := false, value := x.callValue,
        scheme := .extDelegateCall, isStatic := x.isStatic, isEof := true }) (fun _ _ => rfl)

theorem extstaticcallI_strict (s : IState) : SOutcome s (extstaticcallI s) := by
  unfold extstaticcallI
  have h := KeptB.refl s
  refine hostCallOptAction_strict (fl := false) ?_ (fun b r s' hrok h => ?_)
  · sk_auto
  · obtain ⟨target, input⟩ := b
    exact s_ext_post h r hrok _ (fun gl x =>
      { input := input, retStart := 0, retEnd := 0, gasLimit := gl, bytecodeAddress := target,
        targetAddress := target, caller := x.target, valueTransfer := true, value := 0,
        scheme := .extStaticCall, isStatic := true, isEof := true }) (fun _ _ => rfl)

/-- a weaker base: everything after `s1` is after `s0` when `s1` has the gas of `s0` -/
theorem SDone.rebase {s0 s1 : IState} (h : Kept s0 s1) (hg : s1.gas.remaining = s0.gas.remaining) {d : Done}
    (hd : SDone s1 d) : SDone s0 d := by
  cases hd with
  | next h' hg' => exact .next (h.trans h') (by omega)
  | halt h' hr => exact .halt (h.trans h') hr
  | fault => exact .fault
  | action h' hg' => exact .action (h.trans h') (by omega)

theorem execInstr_strict (i : Instr) (s : IState) : SOutcome s (execInstr i s) := by
  unfold execInstr
  cases hp : execPure i with
  | some m => exact .pure (toDone_strict (sk_execPure i m hp (KeptB.refl s)))
  | none =>
    simp only
    cases i <;> first
      | exact keccak256I_strict s | exact balanceI_strict s | exact selfbalanceI_strict s | exact extcodesizeI_strict s
      | exact extcodehashI_strict s | exact extcodecopyI_strict s | exact blockhashI_strict s | exact sloadI_strict s
      | exact sstoreI_strict s | exact tloadI_strict s | exact tstoreI_strict s | exact logI_strict _ s
      | exact selfdestructI_strict s | exact createI_strict _ s | exact callI_strict s | exact callcodeI_strict s
      | exact delegatecallI_strict s | exact staticcallI_strict s | exact eofcreateI_strict s | exact extcallI_strict s
      | exact extdelegatecallI_strict s | exact extstaticcallI_strict s
      | exact .pure .fault

/-- **one interpreter step of any frame, in any state, strictly**: an instruction after which the frame continues
leaves at least one unit of gas less; an action (call, create — directly or after the host's answer) has paid for the
gas limit it hands to the child and one more: `remaining' + child_gas_limit + 1 ≤ remaining` -/
theorem step_strict (s : IState) : SOutcome s (step s) := by
  unfold step
  cases s.code[s.pc]? with
  | none => exact .pure .fault
  | some op =>
    (try dsimp only)
    have hk : Kept s { s with pc := s.pc + 1 } := ⟨rfl, rfl, Nat.le_refl _⟩
    have := execInstr_strict (decode op) { s with pc := s.pc + 1 }
    generalize execInstr (decode op) { s with pc := s.pc + 1 } = o at this
    cases this with
    | pure hd => exact .pure (hd.rebase hk rfl)
    | host hk' => exact .host (fun r hr => (hk' r hr).rebase hk rfl)

end
end Revm.Proofs.EvmLink
