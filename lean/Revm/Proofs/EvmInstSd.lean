import Revm.Proofs.EvmInstHooks
import Revm.Proofs.EvmStep2State
import Revm.Proofs.EvmHost
/-! C30 instance, part 1: the concrete SELFDESTRUCT instruction (`Interp.selfdestructI` resolved by `EvmHost.answer`)
against the abstract model `Model.SelfdestructNotify`.

* `Resolved he s w d w'`: one instruction of frame state `s` in world `w`, host question answered by `answer he`, ends
  as `d` in world `w'` (this is what one iteration of `Evm.iterate` computes before `afterStep`).
* `step_sd`: closed form of `Interp.step` at opcode `0xFF`.
* `sd_step_completed`: a SELFDESTRUCT that ends as `.halt .SelfDestruct` ran `Journal.selfdestruct` on the executing
  contract and the popped beneficiary, and the wrapper's note (`sdNote`, i.e. `newEntryNote (lastLen js) js'` with the
  `(contract, contract, 0)` default) is `(contract, beneficiary, movedValue acc …)`.
* `sd_consistent`: hence the wrapper's note equals the ground truth `sdTruth` at every resolved instruction.
* `sd_refines`: the concrete instruction refines `SelfdestructNotify.selfdestructInsn` under the abstraction `absI`,
  with the hypotheses listed there (these are the points where the two models do not line up by construction). -/
namespace Revm.Proofs.EvmInstSd
open Revm Revm.Model Revm.Model.Evm Revm.Model.Interp
open Revm.Model.GasCalc (enabled)
open Revm.Spec.EvmRules (adv charge)
open Revm.Proofs.EvmStep Revm.Proofs.EvmStep2
open Revm.Proofs.EvmInstHooks
open Revm.Model.SelfdestructNotify (newEntryNote lastLen entryNote balanceOf)
open Revm.Proofs.SelfdestructNotify

set_option linter.unusedSimpArgs false
set_option linter.unusedVariables false

/-- one instruction of `s`, its host question (if any) answered in world `w`: result `d`, world `w'` -/
inductive Resolved (he : HostEnv) (s : IState) (w : World) : Done → World → Prop
  | pure (d : Done) : step s = .pure d → Resolved he s w d w
  | host (op : HostOp) (k : HostResp → Done) (resp : HostResp) (w' : World) :
      step s = .host op k → answer he w op = .ok (resp, w') → Resolved he s w (k resp) w'

/-- the part of `host::selfdestruct` after the host's answer -/
def sdPost (r : HostResp) : M Unit := do
  requireSome r
  let s ← getS
  if !enabled s.spec GasCalc.SpecId.LONDON && !r.previouslyDestroyed then refund GasCalc.SELFDESTRUCT
  else pure ()
  gasCharge (GasCalc.selfdestructCost s.spec r.hadValue r.targetExists r.isCold)
  haltWith .SelfDestruct

theorem list_snoc_cases (l : List Nat) : l = [] ∨ ∃ rest t0, l = rest ++ [t0] := by
  rcases List.eq_nil_or_concat l with h | ⟨rest, t0, h⟩
  · exact Or.inl h
  · exact Or.inr ⟨rest, t0, by simpa using h⟩

/-- `Interp.step` at SELFDESTRUCT: static guard, `pop_address!`, the host question, then `sdPost` -/
theorem step_sd (s : IState) (hcode : s.code[s.pc]? = some 0xff) :
    (s.isStatic = true ∧ step s = .halt .StateChangeDuringStaticCall [] (adv s)) ∨
    (s.isStatic = false ∧ s.stack = [] ∧ step s = .halt .StackUnderflow [] (adv s)) ∨
    (s.isStatic = false ∧ ∃ rest t0, s.stack = rest ++ [t0] ∧
      step s = .host (.selfdestruct s.target (addrOfWord t0))
        (fun r => (sdPost r { adv s with stack := rest }).toDone)) := by
  have hstep : step s = selfdestructI (adv s) := by
    unfold step
    rw [hcode]
    have hdec : decode 0xff = .selfdestruct := rfl
    simp only [hdec, execInstr, execPure]
    rfl
  rw [hstep]
  unfold selfdestructI
  by_cases hstc : s.isStatic = true
  · left
    exact ⟨hstc, hostCall_halt _ _ _ _ _ _ _ (requireNonStatic_fail (adv s) hstc)⟩
  · have hstf : s.isStatic = false := by simpa using hstc
    right
    rw [hostCall_ok _ _ _ _ _ _ (requireNonStatic_ok (adv s) hstf)]
    rcases list_snoc_cases s.stack with hnil | ⟨rest, t0, hst⟩
    · left
      have : (adv s).stack.length < 1 := by show s.stack.length < 1; rw [hnil]; decide
      exact ⟨hstf, hnil, hostCall_halt _ _ _ _ _ _ _ (popAddress_underflow (adv s) this)⟩
    · right
      refine ⟨hstf, rest, t0, hst, ?_⟩
      have hs : (adv s).stack = rest ++ [t0] := hst
      rw [hostCall_ok _ _ _ _ _ _ (popAddress_ok (adv s) _ t0 hs), hostCall_ok _ _ _ _ _ _ (getS_ok _), hostCall_pure]
      rfl

/-- `Context::selfdestruct` answers from `JournaledState::selfdestruct` -/
theorem answer_sd {he : HostEnv} {w w' : World} {a t : Nat} {resp : HostResp}
    (h : answer he w (.selfdestruct a t) = .ok (resp, w')) :
    ∃ hv te pd c, Journal.selfdestruct w.db w.js a t = some (w'.js, hv, te, pd, c) ∧
      resp = { hadValue := hv, targetExists := te, previouslyDestroyed := pd, isCold := c } := by
  simp only [answer, bind, Except.bind] at h
  cases hj : ofOpt "selfdestruct" (Journal.selfdestruct w.db w.js a t) with
  | error e => rw [hj] at h; simp at h
  | ok p =>
    rw [hj] at h
    obtain ⟨js, hv, te, pd, c⟩ := p
    simp only [pure, Except.pure, Except.ok.injEq, Prod.mk.injEq] at h
    obtain ⟨rfl, rfl⟩ := h
    refine ⟨hv, te, pd, c, ?_, rfl⟩
    rw [Revm.Proofs.EvmHost.noteAddr_js]
    exact Revm.Proofs.EvmHost.ofOpt_ok hj

/-- `selfdestruct_char` without assuming that the contract is in the journal beforehand: the account the entries
speak about is the contract's account once the beneficiary has been loaded -/
theorem selfdestruct_char_gen {db : Journal.Db} {s s' : Journal.JState} {a t : Nat} {r : Bool × Bool × Bool × Bool}
    (h : Journal.selfdestruct db s a t = some (s', r)) :
    ∃ s1 c acc1, Journal.loadAccount db s t = some (s1, c) ∧ s1.state a = some acc1 ∧
      ∃ es, JExt s.journal s'.journal es ∧ es.findSome? entryNote = expectedNote acc1 s.spec a t ∧
        balanceOf s' a = keptBalance acc1 s.spec a t := by
  rw [selfdestruct_eq] at h
  simp only [bind, Option.bind_eq_some_iff] at h
  obtain ⟨⟨s1, c⟩, hload, tacc, _, s2, h2, acc2, hacc2, s3, h3, heq⟩ := h
  simp at heq
  obtain ⟨rfl, _⟩ := heq
  obtain ⟨e1, hx1, hn1, hsp1, _⟩ := loadAccount_spec hload
  obtain ⟨e2, hx2, hn2, hsp2, hst2⟩ := stage2_spec h2
  simp only [] at hst2 hacc2
  have hacc1 : s1.state a = some acc2 := by rw [← hst2]; exact hacc2
  obtain ⟨e3, hx3, hf3, hb3⟩ := stage3_spec h3 hacc2
  have hspec : s2.spec = s.spec := by rw [hsp2]; exact hsp1
  refine ⟨s1, c, acc2, hload, hacc1, e3 ++ (e2 ++ e1), (hx1.trans hx2).trans hx3, ?_, ?_⟩
  · rw [findSome_append_none]
    · rw [hf3, hspec]
    · intro e he
      simp only [List.mem_append] at he
      rcases he with he | he
      · exact hn2 e he
      · exact hn1 e he
  · rw [hb3, hspec]

theorem movedValue_same {acc acc1 : Journal.Acct} (h : Same acc acc1) (spec a t : Nat) :
    movedValue acc1 spec a t = movedValue acc spec a t := by
  obtain ⟨hi, hc, _⟩ := h
  simp [movedValue, hi, hc]

/-- for a contract that is in the journal, `contractAcct` is that account up to the cold flag of a self-target -/
theorem contractAcct_loaded {w : World} {a t : Nat} {acc acc1 : Journal.Acct} (ha : w.js.state a = some acc)
    (h : contractAcct w a t = some acc1) : Same acc acc1 := by
  unfold contractAcct at h
  cases hl : Journal.loadAccount w.db w.js t with
  | none => rw [hl] at h; cases h
  | some p =>
    obtain ⟨s1, c⟩ := p
    rw [hl] at h
    simp only at h
    obtain ⟨_, _, _, _, hst⟩ := loadAccount_spec hl
    obtain ⟨acc', h', hs⟩ := hst a acc ha
    rw [h'] at h
    injection h with h
    subst h
    exact hs

/-- STEP LEMMA (C30 instance): a SELFDESTRUCT of the top frame that ends as `.halt .SelfDestruct` -/
theorem sd_step_completed {he : HostEnv} {s : IState} {w w' : World} {d : Done} {out : List Nat} {s' : IState}
    (hcode : s.code[s.pc]? = some 0xff) (hr : Resolved he s w d w') (hd : d = .halt .SelfDestruct out s') :
    s.isStatic = false ∧ ∃ rest t0 r acc1, s.stack = rest ++ [t0] ∧
      Journal.selfdestruct w.db w.js s.target (addrOfWord t0) = some (w'.js, r) ∧
      contractAcct w s.target (addrOfWord t0) = some acc1 ∧
      sdNote s w.js w'.js d =
        some (s.target, addrOfWord t0, movedValue acc1 w.js.spec s.target (addrOfWord t0)) := by
  rcases step_sd s hcode with ⟨_, hstep⟩ | ⟨_, _, hstep⟩ | ⟨hstf, rest, t0, hst, hstep⟩
  · cases hr with
    | pure d hs => rw [hstep] at hs; injection hs with hs; subst hs; cases hd
    | host op k resp w' hs _ => rw [hstep] at hs; cases hs
  · cases hr with
    | pure d hs => rw [hstep] at hs; injection hs with hs; subst hs; cases hd
    | host op k resp w' hs _ => rw [hstep] at hs; cases hs
  · cases hr with
    | pure d hs => rw [hstep] at hs; cases hs
    | host op k resp w' hs ha =>
      rw [hstep] at hs
      injection hs with hop hk
      subst hop
      obtain ⟨hv, te, pd, c, hj, _⟩ := answer_sd ha
      obtain ⟨s1, c1, acc1, hload, hacc1, es, hext, hfind, _⟩ := selfdestruct_char_gen hj
      refine ⟨hstf, rest, t0, _, acc1, hst, hj, ?_, ?_⟩
      · simp only [contractAcct, hload, hacc1]
      · rw [hd]
        simp only [sdNote, if_true]
        rw [newEntryNote_of_ext hext, hfind, expectedNote_getD]

/-- the same with the contract's account as it is in the journal before the instruction (revm loads the executing
contract before any of its code runs) -/
theorem sd_step_completed_loaded {he : HostEnv} {s : IState} {w w' : World} {d : Done} {out : List Nat}
    {s' : IState} {acc : Journal.Acct} (hcode : s.code[s.pc]? = some 0xff) (hr : Resolved he s w d w')
    (hd : d = .halt .SelfDestruct out s') (hloaded : w.js.state s.target = some acc) :
    ∃ rest t0, s.stack = rest ++ [t0] ∧
      sdNote s w.js w'.js d = some (s.target, addrOfWord t0, movedValue acc w.js.spec s.target (addrOfWord t0)) ∧
      balanceOf w.js s.target =
        balanceOf w'.js s.target + movedValue acc w.js.spec s.target (addrOfWord t0) := by
  obtain ⟨_, rest, t0, r, acc1, hst, hj, hca, hn⟩ := sd_step_completed hcode hr hd
  have hsame := contractAcct_loaded hloaded hca
  refine ⟨rest, t0, hst, ?_, ?_⟩
  · rw [hn, movedValue_same hsame]
  · obtain ⟨es, _, _, hbal⟩ := selfdestruct_char hj hloaded
    rw [hbal]
    have := moved_add_kept acc w.js.spec s.target (addrOfWord t0)
    simp only [balanceOf, hloaded]
    omega

/-- NO SPURIOUS NOTE: an instruction that does not end as `.halt .SelfDestruct` gets no note -/
theorem sd_no_spurious (s : IState) (js js' : Journal.JState) (d : Done)
    (h : ∀ out s', d ≠ .halt .SelfDestruct out s') : sdNote s js js' d = none := by
  cases d with
  | halt r out s' =>
    by_cases hr : r = .SelfDestruct
    · subst hr; exact absurd rfl (h out s')
    · simp [sdNote, hr]
  | next _ => rfl
  | action _ _ => rfl
  | fault _ => rfl

/-- at every resolved SELFDESTRUCT the wrapper's note IS the ground truth computed from the pre-state -/
theorem sd_consistent {he : HostEnv} {s : IState} {w w' : World} {d : Done}
    (hcode : s.code[s.pc]? = some 0xff) (hr : Resolved he s w d w') : sdNote s w.js w'.js d = sdTruth s w d := by
  cases hdd : d with
  | halt r out s' =>
    by_cases hrs : r = .SelfDestruct
    · subst hrs
      obtain ⟨_, rest, t0, _, acc1, hst, _, hca, hn⟩ := sd_step_completed hcode hr hdd
      rw [← hdd, hn, hdd]
      simp [sdTruth, hst, hca]
    · simp [sdNote, sdTruth, hrs]
  | next _ => rfl
  | action _ _ => rfl
  | fault _ => rfl

/-! ### refinement of the instruction to `SelfdestructNotify.selfdestructInsn` -/

/-- the state after the EIP-3529 era refund, which `SelfdestructNotify` does not model -/
def refunded (resp : HostResp) (s1 : IState) : IState :=
  if !enabled s1.spec GasCalc.SpecId.LONDON && !resp.previouslyDestroyed then
    { s1 with gas := Gas.recordRefund s1.gas GasCalc.SELFDESTRUCT }
  else s1

theorem refunded_same (resp : HostResp) (s1 : IState) :
    (refunded resp s1).stack = s1.stack ∧ (refunded resp s1).gas.remaining = s1.gas.remaining ∧
    (refunded resp s1).isStatic = s1.isStatic ∧ (refunded resp s1).target = s1.target ∧
    (refunded resp s1).spec = s1.spec := by
  unfold refunded; split <;> exact ⟨rfl, rfl, rfl, rfl, rfl⟩

/-- closed form of the part after the host's answer (infallible host: `ok = true`) -/
theorem sdPost_done (resp : HostResp) (s1 : IState) (hok : resp.ok = true) (hg : s1.gas.remaining < U64) :
    (sdPost resp s1).toDone =
      if s1.gas.remaining < GasCalc.selfdestructCost s1.spec resp.hadValue resp.targetExists resp.isCold then
        .halt .OutOfGas [] (refunded resp s1)
      else .halt .SelfDestruct []
        (charge (refunded resp s1) (GasCalc.selfdestructCost s1.spec resp.hadValue resp.targetExists resp.isCold)) := by
  unfold sdPost
  rw [bind_ok _ _ _ _ _ (requireSome_ok resp s1 hok), bind_ok _ _ _ _ _ (getS_ok _)]
  generalize hc : GasCalc.selfdestructCost s1.spec resp.hadValue resp.targetExists resp.isCold = cost
  have key : ∀ s2 : IState, s2.gas.remaining = s1.gas.remaining →
      ((gasCharge cost >>= fun _ => (haltWith .SelfDestruct : M Unit)) s2).toDone =
        if s1.gas.remaining < cost then .halt .OutOfGas [] s2 else .halt .SelfDestruct [] (charge s2 cost) := by
    intro s2 h2
    by_cases hlt : s1.gas.remaining < cost
    · rw [bind_halt _ _ _ _ _ _ (gasCharge_fail s2 cost (by rw [h2]; exact hlt)), if_pos hlt]; rfl
    · rw [bind_ok _ _ _ _ _ (gasCharge_ok s2 cost (by rw [h2]; exact hg) (by rw [h2]; omega)), if_neg hlt]; rfl
  by_cases hr : (!enabled s1.spec GasCalc.SpecId.LONDON && !resp.previouslyDestroyed) = true
  · have hrf : refunded resp s1 = { s1 with gas := Gas.recordRefund s1.gas GasCalc.SELFDESTRUCT } := by
      unfold refunded; rw [if_pos hr]
    simp only [hr, if_true]
    have h24 : refund GasCalc.SELFDESTRUCT s1 = .ok () { s1 with gas := Gas.recordRefund s1.gas GasCalc.SELFDESTRUCT } :=
      rfl
    rw [bind_ok _ _ _ _ _ h24, hrf]
    exact key _ rfl
  · have hrf : refunded resp s1 = s1 := by unfold refunded; rw [if_neg hr]
    simp only [hr, if_false, Bool.false_eq_true]
    rw [hrf]
    exact key s1 rfl

/-- the two cost tables agree (`SelfdestructNotify.selfdestructCost` is a transcription of
`gas::selfdestruct_cost` of its own; same constants, same fork tests) -/
theorem selfdestructCost_agree (spec : Nat) (hv te c : Bool) :
    SelfdestructNotify.selfdestructCost spec hv te c = GasCalc.selfdestructCost spec hv te c := by
  unfold SelfdestructNotify.selfdestructCost GasCalc.selfdestructCost enabled
  simp only [SelfdestructNotify.TANGERINE, SelfdestructNotify.BERLIN, SelfdestructNotify.COLD_ACCOUNT_ACCESS_COST,
    Journal.SPURIOUS_DRAGON, GasCalc.SpecId.TANGERINE, GasCalc.SpecId.BERLIN, GasCalc.SpecId.SPURIOUS_DRAGON,
    GasCalc.COLD_ACCOUNT_ACCESS_COST]
  by_cases h1 : spec ≥ 5 <;> by_cases h2 : spec ≥ 4 <;> by_cases h3 : spec ≥ 11 <;>
    cases hv <;> cases te <;> cases c <;> simp [h1, h2, h3]

/-- `InstructionResult` → the results `SelfdestructNotify` distinguishes -/
def iresOf : IResult → SelfdestructNotify.IRes
  | .Continue => .continue_
  | .SelfDestruct => .selfDestruct
  | .StateChangeDuringStaticCall => .stateChangeDuringStaticCall
  | .StackUnderflow => .stackUnderflow
  | .OutOfGas => .outOfGas
  | .FatalExternalError => .fatalExternalError
  | _ => .other 0

/-- the abstraction: `SelfdestructNotify.Interp` keeps the stack top-first, only `gas.remaining`, and the target -/
def absI (s : IState) (r : SelfdestructNotify.IRes := .continue_) : SelfdestructNotify.Interp :=
  { isStatic := s.isStatic, stack := s.stack.reverse, gas := s.gas.remaining, contract := s.target, result := r }

/-- the abstract result of a completed / out-of-gas SELFDESTRUCT -/
def absAfter (s : IState) (rest : List Nat) (gas : Nat) (r : SelfdestructNotify.IRes) : SelfdestructNotify.Interp :=
  { isStatic := s.isStatic, stack := rest.reverse, gas := gas, contract := s.target, result := r }

theorem sd_refines_host {s s1 : IState} {w : World} {js' : Journal.JState} {rest : List Nat} {t0 : Nat}
    {resp : HostResp} {hv te pd c : Bool}
    (hstf : s.isStatic = false) (hst : s.stack = rest ++ [t0])
    (h1s : s1.stack = rest) (h1g : s1.gas = s.gas) (h1i : s1.isStatic = s.isStatic) (h1t : s1.target = s.target)
    (h1p : s1.spec = s.spec) (hspec : s.spec = w.js.spec) (hgas : s.gas.remaining < U64)
    (hj : Journal.selfdestruct w.db w.js s.target (addrOfWord t0) = some (js', hv, te, pd, c))
    (hresp : resp = { hadValue := hv, targetExists := te, previouslyDestroyed := pd, isCold := c }) :
    ∃ r out s', (sdPost resp s1).toDone = .halt r out s' ∧
      SelfdestructNotify.selfdestructInsn w.db false (absI s) w.js = some (absI s' (iresOf r), js') := by
  have hok : resp.ok = true := by rw [hresp]
  have hpost := sdPost_done resp s1 hok (by rw [h1g]; exact hgas)
  obtain ⟨hstk, hrem, hist, htg, _⟩ := refunded_same resp s1
  have htarget : t0 % SelfdestructNotify.ADDR = addrOfWord t0 := rfl
  have hcost : SelfdestructNotify.selfdestructCost w.js.spec hv te c =
      GasCalc.selfdestructCost s1.spec resp.hadValue resp.targetExists resp.isCold := by
    rw [selfdestructCost_agree, h1p, hspec, hresp]
  generalize GasCalc.selfdestructCost s1.spec resp.hadValue resp.targetExists resp.isCold = cost at hpost hcost
  have habs : SelfdestructNotify.selfdestructInsn w.db false (absI s) w.js =
      (if s.gas.remaining < cost then some (absAfter s rest s.gas.remaining .outOfGas, js')
       else some (absAfter s rest (s.gas.remaining - cost) .selfDestruct, js')) := by
    simp only [SelfdestructNotify.selfdestructInsn, absI, absAfter, hstf, hst, List.reverse_append, List.reverse_cons,
      List.reverse_nil, List.nil_append, List.cons_append, htarget, hj, hcost, Bool.false_eq_true, false_and,
      if_false]
  rw [hpost, habs, h1g]
  by_cases hlt : s.gas.remaining < cost
  · rw [if_pos hlt, if_pos hlt]
    refine ⟨_, _, _, rfl, ?_⟩
    simp only [absI, absAfter, iresOf, hstk, hrem, hist, htg, h1s, h1g, h1i, h1t]
  · rw [if_neg hlt, if_neg hlt]
    refine ⟨_, _, _, rfl, ?_⟩
    have e1 : (charge (refunded resp s1) cost).stack = (refunded resp s1).stack := rfl
    have e2 : (charge (refunded resp s1) cost).gas.remaining = (refunded resp s1).gas.remaining - cost := rfl
    have e3 : (charge (refunded resp s1) cost).isStatic = (refunded resp s1).isStatic := rfl
    have e4 : (charge (refunded resp s1) cost).target = (refunded resp s1).target := rfl
    simp only [absI, absAfter, iresOf, e1, e2, e3, e4, hstk, hrem, hist, htg, h1s, h1g, h1i, h1t]

/-- REFINEMENT: every resolved concrete SELFDESTRUCT is a run of the abstract instruction on the abstracted state,
over the same database and journal, with the same journal afterwards — provided
(1) the interpreter's spec is the journal's spec (`SelfdestructNotify` prices with the JOURNAL's spec, the
    interpreter with its own `SPEC_ID`; equal in every `transact` run, both are `canon spec`),
(2) `gas.remaining` is a `u64` (the abstract model subtracts in `Nat`, the concrete one wraps).
Not related: the refund counter (`refunded`), which `SelfdestructNotify` does not have; a failing `Database`
(`dbFails = true`), which the concrete host does not have. When `Journal.selfdestruct` is `none` (abstract `none` =
a Rust panic) the concrete `answer` fails with `Err.panic`, so there is no resolved instruction. -/
theorem sd_refines {he : HostEnv} {s : IState} {w w' : World} {d : Done}
    (hcode : s.code[s.pc]? = some 0xff) (hr : Resolved he s w d w')
    (hspec : s.spec = w.js.spec) (hgas : s.gas.remaining < U64) :
    ∃ r out s', d = .halt r out s' ∧
      SelfdestructNotify.selfdestructInsn w.db false (absI s) w.js = some (absI s' (iresOf r), w'.js) := by
  rcases step_sd s hcode with ⟨hst, hstep⟩ | ⟨hst, hnil, hstep⟩ | ⟨hstf, rest, t0, hst, hstep⟩
  · cases hr with
    | host op k resp w' hs _ => rw [hstep] at hs; cases hs
    | pure d hs =>
      rw [hstep] at hs; injection hs with hs; subst hs
      refine ⟨_, _, _, rfl, ?_⟩
      simp [SelfdestructNotify.selfdestructInsn, absI, hst, adv, iresOf]
  · cases hr with
    | host op k resp w' hs _ => rw [hstep] at hs; cases hs
    | pure d hs =>
      rw [hstep] at hs; injection hs with hs; subst hs
      refine ⟨_, _, _, rfl, ?_⟩
      simp [SelfdestructNotify.selfdestructInsn, absI, hst, hnil, adv, iresOf]
  · cases hr with
    | pure d hs => rw [hstep] at hs; cases hs
    | host op k resp w' hs ha =>
      rw [hstep] at hs
      injection hs with hop hk
      subst hop
      subst hk
      obtain ⟨hv, te, pd, c, hj, hresp⟩ := answer_sd ha
      have hok : resp.ok = true := by rw [hresp]
      exact sd_refines_host hstf hst rfl rfl rfl rfl rfl hspec hgas hj hresp

end Revm.Proofs.EvmInstSd
