import Revm.Proofs.InterpMem
import Revm.Proofs.Gas
import Revm.Proofs.Stack
import Revm.Proofs.Jump
/-! Proofs for C25, part 1: the relation that every primitive of the handler monad preserves, and the
Hoare-style lemmas of the primitives (`check!`, `gas!`, `pop!`, `pop_top!`, `push!`, `resize_memory!`,
the memory accessors, `as_usize_or_fail!`, immediate reads). -/
set_option linter.unusedSimpArgs false
set_option linter.unusedVariables false
namespace Revm.Proofs.Interp
open Revm Revm.Model Revm.Model.Interp
open Revm.Proofs.Memory (WF)

/-- `C_mem` of the running context, as the meter sees it -/
def mcost (s : IState) : Nat := Memory.currentExpansionCost s.mem
/-- the termination measure: gas left plus the memory cost already paid for -/
def measure (s : IState) : Nat := s.gas.remaining + mcost s

/-- the resources a handler keeps in order, relative to the state `s0` it started from (after the opcode fetch).
Indices: `k` gas certainly consumed so far; `st` "`measure < u64::MAX` is known"; `ne` "the stack is known to be
non-empty" (a `pop_top!` reference is live); `L` a lower bound on the length of the memory context. -/
structure Res (k : Nat) (st ne : Bool) (L : Nat) (s0 s : IState) : Prop where
  isEof : s.isEof = s0.isEof
  isEofInit : s.isEofInit = s0.isEofInit
  spec : s.spec = s0.spec
  env : s.env = s0.env
  input : s.input = s0.input
  ck : s.mem.lastCheckpoint = s0.mem.lastCheckpoint
  cks : s.mem.checkpoints = s0.mem.checkpoints
  stack : s.stack.length ≤ 1024
  memWF : WF s.mem
  memCk : s.mem.lastCheckpoint ≤ 2^62
  memL : L ≤ clen s.mem
  /-- memory of the frame never shrinks -/
  grow : clen s0.mem ≤ clen s.mem
  rdLen : s.returnData.length ≤ Memory.ISIZE_MAX
  inLen : s.input.length ≤ Memory.ISIZE_MAX
  m0 : measure s0 ≤ U64 - 1
  meas : measure s + k ≤ measure s0
  strict : st = true → measure s < U64 - 1
  safe : measure s < U64 - 1 ∨ s.stack = []
  nonempty : ne = true → s.stack ≠ []

/-- `Res` plus "the running code, the jump table and the EOF context are the ones of `s0`" (everything except the
EOF function calls CALLF / RETF / JUMPF) -/
structure Core (k : Nat) (st ne : Bool) (L : Nat) (s0 s : IState) : Prop extends Res k st ne L s0 s where
  code : s.code = s0.code
  origLen : s.origLen = s0.origLen
  jt : s.jumpTable = s0.jumpTable
  eofc : s.eof = s0.eof

/-- `Core` plus "the instruction pointer has not moved" -/
structure Rel (k : Nat) (st ne : Bool) (L : Nat) (s0 s : IState) : Prop extends Core k st ne L s0 s where
  pc : s.pc = s0.pc

/-- what holds of every state in which a handler stops the frame -/
abbrev Halt (s0 s : IState) : Prop := Res 0 false false 0 s0 s

theorem Res.weaken {k st ne L s0 s} (h : Res k st ne L s0 s) {k' : Nat} {st' ne' : Bool} {L' : Nat}
    (hk : k' ≤ k) (hst : st' = true → st = true) (hne : ne' = true → ne = true) (hL : L' ≤ L) :
    Res k' st' ne' L' s0 s :=
  { h with
    memL := Nat.le_trans hL h.memL
    meas := by have := h.meas; omega
    strict := fun e => h.strict (hst e)
    nonempty := fun e => h.nonempty (hne e) }

theorem Core.weaken {k st ne L s0 s} (h : Core k st ne L s0 s) {k' : Nat} {st' ne' : Bool} {L' : Nat}
    (hk : k' ≤ k) (hst : st' = true → st = true) (hne : ne' = true → ne = true) (hL : L' ≤ L) :
    Core k' st' ne' L' s0 s :=
  { toRes := h.toRes.weaken hk hst hne hL, code := h.code, origLen := h.origLen, jt := h.jt, eofc := h.eofc }

theorem Res.toHalt {k st ne L s0 s} (h : Res k st ne L s0 s) : Halt s0 s :=
  h.weaken (Nat.zero_le _) (fun e => by cases e) (fun e => by cases e) (Nat.zero_le _)

theorem Core.toHalt {k st ne L s0 s} (h : Core k st ne L s0 s) : Halt s0 s := h.toRes.toHalt

theorem Rel.weaken {k st ne L s0 s} (h : Rel k st ne L s0 s) {k' : Nat} {st' ne' : Bool} {L' : Nat}
    (hk : k' ≤ k) (hst : st' = true → st = true) (hne : ne' = true → ne = true) (hL : L' ≤ L) :
    Rel k' st' ne' L' s0 s :=
  { toCore := h.toCore.weaken hk hst hne hL, pc := h.pc }

theorem Res.remLt {k st ne L s0 s} (h : Res k st ne L s0 s) : s.gas.remaining < U64 := by
  have h1 := h.meas; have h2 := h.m0
  have hU := U64_val
  unfold measure at h1 h2; omega

/-- a handler that has consumed gas knows `measure < u64::MAX` -/
theorem Res.strictOfK {k st ne L s0 s} (h : Res k st ne L s0 s) (hk : 1 ≤ k) : measure s < U64 - 1 := by
  have h1 := h.meas; have h2 := h.m0; omega

theorem Rel.mkStrict {k st ne L s0 s} (h : Rel k st ne L s0 s) (hk : 1 ≤ k) : Rel k true ne L s0 s :=
  { h with strict := fun _ => h.toRes.strictOfK hk }

/-! ## post-conditions -/

/-- no fault; a continuing computation satisfies `Q`, a stopped frame `H` (an inductive predicate, so that
nothing ever tries to evaluate the computation when it looks at the statement) -/
inductive SatI {α} (H : IState → Prop) (Q : α → IState → Prop) : Exec α → Prop
  | ok {a : α} {s : IState} (h : Q a s) : SatI H Q (.ok a s)
  | halt {r : IResult} {o : List Nat} {s : IState} (h : H s) : SatI H Q (.halt r o s)

abbrev Exec.Sat {α} (e : Exec α) (H : IState → Prop) (Q : α → IState → Prop) : Prop := SatI H Q e

theorem sat_ok {α} {a : α} {s : IState} {H : IState → Prop} {Q : α → IState → Prop} (h : Q a s) :
    Exec.Sat (.ok a s) H Q := .ok h
theorem sat_halt {α} {r : IResult} {o : List Nat} {s : IState} {H : IState → Prop} {Q : α → IState → Prop}
    (h : H s) : Exec.Sat (Exec.halt r o s : Exec α) H Q := .halt h

theorem sat_ok_inv {α} {a : α} {s : IState} {H : IState → Prop} {Q : α → IState → Prop}
    (h : Exec.Sat (.ok a s) H Q) : Q a s := by cases h with | ok h => exact h
theorem sat_halt_inv {α} {r : IResult} {o : List Nat} {s : IState} {H : IState → Prop} {Q : α → IState → Prop}
    (h : Exec.Sat (Exec.halt r o s : Exec α) H Q) : H s := by cases h with | halt h => exact h
theorem sat_fault_inv {α} {f : Fault} {H : IState → Prop} {Q : α → IState → Prop}
    (h : Exec.Sat (Exec.fault f : Exec α) H Q) : False := by cases h

theorem sat_bind {α β} {m : M α} {f : α → M β} {s : IState} {H : IState → Prop}
    {Q : α → IState → Prop} {Q' : β → IState → Prop}
    (h1 : Exec.Sat (m s) H Q) (h2 : ∀ a s', Q a s' → Exec.Sat (f a s') H Q') :
    Exec.Sat ((m >>= f) s) H Q' := by
  show Exec.Sat (M.bind m f s) H Q'
  unfold M.bind
  cases hm : m s with
  | ok a s' => rw [hm] at h1; exact h2 a s' (sat_ok_inv h1)
  | halt r o s' => rw [hm] at h1; exact sat_halt (sat_halt_inv h1)
  | fault f => rw [hm] at h1; exact (sat_fault_inv h1).elim

theorem sat_mono {α} {e : Exec α} {H : IState → Prop} {Q Q' : α → IState → Prop}
    (h : Exec.Sat e H Q) (hq : ∀ a s, Q a s → Q' a s) : Exec.Sat e H Q' := by
  cases h with
  | ok h => exact .ok (hq _ _ h)
  | halt h => exact .halt h

theorem sat_pure {α} {a : α} {s : IState} {H : IState → Prop} {Q : α → IState → Prop} (h : Q a s) :
    Exec.Sat ((pure a : M α) s) H Q := .ok h

/-! ## primitives that do not touch stack or memory -/

section prims
variable {k : Nat} {st ne : Bool} {L : Nat} {s0 s : IState}

theorem haltWith_sat {α} (h : Rel k st ne L s0 s) (r : IResult) {Q : α → IState → Prop} :
    Exec.Sat ((haltWith r : M α) s) (Halt s0) Q := sat_halt h.toCore.toHalt

theorem haltOut_sat {α} (h : Rel k st ne L s0 s) (r : IResult) (out : List Nat) {Q : α → IState → Prop} :
    Exec.Sat ((haltOut r out : M α) s) (Halt s0) Q := sat_halt h.toCore.toHalt

theorem getS_sat (h : Rel k st ne L s0 s) :
    Exec.Sat (getS s) (Halt s0) (fun a s' => s = a ∧ s = s') := sat_ok ⟨rfl, rfl⟩

theorem check_sat (h : Rel k st ne L s0 s) (fork : Nat) :
    Exec.Sat (check fork s) (Halt s0) (fun _ s' => s = s') := by
  unfold check; split
  · exact sat_ok rfl
  · exact sat_halt h.toCore.toHalt

theorem requireNonStatic_sat (h : Rel k st ne L s0 s) :
    Exec.Sat (requireNonStatic s) (Halt s0) (fun _ s' => s = s') := by
  unfold requireNonStatic; split
  · exact sat_halt h.toCore.toHalt
  · exact sat_ok rfl

theorem requireSome_sat (h : Rel k st ne L s0 s) (r : HostResp) :
    Exec.Sat (requireSome r s) (Halt s0) (fun _ s' => s = s' ∧ r.ok = true) := by
  unfold requireSome; split
  · rename_i hok; exact sat_ok ⟨rfl, hok⟩
  · exact sat_halt h.toCore.toHalt

theorem gasCharge_sat (h : Rel k st ne L s0 s) (c : Nat) :
    Exec.Sat (gasCharge c s) (Halt s0) (fun _ s' => Rel (k + c) (st || decide (1 ≤ c)) ne L s0 s') := by
  have hr := h.toRes.remLt
  unfold gasCharge
  simp only []
  by_cases hc : c ≤ s.gas.remaining
  · rw [Proofs.Gas.recordCost_ok _ _ hr hc]
    simp only [if_true]
    refine sat_ok ?_
    show Rel (k + c) (st || decide (1 ≤ c)) ne L s0
      { s with gas := { s.gas with remaining := s.gas.remaining - c } }
    have hm := h.meas
    have hm0 := h.m0
    have hmeas : measure { s with gas := { s.gas with remaining := s.gas.remaining - c } }
        = s.gas.remaining - c + mcost s := rfl
    have hms : measure s = s.gas.remaining + mcost s := rfl
    exact
      { h with
        meas := by rw [hmeas]; omega
        strict := by
          intro e
          rw [hmeas]
          cases hst : st with
          | true => have := h.strict hst; omega
          | false =>
            rw [hst] at e
            simp only [Bool.false_or, decide_eq_true_eq] at e
            omega
        safe := by
          rcases h.safe with h1 | h1
          · left; rw [hmeas]; omega
          · right; exact h1 }
  · rw [Proofs.Gas.recordCost_fail _ _ (by omega)]
    simp only [Bool.false_eq_true, if_false]
    exact sat_halt h.toCore.toHalt

theorem gasOrFail_sat (h : Rel k st ne L s0 s) (c : Option Nat) :
    Exec.Sat (gasOrFail c s) (Halt s0)
      (fun _ s' => ∃ c', c = some c' ∧ Rel (k + c') (st || decide (1 ≤ c')) ne L s0 s') := by
  unfold gasOrFail
  cases c with
  | none => exact haltWith_sat h _
  | some c' => exact sat_mono (gasCharge_sat h c') (fun _ _ hq => ⟨c', rfl, hq⟩)

theorem refund_sat (h : Rel k st ne L s0 s) (r : Int) :
    Exec.Sat (refund r s) (Halt s0) (fun _ s' => Rel k st ne L s0 s') := by
  refine sat_ok ?_
  show Rel k st ne L s0 { s with gas := Gas.recordRefund s.gas r }
  exact { h with }

theorem asUsizeOrFail_sat (h : Rel k st ne L s0 s) (v : Nat) (reason : IResult) :
    Exec.Sat (asUsizeOrFail v reason s) (Halt s0) (fun x s' => s = s' ∧ x < U64) := by
  unfold asUsizeOrFail
  cases hv : Jump.asUsizeOrFail v with
  | none => exact haltWith_sat h _
  | some x =>
    refine sat_ok ⟨rfl, ?_⟩
    unfold Jump.asUsizeOrFail at hv
    simp only [] at hv
    split at hv
    · cases hv
    · injection hv with hv; rw [← hv]; exact Nat.mod_lt _ (by rw [U64_val]; decide)

theorem asUsizeSat_lt (v : Nat) : asUsizeSat v < U64 := by
  unfold asUsizeSat U256.asU64Sat
  have hU := U64_val
  split <;> omega

end prims

end Revm.Proofs.Interp
