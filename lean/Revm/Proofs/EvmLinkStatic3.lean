import Revm.Proofs.EvmLinkStatic2
/-! LINK, static mode (C10), part 3: the call family and `Interp.step`. -/
set_option linter.unusedSimpArgs false
namespace Revm.Proofs.EvmLink
open Revm Revm.Model Revm.Model.Interp

theorem toDoneAction_static {e : Exec Action} (h : KS true (fun a => ∃ i, a = .call i ∧ StaticCall i) e) :
    StaticDone e.toDoneAction := by
  cases h with
  | ok _ hq => obtain ⟨i, rfl, hi⟩ := hq; exact .call hi
  | halt => exact .halt
  | fault => exact .fault

theorem hostCallAction_static {β} {pre : M (HostOp × β)} {post : β → HostResp → M Action} {s : IState}
    (Qb : β → Prop) (hpre : KS true (fun p => mutating p.1 = false ∧ Qb p.2) (pre s))
    (hpost : ∀ b r s', s'.isStatic = true → Qb b →
      KS true (fun a => ∃ i, a = .call i ∧ StaticCall i) (post b r s')) :
    StaticOutcome (hostCallAction pre post s) := by
  unfold hostCallAction
  cases hp : pre s with
  | ok p s' =>
    obtain ⟨op, b⟩ := p
    rw [hp] at hpre
    cases hpre with
    | ok hs' hq => exact .host hq.1 (fun r => toDoneAction_static (hpost b r s' hs' hq.2))
  | halt r o s' => exact .pure .halt
  | fault f => exact .pure .fault

theorem callI_static (s : IState) (hs : s.isStatic = true) : StaticOutcome (callI s) := by
  unfold callI
  refine hostCallAction_static (fun b => b.2.2.1 = 0) ?_ ?_
  · refine ks_bind (ks_pop1 hs) fun lgl s1 h1 _ => ?_
    refine ks_bind (ks_popAddress h1) fun to s2 h2 _ => ?_
    refine ks_bind (ks_pop1 h2) fun value s3 h3 _ => ?_
    refine ks_bind (ks_getS h3) fun x s4 h4 hx => ?_
    split
    · exact .halt
    · rename_i hc
      refine ks_bind (ks_getMemoryInputAndOutRanges h4) fun p s5 h5 _ => ?_
      obtain ⟨input, rs, re⟩ := p
      refine ks_pure h5 ⟨rfl, ?_⟩
      show value = 0
      apply Classical.byContradiction
      intro hv
      exact hc ⟨hx, by simpa using hv⟩
  · intro b r s' hs' hq
    obtain ⟨lgl, to, value, input, rs, re⟩ := b
    refine ks_bind (ks_requireSome hs' r) fun _ s1 h1 _ => ?_
    refine ks_bind (ks_calcCallGas h1 _ _ _ _) fun gl s2 h2 _ => ?_
    refine ks_bind (ks_gasCharge h2 _) fun _ s3 h3 _ => ?_
    refine ks_bind (ks_getS h3) fun x s4 h4 hx => ?_
    exact ks_pure h4 ⟨_, rfl, hx, fun _ => Or.inl hq⟩

theorem callcodeI_static (s : IState) (hs : s.isStatic = true) : StaticOutcome (callcodeI s) := by
  unfold callcodeI
  refine hostCallAction_static (fun _ => True) ?_ ?_
  · refine ks_bind (ks_pop1 hs) fun lgl s1 h1 _ => ?_
    refine ks_bind (ks_popAddress h1) fun to s2 h2 _ => ?_
    refine ks_bind (ks_pop1 h2) fun value s3 h3 _ => ?_
    refine ks_bind (ks_getMemoryInputAndOutRanges h3) fun p s5 h5 _ => ?_
    obtain ⟨input, rs, re⟩ := p
    exact ks_pure h5 ⟨rfl, trivial⟩
  · intro b r s' hs' _
    obtain ⟨lgl, to, value, input, rs, re⟩ := b
    refine ks_bind (ks_requireSome hs' r) fun _ s1 h1 _ => ?_
    refine ks_bind (ks_calcCallGas h1 _ _ _ _) fun gl s2 h2 _ => ?_
    refine ks_bind (ks_gasCharge h2 _) fun _ s3 h3 _ => ?_
    refine ks_bind (ks_getS h3) fun x s4 h4 hx => ?_
    exact ks_pure h4 ⟨_, rfl, hx, fun _ => Or.inr rfl⟩

theorem delegatecallI_static (s : IState) (hs : s.isStatic = true) : StaticOutcome (delegatecallI s) := by
  unfold delegatecallI
  refine hostCallAction_static (fun _ => True) ?_ ?_
  · refine ks_bind (ks_check hs _) fun _ s0 h0 _ => ?_
    refine ks_bind (ks_pop1 h0) fun lgl s1 h1 _ => ?_
    refine ks_bind (ks_popAddress h1) fun to s2 h2 _ => ?_
    refine ks_bind (ks_getMemoryInputAndOutRanges h2) fun p s5 h5 _ => ?_
    obtain ⟨input, rs, re⟩ := p
    exact ks_pure h5 ⟨rfl, trivial⟩
  · intro b r s' hs' _
    obtain ⟨lgl, to, input, rs, re⟩ := b
    refine ks_bind (ks_requireSome hs' r) fun _ s1 h1 _ => ?_
    refine ks_bind (ks_calcCallGas h1 _ _ _ _) fun gl s2 h2 _ => ?_
    refine ks_bind (ks_gasCharge h2 _) fun _ s3 h3 _ => ?_
    refine ks_bind (ks_getS h3) fun x s4 h4 hx => ?_
    exact ks_pure h4 ⟨_, rfl, hx, fun h => nomatch h⟩

theorem staticcallI_static (s : IState) (hs : s.isStatic = true) : StaticOutcome (staticcallI s) := by
  unfold staticcallI
  refine hostCallAction_static (fun _ => True) ?_ ?_
  · refine ks_bind (ks_check hs _) fun _ s0 h0 _ => ?_
    refine ks_bind (ks_pop1 h0) fun lgl s1 h1 _ => ?_
    refine ks_bind (ks_popAddress h1) fun to s2 h2 _ => ?_
    refine ks_bind (ks_getMemoryInputAndOutRanges h2) fun p s5 h5 _ => ?_
    obtain ⟨input, rs, re⟩ := p
    exact ks_pure h5 ⟨rfl, trivial⟩
  · intro b r s' hs' _
    obtain ⟨lgl, to, input, rs, re⟩ := b
    refine ks_bind (ks_requireSome hs' r) fun _ s1 h1 _ => ?_
    refine ks_bind (ks_calcCallGas h1 _ _ _ _) fun gl s2 h2 _ => ?_
    refine ks_bind (ks_gasCharge h2 _) fun _ s3 h3 _ => ?_
    refine ks_bind (ks_getS h3) fun x s4 h4 hx => ?_
    exact ks_pure h4 ⟨_, rfl, rfl, fun _ => Or.inl rfl⟩

/-- one instruction in a static frame -/
theorem execInstr_static (i : Instr) (s : IState) (hs : s.isStatic = true) : StaticOutcome (execInstr i s) := by
  unfold execInstr
  cases hp : execPure i with
  | some m => exact .pure (toDone_static _)
  | none =>
    simp only
    cases i <;> first
      | exact keccak256I_static s
      | exact balanceI_static s
      | exact selfbalanceI_static s
      | exact extcodesizeI_static s
      | exact extcodehashI_static s
      | exact extcodecopyI_static s
      | exact blockhashI_static s
      | exact sloadI_static s
      | exact sstoreI_static s hs
      | exact tloadI_static s
      | exact tstoreI_static s hs
      | exact logI_static _ s hs
      | exact selfdestructI_static s hs
      | exact createI_static _ s hs
      | exact callI_static s hs
      | exact callcodeI_static s hs
      | exact delegatecallI_static s hs
      | exact staticcallI_static s hs
      | exact .pure .fault

/-- **`static_step_no_mutation` and `static_inherited` (C10) on the interpreter of the whole-EVM model**: for EVERY
machine state of a static frame (any code, pc, stack, memory, gas, fork), `Interp.step` asks the host no mutating
question (no SSTORE, TSTORE, LOG, SELFDESTRUCT reaches the journal), hands out no CREATE, and every call it hands out —
directly or after the host's answer — is static again and moves no value between two accounts -/
theorem step_static (s : IState) (hs : s.isStatic = true) : StaticOutcome (step s) := by
  unfold step
  cases s.code[s.pc]? with
  | none => exact .pure .fault
  | some op => exact execInstr_static _ _ hs

end Revm.Proofs.EvmLink
