import Revm.Model.SelfdestructNotify
/-! Proofs for C30: which journal entries `JournaledState::selfdestruct` appends, what happens to the
balance of the executing contract, and what the repaired wrapper reads from the entries the instruction
itself appended. -/
namespace Revm.Proofs.SelfdestructNotify
open Revm Revm.Model.Journal Revm.Model.SelfdestructNotify

set_option linter.unusedSimpArgs false
set_option linter.unusedVariables false

/-- journal `j'` is `j` with the entries `es` (newest first) pushed on its innermost level -/
def JExt (j j' : List (List Entry)) (es : List Entry) : Prop :=
  (es = [] ∧ j' = j) ∨ ∃ l rest, j = l :: rest ∧ j' = (es ++ l) :: rest

theorem JExt.refl (j : List (List Entry)) : JExt j j [] := Or.inl ⟨rfl, rfl⟩

theorem JExt.trans {j j' j'' : List (List Entry)} {e1 e2 : List Entry}
    (h1 : JExt j j' e1) (h2 : JExt j' j'' e2) : JExt j j'' (e2 ++ e1) := by
  rcases h1 with ⟨rfl, rfl⟩ | ⟨l, rest, rfl, rfl⟩
  · rcases h2 with ⟨rfl, rfl⟩ | ⟨l, rest, rfl, rfl⟩
    · exact Or.inl ⟨rfl, rfl⟩
    · exact Or.inr ⟨l, rest, rfl, by simp⟩
  · rcases h2 with ⟨rfl, rfl⟩ | ⟨l2, rest2, h, rfl⟩
    · exact Or.inr ⟨l, rest, rfl, by simp⟩
    · injection h with h1 h2
      subst h1 h2
      exact Or.inr ⟨l, rest, rfl, by simp⟩

/-- the fields of an account the self-destruct logic looks at -/
def Same (acc acc1 : Acct) : Prop :=
  acc1.info = acc.info ∧ acc1.created = acc.created ∧ acc1.selfdestructed = acc.selfdestructed

theorem Same.refl (acc : Acct) : Same acc acc := ⟨rfl, rfl, rfl⟩

theorem pushEntry_spec {s s' : JState} {e : Entry} (h : pushEntry s e = some s') :
    JExt s.journal s'.journal [e] ∧ s'.state = s.state ∧ s'.spec = s.spec := by
  unfold pushEntry at h
  cases hj : s.journal with
  | nil => simp [hj] at h
  | cons l rest =>
    simp [hj] at h
    subst h
    exact ⟨Or.inr ⟨l, rest, rfl, rfl⟩, rfl, rfl⟩

theorem touchAccount_spec {s s' : JState} {t : Addr} {acc acc' : Acct}
    (h : touchAccount s t acc = some (s', acc')) :
    ∃ es, JExt s.journal s'.journal es ∧ (∀ e ∈ es, entryNote e = none) ∧ s'.spec = s.spec ∧
      (∀ x, x ≠ t → s'.state x = s.state x) ∧ acc'.info = acc.info := by
  unfold touchAccount at h
  cases ht : acc.touched with
  | true =>
    simp [ht] at h
    obtain ⟨rfl, rfl⟩ := h
    exact ⟨[], JExt.refl _, by simp, rfl, fun _ _ => rfl, rfl⟩
  | false =>
    simp only [ht, Bool.not_false, if_true, bind, Option.bind_eq_some_iff] at h
    obtain ⟨s1, h1, h2⟩ := h
    obtain ⟨hext, hst, hsp⟩ := pushEntry_spec h1
    simp at h2
    obtain ⟨rfl, rfl⟩ := h2
    refine ⟨[.accountTouched t], hext, ?_, hsp, ?_, rfl⟩
    · intro e he; simp at he; subst he; rfl
    · intro x hx; simp [setAcct, hx, hst]

theorem loadAccount_spec {db : Db} {s s1 : JState} {t : Addr} {c : Bool}
    (h : loadAccount db s t = some (s1, c)) :
    ∃ es, JExt s.journal s1.journal es ∧ (∀ e ∈ es, entryNote e = none) ∧ s1.spec = s.spec ∧
      (∀ x acc, s.state x = some acc → ∃ acc1, s1.state x = some acc1 ∧ Same acc acc1) := by
  unfold loadAccount at h
  cases hst : s.state t with
  | some tacc =>
    simp only [hst] at h
    by_cases hc : tacc.cold = true
    · simp only [hc, if_true, Option.map_eq_some_iff] at h
      obtain ⟨s', hp, heq⟩ := h
      simp at heq
      obtain ⟨rfl, rfl⟩ := heq
      obtain ⟨hext, hstate, hsp⟩ := pushEntry_spec hp
      refine ⟨[.accountWarmed t], hext, ?_, hsp, ?_⟩
      · intro e he; simp at he; subst he; rfl
      · intro x acc hx
        rw [hstate]
        by_cases hxt : x = t
        · subst hxt
          rw [hst] at hx; injection hx with hx; subst hx
          exact ⟨{ tacc with cold := false }, by simp [setAcct], rfl, rfl, rfl⟩
        · exact ⟨acc, by simp [setAcct, hxt, hx], Same.refl _⟩
    · simp only [hc, Bool.false_eq_true, if_false] at h
      simp at h
      obtain ⟨rfl, rfl⟩ := h
      refine ⟨[], JExt.refl _, by simp, rfl, ?_⟩
      intro x acc hx
      by_cases hxt : x = t
      · subst hxt
        rw [hst] at hx; injection hx with hx; subst hx
        exact ⟨{ tacc with cold := false }, by simp [setAcct], rfl, rfl, rfl⟩
      · exact ⟨acc, by simp [setAcct, hxt, hx], Same.refl _⟩
  | none =>
    simp only [hst] at h
    cases hp : s.preloaded t with
    | true =>
      simp [hp] at h
      obtain ⟨rfl, rfl⟩ := h
      refine ⟨[], JExt.refl _, by simp, rfl, ?_⟩
      intro x acc hx
      have hxt : x ≠ t := by intro hxt; subst hxt; rw [hst] at hx; cases hx
      exact ⟨acc, by simp [setAcct, hxt, hx], Same.refl _⟩
    | false =>
      simp only [hp, Bool.not_false, if_true, Option.map_eq_some_iff] at h
      obtain ⟨s', hpe, heq⟩ := h
      simp at heq
      obtain ⟨rfl, rfl⟩ := heq
      obtain ⟨hext, hstate, hsp⟩ := pushEntry_spec hpe
      refine ⟨[.accountWarmed t], hext, ?_, hsp, ?_⟩
      · intro e he; simp at he; subst he; rfl
      · intro x acc hx
        have hxt : x ≠ t := by intro hxt; subst hxt; rw [hst] at hx; cases hx
        rw [hstate]
        exact ⟨acc, by simp [setAcct, hxt, hx], Same.refl _⟩

/-- credit of the target (only when it differs from the contract) -/
def stage2 (s : JState) (a target : Addr) : Option JState :=
  if a ≠ target then do
      let acc ← s.state a
      let t ← s.state target
      let (s, t) ← touchAccount s target t
      some (setAcct s target { t with info := { t.info with balance := U256.wadd t.info.balance acc.info.balance } })
    else some s

/-- the fork / created-in-transaction / self-target case split -/
def stage3 (s : JState) (a target : Addr) (acc : Acct) : Option JState :=
  if acc.created ∨ !(decide (s.spec ≥ CANCUN)) then do
      let s := setAcct s a { acc with selfdestructed := true, info := { acc.info with balance := 0 } }
      pushEntry s (.accountDestroyed a target acc.selfdestructed acc.info.balance)
    else if a ≠ target then do
      let s := setAcct s a { acc with info := { acc.info with balance := 0 } }
      pushEntry s (.balanceTransfer a target acc.info.balance)
    else some s

theorem selfdestruct_eq (db : Db) (s : JState) (a t : Addr) :
    Revm.Model.Journal.selfdestruct db s a t = (do
      let (s1, isCold) ← loadAccount db s t
      let tacc ← s1.state t
      let s2 ← stage2 s1 a t
      let acc ← s2.state a
      let s3 ← stage3 s2 a t acc
      some (s3, decide (acc.info.balance ≠ 0), !(tacc.stateClearAwareIsEmpty s1.spec), acc.selfdestructed, isCold)) := by
  rfl

theorem stage2_spec {s s2 : JState} {a t : Addr} (h : stage2 s a t = some s2) :
    ∃ es, JExt s.journal s2.journal es ∧ (∀ e ∈ es, entryNote e = none) ∧ s2.spec = s.spec ∧
      s2.state a = s.state a := by
  unfold stage2 at h
  by_cases hat : a = t
  · simp [hat] at h
    subst h
    exact ⟨[], JExt.refl _, by simp, rfl, rfl⟩
  · simp only [ne_eq, hat, not_false_eq_true, if_true, bind, Option.bind_eq_some_iff] at h
    obtain ⟨acc, _, tacc, _, ⟨s', tacc'⟩, htouch, heq⟩ := h
    simp at heq
    subst heq
    obtain ⟨es, hext, hno, hsp, hstate, _⟩ := touchAccount_spec htouch
    exact ⟨es, hext, hno, hsp, by simp [setAcct, hat, hstate a hat]⟩

/-- what `selfdestruct` appends that the wrapper can see -/
def expectedNote (acc : Acct) (spec : Nat) (a t : Addr) : Option (Addr × Addr × Nat) :=
  if acc.created = true ∨ spec < CANCUN then some (a, t, acc.info.balance)
  else if a ≠ t then some (a, t, acc.info.balance)
  else none

/-- the balance the contract keeps -/
def keptBalance (acc : Acct) (spec : Nat) (a t : Addr) : Nat :=
  if (acc.created = true ∨ spec < CANCUN) ∨ a ≠ t then 0 else acc.info.balance

theorem stage3_spec {s s3 : JState} {a t : Addr} {acc : Acct} (h : stage3 s a t acc = some s3)
    (hacc : s.state a = some acc) :
    ∃ es, JExt s.journal s3.journal es ∧ es.findSome? entryNote = expectedNote acc s.spec a t ∧
      balanceOf s3 a = keptBalance acc s.spec a t := by
  unfold stage3 at h
  by_cases h1 : acc.created = true ∨ s.spec < CANCUN
  · have hc : (acc.created = true ∨ (!(decide (s.spec ≥ CANCUN))) = true) := by
      rcases h1 with h1 | h1
      · exact Or.inl h1
      · right; simp; omega
    simp only [hc, if_true] at h
    obtain ⟨hext, hstate, _⟩ := pushEntry_spec h
    refine ⟨_, hext, ?_, ?_⟩
    · simp [expectedNote, h1, entryNote]
    · simp [balanceOf, hstate, setAcct, keptBalance, h1]
  · have hc : ¬ (acc.created = true ∨ (!(decide (s.spec ≥ CANCUN))) = true) := by
      intro hc
      apply h1
      rcases hc with hc | hc
      · exact Or.inl hc
      · right; simp at hc; omega
    simp only [hc, if_false] at h
    by_cases hat : a = t
    · subst hat
      simp at h
      subst h
      refine ⟨[], JExt.refl _, ?_, ?_⟩
      · simp [expectedNote, h1]
      · simp [balanceOf, hacc, keptBalance, h1]
    · simp only [ne_eq, hat, not_false_eq_true, if_true] at h
      obtain ⟨hext, hstate, _⟩ := pushEntry_spec h
      refine ⟨_, hext, ?_, ?_⟩
      · simp [expectedNote, h1, hat, entryNote]
      · simp [balanceOf, hstate, setAcct, keptBalance, h1, hat]

theorem findSome_append_none {es1 es2 : List Entry} (h : ∀ e ∈ es2, entryNote e = none) :
    (es1 ++ es2).findSome? entryNote = es1.findSome? entryNote := by
  rw [List.findSome?_append]
  have : es2.findSome? entryNote = none := by
    rw [List.findSome?_eq_none_iff]; exact h
  simp [this]

/-- the journal's `selfdestruct`, seen through what the wrapper and C30 need -/
theorem selfdestruct_char {db : Db} {s s' : JState} {a t : Addr} {r : Bool × Bool × Bool × Bool} {acc : Acct}
    (h : Revm.Model.Journal.selfdestruct db s a t = some (s', r)) (ha : s.state a = some acc) :
    ∃ es, JExt s.journal s'.journal es ∧ es.findSome? entryNote = expectedNote acc s.spec a t ∧
      balanceOf s' a = keptBalance acc s.spec a t := by
  rw [selfdestruct_eq] at h
  simp only [bind, Option.bind_eq_some_iff] at h
  obtain ⟨⟨s1, c⟩, hload, tacc, _, s2, h2, acc2, hacc2, s3, h3, heq⟩ := h
  simp at heq
  obtain ⟨rfl, _⟩ := heq
  obtain ⟨e1, hx1, hn1, hsp1, hst1⟩ := loadAccount_spec hload
  obtain ⟨e2, hx2, hn2, hsp2, hst2⟩ := stage2_spec h2
  obtain ⟨acc1, hacc1, hsame⟩ := hst1 a acc ha
  simp only [] at hst2 hacc2
  rw [hst2, hacc1] at hacc2
  injection hacc2 with hacc2
  subst hacc2
  have hacc2' : s2.state a = some acc1 := by rw [hst2]; exact hacc1
  obtain ⟨e3, hx3, hf3, hb3⟩ := stage3_spec h3 hacc2'
  obtain ⟨hinfo, hcr, _⟩ := hsame
  have hspec : s2.spec = s.spec := by rw [hsp2]; exact hsp1
  refine ⟨e3 ++ (e2 ++ e1), (hx1.trans hx2).trans hx3, ?_, ?_⟩
  · rw [findSome_append_none]
    · rw [hf3, hspec]; simp [expectedNote, hinfo, hcr]
    · intro e he
      simp only [List.mem_append] at he
      rcases he with he | he
      · exact hn2 e he
      · exact hn1 e he
  · rw [hb3, hspec]; simp [keptBalance, hinfo, hcr]

theorem newEntryNote_of_ext {s s' : JState} {es : List Entry} (h : JExt s.journal s'.journal es) :
    newEntryNote (lastLen s) s' = es.findSome? entryNote := by
  rcases h with ⟨rfl, hj⟩ | ⟨l, rest, hj, hj'⟩
  · unfold newEntryNote lastLen
    rw [hj]
    cases s.journal with
    | nil => rfl
    | cons l rest => simp
  · unfold newEntryNote lastLen
    rw [hj, hj']
    simp

/-- the balance that leaves the contract -/
def movedValue (acc : Acct) (spec : Nat) (a t : Addr) : Nat :=
  if (acc.created = true ∨ spec < CANCUN) ∨ a ≠ t then acc.info.balance else 0

theorem moved_add_kept (acc : Acct) (spec : Nat) (a t : Addr) :
    movedValue acc spec a t + keptBalance acc spec a t = acc.info.balance := by
  unfold movedValue keptBalance
  split <;> simp

theorem expectedNote_getD (acc : Acct) (spec : Nat) (a t : Addr) :
    (expectedNote acc spec a t).getD (a, a, 0) = (a, t, movedValue acc spec a t) := by
  unfold expectedNote movedValue
  by_cases h1 : acc.created = true ∨ spec < CANCUN
  · simp [h1]
  · by_cases hat : a = t
    · subst hat; simp [h1]
    · simp [h1, hat]

/-- an instruction that ends with `SelfDestruct` went through the journal's `selfdestruct` -/
theorem insn_completed {db : Db} {f : Bool} {it it' : Interp} {s s' : JState}
    (h : selfdestructInsn db f it s = some (it', s')) (hd : it'.result = .selfDestruct) :
    ∃ top rest r, it.stack = top :: rest ∧ it.isStatic = false ∧
      Revm.Model.Journal.selfdestruct db s it.contract (top % ADDR) = some (s', r) ∧
      it'.stack = rest ∧ it'.contract = it.contract := by
  unfold selfdestructInsn at h
  cases hs : it.isStatic with
  | true => simp [hs] at h; obtain ⟨rfl, _⟩ := h; simp at hd
  | false =>
    simp only [hs, Bool.false_eq_true, if_false] at h
    cases hst : it.stack with
    | nil => simp [hst] at h; obtain ⟨rfl, _⟩ := h; simp at hd
    | cons top rest =>
      simp only [hst] at h
      split at h
      · simp at h; obtain ⟨rfl, _⟩ := h; simp at hd
      · cases hj : Revm.Model.Journal.selfdestruct db s it.contract (top % ADDR) with
        | none => simp [hj] at h
        | some p =>
          obtain ⟨s2, hv, te, pd, ic⟩ := p
          simp only [hj] at h
          split at h
          · simp at h; obtain ⟨rfl, _⟩ := h; simp at hd
          · simp at h
            obtain ⟨rfl, rfl⟩ := h
            exact ⟨top, rest, _, rfl, rfl, hj, rfl, rfl⟩

/-- with an inspector that leaves `instruction_result` alone the wrapper is the instruction plus the check -/
theorem wrapped_observing {db : Db} {f : Bool} {it : Interp} {s : JState} (hc : it.result = .continue_) :
    wrapped db f {} it s =
      match selfdestructInsn db f it s with
      | none => none
      | some (it', s') =>
        if it'.result ≠ .selfDestruct then some (it', s', none)
        else some (it', s', some ((newEntryNote (lastLen s) s').getD (it.contract, it.contract, 0))) := by
  unfold wrapped stepWrapped
  simp only [hc, ne_eq, not_true_eq_false, if_false]
  cases selfdestructInsn db f it s with
  | none => rfl
  | some p => rfl

end Revm.Proofs.SelfdestructNotify
