import Revm.Proofs.OpFees
/-! The balance steps of the Optimism handler for a validated regular transaction and for deposits
(C33, core Lean only). -/
set_option linter.unusedSimpArgs false
set_option linter.unusedVariables false
namespace Revm.Proofs.OpFees
open Revm Revm.U256 Revm.Model.Gas Revm.Model.OpFees

/-- the blob fee terms as the code sees them (`SPEC::enabled(CANCUN)`) -/
def maxData (tx : Tx) : Nat := if enabled tx.spec CANCUN then tx.maxDataFee else 0
def dataFee' (tx : Tx) : Nat := if enabled tx.spec CANCUN then tx.dataFee else 0

theorem egp_le (tx : Tx) : effectiveGasPrice tx ≤ tx.gasPrice := by
  unfold effectiveGasPrice
  cases tx.priorityFee with
  | none => exact Nat.le_refl _
  | some p => exact Nat.min_le_left _ _

theorem mint_step (mint : Option Nat) (b : Nat) (h : b + mint.getD 0 < W) :
    mintStep mint b = b + mint.getD 0 := by
  unfold mintStep
  cases mint with
  | none => simp
  | some m => simp at h ⊢; exact wadd_eq _ _ h

/-- what a successful `validate_tx_against_state` of a regular transaction establishes -/
structure Validated (tx : Tx) (pre : St) (info : L1Info) (env : List Nat) (l1 chargeL : Nat) : Prop where
  env_eq : tx.enveloped = some env
  l1_eq : calculateTxL1Cost info env tx.spec = (l1, info)
  charge_eq : operatorFeeCharge info tx.gasLimit tx.spec = some chargeL
  bal : tx.gasLimit * tx.gasPrice + tx.value + l1 + chargeL + maxData tx ≤ pre.bal tx.caller
  balW : pre.bal tx.caller < W

theorem validated_of_ok (tx : Tx) (s : Slots) (pre : St) (oi : Option L1Info)
    (hdep : tx.isDeposit = false) (hW : pre.bal tx.caller < W)
    (h : validateTxAgainstState tx s pre = .ok oi) :
    ∃ info env l1 chargeL, oi = some info ∧ Validated tx pre info env l1 chargeL ∧
      calculateTxL1Cost (tryFetch s tx.spec) env tx.spec = (l1, info) := by
  unfold validateTxAgainstState at h
  simp only [hdep, Bool.false_eq_true, if_false] at h
  unfold validateWith at h
  by_cases hn : nonceMismatch tx pre = true
  · simp only [hn, if_true] at h; cases h
  · simp only [hn, if_false] at h
    by_cases hno : tx.txNonce = some (U64 - 1)
    · simp only [hno, if_true] at h; cases h
    simp only [hno, if_false] at h
    cases henv : tx.enveloped with
    | none => simp only [henv] at h; cases h
    | some env =>
      simp only [henv] at h
      generalize hc : calculateTxL1Cost (tryFetch s tx.spec) env tx.spec = c at h
      obtain ⟨l1, info⟩ := c
      simp only at h
      cases hch : operatorFeeCharge info tx.gasLimit tx.spec with
      | none => simp only [hch] at h; cases h
      | some chargeL =>
        simp only [hch] at h
        have hidem := calculateTxL1Cost_idem (tryFetch s tx.spec) env tx.spec
        rw [hc] at hidem
        simp only at hidem
        -- the four checked additions
        unfold checkedMul checkedAdd at h
        by_cases h1 : tx.gasLimit * tx.gasPrice < W
        · simp only [h1, if_true, Option.bind_some] at h
          by_cases h2 : tx.gasLimit * tx.gasPrice + tx.value < W
          · simp only [h2, if_true, Option.bind_some] at h
            by_cases h3 : tx.gasLimit * tx.gasPrice + tx.value + l1 < W
            · simp only [h3, if_true, Option.bind_some] at h
              by_cases h4 : tx.gasLimit * tx.gasPrice + tx.value + l1 + chargeL < W
              · simp only [h4, if_true, Option.bind_some] at h
                by_cases hcan : enabled tx.spec CANCUN = true
                · simp only [hcan, if_true] at h
                  by_cases h5 : tx.gasLimit * tx.gasPrice + tx.value + l1 + chargeL + tx.maxDataFee < W
                  · simp only [h5, if_true] at h
                    by_cases hle : tx.gasLimit * tx.gasPrice + tx.value + l1 + chargeL + tx.maxDataFee > pre.bal tx.caller
                    · simp only [hle, if_true] at h; cases h
                    · simp only [hle, if_false] at h
                      injection h with h
                      refine ⟨info, env, l1, chargeL, h.symm, ⟨henv, hidem, hch, ?_, hW⟩, ?_⟩
                      · unfold maxData; simp only [hcan, if_true]; omega
                      · exact hc
                  · simp only [h5, if_false] at h; cases h
                · simp only [hcan, Bool.false_eq_true, if_false] at h
                  by_cases hle : tx.gasLimit * tx.gasPrice + tx.value + l1 + chargeL > pre.bal tx.caller
                  · simp only [hle, if_true] at h; cases h
                  · simp only [hle, if_false] at h
                    injection h with h
                    refine ⟨info, env, l1, chargeL, h.symm, ⟨henv, hidem, hch, ?_, hW⟩, ?_⟩
                    · unfold maxData; simp only [hcan, Bool.false_eq_true, if_false]; omega
                    · exact hc
              · simp only [h4, if_false, Option.bind_none] at h; cases h
            · simp only [h3, if_false, Option.bind_none] at h; cases h
          · simp only [h2, if_false, Option.bind_none] at h; cases h
        · simp only [h1, if_false, Option.bind_none] at h; cases h


theorem upd_same (f : Nat → Nat) (a v : Nat) : upd f a v a = v := by simp [upd]
theorem upd_other (f : Nat → Nat) (a v x : Nat) (h : x ≠ a) : upd f a v x = f x := by simp [upd, h]

theorem deductInner_eq (tx : Tx) (b nonce : Nat)
    (h : tx.gasLimit * effectiveGasPrice tx + dataFee' tx < W) :
    deductCallerInner tx b nonce =
      (b - (tx.gasLimit * effectiveGasPrice tx + dataFee' tx),
       if tx.isCreate then nonce else U64ops.saturatingAdd nonce 1) := by
  unfold deductCallerInner dataFee' at *
  have h0 : tx.gasLimit * effectiveGasPrice tx < W := by omega
  by_cases hc : enabled tx.spec CANCUN = true
  · simp only [hc, if_true] at h ⊢
    rw [satMul_eq _ _ h0, satAdd_eq _ _ h]; rfl
  · simp only [hc, Bool.false_eq_true, if_false] at h ⊢
    rw [satMul_eq _ _ h0]; rfl

theorem operatorFeeRefund_eq (info : L1Info) (g : Gas) (spec cL cU : Nat)
    (h1 : operatorFeeCharge info g.limit spec = some cL)
    (h2 : operatorFeeCharge info (usedGas g) spec = some cU) :
    operatorFeeRefund info g spec = some (cL - cU) := by
  unfold operatorFeeRefund
  by_cases hi : enabled spec ISTHMUS = true
  · simp only [hi, Bool.not_true, Bool.false_eq_true, if_false, h1, h2]; rfl
  · unfold operatorFeeCharge at h1 h2
    simp only [hi, Bool.not_false, if_true, Bool.not_eq_true] at h1 h2 ⊢
    simp_all

/-- the state a validated regular transaction hands to its first frame -/
def deducted (tx : Tx) (pre : St) (l1 chargeL : Nat) : St :=
  { bal := upd pre.bal tx.caller
      (pre.bal tx.caller + tx.mint.getD 0 - (tx.gasLimit * effectiveGasPrice tx + dataFee' tx) - l1 - chargeL),
    nonce := if tx.isCreate then pre.nonce else U64ops.saturatingAdd pre.nonce 1 }

theorem deductCaller_regular (tx : Tx) (pre : St) (info : L1Info) (env : List Nat) (l1 chargeL : Nat)
    (hdep : tx.isDeposit = false) (hv : Validated tx pre info env l1 chargeL)
    (hmint : pre.bal tx.caller + tx.mint.getD 0 < W) (hdf : dataFee' tx ≤ maxData tx) :
    deductCaller tx pre (some info) = .ok (deducted tx pre l1 chargeL) (some info) := by
  have hle := Nat.mul_le_mul_left tx.gasLimit (egp_le tx)
  have hb := hv.bal
  have hfit : tx.gasLimit * effectiveGasPrice tx + dataFee' tx < W := by omega
  unfold deductCaller deducted
  simp only [mint_step _ _ hmint, deductInner_eq _ _ _ hfit, hdep, Bool.false_eq_true, if_false, hv.env_eq,
    hv.l1_eq, hv.charge_eq, satSub_eq]

/-- the credits of `reimburse_caller` and `reward_beneficiary` on top of the balances `B` left by the frame -/
def credited (tx : Tx) (B : Nat → Nat) (back refundOp used l1 cU : Nat) : Nat → Nat :=
  let egp := effectiveGasPrice tx
  let b := upd B tx.caller (B tx.caller + egp * back)
  let b := upd b tx.caller (b tx.caller + refundOp)
  let b := upd b tx.coinbase (b tx.coinbase + (egp - tx.basefee) * used)
  let b := upd b L1_FEE_RECIPIENT (b L1_FEE_RECIPIENT + l1)
  let b := upd b BASE_FEE_RECIPIENT (b BASE_FEE_RECIPIENT + tx.basefee * used)
  upd b OPERATOR_FEE_RECIPIENT (b OPERATOR_FEE_RECIPIENT + cU)

structure FiveDistinct (tx : Tx) : Prop where
  c_cb : tx.caller ≠ tx.coinbase
  c_l1 : tx.caller ≠ L1_FEE_RECIPIENT
  c_bv : tx.caller ≠ BASE_FEE_RECIPIENT
  c_op : tx.caller ≠ OPERATOR_FEE_RECIPIENT
  cb_l1 : tx.coinbase ≠ L1_FEE_RECIPIENT
  cb_bv : tx.coinbase ≠ BASE_FEE_RECIPIENT
  cb_op : tx.coinbase ≠ OPERATOR_FEE_RECIPIENT

theorem l1_ne_bv : L1_FEE_RECIPIENT ≠ BASE_FEE_RECIPIENT := by decide
theorem l1_ne_op : L1_FEE_RECIPIENT ≠ OPERATOR_FEE_RECIPIENT := by decide
theorem bv_ne_op : BASE_FEE_RECIPIENT ≠ OPERATOR_FEE_RECIPIENT := by decide

/-- `reimburse_caller` then `reward_beneficiary` of a regular transaction, nothing saturating -/
theorem post_regular (tx : Tx) (B : Nat → Nat) (info : L1Info) (env : List Nat) (l1 cL cU : Nat) (g : Gas)
    (hdep : tx.isDeposit = false) (hlon : enabled tx.spec LONDON = true)
    (henv : tx.enveloped = some env) (hl1 : calculateTxL1Cost info env tx.spec = (l1, info))
    (hcL : operatorFeeCharge info g.limit tx.spec = some cL)
    (hcU : operatorFeeCharge info (usedGas g) tx.spec = some cU)
    (hg : GoodGas g) (hd : FiveDistinct tx)
    (f1 : B tx.caller + effectiveGasPrice tx * (g.remaining + g.refunded.toNat) + (cL - cU) < W)
    (f2 : B tx.coinbase + (effectiveGasPrice tx - tx.basefee) * usedGas g < W)
    (f3 : B L1_FEE_RECIPIENT + l1 < W)
    (f4 : B BASE_FEE_RECIPIENT + tx.basefee * usedGas g < W)
    (f5 : B OPERATOR_FEE_RECIPIENT + cU < W) :
    ∃ bal1, reimburseCaller tx B (some info) g = some bal1 ∧
      rewardBeneficiary tx bal1 (some info) g =
        .ok (credited tx B (g.remaining + g.refunded.toNat) (cL - cU) (usedGas g) l1 cU) := by
  have e1 : effectiveGasPrice tx * (g.remaining + g.refunded.toNat) < W := by omega
  have e2 : (effectiveGasPrice tx - tx.basefee) * usedGas g < W := by omega
  have e4 : tx.basefee * usedGas g < W := by omega
  refine ⟨upd (upd B tx.caller (B tx.caller + effectiveGasPrice tx * (g.remaining + g.refunded.toNat))) tx.caller
      (B tx.caller + effectiveGasPrice tx * (g.remaining + g.refunded.toNat) + (cL - cU)), ?_, ?_⟩
  · unfold reimburseCaller
    simp only [hdep, Bool.false_eq_true, if_false, operatorFeeRefund_eq _ _ _ _ _ hcL hcU, hg.back,
      wmul_eq _ _ e1, upd_same]
    rw [satAdd_eq _ _ (by omega), satAdd_eq _ _ (by omega)]
  · unfold rewardBeneficiary credited
    simp only [hdep, Bool.false_eq_true, if_false, hlon, if_true, henv, hl1, hcU, satSub_eq, wmul_eq _ _ e2,
      wmul_eq _ _ e4, upd_same, upd_other _ _ _ _ hd.c_cb.symm, upd_other _ _ _ _ hd.c_l1.symm,
      upd_other _ _ _ _ hd.c_bv.symm, upd_other _ _ _ _ hd.c_op.symm, upd_other _ _ _ _ hd.cb_l1.symm,
      upd_other _ _ _ _ hd.cb_bv.symm, upd_other _ _ _ _ hd.cb_op.symm, upd_other _ _ _ _ l1_ne_bv.symm,
      upd_other _ _ _ _ l1_ne_op.symm, upd_other _ _ _ _ bv_ne_op.symm]
    rw [satAdd_eq _ _ f2, wadd_eq _ _ f3, wadd_eq _ _ f4, wadd_eq _ _ f5]


theorem credited_caller (tx : Tx) (B : Nat → Nat) (back r used l1 cU : Nat) (hd : FiveDistinct tx) :
    credited tx B back r used l1 cU tx.caller = B tx.caller + effectiveGasPrice tx * back + r := by
  unfold credited
  simp only [upd_same, upd_other _ _ _ _ hd.c_cb, upd_other _ _ _ _ hd.c_l1, upd_other _ _ _ _ hd.c_bv,
    upd_other _ _ _ _ hd.c_op]

theorem credited_coinbase (tx : Tx) (B : Nat → Nat) (back r used l1 cU : Nat) (hd : FiveDistinct tx) :
    credited tx B back r used l1 cU tx.coinbase =
      B tx.coinbase + (effectiveGasPrice tx - tx.basefee) * used := by
  unfold credited
  simp only [upd_same, upd_other _ _ _ _ hd.c_cb.symm, upd_other _ _ _ _ hd.cb_l1, upd_other _ _ _ _ hd.cb_bv,
    upd_other _ _ _ _ hd.cb_op]

theorem credited_l1 (tx : Tx) (B : Nat → Nat) (back r used l1 cU : Nat) (hd : FiveDistinct tx) :
    credited tx B back r used l1 cU L1_FEE_RECIPIENT = B L1_FEE_RECIPIENT + l1 := by
  unfold credited
  simp only [upd_same, upd_other _ _ _ _ hd.c_l1.symm, upd_other _ _ _ _ hd.cb_l1.symm,
    upd_other _ _ _ _ l1_ne_bv, upd_other _ _ _ _ l1_ne_op]

theorem credited_bv (tx : Tx) (B : Nat → Nat) (back r used l1 cU : Nat) (hd : FiveDistinct tx) :
    credited tx B back r used l1 cU BASE_FEE_RECIPIENT = B BASE_FEE_RECIPIENT + tx.basefee * used := by
  unfold credited
  simp only [upd_same, upd_other _ _ _ _ hd.c_bv.symm, upd_other _ _ _ _ hd.cb_bv.symm,
    upd_other _ _ _ _ l1_ne_bv.symm, upd_other _ _ _ _ bv_ne_op]

theorem credited_op (tx : Tx) (B : Nat → Nat) (back r used l1 cU : Nat) (hd : FiveDistinct tx) :
    credited tx B back r used l1 cU OPERATOR_FEE_RECIPIENT = B OPERATOR_FEE_RECIPIENT + cU := by
  unfold credited
  simp only [upd_same, upd_other _ _ _ _ hd.c_op.symm, upd_other _ _ _ _ hd.cb_op.symm,
    upd_other _ _ _ _ l1_ne_op.symm, upd_other _ _ _ _ bv_ne_op.symm]

theorem credited_other (tx : Tx) (B : Nat → Nat) (back r used l1 cU x : Nat)
    (h1 : x ≠ tx.caller) (h2 : x ≠ tx.coinbase) (h3 : x ≠ L1_FEE_RECIPIENT) (h4 : x ≠ BASE_FEE_RECIPIENT)
    (h5 : x ≠ OPERATOR_FEE_RECIPIENT) : credited tx B back r used l1 cU x = B x := by
  unfold credited
  simp only [upd_other _ _ _ _ h1, upd_other _ _ _ _ h2, upd_other _ _ _ _ h3, upd_other _ _ _ _ h4,
    upd_other _ _ _ _ h5]

theorem output_regular (tx : Tx) (pre st : St) (cls : Cls) (g : Gas) (hdep : tx.isDeposit = false) :
    output tx pre st cls g =
      .done (Revm.Spec.OpFees.kindOf cls) (usedGas g) (if cls = .ok then i64AsU64 g.refunded else 0) st := by
  unfold output usedGas
  cases cls <;> simp [hdep, Revm.Spec.OpFees.kindOf]

/-- `validate_env` passed: the effective gas price covers the base fee -/
theorem basefee_le_of_validateEnv (tx : Tx) (hdep : tx.isDeposit = false) (h : validateEnv tx = none) :
    tx.basefee ≤ effectiveGasPrice tx := by
  unfold validateEnv at h
  simp only [hdep, Bool.false_eq_true, if_false] at h
  by_cases h1 : (tx.isSystem.getD false && enabled tx.spec REGOLITH) = true
  · simp [h1] at h
  · simp only [h1, if_false] at h
    by_cases h2 : prioTooHigh tx = true
    · simp [h2] at h
    · simp only [h2, if_false] at h
      by_cases h3 : effectiveGasPrice tx < tx.basefee
      · simp [h3] at h
      · omega

/-- everything after validation, for a validated regular transaction whose credits fit: the outcome is
`done` and the final balances are the frame's balances plus the reimbursement, the operator fee refund and
the four credits -/
theorem runTx_regular (tx : Tx) (pre : St) (info : L1Info) (env : List Nat) (l1 cL : Nat)
    (exec : St → St) (fr : Frame)
    (hdep : tx.isDeposit = false) (hlon : enabled tx.spec LONDON = true)
    (hv : Validated tx pre info env l1 cL)
    (hmint : pre.bal tx.caller + tx.mint.getD 0 < W) (hdf : dataFee' tx ≤ maxData tx)
    (hl : tx.gasLimit < U64) (hr : fr.remaining ≤ tx.gasLimit) (hd : FiveDistinct tx)
    (cU : Nat) (hcU : operatorFeeCharge info (usedGas (finalGas tx fr)) tx.spec = some cU)
    (f1 : (exec (deducted tx pre l1 cL)).bal tx.caller + effectiveGasPrice tx *
            ((finalGas tx fr).remaining + (finalGas tx fr).refunded.toNat) + (cL - cU) < W)
    (f2 : (exec (deducted tx pre l1 cL)).bal tx.coinbase +
            (effectiveGasPrice tx - tx.basefee) * usedGas (finalGas tx fr) < W)
    (f3 : (exec (deducted tx pre l1 cL)).bal L1_FEE_RECIPIENT + l1 < W)
    (f4 : (exec (deducted tx pre l1 cL)).bal BASE_FEE_RECIPIENT + tx.basefee * usedGas (finalGas tx fr) < W)
    (f5 : (exec (deducted tx pre l1 cL)).bal OPERATOR_FEE_RECIPIENT + cU < W) :
    runTx tx pre (some info) exec fr =
      .done (Revm.Spec.OpFees.kindOf fr.cls) (usedGas (finalGas tx fr))
        (if fr.cls = .ok then i64AsU64 (finalGas tx fr).refunded else 0)
        { exec (deducted tx pre l1 cL) with
          bal := credited tx (exec (deducted tx pre l1 cL)).bal
                  ((finalGas tx fr).remaining + (finalGas tx fr).refunded.toNat) (cL - cU)
                  (usedGas (finalGas tx fr)) l1 cU } := by
  obtain ⟨hg, hgl⟩ := finalGas_good tx fr hl hr
  have hcL : operatorFeeCharge info (finalGas tx fr).limit tx.spec = some cL := by rw [hgl]; exact hv.charge_eq
  obtain ⟨bal1, hre, hrw⟩ := post_regular tx (exec (deducted tx pre l1 cL)).bal info env l1 cL cU (finalGas tx fr)
    hdep hlon hv.env_eq hv.l1_eq hcL hcU hg hd f1 f2 f3 f4 f5
  unfold runTx
  simp only [deductCaller_regular tx pre info env l1 cL hdep hv hmint hdf, hre, hrw,
    output_regular _ _ _ _ _ hdep]


/-- the first frame leaves the four fee accounts alone and does not pay the sender -/
structure FrameQuiet (tx : Tx) (exec : St → St) : Prop where
  cb : ∀ st, (exec st).bal tx.coinbase = st.bal tx.coinbase
  l1 : ∀ st, (exec st).bal L1_FEE_RECIPIENT = st.bal L1_FEE_RECIPIENT
  bv : ∀ st, (exec st).bal BASE_FEE_RECIPIENT = st.bal BASE_FEE_RECIPIENT
  op : ∀ st, (exec st).bal OPERATOR_FEE_RECIPIENT = st.bal OPERATOR_FEE_RECIPIENT
  sender : ∀ st, (exec st).bal tx.caller ≤ st.bal tx.caller

theorem deducted_caller (tx : Tx) (pre : St) (l1 cL : Nat) :
    (deducted tx pre l1 cL).bal tx.caller =
      pre.bal tx.caller + tx.mint.getD 0 - (tx.gasLimit * effectiveGasPrice tx + dataFee' tx) - l1 - cL := by
  unfold deducted; simp only [upd_same]

theorem deducted_other (tx : Tx) (pre : St) (l1 cL x : Nat) (h : x ≠ tx.caller) :
    (deducted tx pre l1 cL).bal x = pre.bal x := by
  unfold deducted; simp only [upd_other _ _ _ _ h]

/-- The conservation identity of a validated regular transaction (all gas results, prices, L1 parameters,
forks from London on). -/
theorem conservation_core (tx : Tx) (pre : St) (info : L1Info) (env : List Nat) (l1 cL : Nat)
    (exec : St → St) (fr : Frame)
    (hdep : tx.isDeposit = false) (hlon : enabled tx.spec LONDON = true)
    (hv : Validated tx pre info env l1 cL) (hbf : tx.basefee ≤ effectiveGasPrice tx)
    (hdf : dataFee' tx ≤ maxData tx)
    (hl : tx.gasLimit < U64) (hr : fr.remaining ≤ tx.gasLimit) (hd : FiveDistinct tx)
    (hq : FrameQuiet tx exec)
    (hsup : pre.bal tx.caller + tx.mint.getD 0 + pre.bal tx.coinbase + pre.bal L1_FEE_RECIPIENT
              + pre.bal BASE_FEE_RECIPIENT + pre.bal OPERATOR_FEE_RECIPIENT < W) :
    ∃ cU kind used refunded st',
      operatorFeeCharge info (usedGas (finalGas tx fr)) tx.spec = some cU ∧
      runTx tx pre (some info) exec fr = .done kind used refunded st' ∧
      used = usedGas (finalGas tx fr) ∧
      -- the four credits
      st'.bal tx.coinbase = pre.bal tx.coinbase + (effectiveGasPrice tx - tx.basefee) * used ∧
      st'.bal BASE_FEE_RECIPIENT = pre.bal BASE_FEE_RECIPIENT + tx.basefee * used ∧
      st'.bal L1_FEE_RECIPIENT = pre.bal L1_FEE_RECIPIENT + l1 ∧
      st'.bal OPERATOR_FEE_RECIPIENT = pre.bal OPERATOR_FEE_RECIPIENT + cU ∧
      -- the sender: debit (net of a mint) = value moved by the frame + the four credits + blob fee
      (pre.bal tx.caller + tx.mint.getD 0 : Int) - st'.bal tx.caller =
        ((deducted tx pre l1 cL).bal tx.caller : Int) - ((exec (deducted tx pre l1 cL)).bal tx.caller : Nat)
        + (((effectiveGasPrice tx - tx.basefee) * used + tx.basefee * used + l1 + cU + dataFee' tx : Nat) : Int) := by
  obtain ⟨hg, hgl⟩ := finalGas_good tx fr hl hr
  generalize hgdef : finalGas tx fr = g at hg hgl ⊢
  obtain ⟨cU, hcU⟩ := operatorFeeCharge_total info tx.gasLimit (usedGas g) tx.spec cL hv.charge_eq
  have hsplit := hg.split
  rw [hgl] at hsplit
  have hule : usedGas g ≤ tx.gasLimit := by omega
  have hcUle : cU ≤ cL := operatorFeeCharge_mono info _ _ tx.spec cU cL hule hcU hv.charge_eq
  -- products
  have hegp := egp_le tx
  have hA : tx.gasLimit * effectiveGasPrice tx =
      effectiveGasPrice tx * usedGas g + effectiveGasPrice tx * (g.remaining + g.refunded.toNat) := by
    rw [← Nat.mul_add, ← hsplit, Nat.mul_comm]
  have hB : effectiveGasPrice tx * usedGas g =
      (effectiveGasPrice tx - tx.basefee) * usedGas g + tx.basefee * usedGas g := by
    rw [← Nat.add_mul, Nat.sub_add_cancel hbf]
  have hC : tx.gasLimit * effectiveGasPrice tx ≤ tx.gasLimit * tx.gasPrice := Nat.mul_le_mul_left _ hegp
  have hb := hv.bal
  -- balances the frame leaves
  have hBc := hq.sender (deducted tx pre l1 cL)
  have hBcb : (exec (deducted tx pre l1 cL)).bal tx.coinbase = pre.bal tx.coinbase := by
    rw [hq.cb, deducted_other _ _ _ _ _ hd.c_cb.symm]
  have hBl1 : (exec (deducted tx pre l1 cL)).bal L1_FEE_RECIPIENT = pre.bal L1_FEE_RECIPIENT := by
    rw [hq.l1, deducted_other _ _ _ _ _ hd.c_l1.symm]
  have hBbv : (exec (deducted tx pre l1 cL)).bal BASE_FEE_RECIPIENT = pre.bal BASE_FEE_RECIPIENT := by
    rw [hq.bv, deducted_other _ _ _ _ _ hd.c_bv.symm]
  have hBop : (exec (deducted tx pre l1 cL)).bal OPERATOR_FEE_RECIPIENT = pre.bal OPERATOR_FEE_RECIPIENT := by
    rw [hq.op, deducted_other _ _ _ _ _ hd.c_op.symm]
  have hdc := deducted_caller tx pre l1 cL
  have hmint : pre.bal tx.caller + tx.mint.getD 0 < W := by omega
  have hrun := runTx_regular tx pre info env l1 cL exec fr hdep hlon hv hmint hdf hl hr hd cU
    (by rw [hgdef]; exact hcU)
    (by rw [hgdef]; generalize effectiveGasPrice tx * (g.remaining + g.refunded.toNat) = p1 at *
        generalize effectiveGasPrice tx * usedGas g = p2 at *
        generalize tx.gasLimit * effectiveGasPrice tx = p3 at *
        generalize tx.gasLimit * tx.gasPrice = p4 at *
        omega)
    (by rw [hgdef, hBcb]
        generalize (effectiveGasPrice tx - tx.basefee) * usedGas g = q1 at *
        generalize tx.basefee * usedGas g = q2 at *
        generalize effectiveGasPrice tx * (g.remaining + g.refunded.toNat) = p1 at *
        generalize effectiveGasPrice tx * usedGas g = p2 at *
        generalize tx.gasLimit * effectiveGasPrice tx = p3 at *
        generalize tx.gasLimit * tx.gasPrice = p4 at *
        omega)
    (by rw [hBl1]; generalize tx.gasLimit * tx.gasPrice = p4 at *; omega)
    (by rw [hgdef, hBbv]
        generalize (effectiveGasPrice tx - tx.basefee) * usedGas g = q1 at *
        generalize tx.basefee * usedGas g = q2 at *
        generalize effectiveGasPrice tx * (g.remaining + g.refunded.toNat) = p1 at *
        generalize effectiveGasPrice tx * usedGas g = p2 at *
        generalize tx.gasLimit * effectiveGasPrice tx = p3 at *
        generalize tx.gasLimit * tx.gasPrice = p4 at *
        omega)
    (by rw [hBop]; generalize tx.gasLimit * tx.gasPrice = p4 at *; omega)
  rw [hgdef] at hrun
  refine ⟨cU, _, _, _, _, hcU, hrun, rfl, ?_, ?_, ?_, ?_, ?_⟩
  · exact (credited_coinbase tx (exec (deducted tx pre l1 cL)).bal (g.remaining + g.refunded.toNat) (cL - cU) (usedGas g) l1 cU hd).trans (by rw [hBcb])
  · exact (credited_bv tx (exec (deducted tx pre l1 cL)).bal (g.remaining + g.refunded.toNat) (cL - cU) (usedGas g) l1 cU hd).trans (by rw [hBbv])
  · exact (credited_l1 tx (exec (deducted tx pre l1 cL)).bal (g.remaining + g.refunded.toNat) (cL - cU) (usedGas g) l1 cU hd).trans (by rw [hBl1])
  · exact (credited_op tx (exec (deducted tx pre l1 cL)).bal (g.remaining + g.refunded.toNat) (cL - cU) (usedGas g) l1 cU hd).trans (by rw [hBop])
  · have hcc := credited_caller tx (exec (deducted tx pre l1 cL)).bal (g.remaining + g.refunded.toNat) (cL - cU)
      (usedGas g) l1 cU hd
    show (_ : Int) - ((credited tx (exec (deducted tx pre l1 cL)).bal (g.remaining + g.refunded.toNat) (cL - cU)
      (usedGas g) l1 cU tx.caller : Nat) : Int) = _
    rw [hcc, hdc]
    rw [hdc] at hBc
    generalize (exec (deducted tx pre l1 cL)).bal tx.caller = Bc at *
    generalize (effectiveGasPrice tx - tx.basefee) * usedGas g = q1 at *
    generalize tx.basefee * usedGas g = q2 at *
    generalize effectiveGasPrice tx * (g.remaining + g.refunded.toNat) = p1 at *
    generalize effectiveGasPrice tx * usedGas g = p2 at *
    generalize tx.gasLimit * effectiveGasPrice tx = p3 at *
    generalize tx.gasLimit * tx.gasPrice = p4 at *
    omega


/-! ### deposits -/

/-- the state a deposit hands to its first frame when its gas price is 0: the mint and (for calls) the nonce
bump, nothing else -/
def minted (tx : Tx) (pre : St) : St :=
  { bal := upd pre.bal tx.caller (pre.bal tx.caller + tx.mint.getD 0),
    nonce := if tx.isCreate then pre.nonce else U64ops.saturatingAdd pre.nonce 1 }

theorem upd_self (f : Nat → Nat) (a : Nat) : upd f a (f a) = f := by
  funext x; unfold upd; by_cases h : x = a <;> simp [h]

theorem deductCaller_deposit (tx : Tx) (pre : St) (oi : Option L1Info)
    (hdep : tx.isDeposit = true) (hegp : effectiveGasPrice tx = 0) (hdf : dataFee' tx = 0)
    (hmint : pre.bal tx.caller + tx.mint.getD 0 < W) :
    deductCaller tx pre oi = .ok (minted tx pre) oi := by
  have hW := W_val
  have hfit : tx.gasLimit * effectiveGasPrice tx + dataFee' tx < W := by rw [hegp, hdf]; omega
  unfold deductCaller minted
  simp only [mint_step _ _ hmint, deductInner_eq _ _ _ hfit, hdep, if_true, hegp, hdf, Nat.mul_zero, Nat.add_zero,
    Nat.sub_zero]

/-- a deposit with gas price 0: the handler's whole effect on the balances is the mint -/
theorem runTx_deposit (tx : Tx) (pre : St) (oi : Option L1Info) (exec : St → St) (fr : Frame)
    (hdep : tx.isDeposit = true) (hegp : effectiveGasPrice tx = 0) (hdf : dataFee' tx = 0)
    (hmint : pre.bal tx.caller + tx.mint.getD 0 < W)
    (hx : (exec (minted tx pre)).bal tx.caller < W) :
    runTx tx pre oi exec fr = output tx pre (exec (minted tx pre)) fr.cls (finalGas tx fr) := by
  unfold runTx
  simp only [deductCaller_deposit tx pre oi hdep hegp hdf hmint]
  unfold reimburseCaller rewardBeneficiary
  have h0 : wmul 0 (U64ops.wadd (finalGas tx fr).remaining (i64AsU64 (finalGas tx fr).refunded)) = 0 := by
    unfold wmul; simp
  simp only [hdep, if_true, hegp, h0, satAdd_eq _ _ (show (exec (minted tx pre)).bal tx.caller + 0 < W from hx),
    Nat.add_zero, upd_self]

theorem failedDeposit_eq (tx : Tx) (pre : St) (hreg : enabled tx.spec REGOLITH = true)
    (hmint : pre.bal tx.caller + tx.mint.getD 0 < W) (hn : pre.nonce + 1 < U64) :
    failedDeposit tx pre =
      .done .failedDeposit tx.gasLimit 0
        { bal := upd pre.bal tx.caller (pre.bal tx.caller + tx.mint.getD 0), nonce := pre.nonce + 1 } := by
  unfold failedDeposit U64ops.saturatingAdd
  simp only [hreg, Bool.true_or, if_true, satAdd_eq _ _ hmint, hn]


/-! ### the frames the harness runs -/

theorem execSimple_cases (tx : Tx) (st : St) (fr : Frame) :
    (execSimple tx st fr).bal = st.bal ∨
    (tx.value ≤ st.bal tx.caller ∧ fr.cls = .ok ∧
      (execSimple tx st fr).bal =
        upd (upd st.bal tx.caller (st.bal tx.caller - tx.value)) tx.target
          (upd st.bal tx.caller (st.bal tx.caller - tx.value) tx.target + tx.value)) := by
  unfold execSimple
  simp only []
  (repeat' split) <;> simp_all

theorem execSimple_quiet (tx : Tx) (fr : Frame) (h0 : tx.target ≠ tx.caller)
    (h1 : tx.coinbase ≠ tx.target) (h2 : L1_FEE_RECIPIENT ≠ tx.target) (h3 : BASE_FEE_RECIPIENT ≠ tx.target)
    (h4 : OPERATOR_FEE_RECIPIENT ≠ tx.target) (hd : FiveDistinct tx) :
    FrameQuiet tx (fun st => execSimple tx st fr) := by
  refine ⟨?_, ?_, ?_, ?_, ?_⟩ <;> intro st <;> rcases execSimple_cases tx st fr with h | ⟨_, _, h⟩ <;>
    simp only [h]
  · rw [upd_other _ _ _ _ h1, upd_other _ _ _ _ hd.c_cb.symm]
  · rw [upd_other _ _ _ _ h2, upd_other _ _ _ _ hd.c_l1.symm]
  · rw [upd_other _ _ _ _ h3, upd_other _ _ _ _ hd.c_bv.symm]
  · rw [upd_other _ _ _ _ h4, upd_other _ _ _ _ hd.c_op.symm]
  · exact Nat.le_refl _
  · rw [upd_other _ _ _ _ h0.symm, upd_same]; omega

theorem transactWith_deposit (tx : Tx) (s : Slots) (pre : St) (exec : St → St) (fr : Frame)
    (hdep : tx.isDeposit = true) (hvg : validateInitialGas tx = none)
    (hegp : effectiveGasPrice tx = 0) (hdf : dataFee' tx = 0)
    (hmint : pre.bal tx.caller + tx.mint.getD 0 < W)
    (hx : (exec (minted tx pre)).bal tx.caller < W) :
    transactWith tx s pre exec fr = output tx pre (exec (minted tx pre)) fr.cls (finalGas tx fr) := by
  unfold transactWith validateEnv validateTxAgainstState
  simp only [hdep, if_true, hvg]
  exact runTx_deposit tx pre none exec fr hdep hegp hdf hmint hx

/-- a deposit that does not pass `validate_initial_tx_gas` ends as a failed deposit (commit 25ebe790) -/
theorem transactWith_deposit_preverify (tx : Tx) (s : Slots) (pre : St) (exec : St → St) (fr : Frame) (e : Err)
    (hdep : tx.isDeposit = true) (hvg : validateInitialGas tx = some e) :
    transactWith tx s pre exec fr = failedDeposit tx pre := by
  unfold transactWith validateEnv endErr
  simp only [hdep, if_true, hvg]

/-- before that commit the error was returned and nothing was persisted -/
theorem transactWithOld_deposit_preverify (tx : Tx) (s : Slots) (pre : St) (exec : St → St) (fr : Frame) (e : Err)
    (hdep : tx.isDeposit = true) (hvg : validateInitialGas tx = some e) :
    transactWithOld tx s pre exec fr = .err e := by
  unfold transactWithOld validateEnv
  simp only [hdep, if_true, hvg]

theorem failedDeposit_any (tx : Tx) (pre : St)
    (hmint : pre.bal tx.caller + tx.mint.getD 0 < W) (hn : pre.nonce + 1 < U64) :
    ∃ used, failedDeposit tx pre =
      .done .failedDeposit used 0
        { bal := upd pre.bal tx.caller (pre.bal tx.caller + tx.mint.getD 0), nonce := pre.nonce + 1 } ∧
      (enabled tx.spec REGOLITH = true → used = tx.gasLimit) := by
  unfold failedDeposit U64ops.saturatingAdd
  simp only [satAdd_eq _ _ hmint, hn, if_true]
  refine ⟨_, rfl, ?_⟩
  intro h; simp only [h, Bool.true_or, if_true]

theorem execSimple_fail (tx : Tx) (st : St) (fr : Frame) (h : fr.cls ≠ .ok) :
    (execSimple tx st fr).bal = st.bal := by
  rcases execSimple_cases tx st fr with h1 | ⟨_, h2, _⟩
  · exact h1
  · exact absurd h2 h

theorem execSimple_nonce (tx : Tx) (st : St) (fr : Frame) :
    (execSimple tx st fr).nonce =
      if tx.isCreate = true ∧ ¬ st.bal tx.caller < tx.value ∧ ¬ st.nonce + 1 ≥ U64 then st.nonce + 1 else st.nonce := by
  unfold execSimple
  simp only []
  (repeat' split) <;> simp_all

theorem opCharge_fetched (sc co gas : Nat) (h1 : sc < 2 ^ 32) (h2 : co < 2 ^ 64) (h3 : gas < 2 ^ 64) :
    opCharge sc co gas = gas * sc / 1000000 + co := by
  have hW := W_val
  have hm : gas * sc < 2 ^ 64 * 2 ^ 32 := Nat.mul_lt_mul'' h3 h1
  have hd : gas * sc / 1000000 ≤ gas * sc := Nat.div_le_self _ _
  apply opCharge_exact
  · generalize gas * sc = p at *; omega
  · generalize gas * sc / 1000000 = q at *; generalize gas * sc = p at *; omega

theorem beSlice_lt (w frm to : Nat) : beSlice w frm to < 2 ^ (8 * (to - frm)) := by
  unfold beSlice; exact Nat.mod_lt _ (Nat.two_pow_pos _)

theorem tryFetch_isthmus (s : Slots) (spec : Nat) (h : enabled spec ISTHMUS = true) :
    (tryFetch s spec).operatorFeeScalar = some (beSlice s.s8 20 24) ∧
    (tryFetch s spec).operatorFeeConstant = some (beSlice s.s8 24 32) := by
  have he : enabled spec ECOTONE = true := by
    unfold enabled ISTHMUS at h; unfold enabled ECOTONE; simp at h ⊢; omega
  unfold tryFetch
  simp [he, h]

theorem execSimple_ok (tx : Tx) (st : St) (fr : Frame) (hok : fr.cls = .ok)
    (hv : tx.value ≤ st.bal tx.caller) (hn : st.nonce + 1 < U64) (ht : tx.target ≠ tx.caller)
    (hroom : st.bal tx.target + tx.value < W) :
    (execSimple tx st fr).bal tx.caller = st.bal tx.caller - tx.value := by
  have h1 : upd st.bal tx.caller (st.bal tx.caller - tx.value) tx.target = st.bal tx.target :=
    upd_other _ _ _ _ ht
  have h2 : ¬ st.bal tx.caller < tx.value := by omega
  have h3 : ¬ st.nonce + 1 ≥ U64 := by omega
  unfold execSimple
  by_cases hc : tx.isCreate = true
  · simp only [hc, if_true, h2, h3, if_false, hok, hv, and_self, h1, hroom, upd_other _ _ _ _ ht.symm, upd_same]
  · simp only [hc, if_false, hok, hv, and_self, if_true, h1, hroom, upd_other _ _ _ _ ht.symm, upd_same]
    simp [hc, hok, hv, h1, hroom, upd_other _ _ _ _ ht.symm, upd_same]

/-- the literal sentence for the frames of the harness; see `Props.C33.op_fee_conservation_exact` -/
theorem conservation_exact_core (tx : Tx) (s : Slots) (pre : St) (fr : Frame) (oi : Option L1Info)
    (hdep : tx.isDeposit = false) (hlon : enabled tx.spec LONDON = true)
    (hve : validateEnv tx = none) (hvg : validateInitialGas tx = none)
    (hvs : validateTxAgainstState tx s pre = .ok oi)
    (hmint : tx.mint = none) (hblob : dataFee' tx = 0)
    (hl : tx.gasLimit < U64) (hr : fr.remaining ≤ tx.gasLimit) (hn : pre.nonce + 1 < U64) (hd : FiveDistinct tx)
    (h0 : tx.target ≠ tx.caller) (h1 : tx.coinbase ≠ tx.target) (h2 : L1_FEE_RECIPIENT ≠ tx.target)
    (h3 : BASE_FEE_RECIPIENT ≠ tx.target) (h4 : OPERATOR_FEE_RECIPIENT ≠ tx.target)
    (hsup : pre.bal tx.caller + pre.bal tx.coinbase + pre.bal L1_FEE_RECIPIENT
              + pre.bal BASE_FEE_RECIPIENT + pre.bal OPERATOR_FEE_RECIPIENT < W)
    (htgt : pre.bal tx.target + tx.value < W) :
    ∃ kind used refunded st',
      transact tx s pre fr = .done kind used refunded st' ∧
      pre.bal tx.caller =
        st'.bal tx.caller + (if fr.cls = .ok then tx.value else 0)
        + (st'.bal tx.coinbase - pre.bal tx.coinbase) + (st'.bal BASE_FEE_RECIPIENT - pre.bal BASE_FEE_RECIPIENT)
        + (st'.bal L1_FEE_RECIPIENT - pre.bal L1_FEE_RECIPIENT)
        + (st'.bal OPERATOR_FEE_RECIPIENT - pre.bal OPERATOR_FEE_RECIPIENT) ∧
      pre.bal tx.coinbase ≤ st'.bal tx.coinbase ∧ pre.bal BASE_FEE_RECIPIENT ≤ st'.bal BASE_FEE_RECIPIENT ∧
      pre.bal L1_FEE_RECIPIENT ≤ st'.bal L1_FEE_RECIPIENT ∧
      pre.bal OPERATOR_FEE_RECIPIENT ≤ st'.bal OPERATOR_FEE_RECIPIENT := by
  have hW : pre.bal tx.caller < W := by omega
  obtain ⟨info, env, l1, cL, hoi, hv, hl1⟩ := validated_of_ok tx s pre oi hdep hW hvs
  have hbf := basefee_le_of_validateEnv tx hdep hve
  have hq := execSimple_quiet tx fr h0 h1 h2 h3 h4 hd
  have hm0 : tx.mint.getD 0 = 0 := by rw [hmint]; rfl
  have hdf : dataFee' tx ≤ maxData tx := by rw [hblob]; exact Nat.zero_le _
  obtain ⟨cU, kind, used, refunded, st', hcU, hrun, hused, c1, c2, c3, c4, c5⟩ :=
    conservation_core tx pre info env l1 cL (fun st => execSimple tx st fr) fr hdep hlon hv hbf hdf hl hr hd hq
      (by rw [hm0]; omega)
  refine ⟨kind, used, refunded, st', ?_, ?_, ?_, ?_, ?_, ?_⟩
  · unfold transact transactWith
    simp only [hve, hvg, hvs, hoi]
    exact hrun
  · -- value moved by the frame
    have hdc := deducted_caller tx pre l1 cL
    have hb := hv.bal
    have hC : tx.gasLimit * effectiveGasPrice tx ≤ tx.gasLimit * tx.gasPrice :=
      Nat.mul_le_mul_left _ (egp_le tx)
    have hmv : (execSimple tx (deducted tx pre l1 cL) fr).bal tx.caller + (if fr.cls = .ok then tx.value else 0) =
        (deducted tx pre l1 cL).bal tx.caller := by
      by_cases hok : fr.cls = .ok
      · simp only [hok, if_true]
        have hnn : (deducted tx pre l1 cL).nonce + 1 < U64 ∨ True := Or.inr trivial
        have hvle : tx.value ≤ (deducted tx pre l1 cL).bal tx.caller := by
          rw [hdc, hm0, hblob]
          generalize tx.gasLimit * effectiveGasPrice tx = p3 at *
          generalize tx.gasLimit * tx.gasPrice = p4 at *
          omega
        by_cases hcr : tx.isCreate = true
        · have hnon : (deducted tx pre l1 cL).nonce + 1 < U64 := by
            unfold deducted; simp only [hcr, if_true]; exact hn
          rw [execSimple_ok tx _ fr hok hvle hnon h0 (by rw [deducted_other _ _ _ _ _ h0]; exact htgt)]
          omega
        · -- a call: `execSimple` does not look at the nonce
          have hex : (execSimple tx (deducted tx pre l1 cL) fr).bal tx.caller =
              (deducted tx pre l1 cL).bal tx.caller - tx.value := by
            have hroom : (deducted tx pre l1 cL).bal tx.target + tx.value < W := by
              rw [deducted_other _ _ _ _ _ h0]; exact htgt
            have hu : upd (deducted tx pre l1 cL).bal tx.caller ((deducted tx pre l1 cL).bal tx.caller - tx.value) tx.target
                = (deducted tx pre l1 cL).bal tx.target := upd_other _ _ _ _ h0
            unfold execSimple
            simp [hcr, hok, hvle, hu, hroom, upd_other _ _ _ _ h0.symm, upd_same]
          rw [hex]; omega
      · simp only [hok, if_false, Nat.add_zero]
        rw [execSimple_fail tx _ fr hok]
    rw [hm0, hblob] at c5
    rw [c1, c2, c3, c4]
    generalize (effectiveGasPrice tx - tx.basefee) * used = q1 at *
    generalize tx.basefee * used = q2 at *
    generalize (execSimple tx (deducted tx pre l1 cL) fr).bal tx.caller = E at *
    generalize (deducted tx pre l1 cL).bal tx.caller = D at *
    generalize (if fr.cls = .ok then tx.value else 0) = mv at *
    omega
  · rw [c1]; exact Nat.le_add_right _ _
  · rw [c2]; exact Nat.le_add_right _ _
  · rw [c3]; exact Nat.le_add_right _ _
  · rw [c4]; exact Nat.le_add_right _ _

/-! ### histories on one `Evm`: `clear` makes every transaction start from an empty `l1_block_info` -/

theorem validateCtx_none (tx : Tx) (s : Slots) (st : St) :
    validateTxAgainstStateCtx tx s st none = validateTxAgainstState tx s st := by
  unfold validateTxAgainstStateCtx validateTxAgainstState; rfl

theorem transactCtx_none (tx : Tx) (s : Slots) (pre : St) (exec : St → St) (fr : Frame) :
    transactCtx clearCtx tx s pre exec fr none = (transactWith tx s pre exec fr, none) := by
  unfold transactCtx transactWith clearCtx
  rw [validateCtx_none]
  cases validateEnv tx with
  | some e => rfl
  | none =>
    cases validateInitialGas tx with
    | some e => rfl
    | none =>
      cases validateTxAgainstState tx s pre with
      | err e => rfl
      | panic => rfl
      | ok info => rfl

theorem runHistory_fresh (steps : List Step) (st : St) :
    runHistory clearCtx st none steps = runHistoryFresh st steps := by
  induction steps generalizing st with
  | nil => rfl
  | cons p ps ih =>
    unfold runHistory runHistoryFresh
    simp only [transactCtx_none, transact]
    rw [ih]

/-- the database state after a history (every outcome committed) -/
def stateAfter : St → List Step → St
  | st, [] => st
  | st, p :: ps => stateAfter (commit st (transact p.tx p.slots st p.fr)) ps

theorem runHistoryFresh_last (ps : List Step) (p : Step) (st : St) :
    runHistoryFresh st (ps ++ [p]) = runHistoryFresh st ps ++ [transact p.tx p.slots (stateAfter st ps) p.fr] := by
  induction ps generalizing st with
  | nil => rfl
  | cons q qs ih =>
    simp only [List.cons_append, runHistoryFresh, stateAfter, ih]

end Revm.Proofs.OpFees
