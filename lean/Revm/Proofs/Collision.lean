import Revm.Model.Collision
import Revm.Proofs.Db
/-! Proofs for C21 (creation collides with existing code / nonce / storage). -/
set_option linter.unusedSimpArgs false
namespace Revm.Proofs.Collision
open Revm Revm.Model.Db Revm.Model.Collision

/-- the database's `has_storage(a)` says `true` exactly when its data has a non-zero slot at `a` -/
def HsFaithful (db : Db) (a : Addr) : Prop :=
  (db.query (.hasStorage a)).2 = .flag true ↔ ∃ k, db.view.storage a k ≠ 0

/-- an underlying database whose own `has_storage` is implemented properly -/
def HonestBase (b : Base) : Prop := ∀ a, b.hasStorage a = true ↔ ∃ k, b.storage a k ≠ 0

theorem hasStorage_reply (db : Db) (a : Addr) : ∃ f, (db.query (.hasStorage a)).2 = .flag f := by
  induction db with
  | base b => exact ⟨_, rfl⟩
  | empty k => exact ⟨_, rfl⟩
  | cache i c _ => exact ⟨_, rfl⟩
  | state i s _ => exact ⟨false, rfl⟩
  | wrapRef i _ => exact ⟨_, rfl⟩
  | fwd i ih => obtain ⟨f, hf⟩ := ih; exact ⟨f, by simp [Db.query, hf]⟩
  | components i _ => exact ⟨false, rfl⟩

theorem faithful_base (b : Base) (hb : HonestBase b) (a : Addr) : HsFaithful (.base b) a := by
  unfold HsFaithful
  simp only [Db.query, Base.answer, Db.view]
  constructor
  · intro h; exact (hb a).mp (by simpa using h)
  · intro h; simp [(hb a).mpr h]

theorem faithful_wrapRef_base (b : Base) (hb : HonestBase b) (a : Addr) : HsFaithful (.wrapRef (.base b)) a :=
  faithful_base b hb a

theorem faithful_fwd (i : Db) (a : Addr) (hi : HsFaithful i a) : HsFaithful (.fwd i) a := by
  unfold HsFaithful at *
  simpa [Db.query, Db.view] using hi

theorem collision_of_code_or_nonce (db : Db) (a : Addr) (t : Target) (value gasLimit : Nat) (sd : Bool)
    (h : t.codeHash ≠ KECCAK_EMPTY ∨ t.nonce ≠ 0) :
    makeCreateFrame db a t value gasLimit sd = ⟨.collision, t, some gasLimit⟩ := by
  have hc : ∀ hs, collides t hs = true := by
    intro hs; unfold collides; rcases h with h | h <;> simp [h]
  obtain ⟨f, hf⟩ := hasStorage_reply db a
  simp [makeCreateFrame, hf, createAccountCheckpoint, hc]

theorem collision_of_storage (db : Db) (a : Addr) (t : Target) (value gasLimit : Nat) (sd : Bool)
    (hf : HsFaithful db a) (h : ∃ k, db.view.storage a k ≠ 0) :
    makeCreateFrame db a t value gasLimit sd = ⟨.collision, t, some gasLimit⟩ := by
  have := hf.mpr h
  simp [makeCreateFrame, this, createAccountCheckpoint, collides]

theorem collision_iff (t : Target) (hs : Bool) (value gasLimit : Nat) (sd : Bool) :
    (createAccountCheckpoint t hs value gasLimit sd).result = .collision ↔
      (t.codeHash ≠ KECCAK_EMPTY ∨ t.nonce ≠ 0 ∨ hs = true) := by
  unfold createAccountCheckpoint
  by_cases hc : collides t hs = true
  · simp only [hc, if_true, true_iff]
    unfold collides at hc
    simp at hc
    rcases hc with (h | h) | h
    · exact Or.inl h
    · exact Or.inr (Or.inl h)
    · exact Or.inr (Or.inr h)
  · have hn : ¬(t.codeHash ≠ KECCAK_EMPTY ∨ t.nonce ≠ 0 ∨ hs = true) := by
      intro h; apply hc; unfold collides
      rcases h with h | h | h <;> simp [h]
    simp only [hc, if_false]
    by_cases ho : t.balance + value ≥ W <;> simp [ho, hn]

end Revm.Proofs.Collision
