import Revm.Model.Collision
import Revm.Proofs.Db
/-! Proofs for C21 (creation collides with existing code / nonce / storage). -/
set_option linter.unusedSimpArgs false
namespace Revm.Proofs.Collision
open Revm Revm.Model.Db Revm.Model.Collision

/-- the database's `has_storage(a)` says `true` exactly when its data has a non-zero slot at `a` -/
def HsFaithful (db : Db) (a : Addr) : Prop :=
  (db.query (.hasStorage a)).2 = .flag true ↔ ∃ k, db.view.storage a k ≠ 0

/-- an underlying database whose own `has_storage` is implemented properly -/
def HonestBase (b : Base) : Prop := ∀ a, b.hasStorage a = true ↔ ∃ k, b.storage a k ≠ 0

theorem hasStorage_reply (db : Db) (a : Addr) : ∃ f, (db.query (.hasStorage a)).2 = .flag f := by
  induction db with
  | base b => exact ⟨_, rfl⟩
  | empty k => exact ⟨_, rfl⟩
  | cache i c _ => exact ⟨_, rfl⟩
  | state i s _ => exact ⟨false, rfl⟩
  | wrapRef i _ => exact ⟨_, rfl⟩
  | fwd i ih => obtain ⟨f, hf⟩ := ih; exact ⟨f, by simp [Db.query, hf]⟩
  | components i _ => exact ⟨false, rfl⟩

theorem faithful_base (b : Base) (hb : HonestBase b) (a : Addr) : HsFaithful (.base b) a := by
  unfold HsFaithful
  simp only [Db.query, Base.answer, Db.view]
  constructor
  · intro h; exact (hb a).mp (by simpa using h)
  · intro h; simp [(hb a).mpr h]

theorem faithful_wrapRef_base (b : Base) (hb : HonestBase b) (a : Addr) : HsFaithful (.wrapRef (.base b)) a :=
  faithful_base b hb a

theorem faithful_fwd (i : Db) (a : Addr) (hi : HsFaithful i a) : HsFaithful (.fwd i) a := by
  unfold HsFaithful at *
  simpa [Db.query, Db.view] using hi

theorem collision_of_code_or_nonce (db : Db) (a : Addr) (t : Target) (value gasLimit : Nat) (sd : Bool)
    (h : t.codeHash ≠ KECCAK_EMPTY ∨ t.nonce ≠ 0) :
    makeCreateFrame db a t value gasLimit sd = ⟨.collision, t, some gasLimit⟩ := by
  have hc : ∀ hs, collides t hs = true := by
    intro hs; unfold collides; rcases h with h | h <;> simp [h]
  obtain ⟨f, hf⟩ := hasStorage_reply db a
  simp [makeCreateFrame, hf, createAccountCheckpoint, hc]

theorem collision_of_storage (db : Db) (a : Addr) (t : Target) (value gasLimit : Nat) (sd : Bool)
    (hf : HsFaithful db a) (h : ∃ k, db.view.storage a k ≠ 0) :
    makeCreateFrame db a t value gasLimit sd = ⟨.collision, t, some gasLimit⟩ := by
  have := hf.mpr h
  simp [makeCreateFrame, this, createAccountCheckpoint, collides]

theorem collision_iff (t : Target) (hs : Bool) (value gasLimit : Nat) (sd : Bool) :
    (createAccountCheckpoint t hs value gasLimit sd).result = .collision ↔
      (t.codeHash ≠ KECCAK_EMPTY ∨ t.nonce ≠ 0 ∨ hs = true) := by
  unfold createAccountCheckpoint
  by_cases hc : collides t hs = true
  · simp only [hc, if_true, true_iff]
    unfold collides at hc
    simp at hc
    rcases hc with (h | h) | h
    · exact Or.inl h
    · exact Or.inr (Or.inl h)
    · exact Or.inr (Or.inr h)
  · have hn : ¬(t.codeHash ≠ KECCAK_EMPTY ∨ t.nonce ≠ 0 ∨ hs = true) := by
      intro h; apply hc; unfold collides
      rcases h with h | h | h <;> simp [h]
    simp only [hc, if_false]
    by_cases ho : t.balance + value ≥ W <;> simp [ho, hn]

/-! ## the decision does not depend on how the target became warm -/

/-- the `has_storage` answer of a database stack as a Bool -/
def hsOf (db : Db) (a : Addr) : Bool :=
  match (db.query (.hasStorage a)).2 with
  | .flag f => f
  | _ => false

theorem makeCreateFrame_eq (db : Db) (a : Addr) (t : Target) (value gasLimit : Nat) (sd : Bool) :
    makeCreateFrame db a t value gasLimit sd = createAccountCheckpoint t (hsOf db a) value gasLimit sd := by
  obtain ⟨f, hf⟩ := hasStorage_reply db a
  simp [makeCreateFrame, hsOf, hf]

/-- no query (and nothing it caches, at any layer) changes what the stack answers to `has_storage` -/
theorem hs_stable (d : Db) : ∀ (q : Query) (a : Addr),
    ((d.query q).1.query (.hasStorage a)).2 = (d.query (.hasStorage a)).2 := by
  induction d with
  | base b => intro q a; rfl
  | empty k => intro q a; rfl
  | cache i c _ => intro q a; rfl
  | state i s _ => intro q a; rfl
  | wrapRef i _ => intro q a; rfl
  | fwd i ih => intro q a; exact ih q a
  | components i _ =>
    intro q a
    cases q <;> rfl

theorem hsOf_query (d : Db) (q : Query) (a : Addr) : hsOf (d.query q).1 a = hsOf d a := by
  unfold hsOf; rw [hs_stable]

theorem hsOf_preloadKeys (a : Addr) (keys : List Slot) : ∀ (db : Db) (acc : List (Slot × Nat)),
    hsOf (preloadKeys db a keys acc).1 a = hsOf db a := by
  induction keys with
  | nil => intro db acc; rfl
  | cons k ks ih =>
    intro db acc
    unfold preloadKeys
    cases h : lookupSlot acc k with
    | some v => simp only [h]; exact ih db acc
    | none => simp only [h]; rw [ih]; exact hsOf_query db _ a

/-- what the journal entry records of the account info is `db.basic`'s answer, however it got there -/
def infoTarget (db : Db) (a : Addr) : Target := targetOfInfo (infoOfReply (db.query (.basic a)).2)

/-- two targets creation cannot tell apart: same code hash, nonce, balance (flags may differ) -/
def SameInfo (t u : Target) : Prop := t.codeHash = u.codeHash ∧ t.nonce = u.nonce ∧ t.balance = u.balance

theorem loadedTarget_sameInfo (db : Db) (a : Addr) (w : Warmth) : SameInfo (loadedTarget db a w) (infoTarget db a) := by
  cases w <;> exact ⟨rfl, rfl, rfl⟩

theorem hsOf_journalEntry (db : Db) (a : Addr) (w : Warmth) :
    hsOf (loadAccount (journalEntry db a w).1 a (journalEntry db a w).2 false).1 a = hsOf db a := by
  cases w with
  | coldFirstTouch => exact hsOf_query db _ a
  | accessList keys =>
    show hsOf (preloadKeys (db.query (.basic a)).1 a keys []).1 a = hsOf db a
    rw [hsOf_preloadKeys]; exact hsOf_query db _ a
  | opcodeLoad => exact hsOf_query db _ a
  | called => exact hsOf_query db _ a
  | retried =>
    show hsOf ((db.query (.basic a)).1.query (.hasStorage a)).1 a = hsOf db a
    rw [hsOf_query]; exact hsOf_query db _ a
  | revertedCold => exact hsOf_query db _ a

theorem cac_congr (t u : Target) (h : SameInfo t u) (hs : Bool) (value gasLimit : Nat) (sd : Bool) :
    (createAccountCheckpoint t hs value gasLimit sd).result = (createAccountCheckpoint u hs value gasLimit sd).result ∧
    (createAccountCheckpoint t hs value gasLimit sd).gasLost = (createAccountCheckpoint u hs value gasLimit sd).gasLost := by
  obtain ⟨h1, h2, h3⟩ := h
  have hc : collides t hs = collides u hs := by unfold collides; rw [h1, h2]
  unfold createAccountCheckpoint
  rw [hc, h3]
  by_cases hcu : collides u hs = true
  · simp [hcu]
  · by_cases ho : u.balance + value ≥ W <;> simp [hcu, ho]

theorem cac_collision_target (t : Target) (hs : Bool) (value gasLimit : Nat) (sd : Bool)
    (h : (createAccountCheckpoint t hs value gasLimit sd).result = .collision) :
    (createAccountCheckpoint t hs value gasLimit sd).target = t := by
  unfold createAccountCheckpoint at *
  by_cases hc : collides t hs = true
  · simp [hc]
  · by_cases ho : t.balance + value ≥ W <;> simp [hc, ho] at h ⊢

/-- on any journal entry the outcome is `create_account_checkpoint` of the entry's account and the
database's `has_storage`: `cold`, the loaded `slots` and `warm_preloaded_addresses` are never read -/
theorem makeCreateFrameJ_some (db : Db) (a : Addr) (j : JAccount) (preloaded : Bool) (value gasLimit : Nat) (sd : Bool) :
    makeCreateFrameJ db a (some j) preloaded value gasLimit sd =
      createAccountCheckpoint j.target (hsOf db a) value gasLimit sd := by
  simp [makeCreateFrameJ, loadAccount, makeCreateFrame_eq]

theorem makeCreateFrameJ_none (db : Db) (a : Addr) (preloaded : Bool) (value gasLimit : Nat) (sd : Bool) :
    makeCreateFrameJ db a none preloaded value gasLimit sd =
      createAccountCheckpoint (infoTarget db a) (hsOf db a) value gasLimit sd := by
  simp [makeCreateFrameJ, loadAccount, makeCreateFrame_eq, hsOf_query, infoTarget]

theorem makeCreateFrameW_eq (db : Db) (a : Addr) (w : Warmth) (value gasLimit : Nat) (sd : Bool) :
    makeCreateFrameW db a w value gasLimit sd =
      createAccountCheckpoint (loadedTarget db a w) (hsOf db a) value gasLimit sd := by
  unfold makeCreateFrameW makeCreateFrameJ loadedTarget
  simp only [makeCreateFrame_eq]
  rw [hsOf_journalEntry]

/-! ## the `LoadedAsNotExisting` flag, and creations onto an address created earlier in the transaction -/

theorem makeCreateFrameJ_flag (db : Db) (a : Addr) (j : JAccount) (f : Bool) (preloaded : Bool)
    (value gasLimit : Nat) (sd : Bool) :
    makeCreateFrameJ db a (some { j with notExisting := f }) preloaded value gasLimit sd =
      makeCreateFrameJ db a (some j) preloaded value gasLimit sd := by
  rw [makeCreateFrameJ_some, makeCreateFrameJ_some]

theorem cacJ_flag (j : JAccount) (f : Bool) (hs : Bool) (value gasLimit : Nat) (sd : Bool) :
    (createAccountCheckpointJ { j with notExisting := f } hs value gasLimit sd).1 =
      (createAccountCheckpointJ j hs value gasLimit sd).1 ∧
    (createAccountCheckpointJ { j with notExisting := f } hs value gasLimit sd).2.notExisting = f ∧
    (createAccountCheckpointJ j hs value gasLimit sd).2.notExisting = j.notExisting := ⟨rfl, rfl, rfl⟩

/-- a target with a non-zero nonce collides, on any entry -/
theorem cac_nonce (t : Target) (hn : t.nonce ≠ 0) (hs : Bool) (value gasLimit : Nat) (sd : Bool) :
    createAccountCheckpoint t hs value gasLimit sd = ⟨.collision, t, some gasLimit⟩ := by
  have hc : collides t hs = true := by unfold collides; simp [hn]
  simp [createAccountCheckpoint, hc]

theorem cac_hs (t : Target) (value gasLimit : Nat) (sd : Bool) :
    createAccountCheckpoint t true value gasLimit sd = ⟨.collision, t, some gasLimit⟩ := by
  have hc : collides t true = true := by unfold collides; simp
  simp [createAccountCheckpoint, hc]

/-- after a successful creation from Spurious Dragon on, the account has nonce 1 -/
theorem cac_frame_nonce (t : Target) (hs : Bool) (value gasLimit : Nat)
    (h : (createAccountCheckpoint t hs value gasLimit true).result = .frame) :
    (createAccountCheckpoint t hs value gasLimit true).target.nonce = 1 := by
  unfold createAccountCheckpoint at *
  by_cases hc : collides t hs = true
  · simp [hc] at h
  · by_cases ho : t.balance + value ≥ W
    · simp [hc, ho] at h
    · simp [hc, ho]

theorem cac_vacant (t : Target) (h1 : t.codeHash = KECCAK_EMPTY) (h2 : t.nonce = 0) (value gasLimit : Nat) (sd : Bool)
    (hb : t.balance + value < W) :
    (createAccountCheckpoint t false value gasLimit sd).result = .frame := by
  have hc : collides t false = false := by unfold collides; simp [h1, h2]
  have ho : ¬ t.balance + value ≥ W := by omega
  simp [createAccountCheckpoint, hc, ho]

end Revm.Proofs.Collision
