import Revm.Proofs.OpFees
/-! The gas pipeline `last_frame_return → refund → EIP-7623 floor` of the Optimism handler equals the
gas rules of `Spec.OpFees` (C33): spent = limit − gas left (the whole limit after a halt), refund capped at a
fifth of spent for successful transactions, the floor from Prague/Isthmus on, and the Bedrock deposit rules. -/
set_option linter.unusedSimpArgs false
set_option linter.unusedVariables false
namespace Revm.Proofs.OpFees
open Revm Revm.U256 Revm.Model.Gas Revm.Model.OpFees

theorem recordRefund_zero (g : Gas) (h0 : I64MIN ≤ g.refunded) (h1 : g.refunded ≤ I64MAX) :
    recordRefund g 0 = g := by
  unfold recordRefund
  rw [Revm.Proofs.Gas.i64WrapAdd_exact _ _ (by omega) (by omega)]
  simp

/-- the London refund cap on a meter with a non-negative counter -/
theorem cap_eq (g : Gas) (hl : g.limit < U64) (hr : g.remaining ≤ g.limit)
    (h0 : 0 ≤ g.refunded) (h1 : g.refunded ≤ I64MAX) :
    (setFinalRefund g true).limit = g.limit ∧ (setFinalRefund g true).remaining = g.remaining ∧
    (setFinalRefund g true).refunded =
      ((min g.refunded.toNat ((g.limit - g.remaining) / 5) : Nat) : Int) := by
  have hsp : spent g = g.limit - g.remaining := Revm.Proofs.Gas.spent_eq g hl hr
  have hfin := Revm.Proofs.Gas.setFinalRefund_nonneg g true h0 h1
  simp only [if_true] at hfin
  rw [hsp] at hfin
  refine ⟨rfl, rfl, ?_⟩
  rw [hfin]
  generalize (g.limit - g.remaining) / 5 = q
  omega

/-- the EIP-7623 step on a meter whose counter is within its spent gas -/
theorem floor_eq (g : Gas) (floor : Nat) (hl : g.limit < U64) (hr : g.remaining ≤ g.limit)
    (h0 : 0 ≤ g.refunded) (h1 : g.refunded ≤ I64MAX) :
    (floorStep g floor).limit = g.limit ∧
    (floorStep g floor).remaining =
      (if g.limit - g.remaining - g.refunded.toNat < floor then g.limit - floor else g.remaining) ∧
    (floorStep g floor).refunded =
      (if g.limit - g.remaining - g.refunded.toNat < floor then 0 else g.refunded) := by
  have hsp : spent g = g.limit - g.remaining := Revm.Proofs.Gas.spent_eq g hl hr
  have hssr : spentSubRefunded g = g.limit - g.remaining - g.refunded.toNat := by
    rw [Revm.Proofs.Gas.spentSubRefunded_nonneg _ h0 h1, hsp]
  unfold floorStep
  rw [hssr]
  by_cases hc : g.limit - g.remaining - g.refunded.toNat < floor
  · simp only [hc, if_true]
    first | exact ⟨rfl, rfl, rfl⟩ | simp [setRefund, setSpent, U64ops.saturatingSub]
  · simp only [hc, if_false]
    first | exact ⟨rfl, rfl, rfl⟩ | simp

open Revm.Spec.OpFees (gasSpent gasRefund usedRefunded usedRefundedBedrockDeposit txUsedRefunded floorGas)

theorem i64WrapAdd_zero_left (f : Int) (h0 : I64MIN ≤ f) (h1 : f ≤ I64MAX) : i64WrapAdd 0 f = f := by
  rw [Revm.Proofs.Gas.i64WrapAdd_exact _ _ (by omega) (by omega)]; simp

/-- `last_frame_return` of a regular transaction or a deposit from Regolith on -/
theorem lastFrameReturn_normal (tx : Tx) (fr : Frame) (hl : tx.gasLimit < U64) (hr : fr.remaining ≤ tx.gasLimit)
    (h0 : 0 ≤ fr.refunded) (h1 : fr.refunded ≤ I64MAX)
    (hb : (!tx.isDeposit || enabled tx.spec REGOLITH) = true) :
    lastFrameReturn tx fr =
      { limit := tx.gasLimit,
        remaining := (match fr.cls with | .halt => 0 | _ => fr.remaining),
        refunded := (match fr.cls with | .ok => fr.refunded | _ => 0) } := by
  have h2 : U64ops.wadd 0 fr.remaining = fr.remaining := wadd_zero_left _ (by omega)
  have h3 : i64WrapAdd 0 fr.refunded = fr.refunded := i64WrapAdd_zero_left _ (by unfold I64MIN; omega) h1
  unfold lastFrameReturn
  cases fr.cls <;> simp only [hb, if_true, eraseCost, recordRefund, newSpent, h2, h3]

/-- `last_frame_return` of a Bedrock deposit -/
theorem lastFrameReturn_bedrock (tx : Tx) (fr : Frame) (hl : tx.gasLimit < U64)
    (hd : tx.isDeposit = true) (hreg : enabled tx.spec REGOLITH = false) :
    lastFrameReturn tx fr =
      { limit := tx.gasLimit,
        remaining := (match fr.cls with | .ok => if tx.isSystem.getD false then tx.gasLimit else 0 | _ => 0),
        refunded := 0 } := by
  have h2 : U64ops.wadd 0 tx.gasLimit = tx.gasLimit := wadd_zero_left _ hl
  unfold lastFrameReturn
  cases fr.cls <;> simp only [hd, hreg, Bool.not_true, Bool.or_false, Bool.false_eq_true, if_false, Bool.true_and]
  · by_cases hs : tx.isSystem.getD false = true
    · simp only [hs, if_true, eraseCost, newSpent, h2]
    · simp only [hs, Bool.false_eq_true, if_false]; rfl
  · rfl
  · rfl

/-- **The gas rules.** For every frame result with a non-negative refund counter the transaction's gas
(`gas.spent() − gas.refunded()`, `gas.refunded()` after `last_frame_return`, `refund` and the EIP-7623 floor)
is: spent = limit − gas left (the whole limit after a halt); refund = min(counter, spent/5) for a successful
frame and 0 otherwise; `(floor, 0)` if that is below the floor (Prague / Isthmus); a Bedrock deposit reports the
limit (0 for a successful system transaction) and no refund. -/
theorem finalGas_spec (tx : Tx) (fr : Frame) (hl : tx.gasLimit < U64) (hr : fr.remaining ≤ tx.gasLimit)
    (h0 : 0 ≤ fr.refunded) (h1 : fr.refunded ≤ I64MAX) (hlon : enabled tx.spec LONDON = true)
    (hfl : (initialGas tx).2 ≤ tx.gasLimit)
    (hpr : enabled tx.spec REGOLITH = false → enabled tx.spec PRAGUE = false) :
    usedGas (finalGas tx fr) = (txUsedRefunded tx fr).1 ∧
    i64AsU64 (finalGas tx fr).refunded = (txUsedRefunded tx fr).2 := by
  obtain ⟨hg, hgl⟩ := finalGas_good tx fr hl hr
  rw [hg.used, hg.refU64, hgl]
  have hfloor : (initialGas tx).2 = floorGas tx := by unfold initialGas floorGas; rfl
  by_cases hb : (tx.isDeposit && !enabled tx.spec REGOLITH) = true
  · -- Bedrock deposit: no refund step, no floor
    have hd : tx.isDeposit = true := by revert hb; cases tx.isDeposit <;> simp
    have hreg : enabled tx.spec REGOLITH = false := by revert hb; cases enabled tx.spec REGOLITH <;> simp [hd]
    have hf0 : (initialGas tx).2 = 0 := by unfold initialGas; simp [hpr hreg]
    have hlfr := lastFrameReturn_bedrock tx fr hl hd hreg
    unfold txUsedRefunded
    simp only [hb, if_true]
    unfold finalGas refundStep
    simp only [hb, Bool.not_true, Bool.false_eq_true, if_false, hf0]
    rw [hlfr, recordRefund_zero _ (by unfold I64MIN; simp) (by unfold I64MAX; simp)]
    unfold floorStep
    simp only [Nat.not_lt_zero, if_false]
    unfold usedRefundedBedrockDeposit
    cases fr.cls <;> simp
    by_cases hs : tx.isSystem.getD false = true <;> simp [hs]
  · -- regular transaction / Regolith deposit: London cap, floor
    have hb' : (!tx.isDeposit || enabled tx.spec REGOLITH) = true := by
      revert hb; cases tx.isDeposit <;> cases enabled tx.spec REGOLITH <;> simp
    have hlfr := lastFrameReturn_normal tx fr hl hr h0 h1 hb'
    unfold txUsedRefunded
    simp only [hb, Bool.false_eq_true, if_false]
    unfold finalGas refundStep
    simp only [hb, Bool.not_false, if_true, hlon]
    generalize hg1 : lastFrameReturn tx fr = g1 at hlfr
    have hl1 : g1.limit = tx.gasLimit := by rw [hlfr]
    have hr1 : g1.remaining ≤ g1.limit := by rw [hlfr]; cases fr.cls <;> simp <;> omega
    have h01 : 0 ≤ g1.refunded := by rw [hlfr]; cases fr.cls <;> simp <;> omega
    have h11 : g1.refunded ≤ I64MAX := by rw [hlfr]; cases fr.cls <;> simp <;> (first | omega | (unfold I64MAX; omega))
    rw [recordRefund_zero g1 (by unfold I64MIN; omega) h11]
    obtain ⟨c1, c2, c3⟩ := cap_eq g1 (by omega) hr1 h01 h11
    generalize hg2 : setFinalRefund g1 true = g2 at c1 c2 c3
    have hr2 : g2.remaining ≤ g2.limit := by omega
    obtain ⟨d1, d2, d3⟩ := floor_eq g2 (initialGas tx).2 (by omega) hr2 (by rw [c3]; omega)
      (by rw [c3]; unfold I64MAX at *; omega)
    rw [d2, d3, c1, c2, c3, hl1, hfloor]
    have hrem : g1.remaining = (match fr.cls with | .halt => 0 | _ => fr.remaining) := by rw [hlfr]
    have href : g1.refunded = (match fr.cls with | .ok => fr.refunded | _ => 0) := by rw [hlfr]
    rw [hfloor] at hfl
    unfold usedRefunded gasRefund gasSpent
    rw [hrem, href]
    generalize floorGas tx = fl at *
    cases fr.cls <;> simp only [] <;> (split <;> split <;> simp_all <;> omega)

end Revm.Proofs.OpFees
