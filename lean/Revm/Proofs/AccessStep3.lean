import Revm.Proofs.AccessStep2
/-! C34: reverts and transaction-level pre-warming; the step and history theorems. -/
namespace Revm.Proofs.Access
open Revm Revm.Model.Journal Revm.Spec.JournalAbs Revm.Proofs.Journal Revm.Spec.AccessHistory
open Revm.Spec.AccessSets (Access Sets State)
set_option linter.unusedSimpArgs false
set_option linter.unusedVariables false

theorem union_pre (snap pre : Sets) (h : SetsLe pre snap) : SetsEq (snap.union pre) snap :=
  ⟨fun a => by
      simp only [Sets.union]
      cases hp : pre.addrs a
      · simp
      · simp [h.1 a hp],
   fun a k => by
      simp only [Sets.union]
      cases hp : pre.slots a k
      · simp
      · simp [h.2 a k hp]⟩

theorem prewarmAll_spec (xs : List Access) (st : State) :
    (prewarmAll st xs).cur = st.cur.addAll xs ∧ (prewarmAll st xs).pre = st.pre.addAll xs ∧
    (prewarmAll st xs).snaps = st.snaps := by
  induction xs generalizing st with
  | nil => simp [prewarmAll, Sets.addAll]
  | cons x xs ih =>
    have := ih (Spec.AccessSets.prewarm st x)
    simp only [prewarmAll, List.foldl_cons, Sets.addAll] at *
    exact ⟨this.1, this.2.1, this.2.2⟩

theorem addAll_mono {s t : Sets} (h : SetsLe s t) (xs : List Access) : SetsLe (s.addAll xs) (t.addAll xs) :=
  ⟨fun a ha => by
      rw [addAll_addrs] at ha ⊢
      cases hs : s.addrs a
      · rw [hs] at ha; simp at ha; simp [ha]
      · simp [h.1 a hs],
   fun a k ha => by
      rw [addAll_slots] at ha ⊢
      cases hs : s.slots a k
      · rw [hs] at ha; simp at ha; simp [ha]
      · simp [h.2 a k hs]⟩

theorem aAddrs_initLoad (a : Addr) (ks : List Nat) : aAddrs (Access.addr a :: ks.map (Access.slot a)) = [a] := by
  simp only [aAddrs, List.filterMap_cons]
  congr 1
  induction ks with
  | nil => rfl
  | cons k ks ih => simp [List.filterMap_cons] at ih ⊢

theorem aSlots_initLoad (a : Addr) (ks : List Nat) :
    aSlots (Access.addr a :: ks.map (Access.slot a)) = ks.map (fun k => (a, k)) := by
  simp only [aSlots, List.filterMap_cons]
  induction ks with
  | nil => rfl
  | cons k ks ih => simp [List.filterMap_cons] at ih ⊢; exact ih

section ops
variable {db : Db} {hasStorage : Addr → Bool} (hdb : DbOk db hasStorage) {l l' : Lock} (h : Sim db l)
include hdb h
set_option linter.unusedSectionVars false

theorem sim_step_revert {i : Nat} (hs : lockStep db hasStorage l (.revert i) = some l') :
    StepOk db l l' (.revert i) := by
  obtain ⟨hadm, r', o', st', bits, hstep, hwn, hsp, rfl⟩ := lockStep_some hs
  have hstep0 := hstep
  simp only [wnStep] at hwn
  by_cases hi : i ∈ l.open_
  · simp [hi] at hwn; subst hwn
    obtain ⟨cp, snap, x0, logs0, spec0, pre0, e1, e2, iv, e3, e4⟩ := h.inv i hi
    simp only [step, e1, Option.map_eq_some_iff] at hstep
    obtain ⟨js', hrev, rfl⟩ := hstep
    simp [specStep, Spec.AccessSets.revert, e2] at hsp; obtain ⟨rfl, rfl⟩ := hsp
    obtain ⟨_, r2, r3, r4, r5, r6⟩ := revert_abs db l.r.js js' cp hrev iv.zero
    have hx0 : absT db js' = x0 := by rw [r2]; exact iv.undo
    have hsub : ∀ j, j ∈ l.open_.filter (· < i) → j ∈ l.open_ ∧ j < i := by
      intro j hj; simpa using List.mem_filter.1 hj
    refine ⟨⟨?_, ?_, h.len, fun j hj => h.lt j (hsub j hj).1, ?_, ?_, ?_⟩, fun hx => by simp [exposes] at hx⟩
    · show SetsEq (warmSets db js') (snap.union l.st.pre)
      rw [warmSets_eq, hx0]
      exact SetsEq.trans e3 (union_pre snap l.st.pre e4).symm
    · show BalOk (absT db js')
      rw [r2]; exact undoTs_balOk _ _ _ h.bal
    · exact List.Pairwise.sublist List.filter_sublist h.sorted
    · show SetsLe l.st.pre (snap.union l.st.pre)
      exact ⟨fun a ha => by simp [Sets.union, ha], fun a k ha => by simp [Sets.union, ha]⟩
    · intro j hj
      obtain ⟨hjo, hji⟩ := hsub j hj
      obtain ⟨cpj, snapj, xj, logsj, specj, prej, f1, f2, ivj, f3, f4⟩ := h.inv j hjo
      exact ⟨cpj, snapj, xj, logsj, specj, prej, f1, f2,
        inv_step hdb (op := .revert i) ivj (by simp [admissible]; omega) hstep0, f3, f4⟩
  · simp [hi] at hwn


theorem sim_step_initLoad {a : Addr} {ks : List Nat} (hs : lockStep db hasStorage l (.initLoad a ks) = some l') :
    StepOk db l l' (.initLoad a ks) := by
  obtain ⟨hadm, r', o', st', bits, hstep, hwn, hsp, rfl⟩ := lockStep_some hs
  simp [step] at hstep; subst hstep
  simp [specStep] at hsp; obtain ⟨rfl, rfl⟩ := hsp
  simp only [wnStep] at hwn
  by_cases hcond : initLoadOk l.r a ks = true
  · simp [hcond] at hwn; subst hwn
    simp only [initLoadOk, Bool.and_eq_true, List.isEmpty_iff] at hcond
    obtain ⟨hcps, hc2⟩ := hcond
    have hopen : l.open_ = [] := by
      cases ho : l.open_ with
      | nil => rfl
      | cons i t => have := h.lt i (by simp [ho]); rw [hcps] at this; simp at this
    have hacc : ∀ acc, l.r.js.state a = some acc → acc.cold = false ∧ acc.created = false ∧
        ∀ k, k ∈ ks → ∀ sl, acc.storage k = some sl → sl.cold = false := by
      intro acc hacc
      simp only [hacc, Bool.and_eq_true, Bool.not_eq_true', List.all_eq_true] at hc2
      obtain ⟨⟨h1, h2⟩, h3⟩ := hc2
      refine ⟨h1, h2, fun k hk sl hsl => ?_⟩
      have := h3 k hk; simp [hsl] at this; exact this
    obtain ⟨w, hb⟩ := initLoad_warms (db := db) (ks := ks) hacc
    obtain ⟨c1, c2, c3⟩ := prewarmAll_spec (Access.addr a :: ks.map (Access.slot a)) l.st
    have hsets : SetsEq (warmSets db (initialAccountLoad db l.r.js a ks))
        ((warmSets db l.r.js).addAll (Access.addr a :: ks.map (Access.slot a))) :=
      Warms.sets (by rw [aAddrs_initLoad, aSlots_initLoad]; exact w)
    refine ⟨⟨?_, BalOk.of_eq hb h.bal, ?_, ?_, ?_, ?_, ?_⟩, fun hx => by simp [exposes] at hx⟩
    · show SetsEq (warmSets db (initialAccountLoad db l.r.js a ks)) (prewarmAll l.st _).cur
      rw [c1]
      refine SetsEq.trans hsets ⟨fun b => ?_, fun b k => ?_⟩
      · rw [addAll_addrs, addAll_addrs, h.rel.1 b]
      · rw [addAll_slots, addAll_slots, h.rel.2 b k]
    · show (prewarmAll l.st _).snaps.length = l.r.cps.length
      rw [c3]; exact h.len
    · intro i hi; rw [hopen] at hi; simp at hi
    · rw [hopen]; exact List.Pairwise.nil
    · show SetsLe (prewarmAll l.st _).pre (prewarmAll l.st _).cur
      rw [c1, c2]; exact addAll_mono h.preCur _
    · intro i hi; rw [hopen] at hi; simp at hi
  · simp [hcond] at hwn

/-- **one step of an admissible well-nested history**: the simulation invariant is preserved and the
`is_cold` bits reported by the model are those of the access-set machine -/
theorem sim_step {op : Op} (hs : lockStep db hasStorage l op = some l') : StepOk db l l' op := by
  cases op with
  | load a => exact sim_step_load hdb h hs
  | loadCode a => exact sim_step_loadCode hdb h hs
  | loadDelegated a => exact sim_step_loadDelegated hdb h hs
  | initLoad a ks => exact sim_step_initLoad hdb h hs
  | touch a => exact sim_step_touch hdb h hs
  | transfer f t v => exact sim_step_transfer hdb h hs
  | incNonce a => exact sim_step_incNonce hdb h hs
  | setCode a hash => exact sim_step_setCode hdb h hs
  | sload a k => exact sim_step_sload hdb h hs
  | sstore a k v => exact sim_step_sstore hdb h hs
  | tload a k => exact sim_step_tload hdb h hs
  | tstore a k v => exact sim_step_tstore hdb h hs
  | log x => exact sim_step_log hdb h hs
  | selfdestruct a t => exact sim_step_selfdestruct hdb h hs
  | create c a hst bal spec => exact sim_step_create hdb h hs
  | checkpoint => exact sim_step_checkpoint hdb h hs
  | commit => exact sim_step_commit hdb h hs
  | revert i => exact sim_step_revert hdb h hs

end ops

theorem sim_run {db : Db} {hasStorage : Addr → Bool} (hdb : DbOk db hasStorage) (ops : List Op) {l l' : Lock}
    (h : Sim db l) (hr : lockRun db hasStorage l ops = some l') : Sim db l' := by
  induction ops generalizing l with
  | nil => simp [lockRun] at hr; subst hr; exact h
  | cons op ops ih =>
    simp only [lockRun] at hr
    cases hs : lockStep db hasStorage l op with
    | none => simp [hs] at hr
    | some l1 =>
      simp only [hs] at hr
      exact ih (sim_step hdb h hs).1 hr

/-- the start of a transaction satisfies the invariant (balances in the database are 256-bit words) -/
theorem sim_init {db : Db} (spec : Nat) (pre : Addr → Bool) (hwf : WF db (JState.new spec pre)) :
    Sim db (Lock.init spec pre) := by
  refine ⟨⟨fun a => ?_, fun a k => ?_⟩, hwf, rfl, fun i hi => by simp [Lock.init] at hi, List.Pairwise.nil,
    SetsLe.refl _, fun i hi => by simp [Lock.init] at hi⟩
  · simp [warmSets, Lock.init, Spec.AccessSets.State.init, absAcct, JState.new]
  · simp [warmSets, Lock.init, Spec.AccessSets.State.init, absAcct, JState.new, absSlot]


/-- the set machine's step for an operation that is not `checkpoint`/`create`/`commit`/`revert`/`initLoad` -/
theorem specStep_ordinary {db : Db} {r r' : Run} {st st' : State} {op : Op} {bits : List Bool}
    (hsp : specStep db r r' st op = some (st', bits))
    (h1 : op ≠ .checkpoint) (h2 : ∀ c a hs b s, op ≠ .create c a hs b s) (h3 : op ≠ .commit)
    (h4 : ∀ i, op ≠ .revert i) (h5 : ∀ a ks, op ≠ .initLoad a ks) :
    st' = (Spec.AccessSets.accessAll st (accessesOf db r.js op)).1 := by
  cases op <;> first
    | exact absurd rfl h1 | exact absurd rfl (h2 _ _ _ _ _) | exact absurd rfl h3
    | exact absurd rfl (h4 _) | exact absurd rfl (h5 _ _)
    | (simp only [specStep, Option.some.injEq] at hsp; rw [hsp])

/-- the pre-warmed set only grows -/
theorem lockStep_pre_mono {db : Db} {hasStorage : Addr → Bool} {l l' : Lock} {op : Op}
    (hs : lockStep db hasStorage l op = some l') : SetsLe l.st.pre l'.st.pre := by
  obtain ⟨_, r', o', st', bits, _, _, hsp, rfl⟩ := lockStep_some hs
  show SetsLe l.st.pre st'.pre
  by_cases h1 : op = .checkpoint
  · subst h1; simp [specStep] at hsp; rw [← hsp.1]; exact SetsLe.refl _
  by_cases h3 : op = .commit
  · subst h3; simp [specStep] at hsp; rw [← hsp.1]; exact SetsLe.refl _
  by_cases h2 : ∃ c a hs b s, op = .create c a hs b s
  · obtain ⟨c, a, hst, b, s, rfl⟩ := h2
    simp only [specStep, Option.some.injEq, Prod.mk.injEq] at hsp
    rw [← hsp.1]; split <;> exact SetsLe.refl _
  by_cases h4 : ∃ i, op = .revert i
  · obtain ⟨i, rfl⟩ := h4
    simp only [specStep, Spec.AccessSets.revert, Option.map_eq_some_iff] at hsp
    obtain ⟨x, ⟨snap, _, rfl⟩, hx⟩ := hsp
    cases hx; exact SetsLe.refl _
  by_cases h5 : ∃ a ks, op = .initLoad a ks
  · obtain ⟨a, ks, rfl⟩ := h5
    simp only [specStep, Option.some.injEq, Prod.mk.injEq] at hsp
    rw [← hsp.1, (prewarmAll_spec _ _).2.1]; exact addAll_le _ _
  · have := specStep_ordinary hsp h1 (fun c a hs b s e => h2 ⟨c, a, hs, b, s, e⟩) h3
      (fun i e => h4 ⟨i, e⟩) (fun a ks e => h5 ⟨a, ks, e⟩)
    rw [this, (accessAll_cur _ _).2.2]; exact SetsLe.refl _

theorem lockRun_pre_mono {db : Db} {hasStorage : Addr → Bool} (ops : List Op) {l l' : Lock}
    (hr : lockRun db hasStorage l ops = some l') : SetsLe l.st.pre l'.st.pre := by
  induction ops generalizing l with
  | nil => simp [lockRun] at hr; subst hr; exact SetsLe.refl _
  | cons op ops ih =>
    simp only [lockRun] at hr
    cases hs : lockStep db hasStorage l op with
    | none => simp [hs] at hr
    | some l1 =>
      simp only [hs] at hr
      exact SetsLe.trans (lockStep_pre_mono hs) (ih hr)

/-- `initial_account_load a ks` puts the address and the slots into the pre-warmed set -/
theorem lockStep_initLoad_pre {db : Db} {hasStorage : Addr → Bool} {l l' : Lock} {a : Addr} {ks : List Nat}
    (hs : lockStep db hasStorage l (.initLoad a ks) = some l') :
    l'.st.pre.addrs a = true ∧ ∀ k, k ∈ ks → l'.st.pre.slots a k = true := by
  obtain ⟨_, r', o', st', bits, _, _, hsp, rfl⟩ := lockStep_some hs
  simp only [specStep, Option.some.injEq, Prod.mk.injEq] at hsp
  show st'.pre.addrs a = true ∧ ∀ k, k ∈ ks → st'.pre.slots a k = true
  rw [← hsp.1, (prewarmAll_spec _ _).2.1]
  refine ⟨by rw [addAll_addrs]; simp, fun k hk => ?_⟩
  rw [addAll_slots]
  have : (Access.addr a :: ks.map (Access.slot a)).contains (Access.slot a k) = true := by
    rw [List.contains_cons]; simp; exact hk
  rw [this]; simp

/-- the keys an operation of the pre-execution phase adds to the current sets -/
def opKeys (db : Db) (s : JState) : Op → List Access
  | .initLoad a ks => Access.addr a :: ks.map (Access.slot a)
  | op => accessesOf db s op

/-- the four operations of the pre-execution phase add exactly their keys -/
theorem lockStep_keys {db : Db} {hasStorage : Addr → Bool} {l l' : Lock} {op : Op}
    (hs : lockStep db hasStorage l op = some l')
    (hop : (∃ a ks, op = .initLoad a ks) ∨ (∃ a, op = .load a) ∨ (∃ a, op = .loadCode a) ∨ (∃ a, op = .loadDelegated a)) :
    l'.st.cur = l.st.cur.addAll (opKeys db l.r.js op) := by
  obtain ⟨_, r', o', st', bits, _, _, hsp, rfl⟩ := lockStep_some hs
  show st'.cur = _
  rcases hop with ⟨a, ks, rfl⟩ | ⟨a, rfl⟩ | ⟨a, rfl⟩ | ⟨a, rfl⟩
  · simp only [specStep, Option.some.injEq, Prod.mk.injEq] at hsp
    obtain ⟨rfl, _⟩ := hsp
    exact (prewarmAll_spec _ _).1
  all_goals
    simp only [specStep, Option.some.injEq] at hsp
    have e := congrArg (fun x => x.1.cur) hsp
    simp only at e
    rw [← e]; exact (accessAll_cur _ _).1


end Revm.Proofs.Access
