import Revm.Model.TxGas
import Revm.Proofs.Gas
/-! Helper lemmas and proofs for C09 (core Lean only). -/
set_option linter.unusedSimpArgs false
set_option linter.unusedVariables false
namespace Revm.Proofs.TxGas
open Revm Revm.Model.Gas Revm.Model.TxGas
open Revm.Model.GasCalc (enabled)
open Revm.Model.GasCalc.SpecId (BERLIN LONDON SHANGHAI CANCUN PRAGUE)
open Revm.Proofs.Gas

/-- the refund quotient of `set_final_refund` -/
def quot (e : Env) : Nat := if enabled e.spec LONDON then 5 else 2

theorem quot_eq (e : Env) : quot e = if enabled e.spec LONDON = true then 5 else 2 := rfl

/-- remaining gas after `last_frame_return`: handed back for ok / revert class results only -/
def remAfter (fr : FrameRes) : Nat :=
  match fr.ir.gasClass with
  | .other => 0
  | _ => fr.gas.remaining

theorem remAfter_le (fr : FrameRes) : remAfter fr ≤ fr.gas.remaining := by
  unfold remAfter; generalize fr.ir.gasClass = c; cases c <;> simp

/-! ### last_frame_return -/

theorem lfr_limit (e : Env) (fr : FrameRes) : (lastFrameReturn e fr).limit = e.gasLimit := by
  unfold lastFrameReturn; generalize fr.ir.gasClass = c; cases c <;> rfl

theorem lfr_remaining (e : Env) (fr : FrameRes) (hr : fr.gas.remaining < U64) :
    (lastFrameReturn e fr).remaining = remAfter fr := by
  have h0 : U64ops.wadd 0 fr.gas.remaining = fr.gas.remaining := by
    rw [wadd_of_lt 0 _ (by omega)]; omega
  unfold lastFrameReturn remAfter; generalize fr.ir.gasClass = c
  cases c
  · show U64ops.wadd 0 fr.gas.remaining = _; exact h0
  · show U64ops.wadd 0 fr.gas.remaining = _; exact h0
  · rfl

theorem lfr_refunded_not_ok (e : Env) (fr : FrameRes) (h : fr.ir.gasClass ≠ .ok) :
    (lastFrameReturn e fr).refunded = 0 := by
  unfold lastFrameReturn; generalize fr.ir.gasClass = c at h; cases c
  · exact absurd rfl h
  · rfl
  · rfl

theorem lfr_refunded_ok (e : Env) (fr : FrameRes) (h : fr.ir.gasClass = .ok) :
    (lastFrameReturn e fr).refunded = i64WrapAdd 0 fr.gas.refunded := by
  unfold lastFrameReturn; rw [h]; rfl

/-! ### refund -/

theorem refund_limit (e : Env) (g : Gas) (a : Int) : (refund e g a).limit = g.limit := rfl
theorem refund_remaining (e : Env) (g : Gas) (a : Int) : (refund e g a).remaining = g.remaining := rfl
theorem refund_spent (e : Env) (g : Gas) (a : Int) : spent (refund e g a) = spent g := rfl

theorem refund_bounds (e : Env) (g : Gas) (a : Int) :
    0 ≤ (refund e g a).refunded ∧ (refund e g a).refunded ≤ ((spent g / quot e : Nat) : Int) :=
  setFinalRefund_bounds (recordRefund g a) (enabled e.spec LONDON)

/-- the pipeline's invariant after `refund` and after the floor: the meter of a finished transaction -/
structure Settled (e : Env) (g : Gas) : Prop where
  limit : g.limit = e.gasLimit
  rem_le : g.remaining ≤ e.gasLimit
  ref_nonneg : 0 ≤ g.refunded
  ref_cap : g.refunded ≤ (((e.gasLimit - g.remaining) / quot e : Nat) : Int)

theorem quot_pos (e : Env) : 2 ≤ quot e := by
  unfold quot; cases enabled e.spec LONDON <;> simp

theorem div_quot_le (e : Env) (x : Nat) : 2 * (x / quot e) ≤ x := by
  have h1 : x / quot e * 2 ≤ x / quot e * quot e := Nat.mul_le_mul_left _ (quot_pos e)
  have h2 := Nat.div_mul_le_self x (quot e)
  omega

/-- numbers read off a settled meter: no wrap, no sign surprise -/
theorem settled_numbers (e : Env) (g : Gas) (hL : e.gasLimit < U64) (s : Settled e g) :
    spent g = e.gasLimit - g.remaining ∧
    gasRefunded g = g.refunded.toNat ∧
    gasRefunded g ≤ spent g / quot e ∧
    gasUsed g = e.gasLimit - g.remaining - g.refunded.toNat ∧
    gasUsed g + gasRefunded g + g.remaining = e.gasLimit ∧
    U64ops.wadd g.remaining (i64AsU64 g.refunded) = g.remaining + g.refunded.toNat := by
  have hU := U64_val
  obtain ⟨hl, hr, h0, hc⟩ := s
  have hs : spent g = e.gasLimit - g.remaining := by
    rw [spent_eq g (by rw [hl]; exact hL) (by unfold MeterInv; rw [hl]; exact hr), hl]
  have hd := div_quot_le e (e.gasLimit - g.remaining)
  have hmax : g.refunded ≤ I64MAX := by
    unfold I64MAX; generalize (e.gasLimit - g.remaining) / quot e = d at *; omega
  have hru : i64AsU64 g.refunded = g.refunded.toNat := i64AsU64_nonneg _ h0 hmax
  have hcap : g.refunded.toNat ≤ (e.gasLimit - g.remaining) / quot e := by
    generalize (e.gasLimit - g.remaining) / quot e = d at *; omega
  refine ⟨hs, hru, ?_, ?_, ?_, ?_⟩
  · unfold gasRefunded; rw [hru, hs]; exact hcap
  · unfold gasUsed gasRefunded; rw [hru, hs]
    exact wsub_of_le _ _ (by omega) (by generalize (e.gasLimit - g.remaining) / quot e = d at *; omega)
  · unfold gasUsed gasRefunded; rw [hru, hs]
    rw [wsub_of_le _ _ (by omega) (by generalize (e.gasLimit - g.remaining) / quot e = d at *; omega)]
    generalize (e.gasLimit - g.remaining) / quot e = d at *; omega
  · rw [hru]; exact wadd_of_lt _ _ (by generalize (e.gasLimit - g.remaining) / quot e = d at *; omega)

/-- after `last_frame_return` and `refund` the meter is settled, with `remaining = remAfter` -/
theorem settled_refund (e : Env) (fr : FrameRes) (a : Int) (hL : e.gasLimit < U64)
    (hr : fr.gas.remaining ≤ e.gasLimit) :
    Settled e (refund e (lastFrameReturn e fr) a) ∧
    (refund e (lastFrameReturn e fr) a).remaining = remAfter fr := by
  have hrem : (lastFrameReturn e fr).remaining = remAfter fr := lfr_remaining e fr (by omega)
  have hle := remAfter_le fr
  have hb := refund_bounds e (lastFrameReturn e fr) a
  have hs : spent (lastFrameReturn e fr) = e.gasLimit - remAfter fr := by
    rw [spent_eq _ (by rw [lfr_limit]; exact hL) (by unfold MeterInv; rw [lfr_limit, hrem]; omega),
      lfr_limit, hrem]
  rw [hs] at hb
  refine ⟨⟨?_, ?_, hb.1, ?_⟩, ?_⟩
  · rw [refund_limit, lfr_limit]
  · rw [refund_remaining, hrem]; omega
  · rw [refund_remaining, hrem]; exact hb.2
  · rw [refund_remaining, hrem]

/-- `spent_sub_refunded` of a settled meter -/
theorem settled_ssr (e : Env) (g : Gas) (hL : e.gasLimit < U64) (s : Settled e g) :
    spentSubRefunded g = e.gasLimit - g.remaining - g.refunded.toNat := by
  have hn := settled_numbers e g hL s
  have hU := U64_val
  have hd := div_quot_le e (e.gasLimit - g.remaining)
  have hmax : g.refunded ≤ I64MAX := by
    have hc := s.ref_cap
    unfold I64MAX; generalize (e.gasLimit - g.remaining) / quot e = d at *; omega
  rw [spentSubRefunded_nonneg g s.ref_nonneg hmax, hn.1]

/-- the EIP-7623 block keeps the meter settled; exact description of both branches -/
theorem settled_floor (e : Env) (g : Gas) (floorGas : Nat) (hL : e.gasLimit < U64) (s : Settled e g)
    (hf : floorGas ≤ e.gasLimit) :
    Settled e (floorAdjust g floorGas) ∧
    (if e.gasLimit - g.remaining - g.refunded.toNat < floorGas
      then (floorAdjust g floorGas).remaining = e.gasLimit - floorGas ∧ (floorAdjust g floorGas).refunded = 0
      else floorAdjust g floorGas = g) := by
  have hssr := settled_ssr e g hL s
  unfold floorAdjust; rw [hssr]
  by_cases h : e.gasLimit - g.remaining - g.refunded.toNat < floorGas
  · rw [if_pos h, if_pos h]
    have hrem : (setRefund (setSpent g floorGas) 0).remaining = e.gasLimit - floorGas := by
      show U64ops.saturatingSub g.limit floorGas = _; rw [s.limit]; rfl
    refine ⟨⟨s.limit, ?_, ?_, ?_⟩, hrem, rfl⟩
    · rw [hrem]; omega
    · show (0 : Int) ≤ 0; omega
    · show (0 : Int) ≤ ((_ / quot e : Nat) : Int)
      generalize (e.gasLimit - (setRefund (setSpent g floorGas) 0).remaining) / quot e = d; omega
  · rw [if_neg h, if_neg h]; exact ⟨s, rfl⟩

/-- the whole gas pipeline: the final meter is settled -/
theorem settled_final (e : Env) (floorGas k : Nat) (fr : FrameRes) (hL : e.gasLimit < U64)
    (hr : fr.gas.remaining ≤ e.gasLimit) (hf : floorGas ≤ e.gasLimit) :
    Settled e (finalGas e floorGas k fr) :=
  (settled_floor e _ floorGas hL (settled_refund e fr (eip7702Refund k) hL hr).1 hf).1

/-- `gas_used` of the whole pipeline is `max (spent − refunded) floor`, where spent and refunded
are those after `refund` (before the floor) -/
theorem gasUsed_final (e : Env) (floorGas k : Nat) (fr : FrameRes) (hL : e.gasLimit < U64)
    (hr : fr.gas.remaining ≤ e.gasLimit) (hf : floorGas ≤ e.gasLimit) :
    gasUsed (finalGas e floorGas k fr) =
      max (e.gasLimit - remAfter fr - (refund e (lastFrameReturn e fr) (eip7702Refund k)).refunded.toNat) floorGas := by
  have sr := settled_refund e fr (eip7702Refund k) hL hr
  have hfin : finalGas e floorGas k fr =
      floorAdjust (refund e (lastFrameReturn e fr) (eip7702Refund k)) floorGas := rfl
  rw [hfin]
  generalize refund e (lastFrameReturn e fr) (eip7702Refund k) = g at sr ⊢
  obtain ⟨sg, hrem⟩ := sr
  have sf := settled_floor e g floorGas hL sg hf
  have hn := (settled_numbers e _ hL sf.1).2.2.2.1
  have hz : (0 : Int).toNat = 0 := rfl
  rw [hn, ← hrem]
  by_cases h : e.gasLimit - g.remaining - g.refunded.toNat < floorGas
  · have sf2 := sf.2
    rw [if_pos h] at sf2
    rw [sf2.1, sf2.2, hz]; omega
  · have sf2 := sf.2
    rw [if_neg h] at sf2
    rw [sf2]; omega

/-! ### refund value on each class -/

theorem u64AsI64_zero : u64AsI64 0 = 0 := by unfold u64AsI64; simp
theorem i64AsU64_zero : i64AsU64 0 = 0 := by unfold i64AsU64; simp
theorem eip7702Refund_zero : eip7702Refund 0 = 0 := by
  unfold eip7702Refund U64ops.wmul; simp [u64AsI64_zero]

theorem eip7702Refund_eq (k : Nat) (hk : 12500 * k < 9223372036854775808) :
    eip7702Refund k = ((12500 * k : Nat) : Int) := by
  have hU := U64_val
  unfold eip7702Refund U64ops.wmul Revm.Model.GasCalc.PER_EMPTY_ACCOUNT_COST Revm.Model.GasCalc.PER_AUTH_BASE_COST
  have : k * (25000 - 12500) % U64 = 12500 * k := by rw [hU]; omega
  rw [this, u64AsI64_small _ hk]

/-- not ok-class: the refund after `refund` is exactly the (capped) EIP-7702 refund -/
theorem refund_not_ok (e : Env) (fr : FrameRes) (k : Nat) (hL : e.gasLimit < U64)
    (hr : fr.gas.remaining ≤ e.gasLimit) (hc : fr.ir.gasClass ≠ .ok) (hk : 12500 * k < 9223372036854775808) :
    (refund e (lastFrameReturn e fr) (eip7702Refund k)).refunded =
      min ((12500 * k : Nat) : Int) (((e.gasLimit - remAfter fr) / quot e : Nat) : Int) := by
  have h0 := lfr_refunded_not_ok e fr hc
  have hrem : (lastFrameReturn e fr).remaining = remAfter fr := lfr_remaining e fr (by omega)
  have hle := remAfter_le fr
  have hs : spent (lastFrameReturn e fr) = e.gasLimit - remAfter fr := by
    rw [spent_eq _ (by rw [lfr_limit]; exact hL) (by unfold MeterInv; rw [lfr_limit, hrem]; omega),
      lfr_limit, hrem]
  have ha := eip7702Refund_eq k hk
  have hrr : (recordRefund (lastFrameReturn e fr) (eip7702Refund k)).refunded = ((12500 * k : Nat) : Int) := by
    show i64WrapAdd (lastFrameReturn e fr).refunded (eip7702Refund k) = _
    rw [h0, ha, i64WrapAdd_exact _ _ (by unfold I64MIN; omega) (by unfold I64MAX; omega)]; omega
  have := setFinalRefund_nonneg (recordRefund (lastFrameReturn e fr) (eip7702Refund k)) (enabled e.spec LONDON)
    (by rw [hrr]; omega) (by rw [hrr]; unfold I64MAX; omega)
  show (setFinalRefund _ _).refunded = _
  rw [this, hrr]
  show min _ (((spent (lastFrameReturn e fr)) / quot e : Nat) : Int) = _
  rw [hs]

/-- ok-class with a non-negative recorded total: the refund is the recorded total, capped -/
theorem refund_ok_nonneg (e : Env) (fr : FrameRes) (k : Nat) (hL : e.gasLimit < U64)
    (hr : fr.gas.remaining ≤ e.gasLimit) (hc : fr.ir.gasClass = .ok) (hk : 12500 * k < 9223372036854775808)
    (h0 : I64MIN ≤ fr.gas.refunded) (h1 : fr.gas.refunded + ((12500 * k : Nat) : Int) ≤ I64MAX)
    (hpos : 0 ≤ fr.gas.refunded + ((12500 * k : Nat) : Int)) :
    (refund e (lastFrameReturn e fr) (eip7702Refund k)).refunded =
      min (fr.gas.refunded + ((12500 * k : Nat) : Int)) (((e.gasLimit - fr.gas.remaining) / quot e : Nat) : Int) := by
  have hf := lfr_refunded_ok e fr hc
  have hrem : (lastFrameReturn e fr).remaining = fr.gas.remaining := by
    rw [lfr_remaining e fr (by omega)]; unfold remAfter; rw [hc]
  have hs : spent (lastFrameReturn e fr) = e.gasLimit - fr.gas.remaining := by
    rw [spent_eq _ (by rw [lfr_limit]; exact hL) (by unfold MeterInv; rw [lfr_limit, hrem]; omega),
      lfr_limit, hrem]
  have ha := eip7702Refund_eq k hk
  have hf' : (lastFrameReturn e fr).refunded = fr.gas.refunded := by
    rw [hf, i64WrapAdd_exact _ _ (by omega) (by unfold I64MAX at *; omega)]; omega
  have hrr : (recordRefund (lastFrameReturn e fr) (eip7702Refund k)).refunded =
      fr.gas.refunded + ((12500 * k : Nat) : Int) := by
    show i64WrapAdd (lastFrameReturn e fr).refunded (eip7702Refund k) = _
    rw [hf', ha, i64WrapAdd_exact _ _ (by unfold I64MIN at *; omega) h1]
  have := setFinalRefund_nonneg (recordRefund (lastFrameReturn e fr) (eip7702Refund k)) (enabled e.spec LONDON)
    (by rw [hrr]; exact hpos) (by rw [hrr]; exact h1)
  show (setFinalRefund _ _).refunded = _
  rw [this, hrr]
  show min _ (((spent (lastFrameReturn e fr)) / quot e : Nat) : Int) = _
  rw [hs]

/-- ok-class with a NEGATIVE recorded total: the cast makes the refund the full cap -/
theorem refund_ok_negative (e : Env) (fr : FrameRes) (k : Nat) (hL : e.gasLimit < U64)
    (hr : fr.gas.remaining ≤ e.gasLimit) (hc : fr.ir.gasClass = .ok) (hk : 12500 * k < 9223372036854775808)
    (h0 : I64MIN ≤ fr.gas.refunded) (h1 : fr.gas.refunded ≤ I64MAX)
    (hneg : fr.gas.refunded + ((12500 * k : Nat) : Int) < 0) :
    (refund e (lastFrameReturn e fr) (eip7702Refund k)).refunded =
      (((e.gasLimit - fr.gas.remaining) / quot e : Nat) : Int) := by
  have hf := lfr_refunded_ok e fr hc
  have hrem : (lastFrameReturn e fr).remaining = fr.gas.remaining := by
    rw [lfr_remaining e fr (by omega)]; unfold remAfter; rw [hc]
  have hs : spent (lastFrameReturn e fr) = e.gasLimit - fr.gas.remaining := by
    rw [spent_eq _ (by rw [lfr_limit]; exact hL) (by unfold MeterInv; rw [lfr_limit, hrem]; omega),
      lfr_limit, hrem]
  have ha := eip7702Refund_eq k hk
  have hf' : (lastFrameReturn e fr).refunded = fr.gas.refunded := by
    rw [hf, i64WrapAdd_exact _ _ (by omega) (by omega)]; omega
  have hrr : (recordRefund (lastFrameReturn e fr) (eip7702Refund k)).refunded =
      fr.gas.refunded + ((12500 * k : Nat) : Int) := by
    show i64WrapAdd (lastFrameReturn e fr).refunded (eip7702Refund k) = _
    rw [hf', ha, i64WrapAdd_exact _ _ (by unfold I64MIN at *; omega) (by unfold I64MAX at *; omega)]
  have := setFinalRefund_neg (recordRefund (lastFrameReturn e fr) (eip7702Refund k)) (enabled e.spec LONDON)
    (by rw [hrr]; exact hneg) (by rw [hrr]; unfold I64MIN at *; omega)
  show (setFinalRefund _ _).refunded = _
  rw [this]
  show (((spent (lastFrameReturn e fr)) / quot e : Nat) : Int) = _
  rw [hs]

/-! ### prices and payments -/

theorem eff_le_gasPrice (e : Env) : effectiveGasPrice e ≤ e.gasPrice := by
  unfold effectiveGasPrice; cases e.priorityFee <;> simp <;> omega

theorem coinbasePrice_le (e : Env) : coinbaseGasPrice e ≤ effectiveGasPrice e := by
  unfold coinbaseGasPrice U256.saturatingSub; split <;> omega

theorem coinbasePrice_eq (e : Env) :
    coinbaseGasPrice e = if enabled e.spec LONDON = true then effectiveGasPrice e - e.basefee else effectiveGasPrice e := rfl

theorem mul_le_of_le {a b c d : Nat} (h1 : a ≤ b) (h2 : c ≤ d) : a * c ≤ b * d := Nat.mul_le_mul h1 h2

/-- no 256-bit wrap in `reimburse_caller`, `reward_beneficiary` when `gas_limit · gas_price < 2^256` -/
theorem payments_exact (e : Env) (g : Gas) (hL : e.gasLimit < U64) (s : Settled e g)
    (hmul : e.gasLimit * e.gasPrice < W) :
    reimburseAmount e g = effectiveGasPrice e * (g.remaining + gasRefunded g) ∧
    rewardAmount e g = coinbaseGasPrice e * gasUsed g ∧
    effectiveGasPrice e * e.gasLimit =
      effectiveGasPrice e * gasUsed g + effectiveGasPrice e * (g.remaining + gasRefunded g) := by
  have hn := settled_numbers e g hL s
  obtain ⟨hs, hru, hcap, hused, hsum, hadd⟩ := hn
  have heff := eff_le_gasPrice e
  have hcp := coinbasePrice_le e
  have hLe : effectiveGasPrice e * e.gasLimit < W := by
    have := mul_le_of_le heff (Nat.le_refl e.gasLimit)
    rw [Nat.mul_comm e.gasPrice] at this; omega
  have hsplit : effectiveGasPrice e * e.gasLimit =
      effectiveGasPrice e * gasUsed g + effectiveGasPrice e * (g.remaining + gasRefunded g) := by
    rw [← Nat.mul_add]; congr 1; omega
  refine ⟨?_, ?_, hsplit⟩
  · unfold reimburseAmount U256.wmul
    rw [hadd, ← hru]
    exact Nat.mod_eq_of_lt (by omega)
  · unfold rewardAmount U256.wmul
    have : U64ops.wsub (spent g) (i64AsU64 g.refunded) = gasUsed g := rfl
    rw [this]
    have h1 : coinbaseGasPrice e * gasUsed g ≤ effectiveGasPrice e * gasUsed g := mul_le_of_le hcp (Nat.le_refl _)
    exact Nat.mod_eq_of_lt (by omega)

/-- `deduct_caller_inner` without saturation -/
theorem deduct_exact (e : Env) (d : Nat) (hd : deductAmount e = some d)
    (hmul : e.gasLimit * e.gasPrice < W)
    (hfee : enabled e.spec CANCUN = true → ∀ f, calcDataFee e = some f → e.gasLimit * e.gasPrice + f < W) :
    d = e.gasLimit * effectiveGasPrice e +
      (if enabled e.spec CANCUN = true then (calcDataFee e).getD 0 else 0) := by
  have heff := eff_le_gasPrice e
  have hLe : e.gasLimit * effectiveGasPrice e ≤ e.gasLimit * e.gasPrice := mul_le_of_le (Nat.le_refl _) heff
  have hsat : U256.saturatingMul e.gasLimit (effectiveGasPrice e) = e.gasLimit * effectiveGasPrice e := by
    unfold U256.saturatingMul; rw [if_pos (by omega)]
  unfold deductAmount at hd
  rw [hsat] at hd
  by_cases hc : enabled e.spec CANCUN = true
  · rw [if_pos hc] at hd ⊢
    cases hf : calcDataFee e with
    | none => rw [hf] at hd; simp at hd
    | some f =>
      rw [hf] at hd
      have := hfee hc f hf
      simp only [Option.some.injEq] at hd
      rw [← hd]; unfold U256.saturatingAdd; rw [if_pos (by omega)]; simp
  · rw [if_neg hc] at hd ⊢
    simp only [Option.some.injEq] at hd
    omega

/-! ### validation gives the hypotheses -/

theorem ite_some_none {α : Type} {c : Prop} [Decidable c] {a : α} {x : Option α}
    (h : (if c then some a else x) = none) : ¬ c ∧ x = none := by
  by_cases hc : c
  · rw [if_pos hc] at h; cases h
  · rw [if_neg hc] at h; exact ⟨hc, h⟩

theorem validateInitialGas_none (e : Env) (i f : Nat) (h : validateInitialGas e i f = none) :
    i ≤ e.gasLimit ∧ (enabled e.spec PRAGUE = true → f ≤ e.gasLimit) := by
  unfold validateInitialGas at h
  obtain ⟨h1, h⟩ := ite_some_none h
  obtain ⟨h2, _⟩ := ite_some_none h
  refine ⟨by omega, fun hp => ?_⟩
  rw [hp] at h2; simp at h2; omega

theorem validateAgainstState_none (e : Env) (bal : Nat) (h : validateAgainstState e bal = none) :
    ∃ c, balanceCheck e = some c ∧ c ≤ bal := by
  unfold validateAgainstState at h
  cases hb : balanceCheck e with
  | none => rw [hb] at h; cases h
  | some c =>
    rw [hb] at h
    obtain ⟨h1, _⟩ := ite_some_none h
    exact ⟨c, rfl, by omega⟩

theorem balanceCheck_some (e : Env) (c : Nat) (h : balanceCheck e = some c) :
    e.gasLimit * e.gasPrice < W ∧
    c = e.gasLimit * e.gasPrice + e.value +
      (if enabled e.spec CANCUN = true then (calcMaxDataFee e).getD 0 else 0) ∧ c < W := by
  unfold balanceCheck U256.checkedMul U256.checkedAdd at h
  by_cases h1 : e.gasLimit * e.gasPrice < W
  · rw [if_pos h1] at h
    simp only at h
    by_cases h2 : e.gasLimit * e.gasPrice + e.value < W
    · rw [if_pos h2] at h
      simp only at h
      by_cases hc : enabled e.spec CANCUN = true
      · rw [if_pos hc] at h ⊢
        by_cases h3 : e.gasLimit * e.gasPrice + e.value + (calcMaxDataFee e).getD 0 < W
        · rw [if_pos h3] at h
          simp only [Option.some.injEq] at h
          exact ⟨h1, h.symm, by omega⟩
        · rw [if_neg h3] at h; cases h
      · rw [if_neg hc] at h ⊢
        simp only [Option.some.injEq] at h
        exact ⟨h1, by omega, by omega⟩
    · rw [if_neg h2] at h; cases h
  · rw [if_neg h1] at h; cases h


/-- the blob part of `validate_tx` as a function of its own (the `blobChecks` of `validateEnv`) -/
theorem validateEnv_none (e : Env) (t : TxShape) (h : validateEnv e t = none) :
    (enabled e.spec CANCUN = true → e.blobPrice.isSome = true) ∧
    (enabled e.spec LONDON = true → e.basefee ≤ effectiveGasPrice e) ∧
    (enabled e.spec CANCUN = false → e.maxFeePerBlobGas = none ∧ e.nBlobs = 0) ∧
    (∀ m, e.maxFeePerBlobGas = some m → ∃ p, e.blobPrice = some p ∧ p ≤ m ∧
        (enabled e.spec CANCUN = true → e.nBlobs ≤ 9)) ∧
    (e.maxFeePerBlobGas = none → e.nBlobs = 0) := by
  unfold validateEnv at h
  obtain ⟨h1, h⟩ := ite_some_none h
  obtain ⟨h2, h⟩ := ite_some_none h
  obtain ⟨h3, h⟩ := ite_some_none h
  obtain ⟨h4, h⟩ := ite_some_none h
  obtain ⟨h5, h⟩ := ite_some_none h
  obtain ⟨h6, h⟩ := ite_some_none h
  refine ⟨?_, ?_, ?_, ?_, ?_⟩
  · intro hc; rw [hc] at h1
    cases hb : e.blobPrice with
    | none => rw [hb] at h1; simp at h1
    | some p => rfl
  · intro hl; rw [hl] at h4; simp at h4; exact h4
  · intro hc; rw [hc] at h6
    cases hm : e.maxFeePerBlobGas with
    | none => rw [hm] at h6; simp at h6; exact ⟨rfl, h6⟩
    | some m => rw [hm] at h6; simp at h6
  · intro m hm
    rw [hm] at h
    simp only at h
    cases hb : e.blobPrice with
    | none => rw [hb] at h; simp at h
    | some p =>
      rw [hb] at h
      simp only at h
      by_cases hp : p > m
      · rw [if_pos hp] at h; simp at h
      · rw [if_neg hp] at h
        by_cases hn : e.nBlobs = 0
        · rw [if_pos hn] at h; simp at h
        · rw [if_neg hn] at h
          by_cases hcr : t.isCreate = true
          · rw [if_pos hcr] at h; simp at h
          · rw [if_neg hcr] at h
            refine ⟨p, rfl, by omega, ?_⟩
            intro hc
            rw [hc] at h
            by_cases hpr : enabled e.spec PRAGUE = true
            · rw [hpr] at h; simp at h
              by_cases hgt : 9 < e.nBlobs
              · rw [if_pos hgt] at h; simp at h
              · omega
            · have : enabled e.spec PRAGUE = false := by simpa using hpr
              rw [this] at h; simp at h
              by_cases hgt : 6 < e.nBlobs
              · rw [if_pos hgt] at h; simp at h
              · omega
  · intro hm
    rw [hm] at h
    simp only at h
    by_cases hn : e.nBlobs = 0
    · exact hn
    · simp [hn] at h


theorem satmul_mono (a b c : Nat) (h : a ≤ b) : U256.saturatingMul a c ≤ U256.saturatingMul b c := by
  have hm : a * c ≤ b * c := Nat.mul_le_mul_right c h
  unfold U256.saturatingMul
  by_cases hb : b * c < W
  · rw [if_pos hb, if_pos (by omega)]; exact hm
  · rw [if_neg hb]
    by_cases ha : a * c < W
    · rw [if_pos ha]; omega
    · rw [if_neg ha]; omega

theorem totalBlobGas_zero (e : Env) (h : e.nBlobs = 0) : totalBlobGas e = 0 := by
  unfold totalBlobGas U64ops.wmul; rw [h]; rfl

theorem satmul_zero (a : Nat) : U256.saturatingMul a 0 = 0 := by
  have hW := W_val
  unfold U256.saturatingMul; rw [if_pos (by omega)]; omega

/-- initial-gas model: before Prague the floor is 0 -/
theorem floor_pre_prague (spec : Nat) (input : List Nat) (cr : Bool) (al : List Nat) (n i fl : Nat)
    (h : Revm.Model.GasCalc.calculateInitialTxGas spec input cr al n = some (i, fl))
    (hp : enabled spec PRAGUE = false) : fl = 0 := by
  unfold Revm.Model.GasCalc.calculateInitialTxGas at h
  simp only [hp] at h
  split at h
  · cases h
  · simp at h; exact h.2.symm


/-- from Cancun a validated transaction's blob fee is covered by the validated maximum -/
theorem dataFee_covered (e : Env) (t : TxShape) (h : validateEnv e t = none)
    (hc : enabled e.spec CANCUN = true) :
    ∃ f, calcDataFee e = some f ∧ f ≤ (calcMaxDataFee e).getD 0 := by
  obtain ⟨h1, _, _, h4, h5⟩ := validateEnv_none e t h
  have hb := h1 hc
  cases hp : e.blobPrice with
  | none => rw [hp] at hb; cases hb
  | some p =>
    refine ⟨U256.saturatingMul p (totalBlobGas e), by unfold calcDataFee; rw [hp], ?_⟩
    cases hm : e.maxFeePerBlobGas with
    | none =>
      rw [totalBlobGas_zero e (h5 hm), satmul_zero]; omega
    | some m =>
      obtain ⟨p', hp', hle, _⟩ := h4 m hm
      rw [hp] at hp'
      cases hp'
      have : (calcMaxDataFee e).getD 0 = U256.saturatingMul m (totalBlobGas e) := by
        unfold calcMaxDataFee; rw [hm]; rfl
      rw [this]; exact satmul_mono _ _ _ hle

theorem validate_none (e : Env) (t : TxShape) (i fl bal : Nat) (h : validate e t i fl bal = none) :
    validateEnv e t = none ∧ validateInitialGas e i fl = none ∧ validateAgainstState e bal = none := by
  unfold validate at h
  cases h1 : validateEnv e t with
  | some r => rw [h1] at h; cases h
  | none =>
    rw [h1] at h
    simp only at h
    cases h2 : validateInitialGas e i fl with
    | some r => rw [h2] at h; cases h
    | none => rw [h2] at h; exact ⟨rfl, rfl, h⟩

theorem pipeline_some (e : Env) (fl k : Nat) (fr : FrameRes) (o : Out) (h : pipeline e fl k fr = some o) :
    deductAmount e = some o.deducted ∧ o.gas = finalGas e fl k fr ∧ o.gasUsed = gasUsed o.gas ∧
    o.gasRefunded = gasRefunded o.gas ∧ o.reimbursed = reimburseAmount e o.gas ∧
    o.reward = rewardAmount e o.gas := by
  unfold pipeline at h
  cases hd : deductAmount e with
  | none => rw [hd] at h; cases h
  | some d =>
    rw [hd] at h
    simp only [Option.some.injEq] at h
    subst h
    exact ⟨rfl, rfl, rfl, rfl, rfl, rfl⟩

end Revm.Proofs.TxGas
