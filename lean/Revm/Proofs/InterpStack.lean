import Revm.Proofs.Interp
/-! Proofs for C25, part 2: the stack and memory primitives of the handler monad. -/
set_option linter.unusedSimpArgs false
set_option linter.unusedVariables false
namespace Revm.Proofs.Interp
open Revm Revm.Model Revm.Model.Interp
open Revm.Proofs.Memory (WF)

/-! ## `Model.Stack` facts in the form needed here -/

theorem popNUnsafe_ok (k : Nat) (d : List Nat) (hk : k ≤ d.length) :
    ∃ d' vs, Stack.popNUnsafe k d = (d', .ok vs) ∧ d'.length = d.length - k ∧ vs.length = k := by
  have h := Proofs.Stack.popNUnsafe_rev k d.reverse (by simpa using hk)
  rw [List.reverse_reverse] at h
  refine ⟨_, _, h, ?_, ?_⟩
  · simp
  · simp; omega

theorem popMacro_ok (k : Nat) (d : List Nat) (hk : k ≤ d.length) :
    ∃ d' vs, Stack.popMacro d k = (d', .ok vs) ∧ d'.length = d.length - k ∧ vs.length = k := by
  unfold Stack.popMacro
  rw [if_neg (by omega)]
  exact popNUnsafe_ok k d hk

theorem popMacro_underflow (k : Nat) (d : List Nat) (hk : d.length < k) :
    Stack.popMacro d k = (d, .err .StackUnderflow) := by
  unfold Stack.popMacro; rw [if_pos hk]

theorem peek0_ok (d : List Nat) (h : 0 < d.length) : ∃ t, Stack.peek d 0 = (d, .ok t) := by
  unfold Stack.peek
  rw [if_pos h]
  have : d.length - 0 - 1 < d.length := by omega
  rw [List.getElem?_eq_getElem this]
  exact ⟨_, rfl⟩

theorem set0_ok (d : List Nat) (v : Nat) (h : 0 < d.length) :
    ∃ d', Stack.set d 0 v = (d', .ok ()) ∧ d'.length = d.length := by
  unfold Stack.set
  rw [if_pos h]
  simp only []
  rw [if_pos (by omega)]
  exact ⟨_, rfl, by simp⟩

section prims
variable {k : Nat} {st ne : Bool} {L : Nat} {s0 s : IState}

/-- replacing the stack -/
theorem Rel.withStack (h : Rel k st ne L s0 s) (d : List Nat) {ne' : Bool} (hd : d.length ≤ 1024)
    (hsafe : measure s < U64 - 1 ∨ d = []) (hne : ne' = true → d ≠ []) :
    Rel k st ne' L s0 { s with stack := d } :=
  { h with stack := hd, safe := hsafe, nonempty := hne }

theorem popN_sat (h : Rel k st ne L s0 s) (j : Nat) :
    Exec.Sat (popN j s) (Halt s0)
      (fun vs s' => Rel k (st || decide (1 ≤ j)) false L s0 s' ∧ vs.length = j) := by
  unfold popN
  by_cases hj : j ≤ s.stack.length
  · obtain ⟨d', vs, he, hl, hv⟩ := popMacro_ok j s.stack hj
    rw [he]
    refine sat_ok ⟨?_, hv⟩
    have hstk := h.stack
    show Rel k (st || decide (1 ≤ j)) false L s0 { s with stack := d' }
    have hmeq : measure { s with stack := d' } = measure s := rfl
    by_cases hj1 : 1 ≤ j
    · -- the stack was not empty: `measure < u64::MAX`
      have hstrict : measure s < U64 - 1 := by
        rcases h.safe with h1 | h1
        · exact h1
        · rw [h1] at hj; simp at hj; omega
      exact
        { h with
          stack := by rw [hl]; omega
          strict := fun _ => hstrict
          safe := Or.inl hstrict
          nonempty := fun e => by cases e }
    · have hj0 : j = 0 := by omega
      have hd : d'.length = s.stack.length := by rw [hl, hj0]; rfl
      exact
        { h with
          stack := by rw [hd]; exact hstk
          strict := by
            intro e
            have : st = true := by
              cases hst : st with
              | true => rfl
              | false => rw [hst] at e; simp [hj1] at e
            exact h.strict this
          safe := by
            rcases h.safe with h1 | h1
            · exact Or.inl h1
            · right
              have : d'.length = 0 := by rw [hd, h1]; rfl
              exact List.length_eq_zero_iff.mp this
          nonempty := fun e => by cases e }
  · rw [popMacro_underflow j s.stack (by omega)]
    exact sat_halt h.toCore.toHalt

theorem pop1_sat (h : Rel k st ne L s0 s) :
    Exec.Sat (pop1 s) (Halt s0) (fun _ s' => Rel k true false L s0 s') := by
  unfold pop1
  refine sat_bind (popN_sat h 1) ?_
  intro vs s' ⟨hr, hl⟩
  match vs, hl with
  | [a], _ => exact sat_ok (hr.weaken (Nat.le_refl _) (fun _ => by simp) (fun e => e) (Nat.le_refl _))

theorem pop2_sat (h : Rel k st ne L s0 s) :
    Exec.Sat (pop2 s) (Halt s0) (fun _ s' => Rel k true false L s0 s') := by
  unfold pop2
  refine sat_bind (popN_sat h 2) ?_
  intro vs s' ⟨hr, hl⟩
  match vs, hl with
  | [a, b], _ => exact sat_ok (hr.weaken (Nat.le_refl _) (fun _ => by simp) (fun e => e) (Nat.le_refl _))

theorem pop3_sat (h : Rel k st ne L s0 s) :
    Exec.Sat (pop3 s) (Halt s0) (fun _ s' => Rel k true false L s0 s') := by
  unfold pop3
  refine sat_bind (popN_sat h 3) ?_
  intro vs s' ⟨hr, hl⟩
  match vs, hl with
  | [a, b, c], _ => exact sat_ok (hr.weaken (Nat.le_refl _) (fun _ => by simp) (fun e => e) (Nat.le_refl _))

theorem pop4_sat (h : Rel k st ne L s0 s) :
    Exec.Sat (pop4 s) (Halt s0) (fun _ s' => Rel k true false L s0 s') := by
  unfold pop4
  refine sat_bind (popN_sat h 4) ?_
  intro vs s' ⟨hr, hl⟩
  match vs, hl with
  | [a, b, c, d], _ => exact sat_ok (hr.weaken (Nat.le_refl _) (fun _ => by simp) (fun e => e) (Nat.le_refl _))

theorem popAddress_sat (h : Rel k st ne L s0 s) :
    Exec.Sat (popAddress s) (Halt s0) (fun _ s' => Rel k true false L s0 s') := by
  unfold popAddress
  exact sat_bind (pop1_sat h) (fun _ _ hq => sat_ok hq)

theorem popTop_sat (h : Rel k st ne L s0 s) (j : Nat) (hj : 1 ≤ j) :
    Exec.Sat (popTop j s) (Halt s0)
      (fun p s' => Rel k true true L s0 s' ∧ p.1.length = j - 1) := by
  unfold popTop
  by_cases hlen : s.stack.length < j
  · rw [if_pos hlen]; exact sat_halt h.toCore.toHalt
  · rw [if_neg hlen]
    obtain ⟨d', vs, he, hl, hv⟩ := popNUnsafe_ok (j - 1) s.stack (by omega)
    rw [he]
    simp only []
    have hd0 : 0 < d'.length := by rw [hl]; omega
    obtain ⟨t, ht⟩ := peek0_ok d' hd0
    rw [ht]
    refine sat_ok ⟨?_, hv⟩
    have hstrict : measure s < U64 - 1 := by
      rcases h.safe with h1 | h1
      · exact h1
      · rw [h1] at hlen; simp at hlen; omega
    have hstk := h.stack
    show Rel k true true L s0 { s with stack := d' }
    exact
      { h with
        stack := by rw [hl]; omega
        strict := fun _ => hstrict
        safe := Or.inl hstrict
        nonempty := fun _ hnil => by
          have hnil' : d' = [] := hnil
          rw [hnil'] at hd0; simp at hd0 }

theorem popTop1_sat (h : Rel k st ne L s0 s) :
    Exec.Sat (popTop1 s) (Halt s0) (fun _ s' => Rel k true true L s0 s') := by
  unfold popTop1
  refine sat_bind (popTop_sat h 1 (Nat.le_refl _)) ?_
  intro p s' ⟨hr, _⟩
  exact sat_ok hr

theorem popTop2_sat (h : Rel k st ne L s0 s) :
    Exec.Sat (popTop2 s) (Halt s0) (fun _ s' => Rel k true true L s0 s') := by
  unfold popTop2
  refine sat_bind (popTop_sat h 2 (by omega)) ?_
  intro p s' ⟨hr, hl⟩
  obtain ⟨vs, t⟩ := p
  match vs, hl with
  | [a], _ => exact sat_ok hr

theorem popTop3_sat (h : Rel k st ne L s0 s) :
    Exec.Sat (popTop3 s) (Halt s0) (fun _ s' => Rel k true true L s0 s') := by
  unfold popTop3
  refine sat_bind (popTop_sat h 3 (by omega)) ?_
  intro p s' ⟨hr, hl⟩
  obtain ⟨vs, t⟩ := p
  match vs, hl with
  | [a, b], _ => exact sat_ok hr

theorem setTop_sat (h : Rel k st true L s0 s) (v : Nat) :
    Exec.Sat (setTop v s) (Halt s0) (fun _ s' => Rel k st true L s0 s') := by
  unfold setTop
  have hne := h.nonempty rfl
  have hpos : 0 < s.stack.length := List.length_pos_iff.mpr hne
  obtain ⟨d', he, hl⟩ := set0_ok s.stack v hpos
  rw [he]
  refine sat_ok ?_
  show Rel k st true L s0 { s with stack := d' }
  have hstrict : measure s < U64 - 1 := by
    rcases h.safe with h1 | h1
    · exact h1
    · exact absurd h1 hne
  exact
    { h with
      stack := by rw [hl]; exact h.stack
      safe := Or.inl hstrict
      nonempty := fun _ hnil => by
        have hnil' : d' = [] := hnil
        rw [hnil'] at hl; simp at hl; omega }

theorem push_sat (h : Rel k true ne L s0 s) (v : Nat) :
    Exec.Sat (push v s) (Halt s0) (fun _ s' => Rel k true false L s0 s') := by
  unfold push Stack.push
  by_cases hfull : s.stack.length = Stack.STACK_LIMIT
  · rw [if_pos hfull]; exact sat_halt h.toCore.toHalt
  · rw [if_neg hfull]
    refine sat_ok ?_
    show Rel k true false L s0 { s with stack := s.stack ++ [v] }
    have hstk := h.stack
    exact
      { h with
        stack := by
          simp only [List.length_append, List.length_cons, List.length_nil]
          unfold Stack.STACK_LIMIT at hfull; omega
        safe := Or.inl (h.strict rfl)
        nonempty := fun e => by cases e }

/-- a `Stack` method through `if let Err(r) = stack.f(..) { result = r }`: any function that is one of the
operations of `Model.Stack.step` (their no-panic / length theorems are C12's) -/
theorem stackCall_sat (h : Rel k true ne L s0 s) (f : List Nat → List Nat × Stack.Res Unit)
    (op : Stack.Op) (hp : op.pre)
    (hf : ∀ d, (Stack.step d op).1 = (f d).1 ∧ ((f d).2 = .panic → (Stack.step d op).2 = .panic)
      ∧ ((f d).2 = .ub → (Stack.step d op).2 = .ub)) :
    Exec.Sat (stackCall f s) (Halt s0) (fun _ s' => Rel k true false L s0 s') := by
  have hstk := h.stack
  have hlen := Proofs.Stack.step_len_le s.stack op (by simpa [Stack.STACK_LIMIT] using hstk) hp
  have hnp := Proofs.Stack.step_no_panic_ub s.stack op (by simpa [Stack.STACK_LIMIT] using hstk) hp
  obtain ⟨h1, h2, h3⟩ := hf s.stack
  rw [h1] at hlen
  unfold stackCall
  cases hfs : f s.stack with
  | mk d r =>
    rw [hfs] at hlen h2 h3
    cases r with
    | ok u =>
      refine sat_ok ?_
      show Rel k true false L s0 { s with stack := d }
      exact
        { h with
          stack := by simpa [Stack.STACK_LIMIT] using hlen
          safe := Or.inl (h.strict rfl)
          nonempty := fun e => by cases e }
    | err e => exact sat_halt h.toCore.toHalt
    | panic => exact absurd (h2 rfl) hnp.1
    | ub => exact absurd (h3 rfl) hnp.2

/-! ## memory -/

/-- `resize_memory!(interp, off, len)` -/
theorem resizeMem_sat (h : Rel k true ne L s0 s) (off len : Nat) (ho : off < U64) (hl : len < U64) :
    Exec.Sat (resizeMem off len s) (Halt s0)
      (fun _ s' => Rel k true ne (max L (off + len)) s0 s') := by
  have hstrict := h.strict rfl
  have hspec := resizeMacro_spec (rem := s.gas.remaining) (off := off) (len_ := len) h.memWF h.memCk ho hl
    (by unfold measure mcost at hstrict; exact hstrict)
  unfold resizeMem
  rcases hspec with hfail | ⟨m', rem', he, hwf, hck, hcks, hcov, hgrow, hmeas⟩
  · rw [hfail]; exact sat_halt h.toCore.toHalt
  · rw [he]
    refine sat_ok ?_
    show Rel k true ne (max L (off + len)) s0
      { s with mem := m', gas := { s.gas with remaining := rem' } }
    have hmeq : measure { s with mem := m', gas := { s.gas with remaining := rem' } } = measure s := by
      unfold measure mcost; exact hmeas
    have hL := h.memL
    exact
      { h with
        ck := by show m'.lastCheckpoint = _; rw [hck]; exact h.ck
        cks := by show m'.checkpoints = _; rw [hcks]; exact h.cks
        memWF := hwf
        memCk := by show m'.lastCheckpoint ≤ _; rw [hck]; exact h.memCk
        memL := by show max L (off + len) ≤ clen m'; omega
        grow := by show clen s0.mem ≤ clen m'; have := h.grow; omega
        meas := by rw [hmeq]; exact h.meas
        strict := fun _ => by rw [hmeq]; exact hstrict
        safe := Or.inl (by rw [hmeq]; exact hstrict) }

/-- a write that keeps the shape of the buffer -/
theorem memWrite_sat (h : Rel k st ne L s0 s) (r : Memory.Res Memory.SharedMemory)
    (hf : ∃ m', r = .ok m' ∧ Shape s.mem m') :
    Exec.Sat (memRes r (fun m => Exec.ok () { s with mem := m })) (Halt s0)
      (fun _ s' => Rel k st ne L s0 s') := by
  obtain ⟨m', he, hs⟩ := hf
  rw [he]
  refine sat_ok ?_
  show Rel k st ne L s0 { s with mem := m' }
  have hmeq : measure { s with mem := m' } = measure s := by
    unfold measure mcost; rw [cost_shape hs]
  exact
    { h with
      ck := by show m'.lastCheckpoint = _; rw [hs.1]; exact h.ck
      cks := by show m'.checkpoints = _; rw [hs.2.1]; exact h.cks
      memWF := WF_shape h.memWF hs
      memCk := by show m'.lastCheckpoint ≤ _; rw [hs.1]; exact h.memCk
      memL := by show L ≤ clen m'; rw [clen_shape hs]; exact h.memL
      grow := by show clen s0.mem ≤ clen m'; rw [clen_shape hs]; exact h.grow
      meas := by rw [hmeq]; exact h.meas
      strict := fun e => by rw [hmeq]; exact h.strict e
      safe := by rw [hmeq]; exact h.safe }

theorem memSetU256_sat (h : Rel k st ne L s0 s) (off v : Nat) (hin : off + 32 ≤ L) :
    Exec.Sat (memSetU256 off v s) (Halt s0) (fun _ s' => Rel k st ne L s0 s') :=
  memWrite_sat h (Memory.setU256 s.mem off v) (setU256_ok h.memWF (Nat.le_trans hin h.memL))

theorem memSetByte_sat (h : Rel k st ne L s0 s) (off b : Nat) (hin : off + 1 ≤ L) :
    Exec.Sat (memSetByte off b s) (Halt s0) (fun _ s' => Rel k st ne L s0 s') :=
  memWrite_sat h (Memory.setByte s.mem off b) (setByte_ok h.memWF (Nat.le_trans hin h.memL))

theorem memSetData_sat (h : Rel k st ne L s0 s) (moff dOff len : Nat) (data : List Nat)
    (hd : data.length ≤ Memory.ISIZE_MAX) (hin : moff + len ≤ L) :
    Exec.Sat (memSetData moff dOff len data s) (Halt s0) (fun _ s' => Rel k st ne L s0 s') :=
  memWrite_sat h (Memory.setData s.mem moff dOff len data) (setData_ok h.memWF hd (Nat.le_trans hin h.memL))

theorem memCopy_sat (h : Rel k st ne L s0 s) (dst src len : Nat)
    (h1 : src + len ≤ L) (h2 : dst + len ≤ L) :
    Exec.Sat (memCopy dst src len s) (Halt s0) (fun _ s' => Rel k st ne L s0 s') :=
  memWrite_sat h (Memory.copy s.mem dst src len)
    (copy_ok h.memWF (Nat.le_trans h1 h.memL) (Nat.le_trans h2 h.memL))

/-- `shared_memory.set(offset, value)` as used by `insert_call_outcome` -/
theorem memSet_sat (h : Rel k st ne L s0 s) (off : Nat) (val : List Nat)
    (hin : val = [] ∨ off + val.length ≤ L) :
    Exec.Sat (liftMemWrite (fun m => Memory.set m off val) s) (Halt s0) (fun _ s' => Rel k st ne L s0 s') :=
  memWrite_sat h (Memory.set s.mem off val)
    (set_ok h.memWF (hin.elim Or.inl (fun h1 => Or.inr (Nat.le_trans h1 h.memL))))

theorem memSlice_sat (h : Rel k st ne L s0 s) (off len : Nat) (hin : off + len ≤ L) :
    Exec.Sat (memSlice off len s) (Halt s0) (fun bs s' => s = s' ∧ bs.length = len) := by
  obtain ⟨bs, hb, hl⟩ := slice_ok (size := len) h.memWF (Nat.le_trans hin h.memL)
  unfold memSlice; rw [hb]; exact sat_ok ⟨rfl, hl⟩

theorem memSliceRange_sat (h : Rel k st ne L s0 s) (a b : Nat) (h1 : a ≤ b) (h2 : b ≤ L) :
    Exec.Sat (memSliceRange a b s) (Halt s0) (fun bs s' => s = s' ∧ bs.length = b - a) := by
  obtain ⟨bs, hb, hl⟩ := sliceRange_ok h.memWF h1 (Nat.le_trans h2 h.memL)
  unfold memSliceRange; rw [hb]; exact sat_ok ⟨rfl, hl⟩

theorem memGetU256_sat (h : Rel k st ne L s0 s) (off : Nat) (hin : off + 32 ≤ L) :
    Exec.Sat (memGetU256 off s) (Halt s0) (fun _ s' => s = s') := by
  obtain ⟨v, hv⟩ := getU256_ok h.memWF (Nat.le_trans hin h.memL)
  unfold memGetU256; rw [hv]; exact sat_ok rfl

end prims

end Revm.Proofs.Interp
