import Revm.Model.Memory
import Revm.Spec.Memory
/-! Proofs for C11: the shared buffer with checkpoints refines a stack of independent frames. -/
set_option linter.unusedSimpArgs false
set_option linter.unusedVariables false
namespace Revm.Proofs.Memory
open Revm Revm.Model.Memory
open Revm.Spec.Memory (Frame Frames)

/-! ## the abstraction -/

/-- cut `buf` at the checkpoints (head = innermost): the frames, innermost first -/
def segs (buf : List Nat) : List Nat → Frames
  | [] => [buf]
  | c :: cs => buf.drop c :: segs (buf.take c) cs

/-- the frame stack a `SharedMemory` stands for (head = running context) -/
def abs (m : SharedMemory) : Frames := segs m.buffer m.checkpoints

/-- checkpoints are in bounds and ordered -/
def WFc : Nat → List Nat → Prop
  | _, [] => True
  | n, c :: cs => c ≤ n ∧ WFc c cs

def top : List Nat → Nat
  | [] => 0
  | c :: _ => c

/-- the representation invariant stated in the struct's doc comments -/
def WF (m : SharedMemory) : Prop :=
  WFc m.buffer.length m.checkpoints ∧ m.lastCheckpoint = top m.checkpoints
    ∧ m.buffer.length ≤ ISIZE_MAX   -- a `Vec` never holds more than `isize::MAX` bytes

/-- the running context, as a list -/
def ctx (m : SharedMemory) : List Nat := m.buffer.drop m.lastCheckpoint

theorem WFc_mono {n n' : Nat} {cs : List Nat} (h : WFc n cs) (hn : n ≤ n') : WFc n' cs := by
  cases cs with
  | nil => trivial
  | cons c cs => exact ⟨Nat.le_trans h.1 hn, h.2⟩

theorem WF_le {m : SharedMemory} (h : WF m) : m.lastCheckpoint ≤ m.buffer.length := by
  obtain ⟨h1, h2, _⟩ := h
  rw [h2]
  cases hc : m.checkpoints with
  | nil => simp [top]
  | cons c cs => rw [hc] at h1; exact h1.1

theorem abs_head {m : SharedMemory} (h : WF m) : ∃ rest, abs m = ctx m :: rest := by
  obtain ⟨h1, h2, _⟩ := h
  unfold abs ctx
  cases hc : m.checkpoints with
  | nil => rw [hc] at h2; simp [top] at h2; simp [segs, h2]
  | cons c cs => rw [hc] at h2; simp [top] at h2; simp [segs, h2]

/-- replacing the running context by `x` -/
def replaceCtx (m : SharedMemory) (x : List Nat) : SharedMemory :=
  { m with buffer := m.buffer.take m.lastCheckpoint ++ x }

theorem replaceCtx_wf {m : SharedMemory} (h : WF m) (x : List Nat)
    (hx : m.lastCheckpoint + x.length ≤ ISIZE_MAX) : WF (replaceCtx m x) := by
  have hle := WF_le h
  obtain ⟨h1, h2, h3⟩ := h
  refine ⟨?_, h2, ?_⟩
  rotate_left
  · show (m.buffer.take m.lastCheckpoint ++ x).length ≤ ISIZE_MAX
    simp [List.length_append, List.length_take]; omega
  show WFc (m.buffer.take m.lastCheckpoint ++ x).length m.checkpoints
  cases hc : m.checkpoints with
  | nil => trivial
  | cons c cs =>
    rw [hc] at h1 h2; simp [top] at h2
    refine ⟨?_, h1.2⟩
    simp [List.length_append, List.length_take]; omega

theorem replaceCtx_abs {m : SharedMemory} (h : WF m) (x : List Nat) :
    abs (replaceCtx m x) = x :: (abs m).tail := by
  have hle := WF_le h
  obtain ⟨h1, h2, _⟩ := h
  unfold abs replaceCtx
  cases hc : m.checkpoints with
  | nil =>
    rw [hc] at h2; simp [top] at h2
    simp [segs, h2]
  | cons c cs =>
    rw [hc] at h2; simp [top] at h2
    rw [h2] at hle
    have hl : (List.take c m.buffer).length = c := by simp [List.length_take]; omega
    simp only [segs, h2, List.tail_cons]
    rw [List.drop_left' hl, List.take_left' hl]

theorem replaceCtx_ctx {m : SharedMemory} (h : WF m) (x : List Nat) : ctx (replaceCtx m x) = x := by
  have hle := WF_le h
  unfold ctx replaceCtx
  have hl : (List.take m.lastCheckpoint m.buffer).length = m.lastCheckpoint := by
    simp [List.length_take]; omega
  simp only []
  exact List.drop_left' hl

theorem buffer_split (m : SharedMemory) :
    m.buffer = m.buffer.take m.lastCheckpoint ++ ctx m := by
  unfold ctx; exact (List.take_append_drop _ _).symm

theorem ctx_length {m : SharedMemory} : (ctx m).length = m.buffer.length - m.lastCheckpoint := by
  unfold ctx; simp

/-! ## absolute writes/reads in `pre ++ c` at `pre.length + off` are relative ones in `c` -/

theorem writeAt_shift (pre c : List Nat) (off : Nat) (val : List Nat) :
    writeAt (pre ++ c) (pre.length + off) val = pre ++ writeAt c off val := by
  unfold writeAt
  have h1 : List.take (pre.length + off) (pre ++ c) = pre ++ List.take off c := by
    rw [List.take_append]
    simp [List.take_of_length_le]
  have h2 : List.drop (pre.length + off + val.length) (pre ++ c) = List.drop (off + val.length) c := by
    rw [List.drop_append]
    have : pre.length + off + val.length - pre.length = off + val.length := by omega
    rw [this, List.drop_of_length_le (by omega)]; simp
  rw [h1, h2]; simp [List.append_assoc]

theorem readAt_shift (pre c : List Nat) (off n : Nat) :
    readAt (pre ++ c) (pre.length + off) n = readAt c off n := by
  unfold readAt
  rw [List.drop_append]
  have : pre.length + off - pre.length = off := by omega
  rw [this, List.drop_of_length_le (by omega)]; simp

theorem writeAt_buffer {m : SharedMemory} (h : WF m) (off : Nat) (val : List Nat) :
    writeAt m.buffer (m.lastCheckpoint + off) val
      = m.buffer.take m.lastCheckpoint ++ writeAt (ctx m) off val := by
  have hle := WF_le h
  have hl : (List.take m.lastCheckpoint m.buffer).length = m.lastCheckpoint := by
    simp [List.length_take]; omega
  have := writeAt_shift (m.buffer.take m.lastCheckpoint) (ctx m) off val
  rw [hl, ← buffer_split] at this
  exact this

theorem readAt_buffer {m : SharedMemory} (h : WF m) (off n : Nat) :
    readAt m.buffer (m.lastCheckpoint + off) n = readAt (ctx m) off n := by
  have hle := WF_le h
  have hl : (List.take m.lastCheckpoint m.buffer).length = m.lastCheckpoint := by
    simp [List.length_take]; omega
  have := readAt_shift (m.buffer.take m.lastCheckpoint) (ctx m) off n
  rw [hl, ← buffer_split] at this
  exact this

theorem writeAt_length (c : List Nat) (off : Nat) (val : List Nat) (h : off + val.length ≤ c.length) :
    (writeAt c off val).length = c.length := by
  unfold writeAt; simp [List.length_append, List.length_take, List.length_drop]; omega


/-! ## every state-changing call rewrites the running context only -/

theorem mod_wrap (a b u : Nat) (ha : a < u) (hb : b < u) (h : ¬ a + b < u) :
    (a + b) % u = a + b - u := by
  rw [Nat.mod_eq_sub_mod (by omega), Nat.mod_eq_of_lt (by omega)]

theorem isize_lt_u64 : ISIZE_MAX < U64 := by unfold ISIZE_MAX; rw [U64_val]; decide

/-- `resize` without usize wrap = `resizeF` on the running context -/
theorem resize_head {m m' : SharedMemory} {n : Nat} (h : WF m) (hn : m.lastCheckpoint + n < U64)
    (hr : resize m n = .ok m') :
    m' = replaceCtx m (Spec.Memory.resizeF n (ctx m)) ∧ m.lastCheckpoint + n ≤ ISIZE_MAX := by
  have hle := WF_le h
  have h3 := h.2.2
  have hcl := @ctx_length m
  unfold resize at hr
  rw [Nat.mod_eq_of_lt hn] at hr
  simp only [] at hr
  by_cases h1 : m.lastCheckpoint + n ≤ m.buffer.length
  · rw [if_pos h1] at hr
    injection hr with hr
    refine ⟨?_, by omega⟩
    rw [← hr]; unfold replaceCtx Spec.Memory.resizeF
    congr 1
    rw [List.take_add]
    have : n - (ctx m).length = 0 := by omega
    rw [this]; simp [ctx]
  · rw [if_neg h1] at hr
    by_cases h2 : m.lastCheckpoint + n > ISIZE_MAX
    · rw [if_pos h2] at hr; cases hr
    · rw [if_neg h2] at hr
      injection hr with hr
      refine ⟨?_, by omega⟩
      rw [← hr]; unfold replaceCtx Spec.Memory.resizeF
      congr 1
      have e1 : List.take n (ctx m) = ctx m := List.take_of_length_le (by omega)
      have e2 : n - (ctx m).length = m.lastCheckpoint + n - m.buffer.length := by omega
      rw [e1, e2, ← List.append_assoc, ← buffer_split]

/-- `slice_mut(offset, val.len()).copy_from_slice(val)` succeeds iff the range is inside the running
context, and then it is `writeAt` on the context -/
theorem writeSlice_head {m m' : SharedMemory} {off : Nat} {val : List Nat} (h : WF m)
    (ho : off < U64) (hv : val.length < U64) (hr : writeSlice m off val = .ok m') :
    off + val.length ≤ (ctx m).length ∧ m' = replaceCtx m (writeAt (ctx m) off val) := by
  have hle := WF_le h
  have hcl := @ctx_length m
  unfold writeSlice at hr
  simp only [] at hr
  rw [if_pos hle] at hr
  by_cases hc : off ≤ (off + val.length) % U64 ∧ (off + val.length) % U64 ≤ m.buffer.length - m.lastCheckpoint
  · rw [if_pos hc] at hr
    injection hr with hr
    have hnw : off + val.length < U64 := by
      by_cases hw : off + val.length < U64
      · exact hw
      · exfalso
        have : (off + val.length) % U64 = off + val.length - U64 := by
          rw [Nat.mod_eq_sub_mod (by omega), Nat.mod_eq_of_lt (by omega)]
        omega
    rw [Nat.mod_eq_of_lt hnw] at hc
    refine ⟨by omega, ?_⟩
    rw [← hr]; unfold replaceCtx
    congr 1
    exact writeAt_buffer h off val
  · rw [if_neg hc] at hr; cases hr

theorem writeSlice_ok {m : SharedMemory} {off : Nat} {val : List Nat} (h : WF m)
    (hin : off + val.length ≤ (ctx m).length) :
    writeSlice m off val = .ok (replaceCtx m (writeAt (ctx m) off val)) := by
  have hle := WF_le h
  have h3 := h.2.2
  have hcl := @ctx_length m
  have hI := isize_lt_u64
  have hnw : off + val.length < U64 := by omega
  unfold writeSlice
  simp only []
  rw [if_pos hle, Nat.mod_eq_of_lt hnw, if_pos (by omega)]
  unfold replaceCtx
  congr 2
  exact writeAt_buffer h off val

/-- `set` = `writeF` on the running context (an empty value is accepted at any offset) -/
theorem set_head {m m' : SharedMemory} {off : Nat} {val : List Nat} (h : WF m)
    (ho : off < U64) (hv : val.length < U64) (hne : val ≠ []) (hr : Model.Memory.set m off val = .ok m') :
    ∃ f', Spec.Memory.writeF off val (ctx m) = some f' ∧ m' = replaceCtx m f' := by
  unfold Model.Memory.set at hr
  have : val.isEmpty = false := by cases val <;> simp_all
  rw [this] at hr
  simp only [Bool.false_eq_true, if_false] at hr
  obtain ⟨h1, h2⟩ := writeSlice_head h ho hv hr
  refine ⟨writeAt (ctx m) off val, ?_, h2⟩
  unfold Spec.Memory.writeF; rw [if_pos h1]; rfl

theorem set_empty (m : SharedMemory) (off : Nat) : Model.Memory.set m off [] = .ok m := by
  unfold Model.Memory.set; simp

/-- `copy` = memmove inside the running context; fails (panics) exactly outside it -/
theorem copy_head {m m' : SharedMemory} {dst src len : Nat} (h : WF m)
    (hs : src < U64) (hl : len < U64) (hr : copy m dst src len = .ok m') :
    ∃ f', Spec.Memory.copyF dst src len (ctx m) = some f' ∧ m' = replaceCtx m f' := by
  have hle := WF_le h
  have hcl := @ctx_length m
  unfold copy at hr
  simp only [] at hr
  rw [if_pos hle] at hr
  by_cases h1 : src > (src + len) % U64
  · rw [if_pos h1] at hr; cases hr
  · rw [if_neg h1] at hr
    have hnw : src + len < U64 := by
      by_cases hw : src + len < U64
      · exact hw
      · exfalso
        have : (src + len) % U64 = src + len - U64 := by
          rw [Nat.mod_eq_sub_mod (by omega), Nat.mod_eq_of_lt (by omega)]
        omega
    rw [Nat.mod_eq_of_lt hnw] at hr h1
    by_cases h2 : src + len > m.buffer.length - m.lastCheckpoint
    · rw [if_pos h2] at hr; cases hr
    · rw [if_neg h2] at hr
      have hcnt : src + len - src = len := by omega
      rw [hcnt] at hr
      by_cases h3 : dst > m.buffer.length - m.lastCheckpoint - len
      · rw [if_pos h3] at hr; cases hr
      · rw [if_neg h3] at hr
        injection hr with hr
        have hrl : (readAt (ctx m) src len).length = len := by
          unfold readAt; simp [List.length_take, List.length_drop]; omega
        refine ⟨writeAt (ctx m) dst (readAt (ctx m) src len), ?_, ?_⟩
        · unfold Spec.Memory.copyF; rw [if_pos (by omega)]
          unfold Spec.Memory.writeF
          have : ((ctx m).drop src |>.take len).length = len := hrl
          rw [if_pos (by rw [this]; omega)]; rfl
        · rw [← hr]; unfold replaceCtx
          congr 1
          rw [readAt_buffer h, writeAt_buffer h]


theorem replaceCtx_replaceCtx {m : SharedMemory} (h : WF m) (y x : List Nat) :
    replaceCtx (replaceCtx m y) x = replaceCtx m x := by
  have hle := WF_le h
  have hl : (List.take m.lastCheckpoint m.buffer).length = m.lastCheckpoint := by
    simp [List.length_take]; omega
  unfold replaceCtx
  simp only []
  rw [List.take_left' hl]

theorem writeAt_writeAt (c : List Nat) (o : Nat) (a b : List Nat) (h : o + a.length ≤ c.length) :
    writeAt (writeAt c o a) (o + a.length) b = writeAt c o (a ++ b) := by
  unfold writeAt
  have hl : (List.take o c ++ a).length = o + a.length := by
    simp [List.length_append, List.length_take]; omega
  have e1 : List.take (o + a.length) (List.take o c ++ a ++ List.drop (o + a.length) c)
      = List.take o c ++ a := List.take_left' hl
  have e2 : List.drop (o + a.length + b.length) (List.take o c ++ a ++ List.drop (o + a.length) c)
      = List.drop (o + (a ++ b).length) c := by
    rw [List.drop_append, hl, List.drop_of_length_le (by omega)]
    have : o + a.length + b.length - (o + a.length) = b.length := by omega
    rw [this, List.drop_drop]; simp [List.length_append, Nat.add_assoc]
  rw [e1, e2]; simp [List.append_assoc]

theorem take_min_length (l : List Nat) (n : Nat) : l.take n = l.take (min n l.length) := by
  by_cases h : n ≤ l.length
  · rw [Nat.min_eq_left h]
  · rw [Nat.min_eq_right (by omega), List.take_of_length_le (by omega), List.take_length]

/-- `set_data` as coded (two branches, two writes) = one write of the zero-padded data slice -/
theorem setData_head {m m' : SharedMemory} {moff dOff len : Nat} {data : List Nat} (h : WF m)
    (h1 : moff < U64) (h2 : dOff < U64) (h3 : len < U64) (h4 : data.length < U64)
    (hr : setData m moff dOff len data = .ok m') :
    ∃ f', Spec.Memory.setDataF moff dOff len data (ctx m) = some f' ∧ m' = replaceCtx m f' := by
  have hI := isize_lt_u64
  have hle := WF_le h
  have hW3 := h.2.2
  have hcl := @ctx_length m
  unfold setData at hr
  by_cases hb : dOff ≥ data.length
  · rw [if_pos hb] at hr
    obtain ⟨ha, hb'⟩ := writeSlice_head h h1 (by simp; exact h3) hr
    simp at ha
    refine ⟨writeAt (ctx m) moff (List.replicate len 0), ?_, hb'⟩
    unfold Spec.Memory.setDataF Spec.Memory.paddedSlice Spec.Memory.writeF
    have : List.drop dOff data = [] := List.drop_of_length_le hb
    simp [this]
    constructor
    · exact ha
    · unfold writeAt; simp
  · rw [if_neg hb] at hr
    simp only [] at hr
    by_cases hu : min ((dOff + len) % U64) data.length < dOff
    · rw [if_pos hu] at hr; cases hr
    · rw [if_neg hu] at hr
      have hnw : dOff + len < U64 := by
        by_cases hw : dOff + len < U64
        · exact hw
        · exfalso
          have hm := mod_wrap dOff len U64 h2 h3 hw
          have := Nat.min_le_left ((dOff + len) % U64) data.length
          generalize U64 = u at *
          omega
      rw [Nat.mod_eq_of_lt hnw] at hr hu
      generalize hdl : min (dOff + len) data.length - dOff = dataLen at hr
      have hdl1 : dataLen ≤ len := by
        have := Nat.min_le_left (dOff + len) data.length; omega
      have hdl2 : dOff + dataLen ≤ data.length := by
        have := Nat.min_le_right (dOff + len) data.length; omega
      have hdl3 : dataLen = min len (data.length - dOff) := by
        rw [← hdl]; omega
      have hr1l : (readAt data dOff dataLen).length = dataLen := by
        unfold readAt; simp [List.length_take, List.length_drop]; omega
      cases hw1 : writeSlice m moff (readAt data dOff dataLen) with
      | panic => rw [hw1] at hr; cases hr
      | ub => rw [hw1] at hr; cases hr
      | ok m1 =>
        rw [hw1] at hr
        simp only [] at hr
        obtain ⟨ha, hm1⟩ := writeSlice_head h h1 (by rw [hr1l]; omega) hw1
        rw [hr1l] at ha
        have hwl : (writeAt (ctx m) moff (readAt data dOff dataLen)).length = (ctx m).length :=
          writeAt_length _ _ _ (by rw [hr1l]; exact ha)
        have hwf1 : WF m1 := by
          rw [hm1]; exact replaceCtx_wf h _ (by rw [hwl]; omega)
        have hctx1 : ctx m1 = writeAt (ctx m) moff (readAt data dOff dataLen) := by
          rw [hm1]; exact replaceCtx_ctx h _
        have hmod : (moff + dataLen) % U64 = moff + dataLen := Nat.mod_eq_of_lt (by omega)
        rw [hmod] at hr
        obtain ⟨hc, hm'⟩ := writeSlice_head hwf1 (by omega) (by simp; omega) hr
        simp at hc
        rw [hctx1, hwl] at hc
        rw [hctx1, hm1, replaceCtx_replaceCtx h] at hm'
        have hww := writeAt_writeAt (ctx m) moff (readAt data dOff dataLen)
          (List.replicate (len - dataLen) 0) (by rw [hr1l]; exact ha)
        rw [hr1l] at hww
        rw [hww] at hm'
        have hps : Spec.Memory.paddedSlice data dOff len
            = readAt data dOff dataLen ++ List.replicate (len - dataLen) 0 := by
          unfold Spec.Memory.paddedSlice readAt
          have e : List.take len (List.drop dOff data) = List.take dataLen (List.drop dOff data) := by
            rw [take_min_length, List.length_drop, ← hdl3]
          simp only []
          rw [e]
          have : (List.take dataLen (List.drop dOff data)).length = dataLen := hr1l
          rw [this]
        refine ⟨_, ?_, hm'⟩
        unfold Spec.Memory.setDataF Spec.Memory.writeF
        rw [hps]
        have hlen : (readAt data dOff dataLen ++ List.replicate (len - dataLen) 0).length = len := by
          simp [List.length_append, hr1l]; omega
        rw [hlen, if_pos (by omega)]
        unfold writeAt; rw [hlen]


/-! ## contexts -/

theorem new_wf : WF Model.Memory.new := by
  refine ⟨trivial, rfl, ?_⟩; simp [Model.Memory.new]

theorem abs_new : abs Model.Memory.new = [[]] := rfl

theorem newContext_wf {m : SharedMemory} (h : WF m) : WF (newContext m) := by
  obtain ⟨h1, h2, h3⟩ := h
  exact ⟨⟨Nat.le_refl _, h1⟩, rfl, h3⟩

/-- a child context starts empty and leaves every existing frame where it is -/
theorem abs_newContext (m : SharedMemory) : abs (newContext m) = [] :: abs m := by
  unfold abs newContext; simp [segs]

theorem segs_ne_nil (b : List Nat) (cs : List Nat) : ∃ g rest, segs b cs = g :: rest := by
  cases cs with
  | nil => exact ⟨b, [], rfl⟩
  | cons c cs => exact ⟨_, _, rfl⟩

theorem freeContext_step {m m' : SharedMemory} (h : WF m) (hr : freeContext m = .ok m') :
    WF m' ∧ Spec.Memory.step .pop (abs m) = some (abs m') := by
  obtain ⟨h1, h2, h3⟩ := h
  unfold freeContext at hr
  cases hc : m.checkpoints with
  | nil =>
    rw [hc] at hr; simp only [] at hr
    injection hr with hr; subst hr
    refine ⟨⟨h1, h2, h3⟩, ?_⟩
    unfold abs; rw [hc]; rfl
  | cons c cs =>
    rw [hc] at hr h1; simp only [] at hr
    rw [if_pos h1.1] at hr
    injection hr with hr; subst hr
    have hl : (List.take c m.buffer).length = c := by simp [List.length_take]; exact Nat.min_eq_left h1.1
    refine ⟨⟨?_, ?_, ?_⟩, ?_⟩
    · show WFc (List.take c m.buffer).length cs
      rw [hl]; exact h1.2
    · cases cs <;> rfl
    · show (List.take c m.buffer).length ≤ ISIZE_MAX
      rw [hl]; exact Nat.le_trans h1.1 h3
    · unfold abs; rw [hc]
      simp only [segs]
      obtain ⟨g, rest, hg⟩ := segs_ne_nil (List.take c m.buffer) cs
      rw [hg]; rfl

/-- under the invariant `free_context` never hits the `set_len` contract -/
theorem freeContext_ok {m : SharedMemory} (h : WF m) : ∃ m', freeContext m = .ok m' := by
  obtain ⟨h1, h2, h3⟩ := h
  unfold freeContext
  cases hc : m.checkpoints with
  | nil => exact ⟨_, rfl⟩
  | cons c cs => rw [hc] at h1; simp only []; rw [if_pos h1.1]; exact ⟨_, rfl⟩

/-! ## one call = one Spec step on the frame stack -/

def toSpec : Op → Option Spec.Memory.Op
  | .newContext => some .push
  | .freeContext => some .pop
  | .resize n => some (.resize n)
  | .set o v => if v = [] then none else some (.write o v)
  | .setByte o b => some (.write o [b])
  | .setWord o v => if v = [] then none else some (.write o v)
  | .setU256 o v => some (.write o (natToBe 32 v))
  | .setData a b c d => some (.writeData a b c d)
  | .copy d s l => some (.copy d s l)
  | _ => none

def specStep : Option Spec.Memory.Op → Frames → Option Frames
  | none, fs => some fs
  | some o, fs => Spec.Memory.step o fs

/-- the arguments are `usize` values / slices -/
def UsizeArgs : Op → Prop
  | .resize n => n < U64
  | .set o v => o < U64 ∧ v.length < U64
  | .setByte o _ => o < U64
  | .setWord o v => o < U64 ∧ v.length < U64
  | .setU256 o _ => o < U64
  | .setData a b c d => a < U64 ∧ b < U64 ∧ c < U64 ∧ d.length < U64
  | .copy d s l => d < U64 ∧ s < U64 ∧ l < U64
  | .slice o s => o < U64 ∧ s < U64
  | .sliceRange a b => a < U64 ∧ b < U64
  | .getByte o => o < U64
  | .getWord o => o < U64
  | .getU256 o => o < U64
  | _ => True

/-- `last_checkpoint + new_size` does not wrap around `usize` (release profile; the debug profile
panics instead). Only `resize` can wrap silently; see `resize_wrap_counterexample`. -/
def NoWrap : Op → SharedMemory → Prop
  | .resize n, m => m.lastCheckpoint + n < U64
  | _, _ => True

theorem natToBe_length (k v : Nat) : (natToBe k v).length = k := by
  induction k generalizing v with
  | zero => rfl
  | succ k ih => simp [natToBe, ih]

theorem writeF_length {off : Nat} {val f f' : List Nat} (h : Spec.Memory.writeF off val f = some f') :
    f'.length = f.length := by
  unfold Spec.Memory.writeF at h
  by_cases hc : off + val.length ≤ f.length
  · rw [if_pos hc] at h; injection h with h; rw [← h]
    simp [List.length_append, List.length_take, List.length_drop]; omega
  · rw [if_neg hc] at h; cases h

theorem head_step {m : SharedMemory} (h : WF m) {g : Frame → Option Frame} {f' : Frame}
    (hg : g (ctx m) = some f') (hx : m.lastCheckpoint + f'.length ≤ ISIZE_MAX) :
    WF (replaceCtx m f') ∧ Spec.Memory.onHead g (abs m) = some (abs (replaceCtx m f')) := by
  refine ⟨replaceCtx_wf h _ hx, ?_⟩
  rw [replaceCtx_abs h]
  obtain ⟨rest, hr⟩ := abs_head h
  rw [hr]; simp [Spec.Memory.onHead, hg]

theorem same_len_ok {m : SharedMemory} (h : WF m) {f' : Frame} (hl : f'.length = (ctx m).length) :
    m.lastCheckpoint + f'.length ≤ ISIZE_MAX := by
  have hle := WF_le h
  have h3 := h.2.2
  rw [hl, ctx_length]; omega

theorem readOnly_ok {α} {m m' : SharedMemory} {r : Res α} (h : readOnly m r = .ok m') : m' = m := by
  cases r <;> simp [readOnly] at h
  exact h.symm

theorem write_step {m m' : SharedMemory} {off : Nat} {val : List Nat} (h : WF m)
    (ho : off < U64) (hv : val.length < U64) (hne : val ≠ [])
    (hr : Model.Memory.set m off val = .ok m') :
    WF m' ∧ Spec.Memory.step (.write off val) (abs m) = some (abs m') := by
  obtain ⟨f', hf, hm⟩ := set_head h ho hv hne hr
  rw [hm]
  exact head_step h hf (same_len_ok h (writeF_length hf))

/-- every API call is the corresponding Spec step on the abstract frame stack, and keeps the invariant -/
theorem step_refines {op : Op} {m m' : SharedMemory} (h : WF m) (hu : UsizeArgs op) (hn : NoWrap op m)
    (hr : apply op m = .ok m') : WF m' ∧ specStep (toSpec op) (abs m) = some (abs m') := by
  cases op with
  | newContext =>
    simp only [apply] at hr; injection hr with hr; subst hr
    exact ⟨newContext_wf h, by simp [toSpec, specStep, Spec.Memory.step, abs_newContext]⟩
  | freeContext => exact freeContext_step h hr
  | resize n =>
    simp only [apply] at hr
    obtain ⟨hm, hx⟩ := resize_head h hn hr
    rw [hm]
    have hl : (Spec.Memory.resizeF n (ctx m)).length = n := by
      unfold Spec.Memory.resizeF; simp [List.length_append, List.length_take]; omega
    exact head_step (g := fun f => some (Spec.Memory.resizeF n f)) h rfl (by rw [hl]; exact hx)
  | set o v =>
    simp only [apply] at hr
    by_cases hv : v = []
    · subst hv; rw [set_empty] at hr; injection hr with hr; subst hr
      exact ⟨h, by simp [toSpec, specStep]⟩
    · simp only [toSpec, if_neg hv, specStep]
      exact write_step h hu.1 hu.2 hv hr
  | setByte o b =>
    simp only [apply, setByte] at hr
    exact write_step h hu (by simp; rw [U64_val]; decide) (by simp) hr
  | setWord o v =>
    simp only [apply, setWord] at hr
    by_cases hv : v = []
    · subst hv; rw [set_empty] at hr; injection hr with hr; subst hr
      exact ⟨h, by simp [toSpec, specStep]⟩
    · simp only [toSpec, if_neg hv, specStep]
      exact write_step h hu.1 hu.2 hv hr
  | setU256 o v =>
    simp only [apply, setU256] at hr
    have hl := natToBe_length 32 v
    exact write_step h hu (by rw [hl, U64_val]; decide)
      (by intro hc; rw [hc] at hl; simp at hl) hr
  | setData a b c d =>
    simp only [apply] at hr
    obtain ⟨f', hf, hm⟩ := setData_head h hu.1 hu.2.1 hu.2.2.1 hu.2.2.2 hr
    rw [hm]
    exact head_step h hf (same_len_ok h (writeF_length hf))
  | copy d s l =>
    simp only [apply] at hr
    obtain ⟨f', hf, hm⟩ := copy_head h hu.2.1 hu.2.2 hr
    rw [hm]
    refine head_step h hf (same_len_ok h ?_)
    unfold Spec.Memory.copyF at hf
    by_cases hc : s + l ≤ (ctx m).length
    · rw [if_pos hc] at hf; exact writeF_length hf
    · rw [if_neg hc] at hf; cases hf
  | slice o s => simp only [apply] at hr; rw [readOnly_ok hr]; exact ⟨h, rfl⟩
  | sliceRange a b => simp only [apply] at hr; rw [readOnly_ok hr]; exact ⟨h, rfl⟩
  | getByte o => simp only [apply] at hr; rw [readOnly_ok hr]; exact ⟨h, rfl⟩
  | getWord o => simp only [apply] at hr; rw [readOnly_ok hr]; exact ⟨h, rfl⟩
  | getU256 o => simp only [apply] at hr; rw [readOnly_ok hr]; exact ⟨h, rfl⟩
  | contextMemory => simp only [apply] at hr; rw [readOnly_ok hr]; exact ⟨h, rfl⟩


/-! ## all call sequences -/

/-- every call of the sequence has usize arguments and no `resize` wraps around usize -/
def Admissible : List Op → SharedMemory → Prop
  | [], _ => True
  | op :: ops, m => UsizeArgs op ∧ NoWrap op m ∧ ∀ m', apply op m = .ok m' → Admissible ops m'

def specOps (ops : List Op) : List Spec.Memory.Op := ops.filterMap toSpec

theorem run_refines : ∀ (ops : List Op) (m m' : SharedMemory), WF m → Admissible ops m →
    run ops m = .ok m' → WF m' ∧ Spec.Memory.run (specOps ops) (abs m) = some (abs m')
  | [], m, m', h, _, hr => by
    simp only [run] at hr; injection hr with hr; subst hr
    exact ⟨h, rfl⟩
  | op :: ops, m, m', h, ha, hr => by
    obtain ⟨hu, hn, hrest⟩ := ha
    simp only [run] at hr
    cases hop : apply op m with
    | panic => rw [hop] at hr; cases hr
    | ub => rw [hop] at hr; cases hr
    | ok m1 =>
      rw [hop] at hr; simp only [] at hr
      obtain ⟨hw1, hs1⟩ := step_refines h hu hn hop
      obtain ⟨hw', hs'⟩ := run_refines ops m1 m' hw1 (hrest m1 hop) hr
      refine ⟨hw', ?_⟩
      unfold specOps
      cases hts : toSpec op with
      | none =>
        rw [hts] at hs1; simp only [specStep] at hs1; injection hs1 with hs1
        simp only [List.filterMap_cons, hts]
        rw [hs1]; exact hs'
      | some o =>
        rw [hts] at hs1; simp only [specStep] at hs1
        simp only [List.filterMap_cons, hts, Spec.Memory.run, hs1, Option.bind_some]
        exact hs'

/-- Spec level: a sequence that never closes a frame it did not open leaves all frames below its
starting frame untouched, whatever it does above them -/
theorem spec_lower_unchanged : ∀ (sops : List Spec.Memory.Op) (d : Nat) (hd rest fs' : Frames),
    hd.length = d + 1 → Spec.Memory.StaysAbove d sops → Spec.Memory.run sops (hd ++ rest) = some fs' →
    ∃ hd', fs' = hd' ++ rest ∧ hd'.length = Spec.Memory.depthAfter d sops + 1
  | [], d, hd, rest, fs', hl, _, hr => by
    simp only [Spec.Memory.run] at hr; injection hr with hr
    exact ⟨hd, hr.symm, by simp [Spec.Memory.depthAfter, hl]⟩
  | op :: sops, d, hd, rest, fs', hl, hs, hr => by
    cases hd with
    | nil => simp at hl
    | cons f tl =>
      simp only [List.length_cons] at hl
      simp only [Spec.Memory.run] at hr
      cases hst : Spec.Memory.step op ((f :: tl) ++ rest) with
      | none => rw [hst] at hr; simp at hr
      | some fs1 =>
        rw [hst] at hr; simp only [Option.bind_some] at hr
        -- every step maps `hd ++ rest` to `hd1 ++ rest`
        have key : ∃ hd1 d1, fs1 = hd1 ++ rest ∧ hd1.length = d1 + 1 ∧ Spec.Memory.StaysAbove d1 sops
            ∧ Spec.Memory.depthAfter d (op :: sops) = Spec.Memory.depthAfter d1 sops := by
          cases op with
          | push =>
            simp only [Spec.Memory.step] at hst; injection hst with hst
            exact ⟨[] :: f :: tl, d + 1, by rw [← hst]; rfl, by simp; omega, hs, rfl⟩
          | pop =>
            simp only [Spec.Memory.StaysAbove] at hs
            cases tl with
            | nil => simp at hl; omega
            | cons g tl2 =>
              simp only [List.cons_append, Spec.Memory.step] at hst; injection hst with hst
              exact ⟨g :: tl2, d - 1, by rw [← hst]; rfl, by simp at hl ⊢; omega, hs.2, rfl⟩
          | resize n =>
            simp only [List.cons_append, Spec.Memory.step, Spec.Memory.onHead, Option.map_some] at hst
            injection hst with hst
            exact ⟨_ :: tl, d, by rw [← hst]; rfl, by simp; omega, hs, rfl⟩
          | write o v =>
            simp only [List.cons_append, Spec.Memory.step, Spec.Memory.onHead] at hst
            cases hg : Spec.Memory.writeF o v f with
            | none => rw [hg] at hst; simp at hst
            | some f1 =>
              rw [hg] at hst; simp only [Option.map_some] at hst; injection hst with hst
              exact ⟨f1 :: tl, d, by rw [← hst]; rfl, by simp; omega, hs, rfl⟩
          | writeData a b c dd =>
            simp only [List.cons_append, Spec.Memory.step, Spec.Memory.onHead] at hst
            cases hg : Spec.Memory.setDataF a b c dd f with
            | none => rw [hg] at hst; simp at hst
            | some f1 =>
              rw [hg] at hst; simp only [Option.map_some] at hst; injection hst with hst
              exact ⟨f1 :: tl, d, by rw [← hst]; rfl, by simp; omega, hs, rfl⟩
          | copy a b c =>
            simp only [List.cons_append, Spec.Memory.step, Spec.Memory.onHead] at hst
            cases hg : Spec.Memory.copyF a b c f with
            | none => rw [hg] at hst; simp at hst
            | some f1 =>
              rw [hg] at hst; simp only [Option.map_some] at hst; injection hst with hst
              exact ⟨f1 :: tl, d, by rw [← hst]; rfl, by simp; omega, hs, rfl⟩
        obtain ⟨hd1, d1, he, hl1, hs1, hdep⟩ := key
        rw [he] at hr
        obtain ⟨hd', h1, h2⟩ := spec_lower_unchanged sops d1 hd1 rest fs' hl1 hs1 hr
        exact ⟨hd', h1, by rw [hdep]; exact h2⟩

/-- Model level: whatever a call sequence does (writes, resizes, copies, nested contexts), as long as
it does not free a context it did not open, every frame below the one it started in is unchanged -/
theorem lower_frames_unchanged (ops : List Op) (m m' : SharedMemory) (h : WF m)
    (ha : Admissible ops m) (hs : Spec.Memory.StaysAbove 0 (specOps ops)) (hr : run ops m = .ok m') :
    ∃ hd', abs m' = hd' ++ (abs m).tail
      ∧ hd'.length = Spec.Memory.depthAfter 0 (specOps ops) + 1 := by
  obtain ⟨_, hrun⟩ := run_refines ops m m' h ha hr
  obtain ⟨rest, hab⟩ := abs_head h
  rw [hab] at hrun ⊢
  exact spec_lower_unchanged (specOps ops) 0 [ctx m] rest (abs m') rfl hs hrun

/-- A whole child frame: `new_context`, any admissible activity of the child (including nested
calls), `free_context`: the frame stack — in particular the parent's bytes and size — is exactly
what it was -/
theorem child_frame_isolated (ops : List Op) (m m1 m2 : SharedMemory) (h : WF m)
    (ha : Admissible ops (newContext m)) (hs : Spec.Memory.StaysAbove 0 (specOps ops))
    (hd : Spec.Memory.depthAfter 0 (specOps ops) = 0)
    (hr : run ops (newContext m) = .ok m1) (hf : freeContext m1 = .ok m2) :
    WF m2 ∧ abs m2 = abs m := by
  have hw0 := newContext_wf h
  obtain ⟨hw1, _⟩ := run_refines ops _ m1 hw0 ha hr
  obtain ⟨hd', h1, h2⟩ := lower_frames_unchanged ops _ m1 hw0 ha hs hr
  rw [abs_newContext] at h1
  simp only [List.tail_cons] at h1
  rw [hd] at h2
  obtain ⟨hw2, hpop⟩ := freeContext_step hw1 hf
  refine ⟨hw2, ?_⟩
  match hd', h2 with
  | [f], _ =>
    obtain ⟨rest, hab⟩ := abs_head h
    rw [h1, hab] at hpop
    simp only [List.cons_append, List.nil_append, Spec.Memory.step] at hpop
    injection hpop with hpop
    rw [hab]; exact hpop.symm


/-! ## gas and `resize_memory` -/

theorem wsub_eq (a b u : Nat) (hb : b ≤ a) (ha : a < u) : (a + u - b % u) % u = a - b := by
  rw [Nat.mod_eq_of_lt (by omega : b < u)]
  have : a + u - b = u + (a - b) := by omega
  rw [this, Nat.add_mod_left, Nat.mod_eq_of_lt (by omega)]

theorem len_eq {m : SharedMemory} (h : WF m) : len m = (ctx m).length := by
  have hle := WF_le h
  have h3 := h.2.2
  have hI := isize_lt_u64
  rw [ctx_length]
  unfold len U64ops.wsub
  exact wsub_eq _ _ _ hle (by omega)

theorem numWords_eq (n : Nat) (h : n + 31 < U64) : numWords n = Spec.Memory.words n := by
  unfold numWords U64ops.saturatingAdd Spec.Memory.words
  rw [if_pos h]

theorem sq_lt (w : Nat) (h : w < 2^32) : w * w < U64 := by
  have : w * w < 2^32 * 2^32 := Nat.mul_lt_mul'' h h
  rw [U64_val]; exact this

/-- `memory_gas` is the quadratic formula clamped to `u64::MAX`, for every word count -/
theorem memoryGas_full (w : Nat) : memoryGas w = min (Spec.Memory.memGas w) (U64 - 1) := by
  unfold memoryGas Spec.Memory.memGas
  generalize w * w / 512 = q
  simp only []
  split <;> omega

theorem memoryGas_eq (w : Nat) (h : w < 2^32) : memoryGas w = Spec.Memory.memGas w := by
  have hs := sq_lt w h
  rw [memoryGas_full]
  unfold Spec.Memory.memGas
  have hU := U64_val
  generalize w * w = q at *
  omega

theorem memGas_mono {a b : Nat} (h : a ≤ b) : Spec.Memory.memGas a ≤ Spec.Memory.memGas b := by
  unfold Spec.Memory.memGas
  have h1 : a * a ≤ b * b := Nat.mul_le_mul h h
  have h2 : a * a / 512 ≤ b * b / 512 := Nat.div_le_div_right h1
  omega

theorem memGas_lt (w : Nat) (h : w < 2^32) : Spec.Memory.memGas w < U64 := by
  have hs := sq_lt w h
  unfold Spec.Memory.memGas
  have hU := U64_val
  generalize w * w = q at *
  omega

theorem words_mono {a b : Nat} (h : a ≤ b) : Spec.Memory.words a ≤ Spec.Memory.words b := by
  unfold Spec.Memory.words; omega

theorem resize_grow_ok {m : SharedMemory} {n : Nat} (h : WF m) (hg : (ctx m).length ≤ n)
    (hx : m.lastCheckpoint + n ≤ ISIZE_MAX) :
    resize m n = .ok (replaceCtx m (ctx m ++ List.replicate (n - (ctx m).length) 0)) := by
  have hI := isize_lt_u64
  have hle := WF_le h
  have hcl := @ctx_length m
  have hnw : m.lastCheckpoint + n < U64 := by omega
  have hex : ∃ m', resize m n = .ok m' := by
    unfold resize
    rw [Nat.mod_eq_of_lt hnw]; simp only []
    by_cases h1 : m.lastCheckpoint + n ≤ m.buffer.length
    · rw [if_pos h1]; exact ⟨_, rfl⟩
    · rw [if_neg h1, if_neg (by omega)]; exact ⟨_, rfl⟩
  obtain ⟨m', hm'⟩ := hex
  obtain ⟨he, _⟩ := resize_head h hnw hm'
  rw [hm', he]
  unfold Spec.Memory.resizeF
  rw [List.take_of_length_le hg]

theorem words_small {n : Nat} (hw : Spec.Memory.words n < 2^32) : n + 31 < U64 := by
  unfold Spec.Memory.words at hw
  have hU := U64_val
  omega

theorem cost_eq {m : SharedMemory} {newSize : Nat} (h : WF m)
    (hguard : (ctx m).length < newSize) (hw : Spec.Memory.words newSize < 2^32) :
    U64ops.wsub (memoryGas (numWords newSize)) (currentExpansionCost m)
      = Spec.Memory.memGas (Spec.Memory.words newSize)
        - Spec.Memory.memGas (Spec.Memory.words (ctx m).length) := by
  have hn31 := words_small hw
  have hw0 : Spec.Memory.words (ctx m).length ≤ Spec.Memory.words newSize := words_mono (by omega)
  have hw0' : Spec.Memory.words (ctx m).length < 2^32 := Nat.lt_of_le_of_lt hw0 hw
  unfold currentExpansionCost
  rw [numWords_eq _ hn31, len_eq h, numWords_eq _ (words_small hw0'), memoryGas_eq _ hw,
    memoryGas_eq _ hw0']
  unfold U64ops.wsub
  exact wsub_eq _ _ _ (memGas_mono hw0) (memGas_lt _ hw)

theorem wmul32_eq {w : Nat} (hw : w < 2^32) : U64ops.wmul w 32 = 32 * w := by
  unfold U64ops.wmul
  have hU := U64_val
  rw [Nat.mod_eq_of_lt (by omega)]; omega

/-- `resize_memory` under the guard of the `resize_memory!` macro (`new_size > len`), for sizes whose
word count is below 2^32 (no saturation in `memory_gas`): the charge is exactly
`C_mem(new words) − C_mem(old words)`; with enough gas the context becomes its old bytes followed by
zeros up to `32·⌈new_size/32⌉` bytes; without, nothing changes. -/
theorem resizeMemory_spec {m : SharedMemory} {rem newSize : Nat} (h : WF m)
    (hguard : (ctx m).length < newSize) (hw : Spec.Memory.words newSize < 2^32)
    (hx : m.lastCheckpoint + 32 * Spec.Memory.words newSize ≤ ISIZE_MAX) :
    resizeMemory m rem newSize =
      if Spec.Memory.memGas (Spec.Memory.words newSize)
          - Spec.Memory.memGas (Spec.Memory.words (ctx m).length) ≤ rem then
        .ok (true,
             replaceCtx m (ctx m ++ List.replicate (32 * Spec.Memory.words newSize - (ctx m).length) 0),
             rem - (Spec.Memory.memGas (Spec.Memory.words newSize)
                    - Spec.Memory.memGas (Spec.Memory.words (ctx m).length)))
      else .ok (false, m, rem) := by
  have hge : (ctx m).length ≤ 32 * Spec.Memory.words newSize := by
    unfold Spec.Memory.words; omega
  unfold resizeMemory
  simp only []
  rw [cost_eq h hguard hw, numWords_eq _ (words_small hw), wmul32_eq hw]
  generalize Spec.Memory.memGas (Spec.Memory.words newSize)
          - Spec.Memory.memGas (Spec.Memory.words (ctx m).length) = charge
  by_cases hc : charge ≤ rem
  · rw [if_pos hc, if_pos hc]
    rw [resize_grow_ok h hge hx]
  · rw [if_neg hc, if_neg hc]

/-! ## reads, windows, zero fill -/

theorem writeAt_getElem_outside (c : List Nat) (off : Nat) (val : List Nat) (i : Nat)
    (hin : off + val.length ≤ c.length) (hi : i < off ∨ off + val.length ≤ i) :
    (writeAt c off val)[i]? = c[i]? := by
  unfold writeAt
  rw [List.append_assoc, List.getElem?_append]
  have hl : (List.take off c).length = off := by simp [List.length_take]; omega
  rw [hl]
  cases hi with
  | inl h => rw [if_pos h, List.getElem?_take, if_pos h]
  | inr h =>
    rw [if_neg (by omega), List.getElem?_append, if_neg (by omega), List.getElem?_drop]
    congr 1; omega

theorem writeAt_getElem_inside (c : List Nat) (off : Nat) (val : List Nat) (i : Nat)
    (hin : off + val.length ≤ c.length) (hi : i < val.length) :
    (writeAt c off val)[off + i]? = val[i]? := by
  unfold writeAt
  rw [List.append_assoc, List.getElem?_append]
  have hl : (List.take off c).length = off := by simp [List.length_take]; omega
  rw [hl, if_neg (by omega), List.getElem?_append]
  have : off + i - off = i := by omega
  rw [this, if_pos hi]

theorem resizeF_length (n : Nat) (f : Frame) : (Spec.Memory.resizeF n f).length = n := by
  unfold Spec.Memory.resizeF; simp [List.length_append, List.length_take]; omega

theorem resizeF_old (n : Nat) (f : Frame) (i : Nat) (hi : i < n) (hf : i < f.length) :
    (Spec.Memory.resizeF n f)[i]? = f[i]? := by
  unfold Spec.Memory.resizeF
  rw [List.getElem?_append, List.length_take, if_pos (by omega), List.getElem?_take, if_pos hi]

theorem resizeF_new_zero (n : Nat) (f : Frame) (i : Nat) (hi : i < n) (hf : f.length ≤ i) :
    (Spec.Memory.resizeF n f)[i]? = some 0 := by
  unfold Spec.Memory.resizeF
  rw [List.getElem?_append, List.length_take, if_neg (by omega), List.getElem?_replicate,
    if_pos (by omega)]

theorem paddedSlice_getElem (data : List Nat) (dOff len i : Nat) (hi : i < len) :
    (Spec.Memory.paddedSlice data dOff len)[i]? = some ((data[dOff + i]?).getD 0) := by
  unfold Spec.Memory.paddedSlice
  simp only []
  rw [List.getElem?_append]
  by_cases h : dOff + i < data.length
  · have hl : i < (List.take len (List.drop dOff data)).length := by
      simp [List.length_take, List.length_drop]; omega
    rw [if_pos hl, List.getElem?_take, if_pos hi, List.getElem?_drop]
    rw [List.getElem?_eq_getElem h]; rfl
  · have hl : ¬ i < (List.take len (List.drop dOff data)).length := by
      simp [List.length_take, List.length_drop]; omega
    rw [if_neg hl, List.getElem?_replicate]
    have hlen : (List.take len (List.drop dOff data)).length ≤ i := by omega
    have hl2 : (List.take len (List.drop dOff data)).length ≤ len := by simp [List.length_take]; omega
    rw [if_pos (by omega), List.getElem?_eq_none (by omega)]; rfl

/-- `slice` answers (instead of reaching `debug_unreachable!`) exactly for ranges inside the context -/
theorem slice_ok_iff {m : SharedMemory} (h : WF m) (off size : Nat) (ho : off < U64) (hs : size < U64) :
    (∃ bs, slice m off size = .ok bs) ↔ off + size ≤ (ctx m).length := by
  have hle := WF_le h
  have h3 := h.2.2
  have hI := isize_lt_u64
  have hcl := @ctx_length m
  unfold slice sliceRange
  rw [if_pos hle]
  by_cases hw : off + size < U64
  · rw [Nat.mod_eq_of_lt hw]
    constructor
    · intro ⟨bs, hb⟩
      by_cases hc : off ≤ off + size ∧ off + size ≤ m.buffer.length - m.lastCheckpoint
      · omega
      · rw [if_neg hc] at hb; cases hb
    · intro hin
      rw [if_pos (by omega)]; exact ⟨_, rfl⟩
  · have hm := mod_wrap off size U64 ho hs hw
    constructor
    · intro ⟨bs, hb⟩
      rw [if_neg (by generalize U64 = u at *; omega)] at hb; cases hb
    · intro hin; exfalso; generalize U64 = u at *; omega

theorem slice_value {m : SharedMemory} (h : WF m) (off size : Nat) (hin : off + size ≤ (ctx m).length) :
    slice m off size = .ok (((ctx m).drop off).take size) := by
  have hle := WF_le h
  have h3 := h.2.2
  have hI := isize_lt_u64
  have hcl := @ctx_length m
  unfold slice sliceRange
  rw [if_pos hle, Nat.mod_eq_of_lt (by omega), if_pos (by omega), readAt_buffer h]
  unfold readAt
  have : off + size - off = size := by omega
  rw [this]

/-- `copy` returns (instead of panicking) exactly when source and destination ranges are inside the context -/
theorem copy_ok_iff {m : SharedMemory} (h : WF m) (dst src len : Nat) (hs : src < U64) (hl : len < U64) :
    (∃ m', copy m dst src len = .ok m') ↔ src + len ≤ (ctx m).length ∧ dst + len ≤ (ctx m).length := by
  have hle := WF_le h
  have hcl := @ctx_length m
  have h3 := h.2.2
  have hI := isize_lt_u64
  constructor
  · intro ⟨m', hm'⟩
    obtain ⟨f', hf, _⟩ := copy_head h hs hl hm'
    unfold Spec.Memory.copyF at hf
    by_cases hc : src + len ≤ (ctx m).length
    · rw [if_pos hc] at hf
      unfold Spec.Memory.writeF at hf
      have hlen : (List.take len (List.drop src (ctx m))).length = len := by
        simp [List.length_take, List.length_drop]; omega
      rw [hlen] at hf
      by_cases hd : dst + len ≤ (ctx m).length
      · exact ⟨hc, hd⟩
      · rw [if_neg hd] at hf; cases hf
    · rw [if_neg hc] at hf; cases hf
  · intro ⟨h1, h2⟩
    unfold copy
    simp only []
    rw [if_pos hle, Nat.mod_eq_of_lt (by omega), if_neg (by omega), if_neg (by omega)]
    have : src + len - src = len := by omega
    rw [this, if_neg (by omega)]
    exact ⟨_, rfl⟩

theorem set_ctx {m m' : SharedMemory} {off : Nat} {val : List Nat} (h : WF m)
    (ho : off < U64) (hv : val.length < U64) (hne : val ≠ [])
    (hr : Model.Memory.set m off val = .ok m') :
    off + val.length ≤ (ctx m).length ∧ ctx m' = writeAt (ctx m) off val
      ∧ abs m' = ctx m' :: (abs m).tail ∧ WF m' := by
  unfold Model.Memory.set at hr
  have : val.isEmpty = false := by cases val <;> simp_all
  rw [this] at hr
  simp only [Bool.false_eq_true, if_false] at hr
  obtain ⟨h1, h2⟩ := writeSlice_head h ho hv hr
  have hwf : WF m' := by
    rw [h2]; exact replaceCtx_wf h _ (same_len_ok h (writeAt_length _ _ _ h1))
  refine ⟨h1, by rw [h2]; exact replaceCtx_ctx h _, ?_, hwf⟩
  rw [h2, replaceCtx_abs h, replaceCtx_ctx h]

end Revm.Proofs.Memory
