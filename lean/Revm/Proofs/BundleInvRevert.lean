import Revm.Proofs.BundleInvChangeset
/-! C17, first sentence: each block of `PlainStateReverts`, applied to the reference state after its merge
group, gives the reference state before the group (wipe-aware reading of unlisted slots). Core Lean only. -/
namespace Revm.Proofs.Bundle
open Revm.Model.Bundle Revm.Spec.Bundle

set_option linter.unusedSimpArgs false
set_option linter.unusedVariables false

/-! ## observations of `applyRevertBlock` -/

theorem keep_find (l : List (Nat × Nat × Nat)) (a a' k : Nat) :
    (l.filter (fun t => t.1 == a)).find? (fun e => e.1 == a' && e.2.1 == k) =
      if a = a' then l.find? (fun e => e.1 == a' && e.2.1 == k) else none := by
  induction l with
  | nil => simp
  | cons e r ih =>
    by_cases he : e.1 = a
    · have hp : (e.1 == a) = true := by simp [he]
      rw [List.filter_cons]; simp only [hp, if_true, List.find?_cons]
      rw [ih]
      by_cases h : a = a'
      · simp only [h, if_true]
      · have hq : (e.1 == a' && e.2.1 == k) = false := by
          have : ¬ e.1 = a' := he ▸ h
          simp [this]
        simp only [h, if_false, hq]
    · have hp : (e.1 == a) = false := by simp [he]
      rw [List.filter_cons]; simp only [hp, Bool.false_eq_true, if_false]
      rw [ih]
      by_cases h : a = a'
      · have hq : (e.1 == a' && e.2.1 == k) = false := by
          have : ¬ e.1 = a' := h ▸ he
          simp [this]
        simp only [h, if_true, List.find?_cons, hq]
      · simp only [h, if_false]

/-- the base a wiping revert starts from: the pre-bundle slots of the address -/
def restoreBase (p0 p : Plain) (a : Nat) : Plain :=
  { p with stor := p0.stor.filter (fun t => t.1 == a) ++ (p.wipe a).stor }

theorem acct_restoreBase (p0 p : Plain) (a a' : Nat) : (restoreBase p0 p a).acct a' = p.acct a' := rfl

theorem slot_restoreBase (p0 p : Plain) (a a' k : Nat) :
    (restoreBase p0 p a).slot a' k = if a = a' then p0.slot a' k else p.slot a' k := by
  have hw := slot_wipe p a a' k
  unfold restoreBase Plain.slot at *
  simp only [List.find?_append, keep_find]
  by_cases h : a = a'
  · simp only [h, if_true] at hw ⊢
    cases hf : List.find? (fun e => e.1 == a' && e.2.1 == k) p0.stor with
    | some e => simp [Option.or]
    | none =>
      simp only [Option.or]
      exact hw
  · simp only [h, if_false] at hw ⊢
    simp only [Option.or]
    exact hw

/-- value written for a listed slot -/
def revVal (dbr wipe : Bool) (p0 : Plain) (a : Nat) (s : Nat × RevSlot) : Nat :=
  match s.2 with
  | .some v => v
  | .destroyed => if dbr && wipe then p0.slot a s.1 else 0

/-- one storage row of a block of plain reverts -/
def revRowStep (dbr : Bool) (p0 : Plain) (p : Plain) (e : Nat × Bool × List (Nat × RevSlot)) : Plain :=
  (if e.2.1 then restoreBase p0 p e.1 else p).setSlots e.1 (e.2.2.map (fun s => (s.1, revVal dbr e.2.1 p0 e.1 s)))

theorem applyRevertBlock_eq (dbr : Bool) (p0 : Plain) (blk : PlainRevertBlock) (p : Plain) :
    applyRevertBlock dbr p0 blk p = blk.storage.foldl (revRowStep dbr p0)
      (blk.accounts.foldl (fun p e => p.setAcct e.1 (e.2.map Info.withoutCode)) p) := rfl

theorem acct_revRowStep (dbr : Bool) (p0 p : Plain) (e : Nat × Bool × List (Nat × RevSlot)) (a : Nat) :
    (revRowStep dbr p0 p e).acct a = p.acct a := by
  unfold revRowStep; rw [acct_setSlots]; cases e.2.1 <;> rfl

theorem acct_foldl_revrows (dbr : Bool) (p0 : Plain) (rows : List (Nat × Bool × List (Nat × RevSlot))) (p : Plain) (a : Nat) :
    (rows.foldl (revRowStep dbr p0) p).acct a = p.acct a := by
  induction rows generalizing p with
  | nil => rfl
  | cons e r ih => simp only [List.foldl]; rw [ih, acct_revRowStep]

theorem slot_revRowStep_ne (dbr : Bool) (p0 p : Plain) (e : Nat × Bool × List (Nat × RevSlot)) (a k : Nat) (h : e.1 ≠ a) :
    (revRowStep dbr p0 p e).slot a k = p.slot a k := by
  unfold revRowStep
  rw [slot_setSlots_ne _ _ _ _ _ h]
  cases e.2.1 with
  | false => rfl
  | true => simp only [if_true]; rw [slot_restoreBase]; simp [h]

theorem slot_revRowStep_self (dbr : Bool) (p0 p : Plain) (e : Nat × Bool × List (Nat × RevSlot)) (hw : WF e.2.2) (k : Nat) :
    (revRowStep dbr p0 p e).slot e.1 k =
      revSlotV dbr e.2.2 e.2.1 (fun k => p0.slot e.1 k) (fun k => p.slot e.1 k) k := by
  unfold revRowStep revSlotV
  rw [slot_setSlots _ _ _ (WF_map_val e.2.2 (fun s => revVal dbr e.2.1 p0 e.1 s) hw)]
  simp only [if_true, writeSlots]
  rw [get_map_val e.2.2 (fun s => revVal dbr e.2.1 p0 e.1 s)]
  cases hg : BMap.get e.2.2 k with
  | some v => cases v <;> simp [revVal]
  | none =>
    simp only [Option.map]
    cases e.2.1 with
    | false => rfl
    | true => simp [slot_restoreBase]

theorem slot_foldl_revrows (dbr : Bool) (p0 : Plain) (rows : List (Nat × Bool × List (Nat × RevSlot))) (hw : WF rows)
    (p : Plain) (a k : Nat) (hwl : ∀ r, BMap.get rows a = some r → WF r.2) :
    (rows.foldl (revRowStep dbr p0) p).slot a k =
      match BMap.get rows a with
      | some r => revSlotV dbr r.2 r.1 (fun k => p0.slot a k) (fun k => p.slot a k) k
      | none => p.slot a k := by
  induction rows generalizing p with
  | nil => rfl
  | cons e r ih =>
    rw [WF_cons] at hw
    simp only [List.foldl]
    by_cases h : e.1 = a
    · have hn : BMap.get r a = none := get_none_of_not_mem r a (h ▸ hw.1)
      have hge : BMap.get (e :: r) a = some e.2 := by rw [get_cons]; simp [h]
      rw [ih hw.2 _ (fun r' hr' => by rw [hn] at hr'; cases hr'), hn, hge]
      simp only
      subst h
      exact slot_revRowStep_self dbr p0 p e (hwl e.2 hge) k
    · have hge : BMap.get (e :: r) a = BMap.get r a := by rw [get_cons]; simp [h]
      rw [ih hw.2 _ (fun r' hr' => hwl r' (by rw [hge]; exact hr')), hge]
      cases hg : BMap.get r a with
      | none => simp only; exact slot_revRowStep_ne dbr p0 p e a k h
      | some r' =>
        simp only
        have : (fun k => (revRowStep dbr p0 p e).slot a k) = fun k => p.slot a k :=
          funext fun k => slot_revRowStep_ne dbr p0 p e a k h
        rw [this]

/-! ## `to_plain_state_reverts` of one block -/

def revInfoRow (ir : InfoRevert) : Option (Option Info) :=
  match ir with
  | .revertTo i => some (some i)
  | .deleteIt => some none
  | .doNothing => none

theorem revert_accounts_eq (blk : BMap ARevert) :
    (revertBlockToPlain blk).accounts =
      (blk.filter (fun e => (revInfoRow e.2.account).isSome)).map (fun e => (e.1, (revInfoRow e.2.account).getD none)) := by
  unfold revertBlockToPlain
  simp only
  induction blk with
  | nil => rfl
  | cons e r ih =>
    cases he : e.2.account <;> simp [List.filterMap_cons, List.filter_cons, he, revInfoRow, ih]

theorem revert_storage_eq (blk : BMap ARevert) :
    (revertBlockToPlain blk).storage =
      (blk.filter (fun e => e.2.wipe || !e.2.storage.isEmpty)).map (fun e => (e.1, e.2.wipe, e.2.storage)) := by
  unfold revertBlockToPlain
  exact filterMap_ite _ _ _

theorem revSlotV_literal (st : BMap RevSlot) (wipe : Bool) (Ps Rs : Nat → Nat) (k : Nat)
    (h : (!wipe || st.all (fun s => s.2 != RevSlot.destroyed)) = true) :
    revSlotV false st wipe Ps Rs k = revSlotV true st wipe Ps Rs k := by
  unfold revSlotV
  cases hg : st.get k with
  | none => rfl
  | some v =>
    cases v with
    | some x => rfl
    | destroyed =>
      cases wipe with
      | false => rfl
      | true =>
        exfalso
        simp only [Bool.not_true, Bool.false_or, List.all_eq_true] at h
        have := h (k, RevSlot.destroyed) (mem_of_get _ _ _ hg)
        simp at this

/-- a block that satisfies `BlockSem` (before ← after), rendered by `to_plain_state_reverts` and applied to
`after`, gives `before` — under the database reading of `Destroyed`, or under the literal reading when no
wiping revert of the block lists a `Destroyed` slot -/
theorem revert_block_correct (dbr : Bool) (blk : BMap ARevert) (p0 before after : Plain)
    (h : BlockSem blk p0 before after) (hd : dbr = true ∨ literalOk blk = true) :
    PlainEq (applyRevertBlock dbr p0 (revertBlockToPlain blk) after) before := by
  obtain ⟨hw, hall⟩ := h
  constructor
  · intro a
    rw [applyRevertBlock_eq, acct_foldl_revrows, revert_accounts_eq,
      acct_foldl_setAcct _ (WF_map_val _ _ (WF_filter _ _ hw)),
      get_map_val (blk.filter fun e => (revInfoRow e.2.account).isSome) (fun e => (revInfoRow e.2.account).getD none),
      get_filter _ _ _ hw]
    obtain ⟨ms, hs⟩ := hall a
    cases hg : blk.get a with
    | none => rw [hg] at hs; simp only [Option.bind, Option.map_none]; exact hs.1.symm
    | some r =>
      rw [hg] at hs
      obtain ⟨_, _, hi, _⟩ := hs
      simp only [Option.bind]
      cases hra : r.account with
      | doNothing => rw [hra] at hi; simp [revInfoRow, hra]; exact hi.symm
      | deleteIt => rw [hra] at hi; simp [revInfoRow, hra]; exact hi.symm
      | revertTo i => rw [hra] at hi; simp [revInfoRow, hra]; exact hi.symm
  · intro a k
    have hwrows : WF (revertBlockToPlain blk).storage := by
      rw [revert_storage_eq]; exact WF_map_val _ _ (WF_filter _ _ hw)
    have hrow : BMap.get (revertBlockToPlain blk).storage a =
        (blk.get a).bind (fun r => if (r.wipe || !r.storage.isEmpty) then some (r.wipe, r.storage) else none) := by
      rw [revert_storage_eq, get_map_val (blk.filter fun e => e.2.wipe || !e.2.storage.isEmpty)
        (fun e => (e.2.wipe, e.2.storage)), get_filter _ _ _ hw]
      cases blk.get a with
      | none => rfl
      | some r =>
        simp only [Option.bind]
        by_cases hc : (r.wipe || !r.storage.isEmpty) = true
        · simp only [hc, if_true, Option.map_some]
        · simp only [hc, Bool.false_eq_true, if_false, Option.map_none]
    have hacc : ∀ k, (List.foldl (fun p e => p.setAcct e.1 (Option.map Info.withoutCode e.2)) after
        (revertBlockToPlain blk).accounts).slot a k = after.slot a k := fun k => slot_foldl_setAcct _ _ _ _
    obtain ⟨ms, hs⟩ := hall a
    rw [applyRevertBlock_eq]
    cases hg : blk.get a with
    | none =>
      rw [hg] at hs hrow
      rw [slot_foldl_revrows _ _ _ hwrows _ _ _ (fun r hr => by rw [hrow] at hr; cases hr), hrow]
      simp only [Option.bind]
      rw [hacc]; exact (hs.2 k).symm
    | some r =>
      rw [hg] at hs hrow
      obtain ⟨_, hwr, _, hsl⟩ := hs
      have hlit : revSlotV dbr r.storage r.wipe (fun k => p0.slot a k) (fun k => after.slot a k) k =
          revSlotV true r.storage r.wipe (fun k => p0.slot a k) (fun k => after.slot a k) k := by
        cases hd with
        | inl h => rw [h]
        | inr h =>
          cases dbr with
          | true => rfl
          | false =>
            apply revSlotV_literal
            have := List.all_eq_true.mp h (a, r) (mem_of_get _ _ _ hg)
            exact this
      simp only [Option.bind] at hrow
      by_cases hc : (r.wipe || !r.storage.isEmpty) = true
      · simp only [hc, if_true] at hrow
        rw [slot_foldl_revrows _ _ _ hwrows _ _ _ (fun r' hr' => by
          rw [hrow] at hr'; injection hr' with hr'; rw [← hr']; exact hwr), hrow]
        simp only
        have : (fun k => (List.foldl (fun p e => p.setAcct e.1 (Option.map Info.withoutCode e.2)) after
            (revertBlockToPlain blk).accounts).slot a k) = fun k => after.slot a k := funext hacc
        rw [this, hlit]
        exact hsl.1 k
      · have hc' : (r.wipe || !r.storage.isEmpty) = false := by simpa using hc
        simp only [hc', Bool.false_eq_true, if_false] at hrow
        rw [slot_foldl_revrows _ _ _ hwrows _ _ _ (fun r' hr' => by rw [hrow] at hr'; cases hr'), hrow]
        simp only
        rw [hacc]
        simp only [Bool.or_eq_false_iff, Bool.not_eq_false', List.isEmpty_iff] at hc'
        have := hsl.1 k
        rw [hc'.1, hc'.2] at this
        simpa [revSlotV, BMap.get] using this

/-- **C17, first sentence, database reading**: for every database, both state-clear settings, every
EVM-reachable history under every merge schedule: block k of the plain reverts of the final bundle maps the
reference state after group k to the reference state before it -/
theorem revert_k_correct_proof : RevertKCorrectStatement true := by
  intro db sc p0 h hdb hwf hr
  obtain ⟨l, h1, _, h3⟩ := runHistory_inv sc p0 h { db := db, sc := sc } p0 (init_inv db sc p0 hdb hwf) rfl hr
  refine ⟨l, h1, fun s r hl k blk before after hb hbe haf => ?_⟩
  obtain ⟨_, _, _, blks, w1, w2, w3⟩ := h3 s r hl
  simp only [toPlainStateReverts, w1, List.nil_append, List.getElem?_map] at hb
  cases hbk : blks[k]? with
  | none => rw [hbk] at hb; cases hb
  | some b =>
    rw [hbk] at hb; injection hb with hb; subst hb
    exact revert_block_correct true b p0 before after (w3 k b before after hbk hbe haf) (Or.inl rfl)

/-- the same under the literal reading (`Destroyed` = 0), for every block in which no wiping revert lists a
`Destroyed` slot -/
theorem revert_k_literal_proof (db : BMap Info) (sc : Bool) (p0 : Plain) (h : List Group)
    (hdb : dbMatches db p0) (hwf : plainWF p0) (hr : reachHistory sc p0 h = true) :
    ∃ l, runHistory { db := db, sc := sc } p0 h = some l ∧
      ∀ s r, l.getLast? = some (s, r) →
        ∀ (k : Nat) b before after, s.bundle.reverts[k]? = some b → literalOk b = true →
          ((p0 :: l.map (·.2))[k]? = some before) → ((l.map (·.2))[k]? = some after) →
          PlainEq (applyRevertBlock false p0 (revertBlockToPlain b) after) before := by
  obtain ⟨l, h1, _, h3⟩ := runHistory_inv sc p0 h { db := db, sc := sc } p0 (init_inv db sc p0 hdb hwf) rfl hr
  refine ⟨l, h1, fun s r hl k b before after hb hlit hbe haf => ?_⟩
  obtain ⟨_, _, _, blks, w1, w2, w3⟩ := h3 s r hl
  simp only [w1, List.nil_append] at hb
  exact revert_block_correct false b p0 before after (w3 k b before after hb hbe haf) (Or.inr hlit)

end Revm.Proofs.Bundle
