import Revm.Proofs.EvmInstWrapNoCont
/-! Instantiating C28 with the whole-EVM model, part 4g: no instruction handler stops a frame with
`instruction_result = Continue`, part 2: the instructions that ask the host, calls and creates, and `InstrNC`. -/
namespace Revm.Proofs.EvmInstWrap
open Revm Revm.Model
open Revm.Model.Interp

/-! ## from the handler monad to `Done` / `Outcome` -/

theorem doneNC_toDone {e : Exec Unit} (h : NC e) : DoneNC e.toDone := by
  cases h with
  | ok a s => exact .next s
  | halt h s => exact .halt h _ s
  | fault f => exact .fault f

theorem doneNC_toDoneAction {e : Exec Action} (h : NC e) : DoneNC e.toDoneAction := by
  cases h with
  | ok a s => exact .action a s
  | halt h s => exact .halt h _ s
  | fault f => exact .fault f

theorem doneNC_toDoneOptAction {e : Exec (Option Action)} (h : NC e) : DoneNC e.toDoneOptAction := by
  cases h with
  | ok a s =>
    cases a with
    | none => exact .next s
    | some a => exact .action a s
  | halt h s => exact .halt h _ s
  | fault f => exact .fault f

theorem outcomeNC_hostCall {β : Type} (pre : M (HostOp × β)) (post : β → HostResp → M Unit) (s : IState)
    (hpre : NC (pre s)) (hpost : ∀ b r s', NC (post b r s')) : OutcomeNC (hostCall pre post s) := by
  unfold hostCall
  generalize pre s = e at hpre
  cases hpre with
  | ok a s' => obtain ⟨op, b⟩ := a; exact .host op (fun r => doneNC_toDone (hpost b r s'))
  | halt h s' => exact .pure (.halt h _ s')
  | fault f => exact .pure (.fault f)

theorem outcomeNC_hostCallAction {β : Type} (pre : M (HostOp × β)) (post : β → HostResp → M Action) (s : IState)
    (hpre : NC (pre s)) (hpost : ∀ b r s', NC (post b r s')) : OutcomeNC (hostCallAction pre post s) := by
  unfold hostCallAction
  generalize pre s = e at hpre
  cases hpre with
  | ok a s' => obtain ⟨op, b⟩ := a; exact .host op (fun r => doneNC_toDoneAction (hpost b r s'))
  | halt h s' => exact .pure (.halt h _ s')
  | fault f => exact .pure (.fault f)

theorem outcomeNC_hostCallOptAction {β : Type} (pre : M (HostOp × β)) (post : β → HostResp → M (Option Action))
    (s : IState) (hpre : NC (pre s)) (hpost : ∀ b r s', NC (post b r s')) :
    OutcomeNC (hostCallOptAction pre post s) := by
  unfold hostCallOptAction
  generalize pre s = e at hpre
  cases hpre with
  | ok a s' => obtain ⟨op, b⟩ := a; exact .host op (fun r => doneNC_toDoneOptAction (hpost b r s'))
  | halt h s' => exact .pure (.halt h _ s')
  | fault f => exact .pure (.fault f)

/-! ## host instructions -/

theorem nc_keccakPre (s : IState) : NC (keccakPre s) := by unfold keccakPre; nc

theorem nc_keccak256I (s : IState) : OutcomeNC (keccak256I s) := by
  unfold keccak256I
  have h := nc_keccakPre s
  generalize keccakPre s = e at h
  cases h with
  | ok a s' =>
    cases a with
    | none => exact .pure (doneNC_toDone (nc_setTop _ _))
    | some d => exact .host _ (fun r => doneNC_toDone (nc_setTop _ _))
  | halt h s' => exact .pure (.halt h _ s')
  | fault f => exact .pure (.fault f)

theorem nc_balanceI (s : IState) : OutcomeNC (balanceI s) := by
  unfold balanceI; refine outcomeNC_hostCall _ _ s ?_ ?_ <;> nc
theorem nc_selfbalanceI (s : IState) : OutcomeNC (selfbalanceI s) := by
  unfold selfbalanceI; refine outcomeNC_hostCall _ _ s ?_ ?_ <;> nc
theorem nc_extcodesizeI (s : IState) : OutcomeNC (extcodesizeI s) := by
  unfold extcodesizeI; refine outcomeNC_hostCall _ _ s ?_ ?_ <;> nc
theorem nc_extcodehashI (s : IState) : OutcomeNC (extcodehashI s) := by
  unfold extcodehashI; refine outcomeNC_hostCall _ _ s ?_ ?_ <;> nc
theorem nc_extcodecopyI (s : IState) : OutcomeNC (extcodecopyI s) := by
  unfold extcodecopyI; refine outcomeNC_hostCall _ _ s ?_ ?_ <;> nc
theorem nc_blockhashI (s : IState) : OutcomeNC (blockhashI s) := by
  unfold blockhashI; refine outcomeNC_hostCall _ _ s ?_ ?_ <;> nc
theorem nc_sloadI (s : IState) : OutcomeNC (sloadI s) := by
  unfold sloadI; refine outcomeNC_hostCall _ _ s ?_ ?_ <;> nc
theorem nc_sstoreI (s : IState) : OutcomeNC (sstoreI s) := by
  unfold sstoreI; refine outcomeNC_hostCall _ _ s ?_ ?_ <;> nc
theorem nc_tstoreI (s : IState) : OutcomeNC (tstoreI s) := by
  unfold tstoreI; refine outcomeNC_hostCall _ _ s ?_ ?_ <;> nc
theorem nc_tloadI (s : IState) : OutcomeNC (tloadI s) := by
  unfold tloadI; refine outcomeNC_hostCall _ _ s ?_ ?_ <;> nc
theorem nc_logI (n : Nat) (s : IState) : OutcomeNC (logI n s) := by
  unfold logI; refine outcomeNC_hostCall _ _ s ?_ ?_ <;> nc
theorem nc_selfdestructI (s : IState) : OutcomeNC (selfdestructI s) := by
  unfold selfdestructI; refine outcomeNC_hostCall _ _ s ?_ ?_ <;> nc

/-! ## calls and creates -/

theorem nc_resizeMemRange (o l : Nat) (s : IState) : NC (resizeMemRange o l s) := by unfold resizeMemRange; nc
macro_rules | `(tactic| nc_prim) => `(tactic| with_reducible exact nc_resizeMemRange _ _ _)
theorem nc_getMemoryInputAndOutRanges (s : IState) : NC (getMemoryInputAndOutRanges s) := by
  unfold getMemoryInputAndOutRanges; nc
theorem nc_calcCallGas (r : HostResp) (a b : Bool) (l : Nat) (s : IState) : NC (calcCallGas r a b l s) := by
  unfold calcCallGas; nc
macro_rules | `(tactic| nc_prim) => `(tactic| with_reducible first
  | exact nc_getMemoryInputAndOutRanges _ | exact nc_calcCallGas _ _ _ _ _)

theorem nc_callI (s : IState) : OutcomeNC (callI s) := by
  unfold callI; refine outcomeNC_hostCallAction _ _ s ?_ ?_ <;> nc
theorem nc_callcodeI (s : IState) : OutcomeNC (callcodeI s) := by
  unfold callcodeI; refine outcomeNC_hostCallAction _ _ s ?_ ?_ <;> nc
theorem nc_delegatecallI (s : IState) : OutcomeNC (delegatecallI s) := by
  unfold delegatecallI; refine outcomeNC_hostCallAction _ _ s ?_ ?_ <;> nc
theorem nc_staticcallI (s : IState) : OutcomeNC (staticcallI s) := by
  unfold staticcallI; refine outcomeNC_hostCallAction _ _ s ?_ ?_ <;> nc

theorem nc_checkWhen (b : Bool) (k : Nat) (s : IState) : NC (checkWhen b k s) := by unfold checkWhen; nc
theorem nc_initcodeCharge (l : Nat) (s : IState) : NC (initcodeCharge l s) := by unfold initcodeCharge; nc
macro_rules | `(tactic| nc_prim) => `(tactic| with_reducible first
  | exact nc_checkWhen _ _ _ | exact nc_initcodeCharge _ _)
theorem nc_createCode (o l : Nat) (s : IState) : NC (createCode o l s) := by unfold createCode; nc
theorem nc_createScheme (b : Bool) (l : Nat) (s : IState) : NC (createScheme b l s) := by unfold createScheme; nc
macro_rules | `(tactic| nc_prim) => `(tactic| with_reducible first
  | exact nc_createCode _ _ _ | exact nc_createScheme _ _ _)
theorem nc_createI (b : Bool) (s : IState) : NC (createI b s) := by unfold createI; nc

theorem nc_eofcreatePre (s : IState) : NC (eofcreatePre s) := by unfold eofcreatePre; nc
theorem nc_eofcreateI (s : IState) : OutcomeNC (eofcreateI s) := by
  unfold eofcreateI; refine outcomeNC_hostCallAction _ _ s (nc_eofcreatePre s) ?_; nc

theorem nc_popExtcallTarget (s : IState) : NC (popExtcallTarget s) := by unfold popExtcallTarget; nc
theorem nc_extcallInput (s : IState) : NC (extcallInput s) := by unfold extcallInput; nc
theorem nc_extcallGasCalc (r : HostResp) (b : Bool) (s : IState) : NC (extcallGasCalc r b s) := by
  unfold extcallGasCalc
  refine nc_bind (nc_requireSome _ _) (fun _ s1 => ?_)
  refine nc_bind (nc_gasCharge _ _) (fun _ s2 => ?_)
  refine nc_bind (nc_getS _) (fun s3 s4 => ?_)
  by_cases h : U64ops.saturatingSub s3.gas.remaining (max (s3.gas.remaining / 64) 5000) < GasCalc.MIN_CALLEE_GAS
  · simp only [h, if_true]; nc
  · simp only [h, if_false]; nc
macro_rules | `(tactic| nc_prim) => `(tactic| with_reducible first
  | exact nc_popExtcallTarget _ | exact nc_extcallInput _ | exact nc_extcallGasCalc _ _ _)

theorem nc_extcallI (s : IState) : OutcomeNC (extcallI s) := by
  unfold extcallI; refine outcomeNC_hostCallOptAction _ _ s ?_ ?_ <;> nc
theorem nc_extdelegatecallI (s : IState) : OutcomeNC (extdelegatecallI s) := by
  unfold extdelegatecallI; refine outcomeNC_hostCallOptAction _ _ s ?_ ?_ <;> nc
theorem nc_extstaticcallI (s : IState) : OutcomeNC (extstaticcallI s) := by
  unfold extstaticcallI; refine outcomeNC_hostCallOptAction _ _ s ?_ ?_ <;> nc

/-! ## every instruction -/

/-- **no instruction handler stops a frame with `instruction_result = Continue`** -/
theorem instrNC : InstrNC := by
  intro i s
  cases h : execPure i with
  | some m =>
    have e : execInstr i s = .pure (m s).toDone := by unfold execInstr; rw [h]
    rw [e]
    exact .pure (doneNC_toDone (nc_execPure i m h s))
  | none =>
    unfold execInstr
    rw [h]
    simp only
    cases i <;> first
      | (simp only [execPure, reduceCtorEq] at h; done)
      | exact nc_keccak256I s | exact nc_balanceI s | exact nc_selfbalanceI s | exact nc_extcodesizeI s
      | exact nc_extcodehashI s | exact nc_extcodecopyI s | exact nc_blockhashI s | exact nc_sloadI s
      | exact nc_sstoreI s | exact nc_tloadI s | exact nc_tstoreI s | exact nc_logI _ s | exact nc_selfdestructI s
      | exact .pure (doneNC_toDoneAction (nc_createI _ s)) | exact nc_callI s | exact nc_callcodeI s
      | exact nc_delegatecallI s | exact nc_staticcallI s | exact nc_eofcreateI s | exact nc_extcallI s
      | exact nc_extdelegatecallI s | exact nc_extstaticcallI s

end Revm.Proofs.EvmInstWrap
