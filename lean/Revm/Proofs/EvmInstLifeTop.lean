import Revm.Proofs.EvmInstLifeTx
/-! C31 instance, part 4: `EvmLifecycle.transact (evmHandler spec)` IS `Evm.transact`, the `SpecBlind` hypothesis of
C31 holds of the concrete stages, and the corollaries for histories of `Evm.transact` calls on one context. -/
namespace Revm.Proofs.EvmInstLife
open Revm Revm.Model Revm.Model.Evm Revm.Proofs.EvmInst
open Revm.Model.Journal (JState)
open Revm.Proofs.EvmLifecycle (SpecBlind HSpecBlind Clean)

set_option linter.unusedSimpArgs false

section
variable (spec : Nat)

local notation "sp" => GasCalc.canon spec
local notation "H" => evmHandler spec

/-- `transact_preverified_inner` (abstract) against `Evm.execute` (concrete); the abstract answer is shown with the
changeable part of its context -/
theorem inner_rel (fuel : Nat) (g : Nat × Nat) (c : LCtx) (hc : c.error = none) :
    RestRel (execute journalOps fuel c.env sp g.1 g.2 (ctxWorld c))
      ((EvmLifecycle.inner (H) fuel g c).map (fun p => (p.1, p.2.work))) := by
  rw [execute_eq_restC]
  unfold EvmLifecycle.inner
  rw [loadAccountsW_eq]
  simp only []
  have hw := after_setPrecompiles spec c
  rw [loadAccountsW_eq] at hw
  simp only [] at hw
  have henv : (EvmLifecycle.setPrecompiles (H) (c.withWork (setWorld c.work
      (loadAccessList c.env { workWorld c.work with js := jsStart c.env sp c.work.js })))).env = c.env := rfl
  generalize EvmLifecycle.setPrecompiles (H)
    (c.withWork (setWorld c.work (loadAccessList c.env { workWorld c.work with js := jsStart c.env sp c.work.js }))) = c2
    at hw henv ⊢
  have he : c2.work.error = none := by rw [hw, setWorld_error]; exact hc
  have hr := rest_rel spec c2.env fuel g c2.precompiles c2.work he
  revert hr
  generalize EvmLifecycle.innerRestW (H) fuel g c2.precompiles c2.env c2.work = B
  rw [hw, setWorld_world, henv]
  show RestRel (restC fuel c.env sp g.1 g.2 (loadAccounts c.env sp (ctxWorld c))) B → _
  generalize restC fuel c.env sp g.1 g.2 (loadAccounts c.env sp (ctxWorld c)) = A
  intro hr
  cases hr with
  | ok x er w1 h1 h2 => exact .ok x er _ h1 h2
  | fuel => exact .fuel
  | err er w1 h1 => exact .err er _ h1

/-- What `Evm.transact` returns against what the abstract `Evm::transact` over `evmHandler` returns:
* an executed transaction: the same `ExecutionResult` (log ids resolved in the log store of the final world), the state
  handed out by `finalize` is the journal state of the final world, the context keeps the final world's database part;
* a rejected transaction is the abstract `Err(Transaction | Header)`;
* the interpreter loop does not return within the fuel on either side;
* a model-level failure (Rust panic / fatal precompile error / missing oracle line) is the same failure. -/
inductive TransactRel (c : LCtx) :
    R (Outcome × World) → Option (Except LErr (ERes × EvmLifecycle.EvmState) × LCtx) → Prop
  | executed (x : World) (er : ERes) (c' : LCtx) : c'.db = WDb.of x →
      TransactRel c (.ok (.executed (resolve x.logs er), x)) (some (.ok (er, x.js.state), c'))
  | rejected (c' : LCtx) : TransactRel c (.ok (.rejected, ctxWorld c)) (some (.error .rejected, c'))
  | fuel : TransactRel c (.error .outOfFuel) none
  | err (er : Evm.Err) (c' : LCtx) : TransactRel c (.error er) (some (.error (.err er), c'))

/-- C31 INSTANCE: the abstract entry point `Evm::transact` of `Model.EvmLifecycle`, instantiated with the handler stages
of the whole-EVM model, computes `Revm.Model.Evm.transact` - for every context with an empty error slot, every
environment, configured `SpecId` and fuel (the same fuel on both sides). -/
theorem evm_transact_is_lifecycle_transact (fuel : Nat) (c : LCtx) (hc : c.error = none) :
    TransactRel c (Evm.transact fuel (ctxWorld c) c.env spec) (EvmLifecycle.transact (H) fuel c) := by
  unfold Evm.transact transactWith EvmLifecycle.transact EvmLifecycle.preverifyInner
  dsimp only
  have hp := pre_rel spec c.env c.work
  revert hp
  generalize EvmLifecycle.preverifyInnerW (H) c.env c.work = P
  show PreRel c.work (preverify (ctxWorld c) c.env sp) P → _
  generalize preverify (ctxWorld c) c.env sp = A
  intro hp
  cases hp with
  | err er w1 h1 => exact .err er _
  | rej w1 h1 => exact .rejected _
  | ok x ig fg =>
    simp only [bind, Except.bind]
    unfold EvmLifecycle.finish
    have hr := inner_rel spec fuel (ig, fg) (c.withWork (setWorld c.work x)) hc
    revert hr
    generalize EvmLifecycle.inner (H) fuel (ig, fg) (c.withWork (setWorld c.work x)) = I
    show RestRel (execute journalOps fuel c.env sp ig fg x) _ → _
    generalize execute journalOps fuel c.env sp ig fg x = A2
    generalize hM : I.map (fun p => (p.1, p.2.work)) = M
    intro hr
    cases hr with
    | fuel =>
      cases I with
      | none => exact .fuel
      | some q => simp at hM
    | err er w1 h1 =>
      cases I with
      | none => simp at hM
      | some q =>
        obtain ⟨out, c'⟩ := q
        simp only [Option.map_some, Option.some.injEq, Prod.mk.injEq] at hM
        rw [hM.1]
        exact .err er _
    | ok x' er w1 h1 h2 =>
      cases I with
      | none => simp at hM
      | some q =>
        obtain ⟨out, c'⟩ := q
        simp only [Option.map_some, Option.some.injEq, Prod.mk.injEq] at hM
        rw [hM.1]
        refine .executed x' er _ ?_
        show c'.work.db = _
        rw [hM.2]; exact h1

/-! ## the hypothesis of C31 holds of the concrete stages -/

theorem workWorld_setSpec (w : LWork) (s : Nat) :
    workWorld (Revm.Proofs.EvmLifecycle.Work.setSpec w s) = mkWorld w.db (EvmLifecycle.setSpecId w.js s) := rfl

theorem world_loadCode_setSpecId (d : WDb) (js : JState) (s a : Nat) :
    (mkWorld d (EvmLifecycle.setSpecId js s)).loadCode a =
      ((mkWorld d js).loadCode a).map (fun p => (mkWorld (WDb.of p.1) (EvmLifecycle.setSpecId p.1.js s), p.2)) := by
  unfold World.loadCode
  show (do
    let (js', cold) ← ofOpt "load_code" (Journal.loadCode (mkWorld d js).db (EvmLifecycle.setSpecId js s) a)
    pure (({ mkWorld d (EvmLifecycle.setSpecId js s) with js := js' } : World).noteAddr a, cold)) = _
  rw [Revm.Proofs.EvmLifecycle.loadCode_setSpecId]
  show _ = Except.map _ (do
    let (js', cold) ← ofOpt "load_code" (Journal.loadCode (mkWorld d js).db js a)
    pure (({ mkWorld d js with js := js' } : World).noteAddr a, cold))
  cases Journal.loadCode (mkWorld d js).db js a with
  | none => rfl
  | some p =>
    obtain ⟨js1, cold⟩ := p
    simp only [Option.map_some, ofOpt, bind, Except.bind, pure, Except.pure, Except.map, World.noteAddr, mkWorld]
    by_cases h : d.addrs.contains a = true
    · simp only [h, if_true]; rfl
    · simp only [h, if_false]; rfl

theorem acct_setSpec (x : World) (s a : Nat) :
    (mkWorld (WDb.of x) (EvmLifecycle.setSpecId x.js s)).acct a = x.acct a := rfl
theorem codeOf_setSpec (x : World) (s h : Nat) :
    (mkWorld (WDb.of x) (EvmLifecycle.setSpecId x.js s)).codeOf h = x.codeOf h := rfl

/-- `validation.tx_against_state` of the concrete model (`load_code(caller)` and a check of the loaded account) does not
read `journaled_state.spec` -/
theorem evm_txAgainstState_specBlind : SpecBlind (H).txAgainstState := by
  intro e w s
  rw [h_txAgainstState, h_txAgainstState, workWorld_setSpec]
  unfold txAgainstState
  rw [world_loadCode_setSpecId]
  simp only [bind, Except.bind, workWorld]
  cases (mkWorld w.db w.js).loadCode e.tx.caller with
  | error er => rfl
  | ok p =>
    obtain ⟨x1, cold⟩ := p
    simp only [Except.map, acct_setSpec, codeOf_setSpec]
    cases x1.acct e.tx.caller with
    | error er => rfl
    | ok acc =>
      simp only []
      cases ofOpt "code not cached" acc.info.code with
      | error er => rfl
      | ok hh =>
        simp only []
        cases ofOpt "code_by_hash" (x1.codeOf hh) with
        | error er => rfl
        | ok code =>
          simp only [pure, Except.pure]
          cases validateAgainstState e sp code acc.info <;> rfl

/-- `HSpecBlind` - the one hypothesis of C31's headline theorems - holds of `evmHandler` -/
theorem evm_hspec_blind : HSpecBlind (H) :=
  ⟨evm_txAgainstState_specBlind spec, fun _ _ _ _ => rfl⟩

/-! ## corollaries -/

/-- inversion of the instance theorem at an executed transaction -/
theorem evm_transact_executed (fuel : Nat) (c : LCtx) (hc : c.error = none) (r : TxResult) (x : World)
    (h : Evm.transact fuel (ctxWorld c) c.env spec = .ok (.executed r, x)) :
    ∃ er c', EvmLifecycle.transact (H) fuel c = some (.ok (er, x.js.state), c') ∧ resolve x.logs er = r ∧
      c'.db = WDb.of x := by
  have hrel := evm_transact_is_lifecycle_transact spec fuel c hc
  rw [h] at hrel
  generalize EvmLifecycle.transact (H) fuel c = B at hrel
  cases hrel with
  | executed x' er c' hdb => exact ⟨er, c', rfl, rfl, hdb⟩

/-- the other direction: what the abstract entry point returns is what `Evm.transact` returns -/
theorem evm_lifecycle_result_is_transact (fuel : Nat) (c : LCtx) (hc : c.error = none) :
    (∀ er st c', EvmLifecycle.transact (H) fuel c = some (.ok (er, st), c') →
      ∃ x, Evm.transact fuel (ctxWorld c) c.env spec = .ok (.executed (resolve x.logs er), x) ∧ st = x.js.state ∧
        c'.db = WDb.of x) ∧
    (∀ c', EvmLifecycle.transact (H) fuel c = some (.error .rejected, c') →
      Evm.transact fuel (ctxWorld c) c.env spec = .ok (.rejected, ctxWorld c)) ∧
    (∀ er c', EvmLifecycle.transact (H) fuel c = some (.error (.err er), c') →
      Evm.transact fuel (ctxWorld c) c.env spec = .error er) ∧
    (EvmLifecycle.transact (H) fuel c = none → Evm.transact fuel (ctxWorld c) c.env spec = .error .outOfFuel) := by
  have hrel := evm_transact_is_lifecycle_transact spec fuel c hc
  generalize EvmLifecycle.transact (H) fuel c = B at hrel
  generalize Evm.transact fuel (ctxWorld c) c.env spec = A at hrel
  refine ⟨?_, ?_, ?_, ?_⟩
  · intro er st c' hB
    subst hB
    cases hrel with
    | executed x er' c'' hdb => exact ⟨x, rfl, rfl, hdb⟩
  · intro c' hB
    subst hB
    cases hrel with
    | rejected c'' => rfl
  · intro er c' hB
    subst hB
    cases hrel with
    | err er' c'' => rfl
  · intro hB
    subst hB
    cases hrel with
    | fuel => rfl

/-- C31 `cleared_after` for the whole-EVM model: after ANY entry point on ANY exit path the context is cleared -/
theorem evm_cleared_after (commit : WDb → EvmLifecycle.EvmState → WDb) (ep : EvmLifecycle.EntryPoint) (fuel : Nat)
    (c c' : LCtx) (r : EvmLifecycle.CallResult LErr ERes)
    (h : EvmLifecycle.call (H) commit ep fuel c = some (r, c')) :
    c'.env = c.env ∧ c'.js = JState.new c'.js.spec EvmLifecycle.noPreloaded ∧ c'.error = none ∧ c'.l1 = none ∧
    (c'.precompiles = c.precompiles ∨ c'.precompiles = sp) := by
  have := Revm.Proofs.EvmLifecycle.call_cleared (H) commit ep fuel h
  exact ⟨this.1, this.2.1.1, this.2.1.2.1, this.2.1.2.2, this.2.2⟩

/-- a freshly built `Evm` is a context over the fresh world on which `Evm.transact` is specified -/
theorem ctxWorld_build (db : WDb) (env : Env) (pre0 : Nat) :
    ctxWorld (EvmLifecycle.Ctx.build db env spec pre0 : LCtx) = mkWorld db (JState.new spec EvmLifecycle.noPreloaded) := rfl

/-- `transact` on a freshly built instance is `Evm.transact` on the fresh world -/
theorem evm_fresh_transact (db : WDb) (env : Env) (pre0 fuel : Nat) :
    TransactRel (EvmLifecycle.Ctx.build db env spec pre0)
      (Evm.transact fuel (mkWorld db (JState.new spec EvmLifecycle.noPreloaded)) env spec)
      (EvmLifecycle.transact (H) fuel (EvmLifecycle.Ctx.build db env spec pre0)) :=
  evm_transact_is_lifecycle_transact spec fuel (EvmLifecycle.Ctx.build db env spec pre0) rfl

end

/-- the operations of a history are calls of the whole-EVM handler (for any configured spec) -/
def EvmOps (ops : List (EvmLifecycle.Op WDb Env LErr Nat Empty (Nat × Nat) LS Act FRes ERes)) : Prop :=
  ∀ op ∈ ops, ∃ s, op.h = evmHandler s

/-- C31 for the whole-EVM model, NO hypothesis left: any history of entry-point calls of `evmHandler`s (any
environments, spec changes, rejected / reverted / halted / failing transactions, `preverify` calls, any fuel) on ONE
instance gives the same results and the same final database as running every call on a freshly built instance. -/
theorem evm_sequence_on_one_instance_eq_fresh_instances (commit : WDb → EvmLifecycle.EvmState → WDb) (pre0 : Nat)
    (ops : List (EvmLifecycle.Op WDb Env LErr Nat Empty (Nat × Nat) LS Act FRes ERes)) (hops : EvmOps ops)
    (c : LCtx) (hc : Clean c) :
    (EvmLifecycle.runOne commit ops c).map (fun p => (p.1, p.2.db)) = EvmLifecycle.runFresh commit pre0 ops c.db :=
  Revm.Proofs.EvmLifecycle.sequence_eq commit pre0 ops c hc (fun op hop => by
    obtain ⟨s, hs⟩ := hops op hop
    rw [hs]; exact evm_hspec_blind s)

/-! ### histories of executed transactions, stated with `Evm.transact` alone -/

/-- one `transact_commit` request -/
structure TxReq where
  env : Env
  spec : Nat
  fuel : Nat
  /-- whether the handler was rebuilt through the builder before the call (`Evm::new` runs again) -/
  rebuilt : Bool := false

def TxReq.op (t : TxReq) : EvmLifecycle.Op WDb Env LErr Nat Empty (Nat × Nat) LS Act FRes ERes :=
  { h := evmHandler t.spec, rebuilt := t.rebuilt, env := t.env, entry := .transactCommit, fuel := t.fuel }

/-- every transaction by `Evm.transact` on a FRESH world over the database committed so far; `none` when one of them
is not executed. Each result comes with the log store of its final world. -/
def evmFreshSeq (commit : WDb → EvmLifecycle.EvmState → WDb) : List TxReq → WDb → Option (List (TxResult × World) × WDb)
  | [], db => some ([], db)
  | t :: ts, db =>
    match Evm.transact t.fuel (mkWorld db (JState.new t.spec EvmLifecycle.noPreloaded)) t.env t.spec with
    | .ok (.executed r, x) =>
      match evmFreshSeq commit ts (commit (WDb.of x) x.js.state) with
      | some (rs, db') => some ((r, x) :: rs, db')
      | none => none
    | _ => none

/-- the abstract results are the concrete ones with the log ids not yet resolved: pointwise
`resolve (log store of the final world) er = r` -/
inductive Resolved : List ERes → List (TxResult × World) → Prop
  | nil : Resolved [] []
  | cons {er : ERes} {p : TxResult × World} {ers : List ERes} {rs : List (TxResult × World)} :
      resolve p.2.logs er = p.1 → Resolved ers rs → Resolved (er :: ers) (p :: rs)

theorem evm_fresh_history (commit : WDb → EvmLifecycle.EvmState → WDb) (pre0 : Nat) :
    ∀ (ts : List TxReq) (db : WDb) (rs : List (TxResult × World)) (db' : WDb),
      evmFreshSeq commit ts db = some (rs, db') →
      ∃ ers : List ERes, EvmLifecycle.runFresh commit pre0 (ts.map TxReq.op) db =
          some (ers.map (fun er => EvmLifecycle.CallResult.commit (.ok er)), db') ∧
        Resolved ers rs := by
  intro ts
  induction ts with
  | nil =>
    intro db rs db' h
    simp only [evmFreshSeq, Option.some.injEq, Prod.mk.injEq] at h
    obtain ⟨rfl, rfl⟩ := h
    exact ⟨[], rfl, .nil⟩
  | cons t ts ih =>
    intro db rs db' h
    unfold evmFreshSeq at h
    cases ht : Evm.transact t.fuel (mkWorld db (JState.new t.spec EvmLifecycle.noPreloaded)) t.env t.spec with
    | error er => rw [ht] at h; simp at h
    | ok p =>
      obtain ⟨o, x⟩ := p
      cases o with
      | rejected => rw [ht] at h; simp at h
      | executed r =>
        rw [ht] at h
        simp only [] at h
        cases hrest : evmFreshSeq commit ts (commit (WDb.of x) x.js.state) with
        | none => rw [hrest] at h; simp at h
        | some q =>
          obtain ⟨rs1, db1⟩ := q
          rw [hrest] at h
          simp only [Option.some.injEq, Prod.mk.injEq] at h
          obtain ⟨rfl, rfl⟩ := h
          obtain ⟨ers1, hf, hall⟩ := ih _ _ _ hrest
          obtain ⟨er, c', hL, hres, hdb⟩ := evm_transact_executed t.spec t.fuel
            (EvmLifecycle.Ctx.build db t.env t.spec pre0) rfl r x ht
          refine ⟨er :: ers1, ?_, .cons hres hall⟩
          show EvmLifecycle.runFresh commit pre0 (t.op :: ts.map TxReq.op) db = _
          unfold EvmLifecycle.runFresh
          have hcall : EvmLifecycle.call t.op.h commit t.op.entry t.op.fuel
              (EvmLifecycle.Ctx.build db t.op.env t.op.h.spec pre0) =
              some (.commit (.ok er), { c' with db := commit c'.db x.js.state }) := by
            show (EvmLifecycle.transactCommit (evmHandler t.spec) commit t.fuel
              (EvmLifecycle.Ctx.build db t.env t.spec pre0)).map _ = _
            unfold EvmLifecycle.transactCommit
            rw [hL]
            rfl
          rw [hcall]
          simp only []
          rw [hdb, hf]
          rfl

/-- C31 ON `Evm.transact`: if running the transactions one after the other with `Evm.transact`, each on a FRESH world
over the database committed so far, executes all of them, then running them on ONE reused instance (whatever spec
changes / handler rebuilds happen in between) gives exactly these results (log ids resolved in each final world's
log store) and the same final database. -/
theorem evm_history_on_one_instance (commit : WDb → EvmLifecycle.EvmState → WDb) (ts : List TxReq) (c : LCtx)
    (hc : Clean c) (rs : List (TxResult × World)) (db' : WDb) (h : evmFreshSeq commit ts c.db = some (rs, db')) :
    ∃ ers : List ERes,
      (EvmLifecycle.runOne commit (ts.map TxReq.op) c).map (fun p => (p.1, p.2.db)) =
        some (ers.map (fun er => EvmLifecycle.CallResult.commit (.ok er)), db') ∧
      Resolved ers rs := by
  obtain ⟨ers, hf, hall⟩ := evm_fresh_history commit 0 ts c.db rs db' h
  refine ⟨ers, ?_, hall⟩
  rw [evm_sequence_on_one_instance_eq_fresh_instances commit 0 _ _ c hc, hf]
  intro op hop
  simp only [List.mem_map] at hop
  obtain ⟨t, _, rfl⟩ := hop
  exact ⟨t.spec, rfl⟩


end Revm.Proofs.EvmInstLife
