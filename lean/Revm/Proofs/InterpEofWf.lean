import Revm.Proofs.InterpLoop
import Revm.Model.InterpWf
/-! C25, EOF part 1: the decidable well-formedness predicate of an EOF container as the interpreter needs it
(what `validate_eof` establishes about immediates, jump targets, section indices, sub-containers and function
types), and the invariant of instruction boundaries of EOF code. -/
set_option linter.unusedSimpArgs false
set_option linter.unusedVariables false
namespace Revm.Proofs.Interp
open Revm Revm.Model Revm.Model.Interp
open Revm.Proofs.Memory (WF)

theorem instrOk_parts {B : List Nat} {types : List (Nat × Nat × Nat)} {containers : List (List Nat)} {self : Nat}
    {sec : List Nat} {i : Nat} {I : Instr} (hI : decode (sec.getD i 0) = I)
    (h : instrOk B types containers self sec i = true) :
    i + instrLenOf I sec i ≤ sec.length
    ∧ (terminating I = true ∨ (i + instrLenOf I sec i) ∈ B)
    ∧ instrSpecific B types containers self sec i I = true := by
  unfold instrOk instrLen at h
  rw [hI] at h
  simp only [Bool.and_eq_true, Bool.or_eq_true, decide_eq_true_eq, List.contains_iff_mem] at h
  exact ⟨h.1.1, h.1.2, h.2⟩

/-- the same as a proposition about the static parts of the container -/
structure WfStatic (sections : List (List Nat)) (types : List (Nat × Nat × Nat)) (containers : List (List Nat))
    (data : List Nat) : Prop where
  nonempty : 0 < sections.length
  typesLen : types.length = sections.length
  first : returning (typeOf types 0) = false
  dataLen : data.length ≤ Memory.ISIZE_MAX
  secs : ∀ k sec, sections[k]? = some sec →
    (∀ b ∈ sec, b < 256) ∧ 0 ∈ boundaries sec ∧ ∀ i ∈ boundaries sec, i < sec.length ∧
      instrOk (boundaries sec) types containers k sec i = true

abbrev WfCtx (c : EofCtx) : Prop := WfStatic c.sections c.types c.containers c.data

theorem wfCtx_of_check (c : EofCtx) (h : wfCtxB c = true) : WfCtx c := by
  unfold wfCtxB at h
  simp only [Bool.and_eq_true, Bool.not_eq_true', beq_iff_eq, decide_eq_true_eq, List.all_eq_true,
    List.mem_range, List.isEmpty_eq_false_iff] at h
  obtain ⟨⟨⟨⟨h1, h2⟩, h3⟩, h4⟩, h5⟩ := h
  refine ⟨List.length_pos_iff.mpr h1, h2, h3, h4, ?_⟩
  intro k sec hk
  have hlt : k < c.sections.length := by
    rcases Nat.lt_or_ge k c.sections.length with hh | hh
    · exact hh
    · rw [List.getElem?_eq_none hh] at hk; cases hk
  have hs := h5 k hlt
  have hget : c.sections.getD k [] = sec := by
    rw [List.getD_eq_getElem?_getD, hk]; rfl
  rw [hget] at hs
  unfold secOkB at hs
  simp only [Bool.and_eq_true, List.contains_iff_mem, List.all_eq_true, decide_eq_true_eq] at hs
  exact ⟨hs.1.1, hs.1.2, fun i hi => hs.2 i hi⟩

/-! ## the dynamic part: the function stack -/

/-- every frame of the return stack points at an instruction boundary of an existing section, and a returning
function always has a frame to return to -/
def FramesOk (sections : List (List Nat)) (types : List (Nat × Nat × Nat)) : Nat → List (Nat × Nat) → Prop
  | cur, [] => returning (typeOf types cur) = false
  | _, (idx, pc) :: rest =>
    (∃ sec, sections[idx]? = some sec ∧ pc ∈ boundaries sec) ∧ FramesOk sections types idx rest

structure CtxOk (c : EofCtx) : Prop where
  wf : WfCtx c
  cur : c.curIdx < c.sections.length
  depth : c.retStack.length ≤ 1024
  frames : FramesOk c.sections c.types c.curIdx c.retStack

/-- the parts of a container that execution never changes -/
structure StaticEq (K c : EofCtx) : Prop where
  sections : c.sections = K.sections
  types : c.types = K.types
  containers : c.containers = K.containers
  data : c.data = K.data

/-- what holds of every state `run` reaches between two instructions of EOF code: the basic invariant, a
well-formed container with a valid function stack, the running code is the current section and the instruction
pointer is at one of its instruction boundaries -/
structure InvE (K : EofCtx) (s : IState) : Prop extends Base s where
  isEof : s.isEof = true
  jt : s.jumpTable = []
  ctx : ∃ c sec, s.eof = some c ∧ CtxOk c ∧ c.sections[c.curIdx]? = some sec ∧ s.code = sec
    ∧ s.pc ∈ boundaries sec
  /-- the container is still the one the frame started with (up to the function stack) -/
  static : ∀ c, s.eof = some c → StaticEq K c

theorem invE_loop (K : EofCtx) : LoopInv (InvE K) :=
  ⟨fun _ h => h.toBase,
   fun s x h hs hb =>
    { toBase := hb
      isEof := by rw [hs.isEof]; exact h.isEof
      jt := by rw [hs.jt]; exact h.jt
      ctx := by rw [hs.eofc, hs.code, hs.pc]; exact h.ctx
      static := by rw [hs.eofc]; exact h.static }⟩

/-- `InvE` gives the instruction pointer inside the section (`pc_in_bounds` for EOF) -/
theorem InvE.pc_lt {K : EofCtx} {s : IState} (h : InvE K s) : s.pc < s.code.length := by
  obtain ⟨c, sec, _, hok, hsec, hcode, hpc⟩ := h.ctx
  rw [hcode]
  exact ((hok.wf.secs _ _ hsec).2.2 _ hpc).1

end Revm.Proofs.Interp
