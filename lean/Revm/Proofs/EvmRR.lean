import Revm.Model.Evm
import Revm.Spec.EvmStrict
/-! Results of the two machines, errors included: `RR P x1 x2` — when the first computation completes the second
completes with a `P`-related value; when the first stops with a model-level error the second stops with an error of
the same kind (panic / fatal / missing oracle answer / out of fuel) — unless the first stopped at one of the two
admissibility checks of the strict discipline (`Esc`). `RR` is a congruence for `bind`, which lifts the relation of the
primitive operations through the frame machine and the transaction handler without case analysis on completed runs. -/
namespace Revm.Proofs.EvmRR
open Revm Revm.Model Revm.Model.Evm

/-- same kind of model-level error -/
def Kind : Err → Err → Prop
  | .panic _, .panic _ => True
  | .fatal _, .fatal _ => True
  | .oracleMiss _, .oracleMiss _ => True
  | .outOfFuel, .outOfFuel => True
  | _, _ => False

theorem Kind.refl (e : Err) : Kind e e := by cases e <;> trivial

/-- the stop of the strict discipline at an admissibility check -/
def Esc (e : Err) : Prop :=
  e = .panic "inadmissible: create_account_checkpoint without collision on an account created in this transaction" ∨
  e = .panic "inadmissible: set_code on an account with code"

def RR {α β : Type} (P : α → β → Prop) (x1 : R α) (x2 : R β) : Prop :=
  match x1 with
  | .ok a => ∃ b, x2 = .ok b ∧ P a b
  | .error e => Esc e ∨ ∃ e', x2 = .error e' ∧ Kind e e'

variable {α β γ δ : Type}

theorem RR.of {P : α → β → Prop} {x1 : R α} {x2 : R β} (hf : ∀ a, x1 = .ok a → ∃ b, x2 = .ok b ∧ P a b)
    (he : ∀ e, x1 = .error e → Esc e ∨ ∃ e', x2 = .error e' ∧ Kind e e') : RR P x1 x2 := by
  cases x1 with
  | ok a => exact hf a rfl
  | error e => exact he e rfl

theorem RR.ok {P : α → β → Prop} {x1 : R α} {x2 : R β} (h : RR P x1 x2) {a : α} (ha : x1 = .ok a) :
    ∃ b, x2 = .ok b ∧ P a b := by subst ha; exact h

theorem RR.err {P : α → β → Prop} {x1 : R α} {x2 : R β} (h : RR P x1 x2) {e : Err} (ha : x1 = .error e) :
    Esc e ∨ ∃ e', x2 = .error e' ∧ Kind e e' := by subst ha; exact h

theorem RR.pure {P : α → β → Prop} {a : α} {b : β} (h : P a b) : RR P (pure a) (pure b) := ⟨b, rfl, h⟩

theorem RR.okok {P : α → β → Prop} {a : α} {b : β} (h : P a b) : RR P (.ok a) (.ok b) := ⟨b, rfl, h⟩

theorem RR.throw {P : α → β → Prop} {e e' : Err} (h : Kind e e') : RR P (throw e) (throw e') := .inr ⟨e', rfl, h⟩

theorem RR.error {P : α → β → Prop} {e e' : Err} (h : Kind e e') : RR P (.error e) (.error e') := .inr ⟨e', rfl, h⟩

theorem RR.mono {P Q : α → β → Prop} {x1 : R α} {x2 : R β} (h : RR P x1 x2) (hpq : ∀ a b, P a b → Q a b) : RR Q x1 x2 := by
  cases x1 with
  | ok a => obtain ⟨b, hb, hp⟩ := h; exact ⟨b, hb, hpq a b hp⟩
  | error e => exact h

theorem RR.bind {P : α → β → Prop} {Q : γ → δ → Prop} {x1 : R α} {x2 : R β} {f : α → R γ} {g : β → R δ}
    (h : RR P x1 x2) (hfg : ∀ a b, P a b → RR Q (f a) (g b)) : RR Q (x1 >>= f) (x2 >>= g) := by
  cases x1 with
  | ok a =>
    obtain ⟨b, hb, hp⟩ := h
    subst hb
    exact hfg a b hp
  | error e =>
    rcases h with h | ⟨e', he', hk⟩
    · exact .inl h
    · subst he'; exact .inr ⟨e', rfl, hk⟩

/-- the same computation on both sides -/
theorem RR.same (x : R α) : RR (fun a b => a = b) x x := by
  cases x with
  | ok a => exact ⟨a, rfl, rfl⟩
  | error e => exact .inr ⟨e, rfl, Kind.refl e⟩

/-- `ofOpt` with the same message -/
theorem RR.ofOpt {P : α → β → Prop} (msg : String) {o1 : Option α} {o2 : Option β}
    (hs : ∀ a, o1 = some a → ∃ b, o2 = some b ∧ P a b) (hn : o1 = none → o2 = none) :
    RR P (ofOpt msg o1) (ofOpt msg o2) := by
  cases o1 with
  | some a => obtain ⟨b, hb, hp⟩ := hs a rfl; subst hb; exact ⟨b, rfl, hp⟩
  | none => rw [hn rfl]; exact .inr ⟨_, rfl, trivial⟩

/-- remember the completed computations -/
theorem RR.withEq {P : α → β → Prop} {x1 : R α} {x2 : R β} (h : RR P x1 x2) :
    RR (fun a b => P a b ∧ x1 = .ok a ∧ x2 = .ok b) x1 x2 := by
  cases x1 with
  | ok a => obtain ⟨b, hb, hp⟩ := h; exact ⟨b, hb, hp, rfl, hb⟩
  | error e => exact h

end Revm.Proofs.EvmRR
