import Revm.Proofs.PrecompileModexp
/-! C23: padding, gate, length-rule and output-format facts of the individual precompiles. -/
set_option linter.unusedSimpArgs false
set_option linter.unusedVariables false
namespace Revm.Proofs.Precompile
open Revm Revm.Model.Precompile Revm.Model.PrecompileHash

theorem rightPad_idem (n : Nat) (d : Bytes) : rightPad n (rightPad n d) = rightPad n d := by
  have h := take_rightPad n n d (Nat.le_refl _)
  have hl := rightPad_length n d
  unfold rightPad at h hl ⊢
  rw [h, hl]; simp

/-- ecrecover sees only the first 128 bytes, zero-extended -/
theorem ecRecover_padding (rec : Bytes → Nat → Bytes → Option Bytes) (input : Bytes) (gas : Nat) :
    ecRecoverRun rec input gas = ecRecoverRun rec (rightPad 128 input) gas := by
  unfold ecRecoverRun; rw [rightPad_idem]
theorem bnAdd_padding (cost : Nat) (input : Bytes) (gas : Nat) :
    bnAddRun cost input gas = bnAddRun cost (rightPad 128 input) gas := by
  unfold bnAddRun; rw [rightPad_idem]
theorem bnMul_padding (cost : Nat) (input : Bytes) (gas : Nat) :
    bnMulRun cost input gas = bnMulRun cost (rightPad 96 input) gas := by
  unfold bnMulRun; rw [rightPad_idem]

/-- with 3000 gas ecrecover never fails: it returns the recovered word or nothing, and charges 3000 -/
theorem ecRecover_ok (rec : Bytes → Nat → Bytes → Option Bytes) (input : Bytes) (gas : Nat) (h : 3000 ≤ gas) :
    ∃ out, ecRecoverRun rec input gas = .ok 3000 out := by
  unfold ecRecoverRun
  have h0 : ¬ 3000 > gas := by omega
  simp only [h0, if_false]
  have hl := rightPad_length 128 input
  split
  · next heq =>
    have : (List.drop 63 (rightPad 128 input)).length = 65 := by simp [hl]
    rw [heq] at this; simp at this
  · split
    · exact ⟨_, rfl⟩
    · split <;> exact ⟨_, rfl⟩

/-- the `v` gate: bytes 32..62 of the padded input must be zero -/
theorem ecRecover_gate_zero (rec : Bytes → Nat → Bytes → Option Bytes) (input : Bytes) (gas : Nat) (h : 3000 ≤ gas)
    (hz : (((rightPad 128 input).drop 32).take 31).all (· == 0) = false) :
    ecRecoverRun rec input gas = .ok 3000 [] := by
  unfold ecRecoverRun
  have h0 : ¬ 3000 > gas := by omega
  simp only [h0, if_false, hz, Bool.false_and, Bool.not_false, if_true]
  have hl := rightPad_length 128 input
  split
  · next heq =>
    have : (List.drop 63 (rightPad 128 input)).length = 65 := by simp [hl]
    rw [heq] at this; simp at this
  · rfl

theorem bnPair_length_rule (core : BnPairCore) (perPoint base : Nat) (input : Bytes) (gas : Nat)
    (hg : ¬ U64ops.wadd (U64ops.wmul (input.length / 192) perPoint) base > gas) (hl : input.length % 192 ≠ 0) :
    bnPairRun core perPoint base input gas = .err .Bn128PairLength := by
  unfold bnPairRun; simp only [hg, if_false, hl, ne_eq, not_false_eq_true, if_true]

theorem bnPair_empty (core : BnPairCore) (perPoint base : Nat) (gas : Nat) (hb : base < U64) (hg : base ≤ gas) :
    bnPairRun core perPoint base [] gas = .ok base (boolBytes32 true) := by
  unfold bnPairRun U64ops.wadd U64ops.wmul
  simp only [List.length_nil, Nat.zero_div, Nat.zero_mul, Nat.zero_mod, Nat.zero_add, Nat.mod_eq_of_lt hb]
  have : ¬ base > gas := by omega
  simp [this]

theorem blake2_wrong_length (input : Bytes) (gas : Nat) (h : input.length ≠ 213) :
    blake2Run input gas = .err .Blake2WrongLength := by
  unfold blake2Run; simp only [h, ne_eq, not_false_eq_true, if_true]

/-- blake2f charges one gas per round -/
theorem blake2_gas (input : Bytes) (gas g : Nat) (out : Bytes) (h : blake2Run input gas = .ok g out) :
    g = beNat (input.take 4) ∧ input.length = 213 := by
  unfold blake2Run at h
  by_cases hl : input.length = 213
  · simp only [hl, ne_eq, not_true_eq_false, if_false, Nat.mul_one] at h
    split at h
    · cases h
    · split at h
      · injection h with h1 _; exact ⟨h1.symm, hl⟩
      · injection h with h1 _; exact ⟨h1.symm, hl⟩
      · cases h
  · simp only [hl, ne_eq, not_false_eq_true, if_true] at h; cases h

/-- a successful KZG point evaluation costs 50000 and returns the constant
`FIELD_ELEMENTS_PER_BLOB ++ BLS_MODULUS`; it requires 192 bytes and a matching versioned hash -/
theorem kzg_ok (verify : Bytes → Bytes → Bytes → Bytes → Bool) (input : Bytes) (gas g : Nat) (out : Bytes)
    (h : kzgRun verify input gas = .ok g out) :
    g = 50000 ∧ out = kzgReturnValue ∧ input.length = 192 ∧
      input.take 32 = kzgToVersionedHash ((input.drop 96).take 48) := by
  unfold kzgRun at h
  split at h; · cases h
  split at h; · cases h
  next hlen =>
  simp only [] at h
  split at h; · cases h
  next hvh =>
  split at h; · cases h
  injection h with h1 h2
  refine ⟨h1.symm, h2.symm, by omega, ?_⟩
  exact (Decidable.not_not.mp hvh).symm

theorem kzg_wrong_length (verify : Bytes → Bytes → Bytes → Bytes → Bool) (input : Bytes) (gas : Nat)
    (hg : 50000 ≤ gas) (hl : input.length ≠ 192) : kzgRun verify input gas = .err .BlobInvalidInputLength := by
  unfold kzgRun
  have : ¬ gas < 50000 := by omega
  simp only [this, if_false, hl, ne_eq, not_false_eq_true, if_true]

theorem blsG1Add_wrong_length (core : BlsCore) (input : Bytes) (gas : Nat) (hg : 375 ≤ gas) (hl : input.length ≠ 256) :
    blsG1AddRun core input gas = .err .Other := by
  unfold blsG1AddRun
  have : ¬ 375 > gas := by omega
  simp only [this, if_false, hl, ne_eq, not_false_eq_true, if_true]
theorem blsG2Add_wrong_length (core : BlsCore) (input : Bytes) (gas : Nat) (hg : 600 ≤ gas) (hl : input.length ≠ 512) :
    blsG2AddRun core input gas = .err .Other := by
  unfold blsG2AddRun
  have : ¬ 600 > gas := by omega
  simp only [this, if_false, hl, ne_eq, not_false_eq_true, if_true]
theorem blsMsm_wrong_length (core : BlsCore) (input : Bytes) (gas : Nat) :
    (input.length = 0 ∨ input.length % 160 ≠ 0 → blsG1MsmRun core input gas = .err .Other) ∧
    (input.length = 0 ∨ input.length % 288 ≠ 0 → blsG2MsmRun core input gas = .err .Other) ∧
    (input.length = 0 ∨ input.length % 384 ≠ 0 → blsPairingRun core input gas = .err .Other) := by
  refine ⟨?_, ?_, ?_⟩ <;> intro h
  · unfold blsG1MsmRun; simp only [h, if_true]
  · unfold blsG2MsmRun; simp only [h, if_true]
  · unfold blsPairingRun; simp only [h, if_true]
/-- the `v` gate: byte 63 of the padded input must be 27 or 28 -/
theorem ecRecover_gate_v (rec : Bytes → Nat → Bytes → Option Bytes) (input : Bytes) (gas : Nat) (h : 3000 ≤ gas)
    (v : Nat) (rest : Bytes) (hv : (rightPad 128 input).drop 63 = v :: rest) (hne : v ≠ 27 ∧ v ≠ 28) :
    ecRecoverRun rec input gas = .ok 3000 [] := by
  unfold ecRecoverRun
  have h0 : ¬ 3000 > gas := by omega
  simp only [h0, if_false, hv]
  have h1 : (v == 27) = false := by simp [hne.1]
  have h2 : (v == 28) = false := by simp [hne.2]
  simp only [h1, h2, Bool.or_false, Bool.and_false, Bool.not_false, if_true]

/-- when the gate passes, the output is exactly what the recovery returns for
(sig = bytes 64..127, recid = v - 27, msg = bytes 0..31) of the padded input -/
theorem ecRecover_pass (rec : Bytes → Nat → Bytes → Option Bytes) (input : Bytes) (gas : Nat) (h : 3000 ≤ gas)
    (v : Nat) (rest : Bytes) (hv : (rightPad 128 input).drop 63 = v :: rest) (hv2 : v = 27 ∨ v = 28)
    (hz : (((rightPad 128 input).drop 32).take 31).all (· == 0) = true) :
    ecRecoverRun rec input gas =
      .ok 3000 ((rec (((rightPad 128 input).drop 64).take 64) (v - 27) ((rightPad 128 input).take 32)).getD []) := by
  unfold ecRecoverRun
  have h0 : ¬ 3000 > gas := by omega
  simp only [h0, if_false, hv, hz]
  have h1 : (v == 27 || v == 28) = true := by
    rcases hv2 with h | h <;> simp [h]
  simp only [h1, Bool.and_self, Bool.not_true, Bool.false_eq_true, if_false]
  cases rec (List.take 64 (List.drop 64 (rightPad 128 input))) (v - 27) (List.take 32 (rightPad 128 input)) <;> rfl
end Revm.Proofs.Precompile
