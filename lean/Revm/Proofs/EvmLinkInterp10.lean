import Revm.Proofs.EvmLinkInterp9
/-! LINK, the interpreter side of panic-freedom, part 10: the halt-output sweep for the instructions that ask the host,
the calls and creates, `execInstr` and `step`: **`OutB`** — in legacy code the output of every halting instruction is
within the memory buffer of the halting state (empty, except for RETURN / REVERT, where it is a slice of the memory). -/
set_option linter.unusedSimpArgs false
set_option linter.unusedVariables false
namespace Revm.Proofs.EvmLink
open Revm Revm.Model Revm.Model.Interp

/-- RETURNCONTRACT outside init code stops at its `require_init_eof!` -/
theorem returnContract_hl (s : IState) (h1 : s.isEofInit = false) :
    ∀ r o s', returnContractI s = .halt r o s' → o.length ≤ s'.mem.buffer.length := by
  intro r o s' h
  have e : returnContractI s = .halt .ReturnContractInNotInitEOF [] s := by
    show M.bind requireInitEof _ s = _
    unfold M.bind requireInitEof
    rw [h1]; rfl
  rw [e] at h
  cases h
  exact Nat.zero_le _

attribute [local irreducible] gasCharge getS check requireNonStatic requireEof requireInitEof requireSome assumeNotEof gasOrFail refund advancePc setEof popN popTop setTop push stackCall stackCallAdv asUsizeOrFail resizeMem memSlice memSliceRange memGetU256 memSetU256 memSetByte memSetData memCopy codeSlice codeByte jumpRel getEof loadEofCode haltWith haltOut faultWith modifyS liftMemWrite pop1 pop2 pop3 pop4 popAddress popTop1 popTop2 popTop3 readU16 readI16 jumpInner checkWhen

set_option maxHeartbeats 400000 in
theorem he_keccakPre : HE keccakPre := by he_auto3
set_option maxHeartbeats 400000 in
theorem he_createI (c2 : Bool) : HE (createI c2) := by he_auto3

theorem ol_keccak256I (s : IState) : OL (keccak256I s) := by
  unfold keccak256I
  cases hp : keccakPre s with
  | ok x s1 =>
    cases x with
    | none => exact ol_pure_toDone (fun r o s' h => by rw [he_setTop _ _ _ _ _ h]; exact Nat.zero_le _)
    | some data =>
      refine ⟨fun r out s' heq => (nomatch heq), fun op' k resp r out s' heq hk => ?_⟩
      cases heq
      dsimp only at hk
      cases he : setTop resp.word s1 with
      | ok a s2 => rw [he] at hk; cases hk
      | halt r1 o1 s2 => rw [he] at hk; cases hk; rw [he_setTop _ _ _ _ _ he]; exact Nat.zero_le _
      | fault f => rw [he] at hk; cases hk
  | halt r1 o1 s1 =>
    refine ⟨fun r out s' heq => ?_, fun op k resp r out s' heq => (nomatch heq)⟩
    cases heq; rw [he_keccakPre s _ _ _ hp]; exact Nat.zero_le _
  | fault f => exact ⟨fun r out s' heq => (nomatch heq), fun op k resp r out s' heq => (nomatch heq)⟩

syntax "ol_host" ident : tactic
macro_rules | `(tactic| ol_host $n) => `(tactic|
  (unfold $n; exact ol_hostCall _ _ _ (HE.hl (by he_auto3)) (fun b r => HE.hl (by he_auto3))))
syntax "ol_hostA" ident : tactic
macro_rules | `(tactic| ol_hostA $n) => `(tactic|
  (unfold $n; exact ol_hostCallAction _ _ _ (HE.hl (by he_auto3)) (fun b r => HE.hl (by he_auto3))))
syntax "ol_hostO" ident : tactic
macro_rules | `(tactic| ol_hostO $n) => `(tactic|
  (unfold $n; exact ol_hostCallOptAction _ _ _ (HE.hl (by he_auto3)) (fun b r => HE.hl (by he_auto3))))

set_option maxHeartbeats 400000 in
theorem ol_balanceI (s : IState) : OL (balanceI s) := by ol_host balanceI
set_option maxHeartbeats 400000 in
theorem ol_selfbalanceI (s : IState) : OL (selfbalanceI s) := by ol_host selfbalanceI
set_option maxHeartbeats 400000 in
theorem ol_extcodesizeI (s : IState) : OL (extcodesizeI s) := by ol_host extcodesizeI
set_option maxHeartbeats 400000 in
theorem ol_extcodehashI (s : IState) : OL (extcodehashI s) := by ol_host extcodehashI
set_option maxHeartbeats 400000 in
theorem ol_extcodecopyI (s : IState) : OL (extcodecopyI s) := by ol_host extcodecopyI
set_option maxHeartbeats 400000 in
theorem ol_blockhashI (s : IState) : OL (blockhashI s) := by ol_host blockhashI
set_option maxHeartbeats 400000 in
theorem ol_sloadI (s : IState) : OL (sloadI s) := by ol_host sloadI
set_option maxHeartbeats 400000 in
theorem ol_sstoreI (s : IState) : OL (sstoreI s) := by ol_host sstoreI
set_option maxHeartbeats 400000 in
theorem ol_tstoreI (s : IState) : OL (tstoreI s) := by ol_host tstoreI
set_option maxHeartbeats 400000 in
theorem ol_tloadI (s : IState) : OL (tloadI s) := by ol_host tloadI
set_option maxHeartbeats 400000 in
theorem ol_logI (n : Nat) (s : IState) : OL (logI n s) := by ol_host logI
set_option maxHeartbeats 400000 in
theorem ol_selfdestructI (s : IState) : OL (selfdestructI s) := by ol_host selfdestructI
set_option maxHeartbeats 400000 in
theorem ol_callI (s : IState) : OL (callI s) := by ol_hostA callI
set_option maxHeartbeats 400000 in
theorem ol_callcodeI (s : IState) : OL (callcodeI s) := by ol_hostA callcodeI
set_option maxHeartbeats 400000 in
theorem ol_delegatecallI (s : IState) : OL (delegatecallI s) := by ol_hostA delegatecallI
set_option maxHeartbeats 400000 in
theorem ol_staticcallI (s : IState) : OL (staticcallI s) := by ol_hostA staticcallI
set_option maxHeartbeats 400000 in
theorem ol_eofcreateI (s : IState) : OL (eofcreateI s) := by ol_hostA eofcreateI
set_option maxHeartbeats 400000 in
theorem ol_extcallI (s : IState) : OL (extcallI s) := by ol_hostO extcallI
set_option maxHeartbeats 400000 in
theorem ol_extdelegatecallI (s : IState) : OL (extdelegatecallI s) := by ol_hostO extdelegatecallI
set_option maxHeartbeats 400000 in
theorem ol_extstaticcallI (s : IState) : OL (extstaticcallI s) := by ol_hostO extstaticcallI

end Revm.Proofs.EvmLink
