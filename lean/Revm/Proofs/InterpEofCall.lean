import Revm.Proofs.InterpEof
/-! C25, EOF part 4: EXTCALL / EXTDELEGATECALL / EXTSTATICCALL, EOFCREATE and RETURNCONTRACT. -/
set_option linter.unusedSimpArgs false
set_option linter.unusedVariables false
namespace Revm.Proofs.Interp
open Revm Revm.Model Revm.Model.Interp
open Revm.Proofs.Memory (WF)

section ext
variable {s0 : IState} {N : IState → Prop} {A : Action → IState → Prop}

theorem popExtcallTarget_sat {k : Nat} {st ne : Bool} {L : Nat} {s : IState} (h : Rel k st ne L s0 s) :
    Exec.Sat (popExtcallTarget s) (Halt s0) (fun _ s' => Rel k true false L s0 s') := by
  unfold popExtcallTarget
  refine sat_bind (pop1_sat h) ?_
  intro t s1 h1
  split
  · exact haltWith_sat h1 _
  · exact sat_pure h1

theorem extcallInput_sat {k : Nat} {ne : Bool} {L : Nat} {s : IState} (h : Rel k true ne L s0 s) :
    Exec.Sat (extcallInput s) (Halt s0) (fun _ s' => ∃ L', Rel k true false L' s0 s') := by
  unfold extcallInput
  refine sat_bind (pop2_sat h) ?_
  rintro ⟨off, size⟩ s1 h1
  refine sat_bind (resizeMemRange_sat h1 off size) ?_
  rintro ⟨a, b⟩ s2 ⟨L2, _, h2, hr2⟩
  show Exec.Sat ((if a < b then memSliceRange a b else pure []) s2) _ _
  split
  · rename_i hab
    have : a ≤ b ∧ b ≤ L2 := by
      rcases hr2 with h0 | h0
      · simp only [] at h0 hab; omega
      · exact h0
    exact sat_mono (memSliceRange_sat h2 a b this.1 this.2) (fun _ _ hq => by obtain ⟨rfl, _⟩ := hq; exact ⟨L2, h2⟩)
  · exact sat_pure ⟨L2, h2⟩

/-- `extcall_gas_calc` after the account load -/
theorem extcallGasCalc_sat {k : Nat} {st ne : Bool} {L : Nat} {s : IState} (h : Rel k st ne L s0 s)
    (r : HostResp) (tv : Bool) :
    Exec.Sat (extcallGasCalc r tv s) (Halt s0) (fun g s' => ∃ k' st' ne' L', Rel k' st' ne' L' s0 s' ∧
      (match g with
       | none => 1 ≤ k'
       | some gl => gl + 1 ≤ k')) := by
  unfold extcallGasCalc
  refine sat_bind (requireSome_sat h r) ?_
  rintro _ _ ⟨rfl, _⟩
  have hcc := (callCost_ge GasCalc.SpecId.BERLIN tv r.isCold r.delegCold r.isEmpty).1
  generalize GasCalc.callCost GasCalc.SpecId.BERLIN tv r.isCold r.delegCold r.isEmpty = cc at hcc
  refine sat_bind (gasCharge_sat h cc) ?_
  intro _ s1 h1
  have hk1 : 1 ≤ k + cc := by omega
  have h1' := h1.mkStrict hk1
  refine sat_bind (getS_sat h1') ?_
  rintro _ _ ⟨rfl, rfl⟩
  dsimp only []
  split
  · -- the light failure: `push(1)` (errors ignored), return data cleared, the instruction continues
    refine sat_bind (modifyS_sat _ s1) ?_
    rintro _ _ rfl
    refine sat_pure ⟨k + cc, true, false, L, ?_, hk1⟩
    have hstk := h1'.stack
    exact
      { h1' with
        stack := by
          show (Stack.push s1.stack 1).1.length ≤ 1024
          unfold Stack.push Stack.STACK_LIMIT
          split
          · exact hstk
          · simp only [List.length_append, List.length_cons, List.length_nil]; omega
        rdLen := by show ([] : List Nat).length ≤ _; simp
        safe := Or.inl (h1'.strict rfl)
        nonempty := fun e => by cases e }
  · refine sat_bind (gasCharge_sat h1' _) ?_
    intro _ s2 h2
    exact sat_pure ⟨_, _, _, _, h2, (by show _ + 1 ≤ _; omega)⟩

theorem extTail_sat {k : Nat} {st ne : Bool} {L : Nat} {s : IState} (h : Rel k st ne L s0 s)
    (r : HostResp) (tv : Bool) (mk : Nat → IState → CallInputs) (hmk : ∀ g x, (mk g x).gasLimit = g)
    (hret : ∀ g x, (mk g x).retEnd - (mk g x).retStart = 0) :
    Exec.Sat ((do
        let g ← extcallGasCalc r tv
        match g with
        | none => pure none
        | some gasLimit => do
          let s ← getS
          pure (some (Action.call (mk gasLimit s))) : M (Option Action)) s) (Halt s0)
      (fun oa s'' => match oa with
        | some a => ActRel s0 a s''
        | none => Done1 s0 s'') := by
  refine sat_bind (extcallGasCalc_sat h r tv) ?_
  rintro g s1 ⟨k1, st1, ne1, L1, h1, hg⟩
  cases g with
  | none => exact sat_pure (done1_of h1 hg)
  | some gl =>
    refine sat_bind (getS_sat h1) ?_
    rintro _ _ ⟨rfl, rfl⟩
    refine sat_pure ⟨k1, st1, ne1, L1, h1, ?_, ?_⟩
    · show (mk gl s1).gasLimit + 1 ≤ k1
      rw [hmk]; exact hg
    · show RetOk (Action.call (mk gl s1)) L1
      exact Or.inl (hret gl s1)

theorem extcallI_good (hb : Base s0) (hE : s0.isEof = true) (hN : ∀ s', Done1 s0 s' → N s')
    (hA : ∀ a s', ActRel s0 a s' → A a s') : GoodP (Halt s0) N A (extcallI s0) := by
  unfold extcallI
  refine hostCallOptAction_good hN hA _ _ (fun _ s' => ∃ L, Rel 0 true false L s0 s') ?_ ?_
  · refine sat_bind (requireEof_pass hb.rel hE) ?_
    rintro _ _ rfl
    refine sat_bind (popExtcallTarget_sat hb.rel) ?_
    intro target s1 h1
    refine sat_bind (extcallInput_sat h1) ?_
    rintro input s2 ⟨L2, h2⟩
    refine sat_bind (pop1_sat h2) ?_
    intro value s3 h3
    refine sat_bind (getS_sat h3) ?_
    rintro _ _ ⟨rfl, rfl⟩
    split
    · exact haltWith_sat h3 _
    · exact sat_pure ⟨L2, h3⟩
  · rintro ⟨target, input, value⟩ s1 r ⟨L, h1⟩ _
    exact extTail_sat h1 r (decide (value ≠ 0))
      (fun g s => { input := input, retStart := 0, retEnd := 0, gasLimit := g, bytecodeAddress := target,
                    targetAddress := target, caller := s.target, valueTransfer := true, value := value,
                    scheme := .extCall, isStatic := s.isStatic, isEof := true })
      (fun _ _ => rfl) (fun _ _ => rfl)

theorem extdelegatecallI_good (hb : Base s0) (hE : s0.isEof = true) (hN : ∀ s', Done1 s0 s' → N s')
    (hA : ∀ a s', ActRel s0 a s' → A a s') : GoodP (Halt s0) N A (extdelegatecallI s0) := by
  unfold extdelegatecallI
  refine hostCallOptAction_good hN hA _ _ (fun _ s' => ∃ L, Rel 0 true false L s0 s') ?_ ?_
  · refine sat_bind (requireEof_pass hb.rel hE) ?_
    rintro _ _ rfl
    refine sat_bind (popExtcallTarget_sat hb.rel) ?_
    intro target s1 h1
    refine sat_bind (extcallInput_sat h1) ?_
    rintro input s2 ⟨L2, h2⟩
    exact sat_pure ⟨L2, h2⟩
  · rintro ⟨target, input⟩ s1 r ⟨L, h1⟩ _
    exact extTail_sat h1 r false
      (fun g s => { input := input, retStart := 0, retEnd := 0, gasLimit := g, bytecodeAddress := target,
                    targetAddress := s.target, caller := s.caller, valueTransfer := false, value := s.callValue,
                    scheme := .extDelegateCall, isStatic := s.isStatic, isEof := true })
      (fun _ _ => rfl) (fun _ _ => rfl)

theorem extstaticcallI_good (hb : Base s0) (hE : s0.isEof = true) (hN : ∀ s', Done1 s0 s' → N s')
    (hA : ∀ a s', ActRel s0 a s' → A a s') : GoodP (Halt s0) N A (extstaticcallI s0) := by
  unfold extstaticcallI
  refine hostCallOptAction_good hN hA _ _ (fun _ s' => ∃ L, Rel 0 true false L s0 s') ?_ ?_
  · refine sat_bind (requireEof_pass hb.rel hE) ?_
    rintro _ _ rfl
    refine sat_bind (popExtcallTarget_sat hb.rel) ?_
    intro target s1 h1
    refine sat_bind (extcallInput_sat h1) ?_
    rintro input s2 ⟨L2, h2⟩
    exact sat_pure ⟨L2, h2⟩
  · rintro ⟨target, input⟩ s1 r ⟨L, h1⟩ _
    exact extTail_sat h1 r false
      (fun g s => { input := input, retStart := 0, retEnd := 0, gasLimit := g, bytecodeAddress := target,
                    targetAddress := target, caller := s.target, valueTransfer := true, value := 0,
                    scheme := .extStaticCall, isStatic := true, isEof := true })
      (fun _ _ => rfl) (fun _ _ => rfl)

end ext

section create
variable {K : EofCtx} {s0 : IState} {c : EofCtx} {sec : List Nat} {i : Nat}

/-- an EOFCREATE action whose gas limit was charged satisfies `ActE` -/
theorem actE_eofCreate (hs : StartE K s0 c sec i) {k : Nat} {st ne : Bool} {L : Nat} {s' : IState}
    (hc : Core k st ne L s0 s') (hpc : s'.pc ∈ boundaries sec) (ci : EofCreateInputs)
    (hg : ci.gasLimit + 1 ≤ k) : ActE K s0 (.eofCreate ci) s' := by
  refine ⟨hs.invE hc hpc, ?_, trivial⟩
  have hm := hc.meas
  show measure s' + ci.gasLimit + 1 ≤ measure s0
  omega

/-- EOFCREATE of a well-formed container: the sub-container exists and decodes with its data filled -/
theorem eofcreateI_good (hs : StartE K s0 c sec i) (himm : i + 2 ≤ sec.length) (hnext : i + 2 ∈ boundaries sec)
    {sub : List Nat} (hsub : c.containers[sec.getD (i + 1) 0]? = some sub) (hok : subcontainerOk sub = true) :
    GoodP (Halt s0) (NextE K s0) (ActE K s0) (eofcreateI s0) := by
  have h := hs.rel
  unfold eofcreateI
  refine hostCallAction_good (QA := ActE K s0) (fun _ _ hq => hq) _ _
    (fun _ s' => ∃ k L, 1 ≤ k ∧ Rel k true false L s0 s') ?_ ?_
  · unfold eofcreatePre
    refine sat_bind (requireEof_pass h hs.isEof) ?_
    rintro _ _ rfl
    refine sat_bind (requireNonStatic_sat h) ?_
    rintro _ _ rfl
    refine sat_bind (gasCharge_sat h _) ?_
    intro _ s1 h1
    refine sat_bind (codeByte_sat h1 0 (by rw [h1.pc, h1.code, hs.code, hs.pc]; omega)) ?_
    rintro idx _ ⟨rfl, hidx⟩
    rw [h1.pc, h1.code, hs.code, hs.pc, Nat.add_zero] at hidx
    subst hidx
    refine sat_bind (pop4_sat h1) ?_
    rintro ⟨value, salt, dataOff, dataSize⟩ s2 h2
    refine sat_bind (getEof_sat h2 (by rw [h2.eofc]; exact hs.eof)) ?_
    rintro c' _ ⟨rfl, hc'⟩
    rw [hc', hsub]
    simp only []
    refine sat_bind (resizeMemRange_sat h2 dataOff dataSize) ?_
    rintro ⟨a, b⟩ s3 ⟨L3, _, h3, hr3⟩
    refine sat_bind (Q := fun _ s' => s3 = s') ?_ ?_
    · split
      · rename_i hab
        have : a ≤ b ∧ b ≤ L3 := by
          rcases hr3 with h0 | h0
          · simp only [] at h0 hab; omega
          · exact h0
        exact sat_mono (memSliceRange_sat h3 a b this.1 this.2) (fun _ _ hq => hq.1)
      · exact sat_pure rfl
    · rintro input _ rfl
      rw [hok]
      simp only [Bool.not_true, Bool.false_eq_true, if_false]
      refine sat_bind (gasOrFail_sat h3 _) ?_
      rintro _ s4 ⟨g, _, h4⟩
      refine sat_bind (getS_sat h4) ?_
      rintro _ _ ⟨rfl, rfl⟩
      exact sat_pure ⟨0 + GasCalc.EOF_CREATE_GAS + g, L3,
        Nat.le_trans (by decide : 1 ≤ 0 + GasCalc.EOF_CREATE_GAS) (Nat.le_add_right _ _),
        h4.weaken (Nat.le_refl _) (fun _ => by simp) (fun e => e) (Nat.le_refl _)⟩
  · rintro ⟨value, sub', input⟩ s1 r ⟨k, L, hk, h1⟩ _
    refine sat_bind (getS_sat h1) ?_
    rintro _ _ ⟨rfl, rfl⟩
    refine sat_bind (gasCharge_sat h1 _) ?_
    intro _ s2 h2
    refine sat_bind (m := advancePc 1)
      (Q := fun _ x => ∃ k', Gas.remaining63of64 s1.gas + 1 ≤ k' ∧ Core k' true false L s0 x ∧ x.pc ∈ boundaries sec)
      (sat_ok ⟨k + Gas.remaining63of64 s1.gas, by omega, h2.toCore.setPc _, ?_⟩) ?_
    · show s2.pc + 1 ∈ boundaries sec
      rw [h2.pc, hs.pc]
      exact hnext
    · rintro _ s3 ⟨k', hk', h3, hpc3⟩
      exact sat_pure (actE_eofCreate hs h3 hpc3 _ hk')

/-- RETURNCONTRACT of a well-formed container never continues and never faults -/
theorem returnContractI_sat {Q : Unit → IState → Prop} (hs : StartE K s0 c sec i) (himm : i + 2 ≤ sec.length)
    {sub : List Nat} (hsub : c.containers[sec.getD (i + 1) 0]? = some sub)
    {hd : Eof.Header} (hh : headerOf sub = some hd) (hp : hd.dataSizeRawI + 2 ≤ sub.length) :
    Exec.Sat (returnContractI s0) (Halt s0) Q := by
  have h := hs.rel
  unfold returnContractI
  refine sat_bind (requireInitEof_sat h) ?_
  rintro _ _ rfl
  refine sat_bind (codeByte_sat h 0 (by rw [hs.code, hs.pc]; omega)) ?_
  rintro idx _ ⟨rfl, hidx⟩
  rw [hs.code, hs.pc, Nat.add_zero] at hidx
  subst hidx
  refine sat_bind (pop2_sat h) ?_
  rintro ⟨auxOff, auxSize⟩ s1 h1
  refine sat_bind (asUsizeOrFail_sat h1 auxSize _) ?_
  rintro auxSize' _ ⟨rfl, hsz⟩
  refine sat_bind (getEof_sat h1 (by rw [h1.eofc]; exact hs.eof)) ?_
  rintro c' _ ⟨rfl, hc'⟩
  rw [hc', hsub]
  simp only []
  rw [hh]
  simp only []
  refine sat_bind (Q := fun _ s' => ∃ L, Rel 0 true false L s0 s') ?_ ?_
  · split
    · refine sat_bind (asUsizeOrFail_sat h1 auxOff _) ?_
      rintro off _ ⟨rfl, hoff⟩
      refine sat_bind (resizeMem_sat h1 off auxSize' hoff hsz) ?_
      intro _ s2 h2
      exact sat_mono (memSlice_sat h2 off auxSize' (by omega))
        (fun _ _ hq => by obtain ⟨rfl, _⟩ := hq; exact ⟨_, h2⟩)
    · exact sat_pure ⟨_, h1⟩
  · rintro aux s2 ⟨L2, h2⟩
    split
    · exact haltWith_sat h2 _
    · split
      · exact haltWith_sat h2 _
      · have hlen : hd.dataSizeRawI + 2 ≤ (sub ++ aux).length := by
          simp only [List.length_append]; omega
        unfold patchU16
        rw [if_pos hlen]
        simp only []
        exact haltOut_sat h2 _ _

end create

end Revm.Proofs.Interp
