import Revm.Proofs.EvmInstTgt2
/-! Frame condition, part 3: every pure handler of `Model.Interp` keeps `target`, `caller` and `spec`.
A small tactic walks through the do-blocks. -/
set_option linter.unusedSimpArgs false
set_option linter.unusedVariables false
namespace Revm.Proofs.EvmInstTgt
open Revm Revm.Model Revm.Model.Interp

-- failing alternatives of the dispatcher must fail syntactically, not by unfolding two primitives against each other
attribute [local irreducible] gasCharge getS check requireNonStatic requireEof requireInitEof requireSome assumeNotEof
  gasOrFail refund advancePc setEof popN popTop setTop push stackCall stackCallAdv asUsizeOrFail resizeMem memSlice
  memSliceRange memGetU256 memSetU256 memSetByte memSetData memCopy codeSlice codeByte jumpRel getEof loadEofCode
  haltWith haltOut faultWith modifyS liftMemWrite

/-- a primitive (or an already proved helper) at the head of a bind -/
syntax "tgt_prim" : tactic
macro_rules | `(tactic| tgt_prim) => `(tactic| first
  | exact keepT_gasCharge ‹_› _
  | exact keepT_mono (keepT_getS ‹_›) (fun _ _ _ _ => trivial)
  | exact keepT_check ‹_› _
  | exact keepT_requireNonStatic ‹_›
  | exact keepT_requireEof ‹_›
  | exact keepT_requireInitEof ‹_›
  | exact keepT_requireSome ‹_› _
  | exact keepT_assumeNotEof ‹_›
  | exact keepT_gasOrFail ‹_› _
  | exact keepT_refund ‹_› _
  | exact keepT_advancePc ‹_› _
  | exact keepT_setEof ‹_› _
  | exact keepT_popN ‹_› _
  | exact keepT_popTop ‹_› _
  | exact keepT_setTop ‹_› _
  | exact keepT_push ‹_› _
  | exact keepT_stackCall ‹_› _
  | exact keepT_stackCallAdv ‹_› _ _
  | exact keepT_asUsizeOrFail ‹_› _ _
  | exact keepT_resizeMem ‹_› _ _
  | exact keepT_memSlice ‹_› _ _
  | exact keepT_memSliceRange ‹_› _ _
  | exact keepT_memGetU256 ‹_› _
  | exact keepT_memSetU256 ‹_› _ _
  | exact keepT_memSetByte ‹_› _ _
  | exact keepT_memSetData ‹_› _ _ _ _
  | exact keepT_memCopy ‹_› _ _ _
  | exact keepT_codeSlice ‹_› _
  | exact keepT_codeByte ‹_› _
  | exact keepT_jumpRel ‹_› _
  | exact keepT_getEof ‹_›
  | exact keepT_loadEofCode ‹_› _ _
  | exact keepT_haltWith ‹_› _
  | exact keepT_haltOut ‹_› _ _
  | exact keepT_faultWith _
  | exact keepT_pure ‹_› trivial
  | exact keepT_modifyS ‹_› _ ⟨rfl, rfl, rfl⟩)

/-- walk through a do-block -/
syntax "tgt_auto" : tactic
macro_rules | `(tactic| tgt_auto) => `(tactic| repeat (first
  | tgt_prim
  | refine keepT_bind (by tgt_prim) (fun _ _ _ _ => ?_)
  | refine keepT_bind (Q := T) (by split <;> tgt_auto) (fun _ _ _ _ => ?_)
  | split
  | dsimp only))

section helpers
variable {s0 s : IState}

theorem keepT_pop1 (h : KeptT s0 s) : KeepT s0 T (pop1 s) := by unfold pop1; tgt_auto
theorem keepT_pop2 (h : KeptT s0 s) : KeepT s0 T (pop2 s) := by unfold pop2; tgt_auto
theorem keepT_pop3 (h : KeptT s0 s) : KeepT s0 T (pop3 s) := by unfold pop3; tgt_auto
theorem keepT_pop4 (h : KeptT s0 s) : KeepT s0 T (pop4 s) := by unfold pop4; tgt_auto
macro_rules | `(tactic| tgt_prim) => `(tactic| first
  | exact keepT_pop1 ‹_› | exact keepT_pop2 ‹_› | exact keepT_pop3 ‹_› | exact keepT_pop4 ‹_›)
attribute [local irreducible] pop1 pop2 pop3 pop4

theorem keepT_popAddress (h : KeptT s0 s) : KeepT s0 T (popAddress s) := by unfold popAddress; tgt_auto
theorem keepT_popTop1 (h : KeptT s0 s) : KeepT s0 T (popTop1 s) := by unfold popTop1; tgt_auto
theorem keepT_popTop2 (h : KeptT s0 s) : KeepT s0 T (popTop2 s) := by unfold popTop2; tgt_auto
theorem keepT_popTop3 (h : KeptT s0 s) : KeepT s0 T (popTop3 s) := by unfold popTop3; tgt_auto
theorem keepT_readU16 (h : KeptT s0 s) (o : Nat) : KeepT s0 T (readU16 o s) := by unfold readU16; tgt_auto
macro_rules | `(tactic| tgt_prim) => `(tactic| first
  | exact keepT_popAddress ‹_› | exact keepT_popTop1 ‹_› | exact keepT_popTop2 ‹_› | exact keepT_popTop3 ‹_›
  | exact keepT_readU16 ‹_› _)
theorem keepT_readI16 (h : KeptT s0 s) (o : Nat) : KeepT s0 T (readI16 o s) := by unfold readI16; tgt_auto
macro_rules | `(tactic| tgt_prim) => `(tactic| exact keepT_readI16 ‹_› _)
attribute [local irreducible] popAddress popTop1 popTop2 popTop3 readU16 readI16

theorem keepT_unopI (h : KeptT s0 s) (g : Nat) (f) : KeepT s0 T (unopI g f s) := by unfold unopI; tgt_auto
theorem keepT_binopI (h : KeptT s0 s) (g k : Nat) (f) : KeepT s0 T (binopI g k f s) := by unfold binopI; tgt_auto
theorem keepT_teropI (h : KeptT s0 s) (g : Nat) (f) : KeepT s0 T (teropI g f s) := by unfold teropI; tgt_auto
theorem keepT_expI (h : KeptT s0 s) : KeepT s0 T (expI s) := by unfold expI; tgt_auto

theorem keepT_jumpInner (h : KeptT s0 s) (t : Nat) : KeepT s0 T (jumpInner t s) := by unfold jumpInner; tgt_auto
theorem keepT_returnInner (h : KeptT s0 s) (r : IResult) : KeepT s0 T (returnInner r s) := by unfold returnInner; tgt_auto
macro_rules | `(tactic| tgt_prim) => `(tactic| first | exact keepT_jumpInner ‹_› _ | exact keepT_returnInner ‹_› _)
attribute [local irreducible] jumpInner returnInner

theorem keepT_copyToMem (h : KeptT s0 s) (data : IState → List Nat) (guard : M Unit)
    (hg : ∀ s', KeptT s0 s' → KeepT s0 T (guard s')) : KeepT s0 T (copyToMem data guard s) := by
  unfold copyToMem
  repeat (first
    | exact hg _ ‹_›
    | refine keepT_bind (hg _ ‹_›) (fun _ _ _ _ => ?_)
    | tgt_prim
    | refine keepT_bind (by tgt_prim) (fun _ _ _ _ => ?_)
    | split
    | dsimp only)

theorem keepT_pushValI (h : KeptT s0 s) (g) (k) (v) : KeepT s0 T (pushValI g k v s) := by unfold pushValI; tgt_auto
theorem keepT_difficultyI (h : KeptT s0 s) : KeepT s0 T (difficultyI s) := by
  unfold difficultyI
  refine keepT_bind (by tgt_prim) (fun _ _ _ _ => ?_)
  refine keepT_bind (keepT_getS ‹_›) (fun x s' hk hq => ?_)
  split
  · cases x.env.prevrandao with
    | some w => (try dsimp only); tgt_auto
    | none => (try dsimp only); tgt_auto
  · (try dsimp only); tgt_auto
theorem keepT_calldataloadI (h : KeptT s0 s) : KeepT s0 T (calldataloadI s) := by unfold calldataloadI; tgt_auto
theorem keepT_codesizeI (h : KeptT s0 s) : KeepT s0 T (codesizeI s) := by unfold codesizeI; tgt_auto
theorem keepT_returndatacopyI (h : KeptT s0 s) : KeepT s0 T (returndatacopyI s) := by unfold returndatacopyI; tgt_auto
theorem keepT_blobhashI (h : KeptT s0 s) : KeepT s0 T (blobhashI s) := by unfold blobhashI; tgt_auto
theorem keepT_popI (h : KeptT s0 s) : KeepT s0 T (popI s) := by unfold popI; tgt_auto
theorem keepT_push0I (h : KeptT s0 s) : KeepT s0 T (push0I s) := by unfold push0I; tgt_auto
theorem keepT_pushI (h : KeptT s0 s) (n) : KeepT s0 T (pushI n s) := by unfold pushI; tgt_auto
theorem keepT_dupI (h : KeptT s0 s) (n) : KeepT s0 T (dupI n s) := by unfold dupI; tgt_auto
theorem keepT_swapI (h : KeptT s0 s) (n) : KeepT s0 T (swapI n s) := by unfold swapI; tgt_auto
theorem keepT_mloadI (h : KeptT s0 s) : KeepT s0 T (mloadI s) := by unfold mloadI; tgt_auto
theorem keepT_mstoreI (h : KeptT s0 s) : KeepT s0 T (mstoreI s) := by unfold mstoreI; tgt_auto
theorem keepT_mstore8I (h : KeptT s0 s) : KeepT s0 T (mstore8I s) := by unfold mstore8I; tgt_auto
theorem keepT_mcopyI (h : KeptT s0 s) : KeepT s0 T (mcopyI s) := by unfold mcopyI; tgt_auto
theorem keepT_jumpI (h : KeptT s0 s) : KeepT s0 T (jumpI s) := by unfold jumpI; tgt_auto
theorem keepT_jumpiI (h : KeptT s0 s) : KeepT s0 T (jumpiI s) := by unfold jumpiI; tgt_auto
theorem keepT_revertI (h : KeptT s0 s) : KeepT s0 T (revertI s) := by unfold revertI; tgt_auto
theorem keepT_rjumpI (h : KeptT s0 s) : KeepT s0 T (rjumpI s) := by unfold rjumpI; tgt_auto
theorem keepT_rjumpiI (h : KeptT s0 s) : KeepT s0 T (rjumpiI s) := by unfold rjumpiI; tgt_auto
theorem keepT_rjumpvI (h : KeptT s0 s) : KeepT s0 T (rjumpvI s) := by unfold rjumpvI; tgt_auto
theorem keepT_callfI (h : KeptT s0 s) : KeepT s0 T (callfI s) := by
  unfold callfI
  refine keepT_bind (by tgt_prim) (fun _ _ _ _ => ?_)
  refine keepT_bind (by tgt_prim) (fun _ _ _ _ => ?_)
  refine keepT_bind (by tgt_prim) (fun idx _ _ _ => ?_)
  refine keepT_bind (by tgt_prim) (fun c s' hk _ => ?_)
  split
  · (try dsimp only); tgt_auto
  · cases c.types[idx]? with
    | none => (try dsimp only); tgt_auto
    | some t => (try dsimp only); tgt_auto
theorem keepT_retfI (h : KeptT s0 s) : KeepT s0 T (retfI s) := by
  unfold retfI
  refine keepT_bind (by tgt_prim) (fun _ _ _ _ => ?_)
  refine keepT_bind (by tgt_prim) (fun _ _ _ _ => ?_)
  refine keepT_bind (by tgt_prim) (fun c s' hk _ => ?_)
  cases c.retStack with
  | nil => (try dsimp only); tgt_auto
  | cons p rest => obtain ⟨idx, pc⟩ := p; (try dsimp only); tgt_auto
theorem keepT_jumpfI (h : KeptT s0 s) : KeepT s0 T (jumpfI s) := by
  unfold jumpfI
  refine keepT_bind (by tgt_prim) (fun _ _ _ _ => ?_)
  refine keepT_bind (by tgt_prim) (fun _ _ _ _ => ?_)
  refine keepT_bind (by tgt_prim) (fun idx _ _ _ => ?_)
  refine keepT_bind (by tgt_prim) (fun c s' hk _ => ?_)
  cases c.types[idx]? with
  | none => (try dsimp only); tgt_auto
  | some t => (try dsimp only); tgt_auto
theorem keepT_dupnI (h : KeptT s0 s) : KeepT s0 T (dupnI s) := by unfold dupnI; tgt_auto
theorem keepT_swapnI (h : KeptT s0 s) : KeepT s0 T (swapnI s) := by unfold swapnI; tgt_auto
theorem keepT_exchangeI (h : KeptT s0 s) : KeepT s0 T (exchangeI s) := by unfold exchangeI; tgt_auto
theorem keepT_dataloadI (h : KeptT s0 s) : KeepT s0 T (dataloadI s) := by unfold dataloadI; tgt_auto
theorem keepT_dataloadnI (h : KeptT s0 s) : KeepT s0 T (dataloadnI s) := by unfold dataloadnI; tgt_auto
theorem keepT_datasizeI (h : KeptT s0 s) : KeepT s0 T (datasizeI s) := by unfold datasizeI; tgt_auto
theorem keepT_datacopyI (h : KeptT s0 s) : KeepT s0 T (datacopyI s) := by unfold datacopyI; tgt_auto
theorem keepT_returndataloadI (h : KeptT s0 s) : KeepT s0 T (returndataloadI s) := by unfold returndataloadI; tgt_auto
theorem keepT_returnContractI (h : KeptT s0 s) : KeepT s0 T (returnContractI s) := by
  unfold returnContractI
  refine keepT_bind (by tgt_prim) (fun _ _ _ _ => ?_)
  refine keepT_bind (by tgt_prim) (fun idx _ _ _ => ?_)
  refine keepT_bind (by tgt_prim) (fun p _ _ _ => ?_)
  obtain ⟨auxOff, auxSize⟩ := p
  dsimp only
  refine keepT_bind (by tgt_prim) (fun auxSize' _ _ _ => ?_)
  refine keepT_bind (by tgt_prim) (fun c s' hk _ => ?_)
  cases c.containers[idx]? with
  | none => (try dsimp only); tgt_auto
  | some container =>
    (try dsimp only)
    cases headerOf container with
    | none => (try dsimp only); tgt_auto
    | some hd =>
      (try dsimp only)
      have haux : KeepT s0 T ((if auxSize' ≠ 0 then do
          let auxOff ← asUsizeOrFail auxOff
          resizeMem auxOff auxSize'
          memSlice auxOff auxSize'
        else pure []) s') := by
        split
        · tgt_auto
        · tgt_auto
      refine keepT_bind haux (fun aux s2 hk2 _ => ?_)
      (try dsimp only)
      split
      · (try dsimp only); tgt_auto
      · split
        · (try dsimp only); tgt_auto
        · cases patchU16 (container ++ aux) hd.dataSizeRawI _ with
          | none => (try dsimp only); tgt_auto
          | some out => (try dsimp only); tgt_auto

/-- **every pure handler** keeps `target`, `caller` and `spec` -/
theorem keepT_execPure (i : Instr) (m : M Unit) (hm : execPure i = some m) (h : KeptT s0 s) : KeepT s0 T (m s) := by
  cases i <;> simp only [execPure, Option.some.injEq, reduceCtorEq] at hm <;> subst hm
  all_goals first
    | exact keepT_haltWith h _
    | exact keepT_returnContractI h
    | exact keepT_rjumpI h | exact keepT_rjumpiI h | exact keepT_rjumpvI h | exact keepT_callfI h | exact keepT_retfI h
    | exact keepT_jumpfI h | exact keepT_dupnI h | exact keepT_swapnI h | exact keepT_exchangeI h
    | exact keepT_dataloadI h | exact keepT_dataloadnI h | exact keepT_datasizeI h | exact keepT_datacopyI h
    | exact keepT_returndataloadI h
    | exact keepT_unopI h _ _ | exact keepT_binopI h _ _ _ | exact keepT_teropI h _ _ | exact keepT_expI h
    | exact keepT_pushValI h _ _ _ | exact keepT_difficultyI h | exact keepT_calldataloadI h
    | exact keepT_copyToMem h _ _ (fun s' h' => keepT_pure h' trivial)
    | exact keepT_copyToMem h _ _ (fun s' h' => keepT_assumeNotEof h')
    | exact keepT_codesizeI h | exact keepT_returndatacopyI h | exact keepT_blobhashI h
    | exact keepT_popI h | exact keepT_push0I h | exact keepT_pushI h _ | exact keepT_dupI h _ | exact keepT_swapI h _
    | exact keepT_mloadI h | exact keepT_mstoreI h | exact keepT_mstore8I h | exact keepT_mcopyI h
    | exact keepT_jumpI h | exact keepT_jumpiI h
    | exact keepT_gasCharge h _
    | exact keepT_returnInner h _ | exact keepT_revertI h

end helpers
end Revm.Proofs.EvmInstTgt
