import Revm.Proofs.EvmLinkValidate
/-! LINK validation, part 2: the remaining stages of `Evm.validateEnv`, `Evm.validateAgainstState`, the initial-gas
check and `Evm.preverify` against `TxValidate.validateCanon` (C02). -/
set_option linter.unusedSimpArgs false
namespace Revm.Proofs.EvmLink
open Revm Revm.Model Revm.Model.Evm
open Revm.Model.GasCalc (enabled)

theorem vInit_link (e : Evm.Env) (spec : Nat) :
    vInit e spec = thenR (TxValidate.initcodeCheck spec (tvCfg e) (tvTx e)) (vBlob e spec) := by
  unfold vInit TxValidate.initcodeCheck TxValidate.maxInitcodeSize
  by_cases h1 : enabled spec GasCalc.SpecId.SHANGHAI = true ∧ e.tx.to.isNone = true
  · cases hl : e.cfg.limitContractCodeSize with
    | none =>
      simp only [bind, Except.bind, pure, Except.pure, tvTx, tvCfg, hl]
      by_cases h2 : e.tx.data.length > MAX_INITCODE_SIZE
      · have h2' : e.tx.data.length > TxValidate.MAX_INITCODE_SIZE := h2
        simp [h1.1, h1.2, h2, h2', thenR]
      · have h2' : ¬ e.tx.data.length > TxValidate.MAX_INITCODE_SIZE := h2
        simp [h1.1, h1.2, h2, h2', thenR]
    | some l =>
      simp only [bind, Except.bind, pure, Except.pure, tvTx, tvCfg, hl]
      by_cases h2 : e.tx.data.length > U64ops.saturatingMul l 2
      · simp [h1.1, h1.2, h2, thenR]
      · simp [h1.1, h1.2, h2, thenR]
  · have h1' : (enabled spec GasCalc.SpecId.SHANGHAI && e.tx.to.isNone) = false := by
      cases hs : enabled spec GasCalc.SpecId.SHANGHAI <;> cases ht : e.tx.to.isNone <;> simp_all
    simp only [bind, Except.bind, pure, Except.pure, tvTx, tvCfg]
    rw [if_neg h1]
    simp only [h1', Bool.false_eq_true, if_false, thenR]

theorem vFee_link (e : Evm.Env) (spec : Nat) :
    vFee e spec = thenR (TxValidate.feeChecks spec (tvBlock e) (tvTx e)) (vInit e spec) := by
  unfold vFee TxValidate.feeChecks
  have heff : TxValidate.effectiveGasPrice (tvBlock e) (tvTx e) = e.effectiveGasPrice := rfl
  rw [heff]
  by_cases hL : enabled spec GasCalc.SpecId.LONDON = true
  · cases hp : e.tx.priorityFee with
    | none =>
      simp only [bind, Except.bind, pure, Except.pure, tvTx, tvBlock, hp]
      by_cases h2 : e.effectiveGasPrice < e.block.basefee <;> simp [hL, h2, thenR]
    | some p =>
      simp only [bind, Except.bind, pure, Except.pure, tvTx, tvBlock, hp]
      by_cases h1 : p > e.tx.gasPrice
      · simp [hL, h1, thenR]
      · by_cases h2 : e.effectiveGasPrice < e.block.basefee <;> simp [hL, h1, h2, thenR]
  · simp [hL, thenR, bind, Except.bind, pure, Except.pure]

theorem ite_and_bool {α} (a b : Bool) (x y : α) :
    (if a = true ∧ b = true then x else y) = (if (a && b) = true then x else y) := by
  cases a <;> cases b <;> rfl

/-- the head of `validate_tx` after the block checks -/
theorem vHead_link (e : Evm.Env) (spec : Nat) :
    vHead e spec = resToR (TxValidate.validateEnv spec (tvCfg e) (tvBlock e) (tvTx e)) := by
  have htail : vFee e spec = resToR ((TxValidate.feeChecks spec (tvBlock e) (tvTx e)).andThen <|
      (TxValidate.initcodeCheck spec (tvCfg e) (tvTx e)).andThen <|
      (TxValidate.blobChecks spec (tvCfg e) (tvBlock e) (tvTx e)).andThen <|
      TxValidate.authChecks spec (tvTx e)) := by
    rw [vFee_link, vInit_link, vBlob_link, vAuth_link, thenR_resToR, thenR_resToR, thenR_resToR]
  unfold vHead TxValidate.validateEnv TxValidate.validateBlockEnv TxValidate.validateTx TxValidate.chainIdMismatch
  rw [htail]
  generalize TxValidate.Res.andThen (TxValidate.feeChecks spec (tvBlock e) (tvTx e)) _ = tail
  simp only [bind, Except.bind, pure, Except.pure, ite_and_bool, tvBlock, tvTx, tvCfg, Option.not_isSome,
    List.isEmpty_map]
  by_cases h1 : (enabled spec GasCalc.SpecId.MERGE && e.block.prevrandao.isNone) = true
  · simp only [h1, if_true, TxValidate.Res.andThen, resToR]
  · by_cases h2 : (enabled spec GasCalc.SpecId.CANCUN && e.block.blobGasPrice.isNone) = true
    · simp only [h1, h2, if_false, if_true, TxValidate.Res.andThen, resToR, Bool.false_eq_true]
    · simp only [h1, h2, if_false, TxValidate.Res.andThen, Bool.false_eq_true]
      have key : (if e.tx.gasLimit > e.block.gasLimit then (Except.ok false : R Bool)
           else if (!enabled spec GasCalc.SpecId.BERLIN && !e.tx.accessList.isEmpty) = true then Except.ok false
           else resToR tail) =
          resToR (if e.tx.gasLimit > e.block.gasLimit then .err .CallerGasLimitMoreThanBlock
            else if (!enabled spec GasCalc.SpecId.BERLIN && !e.tx.accessList.isEmpty) = true then
              .err .AccessListNotSupported
            else tail) := by
        by_cases h3 : e.tx.gasLimit > e.block.gasLimit
        · simp only [h3, if_true, resToR]
        · by_cases h4 : (!enabled spec GasCalc.SpecId.BERLIN && !e.tx.accessList.isEmpty) = true
          · simp only [h3, h4, if_false, if_true, resToR]
          · simp only [h3, h4, if_false, Bool.false_eq_true]
      cases hc : e.tx.chainId with
      | none => simp only [Bool.false_eq_true, if_false]; exact key
      | some c =>
        by_cases h5 : c = e.cfg.chainId
        · simp only [h5, ne_eq, not_true_eq_false, if_false, bne_self_eq_false, Bool.false_eq_true]
          exact key
        · have : (c != e.cfg.chainId) = true := by simpa using h5
          simp only [ne_eq, h5, not_false_eq_true, if_true, this, resToR]

/-- **`Evm.validateEnv` = `TxValidate.validateEnv`** (C02), as functions: accepted / rejected / the
`expect("already checked")` panic on the same inputs -/
theorem validateEnv_link (e : Evm.Env) (spec : Nat) :
    Evm.validateEnv e spec = resToR (TxValidate.validateEnv spec (tvCfg e) (tvBlock e) (tvTx e)) := by
  rw [validateEnv_staged, vHead_link]

end Revm.Proofs.EvmLink
