import Revm.Proofs.EvmRefineE6
/-! The refinement with errors: the strict journal machine against the snapshot machine, and against the plain journal
machine (the model). -/
set_option linter.unusedSimpArgs false
set_option linter.unusedVariables false
namespace Revm.Proofs.EvmRefine
open Revm Revm.Model Revm.Model.Journal Revm.Spec.JournalAbs Revm.Proofs.Journal Revm.Proofs.Frame
open Revm.Model.Evm
open Revm.Spec.Evm (Snap snapshotOps journalOpsStrict ObsEq)
open Revm.Proofs.EvmRR Revm.Proofs.EvmSim

/-- the strict journal machine and the snapshot machine, errors included -/
def refineSimE (e : Evm.Env) (spec : Nat) : TxSimE journalOpsStrict snapshotOps e spec where
  R := CfgRel
  host := fun ks1 w1 ks2 w2 op hR => host_rr _ hR op
  callFrame := fun ks1 w1 ks2 w2 i mem hR => makeCallFrame_rr _ i mem hR
  createFrame := fun ks1 w1 ks2 w2 i mem hR => makeCreateFrame_rr _ i mem hR
  callRet := fun k1 ks1 w1 k2 ks2 w2 r hR => callRet_rr k1 k2 r hR
  createRet := fun k1 ks1 w1 k2 ks2 w2 a r hR => createRet_rr _ k1 k2 a r hR
  R0 := R0
  pre := fun w1 w2 hR => (pre_rr e spec hR).mono (fun o1 o2 h => by
    cases o1 <;> cases o2 <;> first | exact h | exact h.elim)
  load := fun w1 w2 hR => load_rel e spec hR
  deduct := fun w1 w2 hR => deduct_rr e spec hR
  auth := fun w1 w2 hR => auth_rr e spec hR
  fin := fun w1 w2 fg rf ic res hR => fin_rr e spec fg rf ic res hR

/-! ## the strict machine against the model -/

/-- the same computation on both sides, seen through a reflexive relation -/
theorem RR.refl' {α : Type} {P : α → α → Prop} (hP : ∀ a, P a a) (x : R α) : RR P x x :=
  (RR.same x).mono (fun a b h => by subst h; exact hP a)

/-- a strict operation is the plain one, or stops at its admissibility check -/
theorem strict_or {α : Type} {xs xp : R α} (h : xs = xp ∨ ∃ e, xs = .error e ∧ Esc e) : RR (fun a b => a = b) xs xp := by
  rcases h with h | ⟨e, he, hesc⟩
  · rw [h]; exact RR.same xp
  · rw [he]; exact .inl hesc

theorem strict_createCheckpoint_or (w : World) (caller a : Nat) (hs : Bool) (v spec : Nat) :
    journalOpsStrict.createCheckpoint w caller a hs v spec = journalOps.createCheckpoint w caller a hs v spec ∨
    ∃ e, journalOpsStrict.createCheckpoint w caller a hs v spec = .error e ∧ Esc e := by
  show (match w.js.state a with
    | some acc =>
      if acc.created ∧ ¬ (acc.info.codeHash ≠ Journal.KECCAK_EMPTY ∨ acc.info.nonce ≠ 0 ∨ hs = true) then
        Except.error (Err.panic "inadmissible: create_account_checkpoint without collision on an account created in this transaction")
      else journalOps.createCheckpoint w caller a hs v spec
    | none => journalOps.createCheckpoint w caller a hs v spec) = _ ∨ ∃ e, (match w.js.state a with
    | some acc =>
      if acc.created ∧ ¬ (acc.info.codeHash ≠ Journal.KECCAK_EMPTY ∨ acc.info.nonce ≠ 0 ∨ hs = true) then
        Except.error (Err.panic "inadmissible: create_account_checkpoint without collision on an account created in this transaction")
      else journalOps.createCheckpoint w caller a hs v spec
    | none => journalOps.createCheckpoint w caller a hs v spec) = .error e ∧ Esc e
  cases w.js.state a with
  | none => exact .inl rfl
  | some acc =>
    simp only
    split
    · exact .inr ⟨_, rfl, .inl rfl⟩
    · exact .inl rfl

theorem strict_setCode_or (w : World) (a hash : Nat) :
    journalOpsStrict.setCode w a hash = journalOps.setCode w a hash ∨
    ∃ e, journalOpsStrict.setCode w a hash = .error e ∧ Esc e := by
  show (match w.js.state a with
    | some acc => if acc.info.codeHash = Journal.KECCAK_EMPTY then journalOps.setCode w a hash
        else Except.error (Err.panic "inadmissible: set_code on an account with code")
    | none => journalOps.setCode w a hash) = _ ∨ ∃ e, (match w.js.state a with
    | some acc => if acc.info.codeHash = Journal.KECCAK_EMPTY then journalOps.setCode w a hash
        else Except.error (Err.panic "inadmissible: set_code on an account with code")
    | none => journalOps.setCode w a hash) = .error e ∧ Esc e
  cases w.js.state a with
  | none => exact .inl rfl
  | some acc =>
    simp only
    split
    · exact .inl rfl
    · exact .inr ⟨_, rfl, .inr rfl⟩

theorem valRel_refl {α : Type} (ks : List Checkpoint) (p : α × World) : ValRel EqR ks ks p p := ⟨rfl, rfl, rfl⟩

theorem createTail_strict_rr (cfg : Cfg) (w : World) (i : Interp.CreateInputs) (mem : Memory.SharedMemory)
    (created : Nat) (ks : List Checkpoint) :
    RR (ForRel EqR ks ks) (createTail journalOpsStrict cfg w i mem created) (createTail journalOps cfg w i mem created) := by
  unfold createTail
  by_cases hp : isPrecompile cfg.spec created = true
  · simp only [hp, if_true]; exact RR.pure (forRel_refl _ _)
  · simp only [hp, Bool.false_eq_true, if_false]
    refine RR.bind (RR.same _) ?_
    rintro ⟨wa, c⟩ ⟨wb, c'⟩ hh
    cases hh
    refine RR.bind (strict_or (strict_createCheckpoint_or _ _ _ _ _ _)) ?_
    rintro ⟨wc, r⟩ ⟨wd, r'⟩ hh
    cases hh
    cases r with
    | error e => cases e <;> exact RR.pure (forRel_refl _ _)
    | ok cp => exact RR.pure (forRel_refl _ _)

theorem makeCreateFrame_strict_rr (cfg : Cfg) (w : World) (i : Interp.CreateInputs) (mem : Memory.SharedMemory)
    (ks : List Checkpoint) :
    RR (ForRel EqR ks ks) (makeCreateFrame journalOpsStrict cfg w i mem) (makeCreateFrame journalOps cfg w i mem) := by
  rw [makeCreateFrame_eq, makeCreateFrame_eq]
  by_cases hd : w.js.depth > CALL_STACK_LIMIT
  · simp only [hd, if_true]; exact RR.pure (forRel_refl _ _)
  · simp only [hd, if_false]
    refine RR.bind (RR.same _) ?_
    rintro ⟨wa, c⟩ ⟨wb, c'⟩ hh
    cases hh
    refine RR.bind (RR.same _) ?_
    intro x y hh
    subst hh
    simp only
    by_cases hf : x.info.balance < i.value
    · simp only [hf, if_true]; exact RR.pure (forRel_refl _ _)
    · simp only [hf, if_false]
      refine RR.bind (RR.same _) ?_
      rintro ⟨j2, nn⟩ ⟨s2, nn'⟩ hh
      cases hh
      cases nn with
      | none => exact RR.pure (forRel_refl _ _)
      | some n => exact createTail_strict_rr cfg _ i mem _ ks

theorem createReturn_strict_rr (cfg : Cfg) (w : World) (k : Checkpoint) (a : Nat) (r : Interp.ChildResult)
    (ks : List Checkpoint) :
    RR (ValRel EqR ks ks) (createReturn journalOpsStrict cfg w k a r) (createReturn journalOps cfg w k a r) := by
  have hrev : journalOpsStrict.revert = journalOps.revert := rfl
  have hcom : journalOpsStrict.commit = journalOps.commit := rfl
  have rev : ∀ (x : Interp.ChildResult), RR (ValRel EqR ks ks)
      (journalOps.revert w k >>= fun w => pure (x, w)) (journalOps.revert w k >>= fun w => pure (x, w)) :=
    fun x => RR.refl' (valRel_refl ks) _
  have fin : ∀ (x : Interp.ChildResult) (hash : Nat) (out : List Nat), RR (ValRel EqR ks ks)
      (journalOpsStrict.setCode (journalOps.commit w) a hash >>= fun w => pure (x, w.addCode hash out))
      (journalOps.setCode (journalOps.commit w) a hash >>= fun w => pure (x, w.addCode hash out)) :=
    fun x hash out => RR.bind (strict_or (strict_setCode_or _ _ _)) (fun wa wb hab => by subst hab; exact RR.pure (valRel_refl ks _))
  unfold createReturn
  simp only [pure_bind, hrev, hcom]
  by_cases c1 : (!r.result.isOk) = true
  · simp only [c1, if_true]; exact rev _
  · simp only [c1, Bool.false_eq_true, if_false]
    by_cases c2 : GasCalc.enabled cfg.spec GasCalc.SpecId.LONDON = true ∧ r.output.head? = some 0xEF
    · rw [if_pos c2, if_pos c2]; exact rev _
    · rw [if_neg c2, if_neg c2]
      by_cases c3 : GasCalc.enabled cfg.spec GasCalc.SpecId.SPURIOUS_DRAGON = true ∧ r.output.length > cfg.maxCodeSize
      · rw [if_pos c3, if_pos c3]; exact rev _
      · rw [if_neg c3, if_neg c3]
        by_cases c4 : U64ops.wmul r.output.length CODEDEPOSIT ≤ r.gasRemaining
        · simp only [c4, if_true, Bool.false_eq_true, false_and, if_false]
          exact fin _ _ _
        · simp only [c4, if_false, true_and]
          by_cases c5 : GasCalc.enabled cfg.spec GasCalc.SpecId.HOMESTEAD = true
          · simp only [c5, if_true]; exact rev _
          · simp only [c5, Bool.false_eq_true, if_false]
            exact fin _ _ _

/-- the strict machine against the model, errors included: the same, unless the strict machine stops at a check -/
def strictSimE (e : Evm.Env) (spec : Nat) : TxSimE journalOpsStrict journalOps e spec where
  R := EqR
  host := by
    intro ks1 w1 ks2 w2 op hR
    obtain ⟨h1, h2⟩ := hR; subst h1; subst h2
    exact RR.refl' (valRel_refl ks1) _
  callFrame := by
    intro ks1 w1 ks2 w2 i mem hR
    obtain ⟨h1, h2⟩ := hR; subst h1; subst h2
    rw [makeCallFrame_strict]
    exact RR.refl' (forRel_refl ks1) _
  createFrame := by
    intro ks1 w1 ks2 w2 i mem hR
    obtain ⟨h1, h2⟩ := hR; subst h1; subst h2
    exact makeCreateFrame_strict_rr _ _ _ _ _
  callRet := by
    intro k1 ks1 w1 k2 ks2 w2 r hR
    obtain ⟨h1, h2⟩ := hR
    simp only [List.cons.injEq] at h1
    obtain ⟨hk, hks⟩ := h1
    subst hk; subst hks; subst h2
    rw [callReturn_strict]
    exact RR.refl' (valRel_refl ks1) _
  createRet := by
    intro k1 ks1 w1 k2 ks2 w2 a r hR
    obtain ⟨h1, h2⟩ := hR
    simp only [List.cons.injEq] at h1
    obtain ⟨hk, hks⟩ := h1
    subst hk; subst hks; subst h2
    exact createReturn_strict_rr _ _ _ _ _ _
  R0 := fun w1 w2 => w1 = w2
  pre := by
    intro w1 w2 hR; subst hR
    refine RR.refl' (fun o => ?_) _
    cases o with
    | none => trivial
    | some p => exact ⟨rfl, rfl, rfl⟩
  load := by intro w1 w2 hR; subst hR; exact ⟨rfl, rfl⟩
  deduct := by
    intro w1 w2 hR; obtain ⟨_, h2⟩ := hR; subst h2
    exact RR.refl' (fun a => ⟨rfl, rfl⟩) _
  auth := by
    intro w1 w2 hR; obtain ⟨_, h2⟩ := hR; subst h2
    exact RR.refl' (fun a => ⟨rfl, rfl, rfl⟩) _
  fin := by
    intro w1 w2 fg rf ic res hR; obtain ⟨_, h2⟩ := hR; subst h2
    exact RR.refl' (valRel_refl []) _

/-- the strict run stops at one of its two admissibility checks -/
def StopsInadmissible (x : R (Outcome × World)) : Prop := ∃ e, x = .error e ∧ Esc e

theorem kind_obsEq {e e1 e2 : Err} (h1 : Kind e e1) (h2 : Kind e e2) :
    ObsEq (.error e1) (.error e2) := by
  cases e <;> cases e1 <;> cases e2 <;> first | trivial | exact h1.elim | exact h2.elim

/-- **the whole-transaction refinement, errors included**: for every fuel, unless the strict run stops at an
admissibility check, the model and the specification agree — same outcome and observable post-state, or a model-level
error of the same kind (panic / fatal / missing oracle answer / out of fuel) -/
theorem transact_refines_spec_total (fuel : Nat) (w : World) (e : Evm.Env) (spec : Nat) (hw : Start w)
    (hadm : ¬ StopsInadmissible (Spec.Evm.transactStrict fuel w e spec)) :
    ObsEq (Evm.transact fuel w e spec) (Spec.Evm.transact fuel w e spec) := by
  have hA := transactWith_rr (refineSimE e (GasCalc.canon spec)) fuel w w (R0_refl hw)
  have hB := transactWith_rr (strictSimE e (GasCalc.canon spec)) fuel w w rfl
  cases hs : Spec.Evm.transactStrict fuel w e spec with
  | ok x =>
    exact transact_refines_spec_of_strict fuel w e spec hw x hs
  | error err =>
    have hne : ¬ Esc err := fun hh => hadm ⟨err, hs, hh⟩
    have hs' : transactWith journalOpsStrict fuel w e spec = .error err := hs
    rcases hA.err hs' with h | ⟨e2, he2, hk2⟩
    · exact absurd h hne
    · rcases hB.err hs' with h | ⟨e1, he1, hk1⟩
      · exact absurd h hne
      · show ObsEq (transactWith journalOps fuel w e spec) (transactWith snapshotOps fuel w e spec)
        rw [he1, he2]
        exact kind_obsEq hk1 hk2

end Revm.Proofs.EvmRefine
