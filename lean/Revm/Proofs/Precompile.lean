import Revm.Model.Precompile
import Revm.Spec.Precompile
/-! Proofs for C23 (precompiles): `modPow` correctness, the linear price, out-of-gas characterisations,
the BLS12-381 price tables, the modexp prices (EIP-198 / EIP-2565), padding and big-endian lemmas, and
the modexp output format. Core Lean only. -/
set_option linter.unusedSimpArgs false
set_option linter.unusedVariables false
namespace Revm.Proofs.Precompile
open Revm Revm.Model.Precompile Revm.Model.PrecompileHash
open Revm.Spec.Precompile (highBit adjExpLen multComplexity198 eip198Gas eip2565Gas ceilDiv slice num byteAt)


/-! ### modPow -/
theorem modPowFuel_eq (f : Nat) : ∀ (b e m : Nat), e < 2 ^ f → modPowFuel f b e m = b ^ e % m := by
  induction f with
  | zero => intro b e m h; have : e = 0 := by omega
            subst this; simp [modPowFuel]
  | succ f ih =>
    intro b e m h
    unfold modPowFuel
    by_cases he : e = 0
    · subst he; simp
    · simp only [he, if_false]
      have h2 : e / 2 < 2 ^ f := by
        have : 2 ^ (f + 1) = 2 * 2 ^ f := by rw [Nat.pow_succ]; omega
        omega
      rw [ih b (e / 2) m h2]
      have hsq : b ^ (e / 2) % m * (b ^ (e / 2) % m) % m = b ^ (2 * (e / 2)) % m := by
        rw [← Nat.mul_mod, ← Nat.pow_add]; congr 2; omega
      rw [hsq]
      by_cases hodd : e % 2 = 1
      · simp only [hodd, if_true]
        rw [Nat.mod_mul_mod, ← Nat.pow_succ]; congr 2; omega
      · simp only [hodd, if_false]
        congr 2; omega

theorem modPow_eq (b e m : Nat) : modPow b e m = b ^ e % m :=
  modPowFuel_eq _ b e m Nat.lt_log2_self


theorem divCeil32 (len : Nat) : divCeil len 32 = Spec.Precompile.ceilDiv len 32 := by
  unfold divCeil Spec.Precompile.ceilDiv; split <;> omega

/-- no `u64` wrap ⇒ the Yellow-Paper formula -/
theorem calcLinearCost_eq (len base word : Nat)
    (h : Spec.Precompile.linearCost len base word < U64) :
    calcLinearCost len base word = Spec.Precompile.linearCost len base word := by
  unfold calcLinearCost U64ops.wadd U64ops.wmul
  unfold Spec.Precompile.linearCost at *
  rw [divCeil32]
  generalize Spec.Precompile.ceilDiv len 32 = c at *
  rw [Nat.mul_comm c word]
  generalize word * c = p at *
  rw [U64_val] at *
  omega

theorem linearCost_lt (len base word : Nat) (hl : len < 2 ^ 40) (hb : base ≤ 600) (hw : word ≤ 120) :
    Spec.Precompile.linearCost len base word < U64 := by
  unfold Spec.Precompile.linearCost Spec.Precompile.ceilDiv
  have hc : (len + 32 - 1) / 32 ≤ 2 ^ 35 := by omega
  have : word * ((len + 32 - 1) / 32) ≤ 120 * 2 ^ 35 := Nat.mul_le_mul hw hc
  rw [U64_val]
  omega

theorem identityRun_eq (input : Bytes) (gas : Nat) (hl : input.length < 2 ^ 40) :
    identityRun input gas = Spec.Precompile.identity input gas := by
  unfold identityRun Spec.Precompile.identity
  rw [calcLinearCost_eq _ _ _ (linearCost_lt _ _ _ hl (by omega) (by omega))]
theorem sha256Run_eq (input : Bytes) (gas : Nat) (hl : input.length < 2 ^ 40) :
    sha256Run input gas = Spec.Precompile.sha256 input gas := by
  unfold sha256Run Spec.Precompile.sha256
  rw [calcLinearCost_eq _ _ _ (linearCost_lt _ _ _ hl (by omega) (by omega))]
theorem ripemd160Run_eq (input : Bytes) (gas : Nat) (hl : input.length < 2 ^ 40) :
    ripemd160Run input gas = Spec.Precompile.ripemd160 input gas := by
  unfold ripemd160Run Spec.Precompile.ripemd160
  rw [calcLinearCost_eq _ _ _ (linearCost_lt _ _ _ hl (by omega) (by omega))]

theorem identity_oog_iff (input : Bytes) (gas : Nat) (hl : input.length < 2 ^ 40) :
    identityRun input gas = .err .OutOfGas ↔ Spec.Precompile.linearCost input.length 15 3 > gas := by
  rw [identityRun_eq _ _ hl]; unfold Spec.Precompile.identity
  split <;> simp_all
theorem sha256_oog_iff (input : Bytes) (gas : Nat) (hl : input.length < 2 ^ 40) :
    sha256Run input gas = .err .OutOfGas ↔ Spec.Precompile.linearCost input.length 60 12 > gas := by
  rw [sha256Run_eq _ _ hl]; unfold Spec.Precompile.sha256
  split <;> simp_all
theorem ripemd160_oog_iff (input : Bytes) (gas : Nat) (hl : input.length < 2 ^ 40) :
    ripemd160Run input gas = .err .OutOfGas ↔ Spec.Precompile.linearCost input.length 600 120 > gas := by
  rw [ripemd160Run_eq _ _ hl]; unfold Spec.Precompile.ripemd160
  split <;> simp_all

/-! output formats -/
theorem sha256_length (msg : Bytes) : (sha256 msg).length = 32 := by
  simp [sha256, Sha256.stBytes, Sha256.be4]
theorem ripemd160_length (msg : Bytes) : (ripemd160 msg).length = 20 := by
  simp [ripemd160, Ripemd.stBytes, Ripemd.le4]


theorem ecRecover_oog_iff (rec : Bytes → Nat → Bytes → Option Bytes) (input : Bytes) (gas : Nat) :
    ecRecoverRun rec input gas = .err .OutOfGas ↔ 3000 > gas := by
  unfold ecRecoverRun
  by_cases h : 3000 > gas
  · simp [h]
  · simp only [h, if_false, iff_false]
    split
    · simp
    · split
      · simp
      · split <;> simp

theorem readPoint_not_oog (b : Bytes) : readPoint b ≠ .error .OutOfGas := by
  unfold readPoint
  simp only
  split; · simp
  split; · simp
  split; · simp
  split <;> simp

theorem bnAdd_oog_iff (cost : Nat) (input : Bytes) (gas : Nat) :
    bnAddRun cost input gas = .err .OutOfGas ↔ cost > gas := by
  unfold bnAddRun
  by_cases h : cost > gas
  · simp [h]
  · simp only [h, if_false, iff_false]
    split
    · next e he => intro hc; injection hc with hc; subst hc; exact readPoint_not_oog _ he
    · split
      · next e he => intro hc; injection hc with hc; subst hc; exact readPoint_not_oog _ he
      · simp

theorem bnMul_oog_iff (cost : Nat) (input : Bytes) (gas : Nat) :
    bnMulRun cost input gas = .err .OutOfGas ↔ cost > gas := by
  unfold bnMulRun
  by_cases h : cost > gas
  · simp [h]
  · simp only [h, if_false, iff_false]
    split
    · next e he => intro hc; injection hc with hc; subst hc; exact readPoint_not_oog _ he
    · simp

theorem bnPairElem_not_oog (core : BnPairCore) (i : Nat) (e : Bytes) :
    bnPairElem core i e ≠ .error .OutOfGas := by
  unfold bnPairElem
  simp only
  split; · simp
  split
  · next err he => intro hc; injection hc with hc; subst hc; exact readPoint_not_oog _ he
  · split; · simp
    split <;> simp

theorem bnPairElems_not_oog (core : BnPairCore) (n : Nat) : ∀ (i : Nat) (inp : Bytes),
    bnPairElems core n i inp ≠ .error .OutOfGas := by
  induction n with
  | zero => intro i inp; simp [bnPairElems]
  | succ n ih =>
    intro i inp
    unfold bnPairElems
    split
    · next e he => intro hc; injection hc with hc; subst hc; exact bnPairElem_not_oog _ _ _ he
    · exact ih _ _

/-- the pairing price without `u64` wrap: `base + perPoint * ⌊len / 192⌋` -/
theorem bnPair_oog_iff (core : BnPairCore) (perPoint base : Nat) (input : Bytes) (gas : Nat)
    (hl : input.length < 2 ^ 40) (hp : perPoint ≤ 80000) (hb : base ≤ 100000) :
    bnPairRun core perPoint base input gas = .err .OutOfGas ↔ base + perPoint * (input.length / 192) > gas := by
  unfold bnPairRun
  have hk : input.length / 192 < 2 ^ 33 := by omega
  have hm : perPoint * (input.length / 192) ≤ 80000 * 2 ^ 33 := Nat.mul_le_mul hp (by omega)
  have hg : U64ops.wadd (U64ops.wmul (input.length / 192) perPoint) base = base + perPoint * (input.length / 192) := by
    unfold U64ops.wadd U64ops.wmul
    rw [Nat.mul_comm (input.length / 192) perPoint]
    generalize perPoint * (input.length / 192) = p at *
    rw [U64_val]; omega
  simp only [hg]
  by_cases h : base + perPoint * (input.length / 192) > gas
  · simp [h]
  · simp only [h, if_false, iff_false]
    split; · simp
    split; · simp
    split
    · next e he => intro hc; injection hc with hc; subst hc; exact bnPairElems_not_oog _ _ _ _ he
    · simp

theorem blake2_oog_iff (input : Bytes) (gas : Nat) :
    blake2Run input gas = .err .OutOfGas ↔ input.length = 213 ∧ beNat (input.take 4) > gas := by
  unfold blake2Run
  by_cases hl : input.length = 213
  · simp only [hl, ne_eq, not_true_eq_false, if_false, true_and, Nat.mul_one]
    by_cases h : beNat (input.take 4) > gas
    · simp [h]
    · simp only [h, if_false, iff_false]
      split <;> simp
  · simp [hl]

theorem kzg_oog_iff (verify : Bytes → Bytes → Bytes → Bytes → Bool) (input : Bytes) (gas : Nat) :
    kzgRun verify input gas = .err .OutOfGas ↔ gas < 50000 := by
  unfold kzgRun
  by_cases h : gas < 50000
  · simp [h]
  · simp only [h, if_false, iff_false]
    split; · simp
    split; · simp
    split <;> simp


theorem blsG1Add_oog_iff (core : BlsCore) (input : Bytes) (gas : Nat) :
    blsG1AddRun core input gas = .err .OutOfGas ↔ 375 > gas := by
  unfold blsG1AddRun
  by_cases h : 375 > gas
  · simp [h]
  · simp only [h, if_false, iff_false]
    split; · simp
    split; · simp
    split <;> simp
theorem blsG2Add_oog_iff (core : BlsCore) (input : Bytes) (gas : Nat) :
    blsG2AddRun core input gas = .err .OutOfGas ↔ 600 > gas := by
  unfold blsG2AddRun
  by_cases h : 600 > gas
  · simp [h]
  · simp only [h, if_false, iff_false]
    split; · simp
    split; · simp
    split <;> simp
theorem blsMapFp_oog_iff (core : BlsCore) (input : Bytes) (gas : Nat) :
    blsMapFpRun core input gas = .err .OutOfGas ↔ 5500 > gas := by
  unfold blsMapFpRun
  by_cases h : 5500 > gas
  · simp [h]
  · simp only [h, if_false, iff_false]
    split; · simp
    split <;> simp
theorem blsMapFp2_oog_iff (core : BlsCore) (input : Bytes) (gas : Nat) :
    blsMapFp2Run core input gas = .err .OutOfGas ↔ 23800 > gas := by
  unfold blsMapFp2Run
  by_cases h : 23800 > gas
  · simp [h]
  · simp only [h, if_false, iff_false]
    split; · simp
    split <;> simp

/-- EIP-2537 MSM price over `Nat`: `k * mulCost * discount(k) / 1000`, discount capped at the last entry -/
def msmSpecGas (k : Nat) (table : List Nat) (mulCost : Nat) : Nat :=
  k * mulCost * (table[min (k - 1) (table.length - 1)]?).getD 0 / 1000

theorem table_le (table : List Nat) (hb : ∀ d ∈ table, d ≤ 1000) (i : Nat) (d : Nat)
    (h : table[i]? = some d) : d ≤ 1000 := hb d (List.mem_of_getElem? h)

theorem msmRequiredGas_eq (k : Nat) (table : List Nat) (mulCost : Nat)
    (hk : 0 < k) (hk2 : k < 2 ^ 33) (hm : mulCost ≤ 22500) (hb : ∀ d ∈ table, d ≤ 1000) (hne : table ≠ []) :
    msmRequiredGas k table mulCost = msmSpecGas k table mulCost := by
  unfold msmRequiredGas msmSpecGas
  have hk0 : k ≠ 0 := by omega
  simp only [hk0, if_false]
  have hidx : min (k - 1) (table.length - 1) < table.length := by
    have : 0 < table.length := List.length_pos_iff.mpr hne
    omega
  rw [List.getElem?_eq_getElem hidx]
  simp only [Option.getD_some]
  have hd : table[min (k - 1) (table.length - 1)] ≤ 1000 := hb _ (List.getElem_mem hidx)
  generalize table[min (k - 1) (table.length - 1)] = d at *
  unfold U64ops.wmul
  have h1 : k * d ≤ 2 ^ 33 * 1000 := Nat.mul_le_mul (by omega) hd
  have h1' : k * d < U64 := by rw [U64_val]; omega
  rw [Nat.mod_eq_of_lt h1']
  have h2 : k * d * mulCost ≤ 2 ^ 33 * 1000 * 22500 := Nat.mul_le_mul h1 hm
  have h2' : k * d * mulCost < U64 := by rw [U64_val]; omega
  rw [Nat.mod_eq_of_lt h2']
  congr 1
  rw [Nat.mul_assoc, Nat.mul_comm d mulCost, ← Nat.mul_assoc]

theorem g1Table_le : ∀ d ∈ g1DiscountTable, d ≤ 1000 := by
  have h : g1DiscountTable.all (fun d => decide (d ≤ 1000)) = true := by decide +kernel
  intro d hd; exact of_decide_eq_true (List.all_eq_true.mp h d hd)
theorem g2Table_le : ∀ d ∈ g2DiscountTable, d ≤ 1000 := by
  have h : g2DiscountTable.all (fun d => decide (d ≤ 1000)) = true := by decide +kernel
  intro d hd; exact of_decide_eq_true (List.all_eq_true.mp h d hd)
theorem g1Table_ne : g1DiscountTable ≠ [] := by unfold g1DiscountTable; exact List.cons_ne_nil _ _
theorem g2Table_ne : g2DiscountTable ≠ [] := by unfold g2DiscountTable; exact List.cons_ne_nil _ _


theorem blsG1Msm_oog_iff (core : BlsCore) (input : Bytes) (gas : Nat) (hl : input.length < 2 ^ 40) :
    blsG1MsmRun core input gas = .err .OutOfGas ↔
      (input.length ≠ 0 ∧ input.length % 160 = 0 ∧ msmSpecGas (input.length / 160) g1DiscountTable 12000 > gas) := by
  unfold blsG1MsmRun
  by_cases h0 : input.length = 0 ∨ input.length % 160 ≠ 0
  · simp only [h0, if_true]
    constructor
    · intro h; cases h
    · intro ⟨a, b, _⟩; omega
  · simp only [h0, if_false]
    have hk : 0 < input.length / 160 := by omega
    rw [msmRequiredGas_eq _ _ _ hk (by omega) (by omega) g1Table_le g1Table_ne]
    by_cases hg : msmSpecGas (input.length / 160) g1DiscountTable 12000 > gas
    · simp only [hg, if_true, true_iff]; refine ⟨by omega, by omega, trivial⟩
    · simp only [hg, if_false, and_false, iff_false]
      split <;> (intro hc; cases hc)

theorem blsG2Msm_oog_iff (core : BlsCore) (input : Bytes) (gas : Nat) (hl : input.length < 2 ^ 40) :
    blsG2MsmRun core input gas = .err .OutOfGas ↔
      (input.length ≠ 0 ∧ input.length % 288 = 0 ∧ msmSpecGas (input.length / 288) g2DiscountTable 22500 > gas) := by
  unfold blsG2MsmRun
  by_cases h0 : input.length = 0 ∨ input.length % 288 ≠ 0
  · simp only [h0, if_true]
    constructor
    · intro h; cases h
    · intro ⟨a, b, _⟩; omega
  · simp only [h0, if_false]
    have hk : 0 < input.length / 288 := by omega
    rw [msmRequiredGas_eq _ _ _ hk (by omega) (by omega) g2Table_le g2Table_ne]
    by_cases hg : msmSpecGas (input.length / 288) g2DiscountTable 22500 > gas
    · simp only [hg, if_true, true_iff]; refine ⟨by omega, by omega, trivial⟩
    · simp only [hg, if_false, and_false, iff_false]
      split <;> (intro hc; cases hc)

theorem blsPairing_oog_iff (core : BlsCore) (input : Bytes) (gas : Nat) (hl : input.length < 2 ^ 40) :
    blsPairingRun core input gas = .err .OutOfGas ↔
      (input.length ≠ 0 ∧ input.length % 384 = 0 ∧ 32600 * (input.length / 384) + 37700 > gas) := by
  unfold blsPairingRun
  by_cases h0 : input.length = 0 ∨ input.length % 384 ≠ 0
  · simp only [h0, if_true]
    constructor
    · intro h; cases h
    · intro ⟨a, b, _⟩; omega
  · simp only [h0, if_false]
    have hg : U64ops.wadd (U64ops.wmul 32600 (input.length / 384)) 37700 = 32600 * (input.length / 384) + 37700 := by
      unfold U64ops.wadd U64ops.wmul; rw [U64_val]; omega
    rw [hg]
    by_cases hgas : 32600 * (input.length / 384) + 37700 > gas
    · simp only [hgas, if_true, true_iff]; refine ⟨by omega, by omega, trivial⟩
    · simp only [hgas, if_false, and_false, iff_false]
      split <;> (intro hc; cases hc)


theorem bitLen_pred (hp : Nat) : bitLen hp - 1 = highBit hp := by
  unfold bitLen highBit; split <;> omega
theorem max1_bitLen (hp : Nat) : max 1 (bitLen hp) - 1 = highBit hp := by
  unfold bitLen highBit; split <;> omega
theorem highBit_lt (hp : Nat) (h : hp < W) : highBit hp < 256 := by
  unfold highBit; split
  · omega
  · next h0 => exact (Nat.log2_lt h0).mpr (by unfold W at h; exact h)

/-- no saturation of the `u64` iteration count: `8 * (exp_len - 32) + 255 < 2^64` -/
def NoIterSat (expLen : Nat) : Prop := 8 * (expLen - 32) + 255 < U64

theorem iterCount_eq (el hp : Nat) (hhp : hp < W) (hns : NoIterSat el) :
    calculateIterationCount el hp = max (adjExpLen el hp) 1 := by
  unfold calculateIterationCount adjExpLen
  unfold NoIterSat at hns
  have hb := highBit_lt hp hhp
  by_cases h1 : el ≤ 32
  · by_cases h0 : hp = 0
    · simp [h1, h0, highBit]
    · simp only [h1, h0, and_false, if_false, if_true]; rw [bitLen_pred]
  · simp only [h1, false_and, if_false]
    rw [max1_bitLen]
    unfold U64ops.saturatingAdd U64ops.saturatingMul
    rw [U64_val] at *
    have a1 : 8 * (el - 32) < 18446744073709551616 := by omega
    simp only [a1, if_true]
    have a2 : 8 * (el - 32) + highBit hp < 18446744073709551616 := by omega
    simp only [a2, if_true]


theorem sq_lt (x : Nat) (h : x < U64) : x * x < 2 ^ 128 := by
  have : x * x < U64 * U64 := Nat.mul_lt_mul'' h h
  rw [U64_val] at this; omega

theorem byzMulComplexity_eq (x : Nat) (h : x < U64) : byzMulComplexity x = multComplexity198 x := by
  unfold byzMulComplexity multComplexity198
  rw [Nat.pow_two]
  by_cases h1 : x ≤ 64
  · simp [h1]
  · by_cases h2 : x ≤ 1024
    · simp [h1, h2]
    · simp only [h1, h2, if_false]
      have hs := sq_lt x h
      have hlo : 1025 * 1025 ≤ x * x := Nat.mul_le_mul (by omega) (by omega)
      unfold U256.wsub U256.wadd U256.wmul
      generalize x * x = s at *
      rw [U64_val] at h
      rw [W_val]
      omega

theorem multComplexity198_lt (x : Nat) (h : x < U64) : multComplexity198 x < 2 ^ 126 := by
  unfold multComplexity198
  rw [Nat.pow_two]
  have hs := sq_lt x h
  have hsmall : x ≤ 1024 → x * x ≤ 1024 * 1024 := fun h => Nat.mul_le_mul h h
  generalize x * x = s at *
  rw [U64_val] at h
  split
  · omega
  · split <;> omega

theorem satToU64_eq (x : Nat) : satToU64 x = min x (U64 - 1) := by
  unfold satToU64; rw [U64_val]; split <;> omega

/-- the Byzantium price is the EIP-198 price, clamped to `u64` -/
theorem byzantiumGasCalc_eq (bl el ml hp : Nat) (hbl : bl < U64) (hml : ml < U64) (hhp : hp < W)
    (hns : NoIterSat el) :
    byzantiumGasCalc bl el ml hp = min (eip198Gas bl el ml hp) (U64 - 1) := by
  unfold byzantiumGasCalc eip198Gas
  have hx : max ml bl < U64 := by omega
  rw [byzMulComplexity_eq _ hx, iterCount_eq el hp hhp hns, satToU64_eq]
  have hm := multComplexity198_lt _ hx
  have hi : max (adjExpLen el hp) 1 < U64 := by
    unfold adjExpLen NoIterSat at *
    have := highBit_lt hp hhp
    split <;> omega
  have hprod : multComplexity198 (max ml bl) * max (adjExpLen el hp) 1 < 2 ^ 126 * U64 :=
    Nat.mul_lt_mul'' hm hi
  unfold U256.wmul
  have : multComplexity198 (max ml bl) * max (adjExpLen el hp) 1 < W := by
    rw [W_val]; rw [U64_val] at hprod; omega
  rw [Nat.mod_eq_of_lt this]

theorem berlinWords_eq (m : Nat) : (if m % 8 > 0 then m / 8 + 1 else m / 8) = ceilDiv m 8 := by
  unfold ceilDiv; split <;> omega

/-- the Berlin price is the EIP-2565 price, clamped to `u64` -/
theorem berlinGasCalc_eq (bl el ml hp : Nat) (hbl : bl < U64) (hml : ml < U64) (hhp : hp < W)
    (hns : NoIterSat el) :
    berlinGasCalc bl el ml hp = min (eip2565Gas bl el ml hp) (U64 - 1) := by
  unfold berlinGasCalc eip2565Gas
  simp only [berlinWords_eq]
  rw [iterCount_eq el hp hhp hns, satToU64_eq, Nat.pow_two]
  have hw : ceilDiv (max bl ml) 8 < U64 := by unfold ceilDiv; rw [U64_val] at *; omega
  have hs := sq_lt _ hw
  have hi : max (adjExpLen el hp) 1 < U64 := by
    unfold adjExpLen NoIterSat at *
    have := highBit_lt hp hhp
    split <;> omega
  have hprod : ceilDiv (max bl ml) 8 * ceilDiv (max bl ml) 8 * max (adjExpLen el hp) 1 < 2 ^ 128 * U64 :=
    Nat.mul_lt_mul'' hs hi
  unfold U256.wmul
  have h1 : ceilDiv (max bl ml) 8 * ceilDiv (max bl ml) 8 < W := by rw [W_val]; omega
  rw [Nat.mod_eq_of_lt h1]
  have h2 : ceilDiv (max bl ml) 8 * ceilDiv (max bl ml) 8 * max (adjExpLen el hp) 1 < W := by
    rw [W_val]; rw [U64_val] at hprod; omega
  rw [Nat.mod_eq_of_lt h2]
  generalize ceilDiv (max bl ml) 8 * ceilDiv (max bl ml) 8 * max (adjExpLen el hp) 1 / 3 = g
  rw [U64_val]; omega


theorem rightPad_length (n : Nat) (d : Bytes) : (rightPad n d).length = n := by
  simp [rightPad]; omega
theorem leftPad_length (n : Nat) (d : Bytes) : (leftPad n d).length = n := by
  unfold leftPad; split <;> simp <;> omega
theorem rightPad_of_le (n : Nat) (d : Bytes) (h : n ≤ d.length) : rightPad n d = d.take n := by
  simp [rightPad, Nat.sub_eq_zero_of_le h]
theorem rightPad_of_ge (n : Nat) (d : Bytes) (h : d.length ≤ n) :
    rightPad n d = d ++ List.replicate (n - d.length) 0 := by
  simp [rightPad, List.take_of_length_le h]
theorem leftPad_of_le (n : Nat) (d : Bytes) (h : d.length ≤ n) :
    leftPad n d = List.replicate (n - d.length) 0 ++ d := by
  unfold leftPad; split
  · have : d.length = n := by omega
    subst this; simp
  · rfl

/-- byte `i` of a right-padded string: the data byte, or 0 beyond the data, inside the window -/
theorem rightPad_getElem? (n : Nat) (d : Bytes) (i : Nat) :
    (rightPad n d)[i]? = if i < n then some ((d[i]?).getD 0) else none := by
  unfold rightPad
  have hlen : (List.take n d).length = min n d.length := List.length_take
  by_cases h2 : i < min n d.length
  · rw [List.getElem?_append_left (by omega), List.getElem?_take]
    have h3 : i < n := by omega
    have h4 : i < d.length := by omega
    simp [h3, h4]
  · rw [List.getElem?_append_right (by omega), List.getElem?_replicate, hlen]
    by_cases h1 : i < n
    · have hd : d.length ≤ i := by omega
      have h5 : i - min n d.length < n - d.length := by omega
      simp [h5, h1, List.getElem?_eq_none hd]
    · have h5 : ¬ (i - min n d.length < n - d.length) := by omega
      simp [h5, h1]

/-- the EIP's "infinitely zero-extended input" read = the code's `right_pad_with_offset` -/
theorem slice_eq (input : Bytes) (off len : Nat) : slice input off len = rightPad len (input.drop off) := by
  apply List.ext_getElem?
  intro i
  rw [rightPad_getElem?]
  unfold slice byteAt
  by_cases h : i < len
  · simp [h, List.getElem?_drop]
  · simp [h]

theorem take_rightPad (k n : Nat) (d : Bytes) (h : k ≤ n) : (rightPad n d).take k = rightPad k d := by
  apply List.ext_getElem?
  intro i
  rw [List.getElem?_take, rightPad_getElem?, rightPad_getElem?]
  by_cases h1 : i < k
  · have : i < n := by omega
    simp [h1, this]
  · simp [h1]

theorem drop_rightPad (a b : Nat) (d : Bytes) : (rightPad (a + b) d).drop a = rightPad b (d.drop a) := by
  apply List.ext_getElem?
  intro i
  rw [List.getElem?_drop, rightPad_getElem?, rightPad_getElem?, List.getElem?_drop]
  by_cases h1 : i < b
  · have : a + i < a + b := by omega
    simp [h1, this]
  · have : ¬ a + i < a + b := by omega
    simp [h1, this]

/-! big-endian numbers -/
theorem beNat_foldl (bs : Bytes) (acc : Nat) :
    bs.foldl (fun a b => a * 256 + b) acc = acc * 256 ^ bs.length + beNat bs := by
  induction bs generalizing acc with
  | nil => simp [beNat]
  | cons x xs ih =>
    simp only [List.foldl_cons, List.length_cons, beNat]
    rw [ih, ih (0 * 256 + x)]
    rw [Nat.pow_succ]
    generalize 256 ^ xs.length = p
    generalize beNat xs = r
    rw [Nat.add_mul, Nat.zero_mul, Nat.zero_add, Nat.mul_assoc, Nat.mul_comm 256 p]
    omega

theorem beNat_append (a b : Bytes) : beNat (a ++ b) = beNat a * 256 ^ b.length + beNat b := by
  unfold beNat
  rw [List.foldl_append, beNat_foldl]
  rfl

theorem beNat_zeros (n : Nat) : beNat (List.replicate n 0) = 0 := by
  induction n with
  | zero => rfl
  | succ n ih =>
    rw [List.replicate_succ]
    have := beNat_append [0] (List.replicate n 0)
    simp only [List.singleton_append] at this
    rw [this, ih]; simp [beNat]

/-- left padding does not change the number -/
theorem beNat_leftPad (n : Nat) (d : Bytes) (h : d.length ≤ n) : beNat (leftPad n d) = beNat d := by
  rw [leftPad_of_le n d h, beNat_append, beNat_zeros]; simp
/-- right padding multiplies by `256^(missing bytes)` -/
theorem beNat_rightPad (n : Nat) (d : Bytes) (h : d.length ≤ n) :
    beNat (rightPad n d) = beNat d * 256 ^ (n - d.length) := by
  rw [rightPad_of_ge n d h, beNat_append, beNat_zeros]; simp

theorem beNat_cons (x : Nat) (xs : Bytes) : beNat (x :: xs) = x * 256 ^ xs.length + beNat xs := by
  have := beNat_append [x] xs
  simp only [List.singleton_append] at this
  rw [this]; simp [beNat]

theorem beNat_lt (bs : Bytes) (hb : ∀ b ∈ bs, b < 256) : beNat bs < 256 ^ bs.length := by
  induction bs with
  | nil => simp [beNat]
  | cons x xs ih =>
    rw [beNat_cons]
    have hx : x < 256 := hb x (by simp)
    have ih' := ih (fun b hb' => hb b (by simp [hb']))
    rw [List.length_cons, Nat.pow_succ]
    have hmul : x * 256 ^ xs.length ≤ 255 * 256 ^ xs.length := Nat.mul_le_mul (by omega) (Nat.le_refl _)
    generalize 256 ^ xs.length = p at *
    generalize beNat xs = v at *
    omega

theorem toBEAux_eq (w : Nat) : ∀ (v : Nat) (acc : Bytes), toBEAux w v acc = toBEAux w v [] ++ acc := by
  induction w with
  | zero => intro v acc; simp [toBEAux]
  | succ w ih =>
    intro v acc
    unfold toBEAux
    rw [ih (v / 256) ((v % 256) :: acc), ih (v / 256) [v % 256]]
    simp

theorem toBE_succ (w v : Nat) : toBE (w + 1) v = toBE w (v / 256) ++ [v % 256] := by
  unfold toBE; rw [toBEAux, toBEAux_eq]

theorem toBE_length (w : Nat) : ∀ v, (toBE w v).length = w := by
  induction w with
  | zero => intro v; rfl
  | succ w ih => intro v; rw [toBE_succ]; simp [ih]

theorem beNat_toBE (w : Nat) : ∀ v, beNat (toBE w v) = v % 256 ^ w := by
  induction w with
  | zero => intro v; simp [toBE, toBEAux, beNat, Nat.mod_one]
  | succ w ih =>
    intro v
    rw [toBE_succ, beNat_append, ih]
    have h1 : beNat [v % 256] = v % 256 := by simp [beNat]
    rw [h1, Nat.pow_succ, Nat.mul_comm (256 ^ w) 256, Nat.mod_mul]
    simp only [List.length_singleton, Nat.pow_one]
    rw [Nat.mul_comm]
    omega

theorem lt_pow_byteLen (v : Nat) : v < 256 ^ byteLen v := by
  unfold byteLen
  split
  · next h => subst h; simp
  · have h1 : v < 2 ^ (v.log2 + 1) := Nat.lt_log2_self
    have h2 : 2 ^ (v.log2 + 1) ≤ 2 ^ (8 * (v.log2 / 8 + 1)) := Nat.pow_le_pow_right (by omega) (by omega)
    have h3 : (256 : Nat) ^ (v.log2 / 8 + 1) = 2 ^ (8 * (v.log2 / 8 + 1)) := by
      rw [Nat.pow_mul]
    omega

theorem byteLen_le (v n : Nat) (h : v < 256 ^ n) : byteLen v ≤ n := by
  unfold byteLen
  split
  · omega
  · next h0 =>
    have h3 : (256 : Nat) ^ n = 2 ^ (8 * n) := by rw [Nat.pow_mul]
    rw [h3] at h
    have := (Nat.log2_lt h0).mpr h
    omega

/-- `left_pad_vec(modexp(base, exp, modulus), mod_len)`: exactly `mod_len` bytes whose big-endian value
is `base^exp mod m` (0 for a zero modulus), whenever the modulus fits in `mod_len` bytes -/
theorem modexpLib_padded (base exponent modulus : Bytes) (ml : Nat) (hm : beNat modulus < 256 ^ ml) :
    (leftPad ml (modexpLib base exponent modulus)).length = ml ∧
    beNat (leftPad ml (modexpLib base exponent modulus)) =
      Spec.Precompile.modexpValue (beNat base) (beNat exponent) (beNat modulus) := by
  unfold modexpLib Spec.Precompile.modexpValue
  by_cases h0 : beNat modulus = 0
  · simp only [h0, if_true]
    rw [leftPad_of_le ml [] (by simp)]
    simp [beNat_zeros]
  · simp only [h0, if_false]
    rw [modPow_eq]
    have hv : beNat base ^ beNat exponent % beNat modulus < beNat modulus := Nat.mod_lt _ (by omega)
    generalize beNat base ^ beNat exponent % beNat modulus = v at *
    have hk : byteLen v ≤ ml := byteLen_le v ml (by omega)
    rw [leftPad_of_le ml _ (by rw [toBE_length]; exact hk)]
    constructor
    · simp [toBE_length]; omega
    · rw [beNat_append, beNat_zeros, beNat_toBE, Nat.mod_eq_of_lt (lt_pow_byteLen v)]; simp

end Revm.Proofs.Precompile
