import Revm.Proofs.EvmLinkGas
import Revm.Proofs.EvmLinkValidate3
/-! LINK, transaction level: a completed `Evm.transact` run cut into its stages (`preverify`, `prepare`, the frame loop,
`finish`), the EIP-7702 refund handed to the gas pipeline, and the balance legs of `deduct_caller`, `reimburse_caller`
and `reward_beneficiary` as the amounts of `TxGas` (C09). -/
set_option linter.unusedSimpArgs false
namespace Revm.Proofs.EvmLink
open Revm Revm.Model Revm.Model.Evm
open Revm.Model.GasCalc (enabled)

/-! ## rejected transactions -/

/-- `Evm.transact` answers `rejected` exactly when `preverify` rejects, and then hands back the world it was given -/
theorem transactWith_rejected_iff {κ : Type} (C : CpOps κ) (fuel : Nat) (w w' : World) (e : Evm.Env) (spec : Nat) :
    transactWith C fuel w e spec = .ok (.rejected, w') ↔
      (preverify w e (GasCalc.canon spec) = .ok none ∧ w' = w) := by
  unfold transactWith
  simp only [bind, Except.bind, pure, Except.pure]
  cases hp : preverify w e (GasCalc.canon spec) with
  | error err => simp
  | ok o =>
    cases o with
    | none => simp only [Except.ok.injEq, Prod.mk.injEq, true_and]; exact ⟨fun h => h.symm, fun h => h.symm⟩
    | some p =>
      obtain ⟨w1, ig, fg⟩ := p
      simp only
      cases he : execute C fuel e (GasCalc.canon spec) ig fg w1 with
      | error err => simp
      | ok q => simp

/-! ## the EIP-7702 refund -/

/-- a loop whose body adds at most one to its counter adds at most the length of the list -/
theorem forIn_count {α σ : Type} (f : α → σ × Nat → R (ForInStep (σ × Nat)))
    (hf : ∀ a s st, f a s = .ok st → ∃ s', st = .yield s' ∧ s.2 ≤ s'.2 ∧ s'.2 ≤ s.2 + 1) :
    ∀ (l : List α) (s r : σ × Nat), forIn (m := R) l s f = .ok r → s.2 ≤ r.2 ∧ r.2 ≤ s.2 + l.length := by
  intro l
  induction l with
  | nil =>
    intro s r h
    simp only [List.forIn_nil, pure, Except.pure, Except.ok.injEq] at h
    subst h; simp
  | cons a l ih =>
    intro s r h
    rw [List.forIn_cons] at h
    obtain ⟨st, h1, h2⟩ := bind_ok h
    obtain ⟨s', rfl, hlo, hhi⟩ := hf a s st h1
    have := ih _ _ h2
    simp only [List.length_cons]; omega

/-- the length of the authorization list (0 without one) -/
def authLen (e : Evm.Env) : Nat := match e.tx.authList with | some l => l.length | none => 0

theorem authLen_none {e : Evm.Env} (h : e.tx.authList = none) : authLen e = 0 := by unfold authLen; rw [h]

/-- what `apply_eip7702_auth_list` hands to the gas pipeline: `k` refunded authorities, `k` at most the length of the
list, as `k · (PER_EMPTY_ACCOUNT_COST − PER_AUTH_BASE_COST)` in `u64` -/
theorem applyAuthList_refund (e : Evm.Env) (spec : Nat) (w w' : World) (r : Nat)
    (h : applyAuthList e spec w = .ok (w', r)) :
    ∃ k, r = U64ops.wmul k (Evm.PER_EMPTY_ACCOUNT_COST - Evm.PER_AUTH_BASE_COST) ∧
      k ≤ authLen e := by
  unfold applyAuthList at h
  simp only [bind, Except.bind, pure, Except.pure] at h
  split at h
  · simp only [Except.ok.injEq, Prod.mk.injEq] at h
    exact ⟨0, by rw [← h.2]; rfl, Nat.zero_le _⟩
  · cases hal : e.tx.authList with
    | none =>
      rw [hal] at h
      simp only [Except.ok.injEq, Prod.mk.injEq] at h
      exact ⟨0, by rw [← h.2]; rfl, Nat.zero_le _⟩
    | some l =>
      rw [hal] at h
      simp only at h
      split at h
      · cases h
      · rename_i v hv
        simp only [Except.ok.injEq, Prod.mk.injEq] at h
        have := forIn_count _ (by
          intro a s st hst
          split at hst
          · cases hst
          · split at hst
            · simp only [Except.ok.injEq] at hst; subst hst; exact ⟨_, rfl, by simp, by simp⟩
            · simp only [Except.ok.injEq] at hst; subst hst; exact ⟨_, rfl, by simp, by simp⟩) l (w, 0) v hv
        exact ⟨v.2, h.2.symm, by unfold authLen; rw [hal]; show v.2 ≤ l.length; omega⟩

/-! ## the stages of an executed transaction -/

/-- a completed, executed transaction went through: `preverify` (accepted, with the initial and the floor gas), `prepare`
(which hands over the EIP-7702 refund of `k` authorities), the loop on the first frame (result `res`), `finish` -/
theorem transact_executed_stages (fuel : Nat) (w w' : World) (e : Evm.Env) (spec : Nat) (r : TxResult)
    (h : transact fuel w e spec = .ok (.executed r, w')) :
    ∃ (w1 : World) (ig fg : Nat) (first : FrameOrResult Journal.Checkpoint) (w2 : World) (isCreate : Bool) (k : Nat)
      (res : Interp.ChildResult) (w3 : World),
      preverify w e (GasCalc.canon spec) = .ok (some (w1, ig, fg)) ∧
      prepare journalOps e (GasCalc.canon spec) ig w1 =
        .ok (first, w2, isCreate, U64ops.wmul k (Evm.PER_EMPTY_ACCOUNT_COST - Evm.PER_AUTH_BASE_COST)) ∧
      k ≤ authLen e ∧
      runFirst journalOps (e.toCfg (GasCalc.canon spec)) fuel first w2 = .ok (res, w3) ∧
      finish e (GasCalc.canon spec) fg (U64ops.wmul k (Evm.PER_EMPTY_ACCOUNT_COST - Evm.PER_AUTH_BASE_COST))
        isCreate res w3 = .ok (r, w') := by
  unfold transact transactWith at h
  simp only [bind, Except.bind, pure, Except.pure] at h
  cases hp : preverify w e (GasCalc.canon spec) with
  | error err => rw [hp] at h; simp at h
  | ok o =>
    rw [hp] at h
    cases o with
    | none => simp at h
    | some p =>
      obtain ⟨w1, ig, fg⟩ := p
      simp only at h
      cases he : execute journalOps fuel e (GasCalc.canon spec) ig fg w1 with
      | error err => rw [he] at h; simp at h
      | ok q =>
        rw [he] at h
        obtain ⟨r', w''⟩ := q
        simp only [Except.ok.injEq, Prod.mk.injEq, Outcome.executed.injEq] at h
        obtain ⟨rfl, rfl⟩ := h
        unfold execute at he
        obtain ⟨⟨first, w2, isCreate, refund⟩, hpr, he⟩ := bind_ok he
        obtain ⟨⟨res, w3⟩, hrf, hfin⟩ := bind_ok he
        -- the refund inside `prepare`
        have hpr' := hpr
        unfold prepare at hpr'
        obtain ⟨wd, hd, hpr'⟩ := bind_ok hpr'
        obtain ⟨⟨wa, refund'⟩, hauth, hpr'⟩ := bind_ok hpr'
        obtain ⟨k, hk, hkl⟩ := applyAuthList_refund e (GasCalc.canon spec) wd wa refund' hauth
        have hrefund : refund = refund' := by
          simp only at hpr'
          split at hpr'
          · obtain ⟨x, _, hx⟩ := bind_ok hpr'
            simp only [pure, Except.pure, Except.ok.injEq, Prod.mk.injEq] at hx
            exact hx.2.2.2.symm
          · obtain ⟨x, _, hx⟩ := bind_ok hpr'
            simp only [pure, Except.pure, Except.ok.injEq, Prod.mk.injEq] at hx
            exact hx.2.2.2.symm
        subst hrefund
        subst hk
        exact ⟨w1, ig, fg, first, w2, isCreate, k, res, w3, rfl, hpr, hkl, hrf, hfin⟩

end Revm.Proofs.EvmLink
