import Revm.Proofs.EvmInstWrapTypes
/-! Instantiating the abstract frame machine of C28 with the whole-EVM model, part 2: THE MACHINE.

`evmMachine C cfg lim : Machine (evmTy κ) ECtx` is the record of handlers of `Model/InspectorWrap.lean` filled with the
functions of the concrete model (`Model/Interp.lean`, `Model/EvmHost.lean`, `Model/EvmFrame.lean`):

* the abstract interpreter keeps the WHOLE concrete interpreter in `rest`; its named fields `ip`, `gas`, `mem` override
  `pc`, `gas`, `mem` of `rest` (`sync`): an instruction first syncs, runs `Interp.execInstr (Interp.decode op)`, answers a host
  question with `Evm.answer`, and writes the three fields back (`unsync`);
* a Rust panic / database error inside an instruction is `FatalExternalError` + the error slot, surfaced by `takeError`;
* `call` / `create` are `makeCallFrame` / `makeCreateFrame` (the interpreter of a new frame owns `EMPTY_SHARED_MEMORY`;
  the loop hands it the shared memory at `run`), `callReturn` / `createReturn` the concrete ones on the checkpoint kept in
  the frame data, `insert*Outcome` the concrete `Interp.insert*Outcome` on the parent's synced state;
* `lastFrameReturn` is the mainnet handler with `env.tx.gas_limit = lim`;
* EOF creation is outside the legacy-only concrete model: `eofcreate*` fail (as `Evm.makeFrame` does).

Every inline `match` of a handler is on an ARGUMENT of a helper (`ofOutcome`, `ofCallFrame`, …), never on a computation:
unfolding a handler then does not evaluate the concrete model. -/
namespace Revm.Proofs.EvmInstWrap
open Revm Revm.Model

variable {κ : Type}

/-! ## sync / write back -/

/-- the concrete interpreter an abstract one stands for when it runs on the memory `mem` -/
def sync (st : AState κ) (mem : Memory.SharedMemory) : Interp.IState :=
  { st.rest with pc := st.ip, gas := st.gas, mem := mem }

/-- write the mirrored fields back -/
def unsync (s : Interp.IState) (ir : IR) (a : AAction κ) : AState κ :=
  { ip := s.pc, instructionResult := ir, gas := s.gas, mem := s.mem, nextAction := a, rest := s }

/-- `Interpreter::new`: a fresh interpreter (owns `EMPTY_SHARED_MEMORY` until `run` is handed the shared one) -/
def newInterp (s : Interp.IState) : AState κ :=
  { ip := s.pc, instructionResult := .Continue, gas := s.gas, mem := Memory.new, nextAction := .none, rest := s }

/-! ## the instruction table -/

/-- the opcode byte under the instruction pointer; 256 (no opcode) outside the bytecode -/
def evmFetch (st : AState κ) : Nat := (st.rest.code[st.ip]?).getD 256

/-- a Rust panic / database error inside an instruction: `FatalExternalError` and the error slot -/
def fatal (st : AState κ) (c : ECtx) (e : Evm.Err) : AState κ × ECtx :=
  ({ st with instructionResult := .FatalExternalError }, { c with err := some e })

/-- the effect of a resolved instruction on the abstract interpreter -/
def ofDone (st : AState κ) (c : ECtx) : Interp.Done → AState κ × ECtx
  | .next s => (unsync s st.instructionResult st.nextAction, c)
  | .action a s => (unsync s .CallOrCreate (actionOf a), c)
  | .halt r out s => (unsync s (toIR r) (.ret { result := toIR r, output := out, gas := s.gas }), c)
  | .fault f => fatal st c (.panic s!"interpreter: {f.name}")

/-- continue from the host's answer -/
def ofAnswer (st : AState κ) (c : ECtx) (k : Interp.HostResp → Interp.Done) :
    Evm.R (Interp.HostResp × Evm.World) → AState κ × ECtx
  | .ok (resp, w) => ofDone st { c with w := w } (k resp)
  | .error e => fatal st c e

/-- an instruction that ran purely, or asked the host one question -/
def ofOutcome (cfg : Evm.Cfg) (st : AState κ) (c : ECtx) : Interp.Outcome → AState κ × ECtx
  | .pure d => ofDone st c d
  | .host op k => ofAnswer st c k (Evm.answer cfg.he c.w op)

/-- `instruction_table[opcode]`, entered with the pointer already advanced: the byte it was read from must lie in the
bytecode (the concrete model's checked access; `Interp.step` faults with `oobCode` otherwise) -/
def evmTable (cfg : Evm.Cfg) (op : Nat) (st : AState κ) (c : ECtx) : AState κ × ECtx :=
  match st.rest.code[st.ip - 1]? with
  | none => fatal st c (.panic "interpreter: oob-code")
  | some _ => ofOutcome cfg st c (Interp.execInstr (Interp.decode op) (sync st st.mem))

/-- `context.evm.take_error()` -/
def evmTakeError (c : ECtx) : ARes ECtx :=
  match c.err with
  | some e => .err e
  | none => .ok c

/-! ## frame creation -/

def ofCallFrame (c : ECtx) (i : Interp.CallInputs) :
    Evm.R (Evm.FrameOrResult κ × Evm.World) → ARes (InspectorWrap.FrameOr (evmTy κ) InspectorWrap.CallOutcome × ECtx)
  | .ok (.frame f, w) => .ok (.frame (newInterp f.interp) (f.kind, f.checkpoint), { c with w := w })
  | .ok (.result r, w) => .ok (.result (callOutcomeOf i.gasLimit r i.retStart i.retEnd), { c with w := w })
  | .error e => .err e

def ofCreateFrame (c : ECtx) (i : Interp.CreateInputs) :
    Evm.R (Evm.FrameOrResult κ × Evm.World) → ARes (InspectorWrap.FrameOr (evmTy κ) InspectorWrap.CreateOutcome × ECtx)
  | .ok (.frame f, w) => .ok (.frame (newInterp f.interp) (f.kind, f.checkpoint), { c with w := w })
  | .ok (.result r, w) => .ok (.result (createOutcomeOf i.gasLimit r), { c with w := w })
  | .error e => .err e

/-- `make_call_frame` (`Interpreter::new` does not see the shared memory: the frame is made over `SharedMemory::new()`
and its `mem` is replaced at `run`) -/
def evmCall (C : Evm.CpOps κ) (cfg : Evm.Cfg) (c : ECtx) (i : Interp.CallInputs) :
    ARes (InspectorWrap.FrameOr (evmTy κ) InspectorWrap.CallOutcome × ECtx) :=
  ofCallFrame c i (Evm.makeCallFrame C cfg c.w i Memory.new)

def evmCreate (C : Evm.CpOps κ) (cfg : Evm.Cfg) (c : ECtx) (i : Interp.CreateInputs) :
    ARes (InspectorWrap.FrameOr (evmTy κ) InspectorWrap.CreateOutcome × ECtx) :=
  ofCreateFrame c i (Evm.makeCreateFrame C cfg c.w i Memory.new)

/-! ## frame return -/

def ofCallReturn (c : ECtx) (lim rs re : Nat) : Evm.R (Interp.ChildResult × Evm.World) →
    ARes (InspectorWrap.CallOutcome × ECtx)
  | .ok (res, w) => .ok (callOutcomeOf lim res rs re, { c with w := w })
  | .error e => .err e

def ofCreateReturn (c : ECtx) (lim : Nat) : Evm.R (Interp.ChildResult × Evm.World) →
    ARes (InspectorWrap.CreateOutcome × ECtx)
  | .ok (res, w) => .ok (createOutcomeOf lim res, { c with w := w })
  | .error e => .err e

/-- `call_return` on the frame's checkpoint; the `return_memory_offset` of the outcome is the frame's -/
def evmCallReturn (C : Evm.CpOps κ) (c : ECtx) (f : AFrame κ) (r : InspectorWrap.InterpreterResult) :
    ARes (InspectorWrap.CallOutcome × ECtx) :=
  match f.data.1 with
  | .call rs re => ofCallReturn c r.gas.limit rs re (Evm.callReturn C c.w f.data.2 (childOf r none))
  | .create _ => .panic

/-- `create_return` on the frame's checkpoint and created address -/
def evmCreateReturn (C : Evm.CpOps κ) (cfg : Evm.Cfg) (c : ECtx) (f : AFrame κ)
    (r : InspectorWrap.InterpreterResult) : ARes (InspectorWrap.CreateOutcome × ECtx) :=
  match f.data.1 with
  | .create a => ofCreateReturn c r.gas.limit (Evm.createReturn C cfg c.w f.data.2 a (childOf r none))
  | .call _ _ => .panic

/-! ## outcome insertion -/

/-- the parent's interpreter after the insertion ended in the concrete state `s` (it still owns
`EMPTY_SHARED_MEMORY`; `next_action` is untouched) -/
def insertedState (f : AFrame κ) (s : Interp.IState) (ir : IR) : AState κ :=
  { ip := s.pc, instructionResult := ir, gas := s.gas, mem := f.interp.mem, nextAction := f.interp.nextAction,
    rest := s }

/-- `insert_call_outcome`: `instruction_result = Continue`, then the body; a failing `push!` leaves the result set -/
def ofInsertCall (c : ECtx) (f : AFrame κ) : Interp.Exec Unit → ARes (AState κ × Memory.SharedMemory × ECtx)
  | .ok _ s => .ok (insertedState f s .Continue, s.mem, c)
  | .halt r _ s => .ok (insertedState f s (toIR r), s.mem, c)
  | .fault fl => .err (.panic s!"insert outcome: {fl.name}")

def ofInsertCreate (c : ECtx) (f : AFrame κ) : Interp.Exec Unit → ARes (AState κ × ECtx)
  | .ok _ s => .ok (insertedState f s .Continue, c)
  | .halt r _ s => .ok (insertedState f s (toIR r), c)
  | .fault fl => .err (.panic s!"insert outcome: {fl.name}")

/-- `handler::mainnet::insert_call_outcome`: `take_error()?`, then `Interpreter::insert_call_outcome` on the shared memory -/
def evmInsertCall (c : ECtx) (f : AFrame κ) (sh : Memory.SharedMemory) (o : InspectorWrap.CallOutcome) :
    ARes (AState κ × Memory.SharedMemory × ECtx) :=
  (evmTakeError c).bind fun c =>
    ofInsertCall c f
      (Interp.insertCallOutcome o.memoryOffset.1 o.memoryOffset.2 (childOf o.result none) (sync f.interp sh))

/-- `handler::mainnet::insert_create_outcome` (does not touch the shared memory: the interpreter runs on its own
`mem`, the empty one) -/
def evmInsertCreate (c : ECtx) (f : AFrame κ) (o : InspectorWrap.CreateOutcome) : ARes (AState κ × ECtx) :=
  (evmTakeError c).bind fun c =>
    ofInsertCreate c f (Interp.insertCreateOutcome (childOf o.result o.address) (sync f.interp f.interp.mem))

/-! ## memory -/

/-- `free_context`, totalised: the concrete `Memory.freeContext` can fail (`set_len` beyond the length, outside its
safety contract); the abstract machine's memory operation is total, so a failure leaves the memory as it is. On
completed concrete runs it never fails (`Evm.freeCtx` would have thrown). -/
def freeContextT (m : Memory.SharedMemory) : Memory.SharedMemory :=
  match Memory.freeContext m with
  | .ok m' => m'
  | _ => m

/-! ## the machine -/

/-- the frame machine of the whole-EVM model over the subroutine discipline `C`; `lim` is `env.tx.gas_limit` -/
def evmMachine (C : Evm.CpOps κ) (cfg : Evm.Cfg) (lim : Nat) : InspectorWrap.Machine (evmTy κ) ECtx where
  fetch := evmFetch
  table := evmTable cfg
  takeError := evmTakeError
  call := evmCall C cfg
  create := evmCreate C cfg
  eofcreate := fun _ _ => .err (.panic "unsupported: Action.eofCreate (EOF frames are not modelled)")
  callReturn := evmCallReturn C
  createReturn := evmCreateReturn C cfg
  eofcreateReturn := fun _ _ _ => .panic
  insertCallOutcome := evmInsertCall
  insertCreateOutcome := evmInsertCreate
  insertEofcreateOutcome := fun _ _ _ => .panic
  lastFrameReturn := fun c r => .ok (InspectorWrap.lastFrameReturn lim r, c)
  newContext := Memory.newContext
  freeContext := freeContextT
  emptyMem := Memory.new
  newMem := Memory.new

/-! ## basic facts -/

@[simp] theorem sync_unsync (s : Interp.IState) (ir : IR) (a : AAction κ) : sync (unsync s ir a) s.mem = s := rfl

theorem sync_newInterp (s : Interp.IState) (m : Memory.SharedMemory) :
    sync (newInterp (κ := κ) s) m = { s with mem := m } := rfl

theorem sync_mem (st : AState κ) (m m' : Memory.SharedMemory) : { sync st m with mem := m' } = sync st m' := rfl

theorem freeContextT_ok {m m' : Memory.SharedMemory} (h : Memory.freeContext m = .ok m') : freeContextT m = m' := by
  unfold freeContextT; rw [h]

theorem freeCtx_ok {m m' : Memory.SharedMemory} (h : Evm.freeCtx m = .ok m') : freeContextT m = m' := by
  unfold Evm.freeCtx at h
  cases hf : Memory.freeContext m with
  | ok m1 =>
    rw [hf] at h
    simp only [pure, Except.pure, Except.ok.injEq] at h
    rw [freeContextT_ok hf, h]
  | panic => rw [hf] at h; simp [throw, throwThe, MonadExceptOf.throw] at h
  | ub => rw [hf] at h; simp [throw, throwThe, MonadExceptOf.throw] at h

end Revm.Proofs.EvmInstWrap
