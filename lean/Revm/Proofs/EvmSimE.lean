import Revm.Proofs.EvmRR
import Revm.Proofs.EvmSim
/-! The generic simulation of the frame loop with errors (`RR`): completed runs are related and model-level errors are of
the same kind, for every program and every fuel. -/
set_option linter.unusedVariables false
namespace Revm.Proofs.EvmSim
open Revm Revm.Model Revm.Model.Evm Revm.Proofs.EvmRR

/-- results that carry a world: same value, related worlds -/
def ValRel {κ1 κ2 α : Type} (R : List κ1 → World → List κ2 → World → Prop) (ks1 : List κ1) (ks2 : List κ2) :
    α × World → α × World → Prop := fun p1 p2 => p1.1 = p2.1 ∧ R ks1 p1.2 ks2 p2.2

structure FrameSimE {κ1 κ2 : Type} (C1 : CpOps κ1) (C2 : CpOps κ2) (cfg : Cfg) where
  R : List κ1 → World → List κ2 → World → Prop
  host : ∀ ks1 w1 ks2 w2 op, R ks1 w1 ks2 w2 → RR (ValRel R ks1 ks2) (answer cfg.he w1 op) (answer cfg.he w2 op)
  callFrame : ∀ ks1 w1 ks2 w2 i mem, R ks1 w1 ks2 w2 →
    RR (ForRel R ks1 ks2) (makeCallFrame C1 cfg w1 i mem) (makeCallFrame C2 cfg w2 i mem)
  createFrame : ∀ ks1 w1 ks2 w2 i mem, R ks1 w1 ks2 w2 →
    RR (ForRel R ks1 ks2) (makeCreateFrame C1 cfg w1 i mem) (makeCreateFrame C2 cfg w2 i mem)
  callRet : ∀ k1 ks1 w1 k2 ks2 w2 r, R (k1 :: ks1) w1 (k2 :: ks2) w2 →
    RR (ValRel R ks1 ks2) (callReturn C1 w1 k1 r) (callReturn C2 w2 k2 r)
  createRet : ∀ k1 ks1 w1 k2 ks2 w2 a r, R (k1 :: ks1) w1 (k2 :: ks2) w2 →
    RR (ValRel R ks1 ks2) (createReturn C1 cfg w1 k1 a r) (createReturn C2 cfg w2 k2 a r)

variable {κ1 κ2 : Type} {C1 : CpOps κ1} {C2 : CpOps κ2} {cfg : Cfg}

def NextRelE (S : FrameSimE C1 C2 cfg) : Next κ1 → Next κ2 → Prop
  | .run st1 w1, .run st2 w2 => StackRel st1 st2 ∧ S.R (cps st1) w1 (cps st2) w2
  | .ended t1 r1 res1 o1 s1 w1, .ended t2 r2 res2 o2 s2 w2 =>
    FrameRel t1 t2 ∧ StackRel r1 r2 ∧ res1 = res2 ∧ o1 = o2 ∧ s1 = s2 ∧ S.R (cps (t1 :: r1)) w1 (cps (t2 :: r2)) w2
  | .done r1 w1, .done r2 w2 => r1 = r2 ∧ S.R [] w1 [] w2
  | _, _ => False

theorem deliver_rr (S : FrameSimE C1 C2 cfg) (kind : FrameKind) (o : Interp.ChildResult)
    (p1 : Frame κ1) (p2 : Frame κ2) (r1 : List (Frame κ1)) (r2 : List (Frame κ2)) (mem : Memory.SharedMemory)
    (w1 w2 : World) (hp : FrameRel p1 p2) (hr : StackRel r1 r2) (hR : S.R (cps (p1 :: r1)) w1 (cps (p2 :: r2)) w2) :
    RR (NextRelE S) (deliver kind o p1 r1 mem w1) (deliver kind o p2 r2 mem w2) := by
  unfold deliver
  rw [← hp.2]
  cases insertBy kind o { p1.interp with mem := mem } with
  | ok u s => exact RR.pure ⟨⟨⟨hp.1, rfl⟩, hr⟩, hR⟩
  | halt r out s => exact RR.pure ⟨hp, hr, rfl, rfl, rfl, hR⟩
  | fault f => exact RR.throw trivial

theorem frameReturn_rr (S : FrameSimE C1 C2 cfg) (t1 : Frame κ1) (t2 : Frame κ2) (ks1 : List κ1) (ks2 : List κ2)
    (w1 w2 : World) (res : Interp.ChildResult) (ht : FrameRel t1 t2)
    (hR : S.R (t1.checkpoint :: ks1) w1 (t2.checkpoint :: ks2) w2) :
    RR (ValRel S.R ks1 ks2) (frameReturn C1 cfg t1 w1 res) (frameReturn C2 cfg t2 w2 res) := by
  unfold frameReturn
  rw [← ht.1]
  cases t1.kind with
  | call rs re => exact S.callRet _ _ _ _ _ _ _ hR
  | create a => exact S.createRet _ _ _ _ _ _ _ _ hR

theorem frameEnd_rr (S : FrameSimE C1 C2 cfg) (t1 : Frame κ1) (t2 : Frame κ2) (r1 : List (Frame κ1))
    (r2 : List (Frame κ2)) (res : Interp.IResult) (out : List Nat) (s : Interp.IState) (w1 w2 : World)
    (ht : FrameRel t1 t2) (hr : StackRel r1 r2) (hR : S.R (cps (t1 :: r1)) w1 (cps (t2 :: r2)) w2) :
    RR (NextRelE S) (frameEnd C1 cfg t1 r1 res out s w1) (frameEnd C2 cfg t2 r2 res out s w2) := by
  unfold frameEnd
  refine RR.bind (RR.same (freeCtx s.mem)) ?_
  intro mem mem' hm
  subst hm
  refine RR.bind (frameReturn_rr S t1 t2 (cps r1) (cps r2) w1 w2 _ ht hR) ?_
  rintro ⟨res1, w1'⟩ ⟨res2, w2'⟩ ⟨hres, hR'⟩
  simp only at hres hR'
  subst hres
  cases r1 with
  | nil =>
    cases r2 with
    | nil => exact RR.pure ⟨rfl, hR'⟩
    | cons a b => exact absurd hr (by simp [StackRel])
  | cons p1 r1' =>
    cases r2 with
    | nil => exact absurd hr (by simp [StackRel])
    | cons p2 r2' =>
      simp only
      rw [← ht.1]
      exact deliver_rr S t1.kind res1 p1 p2 r1' r2' mem w1' w2' hr.1 hr.2 hR'

theorem makeFrame_rr (S : FrameSimE C1 C2 cfg) (ks1 : List κ1) (ks2 : List κ2) (w1 w2 : World) (a : Interp.Action)
    (mem : Memory.SharedMemory) (hR : S.R ks1 w1 ks2 w2) :
    RR (ForRel S.R ks1 ks2) (makeFrame C1 cfg w1 a mem) (makeFrame C2 cfg w2 a mem) := by
  unfold makeFrame
  cases a with
  | call i => exact S.callFrame _ _ _ _ _ _ hR
  | create i => exact S.createFrame _ _ _ _ _ _ hR
  | eofCreate i => exact RR.throw trivial

theorem frameAction_rr (S : FrameSimE C1 C2 cfg) (t1 : Frame κ1) (t2 : Frame κ2) (r1 : List (Frame κ1))
    (r2 : List (Frame κ2)) (a : Interp.Action) (s : Interp.IState) (w1 w2 : World)
    (ht : FrameRel t1 t2) (hr : StackRel r1 r2) (hR : S.R (cps (t1 :: r1)) w1 (cps (t2 :: r2)) w2) :
    RR (NextRelE S) (frameAction C1 cfg t1 r1 a s w1) (frameAction C2 cfg t2 r2 a s w2) := by
  unfold frameAction
  refine RR.bind (makeFrame_rr S _ _ w1 w2 a s.mem hR) ?_
  rintro ⟨fr1, w1'⟩ ⟨fr2, w2'⟩ hx
  cases fr1 with
  | frame f1 =>
    cases fr2 with
    | frame f2 =>
      exact RR.pure ⟨⟨hx.1, ⟨ht.1, rfl⟩, hr⟩, hx.2⟩
    | result r => exact absurd hx (by simp [ForRel])
  | result o1 =>
    cases fr2 with
    | frame f2 => exact absurd hx (by simp [ForRel])
    | result o2 =>
      simp only [ForRel] at hx
      obtain ⟨ho, hR'⟩ := hx
      subst ho
      exact deliver_rr S _ o1 { t1 with interp := s } { t2 with interp := s } r1 r2 s.mem w1' w2' ⟨ht.1, rfl⟩ hr hR'

theorem afterStep_rr (S : FrameSimE C1 C2 cfg) (t1 : Frame κ1) (t2 : Frame κ2) (r1 : List (Frame κ1))
    (r2 : List (Frame κ2)) (d : Interp.Done) (w1 w2 : World)
    (ht : FrameRel t1 t2) (hr : StackRel r1 r2) (hR : S.R (cps (t1 :: r1)) w1 (cps (t2 :: r2)) w2) :
    RR (NextRelE S) (afterStep C1 cfg t1 r1 d w1) (afterStep C2 cfg t2 r2 d w2) := by
  unfold afterStep
  cases d with
  | next s => exact RR.pure ⟨⟨⟨ht.1, rfl⟩, hr⟩, hR⟩
  | action a s => exact frameAction_rr S t1 t2 r1 r2 a s w1 w2 ht hr hR
  | halt r out s => exact frameEnd_rr S t1 t2 r1 r2 r out s w1 w2 ht hr hR
  | fault f => exact RR.throw trivial

theorem iterate_rr (S : FrameSimE C1 C2 cfg) (st1 : List (Frame κ1)) (st2 : List (Frame κ2)) (w1 w2 : World)
    (hs : StackRel st1 st2) (hR : S.R (cps st1) w1 (cps st2) w2) :
    RR (NextRelE S) (iterate C1 cfg st1 w1) (iterate C2 cfg st2 w2) := by
  unfold iterate
  cases st1 with
  | nil =>
    cases st2 with
    | nil => exact RR.throw trivial
    | cons a b => exact absurd hs (by simp [StackRel])
  | cons t1 r1 =>
    cases st2 with
    | nil => exact absurd hs (by simp [StackRel])
    | cons t2 r2 =>
      simp only
      rw [← hs.1.2]
      cases Interp.step t1.interp with
      | pure d => exact afterStep_rr S t1 t2 r1 r2 d w1 w2 hs.1 hs.2 hR
      | host op k =>
        simp only
        refine RR.bind (S.host _ _ _ _ op hR) ?_
        rintro ⟨resp1, w1'⟩ ⟨resp2, w2'⟩ ⟨hresp, hR'⟩
        simp only at hresp hR'
        subst hresp
        exact afterStep_rr S t1 t2 r1 r2 (k resp1) w1' w2' hs.1 hs.2 hR'

/-- the loop, for every fuel: related results, or errors of the same kind (fuel included) -/
theorem runLoop_rr_aux (S : FrameSimE C1 C2 cfg) : ∀ fuel : Nat,
    (∀ (st1 : List (Frame κ1)) (st2 : List (Frame κ2)) (w1 w2 : World), StackRel st1 st2 →
      S.R (cps st1) w1 (cps st2) w2 →
      RR (ValRel S.R [] []) (runLoop C1 cfg fuel st1 w1) (runLoop C2 cfg fuel st2 w2)) ∧
    (∀ (t1 : Frame κ1) (t2 : Frame κ2) (r1 : List (Frame κ1)) (r2 : List (Frame κ2)) (res : Interp.IResult)
      (out : List Nat) (s : Interp.IState) (w1 w2 : World), FrameRel t1 t2 → StackRel r1 r2 →
      S.R (cps (t1 :: r1)) w1 (cps (t2 :: r2)) w2 →
      RR (ValRel S.R [] []) (runEnded C1 cfg fuel t1 r1 res out s w1) (runEnded C2 cfg fuel t2 r2 res out s w2)) := by
  intro fuel
  induction fuel with
  | zero =>
    refine ⟨?_, ?_⟩
    · intro st1 st2 w1 w2 _ _; unfold runLoop; exact RR.throw trivial
    · intro t1 t2 r1 r2 res out s w1 w2 _ _ _; unfold runEnded; exact RR.throw trivial
  | succ n ih =>
    have next : ∀ (n1 : Next κ1) (n2 : Next κ2), NextRelE S n1 n2 →
        RR (ValRel S.R [] [])
          (match n1 with
            | .run stack' w' => runLoop C1 cfg n stack' w'
            | .ended top rest r out s w' => runEnded C1 cfg n top rest r out s w'
            | .done r w' => pure (r, w'))
          (match n2 with
            | .run stack' w' => runLoop C2 cfg n stack' w'
            | .ended top rest r out s w' => runEnded C2 cfg n top rest r out s w'
            | .done r w' => pure (r, w')) := by
      intro n1 n2 hn
      cases n1 with
      | run s1 wa =>
        cases n2 with
        | run s2 wb => exact ih.1 s1 s2 wa wb hn.1 hn.2
        | ended _ _ _ _ _ _ => exact hn.elim
        | done _ _ => exact hn.elim
      | ended t1 r1 res1 o1 s1 wa =>
        cases n2 with
        | run _ _ => exact hn.elim
        | ended t2 r2 res2 o2 s2 wb =>
          obtain ⟨a1, a2, a3, a4, a5, a6⟩ := hn
          subst a3; subst a4; subst a5
          exact ih.2 t1 t2 r1 r2 res1 o1 s1 wa wb a1 a2 a6
        | done _ _ => exact hn.elim
      | done r wa =>
        cases n2 with
        | run _ _ => exact hn.elim
        | ended _ _ _ _ _ _ => exact hn.elim
        | done r2 wb => exact RR.pure ⟨hn.1, hn.2⟩
    refine ⟨?_, ?_⟩
    · intro st1 st2 w1 w2 hs hR
      unfold runLoop
      exact RR.bind (iterate_rr S st1 st2 w1 w2 hs hR) next
    · intro t1 t2 r1 r2 res out s w1 w2 ht hr hR
      unfold runEnded
      exact RR.bind (frameEnd_rr S t1 t2 r1 r2 res out s w1 w2 ht hr hR) next

theorem runLoop_rr (S : FrameSimE C1 C2 cfg) (fuel : Nat) (st1 : List (Frame κ1)) (st2 : List (Frame κ2))
    (w1 w2 : World) (hs : StackRel st1 st2) (hR : S.R (cps st1) w1 (cps st2) w2) :
    RR (ValRel S.R [] []) (runLoop C1 cfg fuel st1 w1) (runLoop C2 cfg fuel st2 w2) :=
  (runLoop_rr_aux S fuel).1 st1 st2 w1 w2 hs hR

theorem runFirst_rr (S : FrameSimE C1 C2 cfg) (fuel : Nat) (x1 : FrameOrResult κ1 × World)
    (x2 : FrameOrResult κ2 × World) (hx : ForRel S.R [] [] x1 x2) :
    RR (ValRel S.R [] []) (runFirst C1 cfg fuel x1.1 x1.2) (runFirst C2 cfg fuel x2.1 x2.2) := by
  obtain ⟨f1, w1⟩ := x1
  obtain ⟨f2, w2⟩ := x2
  unfold runFirst
  cases f1 with
  | frame a =>
    cases f2 with
    | frame b => exact runLoop_rr S fuel [a] [b] w1 w2 ⟨hx.1, trivial⟩ hx.2
    | result r => exact absurd hx (by simp [ForRel])
  | result r1 =>
    cases f2 with
    | frame b => exact absurd hx (by simp [ForRel])
    | result r2 => exact RR.pure ⟨hx.1, hx.2⟩

end Revm.Proofs.EvmSim
