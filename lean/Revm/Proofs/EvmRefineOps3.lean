import Revm.Proofs.EvmRefineOps2
/-! Congruence of the forward journal operations with respect to `JRel` (part 3: transfer, selfdestruct, delegated load). -/
set_option linter.unusedSimpArgs false
set_option linter.unusedVariables false
namespace Revm.Proofs.EvmRefine
open Revm Revm.Model Revm.Model.Journal Revm.Spec.JournalAbs Revm.Proofs.Journal

theorem arel_bal {db : Db} {a : Addr} {x y : Acct} (h : ARel db a x y) (b : Nat) :
    ARel db a { x with info := { x.info with balance := b } } { y with info := { y.info with balance := b } } := by
  obtain ⟨e1, e2, e3, e4, e5, e6, e7, e8, e9⟩ := h
  exact ⟨rfl, e2, e3, e4, e5, e6, e7, e8, e9⟩

/-- a balance update of related present accounts -/
theorem JRel.setBal {db : Db} {j s : JState} (h : JRel db j s) {a : Addr} {x y : Acct} (hx : j.state a = some x)
    (hy : s.state a = some y) (b : Nat) :
    JRel db (Journal.setAcct j a { x with info := { x.info with balance := b } })
      (Journal.setAcct s a { y with info := { y.info with balance := b } }) ∧
    Dom s (Journal.setAcct s a { y with info := { y.info with balance := b } }) [] := by
  have ar : ARel db a x y := by have := h.ent a; rw [hx, hy] at this; exact this
  exact ⟨h.setAcct a _ _ (arel_bal ar b) (h.cj a x hx) (h.cs a y hy), Dom.upd hy⟩

/-- `transfer` -/
theorem transfer_rel {db : Db} {j s j' : JState} {src dst : Addr} {v : Nat} {r : Option TransferErr} (h : JRel db j s)
    (hdb : ∀ b i, db.basic b = some i → ∀ hh, i.code = some hh → hh = i.codeHash)
    (hl : transfer db j src dst v = some (j', r)) :
    ∃ s', transfer db s src dst v = some (s', r) ∧ JRel db j' s' ∧ Dom s s' [src, dst] := by
  simp only [transfer, bind, Option.bind] at hl ⊢
  cases h1 : loadAccount db j src with
  | none => rw [h1] at hl; simp at hl
  | some p1 =>
    obtain ⟨j1, c1⟩ := p1
    rw [h1] at hl
    obtain ⟨s1, hs1, r1, d1⟩ := loadAccount_rel' h hdb h1
    rw [hs1]
    simp only at hl ⊢
    cases h2 : loadAccount db j1 dst with
    | none => rw [h2] at hl; simp at hl
    | some p2 =>
      obtain ⟨j2, c2⟩ := p2
      rw [h2] at hl
      obtain ⟨s2, hs2, r2, d2⟩ := loadAccount_rel' r1 hdb h2
      rw [hs2]
      simp only at hl ⊢
      have d12 : Dom s s2 [src, dst] := (d1.trans d2).perm (by simp)
      cases hx : j2.state src with
      | none => rw [hx] at hl; simp at hl
      | some x =>
        rw [hx] at hl
        obtain ⟨y, hy, ar⟩ := r2.get hx
        rw [hy]
        simp only at hl ⊢
        cases ht : touchAccount j2 src x with
        | none => rw [ht] at hl; simp at hl
        | some p3 =>
          obtain ⟨j3, x3⟩ := p3
          rw [ht] at hl
          obtain ⟨s3, y3, hts, r3, hx3, hy3, ar3, d3⟩ := touchAccount_rel r2 hx hy ht
          rw [hts]
          simp only at hl ⊢
          have eb : x3.info.balance = y3.info.balance := ar3.1
          rw [← eb]
          by_cases hf : x3.info.balance < v
          · rw [if_pos hf] at hl ⊢
            simp only [Option.some.injEq, Prod.mk.injEq] at hl
            obtain ⟨hl1, hl2⟩ := hl
            subst hl1; subst hl2
            exact ⟨s3, rfl, r3, (d12.trans d3).perm (by simp)⟩
          · rw [if_neg hf] at hl ⊢
            obtain ⟨r4, d4⟩ := r3.setBal hx3 hy3 (x3.info.balance - v)
            cases hx5 : (setAcct j3 src { x3 with info := { x3.info with balance := x3.info.balance - v } }).state dst with
            | none => rw [hx5] at hl; simp at hl
            | some x5 =>
              rw [hx5] at hl
              obtain ⟨y5, hy5, ar5⟩ := r4.get hx5
              rw [hy5]
              simp only at hl ⊢
              cases ht5 : touchAccount (setAcct j3 src { x3 with info := { x3.info with balance := x3.info.balance - v } }) dst x5 with
              | none => rw [ht5] at hl; simp at hl
              | some p6 =>
                obtain ⟨j6, x6⟩ := p6
                rw [ht5] at hl
                obtain ⟨s6, y6, hts6, r6, hx6, hy6, ar6, d6⟩ := touchAccount_rel r4 hx5 hy5 ht5
                rw [hts6]
                simp only at hl ⊢
                have eb6 : x6.info.balance = y6.info.balance := ar6.1
                rw [← eb6]
                have d06 : Dom s s6 [src, dst] := (((d12.trans d3).trans d4).trans d6).perm (by simp)
                by_cases ho : x6.info.balance + v ≥ W
                · rw [if_pos ho] at hl ⊢
                  cases hx7 : j6.state src with
                  | none => rw [hx7] at hl; simp at hl
                  | some x7 =>
                    rw [hx7] at hl
                    obtain ⟨y7, hy7, ar7⟩ := r6.get hx7
                    rw [hy7]
                    simp only [Option.some.injEq, Prod.mk.injEq] at hl ⊢
                    obtain ⟨hl1, hl2⟩ := hl
                    subst hl1; subst hl2
                    have eb7 : x7.info.balance = y7.info.balance := ar7.1
                    rw [← eb7]
                    obtain ⟨r8, d8⟩ := r6.setBal hx7 hy7 (U256.wadd x7.info.balance v)
                    exact ⟨_, ⟨rfl, rfl⟩, r8, (d06.trans d8).perm (by simp)⟩
                · rw [if_neg ho] at hl ⊢
                  obtain ⟨r8, d8⟩ := r6.setBal hx6 hy6 (x6.info.balance + v)
                  cases hp : pushEntry (setAcct j6 dst { x6 with info := { x6.info with balance := x6.info.balance + v } })
                      (.balanceTransfer src dst v) with
                  | none => rw [hp] at hl; simp at hl
                  | some j9 =>
                    rw [hp] at hl
                    simp only [Option.some.injEq, Prod.mk.injEq] at hl
                    obtain ⟨hl1, hl2⟩ := hl
                    subst hl1; subst hl2
                    obtain ⟨s9, hps, hs9⟩ := pushEntry_ne
                      (s := setAcct s6 dst { y6 with info := { y6.info with balance := x6.info.balance + v } })
                      (e := .balanceTransfer src dst v) r8.sne
                    rw [hps]
                    exact ⟨s9, rfl, r8.of_same (pushEntry_some hp) hs9, ((d06.trans d8).trans (Dom.push hps)).perm (by simp)⟩

theorem arel_isEmpty {db : Db} {a : Addr} {x y : Acct} (h : ARel db a x y) (spec : Nat) :
    x.stateClearAwareIsEmpty spec = y.stateClearAwareIsEmpty spec := by
  obtain ⟨e1, e2, e3, e4, e5, e6, e7, e8, e9⟩ := h
  simp only [Acct.stateClearAwareIsEmpty, Info.isEmpty, e1, e2, e3, e6, e7]

/-- the credit of the beneficiary in `selfdestruct` -/
def sdCredit (s : JState) (a target : Addr) : Option JState :=
  if a ≠ target then do
    let acc ← s.state a
    let t ← s.state target
    let (s, t) ← touchAccount s target t
    some (setAcct s target { t with info := { t.info with balance := U256.wadd t.info.balance acc.info.balance } })
  else some s

/-- the debit / destruction mark of the destructed account -/
def sdFinal (s : JState) (a target : Addr) (acc : Acct) : Option JState :=
  if acc.created ∨ !(decide (s.spec ≥ CANCUN)) then do
    let s := setAcct s a { acc with selfdestructed := true, info := { acc.info with balance := 0 } }
    pushEntry s (.accountDestroyed a target acc.selfdestructed acc.info.balance)
  else if a ≠ target then do
    let s := setAcct s a { acc with info := { acc.info with balance := 0 } }
    pushEntry s (.balanceTransfer a target acc.info.balance)
  else some s

theorem selfdestruct_eq (db : Db) (s : JState) (a target : Addr) :
    selfdestruct db s a target = (do
      let (s1, isCold) ← loadAccount db s target
      let tacc ← s1.state target
      let s2 ← sdCredit s1 a target
      let acc ← s2.state a
      let s3 ← sdFinal s2 a target acc
      some (s3, decide (acc.info.balance ≠ 0), !(tacc.stateClearAwareIsEmpty s1.spec), acc.selfdestructed, isCold)) := rfl

theorem sdCredit_rel {db : Db} {j s j' : JState} {a target : Addr} (h : JRel db j s)
    (hl : sdCredit j a target = some j') :
    ∃ s', sdCredit s a target = some s' ∧ JRel db j' s' ∧ Dom s s' [] := by
  unfold sdCredit at hl ⊢
  by_cases hat : a ≠ target
  · rw [if_pos hat] at hl ⊢
    simp only [bind, Option.bind] at hl ⊢
    cases hx : j.state a with
    | none => rw [hx] at hl; simp at hl
    | some x =>
      rw [hx] at hl
      obtain ⟨y, hy, ar⟩ := h.get hx
      rw [hy]
      simp only at hl ⊢
      cases hxt : j.state target with
      | none => rw [hxt] at hl; simp at hl
      | some xt =>
        rw [hxt] at hl
        obtain ⟨yt, hyt, art⟩ := h.get hxt
        rw [hyt]
        simp only at hl ⊢
        cases ht : touchAccount j target xt with
        | none => rw [ht] at hl; simp at hl
        | some p =>
          obtain ⟨j1, x1⟩ := p
          rw [ht] at hl
          obtain ⟨s1, y1, hts, r1, hx1, hy1, ar1, d1⟩ := touchAccount_rel h hxt hyt ht
          rw [hts]
          simp only [Option.some.injEq] at hl ⊢
          subst hl
          have eb : x.info.balance = y.info.balance := ar.1
          have eb1 : x1.info.balance = y1.info.balance := ar1.1
          rw [← eb, ← eb1]
          obtain ⟨r2, d2⟩ := r1.setBal hx1 hy1 (U256.wadd x1.info.balance x.info.balance)
          exact ⟨_, rfl, r2, (d1.trans d2).perm (by simp)⟩
  · rw [if_neg hat] at hl ⊢
    simp only [Option.some.injEq] at hl
    subst hl
    exact ⟨s, rfl, h, Dom.refl s⟩

theorem sdFinal_rel {db : Db} {j s j' : JState} {a target : Addr} {x y : Acct} (h : JRel db j s)
    (hx : j.state a = some x) (hy : s.state a = some y) (hl : sdFinal j a target x = some j') :
    ∃ s', sdFinal s a target y = some s' ∧ JRel db j' s' ∧ Dom s s' [] := by
  have ar : ARel db a x y := by have := h.ent a; rw [hx, hy] at this; exact this
  obtain ⟨e1, e2, e3, e4, e5, e6, e7, e8, e9⟩ := ar
  unfold sdFinal at hl ⊢
  have hcond : (x.created = true ∨ (!decide (j.spec ≥ CANCUN)) = true) ↔
      (y.created = true ∨ (!decide (s.spec ≥ CANCUN)) = true) := by rw [h.spec, e4]
  by_cases hc : x.created = true ∨ (!decide (j.spec ≥ CANCUN)) = true
  · rw [if_pos hc] at hl
    rw [if_pos (hcond.1 hc)]
    simp only [bind, Option.bind] at hl ⊢
    have ar' : ARel db a { x with selfdestructed := true, info := { x.info with balance := 0 } }
        { y with selfdestructed := true, info := { y.info with balance := 0 } } :=
      ⟨rfl, e2, e3, e4, rfl, e6, e7, e8, e9⟩
    have r3 := h.setAcct a _ _ ar' (h.cj a x hx) (h.cs a y hy)
    obtain ⟨s3, hps, hs3⟩ := pushEntry_ne
      (s := setAcct s a { y with selfdestructed := true, info := { y.info with balance := 0 } })
      (e := .accountDestroyed a target y.selfdestructed y.info.balance) r3.sne
    exact ⟨s3, hps, r3.of_same (pushEntry_some hl) hs3, ((Dom.upd hy).trans (Dom.push hps)).perm (by simp)⟩
  · rw [if_neg hc] at hl
    rw [if_neg (fun hh => hc (hcond.2 hh))]
    by_cases hat : a ≠ target
    · rw [if_pos hat] at hl ⊢
      simp only [bind, Option.bind] at hl ⊢
      obtain ⟨r3, d3⟩ := h.setBal hx hy 0
      obtain ⟨s3, hps, hs3⟩ := pushEntry_ne
        (s := setAcct s a { y with info := { y.info with balance := 0 } })
        (e := .balanceTransfer a target y.info.balance) r3.sne
      exact ⟨s3, hps, r3.of_same (pushEntry_some hl) hs3, (d3.trans (Dom.push hps)).perm (by simp)⟩
    · rw [if_neg hat] at hl ⊢
      simp only [Option.some.injEq] at hl
      subst hl
      exact ⟨s, rfl, h, Dom.refl s⟩

/-- `selfdestruct` -/
theorem selfdestruct_rel {db : Db} {j s j' : JState} {a target : Addr} {r : Bool × Bool × Bool × Bool} (h : JRel db j s)
    (hdb : ∀ b i, db.basic b = some i → ∀ hh, i.code = some hh → hh = i.codeHash)
    (hl : selfdestruct db j a target = some (j', r)) :
    ∃ s', selfdestruct db s a target = some (s', r) ∧ JRel db j' s' ∧ Dom s s' [target] := by
  rw [selfdestruct_eq] at hl ⊢
  simp only [bind, Option.bind] at hl ⊢
  cases h1 : loadAccount db j target with
  | none => rw [h1] at hl; simp at hl
  | some p1 =>
    obtain ⟨j1, c1⟩ := p1
    rw [h1] at hl
    obtain ⟨s1, hs1, r1, d1⟩ := loadAccount_rel' h hdb h1
    rw [hs1]
    simp only at hl ⊢
    cases hxt : j1.state target with
    | none => rw [hxt] at hl; simp at hl
    | some xt =>
      rw [hxt] at hl
      obtain ⟨yt, hyt, art⟩ := r1.get hxt
      rw [hyt]
      simp only at hl ⊢
      cases h2 : sdCredit j1 a target with
      | none => rw [h2] at hl; simp at hl
      | some j2 =>
        obtain ⟨s2, hs2, r2, d2⟩ := sdCredit_rel r1 h2
        rw [h2] at hl
        rw [hs2]
        simp only at hl ⊢
        cases hx : j2.state a with
        | none => rw [hx] at hl; simp at hl
        | some x =>
          rw [hx] at hl
          obtain ⟨y, hy, ar⟩ := r2.get hx
          rw [hy]
          simp only at hl ⊢
          cases h3 : sdFinal j2 a target x with
          | none => rw [h3] at hl; simp at hl
          | some j3 =>
            obtain ⟨s3, hs3, r3, d3⟩ := sdFinal_rel r2 hx hy h3
            rw [h3] at hl
            rw [hs3]
            simp only [Option.some.injEq, Prod.mk.injEq] at hl ⊢
            obtain ⟨hl1, hl2⟩ := hl
            subst hl1; subst hl2
            obtain ⟨e1, e2, e3, e4, e5, e6, e7, e8, e9⟩ := ar
            refine ⟨s3, ⟨rfl, ?_⟩, r3, ((d1.trans d2).trans d3).perm (by simp)⟩
            rw [← e1, ← e5, ← r1.spec, ← arel_isEmpty art j1.spec]

/-- the loads read the database through `basic` only -/
theorem loadAccount_congr {db db' : Db} (hb : db'.basic = db.basic) (s : JState) (a : Addr) :
    loadAccount db' s a = loadAccount db s a := by
  unfold loadAccount; rw [hb]

theorem loadCode_congr {db db' : Db} (hb : db'.basic = db.basic) (s : JState) (a : Addr) :
    loadCode db' s a = loadCode db s a := by
  unfold loadCode; rw [loadAccount_congr hb]

/-- after `load_code` the code cache of the account is filled -/
theorem loadCode_cached {db : Db} {s s' : JState} {a : Addr} {c : Bool} (h : loadCode db s a = some (s', c)) :
    ∃ acc hh, s'.state a = some acc ∧ acc.info.code = some hh := by
  simp only [loadCode, bind, Option.bind] at h
  cases h1 : loadAccount db s a with
  | none => rw [h1] at h; simp at h
  | some p =>
    obtain ⟨s1, c1⟩ := p
    rw [h1] at h
    simp only at h
    cases hx : s1.state a with
    | none => rw [hx] at h; simp at h
    | some x =>
      rw [hx] at h
      simp only at h
      by_cases hc : x.info.code.isNone = true
      · rw [if_pos hc] at h
        simp only [Option.some.injEq, Prod.mk.injEq] at h
        rw [← h.1]
        exact ⟨{ x with info := { x.info with code := some x.info.codeHash } }, x.info.codeHash, by simp [setAcct], rfl⟩
      · rw [if_neg hc] at h
        simp only [Option.some.injEq, Prod.mk.injEq] at h
        rw [← h.1]
        cases hcc : x.info.code with
        | none => rw [hcc] at hc; simp at hc
        | some hh => exact ⟨x, hh, hx, hcc⟩

/-- the addresses `load_account_delegated` loads: the account and, when its code designates one, the delegate -/
def dlgList (dbw : Db) (j' : JState) (a : Addr) : List Addr :=
  a :: match (j'.state a).bind (fun acc => acc.info.code.bind dbw.delegate) with
    | some d => [d]
    | none => []

/-- `load_account_delegated`, run against a database `dbw` that agrees with `db` on `basic` (the delegation lookup of
the world reads the code store, which is the same on both sides) -/
theorem loadAccountDelegated_rel {db dbw : Db} {j s j' : JState} {a : Addr} {r : Bool × Bool × Option Bool}
    (hb : dbw.basic = db.basic) (h : JRel db j s)
    (hdb : ∀ b i, db.basic b = some i → ∀ hh, i.code = some hh → hh = i.codeHash)
    (hl : loadAccountDelegated dbw j a = some (j', r)) :
    ∃ s', loadAccountDelegated dbw s a = some (s', r) ∧ JRel db j' s' ∧
      Dom s s' (dlgList dbw j' a) := by
  simp only [loadAccountDelegated, bind, Option.bind] at hl ⊢
  cases h1 : loadCode dbw j a with
  | none => rw [h1] at hl; simp at hl
  | some p1 =>
    obtain ⟨j1, c1⟩ := p1
    rw [h1] at hl
    have h1' : loadCode db j a = some (j1, c1) := by rw [← loadCode_congr hb]; exact h1
    obtain ⟨s1, hs1, r1, d1⟩ := loadCode_rel h hdb h1'
    have hs1' : loadCode dbw s a = some (s1, c1) := by rw [loadCode_congr hb]; exact hs1
    rw [hs1']
    simp only at hl ⊢
    obtain ⟨x, hh, hx, hcx⟩ := loadCode_cached h1
    obtain ⟨y, hh', hy, hcy⟩ := loadCode_cached hs1'
    rw [hx] at hl
    rw [hy]
    simp only at hl ⊢
    have ar : ARel db a x y := by have := r1.ent a; rw [hx, hy] at this; exact this
    have e3 : x.info.codeHash = y.info.codeHash := ar.2.2.1
    have hhx : hh = x.info.codeHash := r1.cj a x hx hh hcx
    have hhy : hh' = y.info.codeHash := r1.cs a y hy hh' hcy
    have hcode : y.info.code = x.info.code := by rw [hcx, hcy, hhx, hhy, e3]
    rw [hcode, ← r1.spec, ← arel_isEmpty ar j1.spec]
    cases hd : Option.bind x.info.code dbw.delegate with
    | none =>
      simp only [bind, Option.bind] at hd
      rw [hd] at hl ⊢
      simp only [Option.some.injEq, Prod.mk.injEq] at hl ⊢
      obtain ⟨hl1, hl2⟩ := hl
      subst hl1; subst hl2
      refine ⟨s1, ⟨rfl, rfl⟩, r1, ?_⟩
      unfold dlgList
      rw [hx]
      simp only [Option.bind_some]
      simp only [bind, Option.bind, hd]
      exact d1
    | some d =>
      simp only [bind, Option.bind] at hd
      rw [hd] at hl ⊢
      simp only at hl ⊢
      cases h2 : loadAccount dbw j1 d with
      | none => rw [h2] at hl; simp at hl
      | some p2 =>
        obtain ⟨j2, c2⟩ := p2
        rw [h2] at hl
        have h2' : loadAccount db j1 d = some (j2, c2) := by rw [← loadAccount_congr hb]; exact h2
        obtain ⟨s2, hs2, r2, d2⟩ := loadAccount_rel' r1 hdb h2'
        have hs2' : loadAccount dbw s1 d = some (s2, c2) := by rw [loadAccount_congr hb]; exact hs2
        rw [hs2']
        simp only [Option.some.injEq, Prod.mk.injEq] at hl ⊢
        obtain ⟨hl1, hl2⟩ := hl
        subst hl1; subst hl2
        refine ⟨s2, ⟨rfl, rfl⟩, r2, ?_⟩
        -- the entry of `a` after the load of the delegate still designates `d`
        have hcode2 : (j2.state a).bind (fun acc => acc.info.code.bind dbw.delegate) = some d := by
          unfold loadAccount at h2
          by_cases hda : d = a
          · subst hda
            rw [hx] at h2
            simp only at h2
            by_cases hcold : x.cold = true
            · rw [if_pos hcold] at h2
              cases hp : pushEntry (setAcct j1 d { x with cold := false }) (.accountWarmed d) with
              | none => rw [hp] at h2; simp at h2
              | some j3 =>
                rw [hp] at h2
                simp only [Option.map_some, Option.some.injEq, Prod.mk.injEq] at h2
                rw [← h2.1, (pushEntry_some hp).1]
                simp only [setAcct, if_true, Option.bind_some]
                simpa [bind, Option.bind] using hd
            · rw [if_neg hcold] at h2
              simp only [Option.some.injEq, Prod.mk.injEq] at h2
              rw [← h2.1]
              simp only [setAcct, if_true, Option.bind_some]
              simpa [bind, Option.bind] using hd
          · have hsame : j2.state a = j1.state a := by
              have hne : ¬ a = d := fun e => hda e.symm
              cases hjd : j1.state d with
              | some z =>
                rw [hjd] at h2
                simp only at h2
                by_cases hcold : z.cold = true
                · rw [if_pos hcold] at h2
                  cases hp : pushEntry (setAcct j1 d { z with cold := false }) (.accountWarmed d) with
                  | none => rw [hp] at h2; simp at h2
                  | some j3 =>
                    rw [hp] at h2
                    simp only [Option.map_some, Option.some.injEq, Prod.mk.injEq] at h2
                    rw [← h2.1, (pushEntry_some hp).1]
                    simp [setAcct, hne]
                · rw [if_neg hcold] at h2
                  simp only [Option.some.injEq, Prod.mk.injEq] at h2
                  rw [← h2.1]
                  simp [setAcct, hne]
              | none =>
                rw [hjd] at h2
                change (if (!j1.preloaded d) = true then
                    (pushEntry (setAcct j1 d (dbAcct dbw d)) (.accountWarmed d)).map (·, true)
                  else some (setAcct j1 d (dbAcct dbw d), false)) = some (j2, c2) at h2
                by_cases hcold : (!j1.preloaded d) = true
                · rw [if_pos hcold] at h2
                  cases hp : pushEntry (setAcct j1 d (dbAcct dbw d)) (.accountWarmed d) with
                  | none => rw [hp] at h2; simp at h2
                  | some j3 =>
                    rw [hp] at h2
                    simp only [Option.map_some, Option.some.injEq, Prod.mk.injEq] at h2
                    rw [← h2.1, (pushEntry_some hp).1]
                    simp [setAcct, hne]
                · rw [if_neg hcold] at h2
                  simp only [Option.some.injEq, Prod.mk.injEq] at h2
                  rw [← h2.1]
                  simp [setAcct, hne]
            rw [hsame, hx]
            simp only [Option.bind_some]
            simpa [bind, Option.bind] using hd
        unfold dlgList
        rw [hcode2]
        exact (d1.trans d2).perm (by simp)

end Revm.Proofs.EvmRefine
