import Revm.Proofs.EvmInstTgt5
/-! Frame condition, part 6: EXTCALL / EXTDELEGATECALL / EXTSTATICCALL, `Interp.step`, and the re-entry of a child result:
**one step of any frame, and handing a child's result back to it, keep `target`, `caller` and `spec`; a call action
without value transfer targets the frame's own `target`.** -/
set_option linter.unusedSimpArgs false
set_option linter.unusedVariables false
namespace Revm.Proofs.EvmInstTgt
open Revm Revm.Model Revm.Model.Interp

attribute [local irreducible] gasCharge getS check requireNonStatic requireEof requireInitEof requireSome assumeNotEof
  gasOrFail refund advancePc setEof popN popTop setTop push stackCall stackCallAdv asUsizeOrFail resizeMem memSlice
  memSliceRange memGetU256 memSetU256 memSetByte memSetData memCopy codeSlice codeByte jumpRel getEof loadEofCode
  haltWith haltOut faultWith modifyS liftMemWrite pop1 pop2 pop3 pop4 popAddress popTop1 popTop2 popTop3 readU16 readI16
  resizeMemRange getMemoryInputAndOutRanges popExtcallTarget extcallInput

section
variable {s0 s : IState}

macro_rules | `(tactic| tgt_prim) => `(tactic| first
  | exact keepT_resizeMemRange ‹_› _ _
  | exact keepT_getMemoryInputAndOutRanges ‹_› | exact keepT_popExtcallTarget ‹_› | exact keepT_extcallInput ‹_›
  | exact keepT_liftMemWrite ‹_› _)

theorem keepT_extcallGasCalc (h : KeptT s0 s) (r : HostResp) (tv : Bool) : KeepT s0 T (extcallGasCalc r tv s) := by
  unfold extcallGasCalc
  refine keepT_bind (by tgt_prim) (fun _ _ _ _ => ?_)
  refine keepT_bind (by tgt_prim) (fun _ _ _ _ => ?_)
  refine keepT_bind (keepT_getS ‹_›) (fun x s3 h3 _ => ?_)
  (try dsimp only)
  by_cases hc : U64ops.saturatingSub x.gas.remaining (max (x.gas.remaining / 64) 5000) < GasCalc.MIN_CALLEE_GAS
  · rw [if_pos hc]; tgt_auto
  · rw [if_neg hc]; tgt_auto

theorem ext_post (h : KeptT s0 s) (r : HostResp) (tv : Bool) (mk : Nat → IState → CallInputs)
    (hmk : ∀ g x, (mk g x).valueTransfer = false → (mk g x).targetAddress = x.target) :
    KeepT s0 (ActTOpt s0) ((do
      let g ← extcallGasCalc r tv
      match g with
      | none => pure none
      | some gasLimit => do
        let s ← getS
        pure (some (Action.call (mk gasLimit s))) : M (Option Action)) s) := by
  refine keepT_bind (keepT_extcallGasCalc h r tv) (fun g s1 h1 _ => ?_)
  cases g with
  | none => exact keepT_pure h1 (fun x hx => nomatch hx)
  | some gl =>
    (try dsimp only)
    refine keepT_bind (keepT_getS h1) (fun y s2 h2 hy => ?_)
    obtain ⟨rfl, rfl⟩ := hy
    refine keepT_pure h2 (fun x hx i hi hv => ?_)
    cases hx; cases hi
    exact (hmk gl s2 hv).trans h2.tgt

theorem extcallI_target (s : IState) : TOutcome s (extcallI s) := by
  unfold extcallI
  have h := KeptT.refl s
  refine hostCallOptAction_target ?_ (fun b r s' h => ?_)
  · tgt_auto
  · obtain ⟨target, input, value⟩ := b
    exact ext_post h r _ (fun gl x =>
      { input := input, retStart := 0, retEnd := 0, gasLimit := gl, bytecodeAddress := target,
        targetAddress := target, caller := x.target, valueTransfer := true, value := value,
        scheme := .extCall, isStatic := x.isStatic, isEof := true }) (fun _ _ hv => nomatch hv)

theorem extdelegatecallI_target (s : IState) : TOutcome s (extdelegatecallI s) := by
  unfold extdelegatecallI
  have h := KeptT.refl s
  refine hostCallOptAction_target ?_ (fun b r s' h => ?_)
  · tgt_auto
  · obtain ⟨target, input⟩ := b
    exact ext_post h r _ (fun gl x =>
      { input := input, retStart := 0, retEnd := 0, gasLimit := gl, bytecodeAddress := target,
        targetAddress := x.target, caller := x.caller, valueTransfer := false, value := x.callValue,
        scheme := .extDelegateCall, isStatic := x.isStatic, isEof := true }) (fun _ _ _ => rfl)

theorem extstaticcallI_target (s : IState) : TOutcome s (extstaticcallI s) := by
  unfold extstaticcallI
  have h := KeptT.refl s
  refine hostCallOptAction_target ?_ (fun b r s' h => ?_)
  · tgt_auto
  · obtain ⟨target, input⟩ := b
    exact ext_post h r _ (fun gl x =>
      { input := input, retStart := 0, retEnd := 0, gasLimit := gl, bytecodeAddress := target,
        targetAddress := target, caller := x.target, valueTransfer := true, value := 0,
        scheme := .extStaticCall, isStatic := true, isEof := true }) (fun _ _ hv => nomatch hv)

/-- a weaker base: everything `KeptT` after `s1` is `KeptT` after `s0` -/
theorem TDone.rebase {s0 s1 : IState} (h : KeptT s0 s1) {d : Done} (hd : TDone s1 d) : TDone s0 d := by
  cases hd with
  | next h' => exact .next (h.trans h')
  | halt h' => exact .halt (h.trans h')
  | fault => exact .fault
  | action h' hq => exact .action (h.trans h') (fun i hi hv => (hq i hi hv).trans h.tgt)

theorem execInstr_target (i : Instr) (s : IState) : TOutcome s (execInstr i s) := by
  unfold execInstr
  cases hp : execPure i with
  | some m => exact .pure (toDone_target (keepT_execPure i m hp (KeptT.refl s)))
  | none =>
    simp only
    cases i <;> first
      | exact keccak256I_target s | exact balanceI_target s | exact selfbalanceI_target s | exact extcodesizeI_target s
      | exact extcodehashI_target s | exact extcodecopyI_target s | exact blockhashI_target s | exact sloadI_target s
      | exact sstoreI_target s | exact tloadI_target s | exact tstoreI_target s | exact logI_target _ s
      | exact selfdestructI_target s | exact createI_target _ s | exact callI_target s | exact callcodeI_target s
      | exact delegatecallI_target s | exact staticcallI_target s | exact eofcreateI_target s | exact extcallI_target s
      | exact extdelegatecallI_target s | exact extstaticcallI_target s
      | exact .pure .fault

/-- **one interpreter step of any frame, in any state**: `target`, `caller` and `spec` are kept (in the next state, the
halting state and the state that waits for a child), and a call action without value transfer (DELEGATECALL,
EXTDELEGATECALL — directly or after the host's answer) has the frame's own `target` as its target address -/
theorem step_target (s : IState) : TOutcome s (step s) := by
  unfold step
  cases s.code[s.pc]? with
  | none => exact .pure .fault
  | some op =>
    (try dsimp only)
    have hk : KeptT s { s with pc := s.pc + 1 } := ⟨rfl, rfl, rfl⟩
    have := execInstr_target (decode op) { s with pc := s.pc + 1 }
    generalize execInstr (decode op) { s with pc := s.pc + 1 } = o at this
    cases this with
    | pure hd => exact .pure (hd.rebase hk)
    | host hk' => exact .host (fun r => (hk' r).rebase hk)

/-! ## re-entry of a child result -/

/-- `insert_call_outcome` keeps `target`, `caller`, `spec` -/
theorem insertCall_target (rs re : Nat) (o : ChildResult) (s0 : IState) :
    KeepT s0 T (insertCallOutcome rs re o s0) := by
  have h := KeptT.refl s0
  unfold insertCallOutcome; tgt_auto

/-- `insert_create_outcome`: the same -/
theorem insertCreate_target (o : ChildResult) (s0 : IState) : KeepT s0 T (insertCreateOutcome o s0) := by
  have h := KeptT.refl s0
  unfold insertCreateOutcome; tgt_auto

/-- `insert_eofcreate_outcome`: the same -/
theorem insertEofCreate_target (o : ChildResult) (s0 : IState) : KeepT s0 T (insertEofCreateOutcome o s0) := by
  have h := KeptT.refl s0
  unfold insertEofCreateOutcome
  refine keepT_bind (by tgt_prim) (fun _ s1 h1 _ => ?_)
  split
  · cases o.address with
    | none => exact keepT_faultWith _
    | some a => (try dsimp only); tgt_auto
  · tgt_auto

end
end Revm.Proofs.EvmInstTgt
