import Revm.Proofs.EvmRefineE5
/-! The transaction-level functions on the two machines, errors included. -/
set_option linter.unusedSimpArgs false
set_option linter.unusedVariables false
namespace Revm.Proofs.EvmRefine
open Revm Revm.Model Revm.Model.Journal Revm.Spec.JournalAbs Revm.Proofs.Journal Revm.Proofs.Frame
open Revm.Model.Evm
open Revm.Spec.Evm (Snap snapshotOps journalOpsStrict)
open Revm.Proofs.EvmRR Revm.Proofs.EvmSim

variable {w1 w2 : World}

theorem pre_rr (e : Evm.Env) (spec : Nat) (h : R0 w1 w2) :
    RR (PreRel R0) (preverify w1 e spec) (preverify w2 e spec) := by
  unfold preverify
  refine RR.bind (RR.same (validateEnv e spec)) ?_
  intro b b' hb
  subst hb
  by_cases hb : (!b) = true
  · simp only [hb, if_true]; exact RR.pure trivial
  · simp only [hb, Bool.false_eq_true, if_false]
    refine RR.bind (RR.same _) ?_
    rintro ⟨ig, fg⟩ ⟨ig', fg'⟩ hg
    simp only [Prod.mk.injEq] at hg
    obtain ⟨h1, h2⟩ := hg
    subst h1; subst h2
    simp only
    by_cases c1 : ig > e.tx.gasLimit
    · simp only [c1, if_true]; exact RR.pure trivial
    · simp only [c1, if_false]
      by_cases c2 : GasCalc.enabled spec GasCalc.SpecId.PRAGUE = true ∧ fg > e.tx.gasLimit
      · rw [if_pos c2, if_pos c2]; exact RR.pure trivial
      · rw [if_neg c2, if_neg c2]
        refine RR.bind (RR.withEq (wLoadCode_rr h.1 e.tx.caller)) ?_
        rintro ⟨wa, c⟩ ⟨wb, c'⟩ ⟨⟨hc, hr⟩, h1, h2⟩
        simp only at hc hr
        subst hc
        refine RR.bind (acct_rr hr _) ?_
        intro x y hxy
        rw [fetch_info _ h1 h2 hr hxy]
        refine RR.bind (RR.same _) ?_
        intro hh hh' ehh
        subst ehh
        rw [hr.codeOf hh]
        refine RR.bind (RR.same _) ?_
        intro code code' ec
        subst ec
        by_cases hva : (!validateAgainstState e spec code x.info) = true
        · simp only [hva, if_true]; exact RR.pure trivial
        · simp only [hva, Bool.false_eq_true, if_false]
          exact RR.pure ⟨rfl, rfl, hr, wLoadCode_sameSt h h1 h2⟩

theorem deduct_rr (e : Evm.Env) (spec : Nat) (h : CfgRel [] w1 [] w2) :
    RR (fun a b => CfgRel [] a [] b) (deductCaller e spec w1) (deductCaller e spec w2) := by
  unfold deductCaller
  refine RR.bind (wLoadAccount_rr h _) ?_
  rintro ⟨wa, c⟩ ⟨wb, c'⟩ ⟨_, hr⟩
  simp only at hr
  refine RR.bind (acct_rr hr _) ?_
  rintro x y ⟨ar, hxs, hys⟩
  refine RR.bind (RR.same _) ?_
  intro gasCost gasCost' hg
  subst hg
  obtain ⟨e1, e2, e3, e4, e5, e6, e7, e8, e9⟩ := ar
  have hbx : x.info.balance < W := hr.good.bal _ x hxs
  refine RR.pure ?_
  by_cases hto : e.tx.to.isSome = true
  · simp only [hto, if_true]
    refine hr.nil_upd hxs hys ⟨by simp [e1], by simp [e2], e3, e4, e5, rfl, e7, e8, e9⟩ rfl ?_
      (hr.w.rel.cj _ x hxs) (hr.w.rel.cs _ y hys)
    show U256.saturatingSub x.info.balance gasCost < W
    unfold U256.saturatingSub; omega
  · simp only [hto, Bool.false_eq_true, if_false]
    refine hr.nil_upd hxs hys ⟨by simp [e1], e2, e3, e4, e5, rfl, e7, e8, e9⟩ rfl ?_
      (hr.w.rel.cj _ x hxs) (hr.w.rel.cs _ y hys)
    show U256.saturatingSub x.info.balance gasCost < W
    unfold U256.saturatingSub; omega

/-- an unjournaled balance / touched rewrite of a loaded account at transaction level -/
theorem updBT_rel {wa wb : World} (hr : CfgRel [] wa [] wb) {a : Addr} {x y : Acct} (hxy : AcctRel wa wb a x y)
    (f : Nat → Nat) (g : Bool → Bool) (hf : ∀ b, f b < W) :
    CfgRel [] { wa with js := Journal.setAcct wa.js a (updBT x (f x.info.balance) g) } []
      { wb with js := Journal.setAcct wb.js a (updBT y (f y.info.balance) g) } := by
  obtain ⟨ar, hxs, hys⟩ := hxy
  obtain ⟨e1, e2, e3, e4, e5, e6, e7, e8, e9⟩ := ar
  exact hr.nil_upd hxs hys ⟨by simp [updBT, e1], e2, e3, e4, e5, by simp [updBT, e6], e7, e8, e9⟩ rfl (hf _)
    (hr.w.rel.cj _ x hxs) (hr.w.rel.cs _ y hys)

theorem fin_rr (e : Evm.Env) (spec fg rf : Nat) (ic : Bool) (res : Interp.ChildResult) (h : CfgRel [] w1 [] w2) :
    RR (ValRel CfgRel [] []) (finish e spec fg rf ic res w1) (finish e spec fg rf ic res w2) := by
  unfold finish
  simp only
  refine RR.bind (wLoadAccount_rr h _) ?_
  rintro ⟨wa, c⟩ ⟨wb, c'⟩ ⟨_, hr⟩
  simp only at hr
  refine RR.bind (acct_rr hr _) ?_
  intro x y hxy
  have hn := updBT_rel hr hxy
    (fun b => U256.saturatingAdd b (U256.wmul e.effectiveGasPrice
      (U64ops.wadd (finalGas e spec fg rf res).remaining (Gas.i64AsU64 (finalGas e spec fg rf res).refunded))))
    id (fun b => satAdd_lt _ _)
  refine RR.bind (wLoadAccount_rr hn _) ?_
  rintro ⟨wc, c3⟩ ⟨wd, c3'⟩ ⟨_, hr3⟩
  simp only at hr3
  refine RR.bind (acct_rr hr3 _) ?_
  intro x3 y3 hxy3
  have hn3 := updBT_rel hr3 hxy3
    (fun b => U256.saturatingAdd b (U256.wmul
      (if GasCalc.enabled spec GasCalc.SpecId.LONDON = true then U256.saturatingSub e.effectiveGasPrice e.block.basefee
        else e.effectiveGasPrice)
      (U64ops.wsub (Gas.spent (finalGas e spec fg rf res)) (Gas.i64AsU64 (finalGas e spec fg rf res).refunded))))
    (fun _ => true) (fun b => satAdd_lt _ _)
  refine RR.bind (RR.same _) ?_
  intro cls cls' hc
  subst hc
  refine RR.pure ⟨?_, hn3⟩
  show txResultOf cls res ic _ (List.filterMap (fun i => wc.logs[i]?) wc.js.logs) =
    txResultOf cls res ic _ (List.filterMap (fun i => wd.logs[i]?) wd.js.logs)
  rw [hr3.w.logs, hr3.w.rel.logs]

theorem applyAuth_rr (e : Evm.Env) (a : Auth) (h : CfgRel [] w1 [] w2) :
    RR (WV [] []) (applyAuth e w1 a) (applyAuth e w2 a) := by
  refine RR.of (fun p hp => ?_) (fun err hE => ?_)
  · obtain ⟨w1', r⟩ := p
    obtain ⟨w2', h2, hr⟩ := applyAuth_rel e a h hp
    exact ⟨(w2', r), h2, rfl, hr⟩
  · -- the only steps of `applyAuth` that can stop: the load of the authority and its code
    have key : RR (fun (_ : Unit) (_ : Unit) => True)
        (applyAuth e w1 a >>= fun _ => pure ()) (applyAuth e w2 a >>= fun _ => pure ()) := by
      unfold applyAuth
      have triv : ∀ (x1 x2 : World × Bool), RR (fun (_ : Unit) (_ : Unit) => True)
          ((pure x1 : R (World × Bool)) >>= fun _ => pure ()) ((pure x2 : R (World × Bool)) >>= fun _ => pure ()) :=
        fun _ _ => RR.okok trivial
      by_cases c1 : a.chainId ≠ 0 ∧ a.chainId ≠ e.cfg.chainId
      · rw [if_pos c1, if_pos c1]; exact triv _ _
      · rw [if_neg c1, if_neg c1]
        by_cases c2 : a.nonce = U64 - 1
        · rw [if_pos c2, if_pos c2]; exact triv _ _
        · rw [if_neg c2, if_neg c2]
          cases hau : a.authority with
          | none => exact triv _ _
          | some authority =>
            simp only [bind_assoc]
            refine RR.bind (RR.withEq (wLoadCode_rr h authority)) ?_
            rintro ⟨wa, c⟩ ⟨wb, c'⟩ ⟨⟨hc, hr⟩, h1, h2⟩
            simp only at hc hr
            subst hc
            refine RR.bind (acct_rr hr _) ?_
            intro x y hxy
            rw [fetch_info _ h1 h2 hr hxy]
            refine RR.bind (RR.same _) ?_
            intro hh hh' ehh
            subst ehh
            rw [hr.codeOf hh]
            refine RR.bind (RR.same _) ?_
            intro code code' ec
            subst ec
            -- from here on nothing can stop
            by_cases c3 : (!code.isEmpty) = true ∧ (delegateOf code).isNone = true
            · rw [if_pos c3, if_pos c3]; exact triv _ _
            · rw [if_neg c3, if_neg c3]
              by_cases c4 : a.nonce ≠ x.info.nonce
              · rw [if_pos c4, if_pos c4]; exact triv _ _
              · rw [if_neg c4, if_neg c4]; exact triv _ _
    have hE' : (applyAuth e w1 a >>= fun _ => (pure () : R Unit)) = .error err := by rw [hE]; rfl
    rcases key.err hE' with h' | ⟨e', he', hk⟩
    · exact .inl h'
    · right
      cases hx : applyAuth e w2 a with
      | ok v => rw [hx] at he'; cases he'
      | error e2 => rw [hx] at he'; simp only [bind, Except.bind, Except.error.injEq] at he'; subst he'; exact ⟨_, rfl, hk⟩

theorem forIn_auth_rr (e : Evm.Env) (l : List Auth) : ∀ (w1 w2 : World) (n : Nat), CfgRel [] w1 [] w2 →
    RR (fun p1 p2 => p1.2 = p2.2 ∧ CfgRel [] p1.1 [] p2.1) (forIn l (w1, n) (authBody e)) (forIn l (w2, n) (authBody e)) := by
  induction l with
  | nil => intro w1 w2 n h; simp only [List.forIn_nil]; exact RR.pure ⟨rfl, h⟩
  | cons a l ih =>
    intro w1 w2 n h
    simp only [List.forIn_cons]
    have step : RR (fun s1 s2 => ∃ wa wb m, s1 = ForInStep.yield (wa, m) ∧ s2 = ForInStep.yield (wb, m) ∧ CfgRel [] wa [] wb)
        (authBody e a (w1, n)) (authBody e a (w2, n)) := by
      unfold authBody
      refine RR.bind (applyAuth_rr e a h) ?_
      rintro ⟨wa, r⟩ ⟨wb, r'⟩ ⟨hr, hrel⟩
      simp only at hr hrel
      subst hr
      by_cases hrr : r = true
      · simp only [hrr, if_true]; exact RR.pure ⟨wa, wb, _, rfl, rfl, hrel⟩
      · simp only [hrr, if_false]; exact RR.pure ⟨wa, wb, _, rfl, rfl, hrel⟩
    refine RR.bind step ?_
    rintro s1 s2 ⟨wa, wb, m, h1, h2, hrel⟩
    subst h1; subst h2
    exact ih wa wb m hrel

theorem auth_rr (e : Evm.Env) (spec : Nat) (h : CfgRel [] w1 [] w2) :
    RR (fun p1 p2 => p1.2 = p2.2 ∧ CfgRel [] p1.1 [] p2.1) (applyAuthList e spec w1) (applyAuthList e spec w2) := by
  unfold applyAuthList
  by_cases c1 : (!GasCalc.enabled spec GasCalc.SpecId.PRAGUE) = true
  · rw [if_pos c1, if_pos c1]; exact RR.pure ⟨rfl, h⟩
  · rw [if_neg c1, if_neg c1]
    cases hal : e.tx.authList with
    | none => exact RR.pure ⟨rfl, h⟩
    | some l =>
      show RR _ (do
        let s ← forIn l (w1, 0) (authBody e)
        pure (s.1, U64ops.wmul s.2 (PER_EMPTY_ACCOUNT_COST - PER_AUTH_BASE_COST)) : R (World × Nat)) (do
        let s ← forIn l (w2, 0) (authBody e)
        pure (s.1, U64ops.wmul s.2 (PER_EMPTY_ACCOUNT_COST - PER_AUTH_BASE_COST)) : R (World × Nat))
      refine RR.bind (forIn_auth_rr e l w1 w2 0 h) ?_
      rintro ⟨wa, na⟩ ⟨wb, nb⟩ ⟨hn, hr⟩
      simp only at hn hr
      subst hn
      exact RR.pure ⟨rfl, hr⟩

end Revm.Proofs.EvmRefine
