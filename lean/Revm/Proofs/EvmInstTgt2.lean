import Revm.Proofs.EvmInstTgt1
/-! Frame condition (`target` / `caller` / `spec`), part 2: the stack / memory / code primitives and the derived helpers. -/
set_option linter.unusedSimpArgs false
set_option linter.unusedVariables false
namespace Revm.Proofs.EvmInstTgt
open Revm Revm.Model Revm.Model.Interp

section prims
variable {s0 s : IState}

theorem keepT_gasOrFail (h : KeptT s0 s) (c : Option Nat) : KeepT s0 T (gasOrFail c s) := by
  unfold gasOrFail
  cases c with
  | some x => exact keepT_gasCharge h x
  | none => exact .halt h

theorem keepT_refund (h : KeptT s0 s) (r : Int) : KeepT s0 T (refund r s) :=
  keepT_modifyS h _ ⟨rfl, rfl, rfl⟩

theorem keepT_advancePc (h : KeptT s0 s) (n : Nat) : KeepT s0 T (advancePc n s) :=
  keepT_modifyS h _ ⟨rfl, rfl, rfl⟩

theorem keepT_setEof (h : KeptT s0 s) (f : EofCtx → EofCtx) : KeepT s0 T (setEof f s) :=
  keepT_modifyS h _ ⟨rfl, rfl, rfl⟩

theorem keepT_popN (h : KeptT s0 s) (k : Nat) : KeepT s0 T (popN k s) := by
  unfold popN
  generalize Stack.popMacro s.stack k = p
  obtain ⟨d, r⟩ := p
  cases r with
  | ok vs => exact .ok (h.trans ⟨rfl, rfl, rfl⟩) trivial
  | err e => exact .halt h
  | _ => exact .fault

theorem keepT_popTop (h : KeptT s0 s) (k : Nat) : KeepT s0 T (popTop k s) := by
  unfold popTop
  split
  · exact .halt h
  · generalize Stack.popNUnsafe (k - 1) s.stack = p
    obtain ⟨d, r⟩ := p
    cases r with
    | ok vs =>
      dsimp only
      generalize Stack.peek d 0 = q
      obtain ⟨d2, r2⟩ := q
      cases r2 with
      | ok t => exact .ok (h.trans ⟨rfl, rfl, rfl⟩) trivial
      | _ => exact .fault
    | _ => exact .fault

theorem keepT_setTop (h : KeptT s0 s) (v : Nat) : KeepT s0 T (setTop v s) := by
  unfold setTop
  generalize Stack.set s.stack 0 v = p
  obtain ⟨d, r⟩ := p
  cases r with
  | ok x => exact .ok (h.trans ⟨rfl, rfl, rfl⟩) trivial
  | _ => exact .fault

theorem keepT_push (h : KeptT s0 s) (v : Nat) : KeepT s0 T (push v s) := by
  unfold push
  generalize Stack.push s.stack v = p
  obtain ⟨d, r⟩ := p
  cases r with
  | ok x => exact .ok (h.trans ⟨rfl, rfl, rfl⟩) trivial
  | err e => exact .halt h
  | _ => exact .fault

theorem keepT_stackCall (h : KeptT s0 s) (f : List Nat → List Nat × Stack.Res Unit) : KeepT s0 T (stackCall f s) := by
  unfold stackCall
  generalize f s.stack = p
  obtain ⟨d, r⟩ := p
  cases r with
  | ok x => exact .ok (h.trans ⟨rfl, rfl, rfl⟩) trivial
  | err e => exact .halt h
  | _ => exact .fault

theorem keepT_stackCallAdv (h : KeptT s0 s) (f : List Nat → List Nat × Stack.Res Unit) (n : Nat) :
    KeepT s0 T (stackCallAdv f n s) := by
  unfold stackCallAdv
  generalize f s.stack = p
  obtain ⟨d, r⟩ := p
  cases r with
  | ok x => exact .ok (h.trans ⟨rfl, rfl, rfl⟩) trivial
  | err e => exact .halt (h.trans ⟨rfl, rfl, rfl⟩)
  | _ => exact .fault

theorem keepT_asUsizeOrFail (h : KeptT s0 s) (v : Nat) (r : IResult) : KeepT s0 T (asUsizeOrFail v r s) := by
  unfold asUsizeOrFail
  cases Jump.asUsizeOrFail v with
  | some x => exact keepT_pure h trivial
  | none => exact .halt h

theorem keepT_memRes {α β} (r : Memory.Res α) (k : α → Exec β) {Q : β → IState → Prop}
    (hk : ∀ a, r = .ok a → KeepT s0 Q (k a)) : KeepT s0 Q (memRes r k) := by
  cases r with
  | ok a => exact hk a rfl
  | panic => exact .fault
  | ub => exact .fault

theorem keepT_resizeMem (h : KeptT s0 s) (o l : Nat) : KeepT s0 T (resizeMem o l s) := by
  unfold resizeMem
  refine keepT_memRes _ _ fun r hr => ?_
  obtain ⟨b, m', r'⟩ := r
  cases b with
  | true => exact .ok (h.trans ⟨rfl, rfl, rfl⟩) trivial
  | false => exact .halt h

theorem keepT_liftMemWrite (h : KeptT s0 s) (f : Memory.SharedMemory → Memory.Res Memory.SharedMemory) :
    KeepT s0 T (liftMemWrite f s) := by
  unfold liftMemWrite
  exact keepT_memRes _ _ fun m _ => .ok (h.trans ⟨rfl, rfl, rfl⟩) trivial

theorem keepT_memSlice (h : KeptT s0 s) (o l : Nat) : KeepT s0 T (memSlice o l s) := by
  unfold memSlice
  exact keepT_memRes _ _ fun a _ => .ok h trivial

theorem keepT_memSliceRange (h : KeptT s0 s) (a c : Nat) : KeepT s0 T (memSliceRange a c s) := by
  unfold memSliceRange
  exact keepT_memRes _ _ fun x _ => .ok h trivial

theorem keepT_memGetU256 (h : KeptT s0 s) (o : Nat) : KeepT s0 T (memGetU256 o s) := by
  unfold memGetU256
  exact keepT_memRes _ _ fun x _ => .ok h trivial

theorem keepT_memSetU256 (h : KeptT s0 s) (o v : Nat) : KeepT s0 T (memSetU256 o v s) := keepT_liftMemWrite h _
theorem keepT_memSetByte (h : KeptT s0 s) (o v : Nat) : KeepT s0 T (memSetByte o v s) := keepT_liftMemWrite h _
theorem keepT_memSetData (h : KeptT s0 s) (a b c : Nat) (d : List Nat) : KeepT s0 T (memSetData a b c d s) :=
  keepT_liftMemWrite h _
theorem keepT_memCopy (h : KeptT s0 s) (a b c : Nat) : KeepT s0 T (memCopy a b c s) := keepT_liftMemWrite h _

theorem keepT_codeSlice (h : KeptT s0 s) (n : Nat) : KeepT s0 T (codeSlice n s) := by
  unfold codeSlice; split
  · exact .ok h trivial
  · exact .fault

theorem keepT_codeByte (h : KeptT s0 s) (off : Nat) : KeepT s0 T (codeByte off s) := by
  unfold codeByte
  cases s.code[s.pc + off]? with
  | some b => exact .ok h trivial
  | none => exact .fault

theorem keepT_jumpRel (h : KeptT s0 s) (d : Int) : KeepT s0 T (jumpRel d s) := by
  unfold jumpRel
  dsimp only
  split
  · exact .fault
  · exact .ok (h.trans ⟨rfl, rfl, rfl⟩) trivial

theorem keepT_getEof (h : KeptT s0 s) : KeepT s0 T (getEof s) := by
  unfold getEof
  cases s.eof with
  | some c => exact .ok h trivial
  | none => exact .fault

theorem keepT_loadEofCode (h : KeptT s0 s) (idx pc : Nat) : KeepT s0 T (loadEofCode idx pc s) := by
  unfold loadEofCode
  cases s.eof with
  | none => exact .fault
  | some c =>
    dsimp only
    cases c.sections[idx]? with
    | none => exact .fault
    | some code => exact .ok (h.trans ⟨rfl, rfl, rfl⟩) trivial

end prims
end Revm.Proofs.EvmInstTgt
