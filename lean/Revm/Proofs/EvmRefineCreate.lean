import Revm.Proofs.EvmRefineCall
import Revm.Proofs.EvmRefineCreateOp
import Revm.Spec.EvmStrict
/-! The `createFrame` obligation of the simulation: `make_create_frame` of the (strict) journal machine vs the snapshot
machine. The admissibility conditions of C06 for `create_account_checkpoint` are discharged here: the caller is funded
(`make_create_frame` checks it), the `has_storage` answer is faithful (`dbHasStorage = true`); that the target is not
already created is what the strict discipline checks. -/
set_option linter.unusedSimpArgs false
set_option linter.unusedVariables false
namespace Revm.Proofs.EvmRefine
open Revm Revm.Model Revm.Model.Journal Revm.Spec.JournalAbs Revm.Proofs.Journal Revm.Proofs.Frame
open Revm.Model.Evm
open Revm.Spec.Evm (Snap snapshotOps journalOpsStrict)
open Revm.Proofs.EvmSim (ForRel FrameRel)

variable {ks1 : List Checkpoint} {ks2 : List Snap} {w1 w2 : World}

theorem incNonce_dom_some {s s' : JState} {a : Addr} {r} (h : incNonce s a = some (s', r)) : (s.state a).isSome := by
  simp only [incNonce, bind, Option.bind] at h
  cases hs : s.state a with
  | none => rw [hs] at h; simp at h
  | some x => rfl

/-- `inc_nonce` at the world level -/
theorem wIncNonce_rel (h : CfgRel ks1 w1 ks2 w2) {a : Addr} {j' : JState} {r : Option Nat}
    (hl : Journal.incNonce w1.js a = some (j', r)) :
    ∃ s', Journal.incNonce w2.js a = some (s', r) ∧ CfgRel ks1 { w1 with js := j' } ks2 { w2 with js := s' } := by
  obtain ⟨s', hs', hrel, hdom⟩ := incNonce_rel h.w.rel hl
  exact ⟨s', hs', h.step (Upd.js w1 j') (Upd.js w2 s') hrel (incNonce_fwd h.w.dbBal h.good hl) hdom (fun b => rfl)⟩

theorem isPrecompile_ne3 {spec a : Nat} (h : isPrecompile spec a = false) : a ≠ PRECOMPILE3 := by
  intro e
  subst e
  simp [isPrecompile, PRECOMPILE3] at h

theorem hasStorage_eq (w : World) (hd : w.dbHasStorage = true) (a : Addr) : w.hasStorage a = hsPre w.pre a := by
  unfold World.hasStorage hsPre World.preAcct
  rw [hd]; simp only [Bool.true_and]
  cases List.find? (fun p => p.addr == a) w.pre <;> rfl

/-- a creation frame opens with `create_account_checkpoint` -/
theorem Chain.open_create {db : Db} {hs : Addr → Bool} {r : Run} {ks : List (Checkpoint × JState)} {j' : JState}
    {cp : Checkpoint} {caller a : Addr} {hsa : Bool} {bal spec : Nat} (h : Chain db hs r ks) (snap : JState)
    (hrel : JRel db r.js snap) (hadm : admissible db hs 0 r (.create caller a hsa bal spec) = true)
    (hc : createAccountCheckpoint r.js caller a hsa bal spec = some (j', .ok cp)) :
    Chain db hs ⟨j', r.cps ++ [cp]⟩ ((cp, snap) :: ks) :=
  .cons r ⟨j', r.cps ++ [cp]⟩ _ (.create caller a hsa bal spec) [] cp snap ks h hadm (by simp [step, hc]) rfl rfl rfl hrel

/-- the result of `createCheckpoint` on the two machines -/
def CpRes (ks1 : List Checkpoint) (w1' : World) (ks2 : List Snap) (w2' : World) :
    Except CreateErr Checkpoint → Except CreateErr Snap → Prop
  | .ok cp, .ok snap => CfgRel (cp :: ks1) w1' (snap :: ks2) w2'
  | .error e, .error e' => e = e' ∧ CfgRel ks1 w1' ks2 w2'
  | _, _ => False

theorem strict_create {w : World} {caller a : Addr} {hs : Bool} {v spec : Nat} {x}
    (hl : journalOpsStrict.createCheckpoint w caller a hs v spec = .ok x) :
    (∀ acc, w.js.state a = some acc →
      acc.created = false ∨ (acc.info.codeHash ≠ Journal.KECCAK_EMPTY ∨ acc.info.nonce ≠ 0 ∨ hs = true)) ∧
    journalOps.createCheckpoint w caller a hs v spec = .ok x := by
  change (match w.js.state a with
    | some acc =>
      if acc.created ∧ ¬ (acc.info.codeHash ≠ Journal.KECCAK_EMPTY ∨ acc.info.nonce ≠ 0 ∨ hs = true) then
        Except.error (Err.panic _)
      else journalOps.createCheckpoint w caller a hs v spec
    | none => journalOps.createCheckpoint w caller a hs v spec) = .ok x at hl
  cases hs' : w.js.state a with
  | none => rw [hs'] at hl; exact ⟨fun _ h => (nomatch h), hl⟩
  | some acc =>
    rw [hs'] at hl
    simp only at hl
    by_cases hc : acc.created = true ∧ ¬ (acc.info.codeHash ≠ Journal.KECCAK_EMPTY ∨ acc.info.nonce ≠ 0 ∨ hs = true)
    · rw [if_pos hc] at hl; cases hl
    · rw [if_neg hc] at hl
      refine ⟨fun acc' h => ?_, hl⟩
      cases h
      by_cases hcc : acc.created = true
      · right
        exact Classical.byContradiction fun hn => hc ⟨hcc, hn⟩
      · left
        cases hb : acc.created
        · rfl
        · exact absurd hb hcc

/-- `create_account_checkpoint` of the (strict) journal machine vs the snapshot machine -/
theorem createCheckpoint_rel (h : CfgRel ks1 w1 ks2 w2) {caller a : Addr} {v spec : Nat}
    (h3 : a ≠ PRECOMPILE3) (hfund : ∀ acc, w1.js.state caller = some acc → v ≤ acc.info.balance)
    {w1' : World} {r : Except CreateErr Checkpoint}
    (hl : journalOpsStrict.createCheckpoint w1 caller a (w1.hasStorage a) v spec = .ok (w1', r)) :
    ∃ w2' r', snapshotOps.createCheckpoint w2 caller a (w2.hasStorage a) v spec = .ok (w2', r') ∧
      CpRes ks1 w1' ks2 w2' r r' := by
  obtain ⟨hcr, hl⟩ := strict_create hl
  have hhs1 : w1.hasStorage a = hsPre w1.pre a := hasStorage_eq w1 h.w.hs1 a
  have hhs2 : w2.hasStorage a = hsPre w1.pre a := by rw [hasStorage_eq w2 h.w.hs2 a, h.w.pre]
  rw [hhs1] at hl hcr
  rw [hhs2]
  change (do
    let (js, r) ← ofOpt "create_account_checkpoint" (Journal.createAccountCheckpoint w1.js caller a (hsPre w1.pre a) v spec)
    pure ({ w1 with js := js }, r) : R _) = .ok (w1', r) at hl
  simp only [bind, Except.bind] at hl
  cases ho : ofOpt "create_account_checkpoint" (Journal.createAccountCheckpoint w1.js caller a (hsPre w1.pre a) v spec) with
  | error e => rw [ho] at hl; simp at hl
  | ok p =>
    obtain ⟨j', r0⟩ := p
    rw [ho] at hl
    simp only [pure, Except.pure, Except.ok.injEq, Prod.mk.injEq] at hl
    obtain ⟨hl1, hl2⟩ := hl
    subst hl1; subst hl2
    have hj := ofOpt_ok ho
    have hdb := dbOk_pre w1.pre
    have hbal := h.w.dbBal
    have g := h.good
    have hz : hsPre w1.pre a = false → ∀ k, (dbPre w1.pre).storage a k = 0 := fun hh => hdb a hh
    obtain ⟨s', r', hs', hres⟩ := create_rel h.w.rel hcr hz h3 hj
    show ∃ w2' r', (do
      let saved := w2.js
      let (js, r) ← ofOpt "create_account_checkpoint" (Journal.createAccountCheckpoint w2.js caller a (hsPre w1.pre a) v spec)
      match r with
      | .ok _ => pure ({ w2 with js := js }, Except.ok (⟨saved⟩ : Snap))
      | .error e => pure ({ w2 with js := saved }, Except.error e) : R _) = .ok (w2', r') ∧ _
    simp only [bind, Except.bind, hs', ofOpt_some]
    -- a collision leaves the journal state as it was: no history step, no admissibility condition
    by_cases hcoll : ∃ x, w1.js.state a = some x ∧
        (x.info.codeHash ≠ Journal.KECCAK_EMPTY ∨ x.info.nonce ≠ 0 ∨ hsPre w1.pre a = true)
    · obtain ⟨x, hx, hc⟩ := hcoll
      obtain ⟨hr0, hjj⟩ := create_collision hx hc hj
      subst hr0
      cases r' with
      | ok _ => exact hres.elim
      | error e' =>
        obtain ⟨he, hrel⟩ := hres
        subst he
        refine ⟨_, _, rfl, rfl, ?_⟩
        rw [hjj] at hrel ⊢
        exact h.step (Upd.js w1 w1.js) (Upd.js w2 w2.js) hrel (Fwd.refl _ _ g) (Dom.refl _) (fun b => rfl)
    have hcr : ∀ x, w1.js.state a = some x → x.created = false := fun x hx =>
      (hcr x hx).resolve_right (fun hc => hcoll ⟨x, hx, hc⟩)
    have hadm : ∀ base cps, admissible (dbPre w1.pre) (hsPre w1.pre) base ⟨w1.js, cps⟩
        (.create caller a (hsPre w1.pre a) v spec) = true := by
      intro base cps
      simp only [admissible, Bool.and_eq_true]
      refine ⟨⟨?_, ?_⟩, ?_⟩
      · cases hx : w1.js.state a with
        | none => rfl
        | some x => simp [hcr x hx]
      · cases hsPre w1.pre a <;> rfl
      · cases hx : w1.js.state caller with
        | none => rfl
        | some x => simpa using hfund x hx
    have hpush := create_pushes (hasStorage := hsPre w1.pre) hdb (balOk_of hbal g.bal) hcr
      (by cases hh : hsPre w1.pre a; exact .inr rfl; exact .inl rfl) hfund hj
    have hdep := createAccountCheckpoint_depth hj
    cases r0 with
    | error e =>
      cases r' with
      | ok _ => exact hres.elim
      | error e' =>
        obtain ⟨he, hrel⟩ := hres
        subst he
        simp only at hpush hdep
        refine ⟨_, _, rfl, rfl, ?_⟩
        have hf : Fwd (dbPre w1.pre) (hsPre w1.pre) w1.js j' :=
          Fwd.of_pushes hbal g (.create caller a (hsPre w1.pre a) v spec) (fun cps => by simp [step, hj])
            (fun base cps => hadm base cps) hpush hdep
        exact h.step (Upd.js w1 j') (Upd.js w2 w2.js) hrel hf (Dom.refl _) (fun b => rfl)
    | ok cp =>
      cases r' with
      | error _ => exact hres.elim
      | ok cp' =>
        obtain ⟨hcp, hrel, hdom⟩ := hres
        simp only at hpush hdep
        obtain ⟨_, es, pp, _⟩ := hpush
        refine ⟨_, _, rfl, ?_⟩
        show CfgRel (cp :: ks1) { w1 with js := j' } (⟨w2.js⟩ :: ks2) { w2 with js := s' }
        obtain ⟨hw, hlen, ⟨cps, hch⟩, hsn⟩ := h
        refine ⟨⟨hrel, hw.pre, hw.codes, hw.logs, hw.pc, hw.hs1, hw.hs2, ?_, hw.bal⟩, by simpa using hlen,
          ⟨cps ++ [cp], ?_⟩, ?_⟩
        · intro b; show w2.addrs.contains b = (s'.state b).isSome
          rw [hdom b, hw.pres b]; simp
        · exact Chain.open_create (r := ⟨w1.js, cps⟩) hch w2.js hw.rel (hadm 0 cps) hj
        · show SnapsOk s' (w2.js :: ks2.map (·.js))
          have hsdep := createAccountCheckpoint_depth hs'
          simp only at hsdep
          refine ⟨hsdep, ?_, ?_, ?_, hsn⟩
          · rw [← hrel.spec, pp.spec]; exact hw.rel.spec.symm
          · rw [← hrel.pre, pp.pre]; exact hw.rel.pre.symm
          · intro b hb; rw [hdom b, hb]; rfl

/-- `make_create_frame` from the address derivation on -/
def createTail {κ : Type} (C : CpOps κ) (cfg : Cfg) (w : World) (i : Interp.CreateInputs) (mem : Memory.SharedMemory)
    (created : Nat) : R (FrameOrResult κ × World) := do
  if isPrecompile cfg.spec created then return (.result (earlyResult .CreateCollision i.gasLimit), w)
  let (w, _) ← w.loadAccount created
  let hasStorage := w.hasStorage created
  let (w, r) ← C.createCheckpoint w i.caller created hasStorage i.value cfg.spec
  match r with
  | .error .collision => pure (.result (earlyResult .CreateCollision i.gasLimit), w)
  | .error .overflowPayment => pure (.result (earlyResult .OverflowPayment i.gasLimit), w)
  | .ok cp =>
    let interp := Interp.IState.init i.initCode [] i.gasLimit false cfg.spec created i.caller i.value cfg.env
      (Memory.newContext mem)
    pure (.frame { kind := .create created, checkpoint := cp, interp := interp }, w)

theorem makeCreateFrame_eq {κ : Type} (C : CpOps κ) (cfg : Cfg) (w : World) (i : Interp.CreateInputs)
    (mem : Memory.SharedMemory) :
    makeCreateFrame C cfg w i mem = (do
      if w.js.depth > CALL_STACK_LIMIT then return (.result (earlyResult .CallTooDeep i.gasLimit), w)
      let (w, _) ← w.loadAccount i.caller
      let cacc ← w.acct i.caller
      if cacc.info.balance < i.value then return (.result (earlyResult .OutOfFunds i.gasLimit), w)
      let (js, newNonce?) ← ofOpt "inc_nonce" (Journal.incNonce w.js i.caller)
      let w := { w with js := js }
      let some newNonce := newNonce? | return (.result (earlyResult .Return i.gasLimit), w)
      createTail C cfg w i mem (match i.salt with
        | none => Keccak.createAddress i.caller (newNonce - 1)
        | some salt => Keccak.create2Address i.caller salt (Keccak.keccak256w i.initCode))) := rfl

theorem createTail_rel (cfg : Cfg) (i : Interp.CreateInputs) (mem : Memory.SharedMemory) (created : Nat)
    (h : CfgRel ks1 w1 ks2 w2) {acc0 : Acct} (hc : w1.js.state i.caller = some acc0) (hv : i.value ≤ acc0.info.balance)
    {x1 : FrameOrResult Checkpoint × World}
    (hl : createTail journalOpsStrict cfg w1 i mem created = .ok x1) :
    ∃ x2, createTail snapshotOps cfg w2 i mem created = .ok x2 ∧ ForRel CfgRel ks1 ks2 x1 x2 := by
  unfold createTail at hl ⊢
  simp only [bind, Except.bind] at hl ⊢
  by_cases hpc : isPrecompile cfg.spec created = true
  · rw [if_pos hpc] at hl ⊢
    simp only [pure, Except.pure, Except.ok.injEq] at hl ⊢
    subst hl
    exact ⟨_, rfl, rfl, h⟩
  · rw [if_neg hpc] at hl ⊢
    have hpc' : isPrecompile cfg.spec created = false := by
      cases hh : isPrecompile cfg.spec created <;> simp_all
    cases h3 : w1.loadAccount created with
    | error e => rw [h3] at hl; simp at hl
    | ok p3 =>
      obtain ⟨wc, c3⟩ := p3
      rw [h3] at hl
      obtain ⟨wd, h4, hr3⟩ := wLoadAccount_rel h h3
      rw [h4]
      simp only at hl ⊢
      have hfund' : ∀ acc, wc.js.state i.caller = some acc → i.value ≤ acc.info.balance := by
        have h3' := h3
        unfold World.loadAccount at h3'
        simp only [bind, Except.bind] at h3'
        cases ho3 : ofOpt "load_account" (Journal.loadAccount w1.db w1.js created) with
        | error e => rw [ho3] at h3'; simp at h3'
        | ok q3 =>
          obtain ⟨j3, c3'⟩ := q3
          rw [ho3] at h3'
          simp only [pure, Except.pure, Except.ok.injEq, Prod.mk.injEq] at h3'
          have hwc : wc.js = j3 := by rw [← h3'.1]; exact (noteAddr_fields _ created).1
          rw [hwc]
          intro acc hacc
          obtain ⟨acc3, h3a, hi3⟩ := loadAccount_info (ofOpt_ok ho3) i.caller acc0 hc
          rw [hacc] at h3a
          cases h3a
          rw [hi3]; exact hv
      cases h5 : journalOpsStrict.createCheckpoint wc i.caller created (wc.hasStorage created) i.value cfg.spec with
      | error e => rw [h5] at hl; simp at hl
      | ok p5 =>
        obtain ⟨we, r⟩ := p5
        rw [h5] at hl
        obtain ⟨wf, r', h6, hres⟩ := createCheckpoint_rel hr3 (isPrecompile_ne3 hpc') hfund' h5
        rw [h6]
        simp only at hl ⊢
        cases r with
        | error e =>
          cases r' with
          | ok _ => exact hres.elim
          | error e' =>
            obtain ⟨he, hrr⟩ := hres
            subst he
            cases e <;>
            · simp only [pure, Except.pure, Except.ok.injEq] at hl ⊢
              subst hl
              exact ⟨_, rfl, rfl, hrr⟩
        | ok cp =>
          cases r' with
          | error _ => exact hres.elim
          | ok snap =>
            simp only [pure, Except.pure, Except.ok.injEq] at hl ⊢
            subst hl
            exact ⟨_, rfl, ⟨rfl, rfl⟩, hres⟩

/-- the `createFrame` obligation -/
theorem makeCreateFrame_rel (cfg : Cfg) (i : Interp.CreateInputs) (mem : Memory.SharedMemory)
    (h : CfgRel ks1 w1 ks2 w2) {x1 : FrameOrResult Checkpoint × World}
    (hl : makeCreateFrame journalOpsStrict cfg w1 i mem = .ok x1) :
    ∃ x2, makeCreateFrame snapshotOps cfg w2 i mem = .ok x2 ∧ ForRel CfgRel ks1 ks2 x1 x2 := by
  rw [makeCreateFrame_eq] at hl ⊢
  simp only [bind, Except.bind] at hl ⊢
  rw [← h.w.rel.depth]
  by_cases hd : w1.js.depth > CALL_STACK_LIMIT
  · rw [if_pos hd] at hl ⊢
    simp only [pure, Except.pure, Except.ok.injEq] at hl ⊢
    subst hl
    exact ⟨_, rfl, rfl, h⟩
  · rw [if_neg hd] at hl ⊢
    cases h1 : w1.loadAccount i.caller with
    | error e => rw [h1] at hl; simp at hl
    | ok p =>
      obtain ⟨wa, c⟩ := p
      rw [h1] at hl
      obtain ⟨wb, h2, hr⟩ := wLoadAccount_rel h h1
      rw [h2]
      simp only at hl ⊢
      cases hx : wa.acct i.caller with
      | error e => rw [hx] at hl; simp at hl
      | ok x =>
        rw [hx] at hl
        obtain ⟨y, hy, ar, hxs, hys⟩ := hr.acct hx
        rw [hy]
        simp only at hl ⊢
        have eb : x.info.balance = y.info.balance := ar.1
        rw [← eb]
        by_cases hf : x.info.balance < i.value
        · rw [if_pos hf] at hl ⊢
          simp only [pure, Except.pure, Except.ok.injEq] at hl ⊢
          subst hl
          exact ⟨_, rfl, rfl, hr⟩
        · rw [if_neg hf] at hl ⊢
          cases ho : ofOpt "inc_nonce" (Journal.incNonce wa.js i.caller) with
          | error e => rw [ho] at hl; simp at hl
          | ok q =>
            obtain ⟨j2, nn⟩ := q
            rw [ho] at hl
            have hj := ofOpt_ok ho
            obtain ⟨s2, hs2, hr2⟩ := wIncNonce_rel hr hj
            rw [hs2, ofOpt_some]
            simp only at hl ⊢
            cases nn with
            | none =>
              simp only [pure, Except.pure, Except.ok.injEq] at hl ⊢
              subst hl
              exact ⟨_, rfl, rfl, hr2⟩
            | some newNonce =>
              simp only at hl ⊢
              obtain ⟨acc2, hacc2, hb2⟩ := incNonce_balance (db := dbPre wa.pre) hj hxs
              exact createTail_rel cfg i mem _ hr2 hacc2 (by rw [hb2]; omega) hl

end Revm.Proofs.EvmRefine
