import Revm.Proofs.EvmInstHooksShape
import Revm.Props.C29
import Revm.Props.C30
/-! C29 instance, part 3: the script of a concrete run drives the handler-register machine to `finished`.

`runTurns_of_wf`: on a complete, well-nested trace (`WfTrace`) the machine `Model.InspectorHooks.runTurns`, started
with as many open frames as the trace assumes and with the three input stacks holding exactly the inputs of the open
notifications on top of arbitrary leftovers `b`, runs through the WHOLE script (`usedTurns = length`) and ends
`finished`. With `runLoopTr_wf` this makes every completed `Evm.transact` a behaviour of the abstract machine, and the
theorems of C29 / C30 apply to it: `evm_hooks_balanced`, `evm_hooks_stacks_restored`, `evm_hooks_steps`,
`evm_hooks_logs_insns`, `evm_hooks_sds_insns`. -/
namespace Revm.Proofs.EvmInstHooks
open Revm Revm.Model Revm.Model.Evm
open Revm.Model.InspectorHooks (Insn Spawn Turn Kind Ev Stacks St Status HandlerRes runTurns usedTurns runTx usedTx turn
  turnEvents)
open Revm.Spec.InspectorHooks (Balanced stacksOf logsOf sdsOf stepsOf insnLog insnSd turnInsns)

set_option linter.unusedSimpArgs false
set_option linter.unusedVariables false

/-- the machine's `call_stack` kinds are `ks` and its stacks hold the inputs of those open notifications above the
leftovers `b` -/
def Inv (b : Stacks) (ks : List Kind) (st : St) : Prop :=
  ∃ opened : List (Kind × Nat), opened.map Prod.fst = ks ∧ st.frames = ks ∧ st.stk = stacksOf opened b

theorem turn_frame (st : St) (ins : List Insn) (k : Kind) (n : Nat) :
    ∃ word, turn st { ins := ins, next := .spawn ⟨k, n, none, .frame⟩ false } =
      (.running, { frames := k :: st.frames, stk := st.stk.push k n, word := word }) := ⟨_, rfl⟩

theorem turn_result (st : St) (ins : List Insn) (k : Kind) (n o : Nat) (hne : st.frames ≠ []) :
    ∃ word, turn st { ins := ins, next := .spawn ⟨k, n, none, .result o⟩ false } =
      (.running, { frames := st.frames, stk := st.stk, word := word }) := by
  obtain ⟨frames, stk, word⟩ := st
  cases frames with
  | nil => exact absurd rfl hne
  | cons f fs =>
    simp only [turn, InspectorHooks.spawn, InspectorHooks.deliver, Revm.Proofs.InspectorHooks.pop_push]
    exact ⟨_, rfl⟩

theorem turn_ret (st : St) (ins : List Insn) (k : Kind) (fs : List Kind) (i o : Nat) (stk : Stacks)
    (hf : st.frames = k :: fs) (hs : st.stk = stk.push k i) :
    ∃ word, turn st { ins := ins, next := .ret (some o) false } =
      (match fs with
        | [] => .finished
        | _ :: _ => .running, { frames := fs, stk := stk, word := word }) := by
  obtain ⟨frames, stk0, word⟩ := st
  simp only at hf hs
  subst hf hs
  cases fs with
  | nil =>
    simp only [turn, InspectorHooks.deliver, Revm.Proofs.InspectorHooks.pop_push]
    exact ⟨_, rfl⟩
  | cons f fs' =>
    simp only [turn, InspectorHooks.deliver, Revm.Proofs.InspectorHooks.pop_push]
    exact ⟨_, rfl⟩

theorem group_insn (n : Nat) (acc : List Insn) (x : Insn) (g : Truth) (l : List LEv) :
    group n acc (.insn x g :: l) = group n (acc ++ [x]) l := by rw [group]
theorem group_spawn (n : Nat) (acc : List Insn) (s : Spawn) (ie : Bool) (l : List LEv) :
    group n acc (.next (.spawn s ie) :: l) =
      { ins := acc, next := .spawn { s with i := n } ie } :: group (n + 1) [] l := by rw [group]
theorem group_ret (n : Nat) (acc : List Insn) (o : Option Nat) (ie : Bool) (l : List LEv) :
    group n acc (.next (.ret o ie) :: l) = { ins := acc, next := .ret o ie } :: group n [] l := by rw [group]
theorem group_nil (n : Nat) (acc : List Insn) : group n acc [] = [] := by rw [group]

/-- the whole script is consumed and the machine ends `finished` -/
theorem runTurns_of_wf (b : Stacks) {ks : List Kind} {evs : List LEv} (hwf : WfTrace ks evs) :
    ∀ (n : Nat) (acc : List Insn) (st : St), Inv b ks st →
      (runTurns st (group n acc evs)).1 = .finished ∧
      usedTurns st (group n acc evs) = (group n acc evs).length := by
  induction hwf with
  | insn x g _ ih =>
    intro n acc st hinv
    rw [group_insn]
    exact ih n _ st hinv
  | @frame k ks l k' i _ ih =>
    intro n acc st hinv
    rw [group_spawn]
    obtain ⟨word, ht⟩ := turn_frame st acc k' n
    obtain ⟨opened, hmap, hfr, hstk⟩ := hinv
    have hinv' : Inv b (k' :: k :: ks) { frames := k' :: st.frames, stk := st.stk.push k' n, word := word } :=
      ⟨(k', n) :: opened, by simp [hmap], by simp [hfr], by simp [hstk, stacksOf]⟩
    have := ih (n + 1) [] _ hinv'
    simp only [runTurns, usedTurns, ht, List.length_cons]
    exact ⟨this.1, by rw [this.2]⟩
  | @result k ks l k' i o _ ih =>
    intro n acc st hinv
    rw [group_spawn]
    obtain ⟨opened, hmap, hfr, hstk⟩ := hinv
    have hne : st.frames ≠ [] := by rw [hfr]; simp
    obtain ⟨word, ht⟩ := turn_result st acc k' n o hne
    have hinv' : Inv b (k :: ks) { frames := st.frames, stk := st.stk, word := word } := ⟨opened, hmap, hfr, hstk⟩
    have := ih (n + 1) [] _ hinv'
    simp only [runTurns, usedTurns, ht, List.length_cons]
    exact ⟨this.1, by rw [this.2]⟩
  | @ret k k' ks l o _ ih =>
    intro n acc st hinv
    rw [group_ret]
    obtain ⟨opened, hmap, hfr, hstk⟩ := hinv
    cases opened with
    | nil => simp at hmap
    | cons p rest =>
      obtain ⟨k0, i⟩ := p
      simp only [List.map_cons, List.cons.injEq] at hmap
      obtain ⟨rfl, hrest⟩ := hmap
      obtain ⟨word, ht⟩ := turn_ret st acc k0 (k' :: ks) i o (stacksOf rest b) hfr (by simp [hstk, stacksOf])
      have hinv' : Inv b (k' :: ks) { frames := k' :: ks, stk := stacksOf rest b, word := word } :=
        ⟨rest, hrest, rfl, rfl⟩
      have := ih n [] _ hinv'
      simp only [runTurns, usedTurns, ht, List.length_cons]
      exact ⟨this.1, by rw [this.2]⟩
  | last k o =>
    intro n acc st hinv
    rw [group_ret, group_nil]
    obtain ⟨opened, hmap, hfr, hstk⟩ := hinv
    cases opened with
    | nil => simp at hmap
    | cons p rest =>
      obtain ⟨k0, i⟩ := p
      simp only [List.map_cons, List.cons.injEq, List.map_eq_nil_iff] at hmap
      obtain ⟨rfl, rfl⟩ := hmap
      obtain ⟨word, ht⟩ := turn_ret st acc k0 [] i o b hfr (by simp [hstk, stacksOf])
      simp only [runTurns, usedTurns, ht, List.length_cons, List.length_nil]
      refine ⟨?_, ?_⟩ <;> first | trivial | rfl

/-- no turn of a concrete script has a `step` that stopped the interpreter (the inspector only observes) -/
theorem group_halt_none : ∀ (evs : List LEv) (n : Nat) (acc : List Insn), ∀ t ∈ group n acc evs, t.halt = none := by
  intro evs
  induction evs with
  | nil => intro n acc t ht; rw [group_nil] at ht; cases ht
  | cons ev l ih =>
    intro n acc t ht
    cases ev with
    | insn x g => rw [group_insn] at ht; exact ih _ _ t ht
    | next nx =>
      cases nx with
      | spawn s ie =>
        rw [group_spawn] at ht
        rcases List.mem_cons.1 ht with rfl | ht
        · rfl
        · exact ih _ _ t ht
      | ret o ie =>
        rw [group_ret] at ht
        rcases List.mem_cons.1 ht with rfl | ht
        · rfl
        · exact ih _ _ t ht
      | fatal =>
        rw [group] at ht
        rcases List.mem_cons.1 ht with rfl | ht
        · rfl
        · exact ih _ _ t ht

/-- the instructions of the script are the instructions of the trace, in order (a complete trace ends with a
`next`, so no instruction is left over) -/
theorem group_insns {ks : List Kind} {evs : List LEv} (hwf : WfTrace ks evs) :
    ∀ (n : Nat) (acc : List Insn), (group n acc evs).flatMap turnInsns = acc ++ insnsOf evs := by
  induction hwf with
  | insn x g _ ih =>
    intro n acc
    rw [group_insn, ih]
    simp [insnsOf]
  | frame k i _ ih => intro n acc; rw [group_spawn]; simp [ih, insnsOf, turnInsns]
  | result k i o _ ih => intro n acc; rw [group_spawn]; simp [ih, insnsOf, turnInsns]
  | ret o _ ih => intro n acc; rw [group_ret]; simp [ih, insnsOf, turnInsns]
  | last k o => intro n acc; rw [group_ret, group_nil]; simp [insnsOf, turnInsns]

/-- what a completed traced transaction gives: the first request and a complete trace for it -/
inductive Completed : Spawn → List LEv → Prop
  | frame (k : Kind) (evs : List LEv) : WfTrace [k] evs → Completed ⟨k, 0, none, .frame⟩ evs
  | result (k : Kind) : Completed ⟨k, 0, none, .result 0⟩ []

theorem transactWithTr_completed {κ : Type} (C : CpOps κ) (fuel : Nat) (w : World) (e : Env) (spec : Nat)
    (o : Outcome) (w' : World) (first : Spawn) (evs : List LEv)
    (h : transactWithTr C fuel w e spec = (.ok (o, w'), some (first, evs))) : Completed first evs := by
  unfold transactWithTr at h
  cases hp : preverify w e (GasCalc.canon spec) with
  | error err => rw [hp] at h; simp at h
  | ok x =>
    rw [hp] at h
    cases x with
    | none => simp at h
    | some y =>
      obtain ⟨w1, initialGas, floorGas⟩ := y
      simp only at h
      cases hq : prepare C e (GasCalc.canon spec) initialGas w1 with
      | error err => rw [hq] at h; simp at h
      | ok z =>
        rw [hq] at h
        obtain ⟨fr, w2, isCreate, refund⟩ := z
        simp only [Prod.mk.injEq, Option.some.injEq] at h
        obtain ⟨hval, hfirst, hevs⟩ := h
        subst hfirst hevs
        cases fr with
        | result r => exact .result _
        | frame f =>
          simp only [runFirstTr] at hval ⊢
          cases hr : (runLoopTr C (e.toCfg (GasCalc.canon spec)) fuel [f] w2).1 with
          | error err => rw [hr] at hval; simp [bind, Except.bind] at hval
          | ok x =>
            have hwf := runLoopTr_wf C _ fuel [f] w2 x hr
            simp only [kindsOf, List.map_cons, List.map_nil, prepare_kind hq] at hwf
            exact .frame _ _ hwf

theorem transactTr_completed (fuel : Nat) (w : World) (e : Env) (spec : Nat)
    (o : Outcome) (w' : World) (first : Spawn) (evs : List LEv)
    (h : transactTr fuel w e spec = (.ok (o, w'), some (first, evs))) : Completed first evs :=
  transactWithTr_completed journalOps fuel w e spec o w' first evs h

/-- a completed concrete transaction IS a finished behaviour of the handler-register machine, whatever the stacks
hold at its start; the whole script is consumed -/
theorem completed_finished (b : Stacks) {first : Spawn} {evs : List LEv} (hc : Completed first evs) :
    (runTx b first (scriptOf evs)).1 = .finished ∧
    usedTx b first (scriptOf evs) = (scriptOf evs).length := by
  cases hc with
  | frame k evs hwf =>
    have hinv : Inv b [k] { frames := [k], stk := b.push k 0, word := ([] ++ [Ev.opn k 0]) ++ [Ev.initInterp] } :=
      ⟨[(k, 0)], rfl, rfl, rfl⟩
    have := runTurns_of_wf b hwf 1 [] _ hinv
    simp only [runTx, usedTx, InspectorHooks.spawn, scriptOf]
    exact this
  | result k =>
    simp only [runTx, usedTx, InspectorHooks.spawn, scriptOf, group_nil, InspectorHooks.deliver,
      Revm.Proofs.InspectorHooks.pop_push, List.length_nil]
    exact ⟨trivial, trivial⟩

/-- the instructions of a completed script are those of the trace -/
theorem completed_insns {first : Spawn} {evs : List LEv} (hc : Completed first evs) :
    (scriptOf evs).flatMap turnInsns = insnsOf evs := by
  cases hc with
  | frame k evs hwf => simpa [scriptOf] using group_insns hwf 1 []
  | result k => simp [scriptOf, group_nil, insnsOf]

theorem take_length_self {α : Type} (l : List α) : l.take l.length = l := List.take_length

theorem steps_of_script : ∀ (ts : List Turn), (∀ t ∈ ts, t.halt = none) →
    ts.flatMap (fun t => t.ins.flatMap (fun _ => [Ev.step, Ev.stepEnd]) ++ t.halt.toList.map (fun _ => Ev.step)) =
      (ts.flatMap turnInsns).flatMap (fun _ => [Ev.step, Ev.stepEnd]) := by
  intro ts
  induction ts with
  | nil => intro _; rfl
  | cons t ts ih =>
    intro h
    have ht := h t List.mem_cons_self
    have := ih (fun t' ht' => h t' (List.mem_cons_of_mem _ ht'))
    rw [List.flatMap_cons, List.flatMap_cons, List.flatMap_append, this]
    simp [turnInsns, ht]

/-! ### C29 for the concrete model -/

/-- HEADLINE (C29 instance): the inspector callbacks of every completed `Evm.transact` run form a well-bracketed
word; more precisely ONE bracket: the transaction's own `call` / `create` (inputs number 0) first, its `*_end` last,
everything in between balanced -/
theorem evm_hooks_balanced (b : Stacks) (fuel : Nat) (w : World) (e : Env) (spec : Nat) (o : Outcome) (w' : World)
    (first : Spawn) (evs : List LEv) (h : transactTr fuel w e spec = (.ok (o, w'), some (first, evs))) :
    (runTx b first (scriptOf evs)).1 = .finished ∧
    Balanced (runTx b first (scriptOf evs)).2.word ∧
    first.i = 0 ∧
    ∃ u oo, (runTx b first (scriptOf evs)).2.word = Ev.opn first.k 0 :: (u ++ [Ev.cls first.k 0 oo]) ∧ Balanced u := by
  have hc := transactTr_completed fuel w e spec o w' first evs h
  have hfin := (completed_finished b hc).1
  have hi : first.i = 0 := by cases hc <;> rfl
  refine ⟨hfin, Revm.Props.C29.hooks_balanced b first _ hfin, hi, ?_⟩
  have := Revm.Props.C29.transaction_is_one_bracket b first _ hfin
  rw [hi] at this
  exact this

/-- the three input stacks of the handler are, after a completed transaction, what they were before it -/
theorem evm_hooks_stacks_restored (b : Stacks) (fuel : Nat) (w : World) (e : Env) (spec : Nat) (o : Outcome)
    (w' : World) (first : Spawn) (evs : List LEv) (h : transactTr fuel w e spec = (.ok (o, w'), some (first, evs))) :
    (runTx b first (scriptOf evs)).2.stk = b :=
  Revm.Props.C29.stacks_restored b first _
    (completed_finished b (transactTr_completed fuel w e spec o w' first evs h)).1

/-- `.pop().unwrap()` / `.expect()` of the handler never panic on a concrete run (completed or not) -/
theorem evm_hooks_never_panic (b : Stacks) (first : Spawn) (evs : List LEv) :
    (runTx b first (scriptOf evs)).1 ≠ .panicked := Revm.Props.C29.hooks_never_panic b first _

/-- every executed instruction of the run is bracketed by `step · step_end`: the `step` / `step_end` callbacks are
exactly one adjacent pair per instruction of the trace -/
theorem evm_hooks_steps (b : Stacks) (fuel : Nat) (w : World) (e : Env) (spec : Nat) (o : Outcome)
    (w' : World) (first : Spawn) (evs : List LEv) (h : transactTr fuel w e spec = (.ok (o, w'), some (first, evs))) :
    Revm.Spec.InspectorHooks.stepsPaired (runTx b first (scriptOf evs)).2.word = true ∧
    stepsOf (runTx b first (scriptOf evs)).2.word = (insnsOf evs).flatMap (fun _ => [Ev.step, Ev.stepEnd]) := by
  have hc := transactTr_completed fuel w e spec o w' first evs h
  have hu := (completed_finished b hc).2
  have hh := group_halt_none evs 1 []
  refine ⟨Revm.Props.C29.step_bracketed b first _ hh, ?_⟩
  rw [Revm.Props.C29.step_callbacks_exact, hu, take_length_self, ← completed_insns hc]
  exact steps_of_script _ hh

/-- the `log` callbacks of a completed run are, in order, what the LOG instructions of the trace appended -/
theorem evm_hooks_logs_insns (b : Stacks) (fuel : Nat) (w : World) (e : Env) (spec : Nat) (o : Outcome)
    (w' : World) (first : Spawn) (evs : List LEv) (h : transactTr fuel w e spec = (.ok (o, w'), some (first, evs))) :
    logsOf (runTx b first (scriptOf evs)).2.word = (insnsOf evs).filterMap insnLog := by
  have hc := transactTr_completed fuel w e spec o w' first evs h
  rw [Revm.Props.C29.log_reported_once, (completed_finished b hc).2, take_length_self, ← completed_insns hc,
    List.filterMap_flatMap]

/-- the `selfdestruct` callbacks of a completed run are, in order, the notes of the SELFDESTRUCT wrapper at the
SELFDESTRUCT instructions of the trace -/
theorem evm_hooks_sds_insns (b : Stacks) (fuel : Nat) (w : World) (e : Env) (spec : Nat) (o : Outcome)
    (w' : World) (first : Spawn) (evs : List LEv) (h : transactTr fuel w e spec = (.ok (o, w'), some (first, evs))) :
    sdsOf (runTx b first (scriptOf evs)).2.word = (insnsOf evs).filterMap insnSd := by
  have hc := transactTr_completed fuel w e spec o w' first evs h
  rw [Revm.Props.C30.selfdestruct_callbacks_exact, (completed_finished b hc).2, take_length_self,
    ← completed_insns hc, List.filterMap_flatMap]

end Revm.Proofs.EvmInstHooks
