import Revm.Proofs.JournalUndo
/-! C06, step R2: every operation's own journal entries undo its own observable effect (`Pushes`). -/
namespace Revm.Proofs.Journal
open Revm Revm.Model.Journal Revm.Spec.JournalAbs
set_option linter.unusedSimpArgs false
set_option linter.unusedVariables false

def BalOk (x : AState) : Prop := ∀ a, x.balance a < W

structure Pushes (db : Db) (s s' : JState) (es : List Entry) : Prop where
  journal : ∀ top rest, s.journal = top :: rest → s'.journal = (es ++ top) :: rest
  spec : s'.spec = s.spec
  pre : s'.preloaded = s.preloaded
  logs : s'.logs = s.logs
  undo : undoTs (sdOf s) (absT db s') es = absT db s
  zero : ∀ a, Entry.accountCreated a ∈ es → ∀ k, db.storage a k = 0
  bal : BalOk (absT db s) → BalOk (absT db s')
  /-- an account (a slot) whose warming is journaled in `es` is warm now -/
  warmedA : ∀ b, Entry.accountWarmed b ∈ es → (absT db s').warm b = true
  warmedS : ∀ b k, Entry.storageWarmed b k ∈ es → ((absT db s').slot b k).warm = true
  /-- no entry of the state map is removed, and the new journal entries refer to present entries -/
  grows : Grows s s'
  refs : ∀ e, e ∈ es → refsOk s' e


theorem Pushes.refl (db : Db) (s : JState) : Pushes db s s [] :=
  ⟨fun _ _ h => by simpa using h, rfl, rfl, rfl, rfl, fun _ h => by simp at h, id,
   fun _ h => by simp at h, fun _ _ h => by simp at h, Grows.refl _, fun _ h => by simp at h⟩

theorem Pushes.trans {db : Db} {s s1 s2 : JState} {es1 es2 : List Entry}
    (h1 : Pushes db s s1 es1) (h2 : Pushes db s1 s2 es2) : Pushes db s s2 (es2 ++ es1) := by
  refine ⟨fun top rest h => ?_, h2.spec.trans h1.spec, h2.pre.trans h1.pre, h2.logs.trans h1.logs, ?_, ?_,
    fun h => h2.bal (h1.bal h), ?_, ?_, Grows.trans h1.grows h2.grows, ?_⟩
  · rw [h2.journal _ _ (h1.journal _ _ h), List.append_assoc]
  · rw [undoTs_append, ← sdOf_eq h1.spec, h2.undo, sdOf_eq h1.spec, h1.undo]
  · intro a ha; rcases List.mem_append.1 ha with h | h
    · exact h2.zero a h
    · exact h1.zero a h
  · intro b hb; rcases List.mem_append.1 hb with h | h
    · exact h2.warmedA b h
    · have e := congrFun (congrArg AState.warm h2.undo) b
      rw [undoTs_warm, h1.warmedA b h] at e
      cases hw : (absT db s2).warm b
      · rw [hw] at e; simp at e
      · rfl
  · intro b k hb; rcases List.mem_append.1 hb with h | h
    · exact h2.warmedS b k h
    · have e := congrArg AbsSlot.warm (congrFun (congrFun (congrArg AState.slot h2.undo) b) k)
      rw [undoTs_slotwarm, h1.warmedS b k h] at e
      cases hw : ((absT db s2).slot b k).warm
      · rw [hw] at e; simp at e
      · rfl
  · intro e he; rcases List.mem_append.1 he with h | h
    · exact h2.refs e h
    · exact refsOk_mono h2.grows (h1.refs e h)

/-- a step that is invisible in the observable state and in the journal -/
theorem Pushes.silent {db : Db} {s s' : JState} (h1 : absT db s' = absT db s) (hj : s'.journal = s.journal)
    (h2 : s'.spec = s.spec) (h3 : s'.preloaded = s.preloaded) (h4 : s'.logs = s.logs) (hg : Grows s s') :
    Pushes db s s' [] :=
  ⟨fun _ _ h => by simpa [hj] using h, h2, h3, h4, by simpa [undoTs] using h1, fun _ h => by simp at h,
   fun h => by rw [h1]; exact h, fun _ h => by simp at h, fun _ _ h => by simp at h, hg, fun _ h => by simp at h⟩

structure PushedOn (s s' : JState) (e : Entry) : Prop where
  journal : ∀ top rest, s.journal = top :: rest → s'.journal = (e :: top) :: rest
  state : s'.state = s.state
  transient : s'.transient = s.transient
  logs : s'.logs = s.logs
  spec : s'.spec = s.spec
  pre : s'.preloaded = s.preloaded

theorem pushEntry_some {s s' : JState} {e : Entry} (h : pushEntry s e = some s') : PushedOn s s' e := by
  unfold pushEntry at h
  cases hj : s.journal with
  | nil => simp [hj] at h
  | cons top rest =>
    simp [hj] at h; subst h
    exact ⟨fun t r ht => by rw [hj] at ht; cases ht; rfl, rfl, rfl, rfl, rfl, rfl⟩

theorem PushedOn.absT {s s' : JState} {e : Entry} (h : PushedOn s s' e) (db : Db) : absT db s' = absT db s :=
  absT_congr db h.state h.spec h.pre h.transient

/-- one modification followed by one journal entry -/
theorem Pushes.of_push {db : Db} {s s1 s' : JState} {e : Entry} (hp : pushEntry s1 e = some s')
    (hj : s1.journal = s.journal) (hspec : s1.spec = s.spec) (hpre : s1.preloaded = s.preloaded)
    (hlogs : s1.logs = s.logs)
    (hu : undoT (sdOf s) (absT db s1) e = absT db s)
    (hz : ∀ a, e = .accountCreated a → ∀ k, db.storage a k = 0)
    (hb : BalOk (absT db s) → BalOk (absT db s1))
    (hg : Grows s s1) (hr : refsOk s1 e)
    (hwA : ∀ b, e = .accountWarmed b → (absT db s1).warm b = true := by intro b hb; cases hb)
    (hwS : ∀ b k, e = .storageWarmed b k → ((absT db s1).slot b k).warm = true := by intro b k hb; cases hb) :
    Pushes db s s' [e] := by
  have p := pushEntry_some hp
  refine ⟨fun t r ht => ?_, p.spec.trans hspec, p.pre.trans hpre, p.logs.trans hlogs, ?_, ?_, ?_, ?_, ?_,
    Grows.congr_right p.state hg, fun e' he' => by simp at he'; subst he'; exact refsOk_congr p.state hr⟩
  · rw [p.journal t r (hj.trans ht)]; rfl
  · simp only [undoTs]; rw [p.absT db]; exact hu
  · intro a ha; simp at ha; exact hz a ha.symm
  · intro h; rw [p.absT db]; exact hb h
  · intro b hb; simp at hb; rw [p.absT db]; exact hwA b hb.symm
  · intro b k hb; simp at hb; rw [p.absT db]; exact hwS b k hb.symm


/-- no warming is journaled in `es` -/
def NoWarm (es : List Entry) : Prop :=
  (∀ b, Entry.accountWarmed b ∉ es) ∧ (∀ b k, Entry.storageWarmed b k ∉ es)

theorem NoWarm.nil : NoWarm [] := ⟨fun _ h => by simp at h, fun _ _ h => by simp at h⟩
theorem NoWarm.append {es fs : List Entry} (h1 : NoWarm es) (h2 : NoWarm fs) : NoWarm (es ++ fs) :=
  ⟨fun b h => by rcases List.mem_append.1 h with h | h; exact h1.1 b h; exact h2.1 b h,
   fun b k h => by rcases List.mem_append.1 h with h | h; exact h1.2 b k h; exact h2.2 b k h⟩
theorem NoWarm.single {e : Entry} (h1 : ∀ b, ¬ e = Entry.accountWarmed b) (h2 : ∀ b k, ¬ e = Entry.storageWarmed b k) :
    NoWarm [e] :=
  ⟨fun b h => by simp at h; exact h1 b h.symm, fun b k h => by simp at h; exact h2 b k h.symm⟩
theorem NoWarm.touched (c : Bool) (a : Addr) : NoWarm (if c then [] else [Entry.accountTouched a]) := by
  cases c
  · exact NoWarm.single (fun _ h => by cases h) (fun _ _ h => by cases h)
  · exact NoWarm.nil

/-- forward effect of an operation on the warm component: exactly the addresses in `A` and the slots in `S`
become warm, nothing becomes cold -/
structure Warms (db : Db) (s s' : JState) (A : List Addr) (S : List (Addr × Nat)) : Prop where
  addr : ∀ b, (absT db s').warm b = ((absT db s).warm b || A.contains b)
  slot : ∀ b k, ((absT db s').slot b k).warm = (((absT db s).slot b k).warm || S.contains (b, k))

theorem Warms.refl (db : Db) (s : JState) : Warms db s s [] [] := ⟨fun _ => by simp, fun _ _ => by simp⟩

theorem Warms.trans {db : Db} {s s1 s2 : JState} {A1 A2 : List Addr} {S1 S2 : List (Addr × Nat)}
    (h1 : Warms db s s1 A1 S1) (h2 : Warms db s1 s2 A2 S2) : Warms db s s2 (A1 ++ A2) (S1 ++ S2) :=
  ⟨fun b => by rw [h2.addr, h1.addr]; simp [Bool.or_assoc],
   fun b k => by rw [h2.slot, h1.slot]; simp [Bool.or_assoc]⟩

theorem Pushes.warm_eq {db : Db} {s s' : JState} {es : List Entry} (p : Pushes db s s' es) (b : Addr) :
    (absT db s').warm b = ((absT db s).warm b || es.contains (Entry.accountWarmed b)) := by
  have e := congrFun (congrArg AState.warm p.undo) b
  rw [undoTs_warm] at e
  by_cases h : Entry.accountWarmed b ∈ es
  · rw [p.warmedA b h]; simp [h]
  · simp [h] at e; simp [h, e]

theorem Pushes.slotwarm_eq {db : Db} {s s' : JState} {es : List Entry} (p : Pushes db s s' es) (b : Addr) (k : Nat) :
    ((absT db s').slot b k).warm = (((absT db s).slot b k).warm || es.contains (Entry.storageWarmed b k)) := by
  have e := congrArg AbsSlot.warm (congrFun (congrFun (congrArg AState.slot p.undo) b) k)
  rw [undoTs_slotwarm] at e
  by_cases h : Entry.storageWarmed b k ∈ es
  · rw [p.warmedS b k h]; simp [h]
  · simp [h] at e; simp [h, e]

theorem Pushes.warms_nil {db : Db} {s s' : JState} {es : List Entry} (p : Pushes db s s' es) (h : NoWarm es) :
    Warms db s s' [] [] :=
  ⟨fun b => by rw [p.warm_eq]; simp [h.1 b], fun b k => by rw [p.slotwarm_eq]; simp [h.2 b k]⟩

/-- `load_account a`: `a` is warm afterwards, nothing else changes in the warm component -/
theorem Warms.of_load {db : Db} {s s' : JState} {a : Addr} {c : Bool}
    (p : Pushes db s s' (if c then [.accountWarmed a] else [])) (hc : c = !(absT db s).warm a) :
    Warms db s s' [a] [] := by
  refine ⟨fun b => ?_, fun b k => ?_⟩
  · rw [p.warm_eq]
    cases c
    · simp at hc
      by_cases hb : b = a
      · subst hb; simp [hc]
      · have : ¬ a = b := fun e => hb e.symm
        simp [hb, this]
    · by_cases hb : b = a
      · subst hb; simp
      · have : ¬ a = b := fun e => hb e.symm
        simp [hb, this]
  · rw [p.slotwarm_eq]; cases c <;> simp

/-- `sload a k`: the slot is warm afterwards, nothing else changes in the warm component -/
theorem Warms.of_sload {db : Db} {s s' : JState} {a : Addr} {k : Nat} {c : Bool}
    (p : Pushes db s s' (if c then [.storageWarmed a k] else [])) (hc : c = !((absT db s).slot a k).warm) :
    Warms db s s' [] [(a, k)] := by
  refine ⟨fun b => ?_, fun b j => ?_⟩
  · rw [p.warm_eq]; cases c <;> simp
  · rw [p.slotwarm_eq]
    cases c
    · simp at hc
      by_cases hb : b = a ∧ j = k
      · obtain ⟨rfl, rfl⟩ := hb; simp [hc]
      · have : ¬ (a = b ∧ k = j) := fun e => hb ⟨e.1.symm, e.2.symm⟩
        simp [hb, this]
    · by_cases hb : b = a ∧ j = k
      · obtain ⟨rfl, rfl⟩ := hb; simp
      · have : ¬ (a = b ∧ k = j) := fun e => hb ⟨e.1.symm, e.2.symm⟩
        simp [hb, this]


/-- `load_account`: journals exactly the cold load, and `is_cold` is the negation of the observable warm bit -/
theorem loadAccount_pushes {db : Db} {s s' : JState} {a : Addr} {c : Bool}
    (h : loadAccount db s a = some (s', c)) :
    Pushes db s s' (if c then [.accountWarmed a] else []) ∧ c = !(absT db s).warm a ∧ (s'.state a).isSome := by
  unfold loadAccount at h
  cases hs : s.state a with
  | some acc =>
    have ha := absAcct_some db s hs
    simp only [hs] at h
    cases hc : acc.cold with
    | true =>
      simp [hc] at h
      obtain ⟨s1, h1, h2, h3⟩ := h
      subst h2 h3
      refine ⟨?_, ?_, ?_⟩
      · refine Pushes.of_push h1 rfl rfl rfl rfl ?_ (by simp) ?_
          (by intro b hb; cases hb; simp [absT_setAcct, putA, absOf]) (hg := Grows.upd hs rfl) (hr := by simp [refsOk, setAcct_state_same, setSlot])
        · simp [undoTs, absT_setAcct, putA, undoT, absOf, upd_upd_same, ha, upd_self', absSlot_some, hc]
        · simp [BalOk, absT_setAcct, putA, absOf, ha, upd_self']
      · simp [ha, absOf, hc]
      · rw [(pushEntry_some h1).state]; simp [setAcct_state_same]
    | false =>
      simp [hc] at h
      obtain ⟨h2, h3⟩ := h
      subst h2 h3
      refine ⟨?_, ?_, ?_⟩
      · refine Pushes.silent ?_ rfl rfl rfl rfl (Grows.upd hs rfl)
        simp [undoTs, absT_setAcct, putA, undoT, absOf, upd_upd_same, ha, upd_self', absSlot_some, hc]
      · simp [ha, absOf, hc]
      · simp [setAcct_state_same]
  | none =>
    have ha := absAcct_none db s hs
    simp only [hs] at h
    cases hp : s.preloaded a with
    | false =>
      simp [hp] at h
      obtain ⟨s1, h1, h2, h3⟩ := h
      subst h2 h3
      refine ⟨?_, ?_, ?_⟩
      · refine Pushes.of_push h1 rfl rfl rfl rfl ?_ (by simp) ?_
          (by intro b hb; cases hb; cases hd : db.basic a <;>
                simp [absT_setAcct, putA, absOf, Acct.ofInfo, Acct.newNotExisting]) (hg := Grows.ins hs) (hr := by simp [refsOk, setAcct_state_same, setSlot])
        · cases hd : db.basic a <;>
          simp [undoTs, absT_setAcct, putA, undoT, absOf, upd_upd_same, ha, upd_self', absSlot_some, hp, hd,
            Acct.ofInfo, Acct.newNotExisting, absSlot_none, maskT]
        · cases hd : db.basic a <;>
          simp [BalOk, absT_setAcct, putA, absOf, ha, upd_self', hd, Acct.ofInfo, Acct.newNotExisting]
      · simp [ha, absOf, hp]
      · rw [(pushEntry_some h1).state]; simp [setAcct_state_same]
    | true =>
      simp [hp] at h
      obtain ⟨h2, h3⟩ := h
      subst h2 h3
      refine ⟨?_, ?_, ?_⟩
      · refine Pushes.silent ?_ rfl rfl rfl rfl (Grows.ins hs)
        cases hd : db.basic a <;>
          simp [undoTs, absT_setAcct, putA, undoT, absOf, upd_upd_same, ha, upd_self', absSlot_some, hp, hd,
            Acct.ofInfo, Acct.newNotExisting, absSlot_none, maskT]
      · simp [ha, absOf, hp]
      · simp [setAcct_state_same]



theorem BalOk.of_eq {x y : AState} (h : y.balance = x.balance) (hb : BalOk x) : BalOk y := by
  intro a; rw [h]; exact hb a

/-- `touch_account` on the entry that is in the map -/
theorem touchAccount_pushes {db : Db} {s s' : JState} {a : Addr} {acc acc' : Acct}
    (hs : s.state a = some acc) (h : touchAccount s a acc = some (s', acc')) :
    Pushes db s s' (if acc.touched then [] else [.accountTouched a]) ∧ s'.state a = some acc' ∧
      acc' = { acc with touched := true } ∧ (∀ b, ¬ b = a → s'.state b = s.state b) ∧
      (absT db s').balance = (absT db s).balance := by
  have ha := absAcct_some db s hs
  unfold touchAccount at h
  cases ht : acc.touched with
  | true =>
    simp [ht] at h; obtain ⟨h1, h2⟩ := h; subst h1 h2
    refine ⟨Pushes.refl db s, hs, ?_, fun _ _ => rfl, rfl⟩
    cases acc; simp_all
  | false =>
    simp [ht, bind, Option.bind] at h
    cases hp : pushEntry s (.accountTouched a) with
    | none => simp [hp] at h
    | some s1 =>
      simp [hp] at h; obtain ⟨h1, h2⟩ := h; subst h1 h2
      have p := pushEntry_some hp
      have hs1 : s1.state a = some acc := by rw [p.state]; exact hs
      have ha1 := absAcct_some db s1 hs1
      have e : absT db s1 = absT db s := p.absT db
      have esd : sdOf s1 = sdOf s := sdOf_eq p.spec
      have ha2 : absAcct db s1 a = absOf db (sdOf s) (s.preloaded a) a (some acc) := by rw [ha1, esd, p.pre]
      have hE : (absT db (setAcct s1 a { acc with touched := true })).balance = (absT db s).balance := by
        rw [← e]; simp [absT_setAcct, putA, absOf, ha2, upd_self', esd, p.pre]
      refine ⟨?_, by simp [setAcct_state_same], rfl, fun b hb => by rw [setAcct_state_ne _ _ hb, p.state], hE⟩
      refine ⟨fun t r hj => by simp [p.journal t r hj], by simp [p.spec], by simp [p.pre], by simp [p.logs], ?_, by simp, BalOk.of_eq hE,
        by simp, by simp, Grows.trans (Grows.of_state_eq p.state) (Grows.upd hs1 rfl),
        fun e he => by simp at he; subst he; simp [refsOk, setAcct_state_same]⟩
      rw [← e]
      simp [undoTs, absT_setAcct, putA, undoT, absOf, upd_upd_same, ha2, upd_self', absSlot_some, ht, esd, p.pre, unT_maskT]



/-- journal entry first, then the modification (the order of `inc_nonce`, `set_code`, `sstore`) -/
theorem Pushes.of_push_set {db : Db} {s s1 : JState} {a : Addr} {acc' : Acct} {e : Entry}
    (hp : pushEntry s e = some s1)
    (hu : undoT (sdOf s) (absT db (setAcct s a acc')) e = absT db s)
    (hz : ∀ a, e = .accountCreated a → ∀ k, db.storage a k = 0)
    (hb : BalOk (absT db s) → BalOk (absT db (setAcct s a acc')))
    (hg : Grows s (setAcct s a acc')) (hr : refsOk (setAcct s a acc') e)
    (hnA : ∀ b, ¬ e = .accountWarmed b := by intro b hb; cases hb)
    (hnS : ∀ b k, ¬ e = .storageWarmed b k := by intro b k hb; cases hb) : Pushes db s (setAcct s1 a acc') [e] := by
  have p := pushEntry_some hp
  have e1 : absT db (setAcct s1 a acc') = absT db (setAcct s a acc') :=
    absT_congr db (by simp [setAcct, p.state]) p.spec p.pre p.transient
  have est : (setAcct s1 a acc').state = (setAcct s a acc').state := by simp [setAcct, p.state]
  refine ⟨fun t r ht => ?_, p.spec, p.pre, p.logs, ?_, ?_, ?_, ?_, ?_,
    Grows.congr_right est hg, fun e' he' => by simp at he'; subst he'; exact refsOk_congr est hr⟩
  · simp [p.journal t r ht]
  · simp only [undoTs]; rw [e1]; exact hu
  · intro a ha; simp at ha; exact hz a ha.symm
  · intro h; rw [e1]; exact hb h
  · intro b hb; simp at hb; exact absurd hb.symm (hnA b)
  · intro b k hb; simp at hb; exact absurd hb.symm (hnS b k)

theorem touch_pushes {db : Db} {s s' : JState} {a : Addr} (h : touch s a = some s') :
    ∃ es, Pushes db s s' es ∧ NoWarm es := by
  unfold touch at h
  cases hs : s.state a with
  | none => simp [hs] at h; subst h; exact ⟨[], Pushes.refl db s, NoWarm.nil⟩
  | some acc =>
    simp [hs] at h
    obtain ⟨acc', h⟩ := h
    exact ⟨_, (touchAccount_pushes hs h).1, NoWarm.touched _ _⟩

theorem loadCode_pushes {db : Db} {s s' : JState} {a : Addr} {c : Bool}
    (h : loadCode db s a = some (s', c)) :
    Pushes db s s' (if c then [.accountWarmed a] else []) ∧ c = !(absT db s).warm a ∧ (s'.state a).isSome := by
  simp only [loadCode, bind, Option.bind] at h
  cases hl : loadAccount db s a with
  | none => simp [hl] at h
  | some r =>
    obtain ⟨s1, c1⟩ := r
    obtain ⟨p1, hc, hsome⟩ := loadAccount_pushes hl
    simp [hl] at h
    cases hs : s1.state a with
    | none => simp [hs] at h
    | some acc =>
      have ha := absAcct_some db s1 hs
      simp [hs] at h
      by_cases hcode : acc.info.code = none
      · simp [hcode] at h; obtain ⟨h1, h2⟩ := h; subst h1 h2
        refine ⟨?_, hc, by simp [setAcct_state_same]⟩
        have := Pushes.trans p1 (Pushes.silent (db := db) (s := s1)
          (s' := setAcct s1 a { acc with info := { acc.info with code := some acc.info.codeHash } }) ?_ rfl rfl rfl rfl
          (Grows.upd hs rfl))
        · simpa using this
        · simp [absT_setAcct, putA, absOf, ha, upd_self', absSlot_some]
      · simp [hcode] at h; obtain ⟨h1, h2⟩ := h; subst h1 h2
        exact ⟨p1, hc, by simp [hs]⟩

theorem incNonce_pushes {db : Db} {s s' : JState} {a : Addr} {r : Option Nat}
    (h : incNonce s a = some (s', r)) : ∃ es, Pushes db s s' es ∧ NoWarm es := by
  simp only [incNonce, bind, Option.bind] at h
  cases hs : s.state a with
  | none => simp [hs] at h
  | some acc =>
    simp [hs] at h
    by_cases hn : acc.info.nonce = U64 - 1
    · simp [hn] at h; obtain ⟨h1, _⟩ := h; subst h1; exact ⟨[], Pushes.refl db s, NoWarm.nil⟩
    · simp [hn] at h
      cases ht : touchAccount s a acc with
      | none => simp [ht] at h
      | some r1 =>
        obtain ⟨s1, acc1⟩ := r1
        obtain ⟨p1, hs1, hacc1, _, _⟩ := touchAccount_pushes (db := db) hs ht
        simp [ht] at h
        cases hp : pushEntry s1 (.nonceChange a) with
        | none => simp [hp] at h
        | some s2 =>
          simp [hp] at h; obtain ⟨h1, _⟩ := h; subst h1
          have ha := absAcct_some db s1 hs1
          refine ⟨_, Pushes.trans p1 (Pushes.of_push_set hp ?_ (by simp) ?_ (hg := Grows.upd hs1 rfl) (hr := by simp [refsOk, setAcct_state_same, setSlot])),
            NoWarm.append (NoWarm.single (fun _ h => by cases h) (fun _ _ h => by cases h)) (NoWarm.touched _ _)⟩
          · simp [absT_setAcct, putA, undoT, absOf, upd_upd_same, ha, upd_self', absSlot_some, decU64]
          · exact BalOk.of_eq (by simp [absT_setAcct, putA, absOf, ha, upd_self'])

theorem setCode_pushes {db : Db} {s s' : JState} {a : Addr} {hash : Nat}
    (hadm : ∀ acc, s.state a = some acc → acc.info.codeHash = KECCAK_EMPTY)
    (h : setCode s a hash = some s') : ∃ es, Pushes db s s' es ∧ NoWarm es := by
  simp only [setCode, bind, Option.bind] at h
  cases hs : s.state a with
  | none => simp [hs] at h
  | some acc =>
    simp [hs] at h
    cases ht : touchAccount s a acc with
    | none => simp [ht] at h
    | some r1 =>
      obtain ⟨s1, acc1⟩ := r1
      obtain ⟨p1, hs1, hacc1, _, _⟩ := touchAccount_pushes (db := db) hs ht
      simp [ht] at h
      cases hp : pushEntry s1 (.codeChange a) with
      | none => simp [hp] at h
      | some s2 =>
        simp [hp] at h; subst h
        have ha := absAcct_some db s1 hs1
        have hk : acc1.info.codeHash = KECCAK_EMPTY := by rw [hacc1]; exact hadm acc hs
        refine ⟨_, Pushes.trans p1 (Pushes.of_push_set hp ?_ (by simp) ?_ (hg := Grows.upd hs1 rfl) (hr := by simp [refsOk, setAcct_state_same, setSlot])),
          NoWarm.append (NoWarm.single (fun _ h => by cases h) (fun _ _ h => by cases h)) (NoWarm.touched _ _)⟩
        · simp [absT_setAcct, putA, undoT, absOf, upd_upd_same, ha, upd_self', absSlot_some, hk]
        · exact BalOk.of_eq (by simp [absT_setAcct, putA, absOf, ha, upd_self'])



theorem loadAccountDelegated_pushes {db : Db} {s s' : JState} {a : Addr} {e c : Bool} {d : Option Bool}
    (h : loadAccountDelegated db s a = some (s', e, c, d)) :
    (∃ es, Pushes db s s' es) ∧ c = !(absT db s).warm a ∧
    (match delegateOf db s a with
     | none => d = none ∧ Warms db s s' [a] []
     | some dl => d = some (!((absT db s).warm dl || dl == a)) ∧ Warms db s s' [a, dl] []) := by
  simp only [loadAccountDelegated, bind, Option.bind] at h
  cases hl : loadCode db s a with
  | none => simp [hl] at h
  | some r =>
    obtain ⟨s1, c1⟩ := r
    obtain ⟨p1, hc1, _⟩ := loadCode_pushes hl
    have w1 := Warms.of_load p1 hc1
    simp [hl] at h
    cases hs : s1.state a with
    | none => simp [hs] at h
    | some acc =>
      simp [hs] at h
      have hdel : delegateOf db s a = acc.info.code.bind db.delegate := by
        simp [delegateOf, hl, hs]
      rw [hdel]
      split at h
      · rename_i dl hdl
        have hdl' : acc.info.code.bind db.delegate = some dl := by
          simpa [Option.bind] using hdl
        cases hl2 : loadAccount db s1 dl with
        | none => simp [hl2] at h
        | some r2 =>
          obtain ⟨s2, c2⟩ := r2
          obtain ⟨p2, hc2, _⟩ := loadAccount_pushes hl2
          have w2 := Warms.of_load p2 hc2
          simp [hl2] at h; obtain ⟨h1, _, h3, h4⟩ := h; subst h1 h3 h4
          rw [hdl']
          refine ⟨⟨_, Pushes.trans p1 p2⟩, hc1, ?_, by simpa using Warms.trans w1 w2⟩
          rw [hc2, w1.addr]; cases (absT db s).warm dl <;> by_cases hda : dl = a <;> simp [hda]
      · rename_i hdl
        have hdl' : acc.info.code.bind db.delegate = none := by
          simpa [Option.bind] using hdl
        simp at h; obtain ⟨h1, _, h3, h4⟩ := h; subst h1 h3 h4
        rw [hdl']
        exact ⟨⟨_, p1⟩, hc1, rfl, w1⟩

/-- `sload`: `is_cold` is the negation of the observable warm bit of the slot -/
theorem sload_pushes {db : Db} {s s' : JState} {a : Addr} {k v : Nat} {c : Bool}
    (h : sload db s a k = some (s', v, c)) :
    Pushes db s s' (if c then [.storageWarmed a k] else []) ∧ c = !((absT db s).slot a k).warm ∧
      v = ((absT db s).slot a k).present ∧
      ∃ acc sl, s'.state a = some acc ∧ acc.storage k = some sl ∧ sl.present = v := by
  simp only [sload, bind, Option.bind] at h
  cases hs : s.state a with
  | none => simp [hs] at h
  | some acc =>
    have ha := absAcct_some db s hs
    simp [hs] at h
    cases hk : acc.storage k with
    | some sl =>
      simp [hk] at h
      cases hc : sl.cold with
      | true =>
        simp [hc] at h
        obtain ⟨s1, h1, h2, h3, h4⟩ := h
        subst h2 h3 h4
        refine ⟨?_, ?_, ?_, ?_⟩
        · refine Pushes.of_push h1 rfl rfl rfl rfl ?_ (by simp) ?_ (hg := Grows.slot' hs k _) (hr := by simp [refsOk, setAcct_state_same, setSlot]) (hwS := by
            intro b j hb; cases hb; simp [absT_setAcct, putA, absOf, absSlot_some, slotsOf_setSlot])
          · simp [absT_setAcct, putA, undoT, absOf, upd_upd_same, ha, upd_self', absSlot_some, slotsOf_setSlot,
              slotsOf_some db a acc.created hk, hc, updK_updK_same, updK_self]
          · exact BalOk.of_eq (by simp [absT_setAcct, putA, absOf, ha, upd_self'])
        · simp [ha, absOf, absSlot_some, slotsOf_some db a acc.created hk, hc]
        · simp [ha, absOf, absSlot_some, slotsOf_some db a acc.created hk]
        · rw [(pushEntry_some h1).state]; simp [setAcct_state_same, setSlot]
      | false =>
        simp [hc] at h
        obtain ⟨h2, h3, h4⟩ := h
        subst h2 h3 h4
        refine ⟨?_, ?_, ?_, ?_⟩
        · refine Pushes.silent ?_ rfl rfl rfl rfl (Grows.slot' hs k _)
          simp [absT_setAcct, putA, undoT, absOf, upd_upd_same, ha, upd_self', absSlot_some, slotsOf_setSlot,
              slotsOf_some db a acc.created hk, hc, updK_updK_same, updK_self]
        · simp [ha, absOf, absSlot_some, slotsOf_some db a acc.created hk, hc]
        · simp [ha, absOf, absSlot_some, slotsOf_some db a acc.created hk]
        · simp [setAcct_state_same, setSlot]
    | none =>
      simp [hk] at h
      obtain ⟨s1, h1, h2, h3, h4⟩ := h
      subst h2 h3 h4
      refine ⟨?_, ?_, ?_, ?_⟩
      · refine Pushes.of_push h1 rfl rfl rfl rfl ?_ (by simp) ?_ (hg := Grows.slot' hs k _) (hr := by simp [refsOk, setAcct_state_same, setSlot]) (hwS := by
            intro b j hb; cases hb; simp [absT_setAcct, putA, absOf, absSlot_some, slotsOf_setSlot])
        · simp [absT_setAcct, putA, undoT, absOf, upd_upd_same, ha, upd_self', absSlot_some, slotsOf_setSlot,
              slotsOf_none db a acc.created hk, updK_updK_same, updK_self]
        · exact BalOk.of_eq (by simp [absT_setAcct, putA, absOf, ha, upd_self'])
      · simp [ha, absOf, absSlot_some, slotsOf_none db a acc.created hk]
      · simp [ha, absOf, absSlot_some, slotsOf_none db a acc.created hk]
      · rw [(pushEntry_some h1).state]; simp [setAcct_state_same, setSlot]



theorem sstore_pushes {db : Db} {s s' : JState} {a : Addr} {k new o p n : Nat} {c : Bool}
    (h : sstore db s a k new = some (s', o, p, n, c)) :
    (∃ es, Pushes db s s' es) ∧ c = !((absT db s).slot a k).warm ∧ Warms db s s' [] [(a, k)] := by
  simp only [sstore, bind, Option.bind] at h
  cases hl : sload db s a k with
  | none => simp [hl] at h
  | some r =>
    obtain ⟨s1, v, c1⟩ := r
    obtain ⟨p1, hc, hv, acc, sl, hs1, hk, hpres⟩ := sload_pushes hl
    have ha := absAcct_some db s1 hs1
    simp [hl, hs1, hk] at h
    by_cases hvn : v = new
    · simp [hvn] at h; obtain ⟨h1, _, _, _, h5⟩ := h; subst h1 h5
      exact ⟨⟨_, p1⟩, hc, Warms.of_sload p1 hc⟩
    · simp [hvn] at h
      cases hp : pushEntry s1 (.storageChanged a k v) with
      | none => simp [hp] at h
      | some s2 =>
        simp [hp] at h; obtain ⟨h1, _, _, _, h5⟩ := h; subst h1 h5
        have p2 : Pushes db s1 (setAcct s2 a (setSlot acc k { sl with present := new })) [.storageChanged a k v] := by
          refine Pushes.of_push_set hp ?_ (by simp) ?_ (hg := Grows.slot' hs1 k _) (hr := by simp [refsOk, setAcct_state_same, setSlot])
          · simp [absT_setAcct, putA, undoT, absOf, upd_upd_same, ha, upd_self', absSlot_some, slotsOf_setSlot,
                slotsOf_some db a acc.created hk, updK_updK_same, updK_self, hpres]
          · exact BalOk.of_eq (by simp [absT_setAcct, putA, absOf, ha, upd_self'])
        have w2 := p2.warms_nil (NoWarm.single (fun _ h => by cases h) (fun _ _ h => by cases h))
        exact ⟨⟨_, Pushes.trans p1 p2⟩, hc, by simpa using Warms.trans (Warms.of_sload p1 hc) w2⟩

theorem absT_setTransient (db : Db) (s : JState) (a : Addr) (k : Nat) (v : Option Nat) :
    absT db (setTransient s a k v) =
      { absT db s with tr := fun b j => if b = a ∧ j = k then v.getD 0 else tload s b j } := by
  apply AState.ext' <;> try rfl
  exact tload_setTransient s a k v

theorem tstore_pushes {db : Db} {s s' : JState} {a : Addr} {k new : Nat}
    (h : tstore s a k new = some s') : ∃ es, Pushes db s s' es ∧ NoWarm es := by
  unfold tstore at h
  by_cases hn : new = 0
  · simp [hn] at h
    cases ht : s.transient a k with
    | none => simp [ht] at h; subst h; exact ⟨[], Pushes.refl db s, NoWarm.nil⟩
    | some had =>
      simp [ht] at h
      refine ⟨_, Pushes.of_push h rfl rfl rfl rfl ?_ (by simp) (BalOk.of_eq (by simp [absT_setTransient]))
          (hg := Grows.of_state_eq rfl) (hr := trivial),
        NoWarm.single (fun _ h => by cases h) (fun _ _ h => by cases h)⟩
      simp only [undoT, absT_setTransient]
      apply AState.ext' <;> try rfl
      funext b j; by_cases hb : b = a ∧ j = k
      · obtain ⟨rfl, rfl⟩ := hb; simp [absT_tr, tload, ht]
      · simp [absT_tr, hb]
  · simp [hn] at h
    by_cases hpv : (s.transient a k).getD 0 = new
    · simp [hpv] at h; subst h
      refine ⟨[], Pushes.silent ?_ rfl rfl rfl rfl (Grows.of_state_eq rfl), NoWarm.nil⟩
      rw [absT_setTransient]
      apply AState.ext' <;> try rfl
      funext b j; by_cases hb : b = a ∧ j = k
      · obtain ⟨rfl, rfl⟩ := hb; simp [absT_tr, tload, hpv]
      · simp [absT_tr, hb]
    · simp [hpv] at h
      refine ⟨_, Pushes.of_push h rfl rfl rfl rfl ?_ (by simp) (BalOk.of_eq (by simp [absT_setTransient]))
          (hg := Grows.of_state_eq rfl) (hr := trivial),
        NoWarm.single (fun _ h => by cases h) (fun _ _ h => by cases h)⟩
      simp only [undoT, absT_setTransient]
      apply AState.ext' <;> try rfl
      funext b j; by_cases hb : b = a ∧ j = k
      · obtain ⟨rfl, rfl⟩ := hb; simp [absT_tr, tload]
      · simp [absT_tr, hb]


end Revm.Proofs.Journal
