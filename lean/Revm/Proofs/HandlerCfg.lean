import Revm.Model.HandlerCfg
/-! Proofs for C22: the reward slot is an invariant of every reconfiguration that is not an explicit
reset, and the fee stage with an empty slot is the identity. Core Lean only. -/
namespace Revm.Proofs.HandlerCfg
open Revm Revm.Model.HandlerCfg

/-! ### classes of registers -/

/-- the register does not turn rewards on -/
def KeepsDisabled (r : Register) : Prop := r.eff none = none
/-- the register does not turn rewards off -/
def KeepsEnabled (r : Register) : Prop := ∀ k, (r.eff (some k)).isSome = true
/-- the class the headline theorem covers: registers that neither enable nor disable rewards -/
def Neutral (r : Register) : Prop := KeepsDisabled r ∧ KeepsEnabled r

theorem neutral_is_neutral (t : Nat) : Neutral (.neutral t) := ⟨rfl, fun _ => rfl⟩
theorem optimism_false_is_neutral : Neutral (.optimism false) := ⟨rfl, fun _ => rfl⟩
theorem optimism_keepsEnabled (b : Bool) : KeepsEnabled (.optimism b) := by
  intro k; cases b <;> rfl
theorem optimism_true_not_keepsDisabled : ¬ KeepsDisabled (.optimism true) := by
  intro h; simp [KeepsDisabled, Register.eff] at h

/-- which operations a theorem's alphabet contains: appended registers satisfy `P`; explicit resets are
not in the alphabet -/
def Admissible (P : Register → Prop) : Op → Prop
  | .append r => P r
  | .builderAppend r => P r
  | .resetHandler => False
  | .builderMainnet => False
  | .builderOptimism => False
  | _ => True

theorem admissible_not_reset {P : Register → Prop} {op : Op} (h : Admissible P op) : op.isReset = false := by
  cases op <;> first | rfl | exact absurd h (by simp [Admissible])

/-! ### re-application of registers -/

theorem reapply_nil (b : Handler) : reapply b [] = b := rfl
theorem reapply_cons (b : Handler) (r : Register) (rs : List Register) :
    reapply b (r :: rs) = reapply (appendRegister b r) rs := rfl

theorem reapply_registers (b : Handler) (rs : List Register) :
    (reapply b rs).registers = b.registers ++ rs := by
  induction rs generalizing b with
  | nil => simp [reapply_nil]
  | cons r rs ih => rw [reapply_cons, ih]; simp [appendRegister]

theorem reapply_reward_none (b : Handler) (rs : List Register) (hb : b.reward = none)
    (hr : ∀ r ∈ rs, KeepsDisabled r) : (reapply b rs).reward = none := by
  induction rs generalizing b with
  | nil => simpa [reapply_nil] using hb
  | cons r rs ih =>
    rw [reapply_cons]
    apply ih
    · show r.eff b.reward = none
      rw [hb]; exact hr r (List.mem_cons_self ..)
    · intro r' h'; exact hr r' (List.mem_cons_of_mem _ h')

theorem reapply_reward_some (b : Handler) (rs : List Register) (hb : b.reward.isSome = true)
    (hr : ∀ r ∈ rs, KeepsEnabled r) : (reapply b rs).reward.isSome = true := by
  induction rs generalizing b with
  | nil => simpa [reapply_nil] using hb
  | cons r rs ih =>
    rw [reapply_cons]
    apply ih
    · show (r.eff b.reward).isSome = true
      cases hk : b.reward with
      | none => rw [hk] at hb; cases hb
      | some k => exact hr r (List.mem_cons_self ..) k
    · intro r' h'; exact hr r' (List.mem_cons_of_mem _ h')

theorem mainnet_registers (s : Spec) (b : Bool) : (mainnetWithSpec s b).registers = [] := rfl
theorem mainnet_reward_false (s : Spec) : (mainnetWithSpec s false).reward = none := rfl
theorem mainnet_reward_true (s : Spec) : (mainnetWithSpec s true).reward = some .mainnet := rfl

/-! ### the invariants -/

/-- rewards are off and no register of the handler would turn them on when re-applied -/
def Disabled (h : Handler) : Prop := h.reward = none ∧ ∀ r ∈ h.registers, KeepsDisabled r
/-- rewards are on and no register of the handler would turn them off when re-applied -/
def Enabled (h : Handler) : Prop := h.reward.isSome = true ∧ ∀ r ∈ h.registers, KeepsEnabled r

theorem mainnet_disabled (s : Spec) : Disabled (mainnetWithSpec s false) :=
  ⟨rfl, by intro r h; cases h⟩
theorem optimism_disabled (s : Spec) : Disabled (optimismWithSpec s false) :=
  ⟨rfl, by
    intro r h
    have : r = .optimism false := by simpa [optimismWithSpec, appendRegister, mainnetWithSpec] using h
    subst this; rfl⟩
theorem mainnet_enabled (s : Spec) : Enabled (mainnetWithSpec s true) :=
  ⟨rfl, by intro r h; cases h⟩
theorem optimism_enabled (s : Spec) : Enabled (optimismWithSpec s true) :=
  ⟨rfl, by
    intro r h
    have : r = .optimism true := by simpa [optimismWithSpec, appendRegister, mainnetWithSpec] using h
    subst this; exact optimism_keepsEnabled true⟩

private theorem rebuild_disabled (h : Handler) (s : Spec) (rs : List Register) (hd : Disabled h)
    (hsub : ∀ r ∈ rs, r ∈ h.registers) :
    Disabled (reapply (mainnetWithSpec s h.reward.isSome) rs) := by
  have hr : ∀ r ∈ rs, KeepsDisabled r := fun r hr => hd.2 r (hsub r hr)
  have hflag : h.reward.isSome = false := by rw [hd.1]; rfl
  rw [hflag]
  refine ⟨reapply_reward_none _ _ rfl hr, ?_⟩
  rw [reapply_registers, mainnet_registers, List.nil_append]; exact hr

private theorem rebuild_enabled (h : Handler) (s : Spec) (rs : List Register) (hd : Enabled h)
    (hsub : ∀ r ∈ rs, r ∈ h.registers) :
    Enabled (reapply (mainnetWithSpec s h.reward.isSome) rs) := by
  have hr : ∀ r ∈ rs, KeepsEnabled r := fun r hr => hd.2 r (hsub r hr)
  rw [hd.1]
  refine ⟨reapply_reward_some _ _ rfl hr, ?_⟩
  rw [reapply_registers, mainnet_registers, List.nil_append]; exact hr

theorem step_disabled (h : Handler) (op : Op) (hd : Disabled h) (ha : Admissible KeepsDisabled op) :
    Disabled (step h op) := by
  cases op with
  | modifySpecId s | builderSpecId s =>
    show Disabled (modifySpecId h s)
    unfold modifySpecId
    split
    · exact hd
    · exact rebuild_disabled h s h.registers hd (fun _ x => x)
  | append r | builderAppend r =>
    show Disabled (appendRegister h r)
    refine ⟨?_, ?_⟩
    · show r.eff h.reward = none
      rw [hd.1]; exact ha
    · intro r' h'
      have : r' ∈ h.registers ++ [r] := h'
      rcases List.mem_append.mp this with h1 | h1
      · exact hd.2 r' h1
      · have : r' = r := by simpa using h1
        subst this; exact ha
  | pop =>
    show Disabled (popHandleRegister h)
    unfold popHandleRegister
    split
    · exact hd
    · exact rebuild_disabled h h.spec _ hd (fun _ x => List.dropLast_subset _ x)
  | createGeneric s => exact rebuild_disabled h s h.registers hd (fun _ x => x)
  | createGenericDrop s => exact ⟨hd.1, by intro r h'; cases h'⟩
  | rebuild => exact hd
  | resetHandler => exact absurd ha (by simp [Admissible])
  | builderMainnet => exact absurd ha (by simp [Admissible])
  | builderOptimism => exact absurd ha (by simp [Admissible])

theorem step_enabled (h : Handler) (op : Op) (hd : Enabled h) (ha : Admissible KeepsEnabled op) :
    Enabled (step h op) := by
  cases op with
  | modifySpecId s | builderSpecId s =>
    show Enabled (modifySpecId h s)
    unfold modifySpecId
    split
    · exact hd
    · exact rebuild_enabled h s h.registers hd (fun _ x => x)
  | append r | builderAppend r =>
    show Enabled (appendRegister h r)
    refine ⟨?_, ?_⟩
    · show (r.eff h.reward).isSome = true
      cases hk : h.reward with
      | none => have := hd.1; rw [hk] at this; cases this
      | some k => exact ha k
    · intro r' h'
      have : r' ∈ h.registers ++ [r] := h'
      rcases List.mem_append.mp this with h1 | h1
      · exact hd.2 r' h1
      · have : r' = r := by simpa using h1
        subst this; exact ha
  | pop =>
    show Enabled (popHandleRegister h)
    unfold popHandleRegister
    split
    · exact hd
    · exact rebuild_enabled h h.spec _ hd (fun _ x => List.dropLast_subset _ x)
  | createGeneric s => exact rebuild_enabled h s h.registers hd (fun _ x => x)
  | createGenericDrop s => exact ⟨hd.1, by intro r h'; cases h'⟩
  | rebuild => exact hd
  | resetHandler => exact absurd ha (by simp [Admissible])
  | builderMainnet => exact absurd ha (by simp [Admissible])
  | builderOptimism => exact absurd ha (by simp [Admissible])

theorem run_nil (h : Handler) : run h [] = h := rfl
theorem run_cons (h : Handler) (op : Op) (ops : List Op) : run h (op :: ops) = run (step h op) ops := rfl

theorem run_disabled (h : Handler) (ops : List Op) (hd : Disabled h)
    (ha : ∀ op ∈ ops, Admissible KeepsDisabled op) : Disabled (run h ops) := by
  induction ops generalizing h with
  | nil => exact hd
  | cons op ops ih =>
    rw [run_cons]
    exact ih _ (step_disabled h op hd (ha op (List.mem_cons_self ..)))
      (fun o ho => ha o (List.mem_cons_of_mem _ ho))

theorem run_enabled (h : Handler) (ops : List Op) (hd : Enabled h)
    (ha : ∀ op ∈ ops, Admissible KeepsEnabled op) : Enabled (run h ops) := by
  induction ops generalizing h with
  | nil => exact hd
  | cons op ops ih =>
    rw [run_cons]
    exact ih _ (step_enabled h op hd (ha op (List.mem_cons_self ..)))
      (fun o ho => ha o (List.mem_cons_of_mem _ ho))

theorem admissible_mono {P Q : Register → Prop} (hpq : ∀ r, P r → Q r) {op : Op}
    (h : Admissible P op) : Admissible Q op := by
  cases op <;> first | exact hpq _ h | exact h

/-! ### explicit resets enable rewards (why they are outside the alphabet) -/
theorem reset_enables (h : Handler) (op : Op) (hr : op.isReset = true) :
    (step h op).reward.isSome = true := by
  cases op <;> first | cases hr | skip
  · show (handlerNew h.spec h.isOptimism).reward.isSome = true
    unfold handlerNew; cases h.isOptimism <;> rfl
  · rfl
  · rfl

/-! ### the fee stage -/

theorem load_other (db : Db) (st : JState) (a x : Addr) (h : x ≠ a) : load db st a x = st x := by
  simp [load, h]
theorem modify_other (st : JState) (a x : Addr) (f : Acct → Acct) (h : x ≠ a) : modifyAcct st a f x = st x := by
  simp [modifyAcct, h]
theorem creditSat_other (db : Db) (st : JState) (a x : Addr) (v : Nat) (h : x ≠ a) :
    creditSat db st a v x = st x := by
  unfold creditSat; rw [modify_other _ _ _ _ h, load_other _ _ _ _ h]
theorem creditWrap_other (db : Db) (st : JState) (a x : Addr) (v : Nat) (h : x ≠ a) :
    creditWrap db st a v x = st x := by
  unfold creditWrap; rw [modify_other _ _ _ _ h, load_other _ _ _ _ h]

theorem load_self (db : Db) (st : JState) (a : Addr) : load db st a a = some (loaded db st a) := by
  unfold load loaded; simp only [if_true]; cases st a <;> rfl

theorem creditSat_self (db : Db) (st : JState) (a : Addr) (v : Nat) :
    creditSat db st a v a =
      some { loaded db st a with touched := true, bal := U256.saturatingAdd (loaded db st a).bal v } := by
  unfold creditSat modifyAcct; simp only [if_true]; rw [load_self]; rfl

theorem rewardStage_none (db : Db) (e : FeeEnv) (used : Nat) (st : JState) :
    rewardStage none db e used st = some st := rfl

theorem rewardStage_other (rw : Reward) (db : Db) (e : FeeEnv) (used : Nat) (st st' : JState)
    (h : rewardStage rw db e used st = some st') (x : Addr) (hx : x ∉ feeRecipients e rw) :
    st' x = st x := by
  cases rw with
  | none => cases h; rfl
  | some k =>
    cases k with
    | mainnet =>
      have hx' : x ≠ e.coinbase := by simpa [feeRecipients] using hx
      simp only [rewardStage, Option.some.injEq] at h
      subst h
      exact creditSat_other _ _ _ _ _ hx'
    | optimism =>
      have hx' : x ≠ e.coinbase ∧ x ≠ L1_FEE_RECIPIENT ∧ x ≠ BASE_FEE_RECIPIENT ∧ x ≠ OPERATOR_FEE_RECIPIENT := by
        simpa [feeRecipients] using hx
      simp only [rewardStage, rewardOptimism] at h
      cases hl : e.l1 with
      | none => rw [hl] at h; cases h
      | some p =>
        rw [hl] at h
        obtain ⟨l1c, opf⟩ := p
        simp only [Option.some.injEq] at h
        subst h
        rw [creditWrap_other _ _ _ _ _ hx'.2.2.2, creditWrap_other _ _ _ _ _ hx'.2.2.1,
          creditWrap_other _ _ _ _ _ hx'.2.1]
        exact creditSat_other _ _ _ _ _ hx'.1

theorem reimburse_other (db : Db) (e : FeeEnv) (back : Nat) (st : JState) (x : Addr) (h : x ≠ e.caller) :
    reimburseCaller db e back st x = st x := by
  unfold reimburseCaller; rw [modify_other _ _ _ _ h, load_other _ _ _ _ h]

end Revm.Proofs.HandlerCfg
