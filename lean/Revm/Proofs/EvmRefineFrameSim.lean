import Revm.Proofs.EvmRefineCreate
/-! The `createRet` and `callRet` obligations for the strict journal machine vs the snapshot machine, and the frame-level
simulation instance. -/
set_option linter.unusedSimpArgs false
set_option linter.unusedVariables false
namespace Revm.Proofs.EvmRefine
open Revm Revm.Model Revm.Model.Journal Revm.Spec.JournalAbs Revm.Proofs.Journal Revm.Proofs.Frame
open Revm.Model.Evm
open Revm.Spec.Evm (Snap snapshotOps journalOpsStrict)
open Revm.Proofs.EvmSim (ForRel FrameRel FrameSim)

variable {ks1 : List Checkpoint} {ks2 : List Snap} {w1 w2 : World}

theorem setCode_fwd {db : Db} {hs : Addr → Bool} (hbal : DbBal db) {j j' : JState} {a : Addr} {hash : Nat} (g : Good j)
    (hadm : ∀ acc, j.state a = some acc → acc.info.codeHash = Journal.KECCAK_EMPTY)
    (h : Journal.setCode j a hash = some j') : Fwd db hs j j' := by
  obtain ⟨es, p, _⟩ := setCode_pushes (db := db) hadm h
  refine Fwd.of_pushes hbal g (.setCode a hash) (fun cps => by simp [step, h]) (fun base cps => ?_) p (setCode_depth h)
  simp only [admissible]
  cases hx : j.state a with
  | none => rfl
  | some acc => simp [hadm acc hx]

theorem strict_setCode {w : World} {a hash : Nat} {w' : World} (hl : journalOpsStrict.setCode w a hash = .ok w') :
    (∀ acc, w.js.state a = some acc → acc.info.codeHash = Journal.KECCAK_EMPTY) ∧ journalOps.setCode w a hash = .ok w' := by
  change (match w.js.state a with
    | some acc => if acc.info.codeHash = Journal.KECCAK_EMPTY then journalOps.setCode w a hash else Except.error (Err.panic _)
    | none => journalOps.setCode w a hash) = .ok w' at hl
  cases hs' : w.js.state a with
  | none => rw [hs'] at hl; exact ⟨fun _ h => (nomatch h), hl⟩
  | some acc =>
    rw [hs'] at hl
    simp only at hl
    by_cases hc : acc.info.codeHash = Journal.KECCAK_EMPTY
    · rw [if_pos hc] at hl
      refine ⟨fun acc' h => ?_, hl⟩
      cases h; exact hc
    · rw [if_neg hc] at hl; cases hl

/-- `set_code_with_hash` of `create_return` -/
theorem wSetCode_rel (h : CfgRel ks1 w1 ks2 w2) {a hash : Nat} {w1' : World}
    (hl : journalOpsStrict.setCode w1 a hash = .ok w1') :
    ∃ w2', snapshotOps.setCode w2 a hash = .ok w2' ∧ CfgRel ks1 w1' ks2 w2' := by
  obtain ⟨hadm, hl⟩ := strict_setCode hl
  change (do
    let js ← ofOpt "set_code" (Journal.setCode w1.js a hash)
    pure { w1 with js := js } : R World) = .ok w1' at hl
  simp only [bind, Except.bind] at hl
  cases ho : ofOpt "set_code" (Journal.setCode w1.js a hash) with
  | error e => rw [ho] at hl; simp at hl
  | ok j' =>
    rw [ho] at hl
    simp only [pure, Except.pure, Except.ok.injEq] at hl
    subst hl
    have hj := ofOpt_ok ho
    obtain ⟨s', hs', hrel, hdom⟩ := setCode_rel h.w.rel hj
    refine ⟨{ w2 with js := s' }, ?_, h.step (Upd.js w1 j') (Upd.js w2 s') hrel
      (setCode_fwd h.w.dbBal h.good hadm hj) hdom (fun b => rfl)⟩
    show (do
      let js ← ofOpt "set_code" (Journal.setCode w2.js a hash)
      pure { w2 with js := js } : R World) = _
    rw [hs']; rfl

theorem addCode_rel (h : CfgRel ks1 w1 ks2 w2) (hash : Nat) (code : List Nat) :
    CfgRel ks1 (w1.addCode hash code) ks2 (w2.addCode hash code) := by
  unfold World.addCode
  rw [h.w.codes]
  by_cases hk : hash = Evm.KECCAK_EMPTY
  · rw [if_pos hk, if_pos hk]; exact h
  · rw [if_neg hk, if_neg hk]
    cases w1.codes.lookup hash with
    | some _ => exact h
    | none =>
      simp only
      exact h.fwd rfl rfl rfl h.w.logs h.w.pc
        h.w.hs1 h.w.hs2 h.w.rel (Fwd.refl _ _ h.good) (l := []) (Dom.refl _) (fun b => by simp)

/-- the `createRet` obligation -/
theorem createRet_rel (cfg : Cfg) (k1 : Checkpoint) (k2 : Snap) (a : Nat) (r r1 : Interp.ChildResult) (w1' : World)
    (hR : CfgRel (k1 :: ks1) w1 (k2 :: ks2) w2)
    (hl : createReturn journalOpsStrict cfg w1 k1 a r = .ok (r1, w1')) :
    ∃ w2', createReturn snapshotOps cfg w2 k2 a r = .ok (r1, w2') ∧ CfgRel ks1 w1' ks2 w2' := by
  obtain ⟨wr1, wr2, hr1, hr2, hrr⟩ := revert_cfg hR
  have hr1' : journalOpsStrict.revert w1 k1 = .ok wr1 := hr1
  have hcm : CfgRel ks1 (journalOpsStrict.commit w1) ks2 (snapshotOps.commit w2) := commit_rel hR
  unfold createReturn at hl ⊢
  simp only [bind, Except.bind, hr1', hr2] at hl ⊢
  by_cases c1 : (!r.result.isOk) = true
  · simp only [c1, if_true, pure, Except.pure, Except.ok.injEq, Prod.mk.injEq] at hl ⊢
    obtain ⟨h1, h2⟩ := hl
    subst h1; subst h2
    exact ⟨wr2, ⟨rfl, rfl⟩, hrr⟩
  · simp only [c1, Bool.false_eq_true, if_false] at hl ⊢
    by_cases c2 : GasCalc.enabled cfg.spec GasCalc.SpecId.LONDON = true ∧ r.output.head? = some 0xEF
    · simp only [c2, and_self, if_true, pure, Except.pure, Except.ok.injEq, Prod.mk.injEq] at hl ⊢
      obtain ⟨h1, h2⟩ := hl
      subst h1; subst h2
      exact ⟨wr2, ⟨rfl, rfl⟩, hrr⟩
    · rw [if_neg c2] at hl ⊢
      by_cases c3 : GasCalc.enabled cfg.spec GasCalc.SpecId.SPURIOUS_DRAGON = true ∧ r.output.length > cfg.maxCodeSize
      · rw [if_pos c3] at hl ⊢
        simp only [pure, Except.pure, Except.ok.injEq, Prod.mk.injEq] at hl ⊢
        obtain ⟨h1, h2⟩ := hl
        subst h1; subst h2
        exact ⟨wr2, ⟨rfl, rfl⟩, hrr⟩
      · rw [if_neg c3] at hl ⊢
        by_cases c4 : U64ops.wmul r.output.length CODEDEPOSIT ≤ r.gasRemaining
        · simp only [c4, if_true, Bool.false_eq_true, false_and, if_false] at hl ⊢
          cases hsc : journalOpsStrict.setCode (journalOpsStrict.commit w1) a
              (if r.output.isEmpty = true then Evm.KECCAK_EMPTY else Keccak.keccak256w r.output) with
          | error e => rw [hsc] at hl; simp at hl
          | ok wx =>
            rw [hsc] at hl
            obtain ⟨wy, hsy, hrel⟩ := wSetCode_rel hcm hsc
            rw [hsy]
            simp only [pure, Except.pure, Except.ok.injEq, Prod.mk.injEq] at hl ⊢
            obtain ⟨h1, h2⟩ := hl
            subst h1; subst h2
            exact ⟨_, ⟨rfl, rfl⟩, addCode_rel hrel _ _⟩
        · simp only [c4, if_false, true_and] at hl ⊢
          by_cases c5 : GasCalc.enabled cfg.spec GasCalc.SpecId.HOMESTEAD = true
          · simp only [c5, if_true, pure, Except.pure, Except.ok.injEq, Prod.mk.injEq] at hl ⊢
            obtain ⟨h1, h2⟩ := hl
            subst h1; subst h2
            exact ⟨wr2, ⟨rfl, rfl⟩, hrr⟩
          · simp only [c5, Bool.false_eq_true, if_false] at hl ⊢
            cases hsc : journalOpsStrict.setCode (journalOpsStrict.commit w1) a Evm.KECCAK_EMPTY with
            | error e =>
              simp only [List.isEmpty_nil, if_true] at hl
              rw [hsc] at hl; simp at hl
            | ok wx =>
              simp only [List.isEmpty_nil, if_true] at hl ⊢
              rw [hsc] at hl
              obtain ⟨wy, hsy, hrel⟩ := wSetCode_rel hcm hsc
              rw [hsy]
              simp only [pure, Except.pure, Except.ok.injEq, Prod.mk.injEq] at hl ⊢
              obtain ⟨h1, h2⟩ := hl
              subst h1; subst h2
              exact ⟨_, ⟨rfl, rfl⟩, addCode_rel hrel _ _⟩

theorem makeCallFrame_strict (cfg : Cfg) (w : World) (i : Interp.CallInputs) (mem : Memory.SharedMemory) :
    makeCallFrame journalOpsStrict cfg w i mem = makeCallFrame journalOps cfg w i mem := rfl

theorem callReturn_strict (w : World) (k : Checkpoint) (r : Interp.ChildResult) :
    callReturn journalOpsStrict w k r = callReturn journalOps w k r := rfl

/-- **the frame-level simulation**: the (strict) journal machine and the snapshot machine, related by `CfgRel` -/
def frameSim (cfg : Cfg) : FrameSim journalOpsStrict snapshotOps cfg where
  R := CfgRel
  host := fun ks1 w1 ks2 w2 op resp w1' hR h => host_rel cfg.he hR op resp w1' h
  callFrame := fun ks1 w1 ks2 w2 i mem x1 hR h => makeCallFrame_rel cfg i mem hR (by rw [← makeCallFrame_strict]; exact h)
  createFrame := fun ks1 w1 ks2 w2 i mem x1 hR h => makeCreateFrame_rel cfg i mem hR h
  callRet := fun k1 ks1 w1 k2 ks2 w2 r r1 w1' hR h =>
    callRet_rel k1 ks1 w1 k2 ks2 w2 r r1 w1' hR (by rw [← callReturn_strict]; exact h)
  createRet := fun k1 ks1 w1 k2 ks2 w2 a r r1 w1' hR h => createRet_rel cfg k1 k2 a r r1 w1' hR h

end Revm.Proofs.EvmRefine
