import Revm.Proofs.EvmStep2Prim
/-! (e) BALANCE, SELFBALANCE, EXTCODESIZE, EXTCODEHASH, EXTCODECOPY, BLOCKHASH, SSTORE, TSTORE, SELFDESTRUCT:
`Interp.step` is the rule of `Spec/EvmRules2.lean`; the gas is the `Spec/GasCalc.lean` formula of the host's answer. -/
set_option linter.unusedSimpArgs false
set_option linter.unusedVariables false
namespace Revm.Proofs.EvmStep2
open Revm Revm.Model Revm.Model.Interp
open Revm.Model.GasCalc (enabled)
open Revm.Spec.EvmRules Revm.Spec.EvmRules2
open Revm.Spec.GasCalc (ceil32 memCost Fork)
open Revm.Proofs.EvmStep

theorem popAddress_ok (s : IState) (l : List Nat) (a : Nat) (h : s.stack = l ++ [a]) :
    popAddress s = .ok (addrOf a) { s with stack := l } := by
  unfold popAddress
  rw [bind_ok _ _ _ _ _ (pop1_ok s l a h)]
  rfl

theorem popAddress_underflow (s : IState) (h : s.stack.length < 1) :
    popAddress s = .halt .StackUnderflow [] s := by
  unfold popAddress
  rw [bind_halt _ _ _ _ _ _ (pop1_underflow s h)]

theorem push_ok (v : Nat) (s : IState) (h : s.stack.length ≠ 1024) :
    push v s = .ok () { s with stack := s.stack ++ [v] } := by
  simp only [push, Stack.push, Stack.STACK_LIMIT, h, if_false]

theorem push_overflow (v : Nat) (s : IState) (h : s.stack.length = 1024) :
    push v s = .halt .StackOverflow [] s := by
  simp only [push, Stack.push, Stack.STACK_LIMIT, h, if_true, stackErr]

theorem requireSome_ok (r : HostResp) (s : IState) (h : r.ok = true) : requireSome r s = .ok () s := by
  simp [requireSome, h]

theorem requireSome_fail (r : HostResp) (s : IState) (h : ¬ r.ok = true) :
    requireSome r s = .halt .FatalExternalError [] s := by
  simp [requireSome, h]

/-- `gas!(interp, c)` as `needGas` -/
theorem gasCharge_bind (s : IState) (c : Nat) (f : Unit → M Unit) (hg : s.gas.remaining < U64) :
    ((gasCharge c >>= f) s).toDone = needGas s c (fun s' => (f () s').toDone) := by
  unfold needGas
  by_cases h : s.gas.remaining < c
  · rw [bind_halt _ _ _ _ _ _ (gasCharge_fail s c h), if_pos h]; rfl
  · rw [bind_ok _ _ _ _ _ (gasCharge_ok s c hg (by omega)), if_neg h]; rfl

/-! ## BALANCE, EXTCODESIZE, EXTCODEHASH -/

theorem accountQuery_eq (op : Nat → HostOp) (cost : IState → HostResp → Nat) (value : HostResp → Nat)
    (price : Bool → Nat) (s : IState) (hg : s.gas.remaining < U64) (hd : s.stack.length ≤ 1024)
    (hcost : ∀ (s' : IState) (r : HostResp), s'.spec = s.spec → cost s' r = price r.isCold) :
    hostCall (do let a ← popAddress; pure (op a, ()))
      (fun (_ : Unit) r => do
        requireSome r
        let s ← getS
        gasCharge (cost s r)
        push (value r)) s =
      match s.stack.reverse with
      | a :: rest =>
        let s1 := { s with stack := rest.reverse }
        .host (op (addrOf a)) fun r =>
          if !r.ok then .halt .FatalExternalError [] s1
          else needGas s1 (price r.isCold) fun s2 => .next { s2 with stack := (value r :: rest).reverse }
      | [] => .halt .StackUnderflow [] s := by
  rcases hrev : s.stack.reverse with _ | ⟨a, rest⟩
  · have : s.stack.length < 1 := by rw [← List.length_reverse, hrev]; decide
    rw [hostCall_halt _ _ _ _ _ _ _ (popAddress_underflow s this)]
  · have hs : s.stack = rest.reverse ++ [a] := stack_of_reverse (pre := [a]) hrev
    rw [hostCall_ok _ _ _ _ _ _ (popAddress_ok s _ a hs), hostCall_pure]
    simp only []
    have hlen : rest.reverse.length ≠ 1024 := by
      have : s.stack.length = rest.reverse.length + 1 := by rw [hs]; simp
      omega
    have hsp : ({ s with stack := rest.reverse } : IState).spec = s.spec := rfl
    have hg1 : ({ s with stack := rest.reverse } : IState).gas.remaining < U64 := hg
    have hst1 : ({ s with stack := rest.reverse } : IState).stack = rest.reverse := rfl
    generalize ({ s with stack := rest.reverse } : IState) = s1 at hsp hg1 hst1 ⊢
    congr 1
    funext r
    by_cases hok : r.ok = true
    · rw [bind_ok _ _ _ _ _ (requireSome_ok r s1 hok), bind_ok _ _ _ _ _ (getS_ok s1), hcost s1 r hsp]
      simp only [hok, Bool.not_true, Bool.false_eq_true, if_false]
      unfold needGas
      by_cases hc : s1.gas.remaining < price r.isCold
      · rw [bind_halt _ _ _ _ _ _ (gasCharge_fail s1 _ hc), if_pos hc]; rfl
      · rw [bind_ok _ _ _ _ _ (gasCharge_ok s1 _ hg1 (by omega)), if_neg hc]
        have hp := push_ok (value r) (charge s1 (price r.isCold)) (by show s1.stack.length ≠ 1024; rw [hst1]; exact hlen)
        have hst2 : (charge s1 (price r.isCold)).stack = rest.reverse := hst1
        rw [hst2] at hp
        show (push (value r) (charge s1 (price r.isCold))).toDone = _
        rw [hp]
        simp only [Exec.toDone, List.reverse_cons]
    · rw [bind_halt _ _ _ _ _ _ (requireSome_fail r s1 hok)]
      simp [hok, Exec.toDone]

theorem balanceCost_eq (f : Fork) (c : Bool) :
    (if enabled f.id GasCalc.SpecId.BERLIN then GasCalc.warmColdCost c
     else if enabled f.id GasCalc.SpecId.ISTANBUL then 700
     else if enabled f.id GasCalc.SpecId.TANGERINE then 400 else 20) = balanceCost f c := by
  cases f <;> cases c <;> rfl

theorem extcodehashCost_eq (f : Fork) (c : Bool) :
    (if enabled f.id GasCalc.SpecId.BERLIN then GasCalc.warmColdCost c
     else if enabled f.id GasCalc.SpecId.ISTANBUL then 700 else 400) = extcodehashCost f c := by
  cases f <;> cases c <;> rfl

theorem step_balance (f : Fork) (s : IState) (hcode : s.code[s.pc]? = some 0x31) (hwf : WFM s) (hf : s.spec = f.id) :
    step s = balanceRule f s := by
  unfold step
  rw [hcode]
  have hdec : decode 0x31 = .balance := rfl
  simp only [hdec, execInstr, execPure]
  show balanceI (adv s) = _
  unfold balanceI
  rw [accountQuery_eq HostOp.balance _ (·.word) (balanceCost f) (adv s) hwf.gas hwf.depth
    (fun s' r hs' => by
      have e : s'.spec = f.id := hs'.trans hf
      simp only [e]; exact balanceCost_eq f r.isCold)]
  rfl

theorem step_extcodesize (f : Fork) (s : IState) (hcode : s.code[s.pc]? = some 0x3b) (hwf : WFM s)
    (hf : s.spec = f.id) : step s = extcodesizeRule f s := by
  unfold step
  rw [hcode]
  have hdec : decode 0x3b = .extcodesize := rfl
  simp only [hdec, execInstr, execPure]
  show extcodesizeI (adv s) = _
  unfold extcodesizeI
  rw [accountQuery_eq HostOp.code _ (·.bytes.length) (Spec.GasCalc.accountAccess f 20) (adv s) hwf.gas hwf.depth
    (fun s' r hs' => by
      have e : s'.spec = f.id := hs'.trans hf
      simp only [e]; exact Proofs.GasCalc.extBase_eq f r.isCold)]
  rfl

theorem step_extcodehash (f : Fork) (s : IState) (hcode : s.code[s.pc]? = some 0x3f) (hwf : WFM s)
    (hf : s.spec = f.id) : step s = extcodehashRule f s := by
  unfold step
  rw [hcode]
  have hdec : decode 0x3f = .extcodehash := rfl
  simp only [hdec, execInstr, execPure]
  show extcodehashI (adv s) = _
  unfold extcodehashI extcodehashRule
  by_cases hen : enabled s.spec GasCalc.SpecId.CONSTANTINOPLE = true
  · rw [hostCall_ok _ _ _ _ _ _ (check_ok _ (adv s) hen)]
    simp only [hen, Bool.not_true, Bool.false_eq_true, if_false]
    rw [accountQuery_eq HostOp.codeHash _ (·.word) (extcodehashCost f) (adv s) hwf.gas hwf.depth
      (fun s' r hs' => by
        have e : s'.spec = f.id := hs'.trans hf
        simp only [e]; exact extcodehashCost_eq f r.isCold)]
    rfl
  · rw [hostCall_halt _ _ _ _ _ _ _ (check_fail _ (adv s) hen)]
    simp [hen]

/-! ## SELFBALANCE, BLOCKHASH, TSTORE -/

theorem step_selfbalance (s : IState) (hcode : s.code[s.pc]? = some 0x47) (hwf : WFM s) :
    step s = selfbalanceRule s := by
  unfold step
  rw [hcode]
  have hdec : decode 0x47 = .selfbalance := rfl
  simp only [hdec, execInstr, execPure]
  show selfbalanceI (adv s) = _
  unfold selfbalanceI selfbalanceRule
  by_cases hen : enabled s.spec GasCalc.SpecId.ISTANBUL = true
  · rw [hostCall_ok _ _ _ _ _ _ (check_ok _ (adv s) hen)]
    simp only [hen, Bool.not_true, Bool.false_eq_true, if_false]
    unfold needGasO
    by_cases hg : (adv s).gas.remaining < GasCalc.LOW
    · rw [hostCall_halt _ _ _ _ _ _ _ (gasCharge_fail (adv s) _ hg), if_pos hg]
    · rw [hostCall_ok _ _ _ _ _ _ (gasCharge_ok (adv s) _ hwf.gas (by omega)), if_neg hg,
        hostCall_ok _ _ _ _ _ _ (getS_ok _), hostCall_pure]
      show Outcome.host (.balance s.target) _ = _
      congr 1
      funext r
      by_cases hok : r.ok = true
      · rw [bind_ok _ _ _ _ _ (requireSome_ok r _ hok)]
        simp only [hok, Bool.not_true, Bool.false_eq_true, if_false]
        by_cases hl : s.stack.length = 1024
        · rw [push_overflow _ _ (by exact hl), if_pos hl]; rfl
        · rw [push_ok _ _ (by exact hl), if_neg hl]; rfl
      · rw [bind_halt _ _ _ _ _ _ (requireSome_fail r _ hok)]
        have hn : (!r.ok) = true := by simpa using hok
        rw [if_pos hn]; rfl
  · rw [hostCall_halt _ _ _ _ _ _ _ (check_fail _ (adv s) hen)]
    simp [hen]

theorem asUsizeSat_min (n : Nat) : asUsizeSat n = min n (U64 - 1) := by
  unfold asUsizeSat U256.asU64Sat
  have hU := U64_val
  split <;> omega

theorem step_blockhash (s : IState) (hcode : s.code[s.pc]? = some 0x40) (hwf : WFM s) :
    step s = blockhashRule s := by
  unfold step
  rw [hcode]
  have hdec : decode 0x40 = .blockhash := rfl
  simp only [hdec, execInstr, execPure]
  show blockhashI (adv s) = _
  unfold blockhashI blockhashRule needGasO
  by_cases hg : (adv s).gas.remaining < GasCalc.BLOCKHASH
  · rw [hostCall_halt _ _ _ _ _ _ _ (gasCharge_fail (adv s) _ hg), if_pos hg]
  · rw [hostCall_ok _ _ _ _ _ _ (gasCharge_ok (adv s) _ hwf.gas (by omega)), if_neg hg]
    have hst1 : (charge (adv s) GasCalc.BLOCKHASH).stack = s.stack := rfl
    show hostCall _ _ (charge (adv s) GasCalc.BLOCKHASH) = _
    generalize charge (adv s) GasCalc.BLOCKHASH = s1 at hst1 ⊢
    rcases hrev : s.stack.reverse with _ | ⟨n, rest⟩
    · have : s1.stack.length < 1 := by rw [hst1, ← List.length_reverse, hrev]; decide
      rw [hostCall_halt _ _ _ _ _ _ _ (popTop1_underflow s1 this)]
    · have hs : s1.stack = rest.reverse ++ [n] := by rw [hst1]; exact stack_of_reverse (pre := [n]) hrev
      rw [hostCall_ok _ _ _ _ _ _ (popTop1_ok s1 _ n hs), hostCall_pure, asUsizeSat_min]
      simp only []
      congr 1
      funext r
      by_cases hok : r.ok = true
      · rw [bind_ok _ _ _ _ _ (requireSome_ok r _ hok), setTop_ok s1 rest.reverse n r.word hs]
        simp [hok, Exec.toDone]
      · rw [bind_halt _ _ _ _ _ _ (requireSome_fail r _ hok)]
        simp [hok, Exec.toDone]

theorem step_tstore (s : IState) (hcode : s.code[s.pc]? = some 0x5d) (hwf : WFM s) :
    step s = tstoreRule s := by
  unfold step
  rw [hcode]
  have hdec : decode 0x5d = .tstore := rfl
  simp only [hdec, execInstr, execPure]
  show tstoreI (adv s) = _
  unfold tstoreI tstoreRule
  by_cases hen : enabled s.spec GasCalc.SpecId.CANCUN = true
  · rw [hostCall_ok _ _ _ _ _ _ (check_ok _ (adv s) hen)]
    simp only [hen, Bool.not_true, Bool.false_eq_true, if_false]
    by_cases hstc : s.isStatic = true
    · rw [hostCall_halt _ _ _ _ _ _ _ (requireNonStatic_fail (adv s) hstc), if_pos hstc]
    · have hstf : s.isStatic = false := by simpa using hstc
      rw [hostCall_ok _ _ _ _ _ _ (requireNonStatic_ok (adv s) hstf), if_neg hstc]
      unfold needGasO
      by_cases hg : (adv s).gas.remaining < GasCalc.WARM_STORAGE_READ_COST
      · rw [hostCall_halt _ _ _ _ _ _ _ (gasCharge_fail (adv s) _ hg), if_pos hg]
      · rw [hostCall_ok _ _ _ _ _ _ (gasCharge_ok (adv s) _ hwf.gas (by omega)), if_neg hg]
        have hst1 : (charge (adv s) GasCalc.WARM_STORAGE_READ_COST).stack = s.stack := rfl
        have htg : (charge (adv s) GasCalc.WARM_STORAGE_READ_COST).target = s.target := rfl
        show hostCall _ _ (charge (adv s) GasCalc.WARM_STORAGE_READ_COST) = _
        generalize charge (adv s) GasCalc.WARM_STORAGE_READ_COST = s1 at hst1 htg ⊢
        rcases hrev : s.stack.reverse with _ | ⟨key, _ | ⟨v, rest⟩⟩
        · have : s1.stack.length < 2 := by rw [hst1, ← List.length_reverse, hrev]; decide
          rw [hostCall_halt _ _ _ _ _ _ _ (pop2_underflow s1 this)]
        · have : s1.stack.length < 2 := by rw [hst1, ← List.length_reverse, hrev]; simp
          rw [hostCall_halt _ _ _ _ _ _ _ (pop2_underflow s1 this)]
        · have hs : s1.stack = rest.reverse ++ [v, key] := by
            rw [hst1]; exact stack_of_reverse (pre := [key, v]) hrev
          rw [hostCall_ok _ _ _ _ _ _ (pop2_ok s1 _ key v hs)]
          simp only []
          rw [hostCall_ok _ _ _ _ _ _ (getS_ok _), hostCall_pure]
          show Outcome.host (.tstore s1.target key v) _ = _
          rw [htg]
          rfl
  · rw [hostCall_halt _ _ _ _ _ _ _ (check_fail _ (adv s) hen)]
    simp [hen]

/-! ## SSTORE, SELFDESTRUCT -/

theorem sstoreRefund_bound (f : Fork) (pat : Spec.GasCalc.Pattern) :
    -(2^20 : Int) ≤ Spec.GasCalc.sstoreRefund f pat ∧ Spec.GasCalc.sstoreRefund f pat ≤ 2^20 := by
  cases f <;> cases pat <;> decide

/-- `refund!` on a counter far from the ends of `i64` is addition -/
theorem refund_eq (s : IState) (r : Int) (hs : -(2^62 : Int) ≤ s.gas.refunded ∧ s.gas.refunded ≤ 2^62)
    (hr : -(2^20 : Int) ≤ r ∧ r ≤ 2^20) : refund r s = .ok () (addRefund s r) := by
  have e := Proofs.Gas.i64WrapAdd_exact s.gas.refunded r (by unfold Gas.I64MIN; omega) (by unfold Gas.I64MAX; omega)
  simp only [refund, modifyS, addRefund, Gas.recordRefund, e]

theorem step_sstore (f : Fork) (s : IState) (hcode : s.code[s.pc]? = some 0x55) (hwf : WFM s) (hf : s.spec = f.id) :
    step s = sstoreRule f s := by
  unfold step
  rw [hcode]
  have hdec : decode 0x55 = .sstore := rfl
  simp only [hdec, execInstr, execPure]
  show sstoreI (adv s) = _
  unfold sstoreI sstoreRule
  by_cases hstc : s.isStatic = true
  · rw [hostCall_halt _ _ _ _ _ _ _ (requireNonStatic_fail (adv s) hstc), if_pos hstc]
  · have hstf : s.isStatic = false := by simpa using hstc
    rw [hostCall_ok _ _ _ _ _ _ (requireNonStatic_ok (adv s) hstf), if_neg hstc]
    rcases hrev : s.stack.reverse with _ | ⟨key, _ | ⟨v, rest⟩⟩
    · have : (adv s).stack.length < 2 := by show s.stack.length < 2; rw [← List.length_reverse, hrev]; decide
      rw [hostCall_halt _ _ _ _ _ _ _ (pop2_underflow (adv s) this)]
    · have : (adv s).stack.length < 2 := by show s.stack.length < 2; rw [← List.length_reverse, hrev]; simp
      rw [hostCall_halt _ _ _ _ _ _ _ (pop2_underflow (adv s) this)]
    · have hs : (adv s).stack = rest.reverse ++ [v, key] := stack_of_reverse (pre := [key, v]) hrev
      rw [hostCall_ok _ _ _ _ _ _ (pop2_ok (adv s) _ key v hs)]
      simp only []
      rw [hostCall_ok _ _ _ _ _ _ (getS_ok _), hostCall_pure]
      have hg1 : ({ adv s with stack := rest.reverse } : IState).gas.remaining < U64 := hwf.gas
      have hsp1 : ({ adv s with stack := rest.reverse } : IState).spec = f.id := hf
      have hrf1 : -(2^62 : Int) ≤ ({ adv s with stack := rest.reverse } : IState).gas.refunded ∧
          ({ adv s with stack := rest.reverse } : IState).gas.refunded ≤ 2^62 := hwf.refund
      have hrem1 : ({ adv s with stack := rest.reverse } : IState).gas.remaining = (adv s).gas.remaining := rfl
      show Outcome.host (.sstore s.target key v) _ = _
      generalize ({ adv s with stack := rest.reverse } : IState) = s1 at hg1 hsp1 hrf1 hrem1 ⊢
      rw [← hrem1]
      congr 1
      funext r
      by_cases hok : r.ok = true
      · rw [bind_ok _ _ _ _ _ (requireSome_ok r _ hok), bind_ok _ _ _ _ _ (getS_ok _), hsp1,
          Proofs.GasCalc.sstoreCost_eq f _ _ _ _ _ _ (Proofs.GasCalc.classify_holds r.original r.present r.new),
          Proofs.GasCalc.sstoreRefund_eq f _ _ _ _ (Proofs.GasCalc.classify_holds r.original r.present r.new)]
        simp only [hok, Bool.not_true, Bool.false_eq_true, if_false]
        generalize Spec.GasCalc.classify r.original r.present r.new = pat
        cases hc : Spec.GasCalc.sstoreCost f pat s1.gas.remaining r.isCold with
        | none => rfl
        | some c =>
          simp only [gasOrFail]
          unfold needGas
          by_cases hlt : s1.gas.remaining < c
          · rw [bind_halt _ _ _ _ _ _ (gasCharge_fail s1 _ hlt), if_pos hlt]; rfl
          · rw [bind_ok _ _ _ _ _ (gasCharge_ok s1 _ hg1 (by omega)), if_neg hlt]
            show (refund (Spec.GasCalc.sstoreRefund f pat) (charge s1 c)).toDone = _
            rw [refund_eq (charge s1 c) _ hrf1 (sstoreRefund_bound f pat)]
            rfl
      · rw [bind_halt _ _ _ _ _ _ (requireSome_fail r _ hok)]
        have hn : (!r.ok) = true := by simpa using hok
        rw [if_pos hn]; rfl

theorem step_selfdestruct (f : Fork) (s : IState) (hcode : s.code[s.pc]? = some 0xff) (hwf : WFM s)
    (hf : s.spec = f.id) : step s = selfdestructRule f s := by
  unfold step
  rw [hcode]
  have hdec : decode 0xff = .selfdestruct := rfl
  simp only [hdec, execInstr, execPure]
  show selfdestructI (adv s) = _
  unfold selfdestructI selfdestructRule
  by_cases hstc : s.isStatic = true
  · rw [hostCall_halt _ _ _ _ _ _ _ (requireNonStatic_fail (adv s) hstc), if_pos hstc]
  · have hstf : s.isStatic = false := by simpa using hstc
    rw [hostCall_ok _ _ _ _ _ _ (requireNonStatic_ok (adv s) hstf), if_neg hstc]
    rcases hrev : s.stack.reverse with _ | ⟨t, rest⟩
    · have : (adv s).stack.length < 1 := by show s.stack.length < 1; rw [← List.length_reverse, hrev]; decide
      rw [hostCall_halt _ _ _ _ _ _ _ (popAddress_underflow (adv s) this)]
    · have hs : (adv s).stack = rest.reverse ++ [t] := stack_of_reverse (pre := [t]) hrev
      rw [hostCall_ok _ _ _ _ _ _ (popAddress_ok (adv s) _ t hs), hostCall_ok _ _ _ _ _ _ (getS_ok _), hostCall_pure]
      have hg1 : ({ adv s with stack := rest.reverse } : IState).gas.remaining < U64 := hwf.gas
      have hsp1 : ({ adv s with stack := rest.reverse } : IState).spec = f.id := hf
      have hrf1 : -(2^62 : Int) ≤ ({ adv s with stack := rest.reverse } : IState).gas.refunded ∧
          ({ adv s with stack := rest.reverse } : IState).gas.refunded ≤ 2^62 := hwf.refund
      show Outcome.host (.selfdestruct s.target (addrOf t)) _ = _
      simp only []
      generalize ({ adv s with stack := rest.reverse } : IState) = s1 at hg1 hsp1 hrf1 ⊢
      congr 1
      funext r
      by_cases hok : r.ok = true
      · rw [bind_ok _ _ _ _ _ (requireSome_ok r _ hok), bind_ok _ _ _ _ _ (getS_ok _), hsp1,
          Proofs.GasCalc.en_london, Proofs.GasCalc.selfdestructCost_eq]
        simp only [hok, Bool.not_true, Bool.false_eq_true, if_false]
        generalize Spec.GasCalc.selfdestructCost f r.hadValue r.targetExists r.isCold = c
        by_cases hrf : (!f.hasEIP3529 && !r.previouslyDestroyed) = true
        · simp only [hrf, if_true]
          have h24 : refund GasCalc.SELFDESTRUCT s1 = .ok () (addRefund s1 24000) :=
            refund_eq s1 24000 hrf1 (by decide)
          rw [bind_ok _ _ _ _ _ h24]
          unfold needGas
          have hg2 : (addRefund s1 24000).gas.remaining < U64 := hg1
          by_cases hlt : (addRefund s1 24000).gas.remaining < c
          · rw [bind_halt _ _ _ _ _ _ (gasCharge_fail _ _ hlt), if_pos hlt]; rfl
          · rw [bind_ok _ _ _ _ _ (gasCharge_ok _ _ hg2 (by omega)), if_neg hlt]; rfl
        · simp only [hrf, if_false, Bool.false_eq_true]
          unfold needGas
          by_cases hlt : s1.gas.remaining < c
          · rw [bind_halt _ _ _ _ _ _ (gasCharge_fail _ _ hlt), if_pos hlt]; rfl
          · rw [bind_ok _ _ _ _ _ (gasCharge_ok _ _ hg1 (by omega)), if_neg hlt]; rfl
      · rw [bind_halt _ _ _ _ _ _ (requireSome_fail r _ hok)]
        have hn : (!r.ok) = true := by simpa using hok
        rw [if_pos hn]; rfl

/-! ## EXTCODECOPY -/

theorem accountAccess_lt (f : Fork) (c : Bool) : Spec.GasCalc.accountAccess f 20 c < 2^40 := by
  cases f <;> cases c <;> decide

/-- `gas_or_fail!(extcodecopy_cost(spec, len, cold))` -/
theorem extCharge_eq (f : Fork) (s : IState) (len : Nat) (cold : Bool) (hsp : s.spec = f.id) (hl : len < U64)
    (hg : s.gas.remaining < GAS_BOUND) :
    gasOrFail (GasCalc.extcodecopyCost s.spec len cold) s
      = if s.gas.remaining < Spec.GasCalc.extcodecopyCost f len cold then .halt .OutOfGas [] s
        else .ok () (charge s (Spec.GasCalc.extcodecopyCost f len cold)) := by
  unfold GasCalc.extcodecopyCost Spec.GasCalc.extcodecopyCost
  simp only []
  rw [hsp, Proofs.GasCalc.extBase_eq]
  exact gasOrFail_words s _ GasCalc.COPY len (by decide) (by decide) (accountAccess_lt f cold) hl hg

theorem asUsizeSat_lt' (v : Nat) : asUsizeSat v < U64 := by
  unfold asUsizeSat U256.asU64Sat
  have hU := U64_val
  split <;> omega

/-- `min(as_usize_saturated!(code_offset), code.len())` reads the same bytes as the unbounded offset -/
theorem paddedSlice_min (data : List Nat) (d len : Nat) (hd : data.length ≤ Memory.ISIZE_MAX) :
    Spec.Memory.paddedSlice data (min (asUsizeSat d) data.length) len = Spec.Memory.paddedSlice data d len := by
  have hI := Proofs.Memory.isize_lt_u64
  unfold asUsizeSat U256.asU64Sat
  by_cases h : d < U64
  · rw [if_pos h]
    by_cases h2 : d ≤ data.length
    · rw [Nat.min_eq_left h2]
    · rw [Nat.min_eq_right (by omega)]
      unfold Spec.Memory.paddedSlice
      rw [List.drop_of_length_le (Nat.le_refl _), List.drop_of_length_le (by omega)]
  · rw [if_neg h, Nat.min_eq_right (by omega)]
    unfold Spec.Memory.paddedSlice
    rw [List.drop_of_length_le (Nat.le_refl _), List.drop_of_length_le (by omega)]

theorem extcodecopyPost_eq (f : Fork) (s1 : IState) (memOff codeOff len : Nat) (r : HostResp) (h1 : MemOK s1)
    (hsp : s1.spec = f.id) (hmo : memOff < W) (hlen : len < W) (hb : r.bytes.length ≤ Memory.ISIZE_MAX) :
    ((do requireSome r
         let len ← asUsizeOrFail len
         let s ← getS
         gasOrFail (GasCalc.extcodecopyCost s.spec len r.isCold)
         if len = 0 then pure () else do
           let memOff ← asUsizeOrFail memOff
           let codeOff := min (asUsizeSat codeOff) r.bytes.length
           resizeMem memOff len
           memSetData memOff codeOff len r.bytes : M Unit) s1).toDone =
      if !r.ok then .halt .FatalExternalError [] s1
      else if U64 ≤ len then .halt .InvalidOperandOOG [] s1
      else needGas s1 (Spec.GasCalc.extcodecopyCost f len r.isCold) fun s2 =>
        if len = 0 then .next s2
        else if U64 ≤ memOff then .halt .InvalidOperandOOG [] s2
        else memAccess s2 memOff len fun s3 =>
          .next (setMem s3 (store (memOf s3) memOff (Spec.Memory.paddedSlice r.bytes codeOff len))) := by
  by_cases hok : r.ok = true
  · rw [bind_ok _ _ _ _ _ (requireSome_ok r _ hok)]
    simp only [hok, Bool.not_true, Bool.false_eq_true, if_false]
    by_cases hl : U64 ≤ len
    · rw [bind_halt _ _ _ _ _ _ (asUsizeOrFail_fail len _ s1 hl hlen), if_pos hl]; rfl
    · rw [bind_ok _ _ _ _ _ (asUsizeOrFail_ok len _ s1 (by omega)), if_neg hl, bind_ok _ _ _ _ _ (getS_ok _)]
      unfold needGas
      have hcc := extCharge_eq f s1 len r.isCold hsp (by omega) h1.bound
      by_cases hg : s1.gas.remaining < Spec.GasCalc.extcodecopyCost f len r.isCold
      · rw [if_pos hg] at hcc
        rw [bind_halt _ _ _ _ _ _ hcc, if_pos hg]; rfl
      · rw [if_neg hg] at hcc
        rw [bind_ok _ _ _ _ _ hcc, if_neg hg]
        have h2 : MemOK (charge s1 (Spec.GasCalc.extcodecopyCost f len r.isCold)) := h1.charge _
        generalize charge s1 (Spec.GasCalc.extcodecopyCost f len r.isCold) = s2 at h2 ⊢
        by_cases hz : len = 0
        · simp only [hz, if_true]; rfl
        · simp only [hz, if_false]
          by_cases hm : U64 ≤ memOff
          · rw [bind_halt _ _ _ _ _ _ (asUsizeOrFail_fail memOff _ s2 hm hmo), if_pos hm]; rfl
          · rw [bind_ok _ _ _ _ _ (asUsizeOrFail_ok memOff _ s2 (by omega)), if_neg hm]
            unfold memAccess
            by_cases hc : s2.gas.remaining < touchCost (memOf s2) memOff len
            · rw [bind_halt _ _ _ _ _ _ (resizeMem_fail s2 _ len h2 (by omega) (by omega) hc), if_pos hc]; rfl
            · rw [bind_ok _ _ _ _ _ (resizeMem_ok s2 _ len h2 (by omega) (by omega) hc), if_neg hc]
              have h3 := h2.touch memOff len hc
              have hcov := touch_covers (memOf s2) memOff len
              have hm3 : memOf (setMem (charge s2 (touchCost (memOf s2) memOff len))
                  (touch (memOf s2) memOff len)) = touch (memOf s2) memOff len := memOf_setMem h2.mem _
              generalize setMem (charge s2 (touchCost (memOf s2) memOff len))
                (touch (memOf s2) memOff len) = s3 at h3 hm3 ⊢
              rw [memSetData_eq s3 memOff _ len r.bytes h3.mem hb
                  (Nat.lt_of_le_of_lt (Nat.min_le_left _ _) (asUsizeSat_lt' _)) (by rw [hm3]; exact hcov),
                paddedSlice_min _ _ _ hb]
              rfl
  · rw [bind_halt _ _ _ _ _ _ (requireSome_fail r _ hok)]
    have hn : (!r.ok) = true := by simpa using hok
    rw [if_pos hn]; rfl

/-- EXTCODECOPY agrees with its rule for every answer whose code is a Rust slice (`≤ isize::MAX` bytes) -/
theorem step_extcodecopy (f : Fork) (s : IState) (hcode : s.code[s.pc]? = some 0x3c) (hwf : WFM s)
    (hf : s.spec = f.id) :
    AgreeOn (fun r => r.bytes.length ≤ Memory.ISIZE_MAX) (step s) (extcodecopyRule f s) := by
  unfold step
  rw [hcode]
  have hdec : decode 0x3c = .extcodecopy := rfl
  simp only [hdec, execInstr, execPure]
  show AgreeOn _ (extcodecopyI (adv s)) _
  unfold extcodecopyI extcodecopyRule
  rcases hrev : s.stack.reverse with _ | ⟨a, tl⟩
  · have : (adv s).stack.length < 1 := by show s.stack.length < 1; rw [← List.length_reverse, hrev]; decide
    rw [hostCall_halt _ _ _ _ _ _ _ (popAddress_underflow (adv s) this)]
    exact rfl
  · have hs : (adv s).stack = tl.reverse ++ [a] := stack_of_reverse (pre := [a]) hrev
    rw [hostCall_ok _ _ _ _ _ _ (popAddress_ok (adv s) _ a hs)]
    have h1 : MemOK { adv s with stack := tl.reverse } := hwf.memOK.adv.stack _
    have hsp1 : ({ adv s with stack := tl.reverse } : IState).spec = f.id := hf
    have hst1 : ({ adv s with stack := tl.reverse } : IState).stack = tl.reverse := rfl
    have hw1 : ∀ w ∈ tl, w < W := by
      intro w hw
      exact lt_W_of_mem hwf.words (pre := a :: tl) (rest := []) (by simpa using hrev) (List.mem_cons_of_mem _ hw)
    rcases tl with _ | ⟨memOff, _ | ⟨codeOff, _ | ⟨len, rest⟩⟩⟩
    · rw [hostCall_halt _ _ _ _ _ _ _ (pop3_underflow _ (by simp))]; exact rfl
    · rw [hostCall_halt _ _ _ _ _ _ _ (pop3_underflow _ (by simp))]; exact rfl
    · rw [hostCall_halt _ _ _ _ _ _ _ (pop3_underflow _ (by simp))]; exact rfl
    · have hs3 : ({ adv s with stack := (memOff :: codeOff :: len :: rest).reverse } : IState).stack
          = rest.reverse ++ [len, codeOff, memOff] := by simp
      rw [hostCall_ok _ _ _ _ _ _ (pop3_ok _ _ memOff codeOff len hs3), hostCall_pure]
      simp only []
      have h2 : MemOK { adv s with stack := rest.reverse } := hwf.memOK.adv.stack _
      have hsp2 : ({ adv s with stack := rest.reverse } : IState).spec = f.id := hf
      refine ⟨rfl, fun r hb => ?_⟩
      exact extcodecopyPost_eq f _ memOff codeOff len r h2 hsp2 (hw1 _ (by simp)) (hw1 _ (by simp)) hb

end Revm.Proofs.EvmStep2
