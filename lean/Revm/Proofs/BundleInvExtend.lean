import Revm.Proofs.BundleInvRevert
/-! C18: `BundleState::extend` of two bundles built by fresh `State`s over consecutive halves of a history
describes the post-state of the whole history (post-state part of `ExtendStatement`). Core Lean only. -/
namespace Revm.Proofs.Bundle
open Revm.Model.Bundle Revm.Spec.Bundle

set_option linter.unusedSimpArgs false
set_option linter.unusedVariables false

/-! ## the revert-rewriting loop of `extend`, named -/

def erMergeStorage (taStorage : BMap Slot) (rs : BMap RevSlot) : BMap RevSlot :=
  taStorage.foldl (fun acc s => match acc.get s.1 with
    | none => acc.set s.1 (RevSlot.some s.2.present)
    | some _ => acc) rs

def erStepAcc (state : BMap BAcct) (e : Nat × ARevert) : BMap BAcct × (Nat × ARevert) :=
  if e.2.wipe then
    match state.get e.1 with
    | some ta =>
      (state.set e.1 { ta with storage := [] },
       (e.1, { e.2 with storage := erMergeStorage ta.storage e.2.storage,
                        wipe := if ta.status.wasDestroyed then false else e.2.wipe }))
    | none => (state, e)
  else (state, e)

def erStepBlk (state : BMap BAcct) (blk : BMap ARevert) : BMap BAcct × BMap ARevert :=
  blk.foldl (fun (acc : BMap BAcct × BMap ARevert) e => ((erStepAcc acc.1 e).1, acc.2 ++ [(erStepAcc acc.1 e).2])) (state, [])

theorem extendReverts_eq (state : BMap BAcct) (revs : List (BMap ARevert)) :
    extendReverts state revs = revs.foldl (fun (acc : BMap BAcct × List (BMap ARevert)) blk =>
      ((erStepBlk acc.1 blk).1, acc.2 ++ [(erStepBlk acc.1 blk).2])) (state, []) := rfl

theorem extend_state_eq (this other : BState) :
    (extend this other).state = extendState (extendReverts this.state other.reverts).1 other.state := by
  unfold extend
  generalize extendReverts this.state other.reverts = p
  obtain ⟨st, revs⟩ := p
  rfl

theorem extend_reverts_eq (this other : BState) :
    (extend this other).reverts = this.reverts ++ (extendReverts this.state other.reverts).2 := by
  unfold extend
  generalize extendReverts this.state other.reverts = p
  obtain ⟨st, revs⟩ := p
  rfl

/-! ## the state part of the loop only drains storages of accounts that have a wiping revert -/

def drainOf (ta : BAcct) : BAcct := { ta with storage := [] }

def Drained (this st : BMap BAcct) (W : Nat → Prop) : Prop :=
  WF st ∧ ∀ a, st.get a = this.get a ∨ (W a ∧ ∃ ta, this.get a = some ta ∧ st.get a = some (drainOf ta))

theorem Drained.refl (this : BMap BAcct) (W : Nat → Prop) (hw : WF this) : Drained this this W :=
  ⟨hw, fun _ => Or.inl rfl⟩

theorem erStepAcc_drained (this st : BMap BAcct) (W : Nat → Prop) (e : Nat × ARevert) (h : Drained this st W)
    (hW : e.2.wipe = true → W e.1) : Drained this (erStepAcc st e).1 W := by
  unfold erStepAcc
  cases hwp : e.2.wipe with
  | false => simp only [Bool.false_eq_true, if_false]; exact h
  | true =>
    simp only [if_true]
    cases hg : st.get e.1 with
    | none => exact h
    | some ta' =>
      refine ⟨WF_set _ _ _ h.1, fun a => ?_⟩
      simp only [get_set]
      by_cases ha : e.1 = a
      · subst ha
        simp only [if_true]
        refine Or.inr ⟨hW hwp, ?_⟩
        cases h.2 e.1 with
        | inl h1 => exact ⟨ta', by rw [← h1]; exact hg, rfl⟩
        | inr h1 =>
          obtain ⟨_, ta, h2, h3⟩ := h1
          rw [hg] at h3
          injection h3 with h3
          exact ⟨ta, h2, by rw [h3]; rfl⟩
      · simp only [ha, if_false]; exact h.2 a

theorem erStepBlk_fst (st : BMap BAcct) (blk : BMap ARevert) (l : BMap ARevert) :
    (blk.foldl (fun (acc : BMap BAcct × BMap ARevert) e => ((erStepAcc acc.1 e).1, acc.2 ++ [(erStepAcc acc.1 e).2])) (st, l)).1 =
      blk.foldl (fun st e => (erStepAcc st e).1) st := by
  induction blk generalizing st l with
  | nil => rfl
  | cons e r ih => simp only [List.foldl]; exact ih _ _

theorem erStepBlk_drained (this st : BMap BAcct) (W : Nat → Prop) (blk : BMap ARevert) (h : Drained this st W)
    (hW : ∀ e, e ∈ blk → e.2.wipe = true → W e.1) : Drained this (erStepBlk st blk).1 W := by
  unfold erStepBlk
  rw [erStepBlk_fst]
  induction blk generalizing st with
  | nil => exact h
  | cons e r ih =>
    simp only [List.foldl]
    exact ih _ (erStepAcc_drained this st W e h (hW e List.mem_cons_self))
      (fun e' he' => hW e' (List.mem_cons_of_mem _ he'))

theorem extendReverts_fst (st : BMap BAcct) (revs : List (BMap ARevert)) (l : List (BMap ARevert)) :
    (revs.foldl (fun (acc : BMap BAcct × List (BMap ARevert)) blk =>
      ((erStepBlk acc.1 blk).1, acc.2 ++ [(erStepBlk acc.1 blk).2])) (st, l)).1 =
      revs.foldl (fun st blk => (erStepBlk st blk).1) st := by
  induction revs generalizing st l with
  | nil => rfl
  | cons e r ih => simp only [List.foldl]; exact ih _ _

/-- an address has a storage-wiping revert in some block -/
def Wiped (revs : List (BMap ARevert)) (a : Nat) : Prop :=
  ∃ blk, blk ∈ revs ∧ ∃ r, (a, r) ∈ blk ∧ r.wipe = true

theorem extendReverts_drained (this : BMap BAcct) (revs : List (BMap ARevert)) (hw : WF this) :
    Drained this (extendReverts this revs).1 (Wiped revs) := by
  rw [extendReverts_eq, extendReverts_fst]
  have gen : ∀ (rs : List (BMap ARevert)) (st : BMap BAcct), Drained this st (Wiped revs) →
      (∀ blk, blk ∈ rs → blk ∈ revs) →
      Drained this (rs.foldl (fun st blk => (erStepBlk st blk).1) st) (Wiped revs) := by
    intro rs
    induction rs with
    | nil => intro st h _; exact h
    | cons blk r ih =>
      intro st h hsub
      simp only [List.foldl]
      exact ih _ (erStepBlk_drained this st _ blk h
          (fun e he hwp => ⟨blk, hsub blk List.mem_cons_self, e.2, he, hwp⟩))
        (fun b hb => hsub b (List.mem_cons_of_mem _ hb))
  exact gen revs this (Drained.refl this _ hw) (fun _ h => h)

/-! ## `extend_state`, per address -/

def extF (o : BAcct) (t? : Option BAcct) : Option BAcct :=
  some (match t? with
    | some t => { t with storage := if o.status.wasDestroyed then o.storage else extendStorage t.storage o.storage,
                         info := o.info, status := t.status.transition o.status }
    | none => o)

theorem extStep_get (acc : BMap BAcct) (e : Nat × BAcct) (k : Nat) :
    (extStep acc e).get k = if e.1 = k then extF e.2 (acc.get k) else acc.get k := by
  unfold extStep extF
  by_cases hk : e.1 = k
  · subst hk; cases acc.get e.1 <;> simp [get_set]
  · cases acc.get e.1 <;> simp [get_set, hk]

theorem extStep_WF (acc : BMap BAcct) (e : Nat × BAcct) (hw : WF acc) : WF (extStep acc e) := by
  unfold extStep; cases acc.get e.1 <;> exact WF_set _ _ _ hw

theorem extendState_get (this other : BMap BAcct) (hw : WF other) (a : Nat) :
    (extendState this other).get a = (other.get a).elim (this.get a) (fun o => extF o (this.get a)) := by
  rw [extendState_eq]; exact foldl_get extStep_get other hw this a

theorem extendState_WF (this other : BMap BAcct) (hw : WF this) : WF (extendState this other) := by
  rw [extendState_eq]; exact foldl_WF extStep_WF other this hw

theorem transition_wd (s o : Status) : (s.transition o).wasDestroyed = (s.wasDestroyed || o.wasDestroyed) := by
  cases s <;> cases o <;> rfl

/-- the extended bundle describes the step from the first bundle's pre-state to the second bundle's post-state -/
theorem extend_bundleOK (b1 b2 : BState) (p0 r1 r2 : Plain) (h1 : BundleOK b1.state p0 r1)
    (h2 : BundleOK b2.state r1 r2) (hwi : WipeInv b2) : BundleOK (extend b1 b2).state p0 r2 := by
  have hd := extendReverts_drained b1.state b2.reverts h1.1
  rw [extend_state_eq]
  refine ⟨extendState_WF _ _ hd.1, fun a => ?_⟩
  rw [extendState_get _ _ h2.1]
  have hb1 := h1.2 a
  have hb2 := h2.2 a
  cases ho : b2.state.get a with
  | none =>
    rw [ho] at hb2
    simp only [Option.elim]
    have hst : (extendReverts b1.state b2.reverts).1.get a = b1.state.get a := by
      cases hd.2 a with
      | inl h => exact h
      | inr h =>
        obtain ⟨⟨blk, hblk, r, hm, hwp⟩, _⟩ := h
        obtain ⟨o, hoo, _⟩ := hwi blk hblk a r hm hwp
        rw [ho] at hoo; cases hoo
    rw [hst]
    have hs : (fun k => r2.slot a k) = fun k => r1.slot a k := funext hb2.2
    cases hb : b1.state.get a with
    | none => rw [hb] at hb1; simp only; exact ⟨by rw [hb2.1]; exact hb1.1, fun k => by rw [hb2.2, hb1.2]⟩
    | some t => rw [hb] at hb1; simp only; rw [hb2.1, hs]; exact hb1
  | some o =>
    rw [ho] at hb2
    obtain ⟨hoi, hoo, hos⟩ := hb2
    simp only [Option.elim, extF]
    cases hst : (extendReverts b1.state b2.reverts).1.get a with
    | none =>
      have hb : b1.state.get a = none := by
        cases hd.2 a with
        | inl h => rw [← h]; exact hst
        | inr h => obtain ⟨_, ta, _, h3⟩ := h; rw [hst] at h3; cases h3
      rw [hb] at hb1
      simp only
      have hs : (fun k => r1.slot a k) = fun k => p0.slot a k := funext hb1.2
      rw [hs] at hos
      exact ⟨hoi, by rw [hoo]; exact hb1.1, hos⟩
    | some t =>
      simp only
      -- the first bundle's account, possibly with drained storage
      have hb : ∃ t1, b1.state.get a = some t1 ∧ t.info = t1.info ∧ t.origInfo = t1.origInfo ∧ t.status = t1.status ∧
          (t = t1 ∨ o.status.wasDestroyed = true) := by
        cases hd.2 a with
        | inl h => exact ⟨t, by rw [← h]; exact hst, rfl, rfl, rfl, Or.inl rfl⟩
        | inr h =>
          obtain ⟨⟨blk, hblk, r, hm, hwp⟩, ta, h2, h3⟩ := h
          rw [hst] at h3; injection h3 with h3
          obtain ⟨o', hoo', hwd⟩ := hwi blk hblk a r hm hwp
          rw [ho] at hoo'; injection hoo' with hoo'
          exact ⟨ta, h2, by rw [h3]; rfl, by rw [h3]; rfl, by rw [h3]; rfl, Or.inr (by rw [hoo']; exact hwd)⟩
      obtain ⟨t1, hb1g, _, hto, hts, hcase⟩ := hb
      rw [hb1g] at hb1
      obtain ⟨_, h1o, h1s⟩ := hb1
      refine ⟨hoi, by rw [hto]; exact h1o, ?_⟩
      cases howd : o.status.wasDestroyed with
      | true =>
        simp only [if_true]
        have hod := (storageInv_d o _ _ howd).mp hos
        exact (storageInv_d _ _ _ (by simp only [transition_wd, howd, Bool.or_true])).mpr hod
      | false =>
        simp only [Bool.false_eq_true, if_false]
        have htt : t = t1 := by
          cases hcase with
          | inl h => exact h
          | inr h => rw [howd] at h; cases h
        subst htt
        have hon := (storageInv_nd o _ _ howd).mp hos
        cases htwd : t.status.wasDestroyed with
        | true =>
          have htd := (storageInv_d t _ _ htwd).mp h1s
          exact (storageInv_d _ _ _ (by simp only [transition_wd, htwd, Bool.true_or])).mpr
            (st_extend_d _ _ _ _ htd hon)
        | false =>
          have htn := (storageInv_nd t _ _ htwd).mp h1s
          exact (storageInv_nd _ _ _ (by simp only [transition_wd, htwd, howd, Bool.or_false])).mpr
            (st_extend_nd _ _ _ _ _ htn hon)

/-- post-state half of `Spec.ExtendStatement` -/
def ExtendPostStatement : Prop :=
  ∀ (db db2 : BMap Info) (sc : Bool) (p0 : Plain) (h1 h2 : List Group) (known : Bool),
    dbMatches db p0 → plainWF p0 → reachHistory sc p0 (h1 ++ h2) = true →
    ∃ l1 l2, runHistory { db := db, sc := sc } p0 h1 = some l1 ∧
      ∀ s1 r1, l1.getLast? = some (s1, r1) → dbMatches db2 r1 →
        runHistory { db := db2, sc := sc } r1 h2 = some l2 ∧
        ∀ s2 r2, l2.getLast? = some (s2, r2) →
          PlainEq (applyChangeset (toPlainState (extend s1.bundle s2.bundle) known) p0) r2

theorem extend_post_proof : ExtendPostStatement := by
  intro db db2 sc p0 h1 h2 known hdb hwf hr
  rw [reachHistory_append, Bool.and_eq_true] at hr
  obtain ⟨l1, q1, _, q3⟩ := runHistory_inv sc p0 h1 { db := db, sc := sc } p0 (init_inv db sc p0 hdb hwf) rfl hr.1
  cases hl1 : l1.getLast? with
  | none => exact ⟨l1, [], q1, fun s1 r1 h => by rw [hl1] at h; cases h⟩
  | some x =>
    obtain ⟨s1, r1⟩ := x
    obtain ⟨i1, t1, e1, _⟩ := q3 s1 r1 hl1
    by_cases hdb2 : dbMatches db2 r1
    · have hr2 : reachHistory sc r1 h2 = true := by rw [e1]; exact hr.2
      obtain ⟨l2, w1, _, w3⟩ := runHistory_inv sc r1 h2 { db := db2, sc := sc } r1
        (init_inv db2 sc r1 hdb2 (plainWF_of_inv s1 p0 r1 r1 i1)) rfl hr2
      refine ⟨l1, l2, q1, fun s1' r1' h _ => ?_⟩
      rw [hl1] at h; injection h with h; injection h with ha hb; subst ha; subst hb
      refine ⟨w1, fun s2 r2 hl2 => ?_⟩
      obtain ⟨i2, t2, _, _⟩ := w3 s2 r2 hl2
      exact changeset_of_bundleOK _ known p0 r2
        (extend_bundleOK s1.bundle s2.bundle p0 r1 r2 (bundleOK_of_inv s1 p0 r1 i1 t1)
          (bundleOK_of_inv s2 r1 r2 i2 t2) i2.wipe)
    · refine ⟨l1, [], q1, fun s1' r1' h hdb' => ?_⟩
      rw [hl1] at h; injection h with h; injection h with ha hb; subst ha; subst hb
      exact absurd hdb' hdb2

end Revm.Proofs.Bundle
