import Revm.Proofs.BundleInvRevert
/-! C18: `BundleState::extend` of two bundles built by fresh `State`s over consecutive halves of a history
describes the post-state of the whole history (post-state part of `ExtendStatement`). Core Lean only. -/
namespace Revm.Proofs.Bundle
open Revm.Model.Bundle Revm.Spec.Bundle

set_option linter.unusedSimpArgs false
set_option linter.unusedVariables false

/-! ## the revert-rewriting loop of `extend`, named -/

def erMergeStorage (taStorage : BMap Slot) (rs : BMap RevSlot) : BMap RevSlot :=
  taStorage.foldl (fun acc s => match acc.get s.1 with
    | none => acc.set s.1 (RevSlot.some s.2.present)
    | some _ => acc) rs

def erStepAcc (state : BMap BAcct) (e : Nat × ARevert) : BMap BAcct × (Nat × ARevert) :=
  if e.2.wipe then
    match state.get e.1 with
    | some ta =>
      (state.set e.1 { ta with storage := [] },
       (e.1, { e.2 with storage := erMergeStorage ta.storage e.2.storage,
                        wipe := if ta.status.wasDestroyed then false else e.2.wipe }))
    | none => (state, e)
  else (state, e)

def erStepBlk (state : BMap BAcct) (blk : BMap ARevert) : BMap BAcct × BMap ARevert :=
  blk.foldl (fun (acc : BMap BAcct × BMap ARevert) e => ((erStepAcc acc.1 e).1, acc.2 ++ [(erStepAcc acc.1 e).2])) (state, [])

theorem extendReverts_eq (state : BMap BAcct) (revs : List (BMap ARevert)) :
    extendReverts state revs = revs.foldl (fun (acc : BMap BAcct × List (BMap ARevert)) blk =>
      ((erStepBlk acc.1 blk).1, acc.2 ++ [(erStepBlk acc.1 blk).2])) (state, []) := rfl

theorem extend_state_eq (this other : BState) :
    (extend this other).state = extendState (extendReverts this.state other.reverts).1 other.state := by
  unfold extend
  generalize extendReverts this.state other.reverts = p
  obtain ⟨st, revs⟩ := p
  rfl

theorem extend_reverts_eq (this other : BState) :
    (extend this other).reverts = this.reverts ++ (extendReverts this.state other.reverts).2 := by
  unfold extend
  generalize extendReverts this.state other.reverts = p
  obtain ⟨st, revs⟩ := p
  rfl

/-! ## the state part of the loop only drains storages of accounts that have a wiping revert -/

def drainOf (ta : BAcct) : BAcct := { ta with storage := [] }

def Drained (this st : BMap BAcct) (W : Nat → Prop) : Prop :=
  WF st ∧ ∀ a, st.get a = this.get a ∨ (W a ∧ ∃ ta, this.get a = some ta ∧ st.get a = some (drainOf ta))

theorem Drained.refl (this : BMap BAcct) (W : Nat → Prop) (hw : WF this) : Drained this this W :=
  ⟨hw, fun _ => Or.inl rfl⟩

theorem erStepAcc_drained (this st : BMap BAcct) (W : Nat → Prop) (e : Nat × ARevert) (h : Drained this st W)
    (hW : e.2.wipe = true → W e.1) : Drained this (erStepAcc st e).1 W := by
  unfold erStepAcc
  cases hwp : e.2.wipe with
  | false => simp only [Bool.false_eq_true, if_false]; exact h
  | true =>
    simp only [if_true]
    cases hg : st.get e.1 with
    | none => exact h
    | some ta' =>
      refine ⟨WF_set _ _ _ h.1, fun a => ?_⟩
      simp only [get_set]
      by_cases ha : e.1 = a
      · subst ha
        simp only [if_true]
        refine Or.inr ⟨hW hwp, ?_⟩
        cases h.2 e.1 with
        | inl h1 => exact ⟨ta', by rw [← h1]; exact hg, rfl⟩
        | inr h1 =>
          obtain ⟨_, ta, h2, h3⟩ := h1
          rw [hg] at h3
          injection h3 with h3
          exact ⟨ta, h2, by rw [h3]; rfl⟩
      · simp only [ha, if_false]; exact h.2 a

theorem erStepBlk_fst (st : BMap BAcct) (blk : BMap ARevert) (l : BMap ARevert) :
    (blk.foldl (fun (acc : BMap BAcct × BMap ARevert) e => ((erStepAcc acc.1 e).1, acc.2 ++ [(erStepAcc acc.1 e).2])) (st, l)).1 =
      blk.foldl (fun st e => (erStepAcc st e).1) st := by
  induction blk generalizing st l with
  | nil => rfl
  | cons e r ih => simp only [List.foldl]; exact ih _ _

theorem erStepBlk_drained (this st : BMap BAcct) (W : Nat → Prop) (blk : BMap ARevert) (h : Drained this st W)
    (hW : ∀ e, e ∈ blk → e.2.wipe = true → W e.1) : Drained this (erStepBlk st blk).1 W := by
  unfold erStepBlk
  rw [erStepBlk_fst]
  induction blk generalizing st with
  | nil => exact h
  | cons e r ih =>
    simp only [List.foldl]
    exact ih _ (erStepAcc_drained this st W e h (hW e List.mem_cons_self))
      (fun e' he' => hW e' (List.mem_cons_of_mem _ he'))

theorem extendReverts_fst (st : BMap BAcct) (revs : List (BMap ARevert)) (l : List (BMap ARevert)) :
    (revs.foldl (fun (acc : BMap BAcct × List (BMap ARevert)) blk =>
      ((erStepBlk acc.1 blk).1, acc.2 ++ [(erStepBlk acc.1 blk).2])) (st, l)).1 =
      revs.foldl (fun st blk => (erStepBlk st blk).1) st := by
  induction revs generalizing st l with
  | nil => rfl
  | cons e r ih => simp only [List.foldl]; exact ih _ _

/-- an address has a storage-wiping revert in some block -/
def Wiped (revs : List (BMap ARevert)) (a : Nat) : Prop :=
  ∃ blk, blk ∈ revs ∧ ∃ r, (a, r) ∈ blk ∧ r.wipe = true

theorem extendReverts_drained (this : BMap BAcct) (revs : List (BMap ARevert)) (hw : WF this) :
    Drained this (extendReverts this revs).1 (Wiped revs) := by
  rw [extendReverts_eq, extendReverts_fst]
  have gen : ∀ (rs : List (BMap ARevert)) (st : BMap BAcct), Drained this st (Wiped revs) →
      (∀ blk, blk ∈ rs → blk ∈ revs) →
      Drained this (rs.foldl (fun st blk => (erStepBlk st blk).1) st) (Wiped revs) := by
    intro rs
    induction rs with
    | nil => intro st h _; exact h
    | cons blk r ih =>
      intro st h hsub
      simp only [List.foldl]
      exact ih _ (erStepBlk_drained this st _ blk h
          (fun e he hwp => ⟨blk, hsub blk List.mem_cons_self, e.2, he, hwp⟩))
        (fun b hb => hsub b (List.mem_cons_of_mem _ hb))
  exact gen revs this (Drained.refl this _ hw) (fun _ h => h)

/-! ## `extend_state`, per address -/

def extF (o : BAcct) (t? : Option BAcct) : Option BAcct :=
  some (match t? with
    | some t => { t with storage := if o.status.wasDestroyed then o.storage else extendStorage t.storage o.storage,
                         info := o.info, status := t.status.transition o.status }
    | none => o)

theorem extStep_get (acc : BMap BAcct) (e : Nat × BAcct) (k : Nat) :
    (extStep acc e).get k = if e.1 = k then extF e.2 (acc.get k) else acc.get k := by
  unfold extStep extF
  by_cases hk : e.1 = k
  · subst hk; cases acc.get e.1 <;> simp [get_set]
  · cases acc.get e.1 <;> simp [get_set, hk]

theorem extStep_WF (acc : BMap BAcct) (e : Nat × BAcct) (hw : WF acc) : WF (extStep acc e) := by
  unfold extStep; cases acc.get e.1 <;> exact WF_set _ _ _ hw

theorem extendState_get (this other : BMap BAcct) (hw : WF other) (a : Nat) :
    (extendState this other).get a = (other.get a).elim (this.get a) (fun o => extF o (this.get a)) := by
  rw [extendState_eq]; exact foldl_get extStep_get other hw this a

theorem extendState_WF (this other : BMap BAcct) (hw : WF this) : WF (extendState this other) := by
  rw [extendState_eq]; exact foldl_WF extStep_WF other this hw

theorem transition_wd (s o : Status) : (s.transition o).wasDestroyed = (s.wasDestroyed || o.wasDestroyed) := by
  cases s <;> cases o <;> rfl

/-- `extend_state` of the first bundle's state — possibly with the storages of addresses that have a wiping revert
in the second bundle drained — by the second bundle's state describes the step from the first bundle's pre-state
to the second bundle's post-state -/
theorem extState_bundleOK (b1 b2 : BState) (p0 r1 r2 : Plain) (h1 : BundleOK b1.state p0 r1)
    (h2 : BundleOK b2.state r1 r2) (hwi : WipeInv b2) (st : BMap BAcct) (hd : Drained b1.state st (Wiped b2.reverts)) :
    BundleOK (extendState st b2.state) p0 r2 := by
  refine ⟨extendState_WF _ _ hd.1, fun a => ?_⟩
  rw [extendState_get _ _ h2.1]
  have hb1 := h1.2 a
  have hb2 := h2.2 a
  cases ho : b2.state.get a with
  | none =>
    rw [ho] at hb2
    simp only [Option.elim]
    have hst : st.get a = b1.state.get a := by
      cases hd.2 a with
      | inl h => exact h
      | inr h =>
        obtain ⟨⟨blk, hblk, r, hm, hwp⟩, _⟩ := h
        obtain ⟨o, hoo, _⟩ := hwi blk hblk a r hm hwp
        rw [ho] at hoo; cases hoo
    rw [hst]
    have hs : (fun k => r2.slot a k) = fun k => r1.slot a k := funext hb2.2
    cases hb : b1.state.get a with
    | none => rw [hb] at hb1; simp only; exact ⟨by rw [hb2.1]; exact hb1.1, fun k => by rw [hb2.2, hb1.2]⟩
    | some t => rw [hb] at hb1; simp only; rw [hb2.1, hs]; exact hb1
  | some o =>
    rw [ho] at hb2
    obtain ⟨hoi, hoo, hos⟩ := hb2
    simp only [Option.elim, extF]
    cases hst : st.get a with
    | none =>
      have hb : b1.state.get a = none := by
        cases hd.2 a with
        | inl h => rw [← h]; exact hst
        | inr h => obtain ⟨_, ta, _, h3⟩ := h; rw [hst] at h3; cases h3
      rw [hb] at hb1
      simp only
      have hs : (fun k => r1.slot a k) = fun k => p0.slot a k := funext hb1.2
      rw [hs] at hos
      exact ⟨hoi, by rw [hoo]; exact hb1.1, hos⟩
    | some t =>
      simp only
      -- the first bundle's account, possibly with drained storage
      have hb : ∃ t1, b1.state.get a = some t1 ∧ t.info = t1.info ∧ t.origInfo = t1.origInfo ∧ t.status = t1.status ∧
          (t = t1 ∨ o.status.wasDestroyed = true) := by
        cases hd.2 a with
        | inl h => exact ⟨t, by rw [← h]; exact hst, rfl, rfl, rfl, Or.inl rfl⟩
        | inr h =>
          obtain ⟨⟨blk, hblk, r, hm, hwp⟩, ta, h2, h3⟩ := h
          rw [hst] at h3; injection h3 with h3
          obtain ⟨o', hoo', hwd⟩ := hwi blk hblk a r hm hwp
          rw [ho] at hoo'; injection hoo' with hoo'
          exact ⟨ta, h2, by rw [h3]; rfl, by rw [h3]; rfl, by rw [h3]; rfl, Or.inr (by rw [hoo']; exact hwd)⟩
      obtain ⟨t1, hb1g, _, hto, hts, hcase⟩ := hb
      rw [hb1g] at hb1
      obtain ⟨_, h1o, h1s⟩ := hb1
      refine ⟨hoi, by rw [hto]; exact h1o, ?_⟩
      cases howd : o.status.wasDestroyed with
      | true =>
        simp only [if_true]
        have hod := (storageInv_d o _ _ howd).mp hos
        exact (storageInv_d _ _ _ (by simp only [transition_wd, howd, Bool.or_true])).mpr hod
      | false =>
        simp only [Bool.false_eq_true, if_false]
        have htt : t = t1 := by
          cases hcase with
          | inl h => exact h
          | inr h => rw [howd] at h; cases h
        subst htt
        have hon := (storageInv_nd o _ _ howd).mp hos
        cases htwd : t.status.wasDestroyed with
        | true =>
          have htd := (storageInv_d t _ _ htwd).mp h1s
          exact (storageInv_d _ _ _ (by simp only [transition_wd, htwd, Bool.true_or])).mpr
            (st_extend_d _ _ _ _ htd hon)
        | false =>
          have htn := (storageInv_nd t _ _ htwd).mp h1s
          exact (storageInv_nd _ _ _ (by simp only [transition_wd, htwd, howd, Bool.or_false])).mpr
            (st_extend_nd _ _ _ _ _ htn hon)

/-- the extended bundle describes the step from the first bundle's pre-state to the second bundle's post-state -/
theorem extend_bundleOK (b1 b2 : BState) (p0 r1 r2 : Plain) (h1 : BundleOK b1.state p0 r1)
    (h2 : BundleOK b2.state r1 r2) (hwi : WipeInv b2) : BundleOK (extend b1 b2).state p0 r2 := by
  rw [extend_state_eq]
  exact extState_bundleOK b1 b2 p0 r1 r2 h1 h2 hwi _ (extendReverts_drained b1.state b2.reverts h1.1)

/-- `prepend_state` (newer bundle `b2` prepended with the older `b1`): the same state without draining -/
theorem prepend_bundleOK (b1 b2 : BState) (p0 r1 r2 : Plain) (h1 : BundleOK b1.state p0 r1)
    (h2 : BundleOK b2.state r1 r2) (hwi : WipeInv b2) : BundleOK (prependState b2 b1).state p0 r2 :=
  extState_bundleOK b1 b2 p0 r1 r2 h1 h2 hwi _ (Drained.refl b1.state _ h1.1)

/-- post-state half of `Spec.ExtendStatement` -/
def ExtendPostStatement : Prop :=
  ∀ (db db2 : BMap Info) (sc : Bool) (p0 : Plain) (h1 h2 : List Group) (known : Bool),
    dbMatches db p0 → plainWF p0 → reachHistory sc p0 (h1 ++ h2) = true →
    ∃ l1 l2, runHistory { db := db, sc := sc } p0 h1 = some l1 ∧
      ∀ s1 r1, l1.getLast? = some (s1, r1) → dbMatches db2 r1 →
        runHistory { db := db2, sc := sc } r1 h2 = some l2 ∧
        ∀ s2 r2, l2.getLast? = some (s2, r2) →
          PlainEq (applyChangeset (toPlainState (extend s1.bundle s2.bundle) known) p0) r2

theorem extend_post_proof : ExtendPostStatement := by
  intro db db2 sc p0 h1 h2 known hdb hwf hr
  rw [reachHistory_append, Bool.and_eq_true] at hr
  obtain ⟨l1, q1, _, q3⟩ := runHistory_inv sc p0 h1 { db := db, sc := sc } p0 (init_inv db sc p0 hdb hwf) rfl hr.1
  cases hl1 : l1.getLast? with
  | none => exact ⟨l1, [], q1, fun s1 r1 h => by rw [hl1] at h; cases h⟩
  | some x =>
    obtain ⟨s1, r1⟩ := x
    obtain ⟨i1, t1, e1, _⟩ := q3 s1 r1 hl1
    by_cases hdb2 : dbMatches db2 r1
    · have hr2 : reachHistory sc r1 h2 = true := by rw [e1]; exact hr.2
      obtain ⟨l2, w1, _, w3⟩ := runHistory_inv sc r1 h2 { db := db2, sc := sc } r1
        (init_inv db2 sc r1 hdb2 (plainWF_of_inv s1 p0 r1 r1 i1)) rfl hr2
      refine ⟨l1, l2, q1, fun s1' r1' h _ => ?_⟩
      rw [hl1] at h; injection h with h; injection h with ha hb; subst ha; subst hb
      refine ⟨w1, fun s2 r2 hl2 => ?_⟩
      obtain ⟨i2, t2, _, _⟩ := w3 s2 r2 hl2
      exact changeset_of_bundleOK _ known p0 r2
        (extend_bundleOK s1.bundle s2.bundle p0 r1 r2 (bundleOK_of_inv s1 p0 r1 i1 t1)
          (bundleOK_of_inv s2 r1 r2 i2 t2) i2.wipe)
    · refine ⟨l1, [], q1, fun s1' r1' h hdb' => ?_⟩
      rw [hl1] at h; injection h with h; injection h with ha hb; subst ha; subst hb
      exact absurd hdb' hdb2

/-- post-state of `prepend_state`: the newer bundle `B` (second half), prepended with the older `A`, describes
the step from A's pre-state to B's post-state -/
def PrependPostStatement : Prop :=
  ∀ (db db2 : BMap Info) (sc : Bool) (p0 : Plain) (h1 h2 : List Group) (known : Bool),
    dbMatches db p0 → plainWF p0 → reachHistory sc p0 (h1 ++ h2) = true →
    ∃ l1 l2, runHistory { db := db, sc := sc } p0 h1 = some l1 ∧
      ∀ s1 r1, l1.getLast? = some (s1, r1) → dbMatches db2 r1 →
        runHistory { db := db2, sc := sc } r1 h2 = some l2 ∧
        ∀ s2 r2, l2.getLast? = some (s2, r2) →
          PlainEq (applyChangeset (toPlainState (prependState s2.bundle s1.bundle) known) p0) r2 ∧
          (prependState s2.bundle s1.bundle).reverts = s1.bundle.reverts

theorem prepend_post_proof : PrependPostStatement := by
  intro db db2 sc p0 h1 h2 known hdb hwf hr
  rw [reachHistory_append, Bool.and_eq_true] at hr
  obtain ⟨l1, q1, _, q3⟩ := runHistory_inv sc p0 h1 { db := db, sc := sc } p0 (init_inv db sc p0 hdb hwf) rfl hr.1
  cases hl1 : l1.getLast? with
  | none => exact ⟨l1, [], q1, fun s1 r1 h => by rw [hl1] at h; cases h⟩
  | some x =>
    obtain ⟨s1, r1⟩ := x
    obtain ⟨i1, t1, e1, _⟩ := q3 s1 r1 hl1
    by_cases hdb2 : dbMatches db2 r1
    · have hr2 : reachHistory sc r1 h2 = true := by rw [e1]; exact hr.2
      obtain ⟨l2, w1, _, w3⟩ := runHistory_inv sc r1 h2 { db := db2, sc := sc } r1
        (init_inv db2 sc r1 hdb2 (plainWF_of_inv s1 p0 r1 r1 i1)) rfl hr2
      refine ⟨l1, l2, q1, fun s1' r1' h _ => ?_⟩
      rw [hl1] at h; injection h with h; injection h with ha hb; subst ha; subst hb
      refine ⟨w1, fun s2 r2 hl2 => ?_⟩
      obtain ⟨i2, t2, _, _⟩ := w3 s2 r2 hl2
      exact ⟨changeset_of_bundleOK _ known p0 r2
        (prepend_bundleOK s1.bundle s2.bundle p0 r1 r2 (bundleOK_of_inv s1 p0 r1 i1 t1)
          (bundleOK_of_inv s2 r1 r2 i2 t2) i2.wipe), rfl⟩
    · refine ⟨l1, [], q1, fun s1' r1' h hdb' => ?_⟩
      rw [hl1] at h; injection h with h; injection h with ha hb; subst ha; subst hb
      exact absurd hdb' hdb2

/-! ## the rewritten reverts of the second bundle -/

def emF (x : Slot) (o : Option RevSlot) : Option RevSlot :=
  match o with | none => some (RevSlot.some x.present) | some v => some v

def emStep (acc : BMap RevSlot) (s : Nat × Slot) : BMap RevSlot :=
  match acc.get s.1 with
  | none => acc.set s.1 (RevSlot.some s.2.present)
  | some _ => acc

theorem erMergeStorage_eq (ts : BMap Slot) (rs : BMap RevSlot) : erMergeStorage ts rs = ts.foldl emStep rs := rfl

theorem emStep_get (acc : BMap RevSlot) (e : Nat × Slot) (k : Nat) :
    (emStep acc e).get k = if e.1 = k then emF e.2 (acc.get k) else acc.get k := by
  unfold emStep emF
  by_cases hk : e.1 = k
  · subst hk
    cases h : acc.get e.1 with
    | none => simp [get_set]
    | some v => simp [h]
  · cases h : acc.get e.1 with
    | none => simp [get_set, hk]
    | some v => simp [hk]

theorem emStep_WF (acc : BMap RevSlot) (e : Nat × Slot) (hw : WF acc) : WF (emStep acc e) := by
  unfold emStep; cases acc.get e.1 with
  | none => exact WF_set _ _ _ hw
  | some _ => exact hw

theorem erMergeStorage_get (ts : BMap Slot) (rs : BMap RevSlot) (hw : WF ts) (k : Nat) :
    (erMergeStorage ts rs).get k = match rs.get k with
      | some v => some v
      | none => (ts.get k).map (fun s => RevSlot.some s.present) := by
  rw [erMergeStorage_eq, foldl_get emStep_get ts hw rs k]
  unfold emF
  cases ts.get k <;> cases rs.get k <;> simp [Option.elim]

theorem erMergeStorage_WF (ts : BMap Slot) (rs : BMap RevSlot) (hw : WF rs) : WF (erMergeStorage ts rs) := by
  rw [erMergeStorage_eq]; exact foldl_WF emStep_WF ts rs hw

/-- what `extend` makes of one revert of the second bundle, given the first bundle's entry of its address -/
def modRev (t? : Option BAcct) (r : ARevert) : ARevert :=
  if r.wipe then
    match t? with
    | some ta => { r with storage := erMergeStorage ta.storage r.storage,
                          wipe := if ta.status.wasDestroyed then false else r.wipe }
    | none => r
  else r

theorem erStepAcc_snd (st : BMap BAcct) (e : Nat × ARevert) :
    (erStepAcc st e).2 = (e.1, modRev (st.get e.1) e.2) := by
  unfold erStepAcc modRev
  cases e.2.wipe with
  | false => rfl
  | true => simp only [if_true]; cases st.get e.1 <;> rfl

theorem Drained.mono {this st : BMap BAcct} {W W' : Nat → Prop} (h : Drained this st W) (hi : ∀ a, W a → W' a) :
    Drained this st W' :=
  ⟨h.1, fun a => (h.2 a).elim Or.inl (fun ⟨w, x⟩ => Or.inr ⟨hi a w, x⟩)⟩

theorem erStepBlk_snd (this : BMap BAcct) (blk : BMap ARevert) (st : BMap BAcct) (W : Nat → Prop) (l : BMap ARevert)
    (hD : Drained this st W) (hnw : ∀ e, e ∈ blk → e.2.wipe = true → ¬ W e.1) (hwf : WF blk) :
    (blk.foldl (fun (acc : BMap BAcct × BMap ARevert) e => ((erStepAcc acc.1 e).1, acc.2 ++ [(erStepAcc acc.1 e).2])) (st, l)).2 =
      l ++ blk.map (fun e => (e.1, modRev (this.get e.1) e.2)) ∧
    Drained this (blk.foldl (fun (acc : BMap BAcct × BMap ARevert) e => ((erStepAcc acc.1 e).1, acc.2 ++ [(erStepAcc acc.1 e).2])) (st, l)).1
      (fun a => W a ∨ ∃ r, (a, r) ∈ blk ∧ r.wipe = true) := by
  induction blk generalizing st W l with
  | nil => exact ⟨by simp, hD.mono (fun a h => Or.inl h)⟩
  | cons e r ih =>
    rw [WF_cons] at hwf
    simp only [List.foldl]
    have hentry : (erStepAcc st e).2 = (e.1, modRev (this.get e.1) e.2) := by
      rw [erStepAcc_snd]
      cases hwp : e.2.wipe with
      | false => simp [modRev, hwp]
      | true =>
        have hnW := hnw e List.mem_cons_self hwp
        cases hD.2 e.1 with
        | inl h => rw [h]
        | inr h => exact absurd h.1 hnW
    have hD1 : Drained this (erStepAcc st e).1 (fun a => W a ∨ (a = e.1 ∧ e.2.wipe = true)) :=
      erStepAcc_drained this st _ e (hD.mono (fun a h => Or.inl h)) (fun hw => Or.inr ⟨rfl, hw⟩)
    obtain ⟨i1, i2⟩ := ih (erStepAcc st e).1 (fun a => W a ∨ (a = e.1 ∧ e.2.wipe = true)) (l ++ [(erStepAcc st e).2]) hD1
      (fun e' he' hw' hW' => by
        cases hW' with
        | inl h => exact hnw e' (List.mem_cons_of_mem _ he') hw' h
        | inr h => exact hwf.1 (h.1 ▸ List.mem_map_of_mem (f := (·.1)) he'))
      hwf.2
    refine ⟨by rw [i1, hentry]; simp, i2.mono (fun a h => ?_)⟩
    rcases h with (h | ⟨h1, h2⟩) | ⟨r', h1, h2⟩
    · exact Or.inl h
    · exact Or.inr ⟨e.2, by rw [h1]; exact List.mem_cons_self, h2⟩
    · exact Or.inr ⟨r', List.mem_cons_of_mem _ h1, h2⟩

/-- two blocks never both wipe the storage of one address -/
def DisjWipes (blk1 blk2 : BMap ARevert) : Prop :=
  ∀ a r1 r2, (a, r1) ∈ blk1 → r1.wipe = true → (a, r2) ∈ blk2 → r2.wipe = true → False

theorem extendReverts_snd (this : BMap BAcct) (revs : List (BMap ARevert)) (hw : WF this)
    (hwf : ∀ blk, blk ∈ revs → WF blk) (hpw : revs.Pairwise DisjWipes) :
    (extendReverts this revs).2 = revs.map (fun blk => blk.map (fun e => (e.1, modRev (this.get e.1) e.2))) := by
  rw [extendReverts_eq]
  have gen : ∀ (rs : List (BMap ARevert)) (st : BMap BAcct) (W : Nat → Prop) (l : List (BMap ARevert)),
      Drained this st W → (∀ blk, blk ∈ rs → ∀ e, e ∈ blk → e.2.wipe = true → ¬ W e.1) →
      (∀ blk, blk ∈ rs → WF blk) → rs.Pairwise DisjWipes →
      (rs.foldl (fun (acc : BMap BAcct × List (BMap ARevert)) blk =>
        ((erStepBlk acc.1 blk).1, acc.2 ++ [(erStepBlk acc.1 blk).2])) (st, l)).2 =
        l ++ rs.map (fun blk => blk.map (fun e => (e.1, modRev (this.get e.1) e.2))) := by
    intro rs
    induction rs with
    | nil => intro st W l _ _ _ _; simp
    | cons blk r ih =>
      intro st W l hD hnw hwf hpw
      simp only [List.foldl]
      rw [List.pairwise_cons] at hpw
      obtain ⟨i1, i2⟩ := erStepBlk_snd this blk st W [] hD (hnw blk List.mem_cons_self) (hwf blk List.mem_cons_self)
      have hb : (erStepBlk st blk).2 = blk.map (fun e => (e.1, modRev (this.get e.1) e.2)) := by
        unfold erStepBlk; rw [i1]; simp
      rw [ih (erStepBlk st blk).1 _ (l ++ [(erStepBlk st blk).2]) i2
        (fun blk' hb' e' he' hw' hW' => by
          cases hW' with
          | inl h => exact hnw blk' (List.mem_cons_of_mem _ hb') e' he' hw' h
          | inr h =>
            obtain ⟨r1, h1, h2⟩ := h
            exact hpw.1 blk' hb' e'.1 r1 e'.2 h1 h2 he' hw')
        (fun b hb' => hwf b (List.mem_cons_of_mem _ hb')) hpw.2, hb]
      simp
  have := gen revs this (fun _ => False) [] (Drained.refl this _ hw) (fun _ _ _ _ _ h => h) hwf hpw
  simpa using this

theorem revSlotV_nowipe_indep (dbr : Bool) (st : BMap RevSlot) (Ps Ps' Rs : Nat → Nat) (k : Nat) :
    revSlotV dbr st false Ps Rs k = revSlotV dbr st false Ps' Rs k := by
  unfold revSlotV
  cases st.get k with
  | none => rfl
  | some v => cases v <;> simp

/-- the rewritten revert, read against the FIRST bundle's pre-state, still leads back to the same state,
provided no `Destroyed` slot of a wiping revert is held by the first bundle's account (finding F4) -/
theorem modRev_sem (t? : Option BAcct) (r : ARevert) (ms : Status) (p0s r1s : Nat → Nat)
    (Mi : Option Info) (Ms : Nat → Nat) (Ri : Option Info) (Rs : Nat → Nat)
    (h : RevSem (some r) ms r1s Mi Ms Ri Rs)
    (hb1 : match t? with | none => r1s = p0s | some ta => StorageInv ta p0s r1s)
    (hok : r.wipe = true → ∀ ta, t? = some ta → ∀ k, r.storage.get k = some RevSlot.destroyed → ta.storage.get k = none) :
    RevSem (some (modRev t? r)) ms p0s Mi Ms Ri Rs := by
  obtain ⟨g1, g2, g3, g4, g5⟩ := h
  cases hwp : r.wipe with
  | false =>
    have hm : modRev t? r = r := by simp [modRev, hwp]
    rw [hm]
    refine ⟨g1, g2, g3, fun k => ?_, g5⟩
    have := g4 k
    rw [hwp] at this ⊢
    rw [← this]; exact revSlotV_nowipe_indep _ _ _ _ _ _
  | true =>
    cases t? with
    | none =>
      have hm : modRev none r = r := by simp [modRev, hwp]
      rw [hm]
      simp only at hb1
      rw [← hb1]
      exact ⟨g1, g2, g3, g4, g5⟩
    | some ta =>
      simp only at hb1
      have hm : modRev (some ta) r = ⟨r.account, erMergeStorage ta.storage r.storage, r.prevStatus,
          if ta.status.wasDestroyed then false else r.wipe⟩ := by simp [modRev, hwp]
      rw [hm]
      have hok' := hok hwp ta rfl
      refine ⟨g1, erMergeStorage_WF _ _ g2, g3, fun k => ?_, ?_⟩
      · have hk := g4 k
        rw [hwp] at hk
        rw [← hk]
        show revSlotV true (erMergeStorage ta.storage r.storage) (if ta.status.wasDestroyed then false else r.wipe) p0s Rs k = _
        unfold revSlotV
        rw [erMergeStorage_get _ _ hb1.1]
        cases hg : r.storage.get k with
        | some v =>
          cases v with
          | some x => rfl
          | destroyed =>
            have htk := hok' k hg
            cases htwd : ta.status.wasDestroyed with
            | true =>
              have := ((storageInv_d ta p0s r1s htwd).mp hb1).get_none htk
              simp [this]
            | false =>
              have := ((storageInv_nd ta p0s r1s htwd).mp hb1).get_none htk
              simp [hwp, this]
        | none =>
          simp only
          cases htk : ta.storage.get k with
          | some s =>
            simp only [Option.map, if_true]
            cases htwd : ta.status.wasDestroyed with
            | true => exact ((storageInv_d ta p0s r1s htwd).mp hb1).get_some htk
            | false => exact (((storageInv_nd ta p0s r1s htwd).mp hb1).get_some htk).1
          | none =>
            simp only [Option.map, if_true]
            cases htwd : ta.status.wasDestroyed with
            | true =>
              have h0 := ((storageInv_d ta p0s r1s htwd).mp hb1).get_none htk
              simp [h0, g5 hwp k hg]
            | false =>
              have h0 := ((storageInv_nd ta p0s r1s htwd).mp hb1).get_none htk
              simp [hwp, h0]
      · intro hw' k hk
        show Rs k = 0
        have hk' : (erMergeStorage ta.storage r.storage).get k = none := hk
        rw [erMergeStorage_get _ _ hb1.1] at hk'
        cases hg : r.storage.get k with
        | some v => rw [hg] at hk'; cases hk'
        | none => exact g5 hwp k hg

theorem extendOk_spec (b1 b2 : BState) (h : extendOk b1 b2 = true) (blk : BMap ARevert) (hblk : blk ∈ b2.reverts)
    (a : Nat) (r : ARevert) (hm : (a, r) ∈ blk) (hw : r.wipe = true) (ta : BAcct) (hta : b1.state.get a = some ta)
    (k : Nat) (hk : r.storage.get k = some RevSlot.destroyed) : ta.storage.get k = none := by
  have h1 := List.all_eq_true.mp (List.all_eq_true.mp h blk hblk) (a, r) hm
  simp only [hw, Bool.not_true, Bool.false_or, hta] at h1
  have h2 := List.all_eq_true.mp h1 (k, RevSlot.destroyed) (mem_of_get _ _ _ hk)
  simpa using h2

theorem modBlock_sem (b1 : BState) (blk : BMap ARevert) (p0 r1 before after : Plain)
    (h1 : BundleOK b1.state p0 r1) (hs : BlockSem blk r1 before after)
    (hok : ∀ a r, (a, r) ∈ blk → r.wipe = true → ∀ ta, b1.state.get a = some ta →
      ∀ k, r.storage.get k = some RevSlot.destroyed → ta.storage.get k = none) :
    BlockSem (blk.map (fun e => (e.1, modRev (b1.state.get e.1) e.2))) p0 before after := by
  obtain ⟨hw, hall⟩ := hs
  refine ⟨WF_map_val blk (fun e => modRev (b1.state.get e.1) e.2) hw, fun a => ?_⟩
  rw [get_map_val blk (fun e => modRev (b1.state.get e.1) e.2)]
  obtain ⟨ms, hr⟩ := hall a
  refine ⟨ms, ?_⟩
  cases hg : blk.get a with
  | none => rw [hg] at hr; exact hr
  | some r =>
    rw [hg] at hr
    simp only [Option.map]
    refine modRev_sem _ r ms _ _ _ _ _ _ hr ?_ (fun hw' ta hta => hok a r (mem_of_get _ _ _ hg) hw' ta hta)
    have hb := h1.2 a
    cases hb1 : b1.state.get a with
    | none => rw [hb1] at hb; simp only; exact funext hb.2
    | some ta => rw [hb1] at hb; simp only; exact hb.2.2

theorem BlocksSem_append (p0 : Plain) (A B : List (BMap ARevert)) (R rl : Plain) (refsA refsB : List Plain)
    (hA : BlocksSem p0 A R refsA) (hB : BlocksSem p0 B rl refsB) (hl : (R :: refsA).getLast? = some rl) :
    BlocksSem p0 (A ++ B) R (refsA ++ refsB) := by
  induction A generalizing R refsA with
  | nil =>
    have : refsA = [] := by
      cases refsA with
      | nil => rfl
      | cons _ _ => have := hA.1; simp at this
    subst this
    simp only [List.getLast?_singleton, Option.some.injEq] at hl
    subst hl
    simpa using hB
  | cons a A' ih =>
    cases refsA with
    | nil => have := hA.1; simp at this
    | cons x X =>
      have hA' : BlocksSem p0 A' x X := by
        refine ⟨by have := hA.1; simpa using this, fun k blk before after hb hbe haf => ?_⟩
        exact hA.2 (k + 1) blk before after (by simpa using hb) (by simpa using hbe) (by simpa using haf)
      have hl' : (x :: X).getLast? = some rl := by rw [List.getLast?_cons_cons] at hl; exact hl
      have hrec := ih x X hA' hl'
      refine ⟨by simp [hA'.1, hB.1], fun k blk before after hb hbe haf => ?_⟩
      cases k with
      | zero =>
        simp only [List.cons_append, List.getElem?_cons_zero, Option.some.injEq] at hb hbe haf
        exact hA.2 0 blk before after (by simp [hb]) (by simp [hbe]) (by simp [haf])
      | succ k =>
        simp only [List.cons_append, List.getElem?_cons_succ] at hb hbe haf
        exact hrec.2 k blk before after hb (by simpa using hbe) haf

/-- **C18** for halves built by fresh `State`s: the extended bundle describes the post-state of the whole
history (unconditionally), and, outside finding F4 (`extendOk`), its plain reverts give the per-block
pre-values of the whole history (database reading of `Destroyed`) -/
theorem extend_partial_proof (db db2 : BMap Info) (sc : Bool) (p0 : Plain) (h1 h2 : List Group) (known : Bool)
    (hdb : dbMatches db p0) (hwf : plainWF p0) (hr : reachHistory sc p0 (h1 ++ h2) = true) :
    ∃ l1 l2, runHistory { db := db, sc := sc } p0 h1 = some l1 ∧
      ∀ s1 r1, l1.getLast? = some (s1, r1) → dbMatches db2 r1 →
        runHistory { db := db2, sc := sc } r1 h2 = some l2 ∧
        ∀ s2 r2, l2.getLast? = some (s2, r2) →
          PlainEq (applyChangeset (toPlainState (extend s1.bundle s2.bundle) known) p0) r2 ∧
          (extendOk s1.bundle s2.bundle = true →
            ∀ (k : Nat) blk before after, (toPlainStateReverts (extend s1.bundle s2.bundle))[k]? = some blk →
              ((p0 :: (l1 ++ l2).map (·.2))[k]? = some before) → (((l1 ++ l2).map (·.2))[k]? = some after) →
              PlainEq (applyRevertBlock true p0 blk after) before) := by
  rw [reachHistory_append, Bool.and_eq_true] at hr
  obtain ⟨l1, q1, _, q3⟩ := runHistory_inv sc p0 h1 { db := db, sc := sc } p0 (init_inv db sc p0 hdb hwf) rfl hr.1
  cases hl1 : l1.getLast? with
  | none => exact ⟨l1, [], q1, fun s1 r1 h => by rw [hl1] at h; cases h⟩
  | some x =>
    obtain ⟨s1, r1⟩ := x
    obtain ⟨i1, t1, e1, blks1, rv1, bs1⟩ := q3 s1 r1 hl1
    by_cases hdb2 : dbMatches db2 r1
    · have hr2 : reachHistory sc r1 h2 = true := by rw [e1]; exact hr.2
      obtain ⟨l2, w1, _, w3⟩ := runHistory_inv sc r1 h2 { db := db2, sc := sc } r1
        (init_inv db2 sc r1 hdb2 (plainWF_of_inv s1 p0 r1 r1 i1)) rfl hr2
      refine ⟨l1, l2, q1, fun s1' r1' h _ => ?_⟩
      rw [hl1] at h; injection h with h; injection h with ha hb; subst ha; subst hb
      refine ⟨w1, fun s2 r2 hl2 => ?_⟩
      obtain ⟨i2, t2, _, blks2, rv2, bs2⟩ := w3 s2 r2 hl2
      have hok1 := bundleOK_of_inv s1 p0 r1 i1 t1
      refine ⟨changeset_of_bundleOK _ known p0 r2
        (extend_bundleOK s1.bundle s2.bundle p0 r1 r2 hok1 (bundleOK_of_inv s2 r1 r2 i2 t2) i2.wipe), ?_⟩
      intro hext k blk before after hb hbe haf
      simp only [List.nil_append] at rv1 rv2
      -- the blocks of the extended bundle
      have hrev : (extend s1.bundle s2.bundle).reverts =
          blks1 ++ blks2.map (fun blk => blk.map (fun e => (e.1, modRev (s1.bundle.state.get e.1) e.2))) := by
        rw [extend_reverts_eq, extendReverts_snd _ _ i1.wfb i2.once.1 i2.once.2, rv1, rv2]
      -- blocks of the second half, read against p0
      have bs2' : BlocksSem p0 (blks2.map (fun blk => blk.map (fun e => (e.1, modRev (s1.bundle.state.get e.1) e.2))))
          r1 (l2.map (·.2)) := by
        refine ⟨by simp [bs2.1], fun k' blk' before' after' hb' hbe' haf' => ?_⟩
        rw [List.getElem?_map] at hb'
        cases hbk : blks2[k']? with
        | none => rw [hbk] at hb'; cases hb'
        | some b =>
          rw [hbk] at hb'; injection hb' with hb'; subst hb'
          have hmem : b ∈ s2.bundle.reverts := by rw [rv2]; exact List.mem_of_getElem? hbk
          exact modBlock_sem s1.bundle b p0 r1 before' after' hok1 (bs2.2 k' b before' after' hbk hbe' haf')
            (fun a r hm hw ta hta k hk => extendOk_spec _ _ hext b hmem a r hm hw ta hta k hk)
      have hlast : (p0 :: l1.map (·.2)).getLast? = some r1 := by
        cases l1 with
        | nil => simp at hl1
        | cons y ys =>
          rw [List.map_cons, List.getLast?_cons_cons, ← List.map_cons, List.getLast?_map, hl1]; rfl
      have hall := BlocksSem_append p0 blks1 _ p0 r1 (l1.map (·.2)) (l2.map (·.2)) bs1 bs2' hlast
      simp only [toPlainStateReverts, hrev, List.getElem?_map] at hb
      rw [List.map_append] at hbe haf
      cases hbk : (blks1 ++ blks2.map (fun blk => blk.map (fun e => (e.1, modRev (s1.bundle.state.get e.1) e.2))))[k]? with
      | none => rw [hbk] at hb; cases hb
      | some b =>
        rw [hbk] at hb; injection hb with hb; subst hb
        exact revert_block_correct true b p0 before after (hall.2 k b before after hbk hbe haf) (Or.inl rfl)
    · refine ⟨l1, [], q1, fun s1' r1' h hdb' => ?_⟩
      rw [hl1] at h; injection h with h; injection h with ha hb; subst ha; subst hb
      exact absurd hdb' hdb2

end Revm.Proofs.Bundle
