import Revm.Model.GasCalc
import Revm.Spec.GasCalc
import Revm.Proofs.Arith
/-! Helper lemmas and proofs for C14 (core Lean only). -/
set_option linter.unusedSimpArgs false
set_option linter.unusedVariables false
namespace Revm.Proofs.GasCalc
open Revm Revm.U64ops Revm.Model.GasCalc Revm.Model.GasCalc.SpecId
open Revm.Spec.GasCalc (Fork ceil32 memCost memExpansion Pattern)
open Revm.Spec.GasCalc.Fork

/-! ### checked arithmetic -/

theorem checkedMul_iff (a b v : Nat) : checkedMul a b = some v ↔ a * b = v ∧ v < U64 := by
  unfold checkedMul
  by_cases h : a * b < U64
  · simp only [h, if_true, Option.some.injEq]
    constructor
    · intro e; subst e; exact ⟨rfl, h⟩
    · intro e; exact e.1
  · simp only [h, if_false, reduceCtorEq, false_iff]
    intro e; exact h (e.1 ▸ e.2)

theorem checkedAdd_iff (a b v : Nat) : checkedAdd a b = some v ↔ a + b = v ∧ v < U64 := by
  unfold checkedAdd
  by_cases h : a + b < U64
  · simp only [h, if_true, Option.some.injEq]
    constructor
    · intro e; subst e; exact ⟨rfl, h⟩
    · intro e; exact e.1
  · simp only [h, if_false, reduceCtorEq, false_iff]
    intro e; exact h (e.1 ▸ e.2)

/-! ### num_words -/

theorem numWords_eq (len : Nat) (h : len + 31 < U64) : numWords len = ceil32 len := by
  unfold numWords saturatingAdd ceil32; simp only [h, if_true]

/-- on the last 31 lengths `saturating_add` clamps and the result is one word short -/
theorem numWords_short (len : Nat) (h1 : U64 ≤ len + 31) (h2 : len < U64) :
    numWords len = 2^59 - 1 ∧ ceil32 len = 2^59 := by
  have hU := U64_val
  unfold numWords saturatingAdd ceil32
  have : ¬ (len + 31 < U64) := by omega
  simp only [this, if_false]
  omega

theorem ceil32_le (len : Nat) (h : len < U64) : ceil32 len ≤ 2^59 := by
  have hU := U64_val
  unfold ceil32; omega

/-- `base.checked_add(tri!(multiple.checked_mul(words)))` -/
theorem mulAdd_iff (base m w v : Nat) :
    (match checkedMul m w with
      | none => none
      | some c => checkedAdd base c) = some v ↔ base + m * w = v ∧ v < U64 := by
  have hU := U64_val
  unfold checkedMul
  by_cases h : m * w < U64
  · simp only [h, if_true]; exact checkedAdd_iff _ _ _
  · simp only [h, if_false, reduceCtorEq, false_iff]
    generalize m * w = q at h
    omega

theorem costPerWord_iff (len m v : Nat) (h : len + 31 < U64) :
    costPerWord len m = some v ↔ Spec.GasCalc.wordCost len m = v ∧ v < U64 := by
  unfold costPerWord Spec.GasCalc.wordCost
  rw [numWords_eq len h]; exact checkedMul_iff _ _ _

theorem verylowcopyCost_iff (len v : Nat) (h : len + 31 < U64) :
    verylowcopyCost len = some v ↔ Spec.GasCalc.copyCost len = v ∧ v < U64 := by
  unfold verylowcopyCost costPerWord Spec.GasCalc.copyCost
  rw [numWords_eq len h]; exact mulAdd_iff _ _ _ _

theorem keccak256Cost_iff (len v : Nat) (h : len + 31 < U64) :
    keccak256Cost len = some v ↔ Spec.GasCalc.keccak256Cost len = v ∧ v < U64 := by
  unfold keccak256Cost costPerWord Spec.GasCalc.keccak256Cost
  rw [numWords_eq len h]; exact mulAdd_iff _ _ _ _

theorem create2Cost_iff (len v : Nat) (h : len + 31 < U64) :
    create2Cost len = some v ↔ Spec.GasCalc.create2Cost len = v ∧ v < U64 := by
  unfold create2Cost costPerWord Spec.GasCalc.create2Cost
  rw [numWords_eq len h]; exact mulAdd_iff _ _ _ _

/-- `initcode_cost` never takes its panic branch, for any u64 length -/
theorem initcodeCost_no_panic (len : Nat) (h : len < U64) : ∃ v, initcodeCost len = some v := by
  have hU := U64_val
  unfold initcodeCost costPerWord checkedMul numWords saturatingAdd INITCODE_WORD_COST
  by_cases h1 : len + 31 < U64
  · simp only [h1, if_true]
    have : 2 * ((len + 31) / 32) < U64 := by omega
    simp only [this, if_true]; exact ⟨_, rfl⟩
  · simp only [h1, if_false]
    have : 2 * ((U64 - 1) / 32) < U64 := by omega
    simp only [this, if_true]; exact ⟨_, rfl⟩

theorem initcodeCost_eq (len : Nat) (h : len + 31 < U64) :
    initcodeCost len = some (Spec.GasCalc.initcodeCost len) := by
  have hU := U64_val
  unfold initcodeCost costPerWord checkedMul INITCODE_WORD_COST Spec.GasCalc.initcodeCost
  rw [numWords_eq len h]
  have : 2 * ceil32 len < U64 := by unfold ceil32; omega
  simp only [this, if_true]

theorem logCost_iff (n len v : Nat) :
    logCost n len = some v ↔ Spec.GasCalc.logCost n len = v ∧ v < U64 := by
  have hU := U64_val
  unfold logCost checkedMul checkedAdd Spec.GasCalc.logCost LOGDATA LOG LOGTOPIC
  by_cases h1 : 8 * len < U64
  · simp only [h1, if_true]
    by_cases h2 : 375 + 8 * len < U64
    · simp only [h2, if_true]
      by_cases h3 : 375 + 8 * len + 375 * n < U64
      · simp only [h3, if_true, Option.some.injEq]; omega
      · simp only [h3, if_false, reduceCtorEq, false_iff]; omega
    · simp only [h2, if_false, reduceCtorEq, false_iff]; omega
  · simp only [h1, if_false, reduceCtorEq, false_iff]; omega

/-! ### hardfork gates: `SpecId::enabled(spec, X)` is the EIP activation table of the Spec -/

theorem en_homestead (f : Fork) : enabled f.id HOMESTEAD = hasEIP2 f := by cases f <;> rfl
theorem en_tangerine (f : Fork) : enabled f.id TANGERINE = hasEIP150 f := by cases f <;> rfl
theorem en_spurious (f : Fork) : enabled f.id SPURIOUS_DRAGON = hasEIP160 f := by cases f <;> rfl
theorem en_istanbul (f : Fork) : enabled f.id ISTANBUL = hasEIP2200 f := by cases f <;> rfl
theorem en_berlin (f : Fork) : enabled f.id BERLIN = hasEIP2929 f := by cases f <;> rfl
theorem en_london (f : Fork) : enabled f.id LONDON = hasEIP3529 f := by cases f <;> rfl
theorem en_shanghai (f : Fork) : enabled f.id SHANGHAI = hasEIP3860 f := by cases f <;> rfl
theorem en_prague (f : Fork) : enabled f.id PRAGUE = hasEIP7623 f := by cases f <;> rfl

/-- the activation tables are monotone along the fork order -/
theorem gates_monotone (f : Fork) :
    (hasEIP7623 f → hasEIP3860 f) ∧ (hasEIP3860 f → hasEIP3529 f) ∧ (hasEIP3529 f → hasEIP2929 f) ∧
    (hasEIP2929 f → hasEIP2200 f) ∧ (hasEIP2200 f → hasEIP160 f) ∧ (hasEIP160 f → hasEIP150 f) ∧
    (hasEIP150 f → hasEIP2 f) := by cases f <;> decide

/-! ### functions of finitely many arguments: complete case split -/

theorem sloadCost_eq (f : Fork) (c : Bool) : sloadCost f.id c = Spec.GasCalc.sloadCost f c := by
  cases f <;> cases c <;> rfl

theorem warmColdCost_eq (c : Bool) : warmColdCost c = if c then 2600 else 100 := by cases c <;> rfl

theorem selfdestructCost_eq (f : Fork) (hv te c : Bool) :
    selfdestructCost f.id hv te c = Spec.GasCalc.selfdestructCost f hv te c := by
  cases f <;> cases hv <;> cases te <;> cases c <;> rfl

theorem callCost_eq (f : Fork) (tv c : Bool) (d : Option Bool) (e : Bool) :
    callCost f.id tv c d e = Spec.GasCalc.callCost f tv c d e := by
  cases d with
  | none => cases f <;> cases tv <;> cases c <;> cases e <;> rfl
  | some d => cases f <;> cases tv <;> cases c <;> cases e <;> cases d <;> rfl

theorem extBase_eq (f : Fork) (c : Bool) :
    (if enabled f.id BERLIN then warmColdCost c else if enabled f.id TANGERINE then 700 else 20)
      = Spec.GasCalc.accountAccess f 20 c := by
  cases f <;> cases c <;> rfl

theorem extcodecopyCost_iff (f : Fork) (len : Nat) (c : Bool) (v : Nat) (h : len + 31 < U64) :
    extcodecopyCost f.id len c = some v ↔ Spec.GasCalc.extcodecopyCost f len c = v ∧ v < U64 := by
  unfold extcodecopyCost costPerWord Spec.GasCalc.extcodecopyCost
  simp only []
  rw [numWords_eq len h, extBase_eq]; exact mulAdd_iff _ _ _ _

/-! ### EXP -/

theorem expCost_eq (f : Fork) (p : Nat) (hp : p < W) :
    expCost f.id p = some (Spec.GasCalc.expCost f p) := by
  unfold expCost Spec.GasCalc.expCost
  rw [en_spurious]
  exact Proofs.Arith.expCost_eq (hasEIP160 f) p hp


/-! ### SSTORE -/

theorem classify_holds (o c n : Nat) : (Spec.GasCalc.classify o c n).holds o c n := by
  unfold Spec.GasCalc.classify
  repeat' split
  all_goals simp_all [Pattern.holds]

theorem holds_unique (pat : Pattern) (o c n : Nat) (h : pat.holds o c n) :
    Spec.GasCalc.classify o c n = pat := by
  cases pat <;> simp only [Pattern.holds] at h <;> unfold Spec.GasCalc.classify <;> simp_all <;> omega

/-- the cost depends on the fork only through the three gates -/
def sstoreCostB (i b : Bool) (o p n gas : Nat) (isCold : Bool) : Option Nat :=
  if i ∧ gas ≤ CALL_STIPEND then none
  else if b then
    let gasCost := istanbulSstoreCost WARM_STORAGE_READ_COST WARM_SSTORE_RESET o p n
    some (if isCold then gasCost + COLD_SLOAD_COST else gasCost)
  else if i then some (istanbulSstoreCost INSTANBUL_SLOAD_GAS SSTORE_RESET o p n)
  else some (frontierSstoreCost p n)

def specCostB (i b l : Bool) (pat : Pattern) (gasLeft : Nat) (cold : Bool) : Option Nat :=
  let q : Spec.GasCalc.NetParams :=
    if l then ⟨100, 20000, 2900, 4800⟩ else if b then ⟨100, 20000, 2900, 15000⟩ else ⟨800, 20000, 5000, 15000⟩
  if i then
    if gasLeft ≤ 2300 then none
    else some (Spec.GasCalc.netCost q pat + (if b ∧ cold then 2100 else 0))
  else some (Spec.GasCalc.legacyCost pat)


/-- truth values of the six comparisons the code makes, per pattern -/
def patBits : Pattern → Bool × Bool × Bool × Bool × Bool × Bool
  --        n = p   o = p   n = 0   o = 0   p = 0   o = n
  | .p000 => (true,  true,  true,  true,  true,  true)
  | .pXXX => (true,  true,  false, false, false, true)
  | .p00X => (false, true,  false, true,  true,  false)
  | .pXX0 => (false, true,  true,  false, false, false)
  | .pXXY => (false, true,  false, false, false, false)
  | .p0X0 => (false, false, true,  true,  false, true)
  | .pX0X => (false, false, false, false, true,  true)
  | .pXYX => (false, false, false, false, false, true)
  | .pX00 => (true,  false, true,  false, true,  false)
  | .p0XX => (true,  false, false, true,  false, false)
  | .pXYY => (true,  false, false, false, false, false)
  | .p0XY => (false, false, false, true,  false, false)
  | .pX0Y => (false, false, false, false, true,  false)
  | .pXY0 => (false, false, true,  false, false, false)
  | .pXYZ => (false, false, false, false, false, false)

theorem facts (pat : Pattern) (o p n : Nat) (h : pat.holds o p n) :
    ((n = p) = ((patBits pat).1 = true)) ∧ ((o = p) = ((patBits pat).2.1 = true)) ∧ ((n = 0) = ((patBits pat).2.2.1 = true)) ∧
    ((o = 0) = ((patBits pat).2.2.2.1 = true)) ∧ ((p = 0) = ((patBits pat).2.2.2.2.1 = true)) ∧
    ((o = n) = ((patBits pat).2.2.2.2.2 = true)) := by
  cases pat <;> simp only [Pattern.holds] at h <;>
    simp only [patBits, eq_iff_iff, Bool.false_eq_true, iff_true, iff_false] <;>
    (refine ⟨?_, ?_, ?_, ?_, ?_, ?_⟩) <;> omega

theorem sstoreCostB_eq (i b l : Bool) (hbi : b = true → i = true) (hlb : l = true → b = true)
    (pat : Pattern) (o p n gas : Nat) (cold : Bool) (h : pat.holds o p n) :
    sstoreCostB i b o p n gas cold = specCostB i b l pat gas cold := by
  obtain ⟨h1, h2, h3, h4, h5, h6⟩ := facts pat o p n h
  unfold sstoreCostB specCostB istanbulSstoreCost frontierSstoreCost CALL_STIPEND
  simp only [h1, h2, h3, h4, h5, h6, ne_eq]
  by_cases hg : gas ≤ 2300 <;> simp only [hg] <;>
    cases i <;> cases b <;> cases l <;> simp at hbi hlb <;> cases cold <;> cases pat <;> decide

theorem sstoreCost_eq (f : Fork) (pat : Pattern) (o p n gas : Nat) (cold : Bool) (h : pat.holds o p n) :
    sstoreCost f.id o p n gas cold = Spec.GasCalc.sstoreCost f pat gas cold := by
  have hm := gates_monotone f
  have e1 : sstoreCost f.id o p n gas cold = sstoreCostB (hasEIP2200 f) (hasEIP2929 f) o p n gas cold := by
    unfold sstoreCost sstoreCostB; rw [en_istanbul, en_berlin]
  have e2 : Spec.GasCalc.sstoreCost f pat gas cold
      = specCostB (hasEIP2200 f) (hasEIP2929 f) (hasEIP3529 f) pat gas cold := by
    unfold Spec.GasCalc.sstoreCost specCostB Spec.GasCalc.netParams; rfl
  rw [e1, e2]
  exact sstoreCostB_eq _ _ _ hm.2.2.2.1 hm.2.2.1 pat o p n gas cold h

def sstoreRefundB (i b l : Bool) (o p n : Nat) : Int :=
  if i then
    let sched : Int :=
      if l then ((SSTORE_RESET - COLD_SLOAD_COST + ACCESS_LIST_STORAGE_KEY : Nat) : Int)
      else REFUND_SSTORE_CLEARS
    if n = p then 0
    else if o = p ∧ n = 0 then sched
    else
      let r0 : Int := 0
      let r1 : Int :=
        if o ≠ 0 then
          if p = 0 then r0 - sched else if n = 0 then r0 + sched else r0
        else r0
      if o = n then
        let gs : Nat × Nat :=
          if b then (SSTORE_RESET - COLD_SLOAD_COST, WARM_STORAGE_READ_COST)
          else (SSTORE_RESET, INSTANBUL_SLOAD_GAS)
        if o = 0 then r1 + ((SSTORE_SET - gs.2 : Nat) : Int)
        else r1 + ((gs.1 - gs.2 : Nat) : Int)
      else r1
  else
    if p ≠ 0 ∧ n = 0 then REFUND_SSTORE_CLEARS else 0

def specRefundB (i b l : Bool) (pat : Pattern) : Int :=
  let q : Spec.GasCalc.NetParams :=
    if l then ⟨100, 20000, 2900, 4800⟩ else if b then ⟨100, 20000, 2900, 15000⟩ else ⟨800, 20000, 5000, 15000⟩
  if i then Spec.GasCalc.netRefund q pat else Spec.GasCalc.legacyRefund pat


theorem sstoreRefundB_eq (i b l : Bool) (hbi : b = true → i = true) (hlb : l = true → b = true)
    (pat : Pattern) (o p n : Nat) (h : pat.holds o p n) :
    sstoreRefundB i b l o p n = specRefundB i b l pat := by
  obtain ⟨h1, h2, h3, h4, h5, h6⟩ := facts pat o p n h
  unfold sstoreRefundB specRefundB
  simp only [h1, h2, h3, h4, h5, h6, ne_eq]
  cases i <;> cases b <;> cases l <;> simp at hbi hlb <;> cases pat <;> decide

theorem sstoreRefund_eq (f : Fork) (pat : Pattern) (o p n : Nat) (h : pat.holds o p n) :
    sstoreRefund f.id o p n = Spec.GasCalc.sstoreRefund f pat := by
  have hm := gates_monotone f
  have e1 : sstoreRefund f.id o p n = sstoreRefundB (hasEIP2200 f) (hasEIP2929 f) (hasEIP3529 f) o p n := by
    have hs : hasEIP2929 f = false → hasEIP2200 f = true → sloadCost f.id false = INSTANBUL_SLOAD_GAS := by
      cases f <;> decide
    unfold sstoreRefund sstoreRefundB; rw [en_istanbul, en_berlin, en_london]
    cases hi : hasEIP2200 f <;> cases hb : hasEIP2929 f <;> simp only [Bool.false_eq_true, if_true, if_false]
    rw [hs hb hi]
  have e2 : Spec.GasCalc.sstoreRefund f pat
      = specRefundB (hasEIP2200 f) (hasEIP2929 f) (hasEIP3529 f) pat := by
    unfold Spec.GasCalc.sstoreRefund specRefundB Spec.GasCalc.netParams; rfl
  rw [e1, e2]
  exact sstoreRefundB_eq _ _ _ hm.2.2.2.1 hm.2.2.1 pat o p n h


/-! ### memory -/

theorem sq_lt (w : Nat) (h : w < 2^32) : w * w < 2^64 := by
  have := Nat.mul_lt_mul'' h h
  simpa using this

theorem sq_ge (w : Nat) (h : 2^32 ≤ w) : 2^64 ≤ w * w := by
  have := Nat.mul_le_mul h h
  simpa using this

/-- `memory_gas` is the Yellow Paper C_mem clamped to `u64::MAX`, for every word count -/
theorem memoryGas_full (w : Nat) : memoryGas w = min (memCost w) (U64 - 1) := by
  unfold memoryGas MEMORY memCost
  generalize w * w / 512 = q
  simp only []
  split <;> omega

theorem memoryGas_exact (w : Nat) (h : memCost w < U64) : memoryGas w = memCost w := by
  rw [memoryGas_full]; omega

theorem memoryGas_sat (w : Nat) (h : U64 ≤ memCost w) : memoryGas w = U64 - 1 := by
  rw [memoryGas_full]; omega

theorem memoryGas_eq (w : Nat) (h : w < 2^32) : memoryGas w = memCost w := by
  have hU := U64_val
  have hq := sq_lt w h
  apply memoryGas_exact
  unfold memCost
  generalize w * w = q at hq ⊢
  omega

theorem memCost_lt (w : Nat) (h : w < 2^32) : memCost w < 2^56 := by
  have hq := sq_lt w h
  unfold memCost
  generalize w * w = q at hq ⊢
  omega

theorem memCost_mono (a b : Nat) (h : a ≤ b) : memCost a ≤ memCost b := by
  unfold memCost
  have h1 : a * a ≤ b * b := Nat.mul_le_mul h h
  have h2 : a * a / 512 ≤ b * b / 512 := Nat.div_le_div_right h1
  omega

theorem ceil32_mono (a b : Nat) (h : a ≤ b) : ceil32 a ≤ ceil32 b := by
  unfold ceil32; omega

/-- `resize_memory` on a genuine expansion whose C_mem fits in 64 bits: charges exactly the Yellow Paper
expansion cost, fails exactly when it exceeds the remaining gas, and leaves a whole number of words -/
theorem resizeMemory_eq (cur rem new : Nat) (hcn : cur ≤ new) (hnew : new + 31 < U64)
    (hfit : memCost (ceil32 new) < U64) :
    resizeMemory cur rem new =
      if memExpansion cur new ≤ rem then (true, rem - memExpansion cur new, 32 * ceil32 new)
      else (false, rem, cur) := by
  have hU := U64_val
  have hw0 : ceil32 cur ≤ ceil32 new := ceil32_mono _ _ hcn
  have hm := memCost_mono _ _ hw0
  have hl1 := hfit
  unfold resizeMemory memoryGasForLen recordCost memExpansion
  rw [numWords_eq new (by omega), numWords_eq cur (by omega)]
  simp only []
  rw [memoryGas_exact _ hfit, memoryGas_exact _ (by omega)]
  have hs : wsub (memCost (ceil32 new)) (memCost (ceil32 cur)) = memCost (ceil32 new) - memCost (ceil32 cur) := by
    unfold wsub
    generalize memCost (ceil32 new) = a at *
    generalize memCost (ceil32 cur) = b at *
    rw [Nat.mod_eq_of_lt (by omega : b < U64)]
    have : a + U64 - b = (a - b) + U64 := by omega
    rw [this, Nat.add_mod_right]; exact Nat.mod_eq_of_lt (by omega)
  simp only [hs]
  by_cases hc : memCost (ceil32 new) - memCost (ceil32 cur) ≤ rem
  · simp only [hc, if_true]; rw [Nat.mul_comm]
  · simp only [hc, if_false]; simp

/-- the `resize_memory!` macro whenever C_mem of the new size fits in 64 bits: nothing happens when the range is already
covered, otherwise as `resizeMemory_eq`, and `MemoryOOG` exactly when the cost exceeds the gas left -/
theorem resizeMemoryMacro_eq (cur rem off len : Nat) (h : off + len + 31 < U64)
    (hfit : memCost (ceil32 (off + len)) < U64) :
    resizeMemoryMacro cur rem off len =
      if off + len ≤ cur then some (rem, cur)
      else if memExpansion cur (off + len) ≤ rem then
        some (rem - memExpansion cur (off + len), 32 * ceil32 (off + len))
      else none := by
  have hU := U64_val
  unfold resizeMemoryMacro saturatingAdd
  have h1 : off + len < U64 := by omega
  simp only [h1, if_true]
  by_cases hc : off + len ≤ cur
  · have : ¬ (off + len > cur) := by omega
    simp only [this, hc, if_true, if_false]
  · have hgt : off + len > cur := by omega
    simp only [hgt, hc, if_true, if_false]
    rw [resizeMemory_eq cur rem (off + len) (by omega) h hfit]
    by_cases he : memExpansion cur (off + len) ≤ rem
    · simp only [he, if_true]
    · simp only [he, if_false]; simp

end Revm.Proofs.GasCalc
