import Revm.Proofs.TxValidate
/-! C02, validation part 2: `validate_tx` as a whole, `validate_initial_tx_gas`,
`validate_tx_against_state`, and the composition `validate = first violated rule`. -/
set_option linter.unusedSimpArgs false
set_option linter.unusedVariables false
namespace Revm.Proofs.TxValidate
open Revm
open Revm.Model.GasCalc (enabled canon calculateInitialTxGas)
open Revm.Model.GasCalc.SpecId
open Revm.Model.TxValidate
open Revm.Spec.GasCalc (Fork intrinsicGas floorGas)
open Revm.Spec.TxValid

/-! ### `validate_tx` -/

def rulesTxHead (f : Fork) (cfg : Cfg) (blk : Block) (tx : Tx) : List Rule :=
  [(.InvalidChainId, decide (ChainIdOk cfg tx)),
   (.CallerGasLimitMoreThanBlock, decide (BlockGasOk blk tx)),
   (.AccessListNotSupported, decide (tx.accessList ≠ [] → hasEIP2930 f = true))]
def rulesFee (f : Fork) (blk : Block) (tx : Tx) : List Rule :=
  [(.PriorityFeeGreaterThanMaxFee, decide (hasEIP1559 f = true → PriorityOk tx)),
   (.GasPriceLessThanBasefee, decide (hasEIP1559 f = true → blk.basefee ≤ tx.gasPrice))]
def rulesInit (f : Fork) (cfg : Cfg) (tx : Tx) : List Rule :=
  [(.CreateInitCodeSizeLimit, decide (InitcodeOk f cfg tx))]

theorem rulesTx_split (f : Fork) (cfg : Cfg) (blk : Block) (tx : Tx) :
    rulesTx f cfg blk tx =
      rulesTxHead f cfg blk tx ++ (rulesFee f blk tx ++ (rulesInit f cfg tx ++ (rulesBlob f cfg blk tx ++ rulesAuth f tx))) := rfl

theorem chainIdMismatch_iff (cfg : Cfg) (tx : Tx) : chainIdMismatch cfg tx = true ↔ ¬ ChainIdOk cfg tx := by
  unfold chainIdMismatch ChainIdOk
  cases tx.chainId <;> simp

/-- what the later stages need to know about a transaction that passed `validate_tx` -/
theorem validateTx_eq (f : Fork) (cfg : Cfg) (blk : Block) (tx : Tx)
    (hwrap : hasEIP1559 f = true → ∀ p, tx.priorityFee = some p → blk.basefee + p < W)
    (hlen : tx.data.length < U64)
    (hhdr : hasEIP4844 f = true → blk.blobGasPrice.isSome = true) :
    validateTx (canon f.id) cfg blk tx = resOf (firstViolated (rulesTx f cfg blk tx)) := by
  rw [rulesTx_split, fv_append, fv_append, fv_append, fv_append]
  unfold rulesFee rulesInit
  rw [← feeChecks_eq f blk tx hwrap, ← initcodeCheck_eq f cfg tx hlen, ← blobChecks_eq f cfg blk tx hhdr,
    ← authChecks_eq]
  unfold validateTx rulesTxHead
  rw [enc_berlin]
  by_cases h1 : ChainIdOk cfg tx
  · rw [fv_pos _ _ h1, if_neg (by rw [chainIdMismatch_iff]; exact fun h => h h1)]
    by_cases h2 : BlockGasOk blk tx
    · rw [fv_pos _ _ h2, if_neg (by unfold BlockGasOk at h2; omega)]
      have hcond : (!hasEIP2930 f && !tx.accessList.isEmpty) = true ↔
          ¬ (tx.accessList ≠ [] → hasEIP2930 f = true) := by
        cases hb : hasEIP2930 f <;> cases ha : tx.accessList <;> simp
      by_cases h3 : (tx.accessList ≠ [] → hasEIP2930 f = true)
      · rw [fv_pos _ _ h3, fv_nil, andThen_ok, if_neg (fun h => hcond.1 h h3)]
      · rw [fv_neg _ _ h3, andThen_err, if_pos (hcond.2 h3)]
    · rw [fv_neg _ _ h2, andThen_err, if_pos (by unfold BlockGasOk at h2; omega)]
  · rw [fv_neg _ _ h1, andThen_err, if_pos ((chainIdMismatch_iff cfg tx).2 h1)]

/-! ### `validate_initial_tx_gas` -/

/-- the intrinsic gas and the floor are representable in `u64` (they are for every transaction that
fits into memory; beyond, `calculate_initial_tx_gas` wraps — the C14 finding `tx-gas-wraps`) -/
def GasFits (f : Fork) (tx : Tx) : Prop :=
  intrinsicGas f tx.data tx.isCreate tx.accessList (tx.authList.getD 0) < U64 ∧ floorGas f tx.data < U64

theorem validateInitialTxGas_eq (f : Fork) (tx : Tx) (hfit : GasFits f tx) :
    validateInitialTxGas (canon f.id) tx = resOf (firstViolated (rulesGas f tx)) := by
  obtain ⟨h1, h2⟩ := hfit
  unfold validateInitialTxGas rulesGas
  rw [Proofs.GasCalc.canon_id, Proofs.GasCalc.calculateInitialTxGas_eq (Proofs.GasCalc.canonFork f) tx.data
    tx.isCreate tx.accessList (tx.authList.getD 0)
    (by rw [Proofs.GasCalc.intrinsic_canon]; exact h1) (by rw [Proofs.GasCalc.floor_canon]; exact h2),
    Proofs.GasCalc.intrinsic_canon, Proofs.GasCalc.floor_canon, ← Proofs.GasCalc.canon_id, enc_prague]
  simp only []
  by_cases hi : intrinsicGas f tx.data tx.isCreate tx.accessList (tx.authList.getD 0) ≤ tx.gasLimit
  · rw [fv_pos _ _ hi, if_neg (by omega)]
    by_cases hf : floorGas f tx.data ≤ tx.gasLimit
    · rw [fv_pos _ _ hf, fv_nil, if_neg]
      simp only [Bool.and_eq_true, decide_eq_true_eq, not_and]
      intro _; omega
    · rw [fv_neg _ _ hf, if_pos]
      have hp : hasEIP7702 f = true := by
        rw [eip7702_eq]
        unfold floorGas at hf
        cases h : Fork.hasEIP7623 f
        · simp only [h, Bool.false_eq_true, if_false] at hf; omega
        · rfl
      simp only [hp, Bool.true_and, decide_eq_true_eq]; omega
  · rw [fv_neg _ _ hi, if_pos (by omega)]

/-! ### `validate_tx_against_state` -/

/-- ranges of the Rust types of the fields that take part in 256-bit / 64-bit arithmetic -/
structure InRange (blk : Block) (tx : Tx) (snd : Sender) : Prop where
  basefee : blk.basefee < W
  gasPrice : tx.gasPrice < W
  priorityFee : ∀ p, tx.priorityFee = some p → p < W
  value : tx.value < W
  maxFeePerBlobGas : ∀ m, tx.maxFeePerBlobGas = some m → m < W
  balance : snd.balance < W
  dataLen : tx.data.length < U64
  nonce : ∀ n, tx.nonce = some n → n < U64
  /-- fewer than 2^47 blob hashes (`GAS_PER_BLOB * len` does not wrap in `u64`) -/
  blobLen : 131072 * tx.blobHashes.length < U64

theorem totalBlobGas_eq (tx : Tx) (h : 131072 * tx.blobHashes.length < U64) :
    totalBlobGas tx = blobGas tx := by
  unfold totalBlobGas blobGas GAS_PER_BLOB U64ops.wmul
  exact Nat.mod_eq_of_lt h

/-- the data fee term of the Spec -/
def blobFee (tx : Tx) : Nat := (tx.maxFeePerBlobGas.getD 0) * blobGas tx

theorem maxDataFee_eq (tx : Tx) (hb : 131072 * tx.blobHashes.length < U64) :
    maxDataFee tx = if blobFee tx < W then blobFee tx else W - 1 := by
  unfold maxDataFee blobFee U256.saturatingMul
  rw [totalBlobGas_eq tx hb]
  cases tx.maxFeePerBlobGas with
  | none => have := W_val; simp only [Option.getD_none, Nat.zero_mul]; rw [if_pos (by omega)]
  | some m => simp only [Option.getD_some]

theorem nonceCheck_eq (tx : Tx) (snd : Sender) (hnr : ∀ n, tx.nonce = some n → n < U64) :
    nonceCheck tx snd = resOf (firstViolated
      [(.NonceTooHigh, decide (NonceNotHigh tx snd)), (.NonceTooLow, decide (NonceNotLow tx snd)),
       (.NonceOverflowInTransaction, decide (NonceNotMax tx))]) := by
  have hU := U64_val
  have e1 : NonceNotHigh tx snd ↔ ∀ n, tx.nonce = some n → n ≤ snd.nonce := by
    unfold NonceNotHigh; cases tx.nonce <;> simp
  have e2 : NonceNotLow tx snd ↔ ∀ n, tx.nonce = some n → snd.nonce ≤ n := by
    unfold NonceNotLow; cases tx.nonce <;> simp
  have e3 : NonceNotMax tx ↔ ∀ n, tx.nonce = some n → n < 2^64 - 1 := by
    unfold NonceNotMax; cases tx.nonce <;> simp
  unfold nonceCheck
  cases hn : tx.nonce with
  | none =>
    rw [fv_pos _ _ (e1.2 (by simp [hn])), fv_pos _ _ (e2.2 (by simp [hn])), fv_pos _ _ (e3.2 (by simp [hn])), fv_nil]
  | some n =>
    simp only [hn, Option.some.injEq, forall_eq'] at e1 e2 e3
    have hnr' := hnr n hn
    show (if n > snd.nonce then Res.err Err.NonceTooHigh else if n < snd.nonce then Res.err Err.NonceTooLow
      else if n = U64 - 1 then Res.err Err.NonceOverflowInTransaction else Res.ok) = _
    by_cases h1 : n > snd.nonce
    · rw [fv_neg _ _ (by rw [e1]; omega), if_pos h1]
    · rw [fv_pos _ _ (by rw [e1]; omega), if_neg h1]
      by_cases h2 : n < snd.nonce
      · rw [fv_neg _ _ (by rw [e2]; omega), if_pos h2]
      · rw [fv_pos _ _ (by rw [e2]; omega), if_neg h2]
        by_cases h3 : n = U64 - 1
        · rw [fv_neg _ _ (by rw [e3]; omega), if_pos h3]
        · rw [fv_pos _ _ (by rw [e3]; omega), fv_nil, if_neg h3]

/-- `balance_check` when the blob fee does not saturate -/
theorem balanceCheck_eq (f : Fork) (tx : Tx) (snd : Sender) (hr : InRange blk tx snd)
    (hblob : hasEIP4844 f = false → tx.maxFeePerBlobGas = none)
    (hnosat : blobFee tx < W) :
    balanceCheck (canon f.id) tx = if maxCost tx < W then some (maxCost tx) else none := by
  have hW := W_val
  have hfee := maxDataFee_eq tx hr.blobLen
  rw [if_pos hnosat] at hfee
  have hmc : maxCost tx = tx.gasLimit * tx.gasPrice + tx.value + blobFee tx := rfl
  unfold balanceCheck U256.checkedMul U256.checkedAdd
  rw [enc_cancun, hfee, hmc]
  have hz : hasEIP4844 f = false → blobFee tx = 0 := by
    intro h; unfold blobFee; rw [hblob h]; simp
  generalize tx.gasLimit * tx.gasPrice = a at *
  generalize blobFee tx = b at *
  generalize tx.value = v at *
  cases hc : hasEIP4844 f
  · have := hz hc
    subst this
    by_cases h1 : a < W
    · simp only [h1, if_true]
      by_cases h2 : a + v < W
      · simp only [h2, if_true, Bool.false_eq_true, if_false, Nat.add_zero]
      · simp only [h2, if_false, Nat.add_zero]
    · simp only [h1, if_false]; rw [if_neg (by omega)]
  · by_cases h1 : a < W
    · simp only [h1, if_true]
      by_cases h2 : a + v < W
      · simp only [h2, if_true]
      · simp only [h2, if_false]; rw [if_neg (by omega)]
    · simp only [h1, if_false]; rw [if_neg (by omega)]

theorem validateTxAgainstState_eq (f : Fork) (blk : Block) (tx : Tx) (snd : Sender) (hr : InRange blk tx snd)
    (hblob : hasEIP4844 f = false → tx.maxFeePerBlobGas = none)
    (hnosat : blobFee tx < W) :
    validateTxAgainstState (canon f.id) tx snd = resOf (firstViolated (rulesState tx snd)) := by
  have hW := W_val
  have hsplit : rulesState tx snd =
      [(.RejectCallerWithCode, decide (snd.code ≠ .other))] ++
      ([(.NonceTooHigh, decide (NonceNotHigh tx snd)), (.NonceTooLow, decide (NonceNotLow tx snd)),
        (.NonceOverflowInTransaction, decide (NonceNotMax tx))] ++
       [(.OverflowPaymentInTransaction, decide (maxCost tx < 2^256)),
        (.LackOfFundForMaxFee, decide (maxCost tx ≤ snd.balance))]) := rfl
  rw [hsplit, fv_append, fv_append, ← nonceCheck_eq tx snd hr.nonce]
  unfold validateTxAgainstState
  rw [balanceCheck_eq (blk := blk) f tx snd hr hblob hnosat]
  have hWW : W = 2^256 := rfl
  by_cases hc : snd.code = .other
  · rw [if_pos hc, fv_neg _ _ (by simp [hc]), andThen_err]
  · rw [if_neg hc, fv_pos _ _ hc, fv_nil, andThen_ok]
    congr 1
    by_cases h1 : maxCost tx < W
    · rw [if_pos h1, fv_pos _ _ (by rw [← hWW]; exact h1)]
      simp only []
      by_cases h2 : maxCost tx > snd.balance
      · rw [if_pos h2, fv_neg _ _ (by omega)]
      · rw [if_neg h2, fv_pos _ _ (by omega), fv_nil]
    · rw [if_neg h1, fv_neg _ _ (by rw [← hWW]; exact h1)]

end Revm.Proofs.TxValidate
