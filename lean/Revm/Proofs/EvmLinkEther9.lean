import Revm.Proofs.EvmLinkEther8
/-! LINK, ether conservation (C08), part 10: the address list. `World.addrs` contains every account present in the
journal, throughout `Evm.transact` (`transact_ngrow`, `Noted`); so the conservation law can be stated over the
(duplicate-free) list the model itself maintains. -/
set_option linter.unusedSimpArgs false
set_option linter.unusedVariables false
namespace Revm.Proofs.EvmLink
open Revm Revm.Model Revm.Model.Evm
open Revm.Spec.Ether Revm.Proofs.Ether

/-- a list without its repetitions -/
def dedup : List Nat → List Nat
  | [] => []
  | a :: l => if a ∈ dedup l then dedup l else a :: dedup l

theorem mem_dedup {x : Nat} : ∀ {l : List Nat}, x ∈ dedup l ↔ x ∈ l
  | [] => Iff.rfl
  | a :: l => by
    simp only [dedup]
    split
    · rename_i h
      rw [mem_dedup (l := l), List.mem_cons]
      constructor
      · exact Or.inr
      · rintro (rfl | h')
        · exact mem_dedup.mp h
        · exact h'
    · rw [List.mem_cons, List.mem_cons, mem_dedup (l := l)]

theorem nodup_dedup : ∀ (l : List Nat), (dedup l).Nodup
  | [] => List.nodup_nil
  | a :: l => by
    simp only [dedup]
    split
    · exact nodup_dedup l
    · rename_i h; exact List.nodup_cons.mpr ⟨h, nodup_dedup l⟩

theorem deductCaller_ng {e : Evm.Env} {spec : Nat} {w w' : World} (h : Evm.deductCaller e spec w = .ok w') :
    NGrow w w' := by
  unfold Evm.deductCaller at h
  obtain ⟨⟨w1, cold⟩, h1, h⟩ := bind_ok h
  obtain ⟨acc, h2, h⟩ := bind_ok h
  obtain ⟨d, h3, h⟩ := bind_ok h
  simp only [pure, Except.pure, Except.ok.injEq] at h
  subst h
  exact (ng_loadAccount h1).trans (ng_setAcct _ (present_of_some (acct_ok h2)))

theorem finish_ng {e : Evm.Env} {spec floorGas r7 : Nat} {isCreate : Bool} {res : Interp.ChildResult}
    {w w' : World} {r : TxResult} (h : Evm.finish e spec floorGas r7 isCreate res w = .ok (r, w')) : NGrow w w' := by
  unfold Evm.finish at h
  generalize Evm.finalGas e spec floorGas r7 res = g at h
  obtain ⟨⟨w1, c1⟩, h1, h⟩ := bind_ok h
  obtain ⟨cacc, h2, h⟩ := bind_ok h
  obtain ⟨⟨w3, c3⟩, h3, h⟩ := bind_ok h
  obtain ⟨bacc, h4, h⟩ := bind_ok h
  obtain ⟨cls, h5, h⟩ := bind_ok h
  simp only [pure, Except.pure, Except.ok.injEq, Prod.mk.injEq] at h
  rw [← h.2]
  exact (((ng_loadAccount h1).trans (ng_setAcct _ (present_of_some (acct_ok h2)))).trans (ng_loadAccount h3)).trans
    (ng_setAcct _ (present_of_some (acct_ok h4)))

/-- **`World.addrs` keeps up with the journal through the whole transaction** -/
theorem transact_ngrow (fuel : Nat) (w w' : World) (e : Evm.Env) (spec : Nat) (r : TxResult)
    (h : Evm.transact fuel w e spec = .ok (.executed r, w')) : NGrow w w' := by
  obtain ⟨w1, ig, fg, first, w2, isCreate, k, res, w3, hp, hpr, hk, hrf, hfin⟩ :=
    transact_executed_stages fuel w w' e spec r h
  obtain ⟨_, _, _, _, accV, code, hl, _⟩ := preverify_some_inv w w1 e _ ig fg hp
  obtain ⟨cold, hh, hlc, _, _, _⟩ := loadSender_inv hl
  have hn : ([] : List Nat).Nodup := List.nodup_nil
  have hB : sumOver [] (fun _ : Nat => 0) < W := by show 0 < W; rw [W_val]; decide
  obtain ⟨wd, hd, pP⟩ := prepare_pres hn hB hpr
  have pR := pres_runFirst hn hB hrf
  exact ((((ng_loadCode hlc).trans (quiet_loadAccounts e _ w1).ng).trans (deductCaller_ng hd)).trans
    (pP.trans pR).ng).trans (finish_ng hfin)

theorem transact_noted (fuel : Nat) (w w' : World) (e : Evm.Env) (spec : Nat) (r : TxResult)
    (h : Evm.transact fuel w e spec = .ok (.executed r, w')) (hN : Noted w) : Noted w' :=
  (transact_ngrow fuel w w' e spec r h).noted hN

/-- **ether conservation over the address list the model maintains**: `L` = `World.addrs` of the final world,
without repetitions -/
theorem transact_conserves_addrs (fuel : Nat) (w w' : World) (e : Evm.Env) (spec : Nat) (r : TxResult)
    (h : Evm.transact fuel w e spec = .ok (.executed r, w'))
    (hL : e.tx.gasLimit < U64) (hN : Noted w)
    (hok : BalOk w.db w.js) (hj : JB w.js = []) (hSum : total (dedup w'.addrs) w.db w.js < W) :
    total (dedup w'.addrs) w'.db w'.js + burntPerGas (GasCalc.canon spec) (feeEnv e) * r.gasUsed
      + dataFee (GasCalc.canon spec) (feeEnv e) + burnt w'.js = total (dedup w'.addrs) w.db w.js :=
  transact_conserves fuel w w' e spec r _ h hL (nodup_dedup _)
    (fun a ha => mem_dedup.mpr (transact_noted fuel w w' e spec r h hN a ha)) hok hj hSum

end Revm.Proofs.EvmLink
