import Revm.Proofs.EvmLinkInterp3
/-! LINK, the interpreter side of panic-freedom, part 4: discharging the model facts about the frame machine and the
host — the code store and the precompile oracle are touched only by `create_return` (`add_code` of an output within
`isize::MAX`); the results the frame functions hand back (gas at most the limit, output a Rust `Bytes`); the frame they
open (C25's `init_inv`, the fresh memory context, the kind). -/
set_option linter.unusedSimpArgs false
set_option linter.unusedVariables false
namespace Revm.Proofs.EvmLink
open Revm Revm.Model Revm.Model.Evm
open Revm.Proofs.Memory (WF)

local notation "IInv" => Revm.Proofs.Interp.Inv
local notation "imeas" => Revm.Proofs.Interp.measure
local notation "ISZ" => Memory.ISIZE_MAX

/-! ## world operations keep the stores -/

theorem noteAddr_store (w : World) (a : Nat) : StoreEq w (w.noteAddr a) := by
  unfold World.noteAddr; split <;> exact ⟨rfl, rfl⟩
theorem noteSlot_store (w : World) (a k : Nat) : StoreEq w (w.noteSlot a k) := by
  unfold World.noteSlot; split <;> exact ⟨rfl, rfl⟩

theorem w_loadAccount_store {w w1 : World} {a : Nat} {c : Bool} (h : w.loadAccount a = .ok (w1, c)) : StoreEq w w1 := by
  unfold World.loadAccount at h
  obtain ⟨⟨js, c'⟩, _, h2⟩ := bind_ok h
  simp only [pure, Except.pure, Except.ok.injEq, Prod.mk.injEq] at h2
  rw [← h2.1]; exact noteAddr_store _ _

theorem w_loadCode_store {w w1 : World} {a : Nat} {c : Bool} (h : w.loadCode a = .ok (w1, c)) : StoreEq w w1 := by
  unfold World.loadCode at h
  obtain ⟨⟨js, c'⟩, _, h2⟩ := bind_ok h
  simp only [pure, Except.pure, Except.ok.injEq, Prod.mk.injEq] at h2
  rw [← h2.1]; exact noteAddr_store _ _

theorem w_loadAccountDelegated_store {w w1 : World} {a : Nat} {r} (h : w.loadAccountDelegated a = .ok (w1, r)) :
    StoreEq w w1 := by
  unfold World.loadAccountDelegated at h
  obtain ⟨⟨js, ie, c, dc⟩, h1, h2⟩ := bind_ok h
  simp only [pure, Except.pure, Except.ok.injEq, Prod.mk.injEq] at h2
  obtain ⟨rfl, _⟩ := h2
  have h0 : StoreEq w ({ w with js := js }.noteAddr a) := noteAddr_store _ _
  split
  · exact h0.trans (noteAddr_store _ _)
  · exact h0

theorem w_touch_store {w w1 : World} {a : Nat} (h : w.touch a = .ok w1) : StoreEq w w1 := by
  unfold World.touch at h
  obtain ⟨js, h1, h2⟩ := bind_ok h
  simp only [pure, Except.pure, Except.ok.injEq] at h2
  subst h2
  exact ⟨rfl, rfl⟩

theorem w_transfer_store {w w1 : World} {a b v : Nat} {r} (h : w.transfer a b v = .ok (w1, r)) : StoreEq w w1 := by
  unfold World.transfer at h
  obtain ⟨⟨js, e⟩, h1, h2⟩ := bind_ok h
  simp only [pure, Except.pure, Except.ok.injEq, Prod.mk.injEq] at h2
  obtain ⟨rfl, _⟩ := h2
  have h0 : StoreEq w ({ w with js := js }.noteAddr a) := noteAddr_store _ _
  exact h0.trans (noteAddr_store _ _)

theorem w_checkpoint_store (w : World) : StoreEq w w.checkpoint.1 := ⟨rfl, rfl⟩
theorem w_commit_store (w : World) : StoreEq w w.commit := ⟨rfl, rfl⟩

theorem w_revert_store {w w1 : World} {cp : Journal.Checkpoint} (h : w.revert cp = .ok w1) : StoreEq w w1 := by
  unfold World.revert at h
  obtain ⟨js, h1, h2⟩ := bind_ok h
  simp only [pure, Except.pure, Except.ok.injEq] at h2
  subst h2
  exact ⟨rfl, rfl⟩

theorem w_createCheckpoint_store {w w1 : World} {caller a : Nat} {hs : Bool} {v spec : Nat}
    {r : Except Journal.CreateErr Journal.Checkpoint}
    (h : journalOps.createCheckpoint w caller a hs v spec = .ok (w1, r)) : StoreEq w w1 := by
  simp only [journalOps] at h
  obtain ⟨⟨js, r'⟩, h1, h2⟩ := bind_ok h
  simp only [pure, Except.pure, Except.ok.injEq, Prod.mk.injEq] at h2
  obtain ⟨rfl, rfl⟩ := h2
  exact ⟨rfl, rfl⟩

/-! ## the `Host` -/

theorem answer_store {he : HostEnv} {w w1 : World} {op : Interp.HostOp} {resp : Interp.HostResp}
    (h : answer he w op = .ok (resp, w1)) : StoreEq w w1 := by
  cases op with
  | keccak d => simp only [answer, pure, Except.pure, Except.ok.injEq, Prod.mk.injEq] at h; rw [← h.2]; exact ⟨rfl, rfl⟩
  | balance a =>
    simp only [answer] at h
    obtain ⟨⟨w2, c⟩, h1, h⟩ := bind_ok h
    obtain ⟨acc, _, h⟩ := bind_ok h
    simp only [pure, Except.pure, Except.ok.injEq, Prod.mk.injEq] at h
    rw [← h.2]; exact w_loadAccount_store h1
  | code a =>
    simp only [answer] at h
    obtain ⟨⟨w2, c⟩, h1, h⟩ := bind_ok h
    obtain ⟨acc, _, h⟩ := bind_ok h
    obtain ⟨hh, _, h⟩ := bind_ok h
    obtain ⟨bytes, _, h⟩ := bind_ok h
    simp only [pure, Except.pure, Except.ok.injEq, Prod.mk.injEq] at h
    rw [← h.2]; exact w_loadCode_store h1
  | codeHash a =>
    simp only [answer] at h
    obtain ⟨⟨w2, c⟩, h1, h⟩ := bind_ok h
    obtain ⟨acc, _, h⟩ := bind_ok h
    split at h <;> simp only [pure, Except.pure, Except.ok.injEq, Prod.mk.injEq] at h <;>
      (rw [← h.2]; exact w_loadCode_store h1)
  | blockHash n => simp only [answer, pure, Except.pure, Except.ok.injEq, Prod.mk.injEq] at h; rw [← h.2]; exact ⟨rfl, rfl⟩
  | create2Address d sl c =>
    simp only [answer, pure, Except.pure, Except.ok.injEq, Prod.mk.injEq] at h; rw [← h.2]; exact ⟨rfl, rfl⟩
  | sload a k =>
    simp only [answer] at h
    obtain ⟨⟨js, v, c⟩, h1, h⟩ := bind_ok h
    simp only [pure, Except.pure, Except.ok.injEq, Prod.mk.injEq] at h
    rw [← h.2]
    exact StoreEq.trans (b := { w with js := js }) ⟨rfl, rfl⟩ (noteSlot_store _ _ _)
  | sstore a k v =>
    simp only [answer] at h
    obtain ⟨⟨js, o, p, n, c⟩, h1, h⟩ := bind_ok h
    simp only [pure, Except.pure, Except.ok.injEq, Prod.mk.injEq] at h
    rw [← h.2]
    exact StoreEq.trans (b := { w with js := js }) ⟨rfl, rfl⟩ (noteSlot_store _ _ _)
  | tload a k => simp only [answer, pure, Except.pure, Except.ok.injEq, Prod.mk.injEq] at h; rw [← h.2]; exact ⟨rfl, rfl⟩
  | tstore a k v =>
    simp only [answer] at h
    obtain ⟨js, h1, h⟩ := bind_ok h
    simp only [pure, Except.pure, Except.ok.injEq, Prod.mk.injEq] at h
    rw [← h.2]; exact ⟨rfl, rfl⟩
  | log a t d =>
    simp only [answer, pure, Except.pure, Except.ok.injEq, Prod.mk.injEq] at h; rw [← h.2]; exact ⟨rfl, rfl⟩
  | selfdestruct a t =>
    simp only [answer] at h
    obtain ⟨⟨js, x⟩, h1, h⟩ := bind_ok h
    simp only [pure, Except.pure, Except.ok.injEq, Prod.mk.injEq] at h
    rw [← h.2]
    exact StoreEq.trans (b := { w with js := js }) ⟨rfl, rfl⟩ (noteAddr_store _ _)
  | loadAccountDelegated a =>
    simp only [answer] at h
    obtain ⟨⟨w2, x⟩, h1, h⟩ := bind_ok h
    simp only [pure, Except.pure, Except.ok.injEq, Prod.mk.injEq] at h
    rw [← h.2]; exact w_loadAccountDelegated_store h1

/-! ## `make_call_frame` -/

/-- the executable precompiles (SHA-256, RIPEMD-160, identity, MODEXP, BN add / mul, BLAKE2F) return a Rust `Bytes` -/
def PcOut : Prop :=
  ∀ (fork : Precompile.Fork) (a : Nat) (input : List Nat) (gasLimit gasUsed : Nat) (out : List Nat),
    isOraclePrecompile a = false → Precompile.call dummyCores fork a input gasLimit = some (.ok gasUsed out) →
    input.length ≤ ISZ → out.length ≤ ISZ

/-- what `make_call_frame` / `make_create_frame` give back -/
structure MkOut (w w' : World) (gasLimit : Nat) (fr : FrameOrResult Journal.Checkpoint) : Prop where
  store : StoreEq w w'
  res : ∀ o, fr = .result o → o.gasRemaining ≤ gasLimit ∧ o.output.length ≤ ISZ

theorem early_out (r : Interp.IResult) (g : Nat) {o : Interp.ChildResult}
    (h : FrameOrResult.result (κ := Journal.Checkpoint) (earlyResult r g) = .result o) :
    o.gasRemaining ≤ g ∧ o.output.length ≤ ISZ := by
  cases h
  exact ⟨Nat.le_refl _, Nat.zero_le _⟩

theorem callValueStep_store {w w1 : World} {i : Interp.CallInputs} {f} (h : callValueStep w i = .ok (w1, f)) :
    StoreEq w w1 := by
  unfold callValueStep at h
  split at h
  · split at h
    · obtain ⟨⟨w2, c⟩, h1, h⟩ := bind_ok h
      obtain ⟨w3, h2, h⟩ := bind_ok h
      simp only [pure, Except.pure, Except.ok.injEq, Prod.mk.injEq] at h
      obtain ⟨rfl, rfl⟩ := h
      exact (w_loadAccount_store h1).trans (w_touch_store h2)
    · obtain ⟨⟨w2, e⟩, h1, h⟩ := bind_ok h
      have d := w_transfer_store h1
      simp only at h
      split at h <;> simp only [pure, Except.pure, Except.ok.injEq, Prod.mk.injEq] at h <;> obtain ⟨rfl, rfl⟩ := h <;>
        exact d
  · simp only [pure, Except.pure, Except.ok.injEq, Prod.mk.injEq] at h
    obtain ⟨rfl, rfl⟩ := h
    exact StoreEq.refl _

/-- the frame `make_call_frame` opens -/
def ClFr (cfg : Cfg) (w : World) (i : Interp.CallInputs) (mem : Memory.SharedMemory) (f : JFrame) : Prop :=
  f.kind = .call i.retStart i.retEnd ∧ ∃ code : List Nat, (CodesOk w.codes → code.length ≤ ISZ) ∧
    f.interp = Interp.IState.init code i.input i.gasLimit i.isStatic cfg.spec i.targetAddress i.caller i.value
      cfg.env (Memory.newContext mem)

theorem callTail_out {cfg : Cfg} {w w' : World} {cp : Journal.Checkpoint} {i : Interp.CallInputs} {mem fr}
    (h : callTail journalOps cfg w cp i mem = .ok (fr, w')) :
    MkOut w w' i.gasLimit fr ∧ ∀ f, fr = .frame f → ClFr cfg w i mem f := by
  unfold callTail at h
  obtain ⟨⟨w1, c⟩, h1, h⟩ := bind_ok h
  have d1 := w_loadCode_store h1
  obtain ⟨acc, _, h⟩ := bind_ok h
  obtain ⟨hh, _, h⟩ := bind_ok h
  obtain ⟨bytecode, hb, h⟩ := bind_ok h
  have hb' := Proofs.EvmHost.ofOpt_ok hb
  split at h
  · simp only [pure, Except.pure, Except.ok.injEq, Prod.mk.injEq] at h
    obtain ⟨rfl, rfl⟩ := h
    exact ⟨⟨d1.trans (w_commit_store _), fun o ho => early_out _ _ ho⟩, fun f hf => nomatch hf⟩
  · obtain ⟨⟨w2, code2⟩, h2, h⟩ := bind_ok h
    simp only [pure, Except.pure, Except.ok.injEq, Prod.mk.injEq] at h
    obtain ⟨rfl, rfl⟩ := h
    have key : StoreEq w1 w2 ∧ (CodesOk w.codes → code2.length ≤ ISZ) := by
      split at h2
      · obtain ⟨⟨w3, c3⟩, h3, h2⟩ := bind_ok h2
        obtain ⟨dacc, _, h2⟩ := bind_ok h2
        obtain ⟨dh, _, h2⟩ := bind_ok h2
        obtain ⟨dcode, hd, h2⟩ := bind_ok h2
        simp only [pure, Except.pure, Except.ok.injEq, Prod.mk.injEq] at h2
        obtain ⟨rfl, rfl⟩ := h2
        have d3 := w_loadCode_store h3
        refine ⟨d3, fun hc => ?_⟩
        exact CodesOk.codeOf (w := w3) (by rw [d3.1, d1.1]; exact hc) (Proofs.EvmHost.ofOpt_ok hd)
      · simp only [pure, Except.pure, Except.ok.injEq, Prod.mk.injEq] at h2
        obtain ⟨rfl, rfl⟩ := h2
        exact ⟨StoreEq.refl _, fun hc => CodesOk.codeOf (w := w1) (by rw [d1.1]; exact hc) hb'⟩
    refine ⟨⟨d1.trans key.1, fun o ho => nomatch ho⟩, fun f hf => ?_⟩
    cases hf
    exact ⟨rfl, code2, key.2, rfl⟩

theorem runPrecompile_out (pco : PcOut) {w : World} {spec a : Nat} {input : List Nat} {gasLimit gasUsed : Nat}
    {out : List Nat} (h : runPrecompile w spec a input gasLimit = .ok (some (.ok gasUsed out)))
    (hpc : PcOk w.pcOracle) (hin : input.length ≤ ISZ) : out.length ≤ ISZ := by
  unfold runPrecompile at h
  split at h
  · cases h
  · split at h
    · split at h
      · rename_i p hp
        have hm := List.mem_of_find?_eq_some hp
        split at h
        · simp only [pure, Except.pure, Except.ok.injEq, Option.some.injEq, Precompile.Res.ok.injEq] at h
          rw [← h.2]; exact hpc p hm
        · split at h
          · cases h
          · split at h <;> cases h
      · cases h
    · rename_i ho
      simp only [pure, Except.pure, Except.ok.injEq] at h
      exact pco _ _ _ _ _ _ (by simpa using ho) h hin

theorem callPrecompile_out (pco : PcOut) {cfg : Cfg} {w w' : World} {cp : Journal.Checkpoint} {i : Interp.CallInputs}
    {mem fr} (h : callPrecompile journalOps cfg w cp i mem = .ok (fr, w')) (hpc : PcOk w.pcOracle)
    (hin : i.input.length ≤ ISZ) :
    MkOut w w' i.gasLimit fr ∧ ∀ f, fr = .frame f → ClFr cfg w i mem f := by
  unfold callPrecompile at h
  obtain ⟨pc, hrun, h⟩ := bind_ok h
  cases pc with
  | none => exact callTail_out h
  | some res =>
    simp only at h
    cases res with
    | ok gasUsed out =>
      simp only at h
      split at h
      · simp only [pure, Except.pure, Except.ok.injEq, Prod.mk.injEq] at h
        obtain ⟨rfl, rfl⟩ := h
        refine ⟨⟨w_commit_store _, fun o ho => ?_⟩, fun f hf => nomatch hf⟩
        cases ho
        exact ⟨Nat.sub_le _ _, runPrecompile_out pco hrun hpc hin⟩
      · obtain ⟨w1, h1, h⟩ := bind_ok h
        simp only [pure, Except.pure, Except.ok.injEq, Prod.mk.injEq] at h
        obtain ⟨rfl, rfl⟩ := h
        exact ⟨⟨w_revert_store h1, fun o ho => early_out _ _ ho⟩, fun f hf => nomatch hf⟩
    | err e =>
      simp only at h
      obtain ⟨w1, h1, h⟩ := bind_ok h
      simp only [pure, Except.pure, Except.ok.injEq, Prod.mk.injEq] at h
      obtain ⟨rfl, rfl⟩ := h
      exact ⟨⟨w_revert_store h1, fun o ho => early_out _ _ ho⟩, fun f hf => nomatch hf⟩
    | panic =>
      simp only at h
      obtain ⟨x, hx, _⟩ := bind_ok h
      cases hx

theorem makeCallFrame_out (pco : PcOut) {cfg : Cfg} {w w' : World} {i : Interp.CallInputs} {mem fr}
    (h : makeCallFrame journalOps cfg w i mem = .ok (fr, w')) (hpc : PcOk w.pcOracle) (hin : i.input.length ≤ ISZ) :
    MkOut w w' i.gasLimit fr ∧ ∀ f, fr = .frame f → ClFr cfg w i mem f := by
  rw [makeCallFrame_staged] at h
  unfold makeCallFrameS at h
  split at h
  · simp only [pure, Except.pure, Except.ok.injEq, Prod.mk.injEq] at h
    obtain ⟨rfl, rfl⟩ := h
    exact ⟨⟨StoreEq.refl _, fun o ho => early_out _ _ ho⟩, fun f hf => nomatch hf⟩
  · obtain ⟨⟨w1, x⟩, h1, h⟩ := bind_ok h
    have d1 := w_loadAccountDelegated_store h1
    simp only at h
    obtain ⟨⟨w2, failed⟩, h2, h⟩ := bind_ok h
    have d2 : StoreEq w w2 := (d1.trans (w_checkpoint_store _)).trans (callValueStep_store h2)
    cases failed with
    | some r0 =>
      simp only at h
      obtain ⟨w3, h3, h⟩ := bind_ok h
      simp only [pure, Except.pure, Except.ok.injEq, Prod.mk.injEq] at h
      obtain ⟨rfl, rfl⟩ := h
      exact ⟨⟨d2.trans (w_revert_store h3), fun o ho => early_out _ _ ho⟩, fun f hf => nomatch hf⟩
    | none =>
      simp only at h
      obtain ⟨k1, k2⟩ := callPrecompile_out pco h (by rw [d2.2]; exact hpc) hin
      refine ⟨⟨d2.trans k1.store, k1.res⟩, fun f hf => ?_⟩
      obtain ⟨e1, code, e2, e3⟩ := k2 f hf
      exact ⟨e1, code, fun hc => e2 (by rw [d2.1]; exact hc), e3⟩

/-! ## `make_create_frame` -/

/-- the frame `make_create_frame` opens -/
def CrFr (cfg : Cfg) (i : Interp.CreateInputs) (mem : Memory.SharedMemory) (f : JFrame) : Prop :=
  ∃ created : Nat, f.kind = .create created ∧
    f.interp = Interp.IState.init i.initCode [] i.gasLimit false cfg.spec created i.caller i.value cfg.env
      (Memory.newContext mem)

theorem createTail_out {cfg : Cfg} {w w' : World} {i : Interp.CreateInputs} {mem fr} {created : Nat}
    (h : createTail journalOps cfg w i mem created = .ok (fr, w')) :
    MkOut w w' i.gasLimit fr ∧ ∀ f, fr = .frame f → CrFr cfg i mem f := by
  unfold createTail at h
  simp only [pure, Except.pure] at h
  split at h
  · simp only [Except.ok.injEq, Prod.mk.injEq] at h
    obtain ⟨rfl, rfl⟩ := h
    exact ⟨⟨StoreEq.refl _, fun o ho => early_out _ _ ho⟩, fun f hf => nomatch hf⟩
  · obtain ⟨⟨w3, c3⟩, h3, h⟩ := bind_ok h
    obtain ⟨⟨w4, r4⟩, h4, h⟩ := bind_ok h
    have d : StoreEq w w4 := (w_loadAccount_store h3).trans (w_createCheckpoint_store h4)
    simp only at h
    split at h
    · simp only [Except.ok.injEq, Prod.mk.injEq] at h
      obtain ⟨rfl, rfl⟩ := h
      exact ⟨⟨d, fun o ho => early_out _ _ ho⟩, fun f hf => nomatch hf⟩
    · simp only [Except.ok.injEq, Prod.mk.injEq] at h
      obtain ⟨rfl, rfl⟩ := h
      exact ⟨⟨d, fun o ho => early_out _ _ ho⟩, fun f hf => nomatch hf⟩
    · simp only [Except.ok.injEq, Prod.mk.injEq] at h
      obtain ⟨rfl, rfl⟩ := h
      refine ⟨⟨d, fun o ho => nomatch ho⟩, fun f hf => ?_⟩
      cases hf
      exact ⟨created, rfl, rfl⟩

theorem makeCreateFrame_out {cfg : Cfg} {w w' : World} {i : Interp.CreateInputs} {mem fr}
    (h : makeCreateFrame journalOps cfg w i mem = .ok (fr, w')) :
    MkOut w w' i.gasLimit fr ∧ ∀ f, fr = .frame f → CrFr cfg i mem f := by
  rw [makeCreateFrame_staged] at h
  unfold makeCreateFrameS at h
  simp only [pure, Except.pure] at h
  split at h
  · simp only [Except.ok.injEq, Prod.mk.injEq] at h
    obtain ⟨rfl, rfl⟩ := h
    exact ⟨⟨StoreEq.refl _, fun o ho => early_out _ _ ho⟩, fun f hf => nomatch hf⟩
  · obtain ⟨⟨w1, c⟩, h1, h⟩ := bind_ok h
    have d1 := w_loadAccount_store h1
    obtain ⟨cacc, _, h⟩ := bind_ok h
    simp only at h
    split at h
    · simp only [Except.ok.injEq, Prod.mk.injEq] at h
      obtain ⟨rfl, rfl⟩ := h
      exact ⟨⟨d1, fun o ho => early_out _ _ ho⟩, fun f hf => nomatch hf⟩
    · obtain ⟨⟨js, nn⟩, _, h⟩ := bind_ok h
      simp only at h
      have d2 : StoreEq w ({ w1 with js := js } : World) := d1.trans ⟨rfl, rfl⟩
      cases nn with
      | none =>
        simp only [Except.ok.injEq, Prod.mk.injEq] at h
        obtain ⟨rfl, rfl⟩ := h
        exact ⟨⟨d2, fun o ho => early_out _ _ ho⟩, fun f hf => nomatch hf⟩
      | some newNonce =>
        simp only at h
        obtain ⟨k1, k2⟩ := createTail_out h
        exact ⟨⟨d2.trans k1.store, k1.res⟩, k2⟩

/-! ## `call_return` / `create_return` -/

theorem callReturn_store {w w' : World} {cp : Journal.Checkpoint} {r r' : Interp.ChildResult}
    (h : callReturn journalOps w cp r = .ok (r', w')) : StoreEq w w' := by
  unfold callReturn at h
  split at h
  · simp only [pure, Except.pure, Except.ok.injEq, Prod.mk.injEq] at h
    rw [← h.2]; exact w_commit_store _
  · obtain ⟨w1, h1, h⟩ := bind_ok h
    simp only [pure, Except.pure, Except.ok.injEq, Prod.mk.injEq] at h
    rw [← h.2]; exact w_revert_store h1

theorem addCode_storeOk {w : World} (h : StoreOk w) (hash : Nat) (c : List Nat) (hc : c.length ≤ ISZ) :
    StoreOk (w.addCode hash c) := by
  unfold World.addCode
  split
  · exact h
  · split
    · exact h
    · refine ⟨fun p hp => ?_, h.2⟩
      cases hp with
      | head => exact hc
      | tail _ hp => exact h.1 p hp

theorem createReturn_store {cfg : Cfg} {w w' : World} {cp : Journal.Checkpoint} {a : Nat} {r r' : Interp.ChildResult}
    (h : createReturn journalOps cfg w cp a r = .ok (r', w')) (hs : StoreOk w) :
    (r.output.length ≤ ISZ → StoreOk w') ∧ r'.output.length ≤ r.output.length := by
  have tail : ∀ (c : Prop) [Decidable c] (x : Interp.ChildResult) (hash : Nat) (out : List Nat) (y : Interp.ChildResult),
      out.length ≤ r.output.length → x.output.length ≤ r.output.length → y.output.length ≤ r.output.length →
      (if c then (do
          let w ← journalOps.revert w cp
          Except.ok (x, w) : R (Interp.ChildResult × World))
        else do
          let w2 ← journalOps.setCode (journalOps.commit w) a hash
          Except.ok (y, w2.addCode hash out)) = .ok (r', w') →
      (r.output.length ≤ ISZ → StoreOk w') ∧ r'.output.length ≤ r.output.length := by
    intro c _ x hash out y ho hx hy h
    split at h
    · obtain ⟨w1, h1, h⟩ := bind_ok h
      simp only [Except.ok.injEq, Prod.mk.injEq] at h
      rw [← h.2, ← h.1]; exact ⟨fun _ => hs.eq (w_revert_store h1), hx⟩
    · obtain ⟨w2, h1, h⟩ := bind_ok h
      change (do
        let js ← ofOpt "set_code" (Journal.setCode (journalOps.commit w).js a hash)
        pure ({ journalOps.commit w with js := js } : World) : R World) = .ok w2 at h1
      obtain ⟨js, h1, h2⟩ := bind_ok h1
      simp only [pure, Except.pure, Except.ok.injEq] at h2
      simp only [Except.ok.injEq, Prod.mk.injEq] at h
      rw [← h.2, ← h.1, ← h2]
      exact ⟨fun hout => addCode_storeOk (w := ({ journalOps.commit w with js := js } : World)) (hs.eq ⟨rfl, rfl⟩) _ _ (Nat.le_trans ho hout), hy⟩
  unfold createReturn at h
  simp only [pure, Except.pure] at h
  split at h
  · obtain ⟨w1, h1, h⟩ := bind_ok h
    simp only [Except.ok.injEq, Prod.mk.injEq] at h
    rw [← h.2, ← h.1]; exact ⟨fun _ => hs.eq (w_revert_store h1), Nat.le_refl _⟩
  · split at h
    · obtain ⟨w1, h1, h⟩ := bind_ok h
      simp only [Except.ok.injEq, Prod.mk.injEq] at h
      rw [← h.2, ← h.1]; exact ⟨fun _ => hs.eq (w_revert_store h1), Nat.le_refl _⟩
    · split at h
      · obtain ⟨w1, h1, h⟩ := bind_ok h
        simp only [Except.ok.injEq, Prod.mk.injEq] at h
        rw [← h.2, ← h.1]; exact ⟨fun _ => hs.eq (w_revert_store h1), Nat.le_refl _⟩
      · by_cases hg : U64ops.wmul r.output.length CODEDEPOSIT ≤ r.gasRemaining
        · simp only [hg, if_true] at h
          refine tail _ _ _ _ _ ?_ ?_ ?_ h <;> simp
        · simp only [hg, if_false, if_true] at h
          refine tail _ _ _ _ _ ?_ ?_ ?_ h <;> simp

end Revm.Proofs.EvmLink
