import Revm.Proofs.EvmRefineMain
import Revm.Proofs.EvmSimTxE
/-! The primitive world operations of the two machines with errors (`RR`): a journal operation panics on the journal
state exactly when it panics on the related snapshot state (`JRel` is symmetric). -/
set_option linter.unusedSimpArgs false
set_option linter.unusedVariables false
namespace Revm.Proofs.EvmRefine
open Revm Revm.Model Revm.Model.Journal Revm.Spec.JournalAbs Revm.Proofs.Journal Revm.Proofs.Frame
open Revm.Model.Evm
open Revm.Spec.Evm (Snap snapshotOps journalOpsStrict)
open Revm.Proofs.EvmRR

theorem entryRel_symm {db : Db} {a : Addr} {p q : Option Acct} (h : EntryRel db a p q) : EntryRel db a q p := by
  cases p <;> cases q
  · trivial
  · exact h.elim
  · exact h.elim
  · obtain ⟨e1, e2, e3, e4, e5, e6, e7, e8, e9⟩ := h
    exact ⟨e1.symm, e2.symm, e3.symm, e4.symm, e5.symm, e6.symm, e7.symm, e8.symm, e9.symm⟩

theorem JRel.symm {db : Db} {j s : JState} (h : JRel db j s) : JRel db s j :=
  ⟨fun a => entryRel_symm (h.ent a), fun a k => (h.tr a k).symm, h.logs.symm, h.depth.symm, h.spec.symm, h.pre.symm,
   h.sne, h.jne, h.cs, h.cj⟩

/-- a world operation `ofOpt msg o >>= f` with a continuation that cannot fail: it fails exactly when `o` is `none` -/
theorem world_err {α β γ δ : Type} {msg : String} {o1 : Option α} {o2 : Option β} {f1 : α → R γ} {f2 : β → R δ}
    (hf1 : ∀ a, ∃ c, f1 a = .ok c) (hn : o1 = none → o2 = none) {e : Err}
    (h : (ofOpt msg o1 >>= f1) = .error e) : Esc e ∨ ∃ e', (ofOpt msg o2 >>= f2) = .error e' ∧ Kind e e' := by
  cases o1 with
  | some a =>
    obtain ⟨c, hc⟩ := hf1 a
    simp only [ofOpt, bind, Except.bind, hc] at h
    cases h
  | none =>
    rw [hn rfl]
    simp only [ofOpt, bind, Except.bind, Except.error.injEq] at h ⊢
    subst h
    exact .inr ⟨_, rfl, trivial⟩

variable {ks1 : List Checkpoint} {ks2 : List Snap} {w1 w2 : World}

/-- the relation of results `(world, value)` -/
def WV {α : Type} (ks1 : List Checkpoint) (ks2 : List Snap) : World × α → World × α → Prop :=
  fun p1 p2 => p1.2 = p2.2 ∧ CfgRel ks1 p1.1 ks2 p2.1

theorem wLoadAccount_rr (h : CfgRel ks1 w1 ks2 w2) (a : Addr) :
    RR (WV ks1 ks2) (w1.loadAccount a) (w2.loadAccount a) := by
  refine RR.of (fun p hp => ?_) (fun e he => ?_)
  · obtain ⟨w1', c⟩ := p
    obtain ⟨w2', h2, hr⟩ := wLoadAccount_rel h hp
    exact ⟨(w2', c), h2, rfl, hr⟩
  · unfold World.loadAccount at he ⊢
    refine world_err (fun p => ⟨_, rfl⟩) (fun hn => ?_) he
    rw [loadAccount_congr (db_basic w1)] at hn
    rw [loadAccount_congr h.db2]
    cases hs : Journal.loadAccount (dbPre w1.pre) w2.js a with
    | none => rfl
    | some p =>
      obtain ⟨s', c⟩ := p
      obtain ⟨j', hj, _⟩ := loadAccount_rel h.w.rel.symm (dbCode_pre _) hs
      rw [hn] at hj; cases hj

theorem wLoadCode_rr (h : CfgRel ks1 w1 ks2 w2) (a : Addr) :
    RR (WV ks1 ks2) (w1.loadCode a) (w2.loadCode a) := by
  refine RR.of (fun p hp => ?_) (fun e he => ?_)
  · obtain ⟨w1', c⟩ := p
    obtain ⟨w2', h2, hr⟩ := wLoadCode_rel h hp
    exact ⟨(w2', c), h2, rfl, hr⟩
  · unfold World.loadCode at he ⊢
    refine world_err (fun p => ⟨_, rfl⟩) (fun hn => ?_) he
    rw [loadCode_congr (db_basic w1)] at hn
    rw [loadCode_congr h.db2]
    cases hs : Journal.loadCode (dbPre w1.pre) w2.js a with
    | none => rfl
    | some p =>
      obtain ⟨s', c⟩ := p
      obtain ⟨j', hj, _⟩ := loadCode_rel h.w.rel.symm (dbCode_pre _) hs
      rw [hn] at hj; cases hj

theorem wLoadAccountDelegated_rr (h : CfgRel ks1 w1 ks2 w2) (a : Addr) :
    RR (WV ks1 ks2) (w1.loadAccountDelegated a) (w2.loadAccountDelegated a) := by
  refine RR.of (fun p hp => ?_) (fun e he => ?_)
  · obtain ⟨w1', c⟩ := p
    obtain ⟨w2', h2, hr⟩ := wLoadAccountDelegated_rel h hp
    exact ⟨(w2', c), h2, rfl, hr⟩
  · unfold World.loadAccountDelegated at he ⊢
    refine world_err (fun p => ⟨_, rfl⟩) (fun hn => ?_) he
    have hdb12 : w2.db = w1.db := db_eq_of h.w.pre h.w.codes
    rw [hdb12]
    cases hs : Journal.loadAccountDelegated w1.db w2.js a with
    | none => rfl
    | some p =>
      obtain ⟨s', c⟩ := p
      obtain ⟨j', hj, _⟩ := loadAccountDelegated_rel (db := dbPre w1.pre) (dbw := w1.db) (db_basic w1) h.w.rel.symm
        (dbCode_pre _) hs
      rw [hn] at hj; cases hj

theorem wTouch_rr (h : CfgRel ks1 w1 ks2 w2) (a : Addr) :
    RR (fun a b => CfgRel ks1 a ks2 b) (w1.touch a) (w2.touch a) := by
  refine RR.of (fun p hp => ?_) (fun e he => ?_)
  · obtain ⟨w2', h2, hr⟩ := wTouch_rel h hp
    exact ⟨w2', h2, hr⟩
  · unfold World.touch at he ⊢
    refine world_err (fun p => ⟨_, rfl⟩) (fun hn => ?_) he
    cases hs : Journal.touch w2.js a with
    | none => rfl
    | some s' =>
      obtain ⟨j', hj, _⟩ := touch_rel (db := dbPre w1.pre) h.w.rel.symm hs
      rw [hn] at hj; cases hj

theorem wTransfer_rr (h : CfgRel ks1 w1 ks2 w2) (a b v : Nat) :
    RR (WV ks1 ks2) (w1.transfer a b v) (w2.transfer a b v) := by
  refine RR.of (fun p hp => ?_) (fun e he => ?_)
  · obtain ⟨w1', c⟩ := p
    obtain ⟨w2', h2, hr⟩ := wTransfer_rel h hp
    exact ⟨(w2', c), h2, rfl, hr⟩
  · unfold World.transfer at he ⊢
    refine world_err (fun p => ⟨_, rfl⟩) (fun hn => ?_) he
    rw [transfer_congr (db_basic w1)] at hn
    rw [transfer_congr h.db2]
    cases hs : Journal.transfer (dbPre w1.pre) w2.js a b v with
    | none => rfl
    | some p =>
      obtain ⟨s', c⟩ := p
      obtain ⟨j', hj, _⟩ := transfer_rel h.w.rel.symm (dbCode_pre _) hs
      rw [hn] at hj; cases hj

/-- related present accounts of related worlds -/
def AcctRel (w1 w2 : World) (a : Addr) (x y : Acct) : Prop :=
  ARel (dbPre w1.pre) a x y ∧ w1.js.state a = some x ∧ w2.js.state a = some y

theorem acct_rr (h : CfgRel ks1 w1 ks2 w2) (a : Addr) : RR (AcctRel w1 w2 a) (w1.acct a) (w2.acct a) := by
  unfold World.acct
  refine RR.ofOpt _ (fun x hx => ?_) (fun hn => h.w.rel.get_none hn)
  obtain ⟨y, hy, ar⟩ := h.w.rel.get hx
  exact ⟨y, hy, ar, hx, hy⟩

/-- a journal operation applied inside the world: `ofOpt msg (J w.js)` on both sides -/
theorem jop_rr {α : Type} (msg : String) {o1 o2 : Option α} (hs : ∀ a, o1 = some a → o2 = some a)
    (hn : o1 = none → o2 = none) : RR (fun a b => a = b ∧ o1 = some a ∧ o2 = some b) (ofOpt msg o1) (ofOpt msg o2) :=
  RR.ofOpt msg (fun a ha => ⟨a, hs a ha, rfl, ha, hs a ha⟩) hn

end Revm.Proofs.EvmRefine
