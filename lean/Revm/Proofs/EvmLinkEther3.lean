import Revm.Proofs.EvmLinkEther2
import Revm.Proofs.EvmLinkDepth2
/-! LINK, ether conservation (C08), part 4: the frame functions of EvmFrame — value transfers, create endowments (funded:
`make_create_frame` checks the caller's balance first), commits and reverts — preserve the ledger invariant. -/
set_option linter.unusedSimpArgs false
set_option linter.unusedVariables false
namespace Revm.Proofs.EvmLink
open Revm Revm.Model Revm.Model.Evm
open Revm.Spec.JournalAbs (Op Run step)
open Revm.Spec.Ether Revm.Proofs.Ether

section frames
variable {L : List Nat} {B : Nat → Nat} (hn : L.Nodup) (hB : sumOver L B < W)
include hn hB

theorem pres_callValueStep {w w1 : World} {i : Interp.CallInputs} {f} (h : callValueStep w i = .ok (w1, f)) :
    Pres L B w w1 := by
  unfold callValueStep at h
  split at h
  · split at h
    · obtain ⟨⟨w2, c⟩, h1, h⟩ := bind_ok h
      obtain ⟨w3, h2, h⟩ := bind_ok h
      simp only [pure, Except.pure, Except.ok.injEq, Prod.mk.injEq] at h
      rw [← h.1]
      exact (pres_loadAccount hn hB h1).1.trans (pres_touch hn hB h2)
    · obtain ⟨⟨w2, e⟩, h1, h⟩ := bind_ok h
      have p := pres_transfer (L := L) (B := B) hn hB h1
      simp only at h
      split at h <;> simp only [pure, Except.pure, Except.ok.injEq, Prod.mk.injEq] at h <;> (rw [← h.1]; exact p)
  · simp only [pure, Except.pure, Except.ok.injEq, Prod.mk.injEq] at h
    rw [← h.1]; exact Pres.refl _ _ _

theorem pres_callTail {cfg : Cfg} {w w' : World} {cp : Journal.Checkpoint} {i : Interp.CallInputs} {mem fr}
    (h : callTail journalOps cfg w cp i mem = .ok (fr, w')) : Pres L B w w' := by
  unfold callTail at h
  obtain ⟨⟨w1, c⟩, h1, h⟩ := bind_ok h
  have p1 := (pres_loadCode (L := L) (B := B) hn hB h1).1
  obtain ⟨acc, _, h⟩ := bind_ok h
  obtain ⟨hh, _, h⟩ := bind_ok h
  obtain ⟨bytecode, _, h⟩ := bind_ok h
  split at h
  · simp only [pure, Except.pure, Except.ok.injEq, Prod.mk.injEq] at h
    rw [← h.2]; exact p1.trans (pres_commit hn hB _)
  · obtain ⟨⟨w2, code2⟩, h2, h⟩ := bind_ok h
    simp only [pure, Except.pure, Except.ok.injEq, Prod.mk.injEq] at h
    rw [← h.2]
    split at h2
    · obtain ⟨⟨w3, c3⟩, h3, h2⟩ := bind_ok h2
      obtain ⟨dacc, _, h2⟩ := bind_ok h2
      obtain ⟨dh, _, h2⟩ := bind_ok h2
      obtain ⟨dcode, _, h2⟩ := bind_ok h2
      simp only [pure, Except.pure, Except.ok.injEq, Prod.mk.injEq] at h2
      rw [← h2.1]; exact p1.trans (pres_loadCode hn hB h3).1
    · simp only [pure, Except.pure, Except.ok.injEq, Prod.mk.injEq] at h2
      rw [← h2.1]; exact p1

theorem pres_callPrecompile {cfg : Cfg} {w w' : World} {cp : Journal.Checkpoint} {i : Interp.CallInputs} {mem fr}
    (h : callPrecompile journalOps cfg w cp i mem = .ok (fr, w')) : Pres L B w w' := by
  unfold callPrecompile at h
  obtain ⟨pc, _, h⟩ := bind_ok h
  cases pc with
  | none => exact pres_callTail hn hB h
  | some res =>
    simp only at h
    cases res with
    | ok gasUsed out =>
      simp only at h
      split at h
      · simp only [pure, Except.pure, Except.ok.injEq, Prod.mk.injEq] at h
        rw [← h.2]; exact pres_commit hn hB _
      · obtain ⟨w1, h1, h⟩ := bind_ok h
        simp only [pure, Except.pure, Except.ok.injEq, Prod.mk.injEq] at h
        rw [← h.2]; exact pres_revert hn hB h1
    | err e =>
      simp only at h
      obtain ⟨w1, h1, h⟩ := bind_ok h
      simp only [pure, Except.pure, Except.ok.injEq, Prod.mk.injEq] at h
      rw [← h.2]; exact pres_revert hn hB h1
    | panic =>
      simp only at h
      obtain ⟨x, hx, _⟩ := bind_ok h
      cases hx

/-- **`make_call_frame` preserves the ledger invariant** (C08 `transfer_conserves`, `undo_conserves` on EvmFrame) -/
theorem pres_makeCallFrame {cfg : Cfg} {w w' : World} {i : Interp.CallInputs} {mem fr}
    (h : makeCallFrame journalOps cfg w i mem = .ok (fr, w')) : Pres L B w w' := by
  rw [makeCallFrame_staged] at h
  unfold makeCallFrameS at h
  split at h
  · simp only [pure, Except.pure, Except.ok.injEq, Prod.mk.injEq] at h
    rw [← h.2]; exact Pres.refl _ _ _
  · obtain ⟨⟨w1, x⟩, h1, h⟩ := bind_ok h
    have p1 := pres_loadAccountDelegated (L := L) (B := B) hn hB h1
    simp only at h
    obtain ⟨⟨w2, failed⟩, h2, h⟩ := bind_ok h
    have p2 : Pres L B w w2 := (p1.trans (pres_checkpoint hn hB w1)).trans (pres_callValueStep hn hB h2)
    cases failed with
    | some r0 =>
      simp only at h
      obtain ⟨w3, h3, h⟩ := bind_ok h
      simp only [pure, Except.pure, Except.ok.injEq, Prod.mk.injEq] at h
      rw [← h.2]; exact p2.trans (pres_revert hn hB h3)
    | none =>
      simp only at h
      exact p2.trans (pres_callPrecompile hn hB h)

end frames
end Revm.Proofs.EvmLink

namespace Revm.Proofs.EvmLink
open Revm Revm.Model Revm.Model.Evm
open Revm.Spec.JournalAbs (Op Run step)
open Revm.Spec.Ether Revm.Proofs.Ether

section frames2
variable {L : List Nat} {B : Nat → Nat} (hn : L.Nodup) (hB : sumOver L B < W)
include hn hB

omit hn hB in
theorem bal_of_same {db : Journal.Db} {s s' : Journal.JState} (h : Same db s s') (a : Nat) : bal db s' a = bal db s a := by
  rw [h.1]

theorem pres_createTail {cfg : Cfg} {w w' : World} {i : Interp.CreateInputs} {mem fr} {created : Nat}
    (h : createTail journalOps cfg w i mem created = .ok (fr, w'))
    (hfund : i.value ≤ bal w.db w.js i.caller) (hpc : w.js.state i.caller ≠ none) : Pres L B w w' := by
  unfold createTail at h
  simp only [pure, Except.pure] at h
  split at h
  · simp only [Except.ok.injEq, Prod.mk.injEq] at h
    rw [← h.2]; exact Pres.refl _ _ _
  · obtain ⟨⟨w3, c3⟩, h3, h⟩ := bind_ok h
    obtain ⟨p3, pa⟩ := pres_loadAccount (L := L) (B := B) hn hB h3
    obtain ⟨t1, t2⟩ := w_loadAccount_tr h3
    have hbal : bal w3.db w3.js i.caller = bal w.db w.js i.caller := by
      rw [t2]; exact bal_of_same (loadAccount_same t1).1 _
    obtain ⟨⟨w4, r4⟩, h4, h⟩ := bind_ok h
    have p4 : Pres L B w3 w4 :=
      pres_createCheckpoint hn hB h4 (by rw [hbal]; exact hfund) (p3.kle _ hpc) pa
    simp only at h
    split at h <;> simp only [Except.ok.injEq, Prod.mk.injEq] at h <;> (rw [← h.2]; exact p3.trans p4)

/-- **`make_create_frame` preserves the ledger invariant**: the endowment is funded (the `OutOfFunds` check), so
`create_account_checkpoint` moves it without minting (C08 `make_create_frame_conserves` on EvmFrame) -/
theorem pres_makeCreateFrame {cfg : Cfg} {w w' : World} {i : Interp.CreateInputs} {mem fr}
    (h : makeCreateFrame journalOps cfg w i mem = .ok (fr, w')) : Pres L B w w' := by
  rw [makeCreateFrame_staged] at h
  unfold makeCreateFrameS at h
  simp only [pure, Except.pure] at h
  split at h
  · simp only [Except.ok.injEq, Prod.mk.injEq] at h
    rw [← h.2]; exact Pres.refl _ _ _
  · obtain ⟨⟨w1, c⟩, h1, h⟩ := bind_ok h
    obtain ⟨p1, pc⟩ := pres_loadAccount (L := L) (B := B) hn hB h1
    obtain ⟨cacc, hca, h⟩ := bind_ok h
    simp only at h
    split at h
    · simp only [Except.ok.injEq, Prod.mk.injEq] at h
      rw [← h.2]; exact p1
    · rename_i hge
      obtain ⟨⟨js, nn⟩, h2, h⟩ := bind_ok h
      have p2 := pres_incNonce (L := L) (B := B) hn hB (w := w1) h2
      simp only at h
      cases nn with
      | none =>
        simp only [Except.ok.injEq, Prod.mk.injEq] at h
        rw [← h.2]; exact p1.trans p2
      | some newNonce =>
        simp only at h
        have hb1 : bal w1.db w1.js i.caller = cacc.info.balance := bal_some (acct_ok hca)
        have hb2 : bal w1.db js i.caller = bal w1.db w1.js i.caller :=
          bal_of_same (incNonce_same (Proofs.EvmHost.ofOpt_ok h2)) _
        refine (p1.trans p2).trans (pres_createTail hn hB h ?_ (p2.kle _ pc))
        show i.value ≤ bal w1.db js i.caller
        rw [hb2, hb1]; omega

theorem pres_callReturn {w w' : World} {cp : Journal.Checkpoint} {r r' : Interp.ChildResult}
    (h : callReturn journalOps w cp r = .ok (r', w')) : Pres L B w w' := by
  unfold callReturn at h
  split at h
  · simp only [pure, Except.pure, Except.ok.injEq, Prod.mk.injEq] at h
    rw [← h.2]; exact pres_commit hn hB _
  · obtain ⟨w1, h1, h⟩ := bind_ok h
    simp only [pure, Except.pure, Except.ok.injEq, Prod.mk.injEq] at h
    rw [← h.2]; exact pres_revert hn hB h1

theorem pres_createReturn {cfg : Cfg} {w w' : World} {cp : Journal.Checkpoint} {a : Nat} {r r' : Interp.ChildResult}
    (h : createReturn journalOps cfg w cp a r = .ok (r', w')) : Pres L B w w' := by
  have tail : ∀ (c : Prop) [Decidable c] (x : Interp.ChildResult) (hash : Nat) (out : List Nat) (y : Interp.ChildResult),
      (if c then (do
          let w ← journalOps.revert w cp
          Except.ok (x, w) : R (Interp.ChildResult × World))
        else do
          let w2 ← journalOps.setCode (journalOps.commit w) a hash
          Except.ok (y, w2.addCode hash out)) = .ok (r', w') → Pres L B w w' := by
    intro c _ x hash out y h
    split at h
    · obtain ⟨w1, h1, h⟩ := bind_ok h
      simp only [Except.ok.injEq, Prod.mk.injEq] at h
      rw [← h.2]; exact pres_revert hn hB h1
    · obtain ⟨w2, h1, h⟩ := bind_ok h
      simp only [Except.ok.injEq, Prod.mk.injEq] at h
      rw [← h.2]
      exact ((pres_commit hn hB w).trans (pres_setCode hn hB h1)).trans (pres_addCode _ _ _)
  unfold createReturn at h
  simp only [pure, Except.pure] at h
  split at h
  · obtain ⟨w1, h1, h⟩ := bind_ok h
    simp only [Except.ok.injEq, Prod.mk.injEq] at h
    rw [← h.2]; exact pres_revert hn hB h1
  · split at h
    · obtain ⟨w1, h1, h⟩ := bind_ok h
      simp only [Except.ok.injEq, Prod.mk.injEq] at h
      rw [← h.2]; exact pres_revert hn hB h1
    · split at h
      · obtain ⟨w1, h1, h⟩ := bind_ok h
        simp only [Except.ok.injEq, Prod.mk.injEq] at h
        rw [← h.2]; exact pres_revert hn hB h1
      · by_cases hg : U64ops.wmul r.output.length CODEDEPOSIT ≤ r.gasRemaining
        · simp only [hg, if_true] at h
          exact tail _ _ _ _ _ h
        · simp only [hg, if_false, if_true] at h
          exact tail _ _ _ _ _ h

end frames2
end Revm.Proofs.EvmLink
