import Revm.Proofs.EofFlow
import Revm.Proofs.EofTracker
/-! The sub-container bookkeeping of `validate_eof_code`: an EOFCREATE of sub-container `k` leaves
`tracker.subcontainers[k] = Some(ReturnContract)`, entries once set never change, and neither does
`this_container_code_type` once it is set. Core Lean only. -/
namespace Revm.Proofs.EofValidate
open Revm.Model.Eof Revm.Model.EofValidate Revm.Spec.Eof Revm.Proofs.Eof

set_option linter.unusedSimpArgs false
set_option linter.unusedVariables false

/-- what is decided about sub-containers and about the container's own kind stays decided -/
structure Sticky (a b : Tracker) : Prop where
  subs : ∀ (k : Nat) (ct : CodeType), a.subs[k]? = some (some ct) → b.subs[k]? = some (some ct)
  thisType : ∀ (ct : CodeType), a.thisType = some ct → b.thisType = some ct

theorem Sticky.refl (a : Tracker) : Sticky a a := ⟨fun _ _ h => h, fun _ h => h⟩

theorem Sticky.trans {a b c : Tracker} (h1 : Sticky a b) (h2 : Sticky b c) : Sticky a c :=
  ⟨fun k ct h => h2.subs k ct (h1.subs k ct h), fun ct h => h2.thisType ct (h1.thisType ct h)⟩

theorem accessCode_sticky {tr tr' : Tracker} {k : Nat} (h : tr.accessCode k = .ok tr') : Sticky tr tr' := by
  unfold Tracker.accessCode at h
  split at h
  · cases h
  rename_i was _
  simp only [R.ok.injEq] at h
  subst h
  cases was <;> exact ⟨fun _ _ h => h, fun _ h => h⟩

theorem setSub_sticky {tr tr' : Tracker} {k : Nat} {t : CodeType}
    (h : tr.setSubcontainerType k t = .ok tr') :
    Sticky tr tr' ∧ tr'.subs[k]? = some (some t) := by
  unfold Tracker.setSubcontainerType at h
  split at h
  · cases h
  · rename_i hnone
    simp only [R.ok.injEq] at h; subst h
    have hk : k < tr.subs.size := lt_of_getElem? hnone
    refine ⟨⟨fun j ct hj => ?_, fun _ h => h⟩, ?_⟩
    · show (tr.subs.setIfInBounds k (some t))[j]? = _
      rw [Array.getElem?_setIfInBounds]
      by_cases hkj : k = j
      · subst hkj; rw [hnone] at hj; cases hj
      · rw [if_neg hkj]; exact hj
    · show (tr.subs.setIfInBounds k (some t))[k]? = _
      rw [Array.getElem?_setIfInBounds, if_pos rfl, if_pos hk]
  · rename_i ct hsome
    split at h
    · cases h
    · rename_i hct
      simp only [R.ok.injEq] at h; subst h
      have : ct = t := by
        cases hdec : decide (ct = t) with
        | true => exact of_decide_eq_true hdec
        | false => exact absurd (of_decide_eq_false hdec) hct
      subst this
      exact ⟨Sticky.refl _, hsome⟩

theorem requireType_sticky {tr tr' : Tracker} {t : CodeType}
    (h : tr.requireType t = .ok tr') : Sticky tr tr' := by
  unfold Tracker.requireType at h
  split at h
  · rename_i hn
    simp only [R.ok.injEq] at h; subst h
    exact ⟨fun _ _ h => h, fun ct hct => by rw [hn] at hct; cases hct⟩
  · split at h
    · cases h
    · simp only [R.ok.injEq] at h; subst h; exact Sticky.refl _

theorem opSpecific_sticky {c : Ctx} {i op : Nat} {inf : OpInfo} {this : InstrInfo}
    {jumps : Array InstrInfo} {tr : Tracker} {isRet : Bool} :
    Holds (fun r => Sticky tr r.tracker) (opSpecific c i op inf this jumps tr isRet) := by
  unfold opSpecific
  dsimp only
  repeat' first
    | exact holds_err
    | exact holds_panic
    | (refine holds_ite (fun _ => ?_) (fun _ => ?_))
    | (refine holds_bind (fun _ _ => ?_))
    | exact holds_pure (Sticky.refl _)
    | exact holds_ok (Sticky.refl _)
    | exact holds_pure (accessCode_sticky ‹_›)
    | exact holds_pure (setSub_sticky ‹_›).1
    | exact holds_pure (requireType_sticky ‹_›)
    | exact holds_pure (Sticky.trans (requireType_sticky ‹_›) (setSub_sticky ‹_›).1)
    | split

theorem opSpecific_eofcreate_sub {c : Ctx} {i : Nat} {inf : OpInfo} {this : InstrInfo}
    {jumps : Array InstrInfo} {tr : Tracker} {isRet : Bool} {r : OpRes}
    (h : opSpecific c i EOFCREATE inf this jumps tr isRet = .ok r) :
    ∃ k, c.code[i + 1]? = some k ∧ r.tracker.subs[k]? = some (some .ReturnContract) := by
  unfold opSpecific at h
  dsimp only at h
  rw [if_neg (by decide), if_neg (by decide), if_neg (by decide), if_neg (by decide), if_pos rfl,
    bind_eq_ok] at h
  obtain ⟨k, hk, h⟩ := h
  have hx := ite_err_eq_ok h; clear h; obtain ⟨_, h⟩ := hx
  rw [bind_eq_ok] at h
  obtain ⟨tr1, h1, h⟩ := h
  simp only [pure_def, R.ok.injEq] at h
  subst h
  exact ⟨k, byteAt_ok hk, (setSub_sticky h1).2⟩

/-- one iteration: the tracker only learns, and an EOFCREATE records its sub-container as an init container -/
theorem step_subs {c : Ctx} {s s' : St} (h : step c s = .ok s') :
    Sticky s.tracker s'.tracker ∧
    (c.code[s.i]? = some EOFCREATE →
      ∃ k, c.code[s.i + 1]? = some k ∧ s'.tracker.subs[k]? = some (some .ReturnContract)) := by
  unfold step at h
  rw [bind_eq_ok] at h
  obtain ⟨op, hop, h⟩ := h
  have hcode := byteAt_ok hop
  split at h
  · cases h
  rename_i inf hinf
  have hx := ite_err_eq_ok h; clear h; obtain ⟨hne, h⟩ := hx
  split at h
  · cases h
  rename_i this0 hthis
  dsimp only at h
  have hx := ite_err_eq_ok h; clear h; obtain ⟨_, h⟩ := hx
  have hx := ite_err_eq_ok h; clear h; obtain ⟨himm, h⟩ := hx
  rw [bind_eq_ok] at h
  obtain ⟨j1, hj1, h⟩ := h
  rw [bind_eq_ok] at h
  obtain ⟨r, hr, h⟩ := h
  have hx := ite_err_eq_ok h; clear h; obtain ⟨_, h⟩ := hx
  rw [bind_eq_ok] at h
  obtain ⟨j2, hj2, h⟩ := h
  simp only [pure_def, R.ok.injEq] at h
  subst h
  dsimp only
  refine ⟨opSpecific_sticky r hr, fun hc => ?_⟩
  rw [hcode] at hc
  have e : op = EOFCREATE := Option.some.inj hc
  subst e
  exact opSpecific_eofcreate_sub hr

structure SubsInv (c : Ctx) (s : St) : Prop where
  reach : Reach c.code 0 s.i
  subs : ∀ j, Reach c.code 0 j → j < s.i → c.code[j]? = some EOFCREATE →
    ∃ k, c.code[j + 1]? = some k ∧ s.tracker.subs[k]? = some (some .ReturnContract)

theorem loop_subs (c : Ctx) : ∀ (fuel : Nat) (s s' : St), loop c fuel s = .ok s' → SubsInv c s →
    SubsInv c s' ∧ Sticky s.tracker s'.tracker ∧ ¬ s'.i < c.code.size := by
  intro fuel
  induction fuel with
  | zero =>
    intro s s' h inv
    unfold loop at h
    by_cases hi : s.i < c.code.size
    · rw [if_pos hi] at h; cases h
    · rw [if_neg hi] at h; cases h; exact ⟨inv, Sticky.refl _, hi⟩
  | succ fuel ih =>
    intro s s' h inv
    unfold loop at h
    by_cases hi : s.i < c.code.size
    · rw [if_pos hi] at h
      dsimp only at h
      rw [bind_eq_ok] at h
      obtain ⟨s1, h1, h2⟩ := h
      obtain ⟨_, hnext⟩ := step_ok h1
      obtain ⟨hst, hec⟩ := step_subs h1
      have inv1 : SubsInv c s1 := by
        refine ⟨by rw [hnext]; exact Reach.snoc inv.reach hi, ?_⟩
        intro j hj hlt hc
        by_cases hjs : j < s.i
        · obtain ⟨k, hk, hsub⟩ := inv.subs j hj hjs hc
          exact ⟨k, hk, hst.subs _ _ hsub⟩
        · by_cases hje : j = s.i
          · subst hje; exact hec hc
          · have := Reach.next_le inv.reach hj (by omega)
            omega
      obtain ⟨r1, r2, r3⟩ := ih s1 s' h2 inv1
      exact ⟨r1, Sticky.trans hst r2, r3⟩
    · rw [if_neg hi] at h; cases h; exact ⟨inv, Sticky.refl _, hi⟩

/-- **per section**: the tracker only learns; every EOFCREATE of the section has its sub-container recorded as an
init container (`ReturnContract`) -/
theorem validateEofCode_subs {code : Array Nat} {dataSize idx nContainers : Nat}
    {types : Array TypesSection} {tr tr' : Tracker}
    (h : validateEofCode code dataSize idx nContainers types tr = .ok tr') :
    Sticky tr tr' ∧ ∀ j, IsInstrStart code j → code[j]? = some EOFCREATE →
      ∃ k, code[j + 1]? = some k ∧ tr'.subs[k]? = some (some .ReturnContract) := by
  unfold validateEofCode at h
  split at h
  · cases h
  rename_i thisTypes hty
  dsimp only at h
  rw [bind_eq_ok] at h
  obtain ⟨s, hs, h⟩ := h
  have hx := ite_err_eq_ok h; clear h; obtain ⟨_, h⟩ := hx
  have hx := ite_err_eq_ok h; clear h; obtain ⟨_, h⟩ := hx
  have hx := ite_err_eq_ok h; clear h; obtain ⟨_, h⟩ := hx
  simp only [pure_def, R.ok.injEq] at h
  subst h
  have inv0 : SubsInv (⟨code, dataSize, nContainers, types, thisTypes⟩ : Ctx) (⟨Array.replicate code.size {}, false, thisTypes.inputs, thisTypes.inputs, false, 0, tr⟩ : St) :=
    ⟨Reach.refl 0, fun j _ hj => absurd hj (Nat.not_lt_zero _)⟩
  obtain ⟨inv, hst, hend⟩ := loop_subs _ _ _ _ hs inv0
  have hsub := inv.subs
  dsimp only at hsub hend hst
  exact ⟨hst, fun j hj hc => hsub j hj.1 (by have := hj.2; omega) hc⟩

end Revm.Proofs.EofValidate
