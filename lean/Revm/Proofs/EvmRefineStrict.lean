import Revm.Proofs.EvmRefineTx2
/-! A completed run of the strict journal machine is a run of the journal machine (`journalOps`, the model of the code)
with the same result: the strict machine only adds two run-time checks. -/
set_option linter.unusedSimpArgs false
set_option linter.unusedVariables false
namespace Revm.Proofs.EvmRefine
open Revm Revm.Model Revm.Model.Journal
open Revm.Model.Evm
open Revm.Spec.Evm (journalOpsStrict)
open Revm.Proofs.EvmSim (ForRel FrameRel FrameSim TxSim OutRel transactWith_sim)

/-- same checkpoints, same world -/
def EqR (ks1 : List Checkpoint) (w1 : World) (ks2 : List Checkpoint) (w2 : World) : Prop := ks1 = ks2 ∧ w1 = w2

theorem forRel_refl (ks : List Checkpoint) (x : FrameOrResult Checkpoint × World) : ForRel EqR ks ks x x := by
  obtain ⟨f, w⟩ := x
  cases f with
  | frame f => exact ⟨⟨rfl, rfl⟩, rfl, rfl⟩
  | result r => exact ⟨rfl, rfl, rfl⟩

theorem createTail_strict (cfg : Cfg) (w : World) (i : Interp.CreateInputs) (mem : Memory.SharedMemory) (created : Nat)
    {x : FrameOrResult Checkpoint × World} (h : createTail journalOpsStrict cfg w i mem created = .ok x) :
    createTail journalOps cfg w i mem created = .ok x := by
  unfold createTail at h ⊢
  simp only [bind, Except.bind] at h ⊢
  by_cases hp : isPrecompile cfg.spec created = true
  · rw [if_pos hp] at h ⊢; exact h
  · rw [if_neg hp] at h ⊢
    cases h1 : w.loadAccount created with
    | error e => rw [h1] at h; simp at h
    | ok p =>
      rw [h1] at h
      simp only at h ⊢
      cases h2 : journalOpsStrict.createCheckpoint p.1 i.caller created (p.1.hasStorage created) i.value cfg.spec with
      | error e => rw [h2] at h; simp at h
      | ok q =>
        rw [h2] at h
        rw [(strict_create h2).2]
        exact h

theorem makeCreateFrame_strict (cfg : Cfg) (w : World) (i : Interp.CreateInputs) (mem : Memory.SharedMemory)
    {x : FrameOrResult Checkpoint × World} (h : makeCreateFrame journalOpsStrict cfg w i mem = .ok x) :
    makeCreateFrame journalOps cfg w i mem = .ok x := by
  rw [makeCreateFrame_eq] at h ⊢
  simp only [bind, Except.bind] at h ⊢
  by_cases hd : w.js.depth > CALL_STACK_LIMIT
  · rw [if_pos hd] at h ⊢; exact h
  · rw [if_neg hd] at h ⊢
    cases h1 : w.loadAccount i.caller with
    | error e => rw [h1] at h; simp at h
    | ok p =>
      rw [h1] at h
      simp only at h ⊢
      cases h2 : p.1.acct i.caller with
      | error e => rw [h2] at h; simp at h
      | ok acc =>
        rw [h2] at h
        simp only at h ⊢
        by_cases hb : acc.info.balance < i.value
        · rw [if_pos hb] at h ⊢; exact h
        · rw [if_neg hb] at h ⊢
          cases h3 : ofOpt "inc_nonce" (Journal.incNonce p.1.js i.caller) with
          | error e => rw [h3] at h; simp at h
          | ok q =>
            rw [h3] at h
            simp only at h ⊢
            obtain ⟨js, nn⟩ := q
            cases nn with
            | none => exact h
            | some newNonce => exact createTail_strict cfg _ i mem _ h

theorem createReturn_strict (cfg : Cfg) (w : World) (k : Checkpoint) (a : Nat) (r : Interp.ChildResult)
    {x : Interp.ChildResult × World} (h : createReturn journalOpsStrict cfg w k a r = .ok x) :
    createReturn journalOps cfg w k a r = .ok x := by
  unfold createReturn at h ⊢
  have hrev : journalOpsStrict.revert = journalOps.revert := rfl
  have hcom : journalOpsStrict.commit = journalOps.commit := rfl
  simp only [bind, Except.bind, hrev, hcom] at h ⊢
  by_cases c1 : (!r.result.isOk) = true
  · simp only [c1, if_true] at h ⊢; exact h
  · simp only [c1, Bool.false_eq_true, if_false] at h ⊢
    by_cases c2 : GasCalc.enabled cfg.spec GasCalc.SpecId.LONDON = true ∧ r.output.head? = some 0xEF
    · rw [if_pos c2] at h ⊢; exact h
    · rw [if_neg c2] at h ⊢
      by_cases c3 : GasCalc.enabled cfg.spec GasCalc.SpecId.SPURIOUS_DRAGON = true ∧ r.output.length > cfg.maxCodeSize
      · rw [if_pos c3] at h ⊢; exact h
      · rw [if_neg c3] at h ⊢
        by_cases c4 : U64ops.wmul r.output.length CODEDEPOSIT ≤ r.gasRemaining
        · simp only [c4, if_true, Bool.false_eq_true, false_and, if_false] at h ⊢
          cases hsc : journalOpsStrict.setCode (journalOps.commit w) a
              (if r.output.isEmpty = true then Evm.KECCAK_EMPTY else Keccak.keccak256w r.output) with
          | error e => rw [hsc] at h; simp at h
          | ok wx =>
            rw [hsc] at h
            rw [(strict_setCode hsc).2]
            exact h
        · simp only [c4, if_false, true_and] at h ⊢
          by_cases c5 : GasCalc.enabled cfg.spec GasCalc.SpecId.HOMESTEAD = true
          · simp only [c5, if_true] at h ⊢; exact h
          · simp only [c5, Bool.false_eq_true, if_false, List.isEmpty_nil, if_true] at h ⊢
            cases hsc : journalOpsStrict.setCode (journalOps.commit w) a Evm.KECCAK_EMPTY with
            | error e => rw [hsc] at h; simp at h
            | ok wx =>
              rw [hsc] at h
              rw [(strict_setCode hsc).2]
              exact h

/-- the strict machine against the journal machine: everything is literally the same -/
def strictSim (e : Evm.Env) (spec : Nat) : TxSim journalOpsStrict journalOps e spec where
  R := EqR
  R0 := fun w1 w2 => w1 = w2
  host := by
    intro ks1 w1 ks2 w2 op resp w1' hR h
    obtain ⟨h1, h2⟩ := hR
    subst h1; subst h2
    exact ⟨w1', h, rfl, rfl⟩
  callFrame := by
    intro ks1 w1 ks2 w2 i mem x1 hR h
    obtain ⟨h1, h2⟩ := hR
    subst h1; subst h2
    exact ⟨x1, h, forRel_refl _ _⟩
  createFrame := by
    intro ks1 w1 ks2 w2 i mem x1 hR h
    obtain ⟨h1, h2⟩ := hR
    subst h1; subst h2
    exact ⟨x1, makeCreateFrame_strict _ _ _ _ h, forRel_refl _ _⟩
  callRet := by
    intro k1 ks1 w1 k2 ks2 w2 r r1 w1' hR h
    obtain ⟨h1, h2⟩ := hR
    simp only [List.cons.injEq] at h1
    obtain ⟨hk, hks⟩ := h1
    subst hk; subst hks; subst h2
    exact ⟨w1', h, rfl, rfl⟩
  createRet := by
    intro k1 ks1 w1 k2 ks2 w2 a r r1 w1' hR h
    obtain ⟨h1, h2⟩ := hR
    simp only [List.cons.injEq] at h1
    obtain ⟨hk, hks⟩ := h1
    subst hk; subst hks; subst h2
    exact ⟨w1', createReturn_strict _ _ _ _ _ h, rfl, rfl⟩
  pre := by
    intro w1 w2 o1 hR h
    subst hR
    refine ⟨o1, h, ?_⟩
    cases o1 with
    | none => trivial
    | some p => exact ⟨rfl, rfl, rfl⟩
  load := by intro w1 w2 hR; subst hR; exact ⟨rfl, rfl⟩
  deduct := by
    intro w1 w2 w1' hR h
    obtain ⟨_, h2⟩ := hR
    subst h2
    exact ⟨w1', h, rfl, rfl⟩
  auth := by
    intro w1 w2 w1' n hR h
    obtain ⟨_, h2⟩ := hR
    subst h2
    exact ⟨w1', h, rfl, rfl⟩
  fin := by
    intro w1 w2 fg rf ic res r w1' hR h
    obtain ⟨_, h2⟩ := hR
    subst h2
    exact ⟨w1', h, rfl, rfl⟩

/-- **a completed strict run is a run of the model** -/
theorem strict_is_model (fuel : Nat) (w : World) (e : Evm.Env) (spec : Nat) (x : Outcome × World)
    (h : Spec.Evm.transactStrict fuel w e spec = .ok x) : Evm.transact fuel w e spec = .ok x := by
  obtain ⟨o, w1'⟩ := x
  obtain ⟨w2', h2, hr⟩ := transactWith_sim (strictSim e (GasCalc.canon spec)) fuel w w rfl o w1' h
  cases o with
  | rejected =>
    -- a rejected transaction returns the world it was given
    have hw : ∀ {κ : Type} (C : CpOps κ) (w' : World), transactWith C fuel w e spec = .ok (.rejected, w') → w' = w := by
      intro κ C w' hh
      unfold transactWith at hh
      simp only [bind, Except.bind] at hh
      cases hp : preverify w e (GasCalc.canon spec) with
      | error err => rw [hp] at hh; simp at hh
      | ok o1 =>
        rw [hp] at hh
        cases o1 with
        | none =>
          simp only [pure, Except.pure, Except.ok.injEq, Prod.mk.injEq] at hh
          exact hh.2.symm
        | some p =>
          obtain ⟨wa, ig, fg⟩ := p
          simp only at hh
          cases he : execute C fuel e (GasCalc.canon spec) ig fg wa with
          | error err => rw [he] at hh; simp at hh
          | ok q => rw [he] at hh; simp [pure, Except.pure] at hh
    have e1 := hw journalOpsStrict w1' h
    have e2 := hw journalOps w2' h2
    rw [e1]; rw [e2] at h2; exact h2
  | executed r =>
    obtain ⟨_, hw⟩ := hr
    rw [hw]; exact h2

end Revm.Proofs.EvmRefine
