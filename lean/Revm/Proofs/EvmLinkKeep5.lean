import Revm.Proofs.EvmLinkKeep4
/-! LINK, frame accounting, part 5: CALL / CALLCODE / DELEGATECALL / STATICCALL / CREATE / CREATE2 / EOFCREATE / EXT*CALL
pay for the gas they give the child (the CALL stipend is covered by the value-transfer surcharge), and `Interp.step`. -/
set_option linter.unusedSimpArgs false
set_option linter.unusedVariables false
namespace Revm.Proofs.EvmLink
open Revm Revm.Model Revm.Model.Interp

/-- `advancePc` does not touch the gas meter -/
theorem keep_advancePc_gas {s0 s : IState} (h : Kept s0 s) (n : Nat) :
    Keep s0 (fun _ s' => s'.gas = s.gas) (advancePc n s) := .ok (h.trans ⟨rfl, rfl, Nat.le_refl _⟩) rfl

attribute [local irreducible] gasCharge getS check requireNonStatic requireEof requireInitEof requireSome assumeNotEof
  gasOrFail refund advancePc setEof popN popTop setTop push stackCall stackCallAdv asUsizeOrFail resizeMem memSlice
  memSliceRange memGetU256 memSetU256 memSetByte memSetData memCopy codeSlice codeByte jumpRel getEof loadEofCode
  haltWith haltOut faultWith modifyS liftMemWrite pop1 pop2 pop3 pop4 popAddress popTop1 popTop2 popTop3 readU16 readI16

section
variable {s0 s : IState}

theorem keep_resizeMemRange (h : Kept s0 s) (o l : Nat) : Keep s0 T (resizeMemRange o l s) := by
  unfold resizeMemRange; keep_auto
macro_rules | `(tactic| keep_prim) => `(tactic| exact keep_resizeMemRange ‹_› _ _)
attribute [local irreducible] resizeMemRange

theorem keep_getMemoryInputAndOutRanges (h : Kept s0 s) : Keep s0 T (getMemoryInputAndOutRanges s) := by
  unfold getMemoryInputAndOutRanges; keep_auto
theorem keep_popExtcallTarget (h : Kept s0 s) : Keep s0 T (popExtcallTarget s) := by
  unfold popExtcallTarget; keep_auto
theorem keep_extcallInput (h : Kept s0 s) : Keep s0 T (extcallInput s) := by
  unfold extcallInput; keep_auto
theorem keep_checkWhen (h : Kept s0 s) (b : Bool) (k : Nat) : Keep s0 T (checkWhen b k s) := by
  unfold checkWhen; keep_auto
theorem keep_initcodeCharge (h : Kept s0 s) (l : Nat) : Keep s0 T (initcodeCharge l s) := by
  unfold initcodeCharge
  refine keep_bind (keep_getS h) (fun x s' hk _ => ?_)
  split
  · split
    · keep_auto
    · cases GasCalc.initcodeCost l with
      | some c => (try dsimp only); keep_auto
      | none => (try dsimp only); keep_auto
  · keep_auto
macro_rules | `(tactic| keep_prim) => `(tactic| first
  | exact keep_getMemoryInputAndOutRanges ‹_› | exact keep_popExtcallTarget ‹_› | exact keep_extcallInput ‹_›
  | exact keep_checkWhen ‹_› _ _ | exact keep_initcodeCharge ‹_› _)
attribute [local irreducible] getMemoryInputAndOutRanges popExtcallTarget extcallInput checkWhen initcodeCharge

theorem keep_createCode (h : Kept s0 s) (o l : Nat) : Keep s0 T (createCode o l s) := by
  unfold createCode; keep_auto
theorem keep_createScheme (h : Kept s0 s) (b : Bool) (l : Nat) : Keep s0 T (createScheme b l s) := by
  unfold createScheme; keep_auto
macro_rules | `(tactic| keep_prim) => `(tactic| first | exact keep_createCode ‹_› _ _ | exact keep_createScheme ‹_› _ _)
attribute [local irreducible] createCode createScheme

/-- the value-transfer surcharge of `call_cost` covers the stipend -/
theorem callCost_transfer (spec : Nat) (c : Bool) (d : Option Bool) (e : Bool) :
    GasCalc.CALL_STIPEND ≤ GasCalc.callCost spec true c d e := by
  unfold GasCalc.callCost GasCalc.CALL_STIPEND GasCalc.CALLVALUE GasCalc.NEWACCOUNT
  simp only [if_true]
  repeat' split
  all_goals omega

/-- `calc_call_gas`: when value is transferred, at least the stipend has been paid -/
theorem keep_calcCallGas (h : Kept s0 s) (r : HostResp) (ie ht : Bool) (l : Nat) :
    Keep s0 (fun _ s' => ht = true → s'.gas.remaining + GasCalc.CALL_STIPEND ≤ s.gas.remaining)
      (calcCallGas r ie ht l s) := by
  unfold calcCallGas
  refine keep_bind (keep_getS h) (fun x s1 h1 hx => ?_)
  obtain ⟨rfl, rfl⟩ := hx
  refine keep_bind (keep_gasCharge h1 _) (fun _ s2 h2 hq => ?_)
  refine keep_bind (keep_getS h2) (fun y s3 h3 hy => ?_)
  obtain ⟨rfl, rfl⟩ := hy
  refine keep_pure h3 (fun hht => ?_)
  subst hht
  have := callCost_transfer s1.spec r.isCold r.delegCold ie
  omega

theorem satAdd_le (a b : Nat) : U64ops.saturatingAdd a b ≤ a + b := by
  unfold U64ops.saturatingAdd; split <;> omega

theorem callI_kept (s : IState) : KOutcome s (callI s) := by
  unfold callI
  have h := Kept.refl s
  refine hostCallAction_kept ?_ (fun b r s' h => ?_)
  · keep_auto
  · obtain ⟨lgl, to, value, input, rs, re⟩ := b
    dsimp only
    refine keep_bind (keep_requireSome h r) (fun _ s1 h1 _ => ?_)
    refine keep_bind (keep_calcCallGas h1 r _ (decide (value ≠ 0)) _) (fun gl s2 h2 hq => ?_)
    refine keep_bind (keep_gasCharge h2 gl) (fun _ s3 h3 hq3 => ?_)
    refine keep_bind (keep_getS h3) (fun y s4 h4 hy => ?_)
    obtain ⟨rfl, rfl⟩ := hy
    refine keep_pure h4 ?_
    show s4.gas.remaining + (if value ≠ 0 then U64ops.saturatingAdd gl GasCalc.CALL_STIPEND else gl) ≤ s.gas.remaining
    have := h1.rem
    by_cases hv : value ≠ 0
    · rw [if_pos hv]
      have := hq (by simpa using hv)
      have := satAdd_le gl GasCalc.CALL_STIPEND
      omega
    · rw [if_neg hv]
      have := h2.rem
      omega

theorem callcodeI_kept (s : IState) : KOutcome s (callcodeI s) := by
  unfold callcodeI
  have h := Kept.refl s
  refine hostCallAction_kept ?_ (fun b r s' h => ?_)
  · keep_auto
  · obtain ⟨lgl, to, value, input, rs, re⟩ := b
    dsimp only
    refine keep_bind (keep_requireSome h r) (fun _ s1 h1 _ => ?_)
    refine keep_bind (keep_calcCallGas h1 r _ (decide (value ≠ 0)) _) (fun gl s2 h2 hq => ?_)
    refine keep_bind (keep_gasCharge h2 gl) (fun _ s3 h3 hq3 => ?_)
    refine keep_bind (keep_getS h3) (fun y s4 h4 hy => ?_)
    obtain ⟨rfl, rfl⟩ := hy
    refine keep_pure h4 ?_
    show s4.gas.remaining + (if value ≠ 0 then U64ops.saturatingAdd gl GasCalc.CALL_STIPEND else gl) ≤ s.gas.remaining
    have := h1.rem
    by_cases hv : value ≠ 0
    · rw [if_pos hv]
      have := hq (by simpa using hv)
      have := satAdd_le gl GasCalc.CALL_STIPEND
      omega
    · rw [if_neg hv]
      have := h2.rem
      omega

theorem delegatecallI_kept (s : IState) : KOutcome s (delegatecallI s) := by
  unfold delegatecallI
  have h := Kept.refl s
  refine hostCallAction_kept ?_ (fun b r s' h => ?_)
  · keep_auto
  · obtain ⟨lgl, to, input, rs, re⟩ := b
    dsimp only
    refine keep_bind (keep_requireSome h r) (fun _ s1 h1 _ => ?_)
    refine keep_bind (keep_calcCallGas h1 r _ _ _) (fun gl s2 h2 hq => ?_)
    refine keep_bind (keep_gasCharge h2 gl) (fun _ s3 h3 hq3 => ?_)
    refine keep_bind (keep_getS h3) (fun y s4 h4 hy => ?_)
    obtain ⟨rfl, rfl⟩ := hy
    refine keep_pure h4 ?_
    show s4.gas.remaining + gl ≤ s.gas.remaining
    have := h2.rem
    omega

theorem staticcallI_kept (s : IState) : KOutcome s (staticcallI s) := by
  unfold staticcallI
  have h := Kept.refl s
  refine hostCallAction_kept ?_ (fun b r s' h => ?_)
  · keep_auto
  · obtain ⟨lgl, to, input, rs, re⟩ := b
    dsimp only
    refine keep_bind (keep_requireSome h r) (fun _ s1 h1 _ => ?_)
    refine keep_bind (keep_calcCallGas h1 r _ _ _) (fun gl s2 h2 hq => ?_)
    refine keep_bind (keep_gasCharge h2 gl) (fun _ s3 h3 hq3 => ?_)
    refine keep_bind (keep_getS h3) (fun y s4 h4 hy => ?_)
    obtain ⟨rfl, rfl⟩ := hy
    refine keep_pure h4 ?_
    show s4.gas.remaining + gl ≤ s.gas.remaining
    have := h2.rem
    omega

theorem createI_kept (c2 : Bool) (s : IState) : KOutcome s (.pure (createI c2 s).toDoneAction) := by
  refine .pure (toDoneAction_kept ?_)
  unfold createI
  have h := Kept.refl s
  refine keep_bind (by keep_prim) (fun _ _ _ _ => ?_)
  refine keep_bind (by keep_prim) (fun _ _ _ _ => ?_)
  refine keep_bind (by keep_prim) (fun p _ _ _ => ?_)
  obtain ⟨value, codeOffset, len⟩ := p
  dsimp only
  refine keep_bind (by keep_prim) (fun len' _ _ _ => ?_)
  refine keep_bind (by keep_prim) (fun code _ _ _ => ?_)
  refine keep_bind (by keep_prim) (fun salt s1 h1 _ => ?_)
  refine keep_bind (keep_getS h1) (fun x s2 h2 hx => ?_)
  obtain ⟨rfl, rfl⟩ := hx
  (try dsimp only)
  refine keep_bind (keep_gasCharge h2 _) (fun _ s3 h3 hq3 => ?_)
  refine keep_bind (keep_getS h3) (fun y s4 h4 hy => ?_)
  obtain ⟨rfl, rfl⟩ := hy
  refine keep_pure h4 ?_
  have := h2.rem
  exact Nat.le_trans hq3 this

theorem eofcreateI_kept (s : IState) : KOutcome s (eofcreateI s) := by
  unfold eofcreateI
  have h := Kept.refl s
  refine hostCallAction_kept ?_ (fun b r s' h => ?_)
  · unfold eofcreatePre
    refine keep_bind (by keep_prim) (fun _ _ _ _ => ?_)
    refine keep_bind (by keep_prim) (fun _ _ _ _ => ?_)
    refine keep_bind (by keep_prim) (fun _ _ _ _ => ?_)
    refine keep_bind (by keep_prim) (fun idx _ _ _ => ?_)
    refine keep_bind (by keep_prim) (fun p _ _ _ => ?_)
    obtain ⟨value, salt, dataOff, dataSize⟩ := p
    dsimp only
    refine keep_bind (by keep_prim) (fun c s1 h1 _ => ?_)
    cases c.containers[idx]? with
    | none => exact keep_faultWith _
    | some sub =>
      (try dsimp only)
      generalize subcontainerOk sub = okb
      refine keep_bind (by keep_prim) (fun q s2 h2 _ => ?_)
      obtain ⟨a, b⟩ := q
      (try dsimp only)
      refine keep_bind (Q := T) (by split <;> keep_prim) (fun input s3 h3 _ => ?_)
      cases okb with
      | false => exact keep_faultWith _
      | true =>
        simp only [Bool.not_true, Bool.false_eq_true, if_false]
        refine keep_bind (by keep_prim) (fun _ s4 h4 _ => ?_)
        refine keep_bind (keep_getS h4) (fun x s5 h5 _ => ?_)
        exact keep_pure h5 trivial
  · obtain ⟨value, sub, input⟩ := b
    refine keep_bind (keep_getS h) (fun x s1 h1 hx => ?_)
    obtain ⟨rfl, rfl⟩ := hx
    generalize Gas.remaining63of64 s1.gas = gl
    refine keep_bind (keep_gasCharge h1 _) (fun _ s2 h2 hq2 => ?_)
    refine keep_bind (keep_advancePc_gas h2 1) (fun _ s3 h3 hg3 => ?_)
    have hfin : s3.gas.remaining + gl ≤ s.gas.remaining := by
      rw [hg3]; have := h1.rem; omega
    have hp : ∀ i : EofCreateInputs, i.gasLimit = gl → Paid s (Action.eofCreate i) s3 := by
      intro i hi
      show s3.gas.remaining + i.gasLimit ≤ s.gas.remaining
      rw [hi]; exact hfin
    exact keep_pure h3 (hp _ rfl)

end
end Revm.Proofs.EvmLink
