import Revm.Proofs.AccessSim
/-! C34: one lockstep step preserves the simulation invariant and the reported `is_cold` bits are the set
machine's prediction — the operations that neither open nor close a checkpoint. -/
namespace Revm.Proofs.Access
open Revm Revm.Model.Journal Revm.Spec.JournalAbs Revm.Proofs.Journal Revm.Spec.AccessHistory
open Revm.Spec.AccessSets (Access Sets State)
set_option linter.unusedSimpArgs false
set_option linter.unusedVariables false

/-- the conclusion about one step: the invariant again, and for the operations that report `is_cold` the
reported bits are the set machine's prediction -/
def StepOk (db : Db) (l l' : Lock) (op : Op) : Prop :=
  Sim db l' ∧ (exposes op = true → ∃ r' st' bits, step db l.r op = some r' ∧
    specStep db l.r r' l.st op = some (st', bits) ∧ coldBits db l.r.js op = some bits)

theorem stepOk_ordinary {db : Db} {hasStorage : Addr → Bool} (hdb : DbOk db hasStorage) {l l' : Lock} {op : Op}
    (h : Sim db l) (hs : lockStep db hasStorage l op = some l')
    (hnr : ∀ i, op ≠ .revert i)
    (hwnE : ∀ r', wnStep l.open_ l.r r' op = some l.open_)
    (hspE : ∀ r', specStep db l.r r' l.st op = some (Spec.AccessSets.accessAll l.st (accessesOf db l.r.js op)))
    (hadmE : admOp db hasStorage l.r op = admissible db hasStorage 0 l.r op)
    (hop : ∀ r', step db l.r op = some r' → r'.cps = l.r.cps ∧
      Warms db l.r.js r'.js (aAddrs (accessesOf db l.r.js op)) (aSlots (accessesOf db l.r.js op)) ∧
      BalOk (absT db r'.js) ∧
      (exposes op = true → coldBits db l.r.js op = some (Spec.AccessSets.accessAll l.st (accessesOf db l.r.js op)).2)) :
    StepOk db l l' op := by
  obtain ⟨hadm, r', o', st', bits, hstep, hwn, hsp, rfl⟩ := lockStep_some hs
  rw [hwnE] at hwn; cases hwn
  rw [hspE] at hsp
  have e0 := Option.some.inj hsp
  have e1 : st' = (Spec.AccessSets.accessAll l.st (accessesOf db l.r.js op)).1 := by rw [e0]
  have e2 : bits = (Spec.AccessSets.accessAll l.st (accessesOf db l.r.js op)).2 := by rw [e0]
  subst e1 e2
  obtain ⟨hcps, hw, hbal, hbits⟩ := hop r' hstep
  exact ⟨sim_ordinary hdb h hstep hcps hnr (by rw [← hadmE]; exact hadm) hw hbal,
    fun hx => ⟨r', _, _, hstep, hspE r', hbits hx⟩⟩

section ops
variable {db : Db} {hasStorage : Addr → Bool} (hdb : DbOk db hasStorage) {l l' : Lock} (h : Sim db l)
include hdb h

theorem sim_step_load {a : Addr} (hs : lockStep db hasStorage l (.load a) = some l') : StepOk db l l' (.load a) := by
  refine stepOk_ordinary hdb h hs (fun _ h => by cases h) (fun _ => rfl) (fun _ => rfl) rfl (fun r' hstep => ?_)
  simp only [step, Option.map_eq_some_iff] at hstep
  obtain ⟨⟨js', c⟩, h1, rfl⟩ := hstep
  obtain ⟨p, hc, _⟩ := loadAccount_pushes (db := db) h1
  refine ⟨rfl, Warms.of_load p hc, p.bal h.bal, fun _ => ?_⟩
  simp [coldBits, h1, accessesOf, accessAll_bits1, has_addr db l.r.js l.st h.rel, hc]

theorem sim_step_loadCode {a : Addr} (hs : lockStep db hasStorage l (.loadCode a) = some l') :
    StepOk db l l' (.loadCode a) := by
  refine stepOk_ordinary hdb h hs (fun _ h => by cases h) (fun _ => rfl) (fun _ => rfl) rfl (fun r' hstep => ?_)
  simp only [step, Option.map_eq_some_iff] at hstep
  obtain ⟨⟨js', c⟩, h1, rfl⟩ := hstep
  obtain ⟨p, hc, _⟩ := loadCode_pushes (db := db) h1
  refine ⟨rfl, Warms.of_load p hc, p.bal h.bal, fun _ => ?_⟩
  simp [coldBits, h1, accessesOf, accessAll_bits1, has_addr db l.r.js l.st h.rel, hc]

theorem sim_step_sload {a : Addr} {k : Nat} (hs : lockStep db hasStorage l (.sload a k) = some l') :
    StepOk db l l' (.sload a k) := by
  refine stepOk_ordinary hdb h hs (fun _ h => by cases h) (fun _ => rfl) (fun _ => rfl) rfl (fun r' hstep => ?_)
  simp only [step, Option.map_eq_some_iff] at hstep
  obtain ⟨⟨js', v, c⟩, h1, rfl⟩ := hstep
  obtain ⟨p, hc, _⟩ := sload_pushes (db := db) h1
  refine ⟨rfl, Warms.of_sload p hc, p.bal h.bal, fun _ => ?_⟩
  simp [coldBits, h1, accessesOf, accessAll_bits1, has_slot db l.r.js l.st h.rel, hc]

theorem sim_step_sstore {a : Addr} {k v : Nat} (hs : lockStep db hasStorage l (.sstore a k v) = some l') :
    StepOk db l l' (.sstore a k v) := by
  refine stepOk_ordinary hdb h hs (fun _ h => by cases h) (fun _ => rfl) (fun _ => rfl) rfl (fun r' hstep => ?_)
  simp only [step, Option.map_eq_some_iff] at hstep
  obtain ⟨⟨js', o, pv, n, c⟩, h1, rfl⟩ := hstep
  obtain ⟨⟨es, p⟩, hc, w⟩ := sstore_pushes (db := db) h1
  refine ⟨rfl, w, p.bal h.bal, fun _ => ?_⟩
  simp [coldBits, h1, accessesOf, accessAll_bits1, has_slot db l.r.js l.st h.rel, hc]

theorem sim_step_selfdestruct {a t : Addr} (hs : lockStep db hasStorage l (.selfdestruct a t) = some l') :
    StepOk db l l' (.selfdestruct a t) := by
  refine stepOk_ordinary hdb h hs (fun _ h => by cases h) (fun _ => rfl) (fun _ => rfl) rfl (fun r' hstep => ?_)
  simp only [step, Option.map_eq_some_iff] at hstep
  obtain ⟨⟨js', x⟩, h1, rfl⟩ := hstep
  obtain ⟨⟨es, p⟩, hc, w⟩ := selfdestruct_pushes (db := db) h.bal h1
  refine ⟨rfl, w, p.bal h.bal, fun _ => ?_⟩
  simp [coldBits, h1, accessesOf, accessAll_bits1, has_addr db l.r.js l.st h.rel, hc]

theorem sim_step_transfer {f t : Addr} {v : Nat} (hs : lockStep db hasStorage l (.transfer f t v) = some l') :
    StepOk db l l' (.transfer f t v) := by
  refine stepOk_ordinary hdb h hs (fun _ h => by cases h) (fun _ => rfl) (fun _ => rfl) rfl (fun r' hstep => ?_)
  simp only [step, Option.map_eq_some_iff] at hstep
  obtain ⟨⟨js', x⟩, h1, rfl⟩ := hstep
  obtain ⟨⟨es, p⟩, w⟩ := transfer_pushes (db := db) h.bal h1
  exact ⟨rfl, w, p.bal h.bal, fun hx => by simp [exposes] at hx⟩


theorem sim_step_loadDelegated {a : Addr} (hs : lockStep db hasStorage l (.loadDelegated a) = some l') :
    StepOk db l l' (.loadDelegated a) := by
  refine stepOk_ordinary hdb h hs (fun _ h => by cases h) (fun _ => rfl) (fun _ => rfl) rfl (fun r' hstep => ?_)
  simp only [step, Option.map_eq_some_iff] at hstep
  obtain ⟨⟨js', e, c, d⟩, h1, rfl⟩ := hstep
  obtain ⟨⟨es, p⟩, hc, hd⟩ := loadAccountDelegated_pushes (db := db) h1
  cases hdel : delegateOf db l.r.js a with
  | none =>
    rw [hdel] at hd; obtain ⟨rfl, w⟩ := hd
    refine ⟨rfl, by simp only [accessesOf, hdel]; exact w, p.bal h.bal, fun _ => ?_⟩
    simp [coldBits, h1, accessesOf, hdel, accessAll_bits1, has_addr db l.r.js l.st h.rel, hc]
  | some dl =>
    rw [hdel] at hd; obtain ⟨rfl, w⟩ := hd
    refine ⟨rfl, by simp only [accessesOf, hdel]; exact w, p.bal h.bal, fun _ => ?_⟩
    have e1 : (l.st.cur.add (Access.addr a)).has (Access.addr dl) = ((absT db l.r.js).warm dl || dl == a) := by
      show (l.st.cur.add (Access.addr a)).addrs dl = _
      rw [add_addrs, ← h.rel.1 dl]
      by_cases hda : dl = a
      · subst hda; simp [warmSets]
      · have : ¬ Access.addr a = Access.addr dl := fun e => hda (by cases e; rfl)
        have e1 : (Access.addr a == Access.addr dl) = false := Bool.eq_false_iff.2 (fun e => this (eq_of_beq e))
        have e2 : (dl == a) = false := Bool.eq_false_iff.2 (fun e => hda (eq_of_beq e))
        rw [e1, e2]; rfl
    simp only [coldBits, h1, accessesOf, hdel, Option.map_some, Option.toList, accessAll_bits2, e1,
      has_addr db l.r.js l.st h.rel, hc]

theorem sim_step_touch {a : Addr} (hs : lockStep db hasStorage l (.touch a) = some l') :
    StepOk db l l' (.touch a) := by
  refine stepOk_ordinary hdb h hs (fun _ h => by cases h) (fun _ => rfl) (fun _ => rfl) rfl (fun r' hstep => ?_)
  simp only [step, Option.map_eq_some_iff] at hstep
  obtain ⟨js', h1, rfl⟩ := hstep
  obtain ⟨es, p, n⟩ := touch_pushes (db := db) h1
  exact ⟨rfl, p.warms_nil n, p.bal h.bal, fun hx => by simp [exposes] at hx⟩

theorem sim_step_incNonce {a : Addr} (hs : lockStep db hasStorage l (.incNonce a) = some l') :
    StepOk db l l' (.incNonce a) := by
  refine stepOk_ordinary hdb h hs (fun _ h => by cases h) (fun _ => rfl) (fun _ => rfl) rfl (fun r' hstep => ?_)
  simp only [step, Option.map_eq_some_iff] at hstep
  obtain ⟨⟨js', x⟩, h1, rfl⟩ := hstep
  obtain ⟨es, p, n⟩ := incNonce_pushes (db := db) h1
  exact ⟨rfl, p.warms_nil n, p.bal h.bal, fun hx => by simp [exposes] at hx⟩

theorem sim_step_setCode {a : Addr} {hash : Nat} (hs : lockStep db hasStorage l (.setCode a hash) = some l') :
    StepOk db l l' (.setCode a hash) := by
  have hadm := (lockStep_some hs).1
  refine stepOk_ordinary hdb h hs (fun _ h => by cases h) (fun _ => rfl) (fun _ => rfl) rfl (fun r' hstep => ?_)
  simp only [step, Option.map_eq_some_iff] at hstep
  obtain ⟨js', h1, rfl⟩ := hstep
  have hk : ∀ acc, l.r.js.state a = some acc → acc.info.codeHash = KECCAK_EMPTY := by
    intro acc hacc; simp [admOp, admissible, hacc] at hadm; exact hadm
  obtain ⟨es, p, n⟩ := setCode_pushes (db := db) hk h1
  exact ⟨rfl, p.warms_nil n, p.bal h.bal, fun hx => by simp [exposes] at hx⟩

theorem sim_step_tstore {a : Addr} {k v : Nat} (hs : lockStep db hasStorage l (.tstore a k v) = some l') :
    StepOk db l l' (.tstore a k v) := by
  refine stepOk_ordinary hdb h hs (fun _ h => by cases h) (fun _ => rfl) (fun _ => rfl) rfl (fun r' hstep => ?_)
  simp only [step, Option.map_eq_some_iff] at hstep
  obtain ⟨js', h1, rfl⟩ := hstep
  obtain ⟨es, p, n⟩ := tstore_pushes (db := db) h1
  exact ⟨rfl, p.warms_nil n, p.bal h.bal, fun hx => by simp [exposes] at hx⟩

theorem sim_step_tload {a : Addr} {k : Nat} (hs : lockStep db hasStorage l (.tload a k) = some l') :
    StepOk db l l' (.tload a k) := by
  refine stepOk_ordinary hdb h hs (fun _ h => by cases h) (fun _ => rfl) (fun _ => rfl) rfl (fun r' hstep => ?_)
  simp [step] at hstep; subst hstep
  exact ⟨rfl, Warms.refl db _, h.bal, fun hx => by simp [exposes] at hx⟩

theorem sim_step_log {x : Nat} (hs : lockStep db hasStorage l (.log x) = some l') :
    StepOk db l l' (.log x) := by
  refine stepOk_ordinary hdb h hs (fun _ h => by cases h) (fun _ => rfl) (fun _ => rfl) rfl (fun r' hstep => ?_)
  simp [step] at hstep; subst hstep
  have e : absT db (Model.Journal.log l.r.js x) = absT db l.r.js := absT_congr db rfl rfl rfl rfl
  refine ⟨rfl, ⟨fun b => ?_, fun b k => ?_⟩, ?_, fun hx => by simp [exposes] at hx⟩
  · show (absT db (Model.Journal.log l.r.js x)).warm b = _; rw [e]; simp [accessesOf, aAddrs]
  · show ((absT db (Model.Journal.log l.r.js x)).slot b k).warm = _; rw [e]; simp [accessesOf, aSlots]
  · show BalOk (absT db (Model.Journal.log l.r.js x)); rw [e]; exact h.bal

theorem sim_step_commit (hs : lockStep db hasStorage l .commit = some l') : StepOk db l l' .commit := by
  obtain ⟨hadm, r', o', st', bits, hstep, hwn, hsp, rfl⟩ := lockStep_some hs
  simp [step] at hstep; subst hstep
  simp [specStep, Spec.AccessSets.commit] at hsp; obtain ⟨rfl, rfl⟩ := hsp
  simp only [wnStep] at hwn
  by_cases ho : l.open_ = []
  · simp [ho] at hwn
  · simp [ho] at hwn; subst hwn
    have e : absT db (commit l.r.js) = absT db l.r.js := absT_congr db rfl rfl rfl rfl
    have hsub : ∀ i, i ∈ l.open_.dropLast → i ∈ l.open_ := fun i hi => List.dropLast_subset _ hi
    refine ⟨⟨?_, ?_, h.len, fun i hi => h.lt i (hsub i hi), ?_, h.preCur, ?_⟩, fun hx => by simp [exposes] at hx⟩
    · show SetsEq (warmSets db (commit l.r.js)) l.st.cur
      rw [warmSets_eq, e]; exact h.rel
    · show BalOk (absT db (commit l.r.js)); rw [e]; exact h.bal
    · exact List.Pairwise.sublist (List.dropLast_sublist _) h.sorted
    · intro i hi
      obtain ⟨cp, snap, x0, logs0, spec0, pre0, e1, e2, iv, e3, e4⟩ := h.inv i (hsub i hi)
      exact ⟨cp, snap, x0, logs0, spec0, pre0, e1, e2,
        inv_step hdb (op := .commit) iv rfl rfl, e3, e4⟩

end ops

end Revm.Proofs.Access
