import Revm.Proofs.EtherTx
/-! Proofs for C08, part 5: the per-operation statements in the vocabulary of `Props/C08.lean`. -/
namespace Revm.Proofs.Ether
open Revm Revm.Model.Journal Revm.Model.TxFeeLegs Revm.Spec.JournalAbs Revm.Spec.Ether

/-! ## statements used by `Props/C08.lean` -/

theorem crt_eq_abs (db : Db) (s : JState) (a : Addr) : crt s a = (absAcct db s a).created := by
  unfold crt absAcct; cases s.state a <;> rfl

theorem bal_of_absB {db : Db} {s : JState} {b : BState} (h : absB db s = b) : bal db s = b.f := congrArg BState.f h

theorem transfer_total {db : Db} {L : List Addr} {s s' : JState} {src dst : Addr} {v : Nat} {r : Option TransferErr}
    (hn : L.Nodup) (hs : src ∈ L) (hd : dst ∈ L) (hok : BalOk db s)
    (h : transfer db s src dst v = some (s', r)) : total L db s' = total L db s := by
  have e := bal_of_absB (transfer_refines hok h).1
  simp only [total, e]
  exact bTransfer_sum hn (absB db s) v hs hd

theorem transfer_fail_same {db : Db} {s s' : JState} {src dst : Addr} {v : Nat} {r : Option TransferErr}
    (hok : BalOk db s) (h : transfer db s src dst v = some (s', r)) (hr : r ≠ none) :
    bal db s' = bal db s ∧ burnt s' = burnt s := by
  obtain ⟨e1, e2⟩ := transfer_refines hok h
  have hf : (bTransfer (absB db s) src dst v).2 ≠ .ok := by
    rw [← e2]; cases r with
    | none => exact absurd rfl hr
    | some er => cases er <;> simp [resOf]
  rw [bTransfer_fail hf] at e1
  exact ⟨congrArg BState.f e1, congrArg (fun b : BState => burntJ b.j) e1⟩

theorem create_total {db : Db} {L : List Addr} {s s' : JState} {caller a : Addr} {hs : Bool} {v spec : Nat}
    {r : Except CreateErr Checkpoint} (hn : L.Nodup) (hc : caller ∈ L) (ha : a ∈ L)
    (hfund : caller = a ∨ v ≤ bal db s caller)
    (h : createAccountCheckpoint s caller a hs v spec = some (s', r)) : total L db s' = total L db s := by
  obtain ⟨k1, k2, _⟩ := create_refines (db := db) h
  cases r with
  | ok cp =>
    obtain ⟨_, e⟩ := k1 rfl
    simp only [total, bal_of_absB e]
    exact bCreateOk_sum hn (absB db s) hc ha hfund
  | error er => exact total_of_absB (k2 (by cases er <;> simp [createOutcome]))

theorem create_fail_same {db : Db} {s s' : JState} {caller a : Addr} {hs : Bool} {v spec : Nat} {er : CreateErr}
    (h : createAccountCheckpoint s caller a hs v spec = some (s', .error er)) :
    bal db s' = bal db s ∧ burnt s' = burnt s := by
  obtain ⟨_, k2, _⟩ := create_refines (db := db) h
  have e := k2 (by cases er <;> simp [createOutcome])
  exact ⟨congrArg BState.f e, congrArg (fun b : BState => burntJ b.j) e⟩

theorem create_unfunded {db : Db} {L : List Addr} {s s' : JState} {caller a : Addr} {hs : Bool} {v spec : Nat}
    {cp : Checkpoint} (hn : L.Nodup) (hc : caller ∈ L) (ha : a ∈ L) (hca : caller ≠ a)
    (hlt : bal db s caller < v)
    (h : createAccountCheckpoint s caller a hs v spec = some (s', .ok cp)) : total L db s' = total L db s + W := by
  obtain ⟨k1, _, _⟩ := create_refines (db := db) h
  obtain ⟨hv, e⟩ := k1 rfl
  simp only [total, bal_of_absB e]
  exact bCreateOk_unfunded_mints hn hc ha hca (by omega) hlt

theorem selfdestruct_total {db : Db} {L : List Addr} {s s' : JState} {a t : Addr} {res : Bool × Bool × Bool × Bool}
    (hn : L.Nodup) (ha : a ∈ L) (ht : t ∈ L) (hok : BalOk db s)
    (h : selfdestruct db s a t = some (s', res)) :
    total L db s'
      + (if a = t ∧ ((absAcct db s a).created ∨ !decide (s.spec ≥ CANCUN)) then bal db s a else 0)
      + (if a ≠ t ∧ W ≤ bal db s t + bal db s a then W else 0) = total L db s := by
  obtain ⟨prev, e⟩ := selfdestruct_refines (db := db) h
  simp only [total, bal_of_absB e, ← crt_eq_abs db s a]
  exact bSelfdestruct_sum hn (b := absB db s) hok _ _ _ ha ht

/-- the operations that can move or destroy ether -/
def isEtherOp : Op → Bool
  | .transfer .. => true
  | .selfdestruct .. => true
  | .create .. => true
  | .revert _ => true
  | _ => false

theorem non_ether_step {db : Db} {r r' : Run} {op : Op} (hop : isEtherOp op = false)
    (h : step db r op = some r') : Same db r.js r'.js := by
  cases op <;> first | (cases hop; done) | skip
  case load a =>
    simp only [step, Option.map_eq_some_iff] at h
    obtain ⟨⟨s1, c⟩, h1, rfl⟩ := h; exact (loadAccount_same h1).1
  case loadCode a =>
    simp only [step, Option.map_eq_some_iff] at h
    obtain ⟨⟨s1, c⟩, h1, rfl⟩ := h; exact loadCode_same h1
  case loadDelegated a =>
    simp only [step, Option.map_eq_some_iff] at h
    obtain ⟨⟨s1, c⟩, h1, rfl⟩ := h; exact loadAccountDelegated_same h1
  case initLoad a ks => simp only [step] at h; cases h; exact initialAccountLoad_same
  case touch a =>
    simp only [step, Option.map_eq_some_iff] at h
    obtain ⟨s1, h1, rfl⟩ := h; exact touch_same h1
  case incNonce a =>
    simp only [step, Option.map_eq_some_iff] at h
    obtain ⟨⟨s1, c⟩, h1, rfl⟩ := h; exact incNonce_same h1
  case setCode a hh =>
    simp only [step, Option.map_eq_some_iff] at h
    obtain ⟨s1, h1, rfl⟩ := h; exact setCode_same h1
  case sload a k =>
    simp only [step, Option.map_eq_some_iff] at h
    obtain ⟨⟨s1, c⟩, h1, rfl⟩ := h; exact (sload_same h1).1
  case sstore a k v =>
    simp only [step, Option.map_eq_some_iff] at h
    obtain ⟨⟨s1, c⟩, h1, rfl⟩ := h; exact sstore_same h1
  case tload a k => simp only [step] at h; cases h; exact Same.refl _ _
  case tstore a k v =>
    simp only [step, Option.map_eq_some_iff] at h
    obtain ⟨s1, h1, rfl⟩ := h; exact tstore_same h1
  case log l => simp only [step] at h; cases h; exact log_same
  case checkpoint => simp only [step] at h; cases h; exact checkpoint_same
  case commit => simp only [step] at h; cases h; exact commit_same

theorem ledger_of_inv {db : Db} {L : List Addr} {B : Addr → Nat} {s : JState} (hn : L.Nodup)
    (h : BInv L B (absB db s)) : total L db s + burnt s = sumOver L B := h.ledger hn

theorem revert_ledger {db : Db} {L : List Addr} {B : Addr → Nat} {s s' : JState} {cp : Checkpoint} (hn : L.Nodup)
    (hinv : BInv L B (absB db s)) (h : revert s cp = some s') :
    BInv L B (absB db s') ∧ total L db s' + burnt s' = total L db s + burnt s := by
  have h' : BInv L B (absB db s') := by rw [revert_refines h]; exact hinv.revert _
  exact ⟨h', by rw [ledger_of_inv hn h', ledger_of_inv hn hinv]⟩


/-! ## per-operation ledger (what the op-level Spec column of the driver prints) -/

theorem bTransfer_burnt (b : BState) (src dst v : Nat) : burntJ (bTransfer b src dst v).1.j = burntJ b.j := by
  unfold bTransfer
  split
  · rfl
  · simp only []
    split
    · rfl
    · simp [burntJ, burntEntry]

theorem bCreateOk_burnt (b : BState) (caller a v : Nat) : burntJ (bCreateOk b caller a v).j = burntJ b.j := by
  simp [bCreateOk, burntJ, burntEntry]

theorem bSelfdestruct_burnt (b : BState) (a t : Addr) (created cancun prev : Bool) :
    burntJ (bSelfdestruct b a t created cancun prev).j
      = burntJ b.j + (if a = t ∧ (created ∨ !cancun) then b.f a else 0) := by
  unfold bSelfdestruct
  by_cases hat : a = t
  · subst hat
    simp only [ne_eq, not_true_eq_false, if_false, true_and]
    split
    · simp [burntJ, burntEntry]; omega
    · simp
  · simp only [ne_eq, hat, not_false_eq_true, if_true, false_and, if_false]
    split
    · simp [burntJ, burntEntry, hat]
    · simp [burntJ, burntEntry]

theorem burnt_of_absB {db : Db} {s : JState} {b : BState} (h : absB db s = b) : burnt s = burntJ b.j :=
  congrArg (fun x : BState => burntJ x.j) h

theorem transfer_ledger_eq {db : Db} {L : List Addr} {s s' : JState} {src dst : Addr} {v : Nat} {r : Option TransferErr}
    (hn : L.Nodup) (hs : src ∈ L) (hd : dst ∈ L) (hok : BalOk db s)
    (h : transfer db s src dst v = some (s', r)) : total L db s' + burnt s' = total L db s + burnt s := by
  rw [transfer_total hn hs hd hok h, burnt_of_absB (transfer_refines hok h).1, bTransfer_burnt]; rfl

theorem create_ledger_eq {db : Db} {L : List Addr} {s s' : JState} {caller a : Addr} {hs : Bool} {v spec : Nat}
    {r : Except CreateErr Checkpoint} (hn : L.Nodup) (hc : caller ∈ L) (ha : a ∈ L)
    (hfund : caller = a ∨ v ≤ bal db s caller)
    (h : createAccountCheckpoint s caller a hs v spec = some (s', r)) :
    total L db s' + burnt s' = total L db s + burnt s := by
  rw [create_total hn hc ha hfund h]
  obtain ⟨k1, k2, _⟩ := create_refines (db := db) h
  cases r with
  | ok cp => rw [burnt_of_absB (k1 rfl).2, bCreateOk_burnt]; rfl
  | error er => rw [burnt_of_absB (k2 (by cases er <;> simp [createOutcome]))]; rfl

theorem selfdestruct_ledger_eq {db : Db} {L : List Addr} {s s' : JState} {a t : Addr} {res : Bool × Bool × Bool × Bool}
    (hn : L.Nodup) (ha : a ∈ L) (ht : t ∈ L) (hok : BalOk db s)
    (h : selfdestruct db s a t = some (s', res)) :
    total L db s' + burnt s' + (if a ≠ t ∧ W ≤ bal db s t + bal db s a then W else 0) = total L db s + burnt s := by
  have h1 := selfdestruct_total hn ha ht hok h
  obtain ⟨prev, e⟩ := selfdestruct_refines (db := db) h
  have h2 : burnt s' = burnt s + (if a = t ∧ ((absAcct db s a).created ∨ !decide (s.spec ≥ CANCUN)) then bal db s a else 0) := by
    rw [burnt_of_absB e, bSelfdestruct_burnt, ← crt_eq_abs db s a]; rfl
  omega

/-! ## the fee legs in closed form -/

theorem deduct_exact {db : Db} {s0 s1 : JState} {spec : Nat} {e : FeeEnv} (hok : BalOk db s0)
    (hval : Validated db s0 spec e) (h : deductCaller db s0 spec e = some s1) :
    bal db s1 = upd (bal db s0) e.caller (bal db s0 e.caller - specDebit spec e) ∧ burnt s1 = burnt s0 := by
  obtain ⟨c, hc, b1, j1⟩ := deductCaller_bal h
  rw [b1, gasCost_validated hok hval hc]
  exact ⟨rfl, by unfold burnt; rw [j1]⟩

theorem reimbursement_exact {e : FeeEnv} {remaining spent refunded : Nat} (hg : GasOk e remaining spent refunded)
    (hfit : e.gasLimit * effectiveGasPrice e < W) :
    reimbursement e remaining refunded = specReimbursement e remaining refunded := by
  obtain ⟨h1, h2, h3⟩ := hg
  unfold reimbursement specReimbursement
  rw [wadd64_eq (by omega), wmul_eq]
  have : effectiveGasPrice e * (remaining + refunded) ≤ effectiveGasPrice e * e.gasLimit :=
    Nat.mul_le_mul_left _ (by omega)
  rw [Nat.mul_comm e.gasLimit] at hfit
  omega

theorem reward_exact {spec : Nat} {e : FeeEnv} {remaining spent refunded : Nat} (hg : GasOk e remaining spent refunded)
    (hfit : e.gasLimit * effectiveGasPrice e < W) :
    reward spec e spent refunded = specReward spec e spent refunded := by
  obtain ⟨h1, h2, h3⟩ := hg
  unfold reward specReward
  rw [wsub64_eq (by omega) h2, wmul_eq]
  have h4 : coinbaseGasPrice spec e * (spent - refunded) ≤ effectiveGasPrice e * e.gasLimit :=
    Nat.mul_le_mul (coinbaseGasPrice_le spec e) (by omega)
  rw [Nat.mul_comm e.gasLimit] at hfit
  omega

/-- outside the Σ < 2^256 reading: a beneficiary whose balance plus reward does not fit keeps
2^256 - 1 (`saturating_add`), the rest of the reward is lost -/
theorem reward_saturates {db : Db} {s s' : JState} {spec : Nat} {e : FeeEnv} {spent refunded : Nat}
    (h : rewardBeneficiary db s spec e spent refunded = some s')
    (hov : W ≤ bal db s e.coinbase + reward spec e spent refunded) : bal db s' e.coinbase = W - 1 := by
  obtain ⟨b, _⟩ := rewardBeneficiary_bal h
  rw [b, upd_same]; unfold U256.saturatingAdd; rw [if_neg (by omega)]


/-! ## nothing but the named accounts is touched -/

theorem transfer_others {db : Db} {s s' : JState} {src dst : Addr} {v : Nat} {r : Option TransferErr}
    (hok : BalOk db s) (h : transfer db s src dst v = some (s', r)) {x : Addr} (h1 : x ≠ src) (h2 : x ≠ dst) :
    bal db s' x = bal db s x := by
  rw [bal_of_absB (transfer_refines hok h).1]
  unfold bTransfer
  split
  · rfl
  · simp only []
    split
    · rfl
    · show upd _ dst _ x = _
      rw [upd_other _ _ h2, upd_other _ _ h1]; rfl

theorem create_others {db : Db} {s s' : JState} {caller a : Addr} {hs : Bool} {v spec : Nat}
    {r : Except CreateErr Checkpoint} (h : createAccountCheckpoint s caller a hs v spec = some (s', r))
    {x : Addr} (h1 : x ≠ caller) (h2 : x ≠ a) : bal db s' x = bal db s x := by
  obtain ⟨k1, k2, _⟩ := create_refines (db := db) h
  cases r with
  | ok cp =>
    rw [bal_of_absB (k1 rfl).2]
    show upd _ caller _ x = _
    rw [upd_other _ _ h1, upd_other _ _ h2]; rfl
  | error er => rw [bal_of_absB (k2 (by cases er <;> simp [createOutcome]))]; rfl

theorem selfdestruct_others {db : Db} {s s' : JState} {a t : Addr} {res : Bool × Bool × Bool × Bool}
    (h : selfdestruct db s a t = some (s', res)) {x : Addr} (h1 : x ≠ a) (h2 : x ≠ t) :
    bal db s' x = bal db s x := by
  obtain ⟨prev, e⟩ := selfdestruct_refines (db := db) h
  rw [bal_of_absB e]
  unfold bSelfdestruct
  by_cases hat : a = t
  · subst hat
    simp only [ne_eq, not_true_eq_false, if_false]
    split
    · show upd _ a 0 x = _
      rw [upd_other _ _ h1]; rfl
    · rfl
  · simp only [ne_eq, hat, not_false_eq_true, if_true]
    split
    · show upd _ a 0 x = _
      rw [upd_other _ _ h1, upd_other _ _ h2]; rfl
    · show upd _ a 0 x = _
      rw [upd_other _ _ h1, upd_other _ _ h2]; rfl

/-! ## an operation followed by the undo of its own entries restores every balance -/

theorem bTransfer_suffix (f : Addr → Nat) (j : List Entry) (src dst v : Nat) :
    (bTransfer ⟨f, j⟩ src dst v).1 = ⟨(bTransfer ⟨f, []⟩ src dst v).1.f, (bTransfer ⟨f, []⟩ src dst v).1.j ++ j⟩ := by
  unfold bTransfer
  simp only []
  split
  · rfl
  · split <;> rfl

theorem bSelfdestruct_suffix (f : Addr → Nat) (j : List Entry) (a t : Addr) (c k p : Bool) :
    bSelfdestruct ⟨f, j⟩ a t c k p = ⟨(bSelfdestruct ⟨f, []⟩ a t c k p).f, (bSelfdestruct ⟨f, []⟩ a t c k p).j ++ j⟩ := by
  unfold bSelfdestruct
  simp only []
  split
  · rfl
  · split <;> rfl

theorem bCreateOk_suffix (f : Addr → Nat) (j : List Entry) (caller a v : Nat) :
    bCreateOk ⟨f, j⟩ caller a v = ⟨(bCreateOk ⟨f, []⟩ caller a v).f, (bCreateOk ⟨f, []⟩ caller a v).j ++ j⟩ := rfl

theorem binv_fresh' {L : List Addr} {f : Addr → Nat} (hf : FOk f) : BInv L f ⟨f, []⟩ where
  ok := hf
  ein := fun e he => by cases he
  vok := fun e he => by cases he
  good := trivial
  base := rfl

/-- DESIGN A.1 (b), projected to balances: the balance entries an operation pushes undo exactly what
it did to every balance -/
theorem step_undo_restores {db : Db} {r r' : Run} {op : Op} (hok : BalOk db r.js)
    (hloc : StepOk db r op) (h : step db r op = some r') (hnr : ∀ i, op ≠ .revert i) :
    ∃ new, JB r'.js = new ++ JB r.js ∧ undoAll (bal db r'.js) new = bal db r.js := by
  by_cases hop : isEtherOp op = false
  · have e := non_ether_step (db := db) hop h
    exact ⟨[], by rw [e.2]; rfl, by rw [e.1]; rfl⟩
  · cases op <;> (first | (exact absurd rfl hop) | skip)
    case transfer src dst v =>
      simp only [step, Option.map_eq_some_iff] at h
      obtain ⟨⟨s1, res⟩, h1, rfl⟩ := h
      have e := (transfer_refines hok h1).1
      have hi := bTransfer_inv (L := [src, dst]) (binv_fresh' hok) (src := src) (dst := dst) v (by simp) (by simp)
      rw [show absB db r.js = ⟨bal db r.js, JB r.js⟩ from rfl, bTransfer_suffix] at e
      exact ⟨_, congrArg BState.j e, by rw [bal_of_absB e]; exact hi.base⟩
    case selfdestruct a t =>
      simp only [step, Option.map_eq_some_iff] at h
      obtain ⟨⟨s1, res⟩, h1, rfl⟩ := h
      obtain ⟨prev, e⟩ := selfdestruct_refines (db := db) h1
      have hi := bSelfdestruct_inv (L := [a, t]) (binv_fresh' hok) (a := a) (t := t) (crt r.js a)
        (decide (r.js.spec ≥ CANCUN)) prev (by simp) (by simp) hloc
      rw [show absB db r.js = ⟨bal db r.js, JB r.js⟩ from rfl, bSelfdestruct_suffix] at e
      exact ⟨_, congrArg BState.j e, by rw [bal_of_absB e]; exact hi.base⟩
    case create caller a hs v spec =>
      simp only [step] at h
      split at h
      · rename_i js cp h1
        cases h
        obtain ⟨k1, _, _⟩ := create_refines (db := db) h1
        obtain ⟨hlt, e⟩ := k1 rfl
        have hi := bCreateOk_inv (L := [caller, a]) (binv_fresh' hok) (caller := caller) (a := a) (v := v)
          (by simp) (by simp) hlt (Or.inr hloc)
        rw [show absB db r.js = ⟨bal db r.js, JB r.js⟩ from rfl, bCreateOk_suffix] at e
        exact ⟨_, congrArg BState.j e, by rw [bal_of_absB e]; exact hi.base⟩
      · rename_i js er h1
        cases h
        obtain ⟨_, k2, _⟩ := create_refines (db := db) h1
        have e := k2 (by cases er <;> simp [createOutcome])
        exact ⟨[], congrArg BState.j e, congrArg BState.f e⟩
      · cases h
    case revert i => exact absurd rfl (hnr i)

/-! ## parts 1 and 2 together -/

/-- `deduct_caller`, then ANY history of journal operations (the execution: calls, creations,
self-destructs, reverted frames, …), then the post-execution legs -/
theorem tx_history_conserves {db : Db} {L : List Addr} {s0 s1 s3 : JState} {r2 : Run} {cps : List Checkpoint}
    {ops : List Op} {spec : Nat} {e : FeeEnv} {rewards : Bool} {remaining spent refunded : Nat}
    (hn : L.Nodup) (hcL : e.caller ∈ L) (hbL : e.coinbase ∈ L)
    (hok0 : BalOk db s0) (hj0 : JB s0 = []) (hSum : total L db s0 < W)
    (hval : Validated db s0 spec e) (hgas : GasOk e remaining spent refunded)
    (hded : deductCaller db s0 spec e = some s1)
    (hL : ∀ op ∈ ops, ∀ a ∈ opAddrs op, a ∈ L) (hf : FundedRun db ⟨s1, cps⟩ ops)
    (hrun : run db ⟨s1, cps⟩ ops = some r2)
    (hpost : postExecution db r2.js spec e rewards remaining spent refunded = some s3) :
    total L db s3 + burntPerGas spec e * (spent - refunded) + dataFee spec e + burnt r2.js
      + (if rewards then 0 else coinbaseGasPrice spec e * (spent - refunded)) = total L db s0 := by
  obtain ⟨c, hc, b1, j1⟩ := deductCaller_bal hded
  have hok1 : BalOk db s1 := by
    intro x; rw [b1]
    exact upd_ok hok0 _ (by have := hok0 e.caller; unfold U256.saturatingSub; omega) x
  have hle : total L db s1 ≤ total L db s0 := by
    have := sumOver_upd (bal db s0) (U256.saturatingSub (bal db s0 e.caller) c) hn hcL
    simp only [total, b1]; unfold U256.saturatingSub at this ⊢; omega
  have hexec := ledger_of_inv hn (run_inv (r := ⟨s1, cps⟩) hn (show sumOver L (bal db s1) < W from by
    have : sumOver L (bal db s1) = total L db s1 := rfl
    omega) (binv_fresh hok1 (j1.trans hj0)) hL hf hrun)
  exact tx_conserves hn hcL hbL hok0 hSum hval hgas hded hexec hpost

end Revm.Proofs.Ether
