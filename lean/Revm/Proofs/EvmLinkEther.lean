import Revm.Proofs.EvmLinkKeys
import Revm.Proofs.EvmLinkNoted
import Revm.Proofs.EvmLinkHost
import Revm.Proofs.EtherHistory
/-! LINK, ether conservation (C08), part 2: the ledger invariant of C08 (`BInv`: what is there plus what unreverted
self-destructs burnt is what was there) on worlds, and its preservation by every `World` / `Host` operation of the
whole-EVM model — each is one `JournalAbs.step`, to which C08's `step_inv` applies. `Pres L B w w'` packages: no account
is removed, and the invariant survives provided the accounts present afterwards are in the address list `L`. -/
set_option linter.unusedSimpArgs false
set_option linter.unusedVariables false
namespace Revm.Proofs.EvmLink
open Revm Revm.Model Revm.Model.Evm
open Revm.Spec.JournalAbs (Op Run step)
open Revm.Spec.Ether Revm.Proofs.Ether

/-- C08's ledger invariant on a world -/
def EI (L : List Nat) (B : Nat → Nat) (w : World) : Prop := BInv L B (absB w.db w.js)

/-- the accounts present in the world's journal are in `L` -/
def KeysIn (L : List Nat) (w : World) : Prop := ∀ a, w.js.state a ≠ none → a ∈ L

structure Pres (L : List Nat) (B : Nat → Nat) (w w' : World) : Prop where
  kle : KLe w.js w'.js
  ei : KeysIn L w' → EI L B w → EI L B w'
  /-- the backing store's accounts are never written during a transaction -/
  dbb : w'.db.basic = w.db.basic
  /-- the address list only grows, and every account that became present was noted in it -/
  ng : NGrow w w'

theorem Pres.refl (L B) (w : World) : Pres L B w w := ⟨KLe.refl _, fun _ h => h, rfl, NGrow.refl _⟩

theorem Pres.trans {L B} {w w1 w2 : World} (p1 : Pres L B w w1) (p2 : Pres L B w1 w2) : Pres L B w w2 :=
  ⟨p1.kle.trans p2.kle, fun hK h => p2.ei hK (p1.ei (fun a ha => hK a (p2.kle a ha)) h),
   p2.dbb.trans p1.dbb, p1.ng.trans p2.ng⟩

/-- the balances only read `db.basic` -/
theorem absB_db {db db' : Journal.Db} (h : db'.basic = db.basic) (s : Journal.JState) : absB db' s = absB db s := by
  have : bal db' s = bal db s := by
    funext x
    cases hs : s.state x with
    | none => rw [bal_none hs, bal_none hs, h]
    | some acc => rw [bal_some hs, bal_some hs]
  simp only [absB, this]

/-- a world that differs in nothing the ledger reads -/
theorem Pres.of_same {L B} {w w' : World} (hdb : w'.db.basic = w.db.basic) (hjs : w'.js = w.js) (hng : NGrow w w') :
    Pres L B w w' :=
  ⟨by rw [hjs]; exact KLe.refl _, fun _ h => by unfold EI at *; rw [hjs, absB_db hdb]; exact h, hdb, hng⟩

/-- one journal operation on the world's journal: C08's `step_inv` -/
theorem Pres.of_step {L B} (hn : L.Nodup) (hB : sumOver L B < W) {w w' : World} {op : Op}
    {cps cps' : List Journal.Checkpoint}
    (hs : step w.db { js := w.js, cps := cps } op = some { js := w'.js, cps := cps' })
    (hdb : w'.db.basic = w.db.basic) (hk : KLe w.js w'.js)
    (hnamed : ∀ a ∈ opAddrs op, w'.js.state a ≠ none)
    (hf : EI L B w → Funded w.db { js := w.js, cps := cps } op) (hng : NGrow w w') : Pres L B w w' :=
  ⟨hk, fun hK h => by
    unfold EI at *
    rw [absB_db hdb]
    exact step_inv hn hB h (fun a ha => hK a (hnamed a ha)) (hf h) hs, hdb, hng⟩

end Revm.Proofs.EvmLink

namespace Revm.Proofs.EvmLink
open Revm Revm.Model Revm.Model.Evm
open Revm.Spec.JournalAbs (Op Run step)
open Revm.Spec.Ether Revm.Proofs.Ether

section ops
variable {L : List Nat} {B : Nat → Nat} (hn : L.Nodup) (hB : sumOver L B < W)
include hn hB

theorem pres_loadAccount {w w1 : World} {a : Nat} {c : Bool} (h : w.loadAccount a = .ok (w1, c)) :
    Pres L B w w1 ∧ w1.js.state a ≠ none := by
  obtain ⟨t1, t2⟩ := w_loadAccount_tr h
  obtain ⟨k, p⟩ := kle_loadAccount t1
  exact ⟨Pres.of_step hn hB (op := .load a) (cps := []) (cps' := []) (by simp only [step, t1, Option.map_some])
    (by rw [t2]) k (fun x hx => nomatch hx) (fun _ => trivial) (ng_loadAccount h), p⟩

theorem pres_loadCode {w w1 : World} {a : Nat} {c : Bool} (h : w.loadCode a = .ok (w1, c)) :
    Pres L B w w1 ∧ w1.js.state a ≠ none := by
  obtain ⟨t1, t2⟩ := w_loadCode_tr h
  obtain ⟨k, p⟩ := kle_loadCode t1
  exact ⟨Pres.of_step hn hB (op := .loadCode a) (cps := []) (cps' := []) (by simp only [step, t1, Option.map_some])
    (by rw [t2]) k (fun x hx => nomatch hx) (fun _ => trivial) (ng_loadCode h), p⟩

theorem pres_loadAccountDelegated {w w1 : World} {a : Nat} {r} (h : w.loadAccountDelegated a = .ok (w1, r)) :
    Pres L B w w1 := by
  have hng := ng_loadAccountDelegated h
  obtain ⟨ie, c, dc⟩ := r
  obtain ⟨t1, t2⟩ := w_loadAccountDelegated_tr h
  exact Pres.of_step hn hB (op := .loadDelegated a) (cps := []) (cps' := [])
    (by simp only [step, t1, Option.map_some]) (by rw [t2]) (kle_loadAccountDelegated t1)
    (fun x hx => nomatch hx) (fun _ => trivial) hng

theorem pres_touch {w w1 : World} {a : Nat} (h : w.touch a = .ok w1) : Pres L B w w1 := by
  have hng := ng_touch h
  unfold World.touch at h
  obtain ⟨js, h1, h2⟩ := bind_ok h
  simp only [pure, Except.pure, Except.ok.injEq] at h2
  subst h2
  have t1 := Proofs.EvmHost.ofOpt_ok h1
  exact Pres.of_step hn hB (op := .touch a) (cps := []) (cps' := [])
    (by simp only [step, t1, Option.map_some]) rfl (kle_touch t1) (fun x hx => nomatch hx) (fun _ => trivial) hng

theorem pres_transfer {w w1 : World} {src dst v : Nat} {r} (h : w.transfer src dst v = .ok (w1, r)) :
    Pres L B w w1 := by
  have hng := ng_transfer h
  unfold World.transfer at h
  obtain ⟨⟨js, e⟩, h1, h2⟩ := bind_ok h
  simp only [pure, Except.pure, Except.ok.injEq, Prod.mk.injEq] at h2
  obtain ⟨rfl, _⟩ := h2
  have t1 := Proofs.EvmHost.ofOpt_ok h1
  obtain ⟨k, ps, pd⟩ := kle_transfer t1
  refine Pres.of_step hn hB (op := .transfer src dst v) (cps := []) (cps' := [])
    (by simp only [step, t1, Option.map_some, Proofs.EvmHost.noteAddr_js]) ?_
    (by rw [Proofs.EvmHost.noteAddr_js, Proofs.EvmHost.noteAddr_js]; exact k) ?_ (fun _ => trivial) hng
  · rw [Proofs.EvmHost.noteAddr_db, Proofs.EvmHost.noteAddr_db]; rfl
  · intro x hx
    rw [Proofs.EvmHost.noteAddr_js, Proofs.EvmHost.noteAddr_js]
    simp only [opAddrs, List.mem_cons, List.mem_singleton, List.not_mem_nil, or_false] at hx
    rcases hx with rfl | rfl
    · exact ps
    · exact pd

theorem pres_checkpoint (w : World) : Pres L B w w.checkpoint.1 :=
  Pres.of_step hn hB (op := .checkpoint) (cps := []) (cps' := [] ++ [(Journal.checkpoint w.js).2])
    (by simp only [step]; rfl) rfl (kle_checkpoint _) (fun x hx => nomatch hx) (fun _ => trivial) (ng_checkpoint w)

theorem pres_commit (w : World) : Pres L B w w.commit :=
  Pres.of_step hn hB (op := .commit) (cps := []) (cps' := []) (by simp only [step]; rfl) rfl (kle_commit _)
    (fun x hx => nomatch hx) (fun _ => trivial) (ng_commit w)

theorem pres_revert {w w1 : World} {cp : Journal.Checkpoint} (h : w.revert cp = .ok w1) : Pres L B w w1 := by
  have hng := ng_revert h
  unfold World.revert at h
  obtain ⟨js, h1, h2⟩ := bind_ok h
  simp only [pure, Except.pure, Except.ok.injEq] at h2
  subst h2
  have t1 := Proofs.EvmHost.ofOpt_ok h1
  exact Pres.of_step hn hB (op := .revert 0) (cps := [cp]) (cps' := [cp])
    (by simp only [step, List.getElem?_cons_zero, t1, Option.map_some]) rfl (kle_revert t1)
    (fun x hx => nomatch hx) (fun _ => trivial) hng

end ops
end Revm.Proofs.EvmLink
