import Revm.Model.Evm
import Revm.Proofs.Gas
/-! Proofs about the whole-transaction model `Revm.Model.Evm` (C01): the result does not depend on the fuel, the gas
accounting of the transaction handler, the classification of results. -/
namespace Revm.Proofs.Evm
open Revm Revm.Model Revm.Model.Evm

/-- for non-vacuity examples: a run that completes -/
def isOk {ε α} : Except ε α → Bool
  | .ok _ => true
  | .error _ => false

theorem exists_of_isOk {ε α} {x : Except ε α} (h : isOk x = true) : ∃ r, x = .ok r := by
  cases x with
  | ok r => exact ⟨r, rfl⟩
  | error e => exact Bool.noConfusion h

theorem runLoop_mono_aux {κ : Type} (C : CpOps κ) (cfg : Cfg) : ∀ n : Nat,
    (∀ stack w r, runLoop C cfg n stack w = .ok r → runLoop C cfg (n + 1) stack w = .ok r) ∧
    (∀ top rest r out s w res, runEnded C cfg n top rest r out s w = .ok res →
       runEnded C cfg (n + 1) top rest r out s w = .ok res) := by
  intro n
  induction n with
  | zero =>
    constructor
    · intro stack w r h; simp [runLoop, throw, throwThe, MonadExceptOf.throw] at h
    · intro top rest r out s w res h; simp [runEnded, throw, throwThe, MonadExceptOf.throw] at h
  | succ n ih =>
    constructor
    · intro stack w r h
      rw [runLoop] at h ⊢
      cases hi : iterate C cfg stack w with
      | error e => rw [hi] at h; simp [bind, Except.bind] at h
      | ok nx =>
        rw [hi] at h
        cases nx with
        | run st w' => simp only [bind, Except.bind] at h ⊢; exact ih.1 _ _ _ h
        | ended t r' rr o s' w' => simp only [bind, Except.bind] at h ⊢; exact ih.2 _ _ _ _ _ _ _ h
        | done r' w' => simpa [bind, Except.bind] using h
    · intro top rest r out s w res h
      rw [runEnded] at h ⊢
      cases hi : frameEnd C cfg top rest r out s w with
      | error e => rw [hi] at h; simp [bind, Except.bind] at h
      | ok nx =>
        rw [hi] at h
        cases nx with
        | run st w' => simp only [bind, Except.bind] at h ⊢; exact ih.1 _ _ _ h
        | ended t r' rr o s' w' => simp only [bind, Except.bind] at h ⊢; exact ih.2 _ _ _ _ _ _ _ h
        | done r' w' => simpa [bind, Except.bind] using h

theorem runLoop_mono {κ : Type} (C : CpOps κ) (cfg : Cfg) {n m : Nat} (h : n ≤ m) {stack w r}
    (hr : runLoop C cfg n stack w = .ok r) : runLoop C cfg m stack w = .ok r := by
  induction h with
  | refl => exact hr
  | step _ ih => exact (runLoop_mono_aux C cfg _).1 _ _ _ ih

theorem runFirst_mono {κ : Type} (C : CpOps κ) (cfg : Cfg) {n m : Nat} (h : n ≤ m) {first : FrameOrResult κ} {w r}
    (hr : runFirst C cfg n first w = .ok r) : runFirst C cfg m first w = .ok r := by
  cases first with
  | frame f => exact runLoop_mono C cfg h hr
  | result r' => exact hr

theorem execute_mono {κ : Type} (C : CpOps κ) {n m : Nat} (h : n ≤ m) {e spec ig fg w r}
    (hr : execute C n e spec ig fg w = .ok r) : execute C m e spec ig fg w = .ok r := by
  unfold execute at hr ⊢
  cases hp : prepare C e spec ig w with
  | error err => rw [hp] at hr; simp [bind, Except.bind] at hr
  | ok p =>
    obtain ⟨first, w1, isCreate, refund⟩ := p
    rw [hp] at hr
    simp only [bind, Except.bind] at hr ⊢
    cases hf : runFirst C (e.toCfg spec) n first w1 with
    | error err => rw [hf] at hr; simp at hr
    | ok q =>
      rw [hf] at hr
      rw [runFirst_mono C _ h hf]
      exact hr

/-- the result of a transaction does not depend on the fuel once the fuel suffices -/
theorem transactWith_mono {κ : Type} (C : CpOps κ) {n m : Nat} (h : n ≤ m) {w e spec r}
    (hr : transactWith C n w e spec = .ok r) : transactWith C m w e spec = .ok r := by
  unfold transactWith at hr ⊢
  simp only [bind, Except.bind] at hr ⊢
  cases hp : preverify w e (GasCalc.canon spec) with
  | error err => rw [hp] at hr; simp at hr
  | ok o =>
    rw [hp] at hr
    cases o with
    | none => exact hr
    | some p =>
      obtain ⟨w', ig, fg⟩ := p
      simp only at hr ⊢
      cases he : execute C n e (GasCalc.canon spec) ig fg w' with
      | error err => rw [he] at hr; simp at hr
      | ok q => rw [he] at hr; rw [execute_mono C h he]; exact hr

theorem transact_mono {n m : Nat} (h : n ≤ m) {w e spec r}
    (hr : transact n w e spec = .ok r) : transact m w e spec = .ok r :=
  transactWith_mono journalOps h hr
end Revm.Proofs.Evm

namespace Revm.Proofs.Evm
open Revm Revm.Model Revm.Model.Evm
open Revm.Model.Gas
open Revm.Proofs.Gas

/-- the meter before `refund`: `last_frame_return` -/
def lastFrameGas (L : Nat) (res : Interp.ChildResult) : Gas :=
  if res.result.isOk then recordRefund (eraseCost (newSpent L) res.gasRemaining) res.gasRefunded
  else if res.result.isRevert then eraseCost (newSpent L) res.gasRemaining
  else newSpent L

theorem lastFrameGas_inv (L : Nat) (res : Interp.ChildResult) (hL : L < U64) (hrem : res.gasRemaining ≤ L)
    (hrr : I64MIN ≤ res.gasRefunded ∧ res.gasRefunded ≤ I64MAX) :
    WF (lastFrameGas L res) ∧ MeterInv (lastFrameGas L res) ∧ (lastFrameGas L res).limit = L := by
  have hpos : 0 < U64 := by rw [U64_val]; decide
  have hw0 : WF (newSpent L) := ⟨hL, hpos, by show I64MIN ≤ (0 : Int); decide, by show (0 : Int) ≤ I64MAX; decide⟩
  have hi0 : MeterInv (newSpent L) := Nat.zero_le _
  have hs0 : spent (newSpent L) = L := by rw [spent_eq _ hL hi0]; rfl
  have hf : FrameOk (newSpent L) (.eraseCost res.gasRemaining) := by show _ ≤ spent _; rw [hs0]; exact hrem
  have ht : Op.typed (.eraseCost res.gasRemaining) := by show _ < U64; omega
  have hw1 : WF (eraseCost (newSpent L) res.gasRemaining) := step_WF _ _ hw0 ht
  have hi1 : MeterInv (eraseCost (newSpent L) res.gasRemaining) := step_Inv _ _ hL hi0 hf
  have hl1 : (eraseCost (newSpent L) res.gasRemaining).limit = L := step_limit (newSpent L) (.eraseCost res.gasRemaining)
  unfold lastFrameGas
  split
  · have ht2 : Op.typed (.recordRefund res.gasRefunded) := hrr
    have hw2 : WF (recordRefund (eraseCost (newSpent L) res.gasRemaining) res.gasRefunded) := step_WF _ _ hw1 ht2
    have hi2 : MeterInv (recordRefund (eraseCost (newSpent L) res.gasRemaining) res.gasRefunded) := step_Inv _ (.recordRefund res.gasRefunded) hw1.1 hi1 trivial
    exact ⟨hw2, hi2, by rw [show (recordRefund _ _).limit = _ from step_limit _ (.recordRefund res.gasRefunded)]; exact hl1⟩
  · split
    · exact ⟨hw1, hi1, hl1⟩
    · exact ⟨hw0, hi0, rfl⟩

theorem finalGas_eq (e : Env) (spec floorGas r7 : Nat) (res : Interp.ChildResult) :
    finalGas e spec floorGas r7 res =
      (let g3 := setFinalRefund (recordRefund (lastFrameGas e.tx.gasLimit res) (u64AsI64 r7))
                  (GasCalc.enabled spec GasCalc.SpecId.LONDON)
       if spentSubRefunded g3 < floorGas then setRefund (setSpent g3 floorGas) 0 else g3) := by
  unfold finalGas lastFrameGas
  rfl

theorem spent_setFinalRefund (g : Gas) (b : Bool) : spent (setFinalRefund g b) = spent g := by
  unfold spent setFinalRefund; rfl

/-- the EIP-7623 floor step and `output`'s arithmetic on a meter that satisfies the invariants -/
theorem floor_step (g3 g : Gas) (L floorGas q : Nat) (hw3 : WF g3) (hi3 : MeterInv g3) (hl3 : g3.limit = L)
    (hb0 : 0 ≤ g3.refunded) (hb1 : g3.refunded ≤ ((spent g3 / q : Nat) : Int)) (hfl : floorGas ≤ L)
    (hg : g = if spentSubRefunded g3 < floorGas then setRefund (setSpent g3 floorGas) 0 else g3) :
    U64ops.wsub (spent g) (i64AsU64 g.refunded) ≤ L ∧ floorGas ≤ U64ops.wsub (spent g) (i64AsU64 g.refunded) ∧
    0 ≤ g.refunded ∧ g.refunded ≤ ((spent g / q : Nat) : Int) ∧
    U64ops.wsub (spent g) (i64AsU64 g.refunded) + i64AsU64 g.refunded + g.remaining = L := by
  have hs3 : spent g3 = g3.limit - g3.remaining := spent_eq g3 hw3.1 hi3
  have hq : spent g3 / q ≤ spent g3 := Nat.div_le_self _ _
  have hr3 : i64AsU64 g3.refunded = g3.refunded.toNat := i64AsU64_nonneg _ hb0 hw3.2.2.2
  have hss : spentSubRefunded g3 = spent g3 - g3.refunded.toNat := spentSubRefunded_nonneg g3 hb0 hw3.2.2.2
  have hLlt : L < U64 := by rw [← hl3]; exact hw3.1
  have hz : i64AsU64 0 = 0 := by decide
  unfold MeterInv at hi3
  by_cases hfloor : spentSubRefunded g3 < floorGas
  · rw [if_pos hfloor] at hg
    have hrem4 : g.remaining = g3.limit - floorGas := by rw [hg]; rfl
    have hlim4 : g.limit = g3.limit := by rw [hg]; rfl
    have href4 : g.refunded = 0 := by rw [hg]; rfl
    have hs4 : spent g = floorGas := by
      have : spent g = g.limit - g.remaining := spent_eq g (by rw [hlim4]; exact hw3.1) (by
        show g.remaining ≤ g.limit; rw [hrem4, hlim4]; omega)
      rw [this, hrem4, hlim4, hl3]; omega
    have hused : U64ops.wsub (spent g) (i64AsU64 g.refunded) = floorGas := by
      rw [href4, hs4, hz, wsub_of_le _ _ (Nat.lt_of_le_of_lt hfl hLlt) (Nat.zero_le _)]; rfl
    rw [hused, href4, hz, hrem4, hl3]
    refine ⟨hfl, Nat.le_refl _, Int.le_refl 0, Int.natCast_nonneg _, by omega⟩
  · rw [if_neg hfloor] at hg
    rw [hg]
    have hle : g3.refunded.toNat ≤ spent g3 := by
      generalize spent g3 / q = qq at *
      omega
    have hused : U64ops.wsub (spent g3) (i64AsU64 g3.refunded) = spent g3 - g3.refunded.toNat := by
      rw [hr3, wsub_of_le _ _ (spent_lt g3) hle]
    rw [hused, hr3]
    rw [hss] at hfloor
    refine ⟨by omega, by omega, hb0, hb1, by omega⟩

/-- gas accounting of the transaction handler after the first frame returned (`last_frame_return`, `refund`, the
EIP-7623 floor, `output`): for every first-frame result that gives back at most the gas limit, `gas_used` is at most
the gas limit and at least the floor, the refund is non-negative and capped by `spent / 5` (London) or `spent / 2`,
and used + refunded + remaining = gas limit -/
theorem finalGas_bounds (e : Env) (spec floorGas r7 : Nat) (res : Interp.ChildResult) (g : Gas)
    (hg : g = finalGas e spec floorGas r7 res)
    (hL : e.tx.gasLimit < U64) (hrem : res.gasRemaining ≤ e.tx.gasLimit)
    (hrr : I64MIN ≤ res.gasRefunded ∧ res.gasRefunded ≤ I64MAX) (h7 : r7 < U64) (hfl : floorGas ≤ e.tx.gasLimit) :
    U64ops.wsub (spent g) (i64AsU64 g.refunded) ≤ e.tx.gasLimit ∧
    floorGas ≤ U64ops.wsub (spent g) (i64AsU64 g.refunded) ∧
    0 ≤ g.refunded ∧
    g.refunded ≤ ((spent g / (if GasCalc.enabled spec GasCalc.SpecId.LONDON then 5 else 2) : Nat) : Int) ∧
    U64ops.wsub (spent g) (i64AsU64 g.refunded) + i64AsU64 g.refunded + g.remaining = e.tx.gasLimit := by
  obtain ⟨hw1, hi1, hl1⟩ := lastFrameGas_inv e.tx.gasLimit res hL hrem hrr
  have ht2 : Op.typed (.recordRefund (u64AsI64 r7)) := u64AsI64_range r7 h7
  have hw2 : WF (recordRefund (lastFrameGas e.tx.gasLimit res) (u64AsI64 r7)) := step_WF _ _ hw1 ht2
  have hi2 : MeterInv (recordRefund (lastFrameGas e.tx.gasLimit res) (u64AsI64 r7)) :=
    step_Inv _ (.recordRefund (u64AsI64 r7)) hw1.1 hi1 trivial
  have hl2 : (recordRefund (lastFrameGas e.tx.gasLimit res) (u64AsI64 r7)).limit = e.tx.gasLimit := by
    rw [show (recordRefund _ _).limit = _ from step_limit _ (.recordRefund (u64AsI64 r7))]; exact hl1
  rw [finalGas_eq] at hg
  generalize recordRefund (lastFrameGas e.tx.gasLimit res) (u64AsI64 r7) = g2 at *
  generalize GasCalc.enabled spec GasCalc.SpecId.LONDON = b at *
  have hw3 : WF (setFinalRefund g2 b) := step_WF g2 (.setFinalRefund b) hw2 trivial
  have hi3 : MeterInv (setFinalRefund g2 b) := step_Inv g2 (.setFinalRefund b) hw2.1 hi2 trivial
  have hl3 : (setFinalRefund g2 b).limit = e.tx.gasLimit := by
    rw [show (setFinalRefund _ _).limit = _ from step_limit g2 (.setFinalRefund b)]; exact hl2
  have hb3 := setFinalRefund_bounds g2 b
  rw [← spent_setFinalRefund g2 b] at hb3
  exact floor_step (setFinalRefund g2 b) g e.tx.gasLimit floorGas _ hw3 hi3 hl3 hb3.1 hb3.2 hfl hg
/-! ## the result of a completed transaction -/

theorem txResultOf_fields (cls : ResultClass) (res : Interp.ChildResult) (isCreate : Bool) (gas : Gas.Gas)
    (logs : List LogRec) :
    (txResultOf cls res isCreate gas logs).cls = cls ∧ (txResultOf cls res isCreate gas logs).reason = res.result ∧
    (txResultOf cls res isCreate gas logs).gasUsed = U64ops.wsub (Gas.spent gas) (Gas.i64AsU64 gas.refunded) := by
  cases cls <;> exact ⟨rfl, rfl, rfl⟩

/-- the result handed out by `finish`: its class is the class of the first frame's `InstructionResult`
(`SuccessOrHalt::from`), its gas is `spent - refunded` of the final meter -/
theorem finish_result (e : Evm.Env) (spec floorGas r7 : Nat) (isCreate : Bool) (res : Interp.ChildResult)
    (w w' : World) (r : TxResult) (h : finish e spec floorGas r7 isCreate res w = .ok (r, w')) :
    classOf res.result = some r.cls ∧ r.reason = res.result ∧
    r.gasUsed = U64ops.wsub (Gas.spent (finalGas e spec floorGas r7 res))
                  (Gas.i64AsU64 (finalGas e spec floorGas r7 res).refunded) := by
  unfold finish at h
  simp only [bind, Except.bind] at h
  cases h1 : w.loadAccount e.tx.caller with
  | error err => rw [h1] at h; simp at h
  | ok p1 =>
    rw [h1] at h
    simp only at h
    cases h2 : p1.1.acct e.tx.caller with
    | error err => rw [h2] at h; simp at h
    | ok cacc =>
      rw [h2] at h
      simp only at h
      generalize hw2 : ({ p1.1 with js := _ } : World) = w2 at h
      cases h3 : w2.loadAccount e.block.coinbase with
      | error err => rw [h3] at h; simp at h
      | ok p3 =>
        rw [h3] at h
        simp only at h
        cases h4 : p3.1.acct e.block.coinbase with
        | error err => rw [h4] at h; simp at h
        | ok bacc =>
          rw [h4] at h
          simp only at h
          cases h5 : classOf res.result with
          | none => rw [h5] at h; simp [ofOpt] at h
          | some cls =>
            rw [h5] at h
            simp only [ofOpt, pure, Except.pure, Except.ok.injEq, Prod.mk.injEq] at h
            obtain ⟨hr, _⟩ := h
            rw [← hr]
            obtain ⟨a, b, c⟩ := txResultOf_fields cls res isCreate (finalGas e spec floorGas r7 res) _
            exact ⟨by rw [a], b, c⟩

/-- a completed, executed transaction went through `prepare`, the loop on the first frame, and `finish` -/
theorem transactWith_executed_inv {κ : Type} (C : CpOps κ) (fuel : Nat) (w w' : World) (e : Evm.Env) (spec : Nat)
    (r : TxResult) (h : transactWith C fuel w e spec = .ok (.executed r, w')) :
    ∃ (res : Interp.ChildResult) (floorGas refund : Nat) (isCreate : Bool) (w2 : World),
      finish e (GasCalc.canon spec) floorGas refund isCreate res w2 = .ok (r, w') := by
  unfold transactWith at h
  simp only [bind, Except.bind] at h
  cases hp : preverify w e (GasCalc.canon spec) with
  | error err => rw [hp] at h; simp at h
  | ok o =>
    rw [hp] at h
    cases o with
    | none => simp [pure, Except.pure] at h
    | some p =>
      obtain ⟨w1, ig, fg⟩ := p
      simp only at h
      cases he : execute C fuel e (GasCalc.canon spec) ig fg w1 with
      | error err => rw [he] at h; simp at h
      | ok q =>
        rw [he] at h
        obtain ⟨r', w''⟩ := q
        simp only [pure, Except.pure, Except.ok.injEq, Prod.mk.injEq, Outcome.executed.injEq] at h
        obtain ⟨hr, hw⟩ := h
        subst hr; subst hw
        unfold execute at he
        simp only [bind, Except.bind] at he
        cases hpr : prepare C e (GasCalc.canon spec) ig w1 with
        | error err => rw [hpr] at he; simp at he
        | ok pp =>
          obtain ⟨first, wa, isCreate, refund⟩ := pp
          rw [hpr] at he
          simp only at he
          cases hrf : runFirst C (e.toCfg (GasCalc.canon spec)) fuel first wa with
          | error err => rw [hrf] at he; simp at he
          | ok rr =>
            obtain ⟨res, w2⟩ := rr
            rw [hrf] at he
            exact ⟨res, fg, refund, isCreate, w2, he⟩

/-- every completed executed transaction ends in exactly one outcome class, the class of its first frame's final
`InstructionResult` (never an internal flag), with `gas_used = spent − refunded` of the handler's final meter -/
theorem transact_class (fuel : Nat) (w w' : World) (e : Evm.Env) (spec : Nat) (r : TxResult)
    (h : transact fuel w e spec = .ok (.executed r, w')) :
    ∃ (res : Interp.ChildResult) (floorGas refund : Nat),
      classOf res.result = some r.cls ∧ r.reason = res.result ∧
      r.gasUsed = U64ops.wsub (Gas.spent (finalGas e (GasCalc.canon spec) floorGas refund res))
                    (Gas.i64AsU64 (finalGas e (GasCalc.canon spec) floorGas refund res).refunded) := by
  obtain ⟨res, fg, refund, isCreate, w2, hf⟩ := transactWith_executed_inv journalOps fuel w w' e spec r h
  exact ⟨res, fg, refund, finish_result e _ fg refund isCreate res w2 w' r hf⟩
end Revm.Proofs.Evm
