import Revm.Proofs.EvmLinkInterp7
/-! LINK, the interpreter side of panic-freedom, part 8: **`Evm.transact` never hits an interpreter fault, a fault of an
outcome insertion or a failing `free_context`**: on a well-formed world at journal depth 0 whose code store and
precompile oracle hold Rust `Bytes`, for an environment with calldata within `isize::MAX` and a gas limit below
`u64::MAX`, for every fork and fuel, the answer is a result on a well-formed world, a soft failure, or "out of fuel"
(legacy code never hands out the EOFCREATE action: part 13). -/
set_option linter.unusedSimpArgs false
set_option linter.unusedVariables false
namespace Revm.Proofs.EvmLink
open Revm Revm.Model Revm.Model.Evm
open Revm.Proofs.Memory (WF)

local notation "ISZ" => Memory.ISIZE_MAX

/-- the inputs are Rust values: code store and oracle hold `Bytes`, the journal is between two transactions -/
structure WTyped (w : World) : Prop where
  store : StoreOk w
  depth : w.js.depth = 0

/-- the transaction is a Rust value: calldata a `Bytes`; `gas_limit` a `u64` other than `u64::MAX` -/
structure ETyped (e : Evm.Env) : Prop where
  data : e.tx.data.length ≤ ISZ
  gas : e.tx.gasLimit ≤ U64 - 2

theorem transact_tot3 (pco : PcOut) (hout : OutB) (hin : InB) (fuel : Nat) (w : World) (e : Evm.Env) (spec : Nat)
    (h : WOk w) (hw : WTyped w) (he : ETyped e) : Tot3 (Evm.transact fuel w e spec) (fun p => WOk p.2) := by
  have mf := mf_of pco hout hin
  unfold Evm.transact transactWith
  refine tot3_bind' (tot3_preverify h e (GasCalc.canon spec)) (fun o hp ho => ?_)
  cases o with
  | none => exact tot3_pure h
  | some p =>
    obtain ⟨w1, ig, fg⟩ := p
    have h1 : WOk w1 := (ho _ rfl).ok
    obtain ⟨hvE, _, hig, _, acc, code, hl, _⟩ := preverify_some_inv w w1 e _ ig fg hp
    obtain ⟨cold, hh, hlc, _⟩ := loadSender_inv hl
    have hd1 : w1.js.depth = 0 := by rw [w_loadCode_depth hlc, hw.depth]
    have hs1 : StoreOk w1 := hw.store.eq (w_loadCode_store hlc)
    have henv := envOk_of_validate hvE
    have hfee : GasCalc.enabled (GasCalc.canon spec) GasCalc.SpecId.CANCUN = true → e.block.blobGasPrice.isSome :=
      (Proofs.TxGas.validateEnv_none _ _ (txgas_validateEnv_of_evm e _ hvE)).1
    dsimp only
    refine tot3_bind (P := fun p : TxResult × World => WOk p.2) ?_ (fun p hp => tot3_pure hp)
    unfold execute
    refine tot3_bind' (tot3_prepare h1 e _ ig hfee) (fun q hprep hq => ?_)
    obtain ⟨first, w2, isCreate, k⟩ := q
    dsimp only
    refine tot3_bind (P := fun p : Interp.ChildResult × World => WOk p.2 ∧ RGood p.1.result) ?_ (fun p hp => ?_)
    · unfold FirstOk at hq
      cases first with
      | frame f =>
        exact (tot3_runLoop mf _ henv fuel).1 [f] w2 (List.cons_ne_nil _ _) hq
          (prepare_si pco hprep hs1 he.data he.gas hig henv) (Proofs.EvmInstLoaded.prepare_inv hprep)
          ((prepare_inv hd1 hprep).1 f rfl)
      | result r => exact tot3_pure hq
    · obtain ⟨res, w3⟩ := p
      exact tot3_finish hp.1 e _ fg k isCreate res hp.2

end Revm.Proofs.EvmLink
