import Revm.Proofs.EvmLinkLoop
/-! LINK, frame depth (C07), part 4: the first frame of a transaction. `prepare` (load_accounts, deduct_caller, the
EIP-7702 list) keeps the journal at the depth it found; the first frame opens at depth 1 = one frame on the stack. -/
set_option linter.unusedSimpArgs false
namespace Revm.Proofs.EvmLink
open Revm Revm.Model Revm.Model.Evm
open Revm.Model.Journal (incU64 decU64)
open Revm.Proofs.Frame (dec_inc inc_small dec_pos)

theorem foldl_noteSlot_js (a : Nat) : ∀ (keys : List Nat) (w : World),
    (keys.foldl (fun w k => w.noteSlot a k) w).js = w.js := by
  intro keys
  induction keys with
  | nil => intro w; rfl
  | cons k ks ih => intro w; simp only [List.foldl_cons]; rw [ih, Proofs.EvmHost.noteSlot_js]

theorem accessList_depth : ∀ (l : List AccessItem) (w : World),
    (l.foldl (fun w it =>
      let w := { w with js := Journal.initialAccountLoad w.db w.js it.addr it.keys }.noteAddr it.addr
      it.keys.foldl (fun w k => w.noteSlot it.addr k) w) w).js.depth = w.js.depth := by
  intro l
  induction l with
  | nil => intro w; rfl
  | cons it l ih =>
    intro w
    simp only [List.foldl_cons]
    rw [ih, foldl_noteSlot_js, Proofs.EvmHost.noteAddr_js]
    rfl

theorem loadAccounts_depth (e : Evm.Env) (spec : Nat) (w : World) :
    (loadAccounts e spec w).js.depth = w.js.depth := by
  unfold loadAccounts
  simp only
  exact accessList_depth _ _

theorem deductCaller_depth {e : Evm.Env} {spec : Nat} {w w' : World} (h : deductCaller e spec w = .ok w') :
    w'.js.depth = w.js.depth := by
  unfold deductCaller at h
  obtain ⟨⟨w1, cold⟩, h1, h⟩ := bind_ok h
  obtain ⟨acc, h2, h⟩ := bind_ok h
  obtain ⟨d, h3, h⟩ := bind_ok h
  simp only [pure, Except.pure, Except.ok.injEq] at h
  subst h
  show w1.js.depth = _
  exact w_loadAccount_depth h1

theorem applyAuth_depth {e : Evm.Env} {w w' : World} {a : Auth} {b : Bool} (h : applyAuth e w a = .ok (w', b)) :
    w'.js.depth = w.js.depth := by
  unfold applyAuth at h
  simp only [pure, Except.pure] at h
  split at h
  · simp only [Except.ok.injEq, Prod.mk.injEq] at h; rw [← h.1]
  · split at h
    · simp only [Except.ok.injEq, Prod.mk.injEq] at h; rw [← h.1]
    · split at h
      · rename_i authority hau
        obtain ⟨⟨w1, c⟩, h1, h⟩ := bind_ok h
        have d1 := w_loadCode_depth h1
        obtain ⟨acc, _, h⟩ := bind_ok h
        obtain ⟨hh, _, h⟩ := bind_ok h
        obtain ⟨code, _, h⟩ := bind_ok h
        split at h
        · simp only [Except.ok.injEq, Prod.mk.injEq] at h; rw [← h.1]; exact d1
        · split at h
          · simp only [Except.ok.injEq, Prod.mk.injEq] at h; rw [← h.1]; exact d1
          · simp only [Except.ok.injEq, Prod.mk.injEq] at h
            rw [← h.1]
            generalize Keccak.keccak256w (designator a.address) = kh
            generalize designator a.address = bytes
            by_cases hz : a.address = 0
            · simp only [hz, if_true, Proofs.Frame.setAcct_depth]; exact d1
            · simp only [hz, if_false, Proofs.Frame.setAcct_depth, addCode_js]; exact d1
      · simp only [Except.ok.injEq, Prod.mk.injEq] at h; rw [← h.1]

/-- a loop whose body keeps a projection of the state keeps it -/
theorem forIn_keeps {α σ : Type} (f : α → σ → R (ForInStep σ)) (p : σ → Nat)
    (hf : ∀ a s st, f a s = .ok st → ∃ s', st = .yield s' ∧ p s' = p s) :
    ∀ (l : List α) (s r : σ), forIn (m := R) l s f = .ok r → p r = p s := by
  intro l
  induction l with
  | nil =>
    intro s r h
    simp only [List.forIn_nil, pure, Except.pure, Except.ok.injEq] at h
    subst h; rfl
  | cons a l ih =>
    intro s r h
    rw [List.forIn_cons] at h
    obtain ⟨st, h1, h2⟩ := bind_ok h
    obtain ⟨s', rfl, hp⟩ := hf a s st h1
    rw [ih _ _ h2, hp]

theorem applyAuthList_depth {e : Evm.Env} {spec : Nat} {w w' : World} {r : Nat}
    (h : applyAuthList e spec w = .ok (w', r)) : w'.js.depth = w.js.depth := by
  unfold applyAuthList at h
  simp only [bind, Except.bind, pure, Except.pure] at h
  split at h
  · simp only [Except.ok.injEq, Prod.mk.injEq] at h; rw [← h.1]
  · cases hal : e.tx.authList with
    | none =>
      rw [hal] at h
      simp only [Except.ok.injEq, Prod.mk.injEq] at h; rw [← h.1]
    | some l =>
      rw [hal] at h
      simp only at h
      split at h
      · cases h
      · rename_i v hv
        simp only [Except.ok.injEq, Prod.mk.injEq] at h
        rw [← h.1]
        exact forIn_keeps _ (fun s : World × Nat => s.1.js.depth) (by
          intro a s st hst
          split at hst
          · cases hst
          · rename_i v' hv'
            have := applyAuth_depth (w' := v'.1) (b := v'.2) hv'
            split at hst
            · simp only [Except.ok.injEq] at hst; subst hst; exact ⟨_, rfl, this⟩
            · simp only [Except.ok.injEq] at hst; subst hst; exact ⟨_, rfl, this⟩) l (w, 0) v hv

/-- **the first frame** (C07 `firstFrame_inv` on EvmTx): from a journal at depth 0, `prepare` either opens the first
frame at depth 1 — one frame on the stack — or ends with an immediate result at depth 0 -/
theorem prepare_inv {e : Evm.Env} {spec ig : Nat} {w w2 : World} {first isCreate k}
    (h0 : w.js.depth = 0) (h : prepare journalOps e spec ig w = .ok (first, w2, isCreate, k)) :
    (∀ f, first = .frame f → LoopInv [f] w2) ∧ (∀ r, first = .result r → w2.js.depth = 0) := by
  unfold prepare at h
  obtain ⟨wd, hd, h⟩ := bind_ok h
  obtain ⟨⟨wa, rf⟩, hauth, h⟩ := bind_ok h
  have da : wa.js.depth = 0 := by
    rw [applyAuthList_depth hauth, deductCaller_depth hd, loadAccounts_depth, h0]
  have hlim : ¬ wa.js.depth > CALL_STACK_LIMIT := by rw [da]; decide
  simp only at h
  split at h
  · obtain ⟨⟨f, wf⟩, hmk, h⟩ := bind_ok h
    simp only [pure, Except.pure, Except.ok.injEq, Prod.mk.injEq] at h
    obtain ⟨rfl, rfl, _, _⟩ := h
    obtain ⟨x, y⟩ := makeCallFrame_depth hmk
    refine ⟨fun f hf => ?_, fun r hr => by rw [(x r hr).1, da]⟩
    refine ⟨?_, by simp, by simp [CALL_STACK_LIMIT]⟩
    rw [(y f hf).1, da]; rfl
  · obtain ⟨⟨f, wf⟩, hmk, h⟩ := bind_ok h
    simp only [pure, Except.pure, Except.ok.injEq, Prod.mk.injEq] at h
    obtain ⟨rfl, rfl, _, _⟩ := h
    obtain ⟨x, y⟩ := makeCreateFrame_depth hmk
    refine ⟨fun f hf => ?_, fun r hr => by rw [(x r hr).1, da]⟩
    refine ⟨?_, by simp, by simp [CALL_STACK_LIMIT]⟩
    rw [(y f hf).1, da]; rfl

end Revm.Proofs.EvmLink
