import Revm.Proofs.EvmLinkTotal
import Revm.Proofs.EvmLinkDepth2
/-! LINK, panic-freedom, part 2 (C07 `make_call_frame_total`, `make_create_frame_total`, `call_return_total`,
`create_return_total` on EvmFrame): under well-formedness the frame functions never hit an `unwrap`; the checkpoint of
a frame they open lies strictly inside the journal; the account a new frame runs on is loaded. -/
set_option linter.unusedSimpArgs false
set_option linter.unusedVariables false
namespace Revm.Proofs.EvmLink
open Revm Revm.Model Revm.Model.Evm
open Revm.Proofs.Frame (Good DbBal)
open Revm.Proofs.Journal (Grows)

/-- what a `make_*_frame` guarantees about the world it leaves (C07 `FrameOut`) -/
structure FOut (w w1 : World) (fr : FrameOrResult Journal.Checkpoint) : Prop where
  ok : WOk w1
  grows : Grows w.js w1.js
  len : w.js.journal.length ≤ w1.js.journal.length
  cp : ∀ f, fr = .frame f →
    w.js.journal.length ≤ f.checkpoint.journalI ∧ f.checkpoint.journalI < w1.js.journal.length

theorem wok_len_pos {w : World} (h : WOk w) : 1 ≤ w.js.journal.length := Proofs.Frame.journal_len_pos h.good

theorem ws_checkpoint {w : World} (h : WOk w) :
    WOk w.checkpoint.1 ∧ Grows w.js w.checkpoint.1.js ∧
      w.checkpoint.1.js.journal.length = w.js.journal.length + 1 ∧ w.checkpoint.2.journalI = w.js.journal.length :=
  ⟨⟨Proofs.Frame.good_checkpoint h.good, h.dbal⟩, Grows.of_state_eq rfl, by simp [World.checkpoint, Journal.checkpoint],
   rfl⟩

theorem ws_commit {w : World} (h : WOk w) : WS w w.commit :=
  ⟨⟨Proofs.Frame.good_commit h.good, h.dbal⟩, Grows.of_state_eq rfl, rfl⟩

theorem tot_callValueStep {w : World} (h : WOk w) (i : Interp.CallInputs) :
    Tot (callValueStep w i) (fun r => WS w r.1 ∧
      (i.valueTransfer = true → (r.1.js.state i.targetAddress).isSome)) := by
  unfold callValueStep
  split
  · rename_i hvt
    split
    · refine tot_bind (tot_loadAccount h _) (fun r hr => ?_)
      refine tot_bind (tot_touch hr.1.ok _) (fun w2 h2 => ?_)
      exact tot_pure ⟨hr.1.trans h2, fun _ => h2.grows.acct _ hr.2⟩
    · refine tot_bind (tot_transfer h _ _ _) (fun r hr => ?_)
      obtain ⟨w2, e⟩ := r
      dsimp only
      split <;> exact tot_pure ⟨hr.1, fun _ => hr.2.2⟩
  · rename_i hvt
    exact tot_pure ⟨WS.refl h, fun hv => absurd hv hvt⟩

theorem tot_runPrecompile (w : World) (spec a : Nat) (input : List Nat) (gl : Nat) :
    Tot (runPrecompile w spec a input gl) (fun _ => True) := by
  unfold runPrecompile
  split
  · exact tot_pure trivial
  · split
    · split
      · split
        · exact tot_pure trivial
        · split
          · exact tot_pure trivial
          · split
            · exact tot_pure trivial
            · exact Or.inr (Or.inr (Or.inr ⟨_, rfl⟩))
      · exact Or.inr (Or.inr (Or.inl ⟨_, rfl⟩))
    · exact tot_pure trivial

/-- the result of a `make_call_frame` stage that works inside the checkpoint `cp` -/
def CallOut (w : World) (cp : Journal.Checkpoint) (i : Interp.CallInputs)
    (r : FrameOrResult Journal.Checkpoint × World) : Prop :=
  WOk r.2 ∧ Grows w.js r.2.js ∧ cp.journalI ≤ r.2.js.journal.length ∧
    ∀ f, r.1 = .frame f → f.checkpoint = cp ∧ cp.journalI < r.2.js.journal.length ∧
      f.interp.target = i.targetAddress ∧ f.kind = .call i.retStart i.retEnd

theorem tot_callTail {w : World} (h : WOk w) (cfg : Cfg) (cp : Journal.Checkpoint) (i : Interp.CallInputs)
    (mem : Memory.SharedMemory) (hlt : cp.journalI < w.js.journal.length) :
    Tot (callTail journalOps cfg w cp i mem) (CallOut w cp i) := by
  unfold callTail
  cases hl : w.loadCode i.bytecodeAddress with
  | error e => have := tot_loadCode h i.bytecodeAddress; rw [hl] at this; exact this
  | ok r =>
    have hr := (tot_loadCode h i.bytecodeAddress).ok_inv hl
    obtain ⟨w1, c⟩ := r
    dsimp only at hr
    show Tot (w1.acct i.bytecodeAddress >>= _) _
    refine tot_bind (tot_acct hr.2) (fun acc hacc => ?_)
    obtain ⟨hh, hhh⟩ := Proofs.Journal.isSome_cases (w_loadCode_cached hl acc hacc)
    refine tot_bind (tot_ofOpt (P := fun _ => True) hhh trivial) (fun _ _ => ?_)
    refine tot_bind (tot_codeOf _) (fun bytecode _ => ?_)
    have l1 : w1.js.journal.length = w.js.journal.length := hr.1.len
    split
    · have hc := ws_commit hr.1.ok
      refine tot_pure ⟨hc.ok, hr.1.grows.trans hc.grows, ?_, fun f hf => nomatch hf⟩
      show cp.journalI ≤ (World.commit w1).js.journal.length
      rw [hc.len]; omega
    · refine tot_bind (P := fun p => WS w1 p.1) ?_ (fun p hp => ?_)
      · split
        · rename_i d _
          cases hl2 : w1.loadCode d with
          | error e => have := tot_loadCode hr.1.ok d; rw [hl2] at this; exact this
          | ok r2 =>
            have hr2 := (tot_loadCode hr.1.ok d).ok_inv hl2
            obtain ⟨w3, c3⟩ := r2
            dsimp only at hr2
            show Tot (w3.acct d >>= _) _
            refine tot_bind (tot_acct hr2.2) (fun dacc hdacc => ?_)
            obtain ⟨dh, hdh⟩ := Proofs.Journal.isSome_cases (w_loadCode_cached hl2 dacc hdacc)
            refine tot_bind (tot_ofOpt (P := fun _ => True) hdh trivial) (fun _ _ => ?_)
            exact tot_bind (tot_codeOf _) (fun _ _ => tot_pure hr2.1)
        · exact tot_pure (WS.refl hr.1.ok)
      · obtain ⟨w2, code2⟩ := p
        dsimp only at hp
        have l2 : w2.js.journal.length = w1.js.journal.length := hp.len
        refine tot_pure ⟨hp.ok, hr.1.grows.trans hp.grows, ?_, fun f hf => ?_⟩
        · show cp.journalI ≤ w2.js.journal.length; omega
        · simp only [FrameOrResult.frame.injEq] at hf
          rw [← hf]
          exact ⟨rfl, by show cp.journalI < w2.js.journal.length; omega, rfl, rfl⟩

theorem tot_callPrecompile {w : World} (h : WOk w) (cfg : Cfg) (cp : Journal.Checkpoint) (i : Interp.CallInputs)
    (mem : Memory.SharedMemory) (h1 : 1 ≤ cp.journalI) (hlt : cp.journalI < w.js.journal.length) :
    Tot (callPrecompile journalOps cfg w cp i mem) (CallOut w cp i) := by
  unfold callPrecompile
  refine tot_bind (tot_runPrecompile _ _ _ _ _) (fun pc _ => ?_)
  have hrev : ∀ x : Interp.ChildResult, Tot (do
      let w ← journalOps.revert w cp
      pure (FrameOrResult.result x, w) : R (FrameOrResult Journal.Checkpoint × World)) (CallOut w cp i) := by
    intro x
    refine tot_bind (tot_revert h cp h1 (by omega)) (fun w1 h1' => ?_)
    exact tot_pure ⟨h1'.1, h1'.2.1, by show cp.journalI ≤ w1.js.journal.length; omega, fun f hf => nomatch hf⟩
  cases pc with
  | none => exact tot_callTail h cfg cp i mem hlt
  | some res =>
    simp only
    cases res with
    | ok gasUsed out =>
      simp only
      split
      · have hc := ws_commit h
        refine tot_pure ⟨hc.ok, hc.grows, ?_, fun f hf => nomatch hf⟩
        show cp.journalI ≤ (World.commit w).js.journal.length
        rw [hc.len]; omega
      · exact hrev _
    | err e => simp only; exact hrev _
    | panic => exact Or.inr (Or.inl rfl)

/-- **`make_call_frame` is total** (C07 `makeCallFrame_total` on EvmFrame) -/
theorem tot_makeCallFrame {w : World} (h : WOk w) (cfg : Cfg) (i : Interp.CallInputs) (mem : Memory.SharedMemory) :
    Tot (makeCallFrame journalOps cfg w i mem) (fun r => FOut w r.2 r.1 ∧ ∀ f, r.1 = .frame f →
      (∃ rs re, f.kind = .call rs re) ∧ f.interp.target = i.targetAddress ∧
      ((i.valueTransfer = true ∨ (w.js.state i.targetAddress).isSome) → (r.2.js.state i.targetAddress).isSome)) := by
  rw [makeCallFrame_staged]
  unfold makeCallFrameS
  split
  · exact tot_pure ⟨⟨h, Grows.refl _, Nat.le_refl _, fun f hf => nomatch hf⟩, fun f hf => nomatch hf⟩
  · refine tot_bind (tot_loadAccountDelegated h _) (fun r1 hr1 => ?_)
    obtain ⟨w1, x⟩ := r1
    dsimp only at hr1
    show Tot (callValueStep w1.checkpoint.1 i >>= fun __x => match __x with
      | (w, failed) => match failed with
        | some r => (do
          let w ← journalOps.revert w w1.checkpoint.2
          pure (FrameOrResult.result (earlyResult r i.gasLimit), w))
        | x => callPrecompile journalOps cfg w w1.checkpoint.2 i mem) _
    obtain ⟨hck, gck, lck, cpI⟩ := ws_checkpoint hr1.ok
    have l1 : w1.js.journal.length = w.js.journal.length := hr1.len
    have hpos := wok_len_pos h
    refine tot_bind (tot_callValueStep hck i) (fun r2 hr2 => ?_)
    obtain ⟨w2, failed⟩ := r2
    dsimp only at hr2
    have l2 : w2.js.journal.length = w1.js.journal.length + 1 := by rw [hr2.1.len]; exact lck
    have g02 : Grows w.js w2.js := (hr1.grows.trans gck).trans hr2.1.grows
    have hcp1 : 1 ≤ w1.checkpoint.2.journalI := by rw [cpI]; omega
    have hcp2 : w1.checkpoint.2.journalI < w2.js.journal.length := by rw [cpI]; omega
    have hcp3 : w1.checkpoint.2.journalI = w.js.journal.length := by rw [cpI]; omega
    cases failed with
    | some r0 =>
      dsimp only
      refine tot_bind (tot_revert hr2.1.ok _ hcp1 (Nat.le_of_lt hcp2)) (fun w3 h3 => ?_)
      refine tot_pure ⟨⟨h3.1, g02.trans h3.2.1, ?_, fun f hf => nomatch hf⟩, fun f hf => nomatch hf⟩
      show w.js.journal.length ≤ w3.js.journal.length
      rw [h3.2.2, hcp3]; exact Nat.le_refl _
    | none =>
      dsimp only
      refine tot_mono (tot_callPrecompile hr2.1.ok cfg _ i mem hcp1 hcp2) (fun r hr => ?_)
      obtain ⟨k1, k2, k3, k4⟩ := hr
      refine ⟨⟨k1, g02.trans k2, by rw [← hcp3]; exact k3, fun f hf => ?_⟩, fun f hf => ?_⟩
      · obtain ⟨e1, e2, _, _⟩ := k4 f hf
        rw [e1]; exact ⟨by rw [hcp3]; exact Nat.le_refl _, e2⟩
      · obtain ⟨_, _, e3, e4⟩ := k4 f hf
        refine ⟨⟨_, _, e4⟩, e3, fun hor => ?_⟩
        rcases hor with hv | hp
        · exact k2.acct _ (hr2.2 hv)
        · exact (g02.trans k2).acct _ hp

theorem tot_callReturn {w : World} (h : WOk w) (cp : Journal.Checkpoint) (r : Interp.ChildResult)
    (h1 : 1 ≤ cp.journalI) (hlt : cp.journalI < w.js.journal.length) :
    Tot (callReturn journalOps w cp r) (fun p => WOk p.2 ∧ Grows w.js p.2.js ∧ cp.journalI ≤ p.2.js.journal.length ∧
      p.2.js.journal.length ≤ w.js.journal.length) := by
  unfold callReturn
  split
  · have hc := ws_commit h
    refine tot_pure ⟨hc.ok, hc.grows, ?_, ?_⟩
    · show cp.journalI ≤ (World.commit w).js.journal.length; rw [hc.len]; omega
    · show (World.commit w).js.journal.length ≤ _; rw [hc.len]; exact Nat.le_refl _
  · refine tot_bind (tot_revert h cp h1 (by omega)) (fun w1 h1' => ?_)
    refine tot_pure ⟨h1'.1, h1'.2.1, ?_, ?_⟩
    · show cp.journalI ≤ w1.js.journal.length; omega
    · show w1.js.journal.length ≤ _; omega

/-! ## create -/

theorem tot_createCheckpoint {w : World} (h : WOk w) (caller a : Nat) (hs : Bool) (v spec : Nat)
    (ha : (w.js.state a).isSome) (hc : (w.js.state caller).isSome) :
    Tot (journalOps.createCheckpoint w caller a hs v spec) (fun p => WOk p.1 ∧ Grows w.js p.1.js ∧
      (match p.2 with
       | .ok cp => cp.journalI = w.js.journal.length ∧ p.1.js.journal.length = w.js.journal.length + 1
       | .error _ => p.1.js.journal.length = w.js.journal.length)) := by
  obtain ⟨s', r, h1, g', gr, hm⟩ := Proofs.Frame.createAccountCheckpoint_good h.good hs v spec ha hc
  simp only [journalOps]
  rw [h1]
  refine ⟨wok_js h g', gr, ?_⟩
  cases r with
  | ok cp => exact ⟨by rw [hm.1]; rfl, hm.2⟩
  | error e => exact hm

theorem tot_setCode {w : World} (h : WOk w) (a hash : Nat) (ha : (w.js.state a).isSome) :
    Tot (journalOps.setCode w a hash) (fun w1 => WS w w1) := by
  obtain ⟨s', h1, g', gr, hl⟩ := Proofs.Frame.setCode_good h.good hash ha
  simp only [journalOps]
  rw [h1]
  exact ⟨wok_js h g', gr, hl⟩

/-- a frame `make_create_frame` opens runs on the created address, which is loaded -/
def CreateFr (w1 : World) (fr : FrameOrResult Journal.Checkpoint) : Prop :=
  ∀ f, fr = .frame f → ∃ a, f.kind = .create a ∧ f.interp.target = a ∧ (w1.js.state a).isSome

theorem tot_createTail {w : World} (h : WOk w) (cfg : Cfg) (i : Interp.CreateInputs) (mem : Memory.SharedMemory)
    (created : Nat) (hc : (w.js.state i.caller).isSome) :
    Tot (createTail journalOps cfg w i mem created) (fun r => FOut w r.2 r.1 ∧ CreateFr r.2 r.1) := by
  unfold createTail
  split
  · exact tot_pure ⟨⟨h, Grows.refl _, Nat.le_refl _, fun f hf => nomatch hf⟩, fun f hf => nomatch hf⟩
  · refine tot_bind (tot_loadAccount h created) (fun r1 hr1 => ?_)
    obtain ⟨w1, c1⟩ := r1
    dsimp only at hr1
    have l1 : w1.js.journal.length = w.js.journal.length := hr1.1.len
    refine tot_bind (tot_createCheckpoint hr1.1.ok i.caller created _ i.value cfg.spec hr1.2
      (hr1.1.grows.acct _ hc)) (fun r2 hr2 => ?_)
    obtain ⟨w2, r⟩ := r2
    obtain ⟨k1, k2, k3⟩ := hr2
    dsimp only at k1 k2 k3
    have g02 := hr1.1.grows.trans k2
    cases r with
    | error e =>
      dsimp only at k3
      cases e <;>
        exact tot_pure ⟨⟨k1, g02, by show w.js.journal.length ≤ w2.js.journal.length; omega,
          fun f hf => nomatch hf⟩, fun f hf => nomatch hf⟩
    | ok cp =>
      dsimp only at k3
      refine tot_pure ⟨⟨k1, g02, by show w.js.journal.length ≤ w2.js.journal.length; omega, fun f hf => ?_⟩,
        fun f hf => ?_⟩
      · simp only [FrameOrResult.frame.injEq] at hf
        rw [← hf]
        show w.js.journal.length ≤ cp.journalI ∧ cp.journalI < w2.js.journal.length
        omega
      · simp only [FrameOrResult.frame.injEq] at hf
        rw [← hf]
        exact ⟨created, rfl, rfl, k2.acct _ hr1.2⟩

/-- **`make_create_frame` is total** (C07 `makeCreateFrame_total` on EvmFrame) -/
theorem tot_makeCreateFrame {w : World} (h : WOk w) (cfg : Cfg) (i : Interp.CreateInputs)
    (mem : Memory.SharedMemory) :
    Tot (makeCreateFrame journalOps cfg w i mem) (fun r => FOut w r.2 r.1 ∧ CreateFr r.2 r.1) := by
  rw [makeCreateFrame_staged]
  unfold makeCreateFrameS
  split
  · exact tot_pure ⟨⟨h, Grows.refl _, Nat.le_refl _, fun f hf => nomatch hf⟩, fun f hf => nomatch hf⟩
  · refine tot_bind (tot_loadAccount h i.caller) (fun r1 hr1 => ?_)
    obtain ⟨w1, c1⟩ := r1
    dsimp only at hr1
    have l1 : w1.js.journal.length = w.js.journal.length := hr1.1.len
    refine tot_bind (tot_acct hr1.2) (fun cacc _ => ?_)
    split
    · exact tot_pure ⟨⟨hr1.1.ok, hr1.1.grows, by show _ ≤ w1.js.journal.length; omega, fun f hf => nomatch hf⟩,
        fun f hf => nomatch hf⟩
    · obtain ⟨s', r, h2, g', gr, hl⟩ := Proofs.Frame.incNonce_good hr1.1.ok.dbal hr1.1.ok.good hr1.2
      rw [h2]
      have hw2 : WOk { w1 with js := s' } := wok_js hr1.1.ok g'
      have g02 : Grows w.js s' := hr1.1.grows.trans gr
      cases r with
      | none =>
        exact tot_pure ⟨⟨hw2, g02, by show _ ≤ s'.journal.length; omega, fun f hf => nomatch hf⟩,
          fun f hf => nomatch hf⟩
      | some newNonce =>
        refine tot_mono (tot_createTail hw2 cfg i mem _ (gr.acct _ hr1.2)) (fun r hr => ?_)
        refine ⟨⟨hr.1.ok, g02.trans hr.1.grows, ?_, fun f hf => ?_⟩, hr.2⟩
        · have := hr.1.len
          show w.js.journal.length ≤ r.2.js.journal.length
          have e : ({ w1 with js := s' } : World).js.journal.length = s'.journal.length := rfl
          omega
        · have := hr.1.cp f hf
          have e : ({ w1 with js := s' } : World).js.journal.length = s'.journal.length := rfl
          omega

theorem tot_createReturn {w : World} (h : WOk w) (cfg : Cfg) (cp : Journal.Checkpoint) (a : Nat)
    (r : Interp.ChildResult) (h1 : 1 ≤ cp.journalI) (hlt : cp.journalI < w.js.journal.length)
    (ha : (w.js.state a).isSome) :
    Tot (createReturn journalOps cfg w cp a r) (fun p => WOk p.2 ∧ Grows w.js p.2.js ∧
      cp.journalI ≤ p.2.js.journal.length ∧ p.2.js.journal.length ≤ w.js.journal.length) := by
  have hrev : ∀ x : Interp.ChildResult, Tot (do
      let w ← journalOps.revert w cp
      pure (x, w) : R (Interp.ChildResult × World)) (fun p => WOk p.2 ∧ Grows w.js p.2.js ∧
        cp.journalI ≤ p.2.js.journal.length ∧ p.2.js.journal.length ≤ w.js.journal.length) := by
    intro x
    refine tot_bind (tot_revert h cp h1 (by omega)) (fun w1 h1' => ?_)
    refine tot_pure ⟨h1'.1, h1'.2.1, ?_, ?_⟩
    · show cp.journalI ≤ w1.js.journal.length; omega
    · show w1.js.journal.length ≤ _; omega
  have htail : ∀ (y : Interp.ChildResult) (hash : Nat) (out : List Nat), Tot (do
      let w2 ← journalOps.setCode (journalOps.commit w) a hash
      pure (y, w2.addCode hash out) : R (Interp.ChildResult × World)) (fun p => WOk p.2 ∧ Grows w.js p.2.js ∧
        cp.journalI ≤ p.2.js.journal.length ∧ p.2.js.journal.length ≤ w.js.journal.length) := by
    intro y hash out
    have hc := ws_commit h
    refine tot_bind (tot_setCode hc.ok a hash (hc.grows.acct _ ha)) (fun w2 h2 => ?_)
    have e1 : (w2.addCode hash out).js = w2.js := addCode_js _ _ _
    refine tot_pure ⟨⟨by rw [e1]; exact h2.ok.good, ?_⟩, by rw [e1]; exact hc.grows.trans h2.grows, ?_, ?_⟩
    · intro x
      have hb : (w2.addCode hash out).db.basic = w2.db.basic := by
        unfold World.addCode
        split
        · rfl
        · split <;> rfl
      show ((((w2.addCode hash out).db.basic x).getD Journal.Info.default).balance < W)
      rw [hb]; exact h2.ok.dbal x
    · show cp.journalI ≤ (w2.addCode hash out).js.journal.length
      rw [e1, h2.len, hc.len]; omega
    · show (w2.addCode hash out).js.journal.length ≤ _
      rw [e1, h2.len, hc.len]; exact Nat.le_refl _
  unfold createReturn
  simp only [pure, Except.pure]
  split
  · exact hrev _
  · split
    · exact hrev _
    · split
      · exact hrev _
      · by_cases hg : U64ops.wmul r.output.length CODEDEPOSIT ≤ r.gasRemaining
        · simp only [hg, if_true]
          split
          · exact hrev _
          · exact htail _ _ _
        · simp only [hg, if_false, if_true]
          split
          · exact hrev _
          · exact htail _ _ _

end Revm.Proofs.EvmLink
