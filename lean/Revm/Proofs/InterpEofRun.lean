import Revm.Proofs.InterpEofCall
import Revm.Proofs.InterpRun
/-! C25, EOF part 5: every instruction of a well-formed container keeps `InvE`; the loop theorems for EOF code. -/
set_option linter.unusedSimpArgs false
set_option linter.unusedVariables false
namespace Revm.Proofs.Interp
open Revm Revm.Model Revm.Model.Interp
open Revm.Proofs.Memory (WF)

theorem targetOk_elim {B : List Nat} {t : Int} (h : targetOk B t = true) : 0 ≤ t ∧ t.toNat ∈ B := by
  unfold targetOk at h
  simp only [Bool.and_eq_true, decide_eq_true_eq, List.contains_iff_mem] at h
  exact h

theorem u64_big : 258 ≤ U64 - 2 := by unfold U64; omega

section instr
variable {K : EofCtx} {s0 : IState} {c : EofCtx} {sec : List Nat} {i : Nat}

/-- ordinary instructions after which execution never continues: no `ok` result at all -/
theorem execTerm_sat (hb : Base s0) (I : Instr) (m : M Unit) (hm : execPure I = some m) (ho : isOrd I = true)
    (ht : terminating I = true) {Q : Unit → IState → Prop} : Exec.Sat (m s0) (Halt s0) Q := by
  have h := hb.rel
  cases I <;> (try (simp only [isOrd, Bool.false_eq_true] at ho)) <;>
    (try (simp only [terminating, Bool.false_eq_true] at ht)) <;>
    (try (simp only [execPure, Option.some.injEq, reduceCtorEq] at hm)) <;> (try subst hm)
  case stop => exact haltWith_sat h _
  case invalid => exact haltWith_sat h _
  case unknown => exact haltWith_sat h _
  case ret => exact returnInner_sat h _
  case revert => exact revertI_sat h

theorem ord_len (I : Instr) (ho : isOrd I = true) (sec : List Nat) (i : Nat) : instrLenOf I sec i = 1 := by
  cases I <;> (try (simp only [isOrd, Bool.false_eq_true] at ho)) <;> rfl

theorem ord_pure (I : Instr) (ho : isOrd I = true) : ∃ m, execPure I = some m := by
  cases I <;> (try (simp only [isOrd, Bool.false_eq_true] at ho)) <;> exact ⟨_, rfl⟩

theorem pureE {m : M Unit} (h : Exec.Sat (m s0) (Halt s0) (fun _ s' => NextE K s0 s')) :
    GoodP (Halt s0) (NextE K s0) (ActE K s0) (.pure (m s0).toDone) :=
  .pure (toDoneP (fun _ hq => hq) h)

theorem pureT (hs : StartE K s0 c sec i) {m : M Unit}
    (h : Exec.Sat (m s0) (Halt s0) (fun _ s' => DoneT (· ∈ boundaries sec) s0 s')) :
    GoodP (Halt s0) (NextE K s0) (ActE K s0) (.pure (m s0).toDone) :=
  pureE (sat_mono h (fun _ _ hq => hs.nextT hq))

theorem pure1 (hs : StartE K s0 c sec i) (hn : i + 1 ∈ boundaries sec) {m : M Unit}
    (h : Exec.Sat (m s0) (Halt s0) (fun _ s' => Done1 s0 s')) :
    GoodP (Halt s0) (NextE K s0) (ActE K s0) (.pure (m s0).toDone) :=
  pureE (sat_mono h (fun _ _ hq => hs.next1 hn hq))

/-- one instruction at an instruction boundary of a well-formed container -/
theorem execInstrE_good (hs : StartE K s0 c sec i) (I : Instr) (hI : decode (sec.getD i 0) = I) :
    GoodP (Halt s0) (NextE K s0) (ActE K s0) (execInstr I s0) := by
  obtain ⟨himm, hnext, hspec⟩ := instrOk_parts hI hs.instrOk
  have hb := hs.toBase
  have h := hs.rel
  have hE := hs.isEof
  have hpc := hs.pc
  have hcode := hs.code
  by_cases ho : isOrd I = true
  · obtain ⟨m, hp⟩ := ord_pure I ho
    have he : execInstr I s0 = .pure (m s0).toDone := by unfold execInstr; rw [hp]
    rw [he]
    rcases hnext with ht | hn
    · exact pureE (execTerm_sat hb I m hp ho ht)
    · rw [ord_len I ho] at hn
      exact pure1 hs hn (execOrd_sat hb I m hp ho)
  · have hN1 : i + 1 ∈ boundaries sec → ∀ s', Done1 s0 s' → NextE K s0 s' := fun hn _ hd => hs.next1 hn hd
    have hA1 : i + 1 ∈ boundaries sec → ∀ a s', ActRel s0 a s' → ActE K s0 a s' := fun hn _ _ hd => hs.act hn hd
    cases I <;> (try (simp only [isOrd, not_true_eq_false] at ho)) <;>
      (try (simp only [terminating, Bool.false_eq_true, false_or] at hnext)) <;>
      (try (simp only [instrLenOf] at hnext)) <;> (try (simp only [instrLenOf] at himm))
    case eofcreate =>
      have hsp : (match c.containers[sec.getD (i + 1) 0]? with
          | some sub => subcontainerOk sub
          | none => false) = true := hspec
      cases hsub : c.containers[sec.getD (i + 1) 0]? with
      | none => rw [hsub] at hsp; cases hsp
      | some sub =>
        rw [hsub] at hsp
        exact eofcreateI_good hs himm hnext hsub hsp
    case extcall => exact extcallI_good hb hE (hN1 hnext) (hA1 hnext)
    case extdelegatecall => exact extdelegatecallI_good hb hE (hN1 hnext) (hA1 hnext)
    case extstaticcall => exact extstaticcallI_good hb hE (hN1 hnext) (hA1 hnext)
    case rjump =>
      obtain ⟨t0, tB⟩ := targetOk_elim (t := (i : Int) + 3 + i16At sec (i + 1)) hspec
      refine pureT hs (m := rjumpI) (rjumpI_sat h hE ?_ ?_ ?_)
      · rw [hpc, hcode]; omega
      · rw [hpc, hcode]; generalize i16At sec (i + 1) = x at t0 ⊢; omega
      · rw [hpc, hcode]
        generalize i16At sec (i + 1) = x at t0 tB ⊢
        have e : ((i + 1 : Nat) : Int) + (x + 2) = (i : Int) + 3 + x := by omega
        rw [e]; exact tB
    case rjumpi =>
      obtain ⟨t0, tB⟩ := targetOk_elim (t := (i : Int) + 3 + i16At sec (i + 1)) hspec
      refine pureT hs (m := rjumpiI) (rjumpiI_sat h hE ?_ ?_ ?_ ?_)
      · rw [hpc, hcode]; omega
      · rw [hpc, hcode]; generalize i16At sec (i + 1) = x at t0 ⊢; omega
      · rw [hpc, hcode]
        generalize i16At sec (i + 1) = x at t0 tB ⊢
        have e : ((i + 1 : Nat) : Int) + (2 + x) = (i : Int) + 3 + x := by omega
        rw [e]; exact tB
      · rw [hpc]
        have e : i + 1 + 2 = i + 3 := by omega
        rw [e]; exact hnext
    case rjumpv =>
      have hall : ∀ k, k < sec.getD (i + 1) 0 + 1 →
          targetOk (boundaries sec) (((i + (4 + 2 * sec.getD (i + 1) 0) : Nat) : Int)
            + i16At sec (i + 2 + 2 * k)) = true := by
        have hsp : ((List.range (sec.getD (i + 1) 0 + 1)).all fun k =>
          targetOk (boundaries sec) (((i + (4 + 2 * sec.getD (i + 1) 0) : Nat) : Int)
            + i16At sec (i + 2 + 2 * k))) = true := hspec
        intro k hk
        exact (List.all_eq_true.mp hsp) k (List.mem_range.mpr hk)
      refine pureT hs (m := rjumpvI) (rjumpvI_sat h hE ?_ ?_ ?_)
      · rw [hpc, hcode]; omega
      · rw [hpc, hcode]
        intro j hj
        obtain ⟨t0, tB⟩ := targetOk_elim (hall j (by omega))
        have ei : i + 1 + (1 + j * 2) = i + 2 + 2 * j := by omega
        rw [ei]
        generalize i16At sec (i + 2 + 2 * j) = x at t0 tB ⊢
        generalize sec.getD (i + 1) 0 = n at t0 tB ⊢
        have e : ((i + 1 : Nat) : Int) + ((((n + 1) * 2 + 1 : Nat) : Int) + x)
            = ((i + (4 + 2 * n) : Nat) : Int) + x := by omega
        rw [e]; exact ⟨t0, tB⟩
      · rw [hpc, hcode]
        have e : i + 1 + ((sec.getD (i + 1) 0 + 1) * 2 + 1) = i + (4 + 2 * sec.getD (i + 1) 0) := by omega
        rw [e]; exact hnext
    case callf =>
      have hidx : u16At sec (i + 1) < c.types.length := of_decide_eq_true hspec
      exact pureE (m := callfI) (callfI_sat hs himm hnext hidx)
    case retf => exact pureE (m := retfI) (retfI_sat hs hspec)
    case jumpf =>
      have hsp : (decide (u16At sec (i + 1) < c.types.length) &&
        (!(returning (typeOf c.types (u16At sec (i + 1)))) || returning (typeOf c.types c.curIdx))) = true := hspec
      simp only [Bool.and_eq_true, decide_eq_true_eq, Bool.or_eq_true, Bool.not_eq_true'] at hsp
      refine pureE (m := jumpfI) (jumpfI_sat hs himm hsp.1 ?_)
      intro hr
      rcases hsp.2 with h1 | h1
      · rw [hr] at h1; cases h1
      · exact h1
    case dupn =>
      refine pureT hs (m := dupnI) (dupnI_sat h hE ?_ ?_)
      · rw [hpc, hcode]; omega
      · rw [hpc]; exact hnext
    case swapn =>
      refine pureT hs (m := swapnI) (swapnI_sat h hE ?_ ?_ ?_)
      · rw [hpc, hcode]; omega
      · rw [hpc, hcode]
        have := byte_lt_of_mem hs.bytes (i + 1)
        have := u64_big
        omega
      · rw [hpc]; exact hnext
    case exchange =>
      refine pureT hs (m := exchangeI) (exchangeI_sat h hE ?_ ?_ ?_)
      · rw [hpc, hcode]; omega
      · rw [hpc, hcode]
        have := byte_lt_of_mem hs.bytes (i + 1)
        have := u64_big
        omega
      · rw [hpc]; exact hnext
    case dataload => exact pure1 hs hnext (m := dataloadI) (dataloadI_sat h hE hs.eof)
    case dataloadn =>
      refine pureT hs (m := dataloadnI) (dataloadnI_sat h hE hs.eof ?_ ?_)
      · rw [hpc, hcode]; omega
      · rw [hpc]
        have e : i + 1 + 2 = i + 3 := by omega
        rw [e]; exact hnext
    case datasize => exact pure1 hs hnext (m := datasizeI) (datasizeI_sat h hE hs.eof)
    case datacopy => exact pure1 hs hnext (m := datacopyI) (datacopyI_sat h hE hs.eof hs.ok.wf.dataLen)
    case returndataload => exact pure1 hs hnext (m := returndataloadI) (returndataloadI_sat h hE)
    case returnContract =>
      have hsp : (match c.containers[sec.getD (i + 1) 0]? with
          | some sub =>
            (match headerOf sub with
             | some hd => decide (hd.dataSizeRawI + 2 ≤ sub.length)
             | none => false)
          | none => false) = true := hspec
      cases hsub : c.containers[sec.getD (i + 1) 0]? with
      | none => rw [hsub] at hsp; cases hsp
      | some sub =>
        rw [hsub] at hsp
        simp only [] at hsp
        cases hh : headerOf sub with
        | none => rw [hh] at hsp; cases hsp
        | some hd =>
          rw [hh] at hsp
          exact pureE (m := returnContractI) (returnContractI_sat hs himm hsub hh (of_decide_eq_true hsp))
    case keccak256 => exact keccak256I_good hb (hN1 hnext)
    case codesize => cases hspec
    case codecopy => cases hspec
    case push n =>
      refine pureT hs (m := pushI (n.val + 1)) (pushI_satT h (n.val + 1) ?_ ?_)
      · rw [hpc, hcode]; omega
      · rw [hpc]
        have e : i + 1 + (n.val + 1) = i + (n.val + 2) := by omega
        rw [e]; exact hnext
    case jump => exact pureE (m := jumpI) (jumpI_halts h hs.jt)
    case jumpi => exact pure1 hs hnext (m := jumpiI) (jumpiI_satE h hs.jt)
    case balance => exact balanceI_good hb (hN1 hnext)
    case selfbalance => exact selfbalanceI_good hb (hN1 hnext)
    case extcodesize => exact extcodesizeI_good hb (hN1 hnext)
    case extcodehash => exact extcodehashI_good hb (hN1 hnext)
    case extcodecopy => exact extcodecopyI_good hb (hN1 hnext)
    case blockhash => exact blockhashI_good hb (hN1 hnext)
    case sload => exact sloadI_good hb (hN1 hnext)
    case sstore => exact sstoreI_good hb (hN1 hnext)
    case tload => exact tloadI_good hb (hN1 hnext)
    case tstore => exact tstoreI_good hb (hN1 hnext)
    case log n => exact logI_good hb (hN1 hnext) n.val
    case selfdestruct => exact selfdestructI_good hb (hN1 hnext)
    case create c2 => exact .pure (toDoneActionP (hA1 hnext) (createI_sat hb c2))
    case call => exact callI_good hb (hA1 hnext)
    case callcode => exact callcodeI_good hb (hA1 hnext)
    case delegatecall => exact delegatecallI_good hb (hA1 hnext)
    case staticcall => exact staticcallI_good hb (hA1 hnext)

end instr

/-! ## the loop -/

theorem InvE.start {K : EofCtx} {s : IState} (hi : InvE K s) {c : EofCtx} {sec : List Nat} (he : s.eof = some c) (hok : CtxOk c)
    (hsec : c.sections[c.curIdx]? = some sec) (hcode : s.code = sec) (hpc : s.pc ∈ boundaries sec) :
    StartE K { s with pc := s.pc + 1 } c sec s.pc :=
  { toBase := { hi.toBase with }
    isEof := hi.isEof, jt := hi.jt, eof := he, ok := hok, hsec := hsec, code := hcode, bdry := hpc, pc := rfl,
    static := hi.static c he }

theorem stepOkE_of_doneGood {K : EofCtx} {s : IState} {d : Done}
    (hd : DoneGoodP (Halt { s with pc := s.pc + 1 }) (NextE K { s with pc := s.pc + 1 })
      (ActE K { s with pc := s.pc + 1 }) d) : StepOkP (InvE K) s d := by
  have hmeq : measure { s with pc := s.pc + 1 } = measure s := rfl
  cases hd with
  | next hn =>
    refine .next hn.1 ?_
    have := hn.2; rw [hmeq] at this; exact this
  | action hn =>
    refine .action hn.1 ?_ hn.2.2
    have := hn.2.1; rw [hmeq] at this; exact this
  | halt hn =>
    have h2 := hn.meas
    rw [hmeq, Nat.add_zero] at h2
    exact .halt h2

/-- one instruction of a well-formed EOF container: never a fault, `InvE` is kept, at least 1 gas is consumed when
the frame continues -/
theorem stepE_good (K : EofCtx) : StepInv (InvE K) := by
  intro s hi
  have hpc := hi.pc_lt
  obtain ⟨c, sec, he, hok, hsec, hcode, hb⟩ := hi.ctx
  rw [step_eq hpc]
  have hs := hi.start he hok hsec hcode hb
  have hI : decode (sec.getD s.pc 0) = decode s.code[s.pc] := by
    congr 1
    rw [List.getD_eq_getElem?_getD, ← hcode, List.getElem?_eq_getElem hpc]; rfl
  have hg := execInstrE_good hs _ hI
  generalize execInstr (decode s.code[s.pc]) { s with pc := s.pc + 1 } = o at hg ⊢
  cases hg with
  | pure hd => exact .pure (stepOkE_of_doneGood hd)
  | host hk => exact .host (fun r hr => stepOkE_of_doneGood (hk r hr))

theorem runE_safe (K : EofCtx) {η : Type} (o : Oracle η) (ho : OracleOk o) :
    ∀ (fuel : Nat) (s : IState) (h : η), InvE K s → RunSafe fuel s (run o fuel s h).1 :=
  run_safeP (invE_loop K) (stepE_good K) o ho

theorem reachE_inv (K : EofCtx) {η : Type} (o : Oracle η) (ho : OracleOk o) {s0 : IState} {h0 : η}
    (hi0 : InvE K s0) {s : IState} {h : η} (hr : Reach o s0 h0 s h) : InvE K s ∧ measure s ≤ measure s0 :=
  reach_invP (invE_loop K) (stepE_good K) o ho hi0 hr

end Revm.Proofs.Interp
