import Revm.Proofs.EvmLinkStatic
/-! LINK, static mode (C10), part 2: the host instructions and the call family of `Model.Interp` in a static frame, and
`Interp.step`. -/
set_option linter.unusedSimpArgs false
namespace Revm.Proofs.EvmLink
open Revm Revm.Model Revm.Model.Interp

theorem toDone_static (e : Exec Unit) : StaticDone e.toDone := by
  cases e with
  | ok a s => exact .next
  | halt r o s => exact .halt
  | fault f => exact .fault

/-- inversion of a bind in the handler monad -/
theorem m_bind_ok {α β} {m : M α} {f : α → M β} {s s' : IState} {x : β} (h : (m >>= f) s = .ok x s') :
    ∃ a s1, m s = .ok a s1 ∧ f a s1 = .ok x s' := by
  change M.bind m f s = .ok x s' at h
  unfold M.bind at h
  cases hm : m s with
  | ok a s1 => rw [hm] at h; exact ⟨a, s1, rfl, h⟩
  | halt r o s1 => rw [hm] at h; cases h
  | fault f => rw [hm] at h; cases h

theorem m_pure_ok {α} {a x : α} {s s' : IState} (h : (pure a : M α) s = .ok x s') : x = a ∧ s' = s := by
  change M.pure a s = .ok x s' at h
  unfold M.pure at h
  cases h; exact ⟨rfl, rfl⟩

/-- a `hostCall` whose question, whenever the prologue gets that far, is not a mutation -/
theorem hostCall_static {β} {pre : M (HostOp × β)} {post : β → HostResp → M Unit} {s : IState}
    (hpre : ∀ op b s', pre s = .ok (op, b) s' → mutating op = false) : StaticOutcome (hostCall pre post s) := by
  unfold hostCall
  cases hp : pre s with
  | ok p s' =>
    obtain ⟨op, b⟩ := p
    exact .host (hpre op b s' hp) (fun r => toDone_static _)
  | halt r o s' => exact .pure .halt
  | fault f => exact .pure .fault

/-- a prologue that halts in a static frame never asks -/
theorem hostCall_halts {β} {pre : M (HostOp × β)} {post : β → HostResp → M Unit} {s : IState}
    (hpre : KS true (fun _ => False) (pre s)) : StaticOutcome (hostCall pre post s) :=
  hostCall_static fun op b s' hp => by rw [hp] at hpre; cases hpre with | ok _ hq => exact False.elim hq

theorem ks_requireNonStatic {s : IState} (hs : s.isStatic = true) {Q : Unit → Prop} :
    KS true Q (requireNonStatic s) := by
  unfold requireNonStatic; rw [hs]; exact .halt

/-! ## the reading instructions -/

theorem balanceI_static (s : IState) : StaticOutcome (balanceI s) := by
  unfold balanceI
  refine hostCall_static fun op b s' h => ?_
  obtain ⟨a, s1, _, h⟩ := m_bind_ok h
  obtain ⟨hx, _⟩ := m_pure_ok h
  cases hx; rfl

theorem selfbalanceI_static (s : IState) : StaticOutcome (selfbalanceI s) := by
  unfold selfbalanceI
  refine hostCall_static fun op b s' h => ?_
  obtain ⟨_, s1, _, h⟩ := m_bind_ok h
  obtain ⟨_, s2, _, h⟩ := m_bind_ok h
  obtain ⟨x, s3, _, h⟩ := m_bind_ok h
  obtain ⟨hx, _⟩ := m_pure_ok h
  cases hx; rfl

theorem extcodesizeI_static (s : IState) : StaticOutcome (extcodesizeI s) := by
  unfold extcodesizeI
  refine hostCall_static fun op b s' h => ?_
  obtain ⟨a, s1, _, h⟩ := m_bind_ok h
  obtain ⟨hx, _⟩ := m_pure_ok h
  cases hx; rfl

theorem extcodehashI_static (s : IState) : StaticOutcome (extcodehashI s) := by
  unfold extcodehashI
  refine hostCall_static fun op b s' h => ?_
  obtain ⟨_, s1, _, h⟩ := m_bind_ok h
  obtain ⟨a, s2, _, h⟩ := m_bind_ok h
  obtain ⟨hx, _⟩ := m_pure_ok h
  cases hx; rfl

theorem extcodecopyI_static (s : IState) : StaticOutcome (extcodecopyI s) := by
  unfold extcodecopyI
  refine hostCall_static fun op b s' h => ?_
  obtain ⟨a, s1, _, h⟩ := m_bind_ok h
  obtain ⟨args, s2, _, h⟩ := m_bind_ok h
  obtain ⟨hx, _⟩ := m_pure_ok h
  cases hx; rfl

theorem blockhashI_static (s : IState) : StaticOutcome (blockhashI s) := by
  unfold blockhashI
  refine hostCall_static fun op b s' h => ?_
  obtain ⟨_, s1, _, h⟩ := m_bind_ok h
  obtain ⟨n, s2, _, h⟩ := m_bind_ok h
  obtain ⟨hx, _⟩ := m_pure_ok h
  cases hx; rfl

theorem sloadI_static (s : IState) : StaticOutcome (sloadI s) := by
  unfold sloadI
  refine hostCall_static fun op b s' h => ?_
  obtain ⟨idx, s1, _, h⟩ := m_bind_ok h
  obtain ⟨x, s2, _, h⟩ := m_bind_ok h
  obtain ⟨hx, _⟩ := m_pure_ok h
  cases hx; rfl

theorem tloadI_static (s : IState) : StaticOutcome (tloadI s) := by
  unfold tloadI
  refine hostCall_static fun op b s' h => ?_
  obtain ⟨_, s1, _, h⟩ := m_bind_ok h
  obtain ⟨_, s2, _, h⟩ := m_bind_ok h
  obtain ⟨idx, s3, _, h⟩ := m_bind_ok h
  obtain ⟨x, s4, _, h⟩ := m_bind_ok h
  obtain ⟨hx, _⟩ := m_pure_ok h
  cases hx; rfl

theorem keccak256I_static (s : IState) : StaticOutcome (keccak256I s) := by
  unfold keccak256I
  cases keccakPre s with
  | ok d s' =>
    cases d with
    | none => exact .pure (toDone_static _)
    | some data => exact .host rfl (fun r => toDone_static _)
  | halt r o s' => exact .pure .halt
  | fault f => exact .pure .fault

/-! ## the mutating instructions: `require_non_staticcall!` stops them -/

theorem sstoreI_static (s : IState) (hs : s.isStatic = true) : StaticOutcome (sstoreI s) := by
  unfold sstoreI
  exact hostCall_halts (ks_bind (ks_requireNonStatic hs) fun _ _ _ hq => False.elim hq)

theorem tstoreI_static (s : IState) (hs : s.isStatic = true) : StaticOutcome (tstoreI s) := by
  unfold tstoreI
  refine hostCall_halts (ks_bind (ks_check hs _) fun _ s1 h1 _ => ?_)
  exact ks_bind (ks_requireNonStatic h1) fun _ _ _ hq => False.elim hq

theorem logI_static (n : Nat) (s : IState) (hs : s.isStatic = true) : StaticOutcome (logI n s) := by
  unfold logI
  exact hostCall_halts (ks_bind (ks_requireNonStatic hs) fun _ _ _ hq => False.elim hq)

theorem selfdestructI_static (s : IState) (hs : s.isStatic = true) : StaticOutcome (selfdestructI s) := by
  unfold selfdestructI
  exact hostCall_halts (ks_bind (ks_requireNonStatic hs) fun _ _ _ hq => False.elim hq)

theorem createI_static (c2 : Bool) (s : IState) (hs : s.isStatic = true) :
    StaticOutcome (.pure (createI c2 s).toDoneAction) := by
  have h : KS true (fun _ => False) (createI c2 s) := by
    unfold createI
    exact ks_bind (ks_requireNonStatic hs) fun _ _ _ hq => False.elim hq
  generalize createI c2 s = e at h
  cases h with
  | ok _ hq => exact False.elim hq
  | halt => exact .pure .halt
  | fault => exact .pure .fault

end Revm.Proofs.EvmLink
