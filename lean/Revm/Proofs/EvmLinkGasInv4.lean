import Revm.Proofs.EvmLinkGasInv3
import Revm.Proofs.EvmLinkPay
/-! LINK, frame accounting, part 10: **`FrameAccounting` holds** — the first frame of every `Evm.transact` gives back
at most `gas_limit − initial_gas` — and the C09 corollaries without that hypothesis. -/
set_option linter.unusedSimpArgs false
set_option linter.unusedVariables false
namespace Revm.Proofs.EvmLink
open Revm Revm.Model Revm.Model.Evm

/-- what `prepare` hands to the loop: a frame whose meter is `Gas::new(gas_limit − initial_gas)`, or an immediate
result within that limit -/
theorem prepare_gas {e : Evm.Env} {spec ig : Nat} {w w2 : World} {first : FrameOrResult Journal.Checkpoint}
    {isCreate : Bool} {k : Nat} (h : prepare journalOps e spec ig w = .ok (first, w2, isCreate, k)) :
    (∀ r, first = .result r → r.gasRemaining ≤ U64ops.wsub e.tx.gasLimit ig) ∧
    (∀ f, first = .frame f → f.interp.gas = Gas.new (U64ops.wsub e.tx.gasLimit ig)) := by
  unfold prepare at h
  obtain ⟨wd, _, h⟩ := bind_ok h
  obtain ⟨⟨wa, rf⟩, _, h⟩ := bind_ok h
  simp only at h
  split at h
  · obtain ⟨⟨f, wf⟩, hmk, h⟩ := bind_ok h
    simp only [pure, Except.pure, Except.ok.injEq, Prod.mk.injEq] at h
    obtain ⟨rfl, _⟩ := h
    obtain ⟨x, y⟩ := makeCallFrame_gas hmk
    exact ⟨x, fun f hf => (y f hf).1⟩
  · obtain ⟨⟨f, wf⟩, hmk, h⟩ := bind_ok h
    simp only [pure, Except.pure, Except.ok.injEq, Prod.mk.injEq] at h
    obtain ⟨rfl, _⟩ := h
    obtain ⟨x, y⟩ := makeCreateFrame_gas hmk
    exact ⟨x, fun f hf => (y f hf).1⟩

/-- **THE FRAME MACHINE'S GUARANTEE, PROVED**: for every world, transaction, fork and fuel, the first frame of
`Evm.transact` gives back at most the gas it was given, `gas_limit − initial_gas` -/
theorem frameAccounting (fuel : Nat) (w : World) (e : Evm.Env) (spec : Nat) : FrameAccounting fuel w e spec := by
  intro ig fg k res w3 hff
  obtain ⟨w1, first, w2, isCreate, hp, hpr, hrf⟩ := hff
  obtain ⟨_, _, hig, _, _⟩ := preverify_some_inv w w1 e _ ig fg hp
  have hgl : U64ops.wsub e.tx.gasLimit ig ≤ e.tx.gasLimit - ig := by
    have := wsub_le' e.tx.gasLimit ig hig; omega
  obtain ⟨hr, hf⟩ := prepare_gas hpr
  cases first with
  | result r =>
    simp only [runFirst, pure, Except.pure, Except.ok.injEq, Prod.mk.injEq] at hrf
    rw [← hrf.1]
    exact Nat.le_trans (hr r rfl) hgl
  | frame f =>
    have hg := hf f rfl
    have := runLoop_gas (f := f) (by show f.interp.gas.remaining ≤ f.interp.gas.limit; rw [hg]; exact Nat.le_refl _) hrf
    have hl : limOf f = U64ops.wsub e.tx.gasLimit ig := by show f.interp.gas.limit = _; rw [hg]; rfl
    omega

end Revm.Proofs.EvmLink
