import Revm.Proofs.EvmLinkInterp2
/-! LINK, the interpreter side of panic-freedom, part 3: **`run_the_loop`, for every fuel, ends in a result on a
well-formed world, a soft failure or "out of fuel"** — never an interpreter fault, a fault of an
outcome insertion or a failing `free_context` — from a stack that satisfies the invariants: `LI` (EvmLinkTotal3), `SI`
(C25's invariant per frame, part 2), targets loaded (L3 `EvmInstLoaded.Inv`), journal depth = stack length ≤ 1025
(C07 `LoopInv`). -/
set_option linter.unusedSimpArgs false
set_option linter.unusedVariables false
namespace Revm.Proofs.EvmLink
open Revm Revm.Model Revm.Model.Evm
open Revm.Proofs.Memory (WF)

local notation "ISZ" => Memory.ISIZE_MAX

theorem tot3_runLoop (mf : MF) (cfg : Cfg) (henv : Revm.Proofs.Interp.EnvOk cfg.spec cfg.env) : ∀ fuel : Nat,
    (∀ stack w, stack ≠ [] → LI stack w → SI stack w → Proofs.EvmInstLoaded.Inv stack w → LoopInv stack w →
      Tot3 (runLoop journalOps cfg fuel stack w) (fun p => WOk p.2 ∧ RGood p.1.result)) ∧
    (∀ top rest r out s w, LI (top :: rest) w → RGood r → HT s top.kind rest out → StoreOk w →
      Proofs.EvmInstLoaded.Inv rest w → LoopInv (top :: rest) w →
      Tot3 (runEnded journalOps cfg fuel top rest r out s w) (fun p => WOk p.2 ∧ RGood p.1.result)) := by
  intro fuel
  induction fuel with
  | zero =>
    refine ⟨fun stack w _ _ _ _ _ => ?_, fun top rest r out s w _ _ _ _ _ _ => ?_⟩
    · unfold runLoop; exact tot3_resid rfl
    · unfold runEnded; exact tot3_resid rfl
  | succ n ih =>
    refine ⟨fun stack w hne h hsi hi hd => ?_, fun top rest r out s w h hrg ht hc hi hd => ?_⟩
    · unfold runLoop
      refine tot3_bind' (tot3_iterate mf henv hne h hsi hi hd.2.2) (fun nx heq hnx => ?_)
      have hin := Proofs.EvmInstLoaded.iterate_inv heq hi
      have hdn := iterate_inv hd heq
      cases nx with
      | run st w' =>
        cases hdn with
        | run hd' => exact ih.1 st w' hnx.1 hnx.2.1 hnx.2.2 hin hd'
      | ended t rest r out s w' =>
        cases hdn with
        | ended hd' => exact ih.2 t rest r out s w' hnx.1 hnx.2.1 hnx.2.2.1 hnx.2.2.2 hin hd'
      | done r w' => exact tot3_pure hnx
    · unfold runEnded
      refine tot3_bind' (tot3_frameEnd mf h hrg ht hc) (fun nx heq hnx => ?_)
      have hin := Proofs.EvmInstLoaded.frameEnd_inv heq hi
      have hdn := frameEnd_inv hd heq
      cases nx with
      | run st w' =>
        cases hdn with
        | run hd' => exact ih.1 st w' hnx.1 hnx.2.1 hnx.2.2 hin hd'
      | ended t rest r out s w' =>
        cases hdn with
        | ended hd' => exact ih.2 t rest r out s w' hnx.1 hnx.2.1 hnx.2.2.1 hnx.2.2.2 hin hd'
      | done r w' => exact tot3_pure hnx

end Revm.Proofs.EvmLink
