import Revm.Proofs.EvmLinkInterp5
/-! LINK, the interpreter side of panic-freedom, part 6: the handler around the loop once more (`EvmLinkTotal4`), with
the smaller residual class `Resid3` (these functions never produced an interpreter-side panic: their proofs are the ones
of `EvmLinkTotal4`, over `Tot3`). -/
set_option linter.unusedSimpArgs false
set_option linter.unusedVariables false
namespace Revm.Proofs.EvmLink
open Revm Revm.Model Revm.Model.Evm
open Revm.Proofs.Frame (Good DbBal)
open Revm.Proofs.Journal (Grows)

theorem tot3_deductCaller {w : World} (h : WOk w) (e : Evm.Env) (spec : Nat)
    (hfee : GasCalc.enabled spec GasCalc.SpecId.CANCUN = true → e.block.blobGasPrice.isSome) :
    Tot3 (deductCaller e spec w) (fun w1 => WS w w1) := by
  unfold deductCaller
  refine tot3_bind (tot3_of_tot (tot_loadAccount h _)) (fun r hr => ?_)
  obtain ⟨w1, c⟩ := r
  dsimp only at hr ⊢
  refine tot3_bind (tot3_of_tot (tot_acct hr.2)) (fun acc hacc => ?_)
  refine tot3_bind (P := fun _ => True) ?_ (fun gc _ => ?_)
  · split
    · rename_i hc
      unfold Evm.Env.calcDataFee
      obtain ⟨p, hp⟩ := Proofs.Journal.isSome_cases (hfee hc)
      rw [hp]
      exact tot3_pure trivial
    · exact tot3_pure trivial
  · have hb := h.good
    refine tot3_pure (hr.1.trans (wok_setInfo hr.1.ok hacc ?_ ?_))
    · split <;> rfl
    · have := hr.1.ok.good.bal _ _ hacc
      have hle : U256.saturatingSub acc.info.balance gc ≤ acc.info.balance := by
        unfold U256.saturatingSub; omega
      split <;> exact Nat.lt_of_le_of_lt hle this


theorem tot3_applyAuth {w : World} (h : WOk w) (e : Evm.Env) (a : Auth) :
    Tot3 (applyAuth e w a) (fun r => WS w r.1) := by
  unfold applyAuth
  simp only [pure, Except.pure]
  split
  · exact WS.refl h
  · split
    · exact WS.refl h
    · split
      · rename_i authority _
        cases hl : w.loadCode authority with
        | error err => have := tot_loadCode h authority; rw [hl] at this; exact Or.inl this
        | ok r =>
          have hr := (tot_loadCode h authority).ok_inv hl
          obtain ⟨w1, c⟩ := r
          dsimp only at hr
          show Tot3 (w1.acct authority >>= _) _
          refine tot3_bind (tot3_of_tot (tot_acct hr.2)) (fun acc hacc => ?_)
          obtain ⟨hh, hhh⟩ := Proofs.Journal.isSome_cases (w_loadCode_cached hl acc hacc)
          refine tot3_bind (tot3_of_tot (tot_ofOpt (P := fun _ => True) hhh trivial)) (fun _ _ => ?_)
          refine tot3_bind (tot3_of_tot (tot_codeOf _)) (fun code _ => ?_)
          split
          · exact hr.1
          · split
            · exact hr.1
            · have hbal := hr.1.ok.good.bal _ _ hacc
              by_cases hz : a.address = 0
              · simp only [hz, if_true]
                exact hr.1.trans (wok_setInfo hr.1.ok hacc rfl hbal)
              · simp only [hz, if_false]
                have h2 := ws_addCode hr.1.ok (Keccak.keccak256w (designator a.address)) (designator a.address)
                have hacc2 : (w1.addCode (Keccak.keccak256w (designator a.address)) (designator a.address)).js.state
                    authority = some acc := by rw [addCode_js]; exact hacc
                exact (hr.1.trans h2).trans (wok_setInfo h2.ok hacc2 rfl hbal)
      · exact WS.refl h


theorem tot3_forIn {α σ : Type} (f : α → σ → R (ForInStep σ)) (Inv : σ → Prop)
    (hf : ∀ a s, Inv s → Tot3 (f a s) (fun st => ∃ s', st = .yield s' ∧ Inv s')) :
    ∀ (l : List α) (s : σ), Inv s → Tot3 (forIn (m := R) l s f) Inv := by
  intro l
  induction l with
  | nil => intro s hs; exact tot3_pure hs
  | cons a l ih =>
    intro s hs
    rw [List.forIn_cons]
    refine tot3_bind (hf a s hs) (fun st hst => ?_)
    obtain ⟨s', rfl, hs'⟩ := hst
    exact ih s' hs'


theorem tot3_applyAuthList {w : World} (h : WOk w) (e : Evm.Env) (spec : Nat) :
    Tot3 (applyAuthList e spec w) (fun r => WS w r.1) := by
  unfold applyAuthList
  split
  · exact tot3_pure (WS.refl h)
  · split
    · rename_i l _
      refine tot3_bind (tot3_forIn _ (fun r : World × Nat => WS w r.1) (fun a r hr => ?_) l (w, 0) (WS.refl h))
        (fun r hr => tot3_pure hr)
      refine tot3_bind (tot3_applyAuth hr.ok e a) (fun p hp => ?_)
      obtain ⟨w', b⟩ := p
      dsimp only at hp ⊢
      split
      · exact tot3_pure ⟨_, rfl, hr.trans hp⟩
      · exact tot3_pure ⟨_, rfl, hr.trans hp⟩
    · exact tot3_pure (WS.refl h)


theorem tot3_preverify {w : World} (h : WOk w) (e : Evm.Env) (spec : Nat) :
    Tot3 (preverify w e spec) (fun o => ∀ p, o = some p → WS w p.1) := by
  unfold preverify
  have hv : Tot3 (validateEnv e spec) (fun _ => True) := by
    rw [validateEnv_link]
    generalize hr : TxValidate.validateEnv spec (tvCfg e) (tvBlock e) (tvTx e) = r
    cases r with
    | ok => exact trivial
    | err x => exact trivial
    | panic => exact absurd hr (tv_validateEnv_ne_panic _ _ _ _)
  refine tot3_bind hv (fun b _ => ?_)
  split
  · exact tot3_pure (fun p hp => nomatch hp)
  · refine tot3_bind (P := fun _ => True) ?_ (fun g _ => ?_)
    · generalize ho : GasCalc.calculateInitialTxGas spec e.tx.data e.tx.to.isNone _ _ = o
      cases o with
      | none => exact absurd ho (initialTxGas_ne_none _ _ _ _ _)
      | some x => exact tot3_pure trivial
    · obtain ⟨ig, fg⟩ := g
      dsimp only
      split
      · exact tot3_pure (fun p hp => nomatch hp)
      · split
        · exact tot3_pure (fun p hp => nomatch hp)
        · cases hl : w.loadCode e.tx.caller with
          | error err => have := tot_loadCode h e.tx.caller; rw [hl] at this; exact Or.inl this
          | ok r =>
            have hr := (tot_loadCode h e.tx.caller).ok_inv hl
            obtain ⟨w1, c⟩ := r
            dsimp only at hr
            show Tot3 (w1.acct e.tx.caller >>= _) _
            refine tot3_bind (tot3_of_tot (tot_acct hr.2)) (fun acc hacc => ?_)
            obtain ⟨hh, hhh⟩ := Proofs.Journal.isSome_cases (w_loadCode_cached hl acc hacc)
            refine tot3_bind (tot3_of_tot (tot_ofOpt (P := fun _ => True) hhh trivial)) (fun _ _ => ?_)
            refine tot3_bind (tot3_of_tot (tot_codeOf _)) (fun code _ => ?_)
            split
            · exact tot3_pure (fun p hp => nomatch hp)
            · exact tot3_pure (fun p hp => by cases hp; exact hr.1)


theorem tot3_finish {w : World} (h : WOk w) (e : Evm.Env) (spec fg r7 : Nat) (ic : Bool) (res : Interp.ChildResult)
    (hres : RGood res.result) : Tot3 (finish e spec fg r7 ic res w) (fun p => WOk p.2) := by
  unfold finish
  generalize finalGas e spec fg r7 res = g
  dsimp only
  refine tot3_bind (tot3_of_tot (tot_loadAccount h _)) (fun r1 hr1 => ?_)
  obtain ⟨w1, c1⟩ := r1
  dsimp only at hr1 ⊢
  refine tot3_bind (tot3_of_tot (tot_acct hr1.2)) (fun cacc hcacc => ?_)
  have hw2 : ∀ acc' : Journal.Acct, acc'.storage = cacc.storage → acc'.info.balance < W →
      WOk { w1 with js := Journal.setAcct w1.js e.tx.caller acc' } :=
    fun acc' h1 h2 => (wok_setInfo hr1.1.ok hcacc h1 h2).ok
  refine tot3_bind (tot3_of_tot (tot_loadAccount ?hw _)) (fun r3 hr3 => ?_)
  case hw => exact hw2 _ rfl (satAdd_lt _ _)
  obtain ⟨w3, c3⟩ := r3
  dsimp only at hr3 ⊢
  refine tot3_bind (tot3_of_tot (tot_acct hr3.2)) (fun bacc hbacc => ?_)
  refine tot3_bind (P := fun _ => True) ?_ (fun cls _ => ?_)
  · obtain ⟨c, hc⟩ := classOf_some hres
    rw [hc]
    exact tot3_pure trivial
  · have hw4 : ∀ acc' : Journal.Acct, acc'.storage = bacc.storage → acc'.info.balance < W →
        WOk { w3 with js := Journal.setAcct w3.js e.block.coinbase acc' } :=
      fun acc' h1 h2 => (wok_setInfo hr3.1.ok hbacc h1 h2).ok
    refine tot3_pure ?_
    exact hw4 _ rfl (satAdd_lt _ _)


theorem tot3_prepare {w : World} (h : WOk w) (e : Evm.Env) (spec ig : Nat)
    (hfee : GasCalc.enabled spec GasCalc.SpecId.CANCUN = true → e.block.blobGasPrice.isSome) :
    Tot3 (prepare journalOps e spec ig w) FirstOk := by
  unfold prepare
  dsimp only
  refine tot3_bind (tot3_deductCaller (wok_loadAccounts e spec h) e spec hfee) (fun wd hd => ?_)
  refine tot3_bind (tot3_applyAuthList hd.ok e spec) (fun p hp => ?_)
  obtain ⟨wa, rf⟩ := p
  dsimp only at hp ⊢
  split
  · refine tot3_bind' (tot3_makeFrame (cfg := e.toCfg spec) hp.ok (.call _) Memory.new
      (by intro i hx; cases hx)) (fun q heq hq => ?_)
    obtain ⟨f, wf⟩ := q
    exact tot3_pure (first_of_fout hp.ok hq.1 hq.2 (fun r hr => by subst hr; exact makeCallFrame_rgood heq) _ _)
  · refine tot3_bind' (tot3_makeFrame (cfg := e.toCfg spec) hp.ok (.create _) Memory.new
      (by intro i hx; cases hx)) (fun q heq hq => ?_)
    obtain ⟨f, wf⟩ := q
    exact tot3_pure (first_of_fout hp.ok hq.1 hq.2 (fun r hr => by subst hr; exact makeCreateFrame_rgood heq) _ _)


end Revm.Proofs.EvmLink
