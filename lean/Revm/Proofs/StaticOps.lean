import Revm.Proofs.StaticBase
namespace Revm.Proofs.Static
open Revm Revm.Model.Journal Revm.Spec.JournalAbs Revm.Model.Static

theorem benign_setAcct_upd {db : Db} {s : JState} {a : Addr} {acc acc' : Acct} (h : s.state a = some acc)
    (hs : AcctSim db a acc acc') : Benign db s (setAcct s a acc') := by
  refine ⟨fun b => ?_, rfl, rfl, rfl, rfl, JournalExt.refl _⟩
  by_cases hb : b = a
  · subst hb
    simp only [setAcct, if_true]
    rw [h]; exact hs
  · simp only [setAcct, hb, if_false]; exact StateSim.refl _ _ _

theorem benign_setAcct_ins {db : Db} {s : JState} {a : Addr} {acc' : Acct} (h : s.state a = none)
    (hs : AcctSim db a (fresh db a) acc') : Benign db s (setAcct s a acc') := by
  refine ⟨fun b => ?_, rfl, rfl, rfl, rfl, JournalExt.refl _⟩
  by_cases hb : b = a
  · subst hb
    simp only [setAcct, if_true]
    rw [h]; exact hs
  · simp only [setAcct, hb, if_false]; exact StateSim.refl _ _ _

/-- two updates of the same address: only the last one counts -/
theorem benign_setAcct2 {db : Db} {s : JState} {a : Addr} {acc x acc' : Acct} (h : s.state a = some acc)
    (hs : AcctSim db a acc acc') : Benign db s (setAcct (setAcct s a x) a acc') := by
  refine ⟨fun b => ?_, rfl, rfl, rfl, rfl, JournalExt.refl _⟩
  by_cases hb : b = a
  · subst hb
    simp only [setAcct, if_true]
    rw [h]; exact hs
  · simp only [setAcct, hb, if_false]; exact StateSim.refl _ _ _

theorem pushEntry_eq {s : JState} {e : Entry} {s' : JState} (h : pushEntry s e = some s') :
    ∃ l rest, s.journal = l :: rest ∧ s' = { s with journal := (e :: l) :: rest } := by
  unfold pushEntry at h
  cases hj : s.journal with
  | nil => simp [hj] at h
  | cons l rest => simp only [hj, Option.some.injEq] at h; exact ⟨l, rest, rfl, h.symm⟩

theorem pushEntry_state {s : JState} {e : Entry} {s' : JState} (h : pushEntry s e = some s') : s'.state = s.state := by
  obtain ⟨l, rest, _, rfl⟩ := pushEntry_eq h; rfl

theorem benign_push {db : Db} {s : JState} {e : Entry} {s' : JState} (hb : benignEntry e = true)
    (h : pushEntry s e = some s') : Benign db s s' := by
  obtain ⟨l, rest, hj, rfl⟩ := pushEntry_eq h
  refine ⟨fun a => StateSim.refl _ _ _, rfl, rfl, rfl, rfl, ?_⟩
  show JournalExt s.journal ((e :: l) :: rest)
  rw [hj]
  exact ⟨[e], by simpa using hb, rfl⟩

theorem touchAccount_spec {db : Db} {s : JState} {a : Addr} {acc : Acct} {s' : JState} {acc' : Acct}
    (hst : s.state a = some acc) (h : touchAccount s a acc = some (s', acc')) :
    Benign db s s' ∧ s'.state a = some acc' ∧ AcctSim db a acc acc' ∧ acc'.touched = true := by
  unfold touchAccount at h
  cases ht : acc.touched with
  | true =>
    simp [ht] at h
    obtain ⟨rfl, rfl⟩ := h
    exact ⟨Benign.refl _ _, hst, AcctSim.refl _ _ _, ht⟩
  | false =>
    cases hp : pushEntry s (.accountTouched a) with
    | none => simp [ht, hp] at h
    | some s1 =>
      simp [ht, hp] at h
      obtain ⟨rfl, rfl⟩ := h
      have h1 : s1.state a = some acc := by rw [pushEntry_state hp]; exact hst
      have hsim : AcctSim db a acc { acc with touched := true } := ⟨rfl, rfl, rfl, rfl, rfl, rfl, fun _ => rfl⟩
      refine ⟨(benign_push rfl hp).trans (benign_setAcct_upd h1 hsim), ?_, hsim, rfl⟩
      simp [setAcct]

theorem touch_benign {db : Db} {s : JState} {a : Addr} {s' : JState} (h : touch s a = some s') : Benign db s s' := by
  unfold touch at h
  cases hst : s.state a with
  | none => simp [hst] at h; subst h; exact Benign.refl _ _
  | some acc =>
    simp only [hst] at h
    cases ht : touchAccount s a acc with
    | none => simp [ht] at h
    | some p =>
      obtain ⟨s1, acc1⟩ := p
      simp [ht] at h
      subst h
      exact (touchAccount_spec hst ht).1

theorem loadAccount_vacant {db : Db} {s : JState} {a : Addr} {s' : JState} {c : Bool} {accNew : Acct}
    (hst : s.state a = none) (hf : AcctSim db a (fresh db a) accNew)
    (h : (if (!s.preloaded a) = true then
            Option.map (fun x => (x, true)) (pushEntry (setAcct s a accNew) (Entry.accountWarmed a))
          else some (setAcct s a accNew, false)) = some (s', c)) : Benign db s s' := by
  have hu : Benign db s (setAcct s a accNew) := benign_setAcct_ins hst hf
  cases hc : s.preloaded a with
  | false =>
    cases hp : pushEntry (setAcct s a accNew) (.accountWarmed a) with
    | none => simp [hc, hp] at h
    | some s1 =>
      simp [hc, hp] at h
      obtain ⟨rfl, _⟩ := h
      exact hu.trans (benign_push rfl hp)
  | true =>
    simp [hc] at h
    obtain ⟨rfl, _⟩ := h
    exact hu

theorem loadAccount_benign {db : Db} {s : JState} {a : Addr} {s' : JState} {c : Bool}
    (h : loadAccount db s a = some (s', c)) : Benign db s s' := by
  unfold loadAccount at h
  cases hst : s.state a with
  | some acc =>
    simp only [hst] at h
    have hu : Benign db s (setAcct s a { acc with cold := false }) :=
      benign_setAcct_upd hst ⟨rfl, rfl, rfl, rfl, rfl, rfl, fun _ => rfl⟩
    cases hc : acc.cold with
    | true =>
      cases hp : pushEntry (setAcct s a { acc with cold := false }) (.accountWarmed a) with
      | none => simp [hc, hp] at h
      | some s1 =>
        simp [hc, hp] at h
        obtain ⟨rfl, _⟩ := h
        exact hu.trans (benign_push rfl hp)
    | false =>
      simp [hc] at h
      obtain ⟨rfl, _⟩ := h
      exact hu
  | none =>
    simp only [hst] at h
    exact loadAccount_vacant hst (by unfold fresh; exact AcctSim.refl _ _ _) h

theorem loadCode_benign {db : Db} {s : JState} {a : Addr} {s' : JState} {c : Bool}
    (h : loadCode db s a = some (s', c)) : Benign db s s' := by
  unfold loadCode at h
  cases h1 : loadAccount db s a with
  | none => simp [h1] at h
  | some p =>
    obtain ⟨s1, c1⟩ := p
    have hb1 := loadAccount_benign h1
    cases hacc : s1.state a with
    | none => simp [h1, hacc] at h
    | some acc =>
      cases hcode : acc.info.code with
      | none =>
        simp [h1, hacc, hcode] at h
        obtain ⟨rfl, _⟩ := h
        exact hb1.trans (benign_setAcct_upd hacc ⟨rfl, rfl, rfl, rfl, rfl, rfl, fun _ => rfl⟩)
      | some hc =>
        simp [h1, hacc, hcode] at h
        obtain ⟨rfl, _⟩ := h
        exact hb1

theorem loadAccountDelegated_benign {db : Db} {s : JState} {a : Addr} {s' : JState} {x : Bool × Bool × Option Bool}
    (h : loadAccountDelegated db s a = some (s', x)) : Benign db s s' := by
  unfold loadAccountDelegated at h
  cases h1 : loadCode db s a with
  | none => simp [h1] at h
  | some p =>
    obtain ⟨s1, c1⟩ := p
    have hb1 := loadCode_benign h1
    cases hacc : s1.state a with
    | none => simp [h1, hacc] at h
    | some acc =>
      cases hd : acc.info.code.bind db.delegate with
      | none =>
        simp [h1, hacc, hd] at h
        obtain ⟨rfl, _⟩ := h
        exact hb1
      | some d =>
        cases h2 : loadAccount db s1 d with
        | none => simp [h1, hacc, hd, h2] at h
        | some q =>
          obtain ⟨s2, c2⟩ := q
          simp [h1, hacc, hd, h2] at h
          obtain ⟨rfl, _⟩ := h
          exact hb1.trans (loadAccount_benign h2)

theorem sim_setSlot_mark {db : Db} {a : Addr} {acc : Acct} {k : Nat} {sl : Slot} (c : Bool) (hsl : acc.storage k = some sl) :
    AcctSim db a acc (setSlot acc k { sl with cold := c }) := by
  refine ⟨rfl, rfl, rfl, rfl, rfl, rfl, fun k' => ?_⟩
  by_cases hk : k' = k
  · subst hk; simp [slotView, absSlot, setSlot, hsl]
  · simp [slotView, absSlot, setSlot, hk]; first | done | exact ⟨rfl, rfl⟩

theorem sim_setSlot_load {db : Db} {a : Addr} {acc : Acct} {k : Nat} (c : Bool) (hsl : acc.storage k = none) :
    AcctSim db a acc (setSlot acc k ⟨(if acc.created then 0 else db.storage a k), (if acc.created then 0 else db.storage a k), c⟩) := by
  refine ⟨rfl, rfl, rfl, rfl, rfl, rfl, fun k' => ?_⟩
  by_cases hk : k' = k
  · subst hk; simp [slotView, absSlot, setSlot, hsl]; first | done | exact ⟨rfl, rfl⟩
  · simp [slotView, absSlot, setSlot, hk]; first | done | exact ⟨rfl, rfl⟩

theorem sload_benign {db : Db} {s : JState} {a : Addr} {k : Nat} {s' : JState} {x : Nat × Bool}
    (h : sload db s a k = some (s', x)) : Benign db s s' := by
  unfold sload at h
  cases hacc : s.state a with
  | none => simp [hacc] at h
  | some acc =>
    cases hsl : acc.storage k with
    | some sl =>
      have hu := benign_setAcct_upd (db := db) hacc (sim_setSlot_mark (db := db) (a := a) false hsl)
      cases hc : sl.cold with
      | true =>
        cases hp : pushEntry (setAcct s a (setSlot acc k { sl with cold := false })) (.storageWarmed a k) with
        | none => simp [hacc, hsl, hc, hp] at h
        | some s1 =>
          simp [hacc, hsl, hc, hp] at h
          obtain ⟨rfl, _⟩ := h
          exact hu.trans (benign_push rfl hp)
      | false =>
        simp [hacc, hsl, hc] at h
        obtain ⟨rfl, _⟩ := h
        exact hu
    | none =>
      have hu := benign_setAcct_upd (db := db) hacc (sim_setSlot_load (db := db) (a := a) false hsl)
      cases hp : pushEntry (setAcct s a (setSlot acc k ⟨(if acc.created then 0 else db.storage a k), (if acc.created then 0 else db.storage a k), false⟩)) (.storageWarmed a k) with
      | none => simp [hacc, hsl, hp] at h
      | some s1 =>
        simp [hacc, hsl, hp] at h
        obtain ⟨rfl, _⟩ := h
        exact hu.trans (benign_push rfl hp)

end Revm.Proofs.Static
