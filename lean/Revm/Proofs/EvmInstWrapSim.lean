import Revm.Proofs.EvmInstWrapSimRel
/-! Instantiating C28 with the whole-EVM model, part 4d: THE SIMULATION of the frame loop. Every completed run of the
concrete loop (`Evm.runLoop` / `Evm.runEnded`, one unit of fuel per instruction of the top frame) is a run of the abstract
driver `Machine.loop` of `evmMachine` (nested fuel: `loop n` runs `runInterp n`) with the same `FrameResult` and the same
world, on some fuel — and then on every larger fuel (`loop_mono_le`).

The one fact about the instruction set that is used: no handler stops the frame with `instruction_result = Continue`
(`InstrNC`, proved in `EvmInstWrapNoCont*`): the abstract `while` loop tests exactly that value. -/
namespace Revm.Proofs.EvmInstWrap
open Revm Revm.Model Revm.Model.Evm
open Revm.Model.InspectorWrap (Machine LoopNext FrameResult)

variable {κ : Type} (C : CpOps κ) (cfg : Cfg) (lim : Nat)

/-! ## one instruction of the abstract machine -/

theorem evm_step (st0 : AState κ) (c : ECtx) (op : Nat) (hop : st0.rest.code[st0.ip]? = some op) :
    (evmMachine C cfg lim).step st0 c =
      ofOutcome cfg { st0 with ip := st0.ip + 1 } c
        (Interp.execInstr (Interp.decode op) { sync st0 st0.mem with pc := st0.ip + 1 }) := by
  show evmTable cfg (evmFetch st0) { st0 with ip := st0.ip + 1 } c = _
  unfold evmTable evmFetch
  simp only [Nat.add_sub_cancel, hop, Option.getD]
  rfl

theorem interp_step_some (s : Interp.IState) (op : Nat) (hop : s.code[s.pc]? = some op) :
    Interp.step s = Interp.execInstr (Interp.decode op) { s with pc := s.pc + 1 } := by
  unfold Interp.step
  rw [hop]

theorem interp_step_none (s : Interp.IState) (hop : s.code[s.pc]? = none) : Interp.step s = .fault .oobCode := by
  unfold Interp.step
  rw [hop]

/-! ## the concrete loop, one iteration at a time -/

/-- how the concrete loop continues from a `Next` -/
def contOf (fuel : Nat) : Next κ → R (Interp.ChildResult × World)
  | .run st w => runLoop C cfg fuel st w
  | .ended t r res o s w => runEnded C cfg fuel t r res o s w
  | .done r w => pure (r, w)

theorem runLoop_succ (fuel : Nat) (stack : List (Frame κ)) (w : World) :
    runLoop C cfg (fuel + 1) stack w = (iterate C cfg stack w >>= contOf C cfg fuel) := by
  rw [runLoop]
  simp only [bind, Except.bind]
  cases iterate C cfg stack w with
  | error e => rfl
  | ok n => cases n <;> rfl

theorem runEnded_succ (fuel : Nat) (top : Frame κ) (rest : List (Frame κ)) (r : Interp.IResult) (out : List Nat)
    (s : Interp.IState) (w : World) :
    runEnded C cfg (fuel + 1) top rest r out s w = (frameEnd C cfg top rest r out s w >>= contOf C cfg fuel) := by
  rw [runEnded]
  simp only [bind, Except.bind]
  cases frameEnd C cfg top rest r out s w with
  | error e => rfl
  | ok n => cases n <;> rfl

/-! ## one iteration of the concrete loop against the abstract loop -/

/-- the abstract loop follows one iteration of the concrete one: the transaction's first frame returned, or the abstract
loop reaches a related state on (at most) two units of fuel more -/
def StepOK (next' : Next κ) (astack : List (AFrame κ)) (shared : Memory.SharedMemory) (c : ECtx) (bk : FrameKind) :
    Prop :=
  (∃ res w1 l, next' = .done res w1 ∧
    ∀ n, (evmMachine C cfg lim).loop (n + 3) astack shared c =
      some (.ok (frOfKind bk l res, { w := w1, err := none }))) ∨
  (∃ astack' shared' c', Rel next' astack' shared' c' ∧ nextBottom next' = some bk ∧
    ∀ n x, (evmMachine C cfg lim).loop n astack' shared' c' = some x →
      (evmMachine C cfg lim).loop (n + 2) astack shared c = some x)

/-- the top frame's `while` loop returns `(st1, c1)`; then `handle_action` follows the concrete loop -/
theorem stepOK_of_handle (f : AFrame κ) (arest : List (AFrame κ)) (shared : Memory.SharedMemory) (c : ECtx)
    (st1 : AState κ) (c1 : ECtx) (next' : Next κ) (bk : FrameKind)
    (hrun : ∀ n, (evmMachine C cfg lim).runInterp (n + 2) { f.interp with nextAction := .none, mem := shared } c =
      some (st1, c1))
    (htake : (evmMachine C cfg lim).takeError (framePost (evmMachine C cfg lim) f st1 c1).2.2.2 =
      .ok (framePost (evmMachine C cfg lim) f st1 c1).2.2.2)
    (hh : HandleOK ((evmMachine C cfg lim).handleAction (framePost (evmMachine C cfg lim) f st1 c1).1
      (framePost (evmMachine C cfg lim) f st1 c1).2.1 arest (framePost (evmMachine C cfg lim) f st1 c1).2.2.1
      (framePost (evmMachine C cfg lim) f st1 c1).2.2.2) next' bk) :
    StepOK C cfg lim next' (f :: arest) shared c bk := by
  have key : ∀ n, (evmMachine C cfg lim).loop (n + 3) (f :: arest) shared c =
      loopNext (evmMachine C cfg lim) (n + 2)
        ((evmMachine C cfg lim).handleAction (framePost (evmMachine C cfg lim) f st1 c1).1
          (framePost (evmMachine C cfg lim) f st1 c1).2.1 arest (framePost (evmMachine C cfg lim) f st1 c1).2.2.1
          (framePost (evmMachine C cfg lim) f st1 c1).2.2.2) := by
    intro n
    rw [loop_of_runInterp (evmMachine C cfg lim) (n + 2) f arest shared c st1 c1 (hrun n)]
    unfold loopTail
    rw [htake]
    rfl
  rcases hh with ⟨res, w1, l, hn, he⟩ | ⟨as', sh', c', he, hrel, hb⟩
  · exact .inl ⟨res, w1, l, hn, fun n => by rw [key, he]; rfl⟩
  · refine .inr ⟨as', sh', c', hrel, hb, fun n x hx => ?_⟩
    cases n with
    | zero => rw [loop_zero] at hx; simp at hx
    | succ k =>
      have hm := loop_mono (evmMachine C cfg lim) (k + 1) as' sh' c' x hx
      rw [key, he]
      exact hm

/-- after one resolved instruction `d` of the running frame -/
theorem afterStep_sim (f : AFrame κ) (arest : List (AFrame κ)) (top : Frame κ) (crest : List (Frame κ))
    (shared : Memory.SharedMemory) (w w1 : World) (hk : KindRel f top)
    (hc : f.interp.instructionResult = .Continue) (hr : StackRel arest crest) (d : Interp.Done) (hd : DoneNC d)
    (hstep : (evmMachine C cfg lim).step { f.interp with nextAction := .none, mem := shared } { w := w, err := none } =
      ofDone { f.interp with nextAction := .none, mem := shared, ip := f.interp.ip + 1 } { w := w1, err := none } d)
    (next' : Next κ) (h : afterStep C cfg top crest d w1 = .ok next') :
    StepOK C cfg lim next' (f :: arest) shared { w := w, err := none } (bottomKind top crest) := by
  unfold afterStep at h
  have hc0 : ({ f.interp with nextAction := .none, mem := shared } : AState κ).instructionResult = .Continue := hc
  cases d with
  | next s1 =>
    simp only [pure, Except.pure, Except.ok.injEq] at h
    subst h
    have hstep' : (evmMachine C cfg lim).step { f.interp with nextAction := .none, mem := shared }
        { w := w, err := none } = (unsync s1 .Continue .none, { w := w1, err := none }) := by
      rw [hstep]; simp only [ofDone, hc]
    refine .inr ⟨{ f with interp := unsync s1 .Continue .none } :: arest, s1.mem, { w := w1, err := none },
      Rel.run ⟨hk.kind, hk.data⟩ rfl rfl hr, ?_, fun n x hx => ?_⟩
    · show some (bottomKind { top with interp := s1 } crest) = _
      rw [bottomKind_interp]
    · exact loop_mono _ _ _ _ _ x
        (loop_after_step (evmMachine C cfg lim) f arest shared _ hc _ _ hstep' rfl n x hx)
  | action a s1 =>
    have hstep' : (evmMachine C cfg lim).step { f.interp with nextAction := .none, mem := shared }
        { w := w, err := none } = (unsync s1 .CallOrCreate (actionOf a), { w := w1, err := none }) := by
      rw [hstep]; rfl
    have hrun : ∀ n, (evmMachine C cfg lim).runInterp (n + 2) { f.interp with nextAction := .none, mem := shared }
        { w := w, err := none } = some (unsync s1 .CallOrCreate (actionOf a), { w := w1, err := none }) := by
      intro n
      rw [runInterp_last (evmMachine C cfg lim) n _ _ hc0 (by rw [hstep']; exact (by decide : InspectorWrap.IR.CallOrCreate ≠ InspectorWrap.IR.Continue)),
        hstep']
    have hpost : framePost (evmMachine C cfg lim) f (unsync s1 .CallOrCreate (actionOf a)) { w := w1, err := none } =
        (actionOf a, { f with interp := { unsync s1 .CallOrCreate (.none : AAction κ) with mem := Memory.new } },
          s1.mem, { w := w1, err := none }) := by
      cases a <;> rfl
    refine stepOK_of_handle C cfg lim f arest shared _ _ _ next' _ hrun ?_ ?_
    · rw [hpost]; rfl
    · rw [hpost]
      exact frameAction_sim C cfg lim
        { f with interp := { unsync s1 .CallOrCreate (.none : AAction κ) with mem := Memory.new } } top crest arest a s1
        w1 ⟨hk.kind, hk.data⟩ (fun X => rfl) hr next' h
  | halt r out s1 =>
    have hne : r ≠ .Continue := by cases hd with | halt hne _ _ => exact hne
    have hne' : toIR r ≠ InspectorWrap.IR.Continue := fun e => hne (toIR_eq_continue.mp e)
    have hstep' : (evmMachine C cfg lim).step { f.interp with nextAction := .none, mem := shared }
        { w := w, err := none } =
        (unsync s1 (toIR r) (.ret { result := toIR r, output := out, gas := s1.gas }), { w := w1, err := none }) := by
      rw [hstep]; rfl
    have hrun : ∀ n, (evmMachine C cfg lim).runInterp (n + 2) { f.interp with nextAction := .none, mem := shared }
        { w := w, err := none } =
        some (unsync s1 (toIR r) (.ret { result := toIR r, output := out, gas := s1.gas }),
          { w := w1, err := none }) := by
      intro n
      rw [runInterp_last (evmMachine C cfg lim) n _ _ hc0 (by rw [hstep']; exact hne'), hstep']
    refine stepOK_of_handle C cfg lim f arest shared _ _ _ next' _ hrun rfl ?_
    exact frameEnd_sim C cfg lim
      { f with interp := { unsync s1 (toIR r) (.none : AAction κ) with mem := Memory.new } } top crest arest r out s1 w1
      ⟨hk.kind, hk.data⟩ hr next' h
  | fault fl => simp [throw, throwThe, MonadExceptOf.throw] at h

/-- one iteration of `run_the_loop` on a running top frame -/
theorem iterate_sim (hNC : InstrNC) (f : AFrame κ) (arest : List (AFrame κ)) (top : Frame κ)
    (crest : List (Frame κ)) (shared : Memory.SharedMemory) (w : World) (hk : KindRel f top)
    (hs : sync f.interp shared = top.interp) (hc : f.interp.instructionResult = .Continue)
    (hr : StackRel arest crest) (next' : Next κ) (h : iterate C cfg (top :: crest) w = .ok next') :
    StepOK C cfg lim next' (f :: arest) shared { w := w, err := none } (bottomKind top crest) := by
  unfold iterate at h
  simp only at h
  cases hcode : top.interp.code[top.interp.pc]? with
  | none =>
    rw [interp_step_none _ hcode] at h
    simp [afterStep, throw, throwThe, MonadExceptOf.throw] at h
  | some op =>
    rw [interp_step_some _ op hcode] at h
    have hop : ({ f.interp with nextAction := .none, mem := shared } : AState κ).rest.code[
        ({ f.interp with nextAction := .none, mem := shared } : AState κ).ip]? = some op := by
      rw [← hs] at hcode; exact hcode
    have hstep := evm_step C cfg lim { f.interp with nextAction := .none, mem := shared } { w := w, err := none } op hop
    have hsy : ({ sync ({ f.interp with nextAction := .none, mem := shared } : AState κ) shared with
        pc := f.interp.ip + 1 } : Interp.IState) = { top.interp with pc := top.interp.pc + 1 } := by
      rw [← hs]; rfl
    rw [show ({ sync ({ f.interp with nextAction := .none, mem := shared } : AState κ)
        ({ f.interp with nextAction := .none, mem := shared } : AState κ).mem with
        pc := ({ f.interp with nextAction := .none, mem := shared } : AState κ).ip + 1 } : Interp.IState) =
        { top.interp with pc := top.interp.pc + 1 } from hsy] at hstep
    have hnc := hNC (Interp.decode op) { top.interp with pc := top.interp.pc + 1 }
    generalize Interp.execInstr (Interp.decode op) { top.interp with pc := top.interp.pc + 1 } = o at h hstep hnc
    cases o with
    | pure d =>
      have hd : DoneNC d := by cases hnc with | pure hd => exact hd
      exact afterStep_sim C cfg lim f arest top crest shared w w hk hc hr d hd hstep next' h
    | host hop k =>
      have hd : ∀ resp, DoneNC (k resp) := by cases hnc with | host _ hd => exact hd
      simp only [bind, Except.bind] at h
      cases ha : answer cfg.he w hop with
      | error e => rw [ha] at h; simp at h
      | ok p =>
        obtain ⟨resp, w1⟩ := p
        rw [ha] at h
        simp only at h
        have hstep' : (evmMachine C cfg lim).step { f.interp with nextAction := .none, mem := shared }
            { w := w, err := none } =
            ofDone { f.interp with nextAction := .none, mem := shared, ip := f.interp.ip + 1 }
              { w := w1, err := none } (k resp) := by
          rw [hstep]
          simp only [ofOutcome, ha, ofAnswer]
        exact afterStep_sim C cfg lim f arest top crest shared w w1 hk hc hr (k resp) (hd resp) hstep' next' h

/-- one iteration on a top frame that ended without an instruction -/
theorem ended_sim (f : AFrame κ) (arest : List (AFrame κ)) (top : Frame κ) (crest : List (Frame κ))
    (shared : Memory.SharedMemory) (w : World) (r : Interp.IResult) (s : Interp.IState) (hk : KindRel f top)
    (hs : sync f.interp shared = s) (hc : f.interp.instructionResult = toIR r) (hne : r ≠ .Continue)
    (hr : StackRel arest crest) (next' : Next κ) (h : frameEnd C cfg top crest r [] s w = .ok next') :
    StepOK C cfg lim next' (f :: arest) shared { w := w, err := none } (bottomKind top crest) := by
  subst hs
  have hne' : ({ f.interp with nextAction := .none, mem := shared } : AState κ).instructionResult ≠ InspectorWrap.IR.Continue := by
    show f.interp.instructionResult ≠ _
    rw [hc]; exact fun e => hne (toIR_eq_continue.mp e)
  have hrun : ∀ n, (evmMachine C cfg lim).runInterp (n + 2) { f.interp with nextAction := .none, mem := shared }
      { w := w, err := none } =
      some ({ f.interp with nextAction := .none, mem := shared }, { w := w, err := none }) :=
    fun n => runInterp_halted _ (n + 1) _ _ hne'
  refine stepOK_of_handle C cfg lim f arest shared _ _ _ next' _ hrun rfl ?_
  have hfe := frameEnd_sim C cfg lim
    { f with interp := { ({ f.interp with nextAction := .none, mem := shared } : AState κ) with mem := Memory.new } }
    top crest arest r [] (sync f.interp shared) w ⟨hk.kind, hk.data⟩ hr next' h
  rw [← hc] at hfe
  exact hfe

/-! ## the loop -/

/-- **the frame loop of the whole-EVM model is a run of the abstract driver.** From related states, a completed run of
the concrete loop (any fuel) is matched by the abstract loop on some fuel `N`: same `FrameResult` (of the kind of the
transaction's first frame), same world, error slot empty. -/
theorem loop_sim (hNC : InstrNC) : ∀ (fuel : Nat) (next : Next κ) (astack : List (AFrame κ))
    (shared : Memory.SharedMemory) (c : ECtx) (bk : FrameKind) (res : Interp.ChildResult) (w' : World),
    Rel next astack shared c → nextBottom next = some bk → contOf C cfg fuel next = .ok (res, w') →
    ∃ N l, (evmMachine C cfg lim).loop N astack shared c =
      some (.ok (frOfKind bk l res, { w := w', err := none })) := by
  intro fuel
  induction fuel with
  | zero =>
    intro next astack shared c bk res w' hrel _ h
    cases hrel with
    | run => simp [contOf, runLoop, throw, throwThe, MonadExceptOf.throw] at h
    | ended => simp [contOf, runEnded, throw, throwThe, MonadExceptOf.throw] at h
  | succ n ih =>
    intro next astack shared c bk res w' hrel hb h
    have fin : ∀ (next' : Next κ) (as : List (AFrame κ)) (sh : Memory.SharedMemory) (cc : ECtx),
        StepOK C cfg lim next' as sh cc bk → contOf C cfg n next' = .ok (res, w') →
        ∃ N l, (evmMachine C cfg lim).loop N as sh cc = some (.ok (frOfKind bk l res, { w := w', err := none })) := by
      intro next' as sh cc hst hcont
      rcases hst with ⟨res1, w1, l, hn, hl⟩ | ⟨as', sh', c', hrel', hb', hl⟩
      · subst hn
        simp only [contOf, pure, Except.pure, Except.ok.injEq, Prod.mk.injEq] at hcont
        obtain ⟨rfl, rfl⟩ := hcont
        exact ⟨3, l, hl 0⟩
      · obtain ⟨N, l, hN⟩ := ih next' as' sh' c' bk res w' hrel' hb' hcont
        exact ⟨N + 2, l, hl N _ hN⟩
    cases hrel with
    | @run f arest top crest shared w hk hs hc hr =>
      simp only [nextBottom, Option.some.injEq] at hb
      subst hb
      simp only [contOf] at h
      rw [runLoop_succ] at h
      simp only [bind, Except.bind] at h
      cases hi : iterate C cfg (top :: crest) w with
      | error e => rw [hi] at h; simp at h
      | ok next' =>
        rw [hi] at h
        exact fin next' _ _ _ (iterate_sim C cfg lim hNC f arest top crest shared w hk hs hc hr next' hi) h
    | @ended f arest top crest r s shared w hk hs hc hne hr =>
      simp only [nextBottom, Option.some.injEq] at hb
      subst hb
      simp only [contOf] at h
      rw [runEnded_succ] at h
      simp only [bind, Except.bind] at h
      cases hi : frameEnd C cfg top crest r [] s w with
      | error e => rw [hi] at h; simp at h
      | ok next' =>
        rw [hi] at h
        exact fin next' _ _ _ (ended_sim C cfg lim f arest top crest shared w r s hk hs hc hne hr next' hi) h

end Revm.Proofs.EvmInstWrap
